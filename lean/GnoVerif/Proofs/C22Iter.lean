/-
Helper lemmas for C22, part 3: dirty items, memIterator, and the iterator of
every store kind against `OMap.range` of the view.  Core-only.
-/
import GnoVerif.Proofs.C22View
import GnoVerif.Proofs.C22Merge

namespace GnoVerif.C22
open GnoVerif GnoVerif.Lex GnoVerif.OMap

/-! ### mergeSorted (the loop of dirtyItems) -/

theorem mem_mergeSorted {u s : List Item} {x : Item} (h : x ∈ mergeSorted u s) : x ∈ u ∨ x ∈ s := by
  fun_induction mergeSorted u s with
  | case1 s => exact Or.inr h
  | case2 u us => exact Or.inl h
  | case3 u us x' xs hc ih =>
    rcases List.mem_cons.1 h with rfl | h
    · simp
    · rcases ih h with h | h
      · exact Or.inl (List.mem_cons_of_mem _ h)
      · exact Or.inr h
  | case4 u us x' xs hc ih =>
    rcases List.mem_cons.1 h with rfl | h
    · simp
    · rcases ih h with h | h
      · exact Or.inl h
      · exact Or.inr (List.mem_cons_of_mem _ h)
  | case5 u us x' xs hc ih =>
    rcases List.mem_cons.1 h with rfl | h
    · simp
    · rcases ih h with h | h
      · exact Or.inl (List.mem_cons_of_mem _ h)
      · exact Or.inr (List.mem_cons_of_mem _ h)

theorem sorted_mergeSorted {u s : List Item} (hu : Sorted u) (hs : Sorted s) :
    Sorted (mergeSorted u s) := by
  fun_induction mergeSorted u s with
  | case1 s => exact hs
  | case2 u us => exact hu
  | case3 u us x xs hc ih =>
    have hu' := List.pairwise_cons.1 hu
    have hs' := List.pairwise_cons.1 hs
    have hlt : u.1 < x.1 := cmp_lt_iff.1 hc
    apply List.pairwise_cons.2 ⟨?_, ih hu'.2 hs⟩
    intro y hy
    rcases mem_mergeSorted hy with hy | hy
    · exact hu'.1 y hy
    · rcases List.mem_cons.1 hy with rfl | hy
      · exact hlt
      · exact Lex.lt_trans hlt (hs'.1 y hy)
  | case4 u us x xs hc ih =>
    have hu' := List.pairwise_cons.1 hu
    have hs' := List.pairwise_cons.1 hs
    have hgt : x.1 < u.1 := cmp_gt_iff.1 hc
    apply List.pairwise_cons.2 ⟨?_, ih hu hs'.2⟩
    intro y hy
    rcases mem_mergeSorted hy with hy | hy
    · rcases List.mem_cons.1 hy with rfl | hy
      · exact hgt
      · exact Lex.lt_trans hgt (hu'.1 y hy)
    · exact hs'.1 y hy
  | case5 u us x xs hc ih =>
    have hu' := List.pairwise_cons.1 hu
    have hs' := List.pairwise_cons.1 hs
    have heq : u.1 = x.1 := cmp_eq_iff.1 hc
    apply List.pairwise_cons.2 ⟨?_, ih hu'.2 hs'.2⟩
    intro y hy
    rcases mem_mergeSorted hy with hy | hy
    · exact hu'.1 y hy
    · show u.1 < y.1
      rw [heq]; exact hs'.1 y hy

theorem get_mergeSorted {u s : List Item} (hu : Sorted u) (hs : Sorted s) (k : Bytes) :
    OMap.get (mergeSorted u s) k =
      match OMap.get u k with
      | some v => some v
      | none => OMap.get s k := by
  fun_induction mergeSorted u s with
  | case1 s => rfl
  | case2 u us => cases OMap.get (u :: us) k <;> rfl
  | case3 u us x xs hc ih =>
    have hu' := List.pairwise_cons.1 hu
    obtain ⟨uk, uv⟩ := u
    have ih' := ih hu'.2 hs
    simp only [get_cons] at ih' ⊢
    rw [ih']
    by_cases h : uk = k <;> simp [h]
  | case4 u us x xs hc ih =>
    have hu' := List.pairwise_cons.1 hu
    have hs' := List.pairwise_cons.1 hs
    have hgt : x.1 < u.1 := cmp_gt_iff.1 hc
    obtain ⟨xk, xv⟩ := x
    have ih' := ih hu hs'.2
    rw [get_cons xk xv (mergeSorted (u :: us) xs) k, ih', get_cons xk xv xs k]
    by_cases h : xk = k
    · subst h
      have : OMap.get (u :: us) xk = none := by
        apply get_eq_none_of_lt
        intro y hy
        rcases List.mem_cons.1 hy with rfl | hy
        · exact hgt
        · exact Lex.lt_trans hgt (hu'.1 y hy)
      rw [this]
    · simp only [h, if_false]
  | case5 u us x xs hc ih =>
    have hu' := List.pairwise_cons.1 hu
    have hs' := List.pairwise_cons.1 hs
    have heq : u.1 = x.1 := cmp_eq_iff.1 hc
    obtain ⟨uk, uv⟩ := u
    obtain ⟨xk, xv⟩ := x
    simp only at heq
    subst heq
    have ih' := ih hu'.2 hs'.2
    simp only [get_cons] at ih' ⊢
    rw [ih']
    by_cases h : uk = k <;> simp [h]

/-! ### memItems (newMemIterator) = filter on a sorted list -/

theorem memItems_eq_filter (s e : Option Bytes) (l : List Item) (hs : Sorted l) (entered : Bool)
    (hent : entered = true → ∀ x ∈ l, ∀ a, s = some a → a ≤ x.1) :
    memItems s e l entered = l.filter (fun x => inDomain x.1 s e) := by
  induction l generalizing entered with
  | nil => rfl
  | cons x xs ih =>
    have hs' := List.pairwise_cons.1 hs
    simp only [memItems, List.filter_cons]
    by_cases hd : inDomain x.1 s e = true
    · simp only [hd, Bool.not_true, Bool.false_eq_true, if_false, if_true]
      congr 1
      apply ih hs'.2 true
      intro _ y hy a ha
      have h1 := (inDomain_iff.1 hd).1 a ha
      exact Lex.le_of_lt (Lex.lt_of_le_of_lt h1 (hs'.1 y hy))
    · have hd' : inDomain x.1 s e = false := by simpa using hd
      simp only [hd', Bool.not_false, if_true, Bool.false_eq_true, if_false]
      cases entered with
      | false => simp only [Bool.false_eq_true, if_false]; exact ih hs'.2 false (by simp)
      | true =>
        simp only [if_true]
        symm
        rw [List.filter_eq_nil_iff]
        intro y hy hdy
        have hsx := hent rfl x (by simp)
        -- x is above the start but not in the domain, so it is at or above the end
        have : ∃ b, e = some b ∧ b ≤ x.1 := by
          cases he : e with
          | none =>
            exfalso; apply hd
            rw [inDomain_iff]; exact ⟨hsx, by simp [he]⟩
          | some b =>
            refine ⟨b, rfl, ?_⟩
            rw [← Lex.not_lt]; intro hlt
            apply hd
            rw [inDomain_iff]
            refine ⟨hsx, ?_⟩
            intro b' hb'; rw [he] at hb'; cases hb'; exact hlt
        obtain ⟨b, hb, hbx⟩ := this
        have h2 := (inDomain_iff.1 hdy).2 b hb
        have h3 := hs'.1 y hy
        exact Lex.lt_irrefl _ (Lex.lt_trans (Lex.lt_of_le_of_lt hbx h3) h2)

/-! ### dirtyItems -/

theorem get_map_key {α β : Type} (m : OMapOf α) (f : Bytes → β) (k : Bytes) :
    OMap.get (m.map (fun p => (p.1, f p.1))) k = (OMap.get m k).map (fun _ => f k) := by
  induction m with
  | nil => rfl
  | cons p m ih =>
    obtain ⟨k0, v0⟩ := p
    simp only [List.map_cons, get_cons, ih]
    by_cases h : k0 = k
    · subst h; simp
    · simp [h]

theorem sorted_map_key {α β : Type} {m : OMapOf α} (hs : Sorted m) (f : Bytes → β) :
    Sorted (m.map (fun p => (p.1, f p.1))) :=
  List.Pairwise.map _ (fun _ _ h => h) hs

theorem dirtyItems_cache (c : CacheState) (s e : Option Bytes) : (dirtyItems c s e).cache = c.cache := rfl
theorem dirtyItems_checkpoint (c : CacheState) (s e : Option Bytes) :
    (dirtyItems c s e).checkpoint = c.checkpoint := rfl

theorem dirtyVal_dirtyItems (c : CacheState) (s e : Option Bytes) (k : Bytes) :
    dirtyVal (dirtyItems c s e) k = dirtyVal c k := rfl

theorem get_dirtyItems_unsorted (c : CacheState) (s e : Option Bytes) (k : Bytes) :
    OMap.get (dirtyItems c s e).unsorted k = if inDomain k s e then none else OMap.get c.unsorted k := by
  have := get_filter_key (m := c.unsorted) (fun k => !inDomain k s e) k
  simp only [dirtyItems]
  rw [this]
  cases inDomain k s e <;> simp

theorem get_dirtyItems_sorted {c : CacheState} (h : CacheWF c) (s e : Option Bytes) (k : Bytes) :
    OMap.get (dirtyItems c s e).sorted k =
      if inDomain k s e = true ∧ OMap.get c.unsorted k = some () then some (valueOf c k)
      else OMap.get c.sorted k := by
  simp only [dirtyItems]
  have hsu : Sorted ((c.unsorted.filter (fun p => inDomain p.1 s e)).map
      (fun p => (p.1, valueOf c p.1))) :=
    sorted_map_key (sorted_filter h.unsSorted _) (valueOf c)
  rw [get_mergeSorted hsu h.sortedSorted, get_map_key, get_filter_key (fun k => inDomain k s e)]
  by_cases hd : inDomain k s e = true
  · cases hu : OMap.get c.unsorted k with
    | none => simp [hd]
    | some u => cases u; simp [hd, valueOf]
  · simp [hd]

theorem CacheWF.dirtyItems {c : CacheState} (h : CacheWF c) (s e : Option Bytes) :
    CacheWF (dirtyItems c s e) := by
  refine ⟨h.cacheSorted, ?_, ?_, h.dirtyShape, ?_, ?_, ?_⟩
  · exact sorted_filter h.unsSorted _
  · exact sorted_mergeSorted (sorted_map_key (sorted_filter h.unsSorted _) (valueOf c)) h.sortedSorted
  · intro k hu
    rw [get_dirtyItems_unsorted] at hu
    by_cases hd : inDomain k s e = true
    · simp [hd] at hu
    · simp only [hd, Bool.false_eq_true, if_false] at hu
      exact h.unsDirty k hu
  · intro k v hs
    rw [get_dirtyItems_sorted h] at hs
    rw [get_dirtyItems_unsorted, dirtyVal_dirtyItems]
    by_cases hc : inDomain k s e = true ∧ OMap.get c.unsorted k = some ()
    · simp only [hc, and_self, if_true, Option.some.injEq] at hs
      obtain ⟨cv, hg, hdirty⟩ := h.unsDirty k hc.2
      right
      simp only [dirtyVal, hg, hdirty, if_true, ← hs, valueOf, Option.map_some, Option.join_some]
    · simp only [hc, if_false] at hs
      rcases h.sortedFresh k v hs with h1 | h1
      · left
        have : ¬ inDomain k s e = true := fun hd => hc ⟨hd, h1⟩
        simp [this, h1]
      · exact Or.inr h1
  · intro k v hdv
    rw [dirtyVal_dirtyItems] at hdv
    rw [get_dirtyItems_unsorted, get_dirtyItems_sorted h]
    rcases h.dirtyTracked k v hdv with h1 | h1
    · by_cases hd : inDomain k s e = true
      · right; simp [hd, h1]
      · left; simp [hd, h1]
    · right
      split
      · rfl
      · exact h1

/-- inside the domain, the sorted item list after `dirtyItems` holds exactly the dirty entries. -/
theorem get_dirtyItems_sorted_inDomain {c : CacheState} (h : CacheWF c) (s e : Option Bytes)
    (k : Bytes) (hd : inDomain k s e = true) :
    OMap.get (dirtyItems c s e).sorted k = dirtyVal c k := by
  rw [get_dirtyItems_sorted h]
  cases hu : OMap.get c.unsorted k with
  | some u =>
    cases u
    obtain ⟨cv, hg, hdirty⟩ := h.unsDirty k hu
    simp [hd, dirtyVal, hg, hdirty, valueOf]
  | none =>
    simp only [hd, reduceCtorEq, and_false, if_false]
    cases hs : OMap.get c.sorted k with
    | some v =>
      rcases h.sortedFresh k v hs with h1 | h1
      · rw [hu] at h1; cases h1
      · exact h1.symm
    | none =>
      cases hdv : dirtyVal c k with
      | none => rfl
      | some v =>
        rcases h.dirtyTracked k v hdv with h1 | h1
        · rw [hu] at h1; cases h1
        · rw [hs] at h1; cases h1

/-! ### listings as direction-ordered item lists -/

theorem sortedDir_true_iff {l : List Item} : SortedDir true l ↔ Sorted l := by
  simp [SortedDir, Sorted, dirLt]

theorem sortedDir_false_reverse {l : List Item} (h : Sorted l) : SortedDir false l.reverse := by
  simp only [SortedDir, dirLt, Bool.false_eq_true, if_false]
  rw [List.pairwise_reverse]
  exact h

theorem sorted_asItems {m : OMap} (h : Sorted m) : Sorted (asItems m) :=
  List.Pairwise.map _ (fun _ _ h => h) h

theorem asItems_range_desc (m : OMap) (s e : Option Bytes) :
    asItems (range m s e false) = (asItems (range m s e true)).reverse := by
  simp [asItems, range]

theorem sortedDir_asItems_range {m : OMap} (hs : Sorted m) (s e : Option Bytes) (asc : Bool) :
    SortedDir asc (asItems (range m s e asc)) := by
  cases asc
  · rw [asItems_range_desc]
    exact sortedDir_false_reverse (sorted_asItems (sorted_range_asc hs s e))
  · exact sortedDir_true_iff.2 (sorted_asItems (sorted_range_asc hs s e))

theorem mem_asItems_range {m : OMap} (hs : Sorted m) (s e : Option Bytes) (asc : Bool) (x : Item) :
    x ∈ asItems (range m s e asc) ↔
      ∃ w, x.2 = some w ∧ inDomain x.1 s e = true ∧ OMap.get m x.1 = some w := by
  obtain ⟨k, v⟩ := x
  simp only [asItems, List.mem_map]
  constructor
  · rintro ⟨⟨k', w⟩, hm, heq⟩
    simp only [Prod.mk.injEq] at heq
    obtain ⟨rfl, rfl⟩ := heq
    rw [mem_range] at hm
    exact ⟨w, rfl, hm.2, get_of_mem hs hm.1⟩
  · rintro ⟨w, hv, hd, hg⟩
    have hv : v = some w := hv
    have hd : inDomain k s e = true := hd
    have hg : OMap.get m k = some w := hg
    subst hv
    exact ⟨(k, w), mem_range.2 ⟨mem_of_get hg, hd⟩, rfl⟩

theorem takeWhile_eq_self {α : Type} {p : α → Bool} {l : List α} (h : ∀ x ∈ l, p x = true) :
    l.takeWhile p = l := by
  induction l with
  | nil => rfl
  | cons a l ih =>
    rw [List.takeWhile_cons_of_pos (h a (by simp)), ih (fun x hx => h x (List.mem_cons_of_mem _ hx))]

/-! ### the cache store's iterator -/

/-- the items a cache layer feeds into the merge, and the listing they produce. -/
theorem cache_iter_items {c : CacheState} (hwf : CacheWF c) (s e : Option Bytes) (asc : Bool)
    (m : OMap) (hm : Sorted m) :
    let items := memItems s e (dirtyItems c s e).sorted false
    drain asc (asItems (range m s e asc)) (if asc then items else items.reverse)
      = asItems (range (applyDirty c.cache m) s e asc) := by
  intro items
  have hwf' := hwf.dirtyItems s e
  have hitems : items = (dirtyItems c s e).sorted.filter (fun x => inDomain x.1 s e) :=
    memItems_eq_filter s e _ hwf'.sortedSorted false (by simp)
  have hsi : Sorted items := by rw [hitems]; exact sorted_filter hwf'.sortedSorted _
  have hgi : ∀ k, OMap.get items k = if inDomain k s e then dirtyVal c k else none := by
    intro k
    rw [hitems, get_filter_key (fun k => inDomain k s e)]
    by_cases hd : inDomain k s e = true
    · simp [hd, get_dirtyItems_sorted_inDomain hwf s e k hd]
    · simp [hd]
  -- the cache side, in iteration direction
  have hcs : SortedDir asc (if asc then items else items.reverse) := by
    cases asc
    · exact sortedDir_false_reverse hsi
    · exact sortedDir_true_iff.2 hsi
  have hmemcs : ∀ x : Item, x ∈ (if asc then items else items.reverse) ↔ OMap.get items x.1 = some x.2 := by
    intro x
    have : x ∈ (if asc then items else items.reverse) ↔ x ∈ items := by cases asc <;> simp
    rw [this]
    obtain ⟨k, v⟩ := x
    exact mem_iff_get hsi
  have hps := sortedDir_asItems_range hm s e asc
  have hsa := sorted_applyDirty hm c.cache
  rw [drain_eq_mergeSpec]
  apply eq_of_pairwise_of_mem_iff (r := fun x y : Item => dirLt asc x.1 y.1)
    (fun x => dirLt_irrefl asc x.1) (fun x y => dirLt_asymm)
    (sortedDir_mergeSpec asc _ _ hps hcs) (sortedDir_asItems_range hsa s e asc)
  intro x
  rw [mem_mergeSpec asc _ _ hps hcs, mem_asItems_range hm, mem_asItems_range hsa, hmemcs,
    get_applyDirty hwf.cacheSorted]
  have hnone : (∀ y ∈ (if asc then items else items.reverse), y.1 ≠ x.1) ↔ OMap.get items x.1 = none := by
    rw [get_eq_none_iff]
    constructor
    · intro h p hp; exact h p (by cases asc <;> simp [hp])
    · intro h y hy
      apply h y
      cases asc
      · simpa using hy
      · simpa using hy
  rw [hnone, hgi]
  obtain ⟨k, v⟩ := x
  simp only
  by_cases hd : inDomain k s e = true
  · simp only [hd, if_true, true_and]
    unfold dirtyVal
    cases hg : OMap.get c.cache k with
    | none => simp
    | some cv =>
      by_cases hdirty : cv.dirty = true
      · simp only [hdirty, if_true, Option.some.injEq, reduceCtorEq, and_false, or_false]
        rcases hwf.dirtyShape k cv hg hdirty with ⟨h1, h2⟩ | ⟨h1, h2⟩
        · simp only [entryGet, hdirty, h1, h2, Bool.not_true, Bool.false_eq_true, if_false, if_true,
            reduceCtorEq, and_false, exists_false, iff_false, not_and]
          intro hv; subst hv; simp
        · cases hv : cv.value with
          | none => simp [hv] at h2
          | some w =>
            simp only [entryGet, hdirty, h1, hv, Bool.not_true, Bool.false_eq_true, if_false,
              Option.some.injEq]
            constructor
            · rintro ⟨rfl, _⟩; exact ⟨w, rfl, rfl⟩
            · rintro ⟨w', rfl, rfl⟩; exact ⟨rfl, rfl⟩
      · have hd' : cv.dirty = false := by simpa using hdirty
        simp [hd', entryGet]
  · simp [hd]

/-- prefix store: the bounds handed to the parent select exactly the keys that
carry the prefix and whose suffix is in the requested domain. -/
theorem inDomain_prefix (q k : Bytes) (s e : Option Bytes) :
    inDomain k (pfxStart q s) (pfxEnd q e) = true
      ↔ hasPrefix q k = true ∧ inDomain (k.drop q.length) s e = true := by
  unfold pfxStart pfxEnd
  rw [inDomain_iff, inDomain_iff, hasPrefix_iff]
  constructor
  · rintro ⟨h1, h2⟩
    have h1' : q ++ s.getD [] ≤ k := h1 _ rfl
    have hpre : q <+: k := by
      cases e with
      | some e' => exact prefix_of_between h1' (h2 _ rfl)
      | none =>
        rw [prefix_iff_range]
        exact ⟨Lex.le_trans (le_append q _) h1', fun e' he' => h2 e' he'⟩
    refine ⟨hpre, ?_, ?_⟩
    · intro a ha
      subst ha
      have := prefix_eq_append hpre
      rw [this] at h1'
      simpa using (append_le_append_iff q _ _).1 h1'
    · intro b hb
      subst hb
      have := prefix_eq_append hpre
      have h2' := h2 _ rfl
      rw [this] at h2'
      exact (append_lt_append_iff q _ _).1 h2'
  · rintro ⟨hpre, h1, h2⟩
    have hk := prefix_eq_append hpre
    constructor
    · intro a ha
      cases ha
      rw [hk, append_le_append_iff]
      cases s with
      | none => exact Lex.nil_le _
      | some s' => exact h1 s' rfl
    · intro b hb
      cases e with
      | some e' =>
        cases hb
        rw [hk, append_lt_append_iff]; exact h2 e' rfl
      | none =>
        exact ((prefix_iff_range q k).1 hpre).2 b hb

theorem map_strip_range_asc (q : Bytes) (m : OMap) (s e : Option Bytes) :
    (asItems (range m (pfxStart q s) (pfxEnd q e) true)).map (fun it => (it.1.drop q.length, it.2))
      = asItems (range (stripView q m) s e true) := by
  simp only [asItems, range, if_true, stripView, List.map_map]
  induction m with
  | nil => rfl
  | cons p m ih =>
    simp only [List.filter_cons, List.filterMap_cons]
    by_cases hd : inDomain p.1 (pfxStart q s) (pfxEnd q e) = true
    · obtain ⟨h1, h2⟩ := (inDomain_prefix q p.1 s e).1 hd
      simp [hd, h1, h2, ih]
    · simp only [hd, Bool.false_eq_true, if_false, ih]
      by_cases h1 : hasPrefix q p.1 = true
      · have h2 : ¬ inDomain (p.1.drop q.length) s e = true := fun h2 =>
          hd ((inDomain_prefix q p.1 s e).2 ⟨h1, h2⟩)
        simp [h1, h2]
      · simp [h1]

/-- the prefix store's iterator (parent listing, `takeWhile HasPrefix`, strip). -/
theorem strip_range (q : Bytes) (m : OMap) (s e : Option Bytes) (asc : Bool) :
    ((asItems (range m (pfxStart q s) (pfxEnd q e) asc)).takeWhile
          (fun it => hasPrefix q it.1)).map (fun it => (it.1.drop q.length, it.2))
      = asItems (range (stripView q m) s e asc) := by
  have hall : ∀ it ∈ asItems (range m (pfxStart q s) (pfxEnd q e) asc),
      hasPrefix q it.1 = true := by
    intro it hit
    simp only [asItems, List.mem_map] at hit
    obtain ⟨p, hp, rfl⟩ := hit
    exact ((inDomain_prefix q p.1 s e).1 (mem_range.1 hp).2).1
  rw [takeWhile_eq_self hall]
  cases asc
  · rw [asItems_range_desc, asItems_range_desc, List.map_reverse, map_strip_range_asc]
  · exact map_strip_range_asc q m s e

/-! ### the iterator of every store kind -/

theorem iter_spec (l : Layer) (hc : Coherent l) (s e : Option Bytes) (asc : Bool) :
    (l.iter s e asc).1 = asItems (range (view l) s e asc) ∧
    view (l.iter s e asc).2 = view l ∧ Coherent (l.iter s e asc).2 := by
  induction l generalizing s e with
  | base m => exact ⟨rfl, rfl, hc⟩
  | cache c p ih =>
    obtain ⟨hp, hwf, hclean⟩ := hc
    obtain ⟨i1, i2, i3⟩ := ih hp s e
    refine ⟨?_, ?_, i3, hwf.dirtyItems s e, ?_⟩
    · simp only [Layer.iter, view, i1]
      exact cache_iter_items hwf s e asc (view p) (sorted_view hp)
    · simp only [Layer.iter, view, i2, dirtyItems_cache]
    · intro k cv hg hd
      rw [i2]
      exact hclean k cv hg hd
  | pfx q p ih =>
    have hc : Coherent p := hc
    obtain ⟨i1, i2, i3⟩ := ih hc (pfxStart q s) (pfxEnd q e)
    refine ⟨?_, ?_, i3⟩
    · simp only [Layer.iter, view, i1]
      exact strip_range q (view p) s e asc
    · simp only [Layer.iter, view, i2]

end GnoVerif.C22
