import GnoVerif.Model.C20
/-! `Val.beq` decides equality of amino-visible values (property C20). -/
namespace GnoVerif.C20

mutual
theorem Val.beq_refl : ∀ v : Val, v.beq v = true
  | .u _ | .i _ | .b _ | .x _ | .d _ => by simp [Val.beq]
  | .t _ _ => by simp [Val.beq]
  | .nil => by simp [Val.beq]
  | .list vs => by simp only [Val.beq]; exact Val.beqList_refl vs
  | .struct vs => by simp only [Val.beq]; exact Val.beqList_refl vs
  | .any _ v => by simp [Val.beq, Val.beq_refl v]
  | .m _ v => by simp [Val.beq, Val.beq_refl v]
theorem Val.beqList_refl : ∀ vs : List Val, Val.beqList vs vs = true
  | [] => by simp [Val.beqList]
  | v :: vs => by simp [Val.beqList, Val.beq_refl v, Val.beqList_refl vs]
end

mutual
theorem Val.eq_of_beq : ∀ (v w : Val), v.beq w = true → v = w
  | .u _, w => by cases w <;> simp [Val.beq]
  | .i _, w => by cases w <;> simp [Val.beq]
  | .b _, w => by cases w <;> simp [Val.beq]
  | .x _, w => by cases w <;> simp [Val.beq]
  | .d _, w => by cases w <;> simp [Val.beq]
  | .t _ _, w => by cases w <;> simp [Val.beq]
  | .nil, w => by cases w <;> simp [Val.beq]
  | .list vs, w => by
    cases w <;> simp only [Val.beq] <;> try (intro h; cases h)
    rename_i ws
    intro h
    rw [Val.eq_of_beqList vs ws h]
  | .struct vs, w => by
    cases w <;> simp only [Val.beq] <;> try (intro h; cases h)
    rename_i ws
    intro h
    rw [Val.eq_of_beqList vs ws h]
  | .any n v, w => by
    cases w <;> simp only [Val.beq] <;> try (intro h; cases h)
    rename_i n2 w
    intro h
    simp only [Bool.and_eq_true, beq_iff_eq] at h
    rw [h.1, Val.eq_of_beq v w h.2]
  | .m g v, w => by
    cases w <;> simp only [Val.beq] <;> try (intro h; cases h)
    rename_i g2 w
    intro h
    simp only [Bool.and_eq_true, beq_iff_eq] at h
    rw [h.1, Val.eq_of_beq v w h.2]
theorem Val.eq_of_beqList : ∀ (vs ws : List Val), Val.beqList vs ws = true → vs = ws
  | [], ws => by cases ws <;> simp [Val.beqList]
  | v :: vs, ws => by
    cases ws with
    | nil => simp [Val.beqList]
    | cons w ws =>
      simp only [Val.beqList, Bool.and_eq_true]
      intro h
      rw [Val.eq_of_beq v w h.1, Val.eq_of_beqList vs ws h.2]
end

theorem Val.beq_iff (v w : Val) : v.beq w = true ↔ v = w :=
  ⟨Val.eq_of_beq v w, fun h => h ▸ Val.beq_refl v⟩

theorem Val.ne_of_beq_false {v w : Val} (h : v.beq w = false) : v ≠ w := by
  intro e
  rw [e, Val.beq_refl] at h
  cases h

instance : DecidableEq Val := fun v w =>
  if h : v.beq w = true then isTrue (Val.eq_of_beq v w h)
  else isFalse (fun e => h (e ▸ Val.beq_refl v))

end GnoVerif.C20
