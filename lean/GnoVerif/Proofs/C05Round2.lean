import GnoVerif.Proofs.C05Round
set_option linter.unusedSimpArgs false
namespace GnoVerif.C05
namespace L
open GnoVerif.Gen.C05

theorem toInt_lit_1024' : (1024#64).toInt = 1024 := by decide

theorem tail64_spec (s m e t e3 m3 : BitVec 64) (L : Nat)
    (hs : s = 0#64 ∨ s = 9223372036854775808#64)
    (_hL1 : 2^(L-1) ≤ m.toNat) (hL2 : m.toNat < 2^L) (hL53 : 53 ≤ L) (hL64 : L ≤ 64)
    (he1 : -(2^40) ≤ e.toInt) (he2 : e.toInt ≤ 2^40)
    (hm3a : 2^52 ≤ m3.toNat) (hm3b : m3.toNat < 2^53)
    (hcase :
      (rneShift m.toNat (L-53) (decide (t ≠ 0#64)) < 2^53 ∧ e3.toInt = e.toInt + ((L - 53 : Nat) : Int) ∧
        m3.toNat = rneShift m.toNat (L-53) (decide (t ≠ 0#64))) ∨
      (rneShift m.toNat (L-53) (decide (t ≠ 0#64)) = 2^53 ∧ 54 ≤ L ∧
        e3.toInt = e.toInt + ((L - 53 : Nat) : Int) + 1 ∧ m3.toNat = 2^52)) :
    tail64 s m e t e3 m3 = s ||| BitVec.ofNat 64 (packSpecL L m.toNat e.toInt (decide (t ≠ 0#64))) := by
  generalize hst : decide (t ≠ 0#64) = st at *
  generalize hq : rneShift m.toNat (L-53) st = q at *
  have hLi : ((L : Int) - 53) = ((L - 53 : Nat) : Int) := by omega
  unfold tail64 packSpecL
  simp only [hLi, hq]
  have b1 : BitVec.sle 1024#64 e3 = decide (1024 ≤ e3.toInt) := by
    simp only [BitVec.sle, toInt_lit_1024']
  have b2 : BitVec.slt e3 (BitVec.ofInt 64 (-1022)) = decide (e3.toInt < -1022) := by
    simp only [BitVec.slt, toInt_lit_neg1022]
  have b3 : BitVec.slt e3 (BitVec.ofInt 64 (-1075)) = decide (e3.toInt < -1075) := by
    simp only [BitVec.slt, toInt_lit_neg1075]
  rw [b1, b2, b3]
  by_cases c1 : 1024 ≤ e3.toInt
  · -- overflow
    simp only [c1, decide_true, if_true]
    rw [xor_inf_eq s hs]
    have : -1022 ≤ e.toInt + ((L - 53 : Nat) : Int) := by
      rcases hcase with ⟨_, h, _⟩ | ⟨_, _, h, _⟩ <;> omega
    rw [if_pos this]
    have hY : (((e.toInt + ((L - 53 : Nat) : Int) + 1022).toNat : Nat) : Int) = e.toInt + ((L - 53 : Nat) : Int) + 1022 := by omega
    generalize (e.toInt + ((L - 53 : Nat) : Int) + 1022).toNat = Y at hY ⊢
    have hge : 2047 * 2^52 ≤ Y * 2^52 + q := by
      rcases hcase with ⟨_, h, h'⟩ | ⟨h0, _, h, _⟩ <;> omega
    rw [Nat.min_eq_right hge]
  · simp only [c1, decide_false, Bool.false_eq_true, if_false]
    by_cases c2 : e3.toInt < -1022
    · simp only [c2, decide_true, if_true]
      have hEu : ¬ (-1022 ≤ e.toInt + ((L - 53 : Nat) : Int)) := by
        rcases hcase with ⟨_, h, _⟩ | ⟨_, _, h, _⟩ <;> omega
      rw [if_neg hEu]
      have hD : e.toInt = -1022 - (((-1022 - e.toInt).toNat : Nat) : Int) := by omega
      generalize (-1022 - e.toInt).toNat = D at hD ⊢
      by_cases c3 : e3.toInt < -1075
      · simp only [c3, decide_true, if_true]
        have hLD : L ≤ D - 1 := by
          rcases hcase with ⟨_, h, _⟩ | ⟨_, _, h, _⟩ <;> omega
        have : m.toNat < 2^(D-1) := Nat.lt_of_lt_of_le hL2 (Nat.pow_le_pow_right (by decide) hLD)
        rw [rneShift_small _ _ _ (by omega) this]
      · simp only [c3, decide_false, Bool.false_eq_true, if_false]
        have hD1 : 1 ≤ D := by omega
        have hD2 : D ≤ 128 := by
          rcases hcase with ⟨_, h, _⟩ | ⟨_, _, h, _⟩ <;> omega
        have hLD : L ≤ D - 1 + 53 := by omega
        have hmD : m.toNat < 2^(D-1) * 2^53 := by
          rw [← Nat.pow_add]
          exact Nat.lt_of_lt_of_le hL2 (Nat.pow_le_pow_right (by decide) hLD)
        rw [denormTail64_spec s m e t D hD1 hD2 hD hmD, hst]
    · simp only [c2, decide_false, Bool.false_eq_true, if_false]
      rw [assemble64_eq s e3 m3 hm3a hm3b (by omega) (by omega)]
      by_cases hEu : -1022 ≤ e.toInt + ((L - 53 : Nat) : Int)
      · rw [if_pos hEu]
        have hY : (((e.toInt + ((L - 53 : Nat) : Int) + 1022).toNat : Nat) : Int) = e.toInt + ((L - 53 : Nat) : Int) + 1022 := by omega
        generalize (e.toInt + ((L - 53 : Nat) : Int) + 1022).toNat = Y at hY ⊢
        have hZ : (((e3.toInt + 1023).toNat : Nat) : Int) = e3.toInt + 1023 := by omega
        generalize (e3.toInt + 1023).toNat = Z at hZ ⊢
        have hle : Y * 2^52 + q ≤ 2047 * 2^52 := by
          rcases hcase with ⟨_, h, h'⟩ | ⟨h0, _, h, h'⟩ <;> omega
        rw [Nat.min_eq_left hle]
        have : Z * 2^52 + (m3.toNat - 2^52) = Y * 2^52 + q := by
          rcases hcase with ⟨_, h, h'⟩ | ⟨h0, _, h, h'⟩ <;> omega
        rw [this]
      · rw [if_neg hEu]
        rcases hcase with ⟨_, h, h'⟩ | ⟨h0, hL54, h, h'⟩
        · omega
        · have hk : (-1022 - e.toInt).toNat = (L - 53) + 1 := by omega
          have hmk : m.toNat < 2^(L-53) * 2^53 := by
            rw [← Nat.pow_add, show L - 53 + 53 = L by omega]; exact hL2
          rw [hk, rneShift_carry _ _ _ (by omega) hmk (hq.trans h0)]
          have hZ : (((e3.toInt + 1023).toNat : Nat) : Int) = e3.toInt + 1023 := by omega
          generalize (e3.toInt + 1023).toNat = Z at hZ ⊢
          have : Z * 2^52 + (m3.toNat - 2^52) = 2^52 := by omega
          rw [this]


theorem pow_bounds_of_shift (m c lo hi : Nat) (h1 : 2^lo ≤ m / 2^c) (h2 : m / 2^c < 2^hi) :
    2^(c + lo) ≤ m ∧ m < 2^(c + hi) := by
  have hP : 0 < 2^c := Nat.two_pow_pos c
  constructor
  · rw [Nat.pow_add]
    have := (Nat.le_div_iff_mul_le hP).1 h1
    rw [Nat.mul_comm]; exact this
  · rw [Nat.pow_add]
    have := (Nat.div_lt_iff_lt_mul hP).1 h2
    rw [Nat.mul_comm]; exact this

/-- (e) the key rounding theorem: on a normalised-or-longer mantissa `fpack64` is round-to-nearest-even -/
theorem fpack64_rne (s m e t : BitVec 64) (hs : s = 0#64 ∨ s = 9223372036854775808#64)
    (hm : 2^52 ≤ m.toNat) (he1 : -(2^40) ≤ e.toInt) (he2 : e.toInt ≤ 2^40) :
    fpack64 s m e t = s ||| BitVec.ofNat 64 (packSpec64 m.toNat e.toInt (decide (t ≠ 0#64))) := by
  have hm0 : (m == 0#64) = false := by
    rw [Bool.eq_false_iff]; intro h
    have := congrArg BitVec.toNat (eq_of_beq h); simp at this; omega
  have hmne : m.toNat ≠ 0 := by omega
  have h1 : fpack64_loop1 loopFuel e m = (e, m) := fpack64_loop1_done _ e m (by omega)
  obtain ⟨c, t2, hc, hl2, hlt, hge, ht2⟩ := fpack64_loop2_spec loopFuel e m t (by
    have := m.isLt
    have : (2:Nat)^10 ≤ 2^loopFuel := Nat.pow_le_pow_right (by decide) (by unfold loopFuel; omega)
    have : 2^54 * 2^10 ≤ 2^54 * 2^loopFuel := Nat.mul_le_mul_left _ this
    omega)
  have hm2 : (m >>> c).toNat = m.toNat / 2^c := by
    rw [BitVec.toNat_ushiftRight, Nat.shiftRight_eq_div_pow]
  rw [fpack64_phases]
  simp only [hm0, Bool.false_eq_true, if_false, h1, hl2]
  unfold packSpec64
  by_cases hsmall : (m >>> c).toNat < 2^53
  · -- no rounding at all: 53-bit mantissa, trunc = 0
    have hc0 : c = 0 := by
      by_cases h : c = 0
      · exact h
      · have := hge h; omega
    subst hc0
    simp only [BitVec.ushiftRight_zero] at hsmall hlt
    have hlog : Nat.log2 m.toNat = 52 := (Nat.log2_eq_iff hmne).2 ⟨hm, hsmall⟩
    rw [roundStep64_small _ _ _ (by simpa using hsmall), hlog]
    simp only [BitVec.ushiftRight_zero]
    have hE : (e + BitVec.ofNat 64 0) = e := by simp
    rw [hE]
    exact tail64_spec s m e t e m 53 hs (by simpa using hm) hsmall (by omega) (by omega) he1 he2 hm hsmall
      (Or.inl ⟨by simp [rneShift]; exact hsmall, by simp, by simp [rneShift]⟩)
  · -- one rounding of the top 54 bits, sticky = trunc ∨ shifted-out bits
    have hbig : 2^53 ≤ (m >>> c).toNat := by omega
    rw [hm2] at hbig hlt
    obtain ⟨hlo, hhi⟩ := pow_bounds_of_shift m.toNat c 53 54 hbig hlt
    have hlog : Nat.log2 m.toNat = c + 53 := (Nat.log2_eq_iff hmne).2 ⟨hlo, hhi⟩
    have hc10 : c ≤ 10 := by
      have := m.isLt
      have : 2^(c+53) < 2^64 := by omega
      have := (Nat.pow_lt_pow_iff_right (by decide : 1 < 2)).1 this
      omega
    rw [hlog]
    have hst := decide_ne_zero_or t t2 (m.toNat % 2^c) ht2
    have hsplit := rneShift_split m.toNat c 1 (by decide) (decide (t ≠ 0#64))
    rw [← hst, ← hm2] at hsplit
    have he2i : (e + BitVec.ofNat 64 c).toInt = e.toInt + c := toInt_add_small e c (by omega) (by omega) (by omega)
    obtain ⟨e3, m3, hrs, hcases⟩ := roundStep64_spec (e + BitVec.ofNat 64 c) (m >>> c) t2 (by rw [hm2]; exact hbig) (by rw [hm2]; exact hlt)
    rw [hrs]
    simp only []
    have hL : c + 53 + 1 - 53 = c + 1 := by omega
    refine tail64_spec s m e t e3 m3 (c + 53 + 1) hs (by simpa using hlo) hhi (by omega) (by omega) he1 he2 ?_ ?_ ?_
    · rcases hcases with ⟨h, _, h3⟩ | ⟨_, _, h3⟩
      · rw [h3]
        -- rneShift of a ≥ 2^53 value by one bit is ≥ 2^52
        rw [rneShift_one]; rw [hm2]; omega
      · omega
    · rcases hcases with ⟨h, _, h3⟩ | ⟨_, _, h3⟩ <;> omega
    · rw [hL, hsplit]
      rcases hcases with ⟨h, h2', h3⟩ | ⟨h, h2', h3⟩
      · refine Or.inl ⟨h, ?_, h3⟩
        rw [h2', toInt_add_one _ (by omega), he2i]; omega
      · refine Or.inr ⟨h, by omega, ?_, h3⟩
        rw [h2', toInt_add_one _ (by rw [toInt_add_one _ (by omega)]; omega), toInt_add_one _ (by omega), he2i]; omega


/-- left-normalising loop of `fpack64` (same body as in `funpack64`) -/
theorem fpack64_loop1_spec (fuel : Nat) (e m : BitVec 64)
    (h0 : m.toNat ≠ 0) (h1 : m.toNat < 2^53) (hf : 2^52 ≤ m.toNat * 2^fuel) :
    ∃ k, k ≤ fuel ∧ fpack64_loop1 fuel e m = (e - BitVec.ofNat 64 k, m <<< k) ∧
      (m <<< k).toNat = m.toNat * 2^k ∧ 2^52 ≤ m.toNat * 2^k ∧ m.toNat * 2^k < 2^53 ∧
      (k ≠ 0 → m.toNat < 2^52) := by
  induction fuel generalizing e m with
  | zero =>
    refine ⟨0, Nat.le_refl _, ?_, ?_, ?_, ?_, ?_⟩ <;> simp_all [fpack64_loop1]
  | succ n ih =>
    rw [fpack64_loop1_succ]
    by_cases hlt : m.toNat < 2^52
    · have hc : BitVec.ult m 4503599627370496#64 = true := by
        simp [BitVec.ult, hlt]
      simp only [hc, if_true]
      have hm1 : (m <<< 1).toNat = m.toNat * 2 := by
        rw [BitVec.toNat_shiftLeft, Nat.shiftLeft_eq]; simp; omega
      have e2 : ∀ j, m.toNat * 2 * 2^j = m.toNat * 2^(j+1) := by
        intro j; rw [Nat.pow_succ, Nat.mul_assoc, Nat.mul_comm 2]
      obtain ⟨k, hk, heq, htn, hlo, hhi, _⟩ := ih (e - 1#64) (m <<< 1) (by omega) (by omega)
        (by rw [hm1, e2]; exact hf)
      have hsh : m <<< (k + 1) = m <<< 1 <<< k := by
        rw [Nat.add_comm, BitVec.shiftLeft_add]
      rw [hm1, e2] at htn hlo hhi
      refine ⟨k + 1, by omega, ?_, ?_, hlo, hhi, fun _ => hlt⟩
      · rw [heq, hsh]
        congr 1
        rw [BitVec.sub_sub]; congr 1
        apply BitVec.eq_of_toNat_eq; simp [BitVec.toNat_add]; omega
      · rw [hsh, htn]
    · have hc : BitVec.ult m 4503599627370496#64 = false := by
        simp [BitVec.ult]; omega
      simp only [hc]
      refine ⟨0, by omega, ?_, ?_, ?_, ?_, ?_⟩ <;> simp <;> omega

/-- a short mantissa is first shifted up (exactly): `fpack64 s m e t = fpack64 s (m·2^j) (e − j) t` -/
theorem fpack64_prenorm (s m e t : BitVec 64) (hm0 : m.toNat ≠ 0) (hlt : m.toNat < 2^52) :
    ∃ j, 1 ≤ j ∧ j ≤ 52 ∧ 2^52 ≤ m.toNat * 2^j ∧ m.toNat * 2^j < 2^53 ∧ (m <<< j).toNat = m.toNat * 2^j ∧
      fpack64 s m e t = fpack64 s (m <<< j) (e - BitVec.ofNat 64 j) t := by
  obtain ⟨j, hj, heq, htn, hlo, hhi, _⟩ := fpack64_loop1_spec loopFuel e m hm0 (by omega)
    (two_pow_le_mul _ _ _ hm0 (by unfold loopFuel; omega))
  have hj1 : 1 ≤ j := by
    rcases Nat.eq_zero_or_pos j with h | h
    · subst h; simp at hlo; omega
    · exact h
  have hj52 : j ≤ 52 := by
    rcases Nat.lt_or_ge 52 j with h | h
    · have : 2^53 ≤ 2^j := Nat.pow_le_pow_right (by decide) h
      have : 1 * 2^j ≤ m.toNat * 2^j := Nat.mul_le_mul_right _ (by omega)
      omega
    · exact h
  refine ⟨j, hj1, hj52, hlo, hhi, htn, ?_⟩
  have hm0' : (m == 0#64) = false := by
    rw [Bool.eq_false_iff]; intro h
    have := congrArg BitVec.toNat (eq_of_beq h); simp at this; omega
  have hm1' : ((m <<< j) == 0#64) = false := by
    rw [Bool.eq_false_iff]; intro h
    have := congrArg BitVec.toNat (eq_of_beq h); rw [htn] at this; simp at this; omega
  have h1 : fpack64_loop1 loopFuel (e - BitVec.ofNat 64 j) (m <<< j) = (e - BitVec.ofNat 64 j, m <<< j) :=
    fpack64_loop1_done _ _ _ (by rw [htn]; omega)
  rw [fpack64_phases, fpack64_phases]
  simp only [hm0', hm1', Bool.false_eq_true, if_false, heq, h1]

end L
end GnoVerif.C05
