import GnoVerif.Model.C04Int
import Mathlib.Tactic.Ring
import Mathlib.Tactic.Linarith
/-!
Helper lemmas for C04: the integer layer (`Model/C04Int.lean`) against the
mathematical integers.  `wrap t z` is the unique value of type `t` congruent
to `z` modulo `2^width`; every operator is characterised through it.
-/
namespace GnoVerif.C04
open GnoVerif GnoVerif.GoInt

theorem two_pow_pos' (w : Nat) : (0 : Int) < 2 ^ w := Int.pow_pos (by decide)

theorem two_pow_half {w : Nat} (hw : 0 < w) : (2 : Int) ^ w = 2 * 2 ^ (w - 1) := by
  obtain ⟨n, rfl⟩ : ∃ n, w = n + 1 := ⟨w - 1, by omega⟩
  simp [Int.pow_succ, Int.mul_comm]

theorem natCast_two_pow (w : Nat) : ((2 ^ w : Nat) : Int) = (2 : Int) ^ w := by simp

/-! ### `wrap` -/

theorem wrap_signed {t : ITy} (h : t.signed = true) (z : Int) :
    wrap t z = z.bmod (2 ^ t.width) := by
  simp [wrap, unbits, bits, toInt, h]

theorem wrap_unsigned {t : ITy} (h : t.signed = false) (z : Int) :
    wrap t z = z % (2 : Int) ^ t.width := by
  simp only [wrap, unbits, bits, toInt, h, Bool.false_eq_true, if_false, BitVec.toNat_ofInt]
  have hp : (0 : Int) ≤ z % ((2 ^ t.width : Nat) : Int) :=
    Int.emod_nonneg _ (by have := Nat.two_pow_pos t.width; omega)
  rw [Int.toNat_of_nonneg hp, natCast_two_pow]

/-- `wrap t z` differs from `z` by a multiple of `2^width` -/
theorem wrap_cong (t : ITy) (z : Int) : ∃ k : Int, wrap t z = z + k * 2 ^ t.width := by
  cases h : t.signed
  · rw [wrap_unsigned h]
    exact ⟨-(z / 2 ^ t.width), by rw [Int.emod_def]; ring⟩
  · rw [wrap_signed h]
    refine ⟨-(Int.bdiv z (2 ^ t.width)), ?_⟩
    rw [Int.bmod_eq_self_sub_bdiv_mul]; simp; ring

theorem inRange_iff (t : ITy) (v : Int) :
    t.inRange v = true ↔ t.min ≤ v ∧ v < t.min + 2 ^ t.width := by
  have hw := t.width_pos
  unfold ITy.inRange
  rw [decide_eq_true_iff]
  cases h : t.signed
  · simp only [ITy.min, ITy.max, minVal, maxVal, h, Bool.false_eq_true, if_false]; omega
  · simp only [ITy.min, ITy.max, minVal, maxVal, h, if_true]; rw [two_pow_half hw]; omega

theorem wrap_inRange (t : ITy) (z : Int) : t.inRange (wrap t z) = true := by
  rw [inRange_iff]
  have hw := t.width_pos
  have hp := two_pow_pos' t.width
  cases h : t.signed
  · rw [wrap_unsigned h]
    simp only [ITy.min, minVal, h, Bool.false_eq_true, if_false]
    exact ⟨Int.emod_nonneg _ (by omega), by have := Int.emod_lt_of_pos z hp; omega⟩
  · rw [wrap_signed h]
    simp only [ITy.min, minVal, h, if_true]
    have hpos : 0 < 2 ^ t.width := Nat.two_pow_pos _
    have h1 := @Int.le_bmod z (2 ^ t.width) hpos
    have h2 := @Int.bmod_lt z (2 ^ t.width) hpos
    have e : (2 : Int) ^ t.width = 2 * 2 ^ (t.width - 1) := two_pow_half hw
    have e' : ((2 ^ t.width : Nat) : Int) = 2 * 2 ^ (t.width - 1) := by rw [natCast_two_pow]; exact e
    rw [e'] at h1 h2
    constructor
    · have : (2 * (2 : Int) ^ (t.width - 1)) / 2 = 2 ^ (t.width - 1) := by omega
      omega
    · have : (2 * (2 : Int) ^ (t.width - 1) + 1) / 2 = 2 ^ (t.width - 1) := by omega
      rw [e]; omega

/-- two values of the type that are congruent modulo `2^width` are equal -/
theorem inRange_unique {t : ITy} {a b : Int} (ha : t.inRange a = true) (hb : t.inRange b = true)
    (k : Int) (h : a = b + k * 2 ^ t.width) : a = b := by
  rw [inRange_iff] at ha hb
  have hp := two_pow_pos' t.width
  have hk : k = 0 := by
    by_contra hne
    rcases Int.lt_or_gt_of_ne hne with hlt | hgt
    · have : k * 2 ^ t.width ≤ -1 * 2 ^ t.width := Int.mul_le_mul_of_nonneg_right (by omega) (by omega)
      omega
    · have : 1 * 2 ^ t.width ≤ k * 2 ^ t.width := Int.mul_le_mul_of_nonneg_right (by omega) (by omega)
      omega
  subst hk; omega

theorem wrap_of_inRange {t : ITy} {a : Int} (h : t.inRange a = true) : wrap t a = a := by
  obtain ⟨k, hk⟩ := wrap_cong t a
  exact inRange_unique (wrap_inRange t a) h k hk

theorem wrap_eq_of_cong {t : ITy} {r z : Int} (hr : t.inRange r = true) (k : Int)
    (h : r = z + k * 2 ^ t.width) : r = wrap t z := by
  obtain ⟨j, hj⟩ := wrap_cong t z
  exact inRange_unique hr (wrap_inRange t z) (k - j) (by rw [h, hj]; ring)

theorem wrap_wrap (t : ITy) (z : Int) : wrap t (wrap t z) = wrap t z :=
  wrap_of_inRange (wrap_inRange t z)

/-- the bit pattern of the canonical representative is the bit pattern of the integer -/
theorem bits_wrap (t : ITy) (z : Int) : bits t (wrap t z) = bits t z := by
  obtain ⟨k, hk⟩ := wrap_cong t z
  apply BitVec.eq_of_toInt_eq
  simp only [bits, BitVec.toInt_ofInt, hk]
  rw [← natCast_two_pow]
  exact Int.add_mul_bmod_self_right z k (2 ^ t.width)

theorem unbits_bits (t : ITy) (x : BitVec t.width) : bits t (unbits t x) = x := by
  apply BitVec.eq_of_toInt_eq
  simp only [bits, unbits, toInt, BitVec.toInt_ofInt]
  cases t.signed
  · simp only [Bool.false_eq_true, if_false]
    rw [BitVec.toInt_eq_toNat_bmod]
  · simp only [if_true]
    rw [BitVec.toInt_eq_toNat_bmod, Int.bmod_bmod]

theorem unbits_inRange (t : ITy) (x : BitVec t.width) : t.inRange (unbits t x) = true := by
  have := wrap_inRange t (unbits t x)
  rwa [wrap, unbits_bits] at this

/-! ### ring operations -/

theorem arith_add (t : ITy) (a b : Int) : arith t .add a b = .ok (wrap t (a + b)) := by
  simp [arith, wrap, bits, BitVec.ofInt_add]

theorem arith_mul (t : ITy) (a b : Int) : arith t .mul a b = .ok (wrap t (a * b)) := by
  simp [arith, wrap, bits, BitVec.ofInt_mul]

theorem arith_sub (t : ITy) (a b : Int) : arith t .sub a b = .ok (wrap t (a - b)) := by
  have : bits t a - bits t b = bits t (a - b) := by
    simp only [bits, Int.sub_eq_add_neg, BitVec.ofInt_add, BitVec.ofInt_neg, BitVec.sub_eq_add_neg]
  simp [arith, wrap, this]

theorem unInt_neg (t : ITy) (a : Int) : unInt t .neg a = wrap t (-a) := by
  simp [unInt, wrap, bits, BitVec.ofInt_neg]

theorem unInt_compl (t : ITy) (a : Int) : unInt t .compl a = wrap t (-a - 1) := by
  have : ~~~(bits t a) = bits t (-a - 1) := by
    have h : ~~~(bits t a) = -(bits t a) - 1 := by
      rw [BitVec.neg_eq_not_add]; simp [BitVec.add_sub_cancel]
    rw [h]
    simp only [bits, Int.sub_eq_add_neg, BitVec.ofInt_add, BitVec.ofInt_neg, BitVec.sub_eq_add_neg]
    congr 1
  simp [unInt, wrap, this]

end GnoVerif.C04
