import GnoVerif.Model.C28
import GnoVerif.Proofs.C28Refs
/-!
C28 helper lemmas: the ORDER in which a commit publishes its results — atomic write, snapshot,
swap, commit id, header — makes the version a latest-height query reads never NEWER than the
snapshot it pins afterwards (`OInv`).
-/
namespace GnoVerif.C28

def inCommitAfterWrite (p : Phase) : Bool :=
  p == .drained || p == .snapped || p == .swapped || p == .published

structure OInv (s : State) : Prop where
  hc : s.cons.hdr ≤ s.cons.cid
  cd : s.cons.cid ≤ s.cons.db.latest
  stg : s.cons.staged.isSome = true → s.cons.phase = .flushed
  h1 : (s.cons.phase = .inBlock ∨ s.cons.phase = .ended ∨ s.cons.phase = .flushed) → s.cons.height = s.cons.cid + 1
  h2 : ∀ V t, s.cons.staged = some (V, t) → V = s.cons.cid + 1
  h3 : inCommitAfterWrite s.cons.phase = true → s.cons.db.latest = s.cons.height
  cur : ∀ (i : Nat) (sn : Snap), s.qs.cur = some i → s.qs.snaps[i]? = some sn → s.cons.cid ≤ sn.content.latest
  fresh : ∀ (j : Nat) (sn : Snap), s.qs.fresh = some j → s.qs.snaps[j]? = some sn → sn.content = s.cons.db
  sw : (s.cons.phase = .swapped ∨ s.cons.phase = .published) → ∀ (i : Nat) (sn : Snap), s.qs.cur = some i →
    s.qs.snaps[i]? = some sn → sn.content.latest = s.cons.db.latest
  pc : s.cons.phase = .published → s.cons.cid = s.cons.db.latest
  qv : ∀ q ∈ s.qs.queries, q.explicit = 0 → q.ver ≤ s.cons.cid
  qs : ∀ q ∈ s.qs.queries, q.explicit = 0 → ∀ (i : Nat) (sn : Snap), q.snap = some i →
    s.qs.snaps[i]? = some sn → q.ver ≤ sn.content.latest

theorem oinv_init (a : Bool) (k : Nat) (b : Bool) : OInv (State.init a k b) := by
  refine ⟨by simp [State.init, Cons.init], by simp [State.init, Cons.init], by simp [State.init, Cons.init],
    by simp [State.init, Cons.init], by simp [State.init, Cons.init], by simp [State.init, Cons.init, inCommitAfterWrite],
    ?_, by simp [State.init, QS.init], by simp [State.init, Cons.init], by simp [State.init, Cons.init],
    by simp [State.init, QS.init], by simp [State.init, QS.init]⟩
  intro i sn h1 h2
  simp [State.init, Cons.init]

theorem content_relSnap {ss : List Snap} {i k : Nat} {sn' : Snap} (h : (relSnap ss i)[k]? = some sn') :
    ∃ sn, ss[k]? = some sn ∧ sn'.content = sn.content := by
  rw [getElem?_relSnap] at h
  cases hs : ss[k]? with
  | none => simp [hs] at h
  | some sn =>
    simp [hs] at h
    refine ⟨sn, rfl, ?_⟩
    by_cases hik : i = k <;> simp [hik] at h <;> subst h <;> rfl

theorem content_acqSnap {ss : List Snap} {i k : Nat} {sn' : Snap} (h : (acqSnap ss i)[k]? = some sn') :
    ∃ sn, ss[k]? = some sn ∧ sn'.content = sn.content := by
  rw [getElem?_acqSnap] at h
  cases hs : ss[k]? with
  | none => simp [hs] at h
  | some sn =>
    simp [hs] at h
    refine ⟨sn, rfl, ?_⟩
    by_cases hik : i = k <;> simp [hik] at h <;> subst h <;> rfl

theorem oinv_stepC {s s' : State} {e : CEv} (hr : RInv s) (hi : OInv s) (h : step s (.c e) = some s') : OInv s' := by
  have ⟨hc, hq⟩ := step_c_cons h
  obtain ⟨c', q'⟩ := s'
  simp only at hc hq
  subst hq
  have hfresh_none : s.cons.phase ≠ .snapped → s.qs.fresh = none := by
    intro hp
    cases hf : s.qs.fresh with
    | none => rfl
    | some j => exact absurd (hr.fresh.mp (by simp [hf])) hp
  cases e <;> simp only [stepC] at hc
  case begin =>
    split at hc
    · rename_i hp
      simp at hc; subst hc
      have hst : s.cons.staged = none := by
        cases hs : s.cons.staged with
        | none => rfl
        | some x => have := hi.stg (by simp [hs]); rw [hp] at this; cases this
      exact ⟨hi.hc, hi.cd, by simp [hst], by simp, by simp [hst], by simp [inCommitAfterWrite],
        hi.cur, hi.fresh, by simp, by simp, hi.qv, hi.qs⟩
    · simp at hc
  case tx ops =>
    split at hc
    · rename_i hp
      simp at hc; subst hc
      exact ⟨hi.hc, hi.cd, hi.stg, hi.h1, hi.h2, hi.h3, hi.cur, hi.fresh, hi.sw, hi.pc, hi.qv, hi.qs⟩
    · simp at hc
  case endBlock =>
    split at hc
    · rename_i hp
      simp at hc; subst hc
      have hst : s.cons.staged = none := by
        cases hs : s.cons.staged with
        | none => rfl
        | some x => have := hi.stg (by simp [hs]); rw [hp] at this; cases this
      exact ⟨hi.hc, hi.cd, by simp [hst], by simp; exact hi.h1 (Or.inl hp), by simp [hst], by simp [inCommitAfterWrite],
        hi.cur, hi.fresh, by simp, by simp, hi.qv, hi.qs⟩
    · simp at hc
  case flush =>
    split at hc
    · rename_i hp
      simp at hc; subst hc
      exact ⟨hi.hc, hi.cd, by simp, by simp; exact hi.h1 (Or.inr (Or.inl hp)), by simp, by simp [inCommitAfterWrite],
        hi.cur, hi.fresh, by simp, by simp, hi.qv, hi.qs⟩
    · simp at hc
  case drain =>
    split at hc
    · rename_i V t hp hst
      simp at hc; subst hc
      have hV : V = s.cons.cid + 1 := hi.h2 V t hst
      have hh : s.cons.height = s.cons.cid + 1 := hi.h1 (Or.inr (Or.inr hp))
      have hfn := hfresh_none (by rw [hp]; decide)
      refine ⟨hi.hc, by simp; omega, by simp, by simp, by simp, by simp [inCommitAfterWrite]; omega,
        hi.cur, ?_, by simp, by simp, hi.qv, hi.qs⟩
      intro j sn hj
      simp [sideQ, hfn] at hj
    · simp at hc
  case snap =>
    split at hc
    · rename_i hp
      simp at hc; subst hc
      have hst : s.cons.staged = none := by
        cases hs : s.cons.staged with
        | none => rfl
        | some x => have := hi.stg (by simp [hs]); rw [hp] at this; cases this
      have look : ∀ (k : Nat) (sn : Snap), (s.qs.snaps ++ [(⟨s.cons.db, 1, false⟩ : Snap)])[k]? = some sn →
          s.qs.snaps[k]? = some sn ∨ sn.content = s.cons.db := by
        intro k sn hk
        by_cases hlt : k < s.qs.snaps.length
        · rw [List.getElem?_append_left hlt] at hk; exact Or.inl hk
        · rw [List.getElem?_append_right (Nat.le_of_not_lt hlt)] at hk
          cases hd : k - s.qs.snaps.length with
          | zero => simp [hd] at hk; subst hk; exact Or.inr rfl
          | succ n => simp [hd] at hk
      refine ⟨hi.hc, hi.cd, by simp [hst], by simp, by simp [hst],
        by simp [inCommitAfterWrite]; exact hi.h3 (by simp [inCommitAfterWrite, hp]), ?_, ?_, by simp, by simp, hi.qv, ?_⟩
      · intro i sn hcur hsn
        simp only [sideQ] at hcur hsn
        rcases look i sn hsn with h1 | h1
        · exact hi.cur i sn hcur h1
        · rw [h1]; exact hi.cd
      · intro j sn hj hsn
        simp only [sideQ] at hj hsn
        simp at hj; subst hj
        simp at hsn; subst hsn; rfl
      · intro q hq hex i sn hsnap hsn
        simp only [sideQ] at hq hsn
        rcases look i sn hsn with h1 | h1
        · exact hi.qs q hq hex i sn hsnap h1
        · rw [h1]; exact Nat.le_trans (hi.qv q hq hex) hi.cd
    · simp at hc
  case swap =>
    split at hc
    · rename_i hp
      simp at hc; subst hc
      have hst : s.cons.staged = none := by
        cases hs : s.cons.staged with
        | none => rfl
        | some x => have := hi.stg (by simp [hs]); rw [hp] at this; cases this
      -- lookups in the released list see the same contents
      have look : ∀ (k : Nat) (sn' : Snap),
          (match s.qs.cur with | some i => relSnap s.qs.snaps i | none => s.qs.snaps)[k]? = some sn' →
          ∃ sn, s.qs.snaps[k]? = some sn ∧ sn'.content = sn.content := by
        intro k sn' hk
        cases hcur : s.qs.cur with
        | none => simp [hcur] at hk; exact ⟨sn', hk, rfl⟩
        | some i => simp [hcur] at hk; exact content_relSnap hk
      refine ⟨hi.hc, hi.cd, by simp [hst], by simp, by simp [hst],
        by simp [inCommitAfterWrite]; exact hi.h3 (by simp [inCommitAfterWrite, hp]), ?_, by simp [sideQ], ?_, by simp, hi.qv, ?_⟩
      · intro i sn' hcur hsn
        simp only [sideQ] at hcur hsn
        rcases look i sn' hsn with ⟨sn, h1, h2⟩
        rw [h2, hi.fresh i sn hcur h1]; exact hi.cd
      · intro _ i sn' hcur hsn
        simp only [sideQ] at hcur hsn
        rcases look i sn' hsn with ⟨sn, h1, h2⟩
        rw [h2, hi.fresh i sn hcur h1]
      · intro q hq hex i sn' hsnap hsn
        simp only [sideQ] at hq hsn
        rcases look i sn' hsn with ⟨sn, h1, h2⟩
        rw [h2]; exact hi.qs q hq hex i sn hsnap h1
    · simp at hc
  case publishCid =>
    split at hc
    · rename_i hp
      simp at hc; subst hc
      have hst : s.cons.staged = none := by
        cases hs : s.cons.staged with
        | none => rfl
        | some x => have := hi.stg (by simp [hs]); rw [hp] at this; cases this
      refine ⟨Nat.le_trans hi.hc hi.cd, by simp, by simp [hst], by simp, by simp [hst],
        by simp [inCommitAfterWrite]; exact hi.h3 (by simp [inCommitAfterWrite, hp]), ?_, hi.fresh, ?_, by simp, ?_, hi.qs⟩
      · intro i sn hcur hsn
        simp only [sideQ] at hcur hsn
        simp; rw [hi.sw (Or.inl hp) i sn hcur hsn]; exact Nat.le_refl _
      · intro _ i sn hcur hsn
        simp only [sideQ] at hcur hsn
        exact hi.sw (Or.inl hp) i sn hcur hsn
      · intro q hq hex
        simp only [sideQ] at hq
        exact Nat.le_trans (hi.qv q hq hex) hi.cd
    · simp at hc
  case publishHdr =>
    split at hc
    · rename_i hp
      simp at hc; subst hc
      have hst : s.cons.staged = none := by
        cases hs : s.cons.staged with
        | none => rfl
        | some x => have := hi.stg (by simp [hs]); rw [hp] at this; cases this
      have h3 := hi.h3 (by simp [inCommitAfterWrite, hp])
      refine ⟨by simp; rw [← h3, hi.pc hp]; exact Nat.le_refl _, hi.cd, by simp [hst], by simp, by simp [hst], by simp [inCommitAfterWrite],
        hi.cur, hi.fresh, by simp, by simp, hi.qv, hi.qs⟩
    · simp at hc

def QOrd (s : State) (x : Query) : Prop :=
  x.explicit = 0 → x.ver ≤ s.cons.cid ∧
    ∀ (i : Nat) (sn : Snap), x.snap = some i → s.qs.snaps[i]? = some sn → x.ver ≤ sn.content.latest

theorem oinv_q_update {s s' : State} (hi : OInv s) (hc : s'.cons = s.cons)
    (hcur : s'.qs.cur = s.qs.cur) (hfr : s'.qs.fresh = s.qs.fresh)
    (hlook : ∀ (k : Nat) (sn' : Snap), s'.qs.snaps[k]? = some sn' →
      ∃ sn, s.qs.snaps[k]? = some sn ∧ sn'.content = sn.content)
    (hqs : ∀ x ∈ s'.qs.queries, x ∈ s.qs.queries ∨ QOrd s x) : OInv s' := by
  have hq : ∀ x ∈ s'.qs.queries, QOrd s x := by
    intro x hx
    rcases hqs x hx with h | h
    · exact fun hex => ⟨hi.qv x h hex, hi.qs x h hex⟩
    · exact h
  refine ⟨by rw [hc]; exact hi.hc, by rw [hc]; exact hi.cd, by rw [hc]; exact hi.stg, by rw [hc]; exact hi.h1,
    by rw [hc]; exact hi.h2, by rw [hc]; exact hi.h3, ?_, ?_, ?_, by rw [hc]; exact hi.pc, ?_, ?_⟩
  · intro i sn' h1 h2
    rcases hlook i sn' h2 with ⟨sn, h3, h4⟩
    rw [hc, h4]; exact hi.cur i sn (by rw [← hcur]; exact h1) h3
  · intro j sn' h1 h2
    rcases hlook j sn' h2 with ⟨sn, h3, h4⟩
    rw [hc, h4]; exact hi.fresh j sn (by rw [← hfr]; exact h1) h3
  · intro hp i sn' h1 h2
    rcases hlook i sn' h2 with ⟨sn, h3, h4⟩
    rw [hc, h4]; exact hi.sw (by rw [← hc]; exact hp) i sn (by rw [← hcur]; exact h1) h3
  · intro x hx hex
    rw [hc]; exact (hq x hx hex).1
  · intro x hx hex i sn' h1 h2
    rcases hlook i sn' h2 with ⟨sn, h3, h4⟩
    rw [h4]; exact (hq x hx hex).2 i sn h1 h3

theorem oinv_stepQ {s s' : State} {e : QEv} (hi : OInv s) (h : step s (.q e) = some s') : OInv s' := by
  have ⟨hc, hq⟩ := step_q_cons h
  have same : ∀ (k : Nat) (sn' : Snap), s.qs.snaps[k]? = some sn' → ∃ sn : Snap, s.qs.snaps[k]? = some sn ∧ sn'.content = sn.content :=
    fun k sn' h => ⟨sn', h, rfl⟩
  -- replacing the found query by one with the same version / explicit height / snapshot
  have keep : ∀ {id : Nat} {q q' : Query}, findQ s.qs.queries id = some q →
      q'.explicit = q.explicit → q'.ver = q.ver → q'.snap = q.snap → QOrd s q' := by
    intro id q q' hf h1 h2 h3 hex
    have hq0 := findQ_mem hf
    rw [h1] at hex
    rw [h2, h3]
    exact ⟨hi.qv q hq0 hex, hi.qs q hq0 hex⟩
  cases e <;> simp only [stepQ] at hq
  case height id sim explicit =>
    have new : ∀ (q : Query), q.snap = none → (q.explicit = 0 → q.ver ≤ s.cons.cid) →
        s'.qs = { s.qs with queries := s.qs.queries ++ [q] } → OInv s' := by
      intro q h1 h2 h3
      refine oinv_q_update hi hc (by rw [h3]) (by rw [h3]) (by rw [h3]; exact same) ?_
      intro x hx
      rw [h3] at hx
      rcases List.mem_append.mp hx with h5 | h5
      · exact Or.inl h5
      · simp at h5; subst h5
        exact Or.inr (fun hex => ⟨h2 hex, fun i sn hs => by rw [h1] at hs; cases hs⟩)
    split at hq
    · simp at hq
    · split at hq
      · split at hq
        · simp at hq
        · simp at hq; exact new _ rfl (fun _ => hi.hc) hq.symm
      · simp at hq
        refine new _ rfl ?_ hq.symm
        intro hex
        simp only at hex ⊢
        simp [hex]
  case acquire id =>
    split at hq
    · rename_i q i hf hcur
      have hq0 : q ∈ s.qs.queries := findQ_mem hf
      split at hq
      · simp at hq
      · split at hq
        · simp at hq
        · rename_i sn hsn
          have pinned : ∀ (st : QStatus), QOrd s { q with snap := some i, status := st } := by
            intro st hex
            simp only at hex ⊢
            refine ⟨hi.qv q hq0 hex, ?_⟩
            intro j sn' hj hsn'
            simp at hj; subst hj
            exact Nat.le_trans (hi.qv q hq0 hex) (hi.cur i sn' hcur hsn')
          split at hq
          · simp at hq
            refine oinv_q_update hi hc (by rw [← hq]) (by rw [← hq]) (by rw [← hq]; exact fun k sn' h => content_acqSnap h) ?_
            intro x hx
            rw [← hq] at hx
            rcases mem_setQ hx with h1 | h1
            · right; subst h1; exact pinned _
            · exact Or.inl h1
          · simp at hq
            refine oinv_q_update hi hc (by rw [← hq]) (by rw [← hq]) (by
              rw [← hq]; intro k sn' h
              rcases content_relSnap h with ⟨sn1, h1, h2⟩
              rcases content_acqSnap h1 with ⟨sn2, h3, h4⟩
              exact ⟨sn2, h3, by rw [h2, h4]⟩) ?_
            intro x hx
            rw [← hq] at hx
            rcases mem_setQ hx with h1 | h1
            · right; subst h1; exact pinned _
            · exact Or.inl h1
    · simp at hq
  case hdr id =>
    split at hq
    · rename_i q hf
      split at hq
      · simp at hq
        refine oinv_q_update hi hc (by rw [← hq]) (by rw [← hq]) (by rw [← hq]; exact same) ?_
        intro x hx
        rw [← hq] at hx
        rcases mem_setQ hx with h1 | h1
        · right; subst h1; exact keep hf rfl rfl rfl
        · exact Or.inl h1
      · simp at hq
    · simp at hq
  case read id k0 =>
    split at hq
    · rename_i q hf
      split at hq
      · simp at hq
      · split at hq
        · simp at hq
        · split at hq
          · simp at hq
          · simp at hq
            refine oinv_q_update hi hc (by rw [← hq]) (by rw [← hq]) (by rw [← hq]; exact same) ?_
            intro x hx
            rw [← hq] at hx
            rcases mem_setQ hx with h1 | h1
            · right; subst h1; exact keep hf rfl rfl rfl
            · exact Or.inl h1
    · simp at hq
  case write id k0 v =>
    split at hq
    · rename_i q hf
      split at hq
      · simp at hq
        refine oinv_q_update hi hc (by rw [← hq]) (by rw [← hq]) (by rw [← hq]; exact same) ?_
        intro x hx
        rw [← hq] at hx
        rcases mem_setQ hx with h1 | h1
        · right; subst h1; exact keep hf rfl rfl rfl
        · exact Or.inl h1
      · simp at hq
    · simp at hq
  case release id =>
    split at hq
    · rename_i q hf
      split at hq
      · simp at hq
      · split at hq
        · simp at hq
        · rename_i i hsnap
          simp at hq
          refine oinv_q_update hi hc (by rw [← hq]) (by rw [← hq]) (by rw [← hq]; exact fun k sn' h => content_relSnap h) ?_
          intro x hx
          rw [← hq] at hx
          rcases mem_setQ hx with h1 | h1
          · right; subst h1; exact keep hf rfl rfl rfl
          · exact Or.inl h1
    · simp at hq

theorem oinv_run : ∀ (tr : List Ev) (s s' : State), RInv s → OInv s → run s tr = some s' → OInv s' := by
  intro tr
  induction tr with
  | nil => intro s s' _ hi h; simp [run] at h; subst h; exact hi
  | cons e r ih =>
    intro s s' hr hi h
    simp only [run] at h
    cases hs : step s e with
    | none => simp [hs] at h
    | some s1 =>
      simp [hs] at h
      have hr1 := rinv_step hr hs
      have hi1 : OInv s1 := by
        cases e with
        | c ce => exact oinv_stepC hr hi hs
        | q qe => exact oinv_stepQ hi hs
      exact ih s1 s' hr1 hi1 h

end GnoVerif.C28
