import GnoVerif.Proofs.C31Sim
/-!
Refinement, function by function: each `enter*` function of the executable node, then
`handleMsg`, `handleTimeout` and `handle`, is simulated by a path of abstract actions that emits
exactly the votes the function signs.  Core Lean only.
-/
set_option linter.unusedSimpArgs false
set_option linter.unusedVariables false
namespace GnoVerif.C31

theorem Step.le_def (a b : Step) : a ≤ b ↔ a.toNat ≤ b.toNat := Iff.rfl

-- ---------------------------------------------------------------- signing

/-- while the prevote (precommit) point of the current round is not passed, the node has signed no
prevote (precommit) for it -/
theorem no_own_vote {c : SysCfg} {p : Val} {s : Node} {L : List Vote} (hg : Good c p s L) (t : VType)
    (hst : match t with | .prevote => ¬ Step.prevote ≤ s.step | .precommit => ¬ Step.precommit ≤ s.step)
    (b : Option Block) : Vote.mk p s.height s.round t b ∉ L := by
  intro hin
  have := hg.2.done _ hin rfl rfl rfl
  cases t with
  | prevote =>
    have h1 := this.1 rfl
    simp only [absNode, decide_eq_true_eq] at h1
    exact hst h1
  | precommit =>
    have h1 := this.2 rfl
    simp only [absNode, decide_eq_true_eq] at h1
    exact hst h1

/-- `signAddVote` does sign when the vote sets are good and no own vote of that kind exists -/
theorem signAddVote_eq' {c : SysCfg} {p : Val} {s : Node} {L : List Vote} (t : VType)
    (hvs : HGood c s.height s.votes L) (hno : ∀ b', Vote.mk p s.height s.round t b' ∉ L)
    (b : Option Block) :
    signAddVote (c.node p) s t b =
      { s with queue := s.queue ++ [.vote ⟨p, s.height, s.round, t, b⟩],
               sent := s.sent ++ [⟨p, s.height, s.round, t, b⟩] } := by
  unfold signAddVote
  cases he : s.votes.getByIndex s.round t (c.node p).me with
  | none => rfl
  | some e =>
    exfalso
    obtain ⟨b', hb'⟩ := hvs.getByIndex_signed he
    exact hno b' hb'

/-- under that guard `signAddVote` does sign -/
theorem signAddVote_eq {c : SysCfg} {p : Val} {s : Node} {L : List Vote} (hg : Good c p s L) (t : VType)
    (hst : match t with | .prevote => ¬ Step.prevote ≤ s.step | .precommit => ¬ Step.precommit ≤ s.step)
    (b : Option Block) :
    signAddVote (c.node p) s t b =
      { s with queue := s.queue ++ [.vote ⟨p, s.height, s.round, t, b⟩],
               sent := s.sent ++ [⟨p, s.height, s.round, t, b⟩] } :=
  signAddVote_eq' t hg.1.hvs (no_own_vote hg t hst) b

/-- `defaultDoPrevote` signs a prevote for the locked block if there is one -/
theorem doPrevote_eq (k : NodeCfg) (s : Node) :
    ∃ w, doPrevote k s = signAddVote k s .prevote w ∧ ∀ lb, s.lockedBlock = some lb → w = some lb.id := by
  unfold doPrevote
  cases hl : s.lockedBlock with
  | some lb => exact ⟨some lb.id, rfl, fun lb' h => by cases h; rfl⟩
  | none =>
    cases hp : s.proposalBlock with
    | none => exact ⟨none, rfl, fun _ h => by cases h⟩
    | some pb =>
      by_cases hv : pb.valid = true
      · exact ⟨some pb.id, by simp [hv], fun _ h => by cases h⟩
      · exact ⟨none, by simp [hv], fun _ h => by cases h⟩

/-- GoodC of a state that only gained one signed vote (queue, sent, log) and moved its step inside
the round -/
theorem goodC_signed {c : SysCfg} {s s' : Node} {L : List Vote} {v : Vote} (hg : GoodC c s L)
    (hh : s'.height = s.height) (hv : s'.votes = s.votes)
    (hq : ∀ x, Msg.vote x ∈ s'.queue → Msg.vote x ∈ s.queue ∨ x = v)
    (ht : s'.tickLast = s.tickLast) (hr : s'.round = s.round)
    (hlr : s'.lockedRound ≤ (s'.round : Int) ∧ (s'.lockedRound = (s'.round : Int) → Step.precommit ≤ s'.step))
    (hln : s'.lockedBlock = none → s'.lockedRound = -1) :
    GoodC c s' (L ++ [v]) := by
  refine ⟨?_, ?_, ?_, hlr, hln⟩
  · rw [hh, hv]; exact hg.hvs.mono mem_append_left'
  · intro x hx
    rcases hq x hx with h1 | h1
    · exact List.mem_append_left _ (hg.queue x h1)
    · subst h1; simp
  · rw [ht, hh, hr]; exact hg.tick

-- ---------------------------------------------------------------- enterPrevote

theorem enterPrevote_sim {c : SysCfg} {p : Val} {s : Node} {L : List Vote} (hg : Good c p s L)
    (h r : Nat) (hr : r ≤ s.round) : ∃ L', Sim c p L s L' (enterPrevote (c.node p) s h r) := by
  unfold enterPrevote
  split
  · exact ⟨L, Sim.refl hg⟩
  · rename_i hguard
    simp only [not_or, not_and, Decidable.not_not] at hguard
    obtain ⟨hh, h2, h3⟩ := hguard
    have hre : r = s.round := by omega
    subst hre
    have hst : ¬ Step.prevote ≤ s.step := h3 rfl
    obtain ⟨w, hw, hlock⟩ := doPrevote_eq (c.node p) s
    rw [hw, signAddVote_eq hg .prevote hst w]
    dsimp only
    refine ⟨L ++ [⟨p, s.height, s.round, .prevote, w⟩], ?_⟩
    have hpc : ¬ Step.precommit ≤ s.step := by
      intro h4; apply hst; rw [Step.le_def] at *; simp [Step.toNat] at *; omega
    refine ⟨⟨_, rfl, rfl⟩, ?_, ?_, Nat.le_refl _, fun _ => Nat.le_refl _⟩
    · refine goodC_signed hg.1 rfl rfl ?_ rfl rfl ?_ ?_
      · intro x hx
        simp only [List.mem_append, List.mem_singleton, Msg.vote.injEq] at hx
        exact hx
      · refine ⟨hg.1.lockR.1, fun he => ?_⟩
        exact absurd (hg.1.lockR.2 he) hpc
      · exact hg.1.lockNone
    · have e : absNode { s with queue := s.queue ++ [.vote ⟨p, s.height, s.round, .prevote, w⟩],
                                 sent := s.sent ++ [⟨p, s.height, s.round, .prevote, w⟩],
                                 round := s.round, step := .prevote } =
          { absNode s with pvDone := true } := by
        simp only [absNode, decide_eq_false hpc]
        rfl
      rw [e]
      exact APath.single (AAct.prevote (absNode s) w (by simp [absNode, hst])
        (by
          intro v hv
          simp only [absNode, Option.map_eq_some_iff] at hv
          obtain ⟨lb, h5, h6⟩ := hv
          rw [hlock lb h5, h6]))

-- ---------------------------------------------------------------- enterPropose

/-- `enterPropose` up to (and including) its deferred step update -/
def proposeCore (k : NodeCfg) (s : Node) (h r : Nat) : Node :=
  let s1 := schedule s h r .propose
  let s2 := if k.proposer s1.height r = k.me then decideProposal k s1 h r else s1
  { s2 with round := r, step := .propose }

theorem enterPropose_unfold (k : NodeCfg) (s : Node) (h r : Nat) :
    enterPropose k s h r =
      if s.height ≠ h ∨ r < s.round ∨ (s.round = r ∧ Step.propose ≤ s.step) then s else
      if isProposalComplete (proposeCore k s h r) then
        enterPrevote k (proposeCore k s h r) h (proposeCore k s h r).round
      else proposeCore k s h r := rfl

theorem proposeCore_fields (k : NodeCfg) (s : Node) (h r : Nat) :
    (proposeCore k s h r).height = s.height ∧ (proposeCore k s h r).round = r ∧
    (proposeCore k s h r).step = .propose ∧ (proposeCore k s h r).votes = s.votes ∧
    (proposeCore k s h r).sent = s.sent ∧ (proposeCore k s h r).lockedRound = s.lockedRound ∧
    (proposeCore k s h r).lockedBlock = s.lockedBlock ∧ (proposeCore k s h r).decided = s.decided ∧
    (proposeCore k s h r).tickLast = (schedule s h r .propose).tickLast ∧
    (∀ v, Msg.vote v ∈ (proposeCore k s h r).queue → Msg.vote v ∈ s.queue) := by
  have f := schedule_fields s h r .propose
  unfold proposeCore
  dsimp only
  split <;> simp [decideProposal, f]

theorem enterPropose_sim {c : SysCfg} {p : Val} {s : Node} {L : List Vote} (hg : Good c p s L)
    (h r : Nat) (hr : r ≤ s.round) : ∃ L', Sim c p L s L' (enterPropose (c.node p) s h r) := by
  rw [enterPropose_unfold]
  split
  · exact ⟨L, Sim.refl hg⟩
  · rename_i hguard
    simp only [not_or, not_and, Decidable.not_not] at hguard
    obtain ⟨hh, h2, h3⟩ := hguard
    have hre : r = s.round := by omega
    subst hre
    have hst : ¬ Step.propose ≤ s.step := h3 rfl
    obtain ⟨f1, f2, f3, f4, f5, f6, f7, f8, f9, f10⟩ := proposeCore_fields (c.node p) s h s.round
    have hsim : Sim c p L s L (proposeCore (c.node p) s h s.round) := by
      apply Sim.ofAdv hg
      · refine ⟨f1, f6, f7, f8, f5, Or.inr ⟨f2, ?_, ?_⟩⟩
        · intro h4; exfalso; apply hst; rw [Step.le_def] at *; simp [Step.toNat] at *; omega
        · intro h4; exfalso; apply hst; rw [Step.le_def] at *; simp [Step.toNat] at *; omega
      · rw [f1, f4]; exact hg.1.hvs
      · intro v hv; exact hg.1.queue v (f10 v hv)
      · rw [f9, f1, f2]; exact schedule_tick .propose hg.1.tick hh.symm (Nat.le_refl _)
    split
    · exact hsim.then hg fun hg3 => enterPrevote_sim hg3 h _ (Nat.le_refl _)
    · exact ⟨L, hsim⟩

-- ---------------------------------------------------------------- enterNewRound

/-- `enterNewRound` up to the call of `enterPropose` -/
def newRoundCore (s : Node) (r : Nat) : Node :=
  let s1 := { s with round := r, step := .newRound }
  let s2 := if r = 0 then s1
            else { s1 with proposal := none, proposalBlock := none, proposalBlockParts := none }
  { s2 with votes := s2.votes.setRound (r + 1), triggeredTimeoutPrecommit := false }

theorem enterNewRound_unfold (k : NodeCfg) (s : Node) (h r : Nat) :
    enterNewRound k s h r =
      if s.height ≠ h ∨ r < s.round ∨ (s.round = r ∧ s.step ≠ .newHeight) then s else
      enterPropose k (newRoundCore s r) h r := rfl

theorem newRoundCore_fields (s : Node) (r : Nat) :
    (newRoundCore s r).height = s.height ∧ (newRoundCore s r).round = r ∧
    (newRoundCore s r).step = .newRound ∧ (newRoundCore s r).votes = s.votes.setRound (r + 1) ∧
    (newRoundCore s r).sent = s.sent ∧ (newRoundCore s r).lockedRound = s.lockedRound ∧
    (newRoundCore s r).lockedBlock = s.lockedBlock ∧ (newRoundCore s r).decided = s.decided ∧
    (newRoundCore s r).tickLast = s.tickLast ∧ (newRoundCore s r).queue = s.queue := by
  unfold newRoundCore
  dsimp only
  split <;> simp

theorem enterNewRound_sim {c : SysCfg} {p : Val} {s : Node} {L : List Vote} (hg : Good c p s L)
    (h r : Nat) : ∃ L', Sim c p L s L' (enterNewRound (c.node p) s h r) := by
  rw [enterNewRound_unfold]
  split
  · exact ⟨L, Sim.refl hg⟩
  · rename_i hguard
    simp only [not_or, not_and, Decidable.not_not] at hguard
    obtain ⟨hh, h2, h3⟩ := hguard
    obtain ⟨f1, f2, f3, f4, f5, f6, f7, f8, f9, f10⟩ := newRoundCore_fields s r
    have hsim : Sim c p L s L (newRoundCore s r) := by
      apply Sim.ofAdv hg
      · refine ⟨f1, f6, f7, f8, f5, ?_⟩
        rw [f2]
        by_cases he : s.round = r
        · have := h3 he
          refine Or.inr ⟨he.symm, ?_, ?_⟩ <;>
            (intro h4; rw [this, Step.le_def] at h4; simp [Step.toNat] at h4)
        · exact Or.inl (by omega)
      · rw [f1, f4]; exact hg.1.hvs.setRound _
      · intro v hv; rw [f10] at hv; exact hg.1.queue v hv
      · rw [f9, f1, f2]
        exact ⟨hg.1.tick.1, fun he => Nat.le_trans (hg.1.tick.2 he) (by omega)⟩
    exact hsim.then hg fun hg3 => enterPropose_sim hg3 h r (by rw [f2]; exact Nat.le_refl _)

/-- after `enterNewRound(height, r)` at the node's height the round is at least `r` -/
theorem enterNewRound_round {c : SysCfg} {p : Val} {s : Node} {L : List Vote} (hg : Good c p s L)
    (r : Nat) {L' : List Vote} (hs : Sim c p L s L' (enterNewRound (c.node p) s s.height r))
    (hh : (enterNewRound (c.node p) s s.height r).height = s.height) :
    r ≤ (enterNewRound (c.node p) s s.height r).round := by
  rw [enterNewRound_unfold] at hh ⊢
  split
  · rename_i hguard
    rcases hguard with h1 | h1 | ⟨h1, _⟩
    · exact absurd rfl h1
    · omega
    · omega
  · rename_i hguard
    rw [if_neg hguard] at hh
    -- enterPropose never lowers the round
    obtain ⟨f1, f2, _⟩ := newRoundCore_fields s r
    have hguard' := hguard
    simp only [not_or, not_and, Decidable.not_not] at hguard'
    have hsim : ∃ L1, Sim c p L s L1 (newRoundCore s r) := by
      obtain ⟨_, _, _, f4, f5, f6, f7, f8, f9, f10⟩ := newRoundCore_fields s r
      refine ⟨L, ?_⟩
      apply Sim.ofAdv hg
      · refine ⟨f1, f6, f7, f8, f5, ?_⟩
        rw [f2]
        by_cases he : s.round = r
        · have := hguard'.2.2 he
          refine Or.inr ⟨he.symm, ?_, ?_⟩ <;>
            (intro h4; rw [this, Step.le_def] at h4; simp [Step.toNat] at h4)
        · exact Or.inl (by omega)
      · rw [f1, f4]; exact hg.1.hvs.setRound _
      · intro v hv; rw [f10] at hv; exact hg.1.queue v hv
      · rw [f9, f1, f2]
        exact ⟨hg.1.tick.1, fun he => Nat.le_trans (hg.1.tick.2 he) (by omega)⟩
    obtain ⟨L1, hs1⟩ := hsim
    obtain ⟨L2, hs2⟩ := enterPropose_sim (hs1.good hg) s.height r (by rw [f2]; exact Nat.le_refl _)
    have := hs2.rmono (by rw [hh, f1])
    rw [f2] at this
    exact this

-- ---------------------------------------------------------------- the two wait steps

theorem enterPrevoteWait_sim {c : SysCfg} {p : Val} {s : Node} {L : List Vote} (hg : Good c p s L)
    (h r : Nat) (hr : r ≤ s.round) : ∃ L', Sim c p L s L' (enterPrevoteWait s h r) := by
  unfold enterPrevoteWait
  split
  · exact ⟨L, Sim.refl hg⟩
  · rename_i hguard
    simp only [not_or, not_and, Decidable.not_not] at hguard
    obtain ⟨hh, h2, h3⟩ := hguard
    have hre : r = s.round := by omega
    subst hre
    have hst : ¬ Step.prevoteWait ≤ s.step := h3 rfl
    have f := schedule_fields s h s.round .prevoteWait
    refine ⟨L, ?_⟩
    dsimp only
    apply Sim.ofAdv hg
    · refine ⟨by simp [f], by simp [f], by simp [f], by simp [f], by simp [f], Or.inr ⟨rfl, ?_, ?_⟩⟩
      · intro _; rw [Step.le_def]; simp [Step.toNat]
      · intro h4; exfalso; apply hst; rw [Step.le_def] at *; simp [Step.toNat] at *; omega
    · simp only [f]; exact hg.1.hvs
    · intro v hv; simp only [f] at hv; exact hg.1.queue v hv
    · simp only [f]; exact schedule_tick .prevoteWait hg.1.tick hh.symm (Nat.le_refl _)

theorem enterPrecommitWait_sim {c : SysCfg} {p : Val} {s : Node} {L : List Vote} (hg : Good c p s L)
    (h r : Nat) (hr : r ≤ s.round) : ∃ L', Sim c p L s L' (enterPrecommitWait s h r) := by
  unfold enterPrecommitWait
  split
  · exact ⟨L, Sim.refl hg⟩
  · rename_i hguard
    simp only [not_or, not_and, Decidable.not_not] at hguard
    obtain ⟨hh, h2, h3⟩ := hguard
    have hre : r = s.round := by omega
    subst hre
    have f := schedule_fields s h s.round .precommitWait
    refine ⟨L, ?_⟩
    dsimp only
    apply Sim.ofAdv hg
    · refine ⟨by simp [f], by simp [f], by simp [f], by simp [f], by simp [f], Or.inr ⟨by simp [f], ?_, ?_⟩⟩
      · intro _; rw [Step.le_def]; simp [Step.toNat]
      · intro _; rw [Step.le_def]; simp [Step.toNat]
    · simp only [f]; exact hg.1.hvs
    · intro v hv; simp only [f] at hv; exact hg.1.queue v hv
    · simp only [f]; exact schedule_tick .precommitWait hg.1.tick hh.symm (Nat.le_refl _)

-- ---------------------------------------------------------------- enterPrecommit

/-- the deferred step update of `enterPrecommit` -/
def pcDoneAt (r : Nat) (x : Node) : Node := { x with round := r, step := .precommit }

/-- sign a nil precommit at the current round, then the deferred step update -/
theorem precommitNil_sim {c : SysCfg} {p : Val} {s : Node} {L : List Vote} (hg : Good c p s L)
    (hst : ¬ Step.precommit ≤ s.step) :
    Sim c p L s (L ++ [⟨p, s.height, s.round, .precommit, none⟩])
      (pcDoneAt s.round (signAddVote (c.node p) s .precommit none)) := by
  rw [signAddVote_eq hg .precommit hst none]
  unfold pcDoneAt
  dsimp only
  refine ⟨⟨_, rfl, rfl⟩, ?_, ?_, Nat.le_refl _, fun _ => Nat.le_refl _⟩
  · refine goodC_signed hg.1 rfl rfl ?_ rfl rfl ?_ ?_
    · intro x hx
      simp only [List.mem_append, List.mem_singleton, Msg.vote.injEq] at hx
      exact hx
    · exact ⟨hg.1.lockR.1, fun _ => by rw [Step.le_def]; simp [Step.toNat]⟩
    · exact hg.1.lockNone
  · -- precommitNil, then `advance` sets the prevote mark
    have h1 := APath.single (c := c.abs) (p := p) (L := L)
      (AAct.precommitNil (absNode s) (by simp [absNode, hst]))
    refine h1.trans ?_
    have h2 := APath.single (c := c.abs) (p := p)
      (L := L ++ [⟨p, (absNode s).height, (absNode s).round, .precommit, none⟩])
      (AAct.advance { absNode s with pcDone := true } s.round true true (Or.inr ⟨rfl, fun _ => rfl, fun _ => rfl⟩))
    rw [List.append_nil] at h2
    exact h2

/-- lock (or relock) on `lb` and sign a precommit for it, then the deferred step update -/
theorem precommitBlock_sim {c : SysCfg} {p : Val} {s : Node} {L : List Vote} (hg : Good c p s L)
    (hst : ¬ Step.precommit ≤ s.step) (lb : Blk)
    (hp : polka c.abs L s.height s.round (some lb.id)) :
    Sim c p L s (L ++ [⟨p, s.height, s.round, .precommit, some lb.id⟩])
      (pcDoneAt s.round (signAddVote (c.node p) { s with lockedRound := s.round, lockedBlock := some lb }
        .precommit (some lb.id))) := by
  rw [signAddVote_eq' (L := L) .precommit (by exact hg.1.hvs) (by exact no_own_vote hg .precommit hst) (some lb.id)]
  unfold pcDoneAt
  dsimp only
  refine ⟨⟨_, rfl, rfl⟩, ?_, ?_, Nat.le_refl _, fun _ => Nat.le_refl _⟩
  · refine goodC_signed hg.1 rfl rfl ?_ rfl rfl ?_ ?_
    · intro x hx
      simp only [List.mem_append, List.mem_singleton, Msg.vote.injEq] at hx
      exact hx
    · exact ⟨Int.le_refl _, fun _ => by rw [Step.le_def]; simp [Step.toNat]⟩
    · intro h; cases h
  · have h1 := APath.single (c := c.abs) (p := p) (L := L)
      (AAct.precommitBlock (absNode s) lb.id (by simp [absNode, hst]) hp)
    refine h1.trans ?_
    have h2 := APath.single (c := c.abs) (p := p)
      (L := L ++ [⟨p, (absNode s).height, (absNode s).round, .precommit, some lb.id⟩])
      (AAct.advance { absNode s with pcDone := true, lockedRound := (absNode s).round, lockedBlock := some lb.id }
        s.round true true (Or.inr ⟨rfl, fun _ => rfl, fun _ => rfl⟩))
    rw [List.append_nil] at h2
    exact h2

/-- drop the lock on a polka for something else at a round `ρ` with `LockedRound < ρ ≤ Round`
(or when not locked at all) -/
theorem unlock_sim_at {c : SysCfg} {p : Val} {s s1 : Node} {L : List Vote} (hg : Good c p s L)
    (ρ : Nat) (w : Option Block) (hp : polka c.abs L s.height ρ w)
    (hρ : ∀ lb, s.lockedBlock = some lb → s.lockedRound < (ρ : Int) ∧ ρ ≤ s.round)
    (hw : ∀ lb, s.lockedBlock = some lb → w ≠ some lb.id)
    (e1 : s1.height = s.height) (e2 : s1.round = s.round) (e3 : s1.step = s.step)
    (e4 : s1.votes = s.votes) (e5 : s1.queue = s.queue) (e6 : s1.sent = s.sent)
    (e7 : s1.tickLast = s.tickLast) (e8 : s1.decided = s.decided)
    (e9 : s1.lockedRound = -1) (e10 : s1.lockedBlock = none) :
    Sim c p L s L s1 := by
  have hgc : GoodC c s1 L := by
    refine ⟨by rw [e1, e4]; exact hg.1.hvs, by rw [e5]; exact hg.1.queue,
      by rw [e7, e1, e2]; exact hg.1.tick, ?_, fun _ => e9⟩
    rw [e9]; exact ⟨by omega, fun he => by omega⟩
  refine ⟨⟨[], by simp [e6], by simp⟩, hgc, ?_, Nat.le_of_eq e1.symm, fun _ => Nat.le_of_eq e2.symm⟩
  cases hl : s.lockedBlock with
  | none =>
    have : absNode s1 = absNode s := by
      simp only [absNode, e1, e2, e3, e8, e9, e10, hl, hg.1.lockNone hl]
    rw [this]; exact .refl _ _
  | some lb =>
    have h1 := APath.single (c := c.abs) (p := p) (L := L)
      (AAct.unlock (absNode s) lb.id ρ w (by simp [absNode, hl]) (hρ lb hl) (hw lb hl) hp)
    rw [List.append_nil] at h1
    have : absNode s1 = { absNode s with lockedRound := -1, lockedBlock := none } := by
      simp only [absNode, e1, e2, e3, e8, e9, e10, Option.map_none]
    rw [this]; exact h1

/-- the same at the current round, before the precommit point -/
theorem unlock_sim {c : SysCfg} {p : Val} {s s1 : Node} {L : List Vote} (hg : Good c p s L)
    (hst : ¬ Step.precommit ≤ s.step) (w : Option Block) (hp : polka c.abs L s.height s.round w)
    (hw : ∀ lb, s.lockedBlock = some lb → w ≠ some lb.id)
    (e1 : s1.height = s.height) (e2 : s1.round = s.round) (e3 : s1.step = s.step)
    (e4 : s1.votes = s.votes) (e5 : s1.queue = s.queue) (e6 : s1.sent = s.sent)
    (e7 : s1.tickLast = s.tickLast) (e8 : s1.decided = s.decided)
    (e9 : s1.lockedRound = -1) (e10 : s1.lockedBlock = none) :
    Sim c p L s L s1 := by
  refine unlock_sim_at hg s.round w hp (fun lb hl => ⟨?_, Nat.le_refl _⟩) hw e1 e2 e3 e4 e5 e6 e7 e8 e9 e10
  rcases Int.lt_or_eq_of_le hg.1.lockR.1 with h1 | h1
  · exact h1
  · exact absurd (hg.1.lockR.2 h1) hst

theorem hashesTo_some {b : Option Blk} {id : Block} (h : hashesTo b id = true) :
    ∃ lb, b = some lb ∧ lb.id = id := by
  cases b with
  | none => simp [hashesTo] at h
  | some lb => exact ⟨lb, rfl, by simpa [hashesTo] using h⟩

/-- `enterPrecommit`: the branch "a polka for a block we do not have" -/
def pcUnknown (k : NodeCfg) (s : Node) (r : Nat) (id : Block) : Node :=
  let s1 := { s with lockedRound := -1, lockedBlock := none }
  let s2 := if s1.proposalBlockParts = some id then s1
            else { s1 with proposalBlock := none, proposalBlockParts := some id }
  pcDoneAt r (signAddVote k s2 .precommit none)

/-- `enterPrecommit`: a polka for block `id` that is not the locked block; `pbo` = `ProposalBlock` -/
def pcBlock (k : NodeCfg) (s : Node) (r : Nat) (id : Block) (pbo : Option Blk) : Node :=
  match pbo with
  | none => pcUnknown k s r id
  | some pb =>
    if pb.id ≠ id then pcUnknown k s r id
    else if !pb.valid then { (pcDoneAt r s) with halted := true }
    else pcDoneAt r (signAddVote k { s with lockedRound := r, lockedBlock := some pb } .precommit (some id))

theorem enterPrecommit_unfold (k : NodeCfg) (s : Node) (h r : Nat) :
    enterPrecommit k s h r =
      if s.height ≠ h ∨ r < s.round ∨ (s.round = r ∧ Step.precommit ≤ s.step) then s else
      match s.votes.maj23 r .prevote with
      | none => pcDoneAt r (signAddVote k s .precommit none)
      | some none =>
        pcDoneAt r (signAddVote k (match s.lockedBlock with
          | none => s
          | some _ => { s with lockedRound := -1, lockedBlock := none }) .precommit none)
      | some (some id) =>
        if hashesTo s.lockedBlock id then
          pcDoneAt r (signAddVote k { s with lockedRound := r } .precommit (some id))
        else pcBlock k s r id s.proposalBlock := rfl

theorem pcUnknown_sim {c : SysCfg} {p : Val} {s : Node} {L : List Vote} (hg : Good c p s L)
    (hst : ¬ Step.precommit ≤ s.step) (id : Block) (hpol : polka c.abs L s.height s.round (some id))
    (hne : ∀ lb, s.lockedBlock = some lb → lb.id ≠ id) :
    ∃ L', Sim c p L s L' (pcUnknown (c.node p) s s.round id) := by
  unfold pcUnknown
  dsimp only
  have hs1 : Sim c p L s L
      (if s.proposalBlockParts = some id then { s with lockedRound := -1, lockedBlock := none }
       else { s with lockedRound := -1, lockedBlock := none, proposalBlock := none,
                     proposalBlockParts := some id }) := by
    split <;>
    exact unlock_sim hg hst (some id) hpol (fun lb hl he => hne lb hl (by cases he; rfl))
      rfl rfl rfl rfl rfl rfl rfl rfl rfl rfl
  have hg1 := hs1.good hg
  have e : (if s.proposalBlockParts = some id then { s with lockedRound := -1, lockedBlock := none }
       else { s with lockedRound := -1, lockedBlock := none, proposalBlock := none,
                     proposalBlockParts := some id }).round = s.round := by split <;> rfl
  have est : (if s.proposalBlockParts = some id then { s with lockedRound := -1, lockedBlock := none }
       else { s with lockedRound := -1, lockedBlock := none, proposalBlock := none,
                     proposalBlockParts := some id }).step = s.step := by split <;> rfl
  have := precommitNil_sim hg1 (by rw [est]; exact hst)
  rw [e] at this
  exact ⟨_, hs1.trans this⟩

theorem pcBlock_sim {c : SysCfg} {p : Val} {s : Node} {L : List Vote} (hg : Good c p s L)
    (hst : ¬ Step.precommit ≤ s.step) (id : Block) (hpol : polka c.abs L s.height s.round (some id))
    (hne : ∀ lb, s.lockedBlock = some lb → lb.id ≠ id) (pbo : Option Blk) :
    ∃ L', Sim c p L s L' (pcBlock (c.node p) s s.round id pbo) := by
  unfold pcBlock
  cases pbo with
  | none => exact pcUnknown_sim hg hst id hpol hne
  | some pb =>
    dsimp only
    by_cases hid : pb.id = id
    · subst hid
      rw [if_neg (by simp)]
      by_cases hv : pb.valid = true
      · rw [if_neg (by simp [hv])]
        exact ⟨_, precommitBlock_sim hg hst pb hpol⟩
      · rw [if_pos (by simpa using hv)]
        -- panic: only the deferred step update happens
        refine ⟨L, ?_⟩
        refine Sim.ofAdv' hg ⟨rfl, rfl, rfl, rfl, rfl, Or.inr ⟨rfl, ?_, ?_⟩⟩ rfl (fun _ h => h) rfl <;>
          (intro _; rw [Step.le_def]; simp [Step.toNat, pcDoneAt])
    · rw [if_pos hid]
      exact pcUnknown_sim hg hst id hpol hne

theorem enterPrecommit_sim {c : SysCfg} {p : Val} {s : Node} {L : List Vote} (hg : Good c p s L)
    (h r : Nat) (hr : r ≤ s.round) : ∃ L', Sim c p L s L' (enterPrecommit (c.node p) s h r) := by
  rw [enterPrecommit_unfold]
  split
  · exact ⟨L, Sim.refl hg⟩
  · rename_i hguard
    simp only [not_or, not_and, Decidable.not_not] at hguard
    obtain ⟨hh, h2, h3⟩ := hguard
    have hre : r = s.round := by omega
    subst hre
    have hst : ¬ Step.precommit ≤ s.step := h3 rfl
    cases hm : s.votes.maj23 s.round .prevote with
    | none => exact ⟨_, precommitNil_sim hg hst⟩
    | some bid =>
      have hpol : polka c.abs L s.height s.round bid := hg.1.hvs.maj23_quorum hm
      cases bid with
      | none =>
        dsimp only
        -- +2/3 nil: unlock, precommit nil
        have hs1 : Sim c p L s L (match s.lockedBlock with
            | none => s
            | some _ => { s with lockedRound := -1, lockedBlock := none }) := by
          cases hl : s.lockedBlock with
          | none => exact Sim.refl hg
          | some lb =>
            exact unlock_sim hg hst none hpol (fun _ _ h => by cases h) rfl rfl rfl rfl rfl rfl rfl rfl rfl rfl
        have hg1 := hs1.good hg
        have e : (match s.lockedBlock with
            | none => s
            | some _ => { s with lockedRound := -1, lockedBlock := none }).round = s.round := by
          cases s.lockedBlock <;> rfl
        have est : (match s.lockedBlock with
            | none => s
            | some _ => { s with lockedRound := -1, lockedBlock := none }).step = s.step := by
          cases s.lockedBlock <;> rfl
        have := precommitNil_sim hg1 (by rw [est]; exact hst)
        rw [e] at this
        exact ⟨_, hs1.trans this⟩
      | some id =>
        dsimp only
        by_cases hlk : hashesTo s.lockedBlock id = true
        · -- relock
          rw [if_pos hlk]
          obtain ⟨lb, hl, hid⟩ := hashesTo_some hlk
          subst hid
          have := precommitBlock_sim hg hst lb hpol
          rw [← hl] at this
          exact ⟨_, this⟩
        · rw [if_neg hlk]
          have hne : ∀ lb, s.lockedBlock = some lb → lb.id ≠ id := by
            intro lb hl he
            apply hlk; simp [hashesTo, hl, he]
          exact pcBlock_sim hg hst id hpol hne _

-- ---------------------------------------------------------------- commit

theorem newHeight_sim {c : SysCfg} {p : Val} {s : Node} {L : List Vote} (hg : Good c p s L)
    (id : Block) (r : Nat) (hq : commitQ c.abs L s.height r id) :
    Sim c p L s L (newHeight (c.node p) s id) := by
  unfold newHeight
  dsimp only
  have f := schedule_fields
    { s with height := s.height + 1, round := 0, step := .newHeight, proposal := none,
             proposalBlock := none, proposalBlockParts := none, lockedRound := -1, lockedBlock := none,
             validRound := -1, validBlock := none, votes := HVS.new (s.height + 1) (c.node p).vals,
             commitRound := -1, triggeredTimeoutPrecommit := false,
             decided := (s.height, id) :: s.decided } (s.height + 1) 0 .newHeight
  obtain ⟨f1, f2, f3, f4, f5, f6, f7, f8, f9, _⟩ := f
  refine ⟨⟨[], by rw [f6]; simp, by simp⟩, ?_, ?_, ?_, ?_⟩
  · refine ⟨?_, ?_, ?_, ?_, ?_⟩
    · rw [f1, f4]; exact HGood.new c (s.height + 1) L
    · rw [f5]; exact hg.1.queue
    · rw [f1, f2]
      apply schedule_tick .newHeight _ rfl (Nat.le_refl _)
      exact ⟨Nat.le_trans hg.1.tick.1 (Nat.le_succ _), fun he => by have := hg.1.tick.1; dsimp only at he; omega⟩
    · rw [f7, f2]; exact ⟨by simp, fun he => by simp at he⟩
    · intro _; rw [f7]
  · have e : absNode (schedule
        { s with height := s.height + 1, round := 0, step := .newHeight, proposal := none,
                 proposalBlock := none, proposalBlockParts := none, lockedRound := -1, lockedBlock := none,
                 validRound := -1, validBlock := none, votes := HVS.new (s.height + 1) (c.node p).vals,
                 commitRound := -1, triggeredTimeoutPrecommit := false,
                 decided := (s.height, id) :: s.decided } (s.height + 1) 0 .newHeight) =
        { height := (absNode s).height + 1, round := 0, pvDone := false, pcDone := false,
          lockedRound := -1, lockedBlock := none, decided := ((absNode s).height, id) :: (absNode s).decided } := by
      simp only [absNode, f1, f2, f3, f7, f8, f9]
      simp [Step.le_def, Step.toNat]
    rw [e]
    have := APath.single (c := c.abs) (p := p) (L := L) (AAct.decide (absNode s) id r hq)
    rw [List.append_nil] at this
    exact this
  · rw [f1]; exact Nat.le_succ _
  · intro he; rw [f1] at he; dsimp only at he; omega

theorem tryFinalizeCommit_sim {c : SysCfg} {p : Val} {s : Node} {L : List Vote} (hg : Good c p s L)
    (h : Nat) : ∃ L', Sim c p L s L' (tryFinalizeCommit (c.node p) s h) := by
  unfold tryFinalizeCommit
  split
  · rename_i id hm
    split
    · rename_i hpb
      -- finalizeCommit
      unfold finalizeCommit
      split
      · exact ⟨L, Sim.refl hg⟩
      · obtain ⟨pb, hpbe, hid⟩ := hashesTo_some hpb
        rw [hpbe]
        dsimp only
        split
        · -- panic("+2/3 committed an invalid block")
          exact ⟨L, Sim.ofAdv' hg ⟨rfl, rfl, rfl, rfl, rfl, Or.inr ⟨rfl, fun h => h, fun h => h⟩⟩ rfl
            (fun _ h => h) rfl⟩
        · have hcr : ¬ s.commitRound < 0 := by
            intro hlt; rw [if_pos hlt] at hm; cases hm
          rw [if_neg hcr] at hm
          have hq := hg.1.hvs.maj23_quorum hm
          rw [hid]
          exact ⟨L, newHeight_sim hg id _ hq⟩
    · exact ⟨L, Sim.refl hg⟩
  · exact ⟨L, Sim.refl hg⟩

/-- `enterCommit` up to the call of `tryFinalizeCommit` -/
def commitCore (s : Node) (id : Block) (cr : Nat) : Node :=
  let s1 := if hashesTo s.lockedBlock id then
              { s with proposalBlock := s.lockedBlock, proposalBlockParts := some id }
            else s
  let s2 := if !hashesTo s1.proposalBlock id ∧ s1.proposalBlockParts ≠ some id then
              { s1 with proposalBlock := none, proposalBlockParts := some id }
            else s1
  { s2 with step := .commit, commitRound := cr }

theorem enterCommit_unfold (k : NodeCfg) (s : Node) (h cr : Nat) :
    enterCommit k s h cr =
      if s.height ≠ h ∨ Step.commit ≤ s.step then s else
      match s.votes.maj23 cr .precommit with
      | some (some id) => tryFinalizeCommit k (commitCore s id cr) h
      | _ => s := rfl

theorem commitCore_fields (s : Node) (id : Block) (cr : Nat) :
    (commitCore s id cr).height = s.height ∧ (commitCore s id cr).round = s.round ∧
    (commitCore s id cr).step = .commit ∧ (commitCore s id cr).votes = s.votes ∧
    (commitCore s id cr).sent = s.sent ∧ (commitCore s id cr).lockedRound = s.lockedRound ∧
    (commitCore s id cr).lockedBlock = s.lockedBlock ∧ (commitCore s id cr).decided = s.decided ∧
    (commitCore s id cr).tickLast = s.tickLast ∧ (commitCore s id cr).queue = s.queue := by
  unfold commitCore
  dsimp only
  split <;> split <;> simp

theorem enterCommit_sim {c : SysCfg} {p : Val} {s : Node} {L : List Vote} (hg : Good c p s L)
    (h cr : Nat) : ∃ L', Sim c p L s L' (enterCommit (c.node p) s h cr) := by
  rw [enterCommit_unfold]
  split
  · exact ⟨L, Sim.refl hg⟩
  · split
    · rename_i id hm
      obtain ⟨f1, f2, f3, f4, f5, f6, f7, f8, f9, f10⟩ := commitCore_fields s id cr
      have hsim : Sim c p L s L (commitCore s id cr) := by
        refine Sim.ofAdv' hg ⟨f1, f6, f7, f8, f5, Or.inr ⟨f2, ?_, ?_⟩⟩ f4 (by rw [f10]; exact fun _ h => h) f9 <;>
          (intro _; rw [f3, Step.le_def]; simp [Step.toNat])
      exact hsim.then hg fun hg3 => tryFinalizeCommit_sim hg3 h
    · exact ⟨L, Sim.refl hg⟩

-- ---------------------------------------------------------------- proposals and block parts

theorem setProposal_sim {c : SysCfg} {p : Val} {s : Node} {L : List Vote} (hg : Good c p s L)
    (pr : Proposal) (sigOk : Bool) : Sim c p L s L (setProposal (c.node p) s pr sigOk) := by
  unfold setProposal
  split
  · exact Sim.refl hg
  · split
    · exact Sim.refl hg
    · split
      · exact Sim.refl hg
      · split
        · exact Sim.refl hg
        · exact Sim.ofAdv' hg ⟨rfl, rfl, rfl, rfl, rfl, Or.inr ⟨rfl, fun h => h, fun h => h⟩⟩ rfl
            (fun _ h => h) rfl

/-- `addProposalBlockPart` once the part is accepted and completes the block: `ProposalBlock` and
`Valid*` updates -/
def partCore (s : Node) (b : Blk) : Node :=
  let s1 := { s with proposalBlock := some b }
  match s1.votes.maj23 s1.round .prevote with
  | some (some id) =>
    if s1.validRound < s1.round ∧ b.id = id then
      { s1 with validRound := s1.round, validBlock := some b }
    else s1
  | _ => s1

theorem partCore_fields (s : Node) (b : Blk) :
    (partCore s b).height = s.height ∧ (partCore s b).round = s.round ∧
    (partCore s b).step = s.step ∧ (partCore s b).votes = s.votes ∧
    (partCore s b).sent = s.sent ∧ (partCore s b).lockedRound = s.lockedRound ∧
    (partCore s b).lockedBlock = s.lockedBlock ∧ (partCore s b).decided = s.decided ∧
    (partCore s b).tickLast = s.tickLast ∧ (partCore s b).queue = s.queue := by
  unfold partCore
  dsimp only
  split
  · split <;> simp
  · simp

theorem addProposalBlockPart_unfold (k : NodeCfg) (s : Node) (h r : Nat) (b : Blk) :
    addProposalBlockPart k s h r b =
      if s.height ≠ h then s else
      match s.proposalBlockParts with
      | none => s
      | some hdr =>
        if hdr ≠ b.id then s
        else if s.proposalBlock.isSome then s
        else
          if (partCore s b).step ≤ Step.propose ∧ isProposalComplete (partCore s b) then
            if (s.votes.maj23 s.round .prevote).isSome then
              enterPrecommit k (enterPrevote k (partCore s b) h (partCore s b).round) h
                (enterPrevote k (partCore s b) h (partCore s b).round).round
            else enterPrevote k (partCore s b) h (partCore s b).round
          else if (partCore s b).step = .commit then tryFinalizeCommit k (partCore s b) h
          else partCore s b := rfl

theorem addProposalBlockPart_sim {c : SysCfg} {p : Val} {s : Node} {L : List Vote} (hg : Good c p s L)
    (h r : Nat) (b : Blk) : ∃ L', Sim c p L s L' (addProposalBlockPart (c.node p) s h r b) := by
  rw [addProposalBlockPart_unfold]
  split
  · exact ⟨L, Sim.refl hg⟩
  · split
    · exact ⟨L, Sim.refl hg⟩
    · split
      · exact ⟨L, Sim.refl hg⟩
      · split
        · exact ⟨L, Sim.refl hg⟩
        · obtain ⟨f1, f2, f3, f4, f5, f6, f7, f8, f9, f10⟩ := partCore_fields s b
          have hsim : Sim c p L s L (partCore s b) :=
            Sim.ofAdv' hg ⟨f1, f6, f7, f8, f5, Or.inr ⟨f2, by rw [f3]; exact fun h => h,
              by rw [f3]; exact fun h => h⟩⟩ f4 (by rw [f10]; exact fun _ h => h) f9
          split
          · split
            · refine hsim.then hg fun hg2 => ?_
              obtain ⟨L1, h1⟩ := enterPrevote_sim hg2 h _ (Nat.le_refl _)
              exact h1.then hg2 fun hg3 => enterPrecommit_sim hg3 h _ (Nat.le_refl _)
            · exact hsim.then hg fun hg2 => enterPrevote_sim hg2 h _ (Nat.le_refl _)
          · split
            · exact hsim.then hg fun hg2 => tryFinalizeCommit_sim hg2 h
            · exact ⟨L, hsim⟩

-- ---------------------------------------------------------------- votes

/-- `cs.LockedBlock.HashesTo(blockID.Hash)` for a polka value (nil hashes to nothing) -/
def lockedIs (s : Node) (bid : Option Block) : Bool :=
  match bid with
  | some id => hashesTo s.lockedBlock id
  | none => false

/-- `cs.Proposal != nil && 0 <= cs.Proposal.POLRound && cs.Proposal.POLRound == vote.Round` -/
def polMatch (s : Node) (v : Vote) : Bool :=
  match s.proposal with
  | some p => decide (0 ≤ p.polRound ∧ p.polRound = v.round)
  | none => false

/-- `addVote`, prevote branch: "Unlock if `cs.LockedRound < vote.Round <= cs.Round`" -/
def pvUnlock (s : Node) (v : Vote) (bid : Option Block) : Node :=
  if s.lockedBlock.isSome ∧ s.lockedRound < v.round ∧ v.round ≤ s.round ∧ !lockedIs s bid then
    { s with lockedRound := -1, lockedBlock := none }
  else s

/-- `addVote`, prevote branch: "Update Valid* if we can" -/
def pvValid (s1 : Node) (v : Vote) (bid : Option Block) : Node :=
  match bid with
  | some id =>
    if s1.validRound < v.round ∧ v.round = s1.round then
      let s1a := if hashesTo s1.proposalBlock id then
                   { s1 with validRound := v.round, validBlock := s1.proposalBlock }
                 else { s1 with proposalBlock := none }
      if s1a.proposalBlockParts = some id then s1a
      else { s1a with proposalBlockParts := some id }
    else s1
  | none => s1

def pvCore (s : Node) (v : Vote) : Node :=
  match s.votes.maj23 v.round .prevote with
  | none => s
  | some bid => pvValid (pvUnlock s v bid) v bid

theorem afterPrevote_unfold (k : NodeCfg) (s : Node) (v : Vote) :
    afterPrevote k s v =
      if (pvCore s v).round < v.round ∧ (pvCore s v).votes.hasTwoThirdsAny v.round .prevote then
        enterNewRound k (pvCore s v) s.height v.round
      else if (pvCore s v).round = v.round ∧ Step.prevote ≤ (pvCore s v).step then
        if (s.votes.maj23 v.round .prevote).isSome ∧
            (isProposalComplete (pvCore s v) ∨ s.votes.maj23 v.round .prevote = some none) then
          enterPrecommit k (pvCore s v) s.height v.round
        else if (pvCore s v).votes.hasTwoThirdsAny v.round .prevote then
          enterPrevoteWait (pvCore s v) s.height v.round
        else pvCore s v
      else if polMatch (pvCore s v) v then
        if isProposalComplete (pvCore s v) then enterPrevote k (pvCore s v) s.height (pvCore s v).round
        else pvCore s v
      else pvCore s v := rfl

theorem pvValid_fields (s : Node) (v : Vote) (bid : Option Block) :
    (pvValid s v bid).height = s.height ∧ (pvValid s v bid).round = s.round ∧
    (pvValid s v bid).step = s.step ∧ (pvValid s v bid).votes = s.votes ∧
    (pvValid s v bid).sent = s.sent ∧ (pvValid s v bid).lockedRound = s.lockedRound ∧
    (pvValid s v bid).lockedBlock = s.lockedBlock ∧ (pvValid s v bid).decided = s.decided ∧
    (pvValid s v bid).tickLast = s.tickLast ∧ (pvValid s v bid).queue = s.queue := by
  unfold pvValid
  cases bid with
  | none => simp
  | some id =>
    dsimp only
    split
    · split <;> split <;> simp
    · simp

theorem pvCore_sim {c : SysCfg} {p : Val} {s : Node} {L : List Vote} (hg : Good c p s L) (v : Vote) :
    Sim c p L s L (pvCore s v) := by
  unfold pvCore
  cases hm : s.votes.maj23 v.round .prevote with
  | none => exact Sim.refl hg
  | some bid =>
    dsimp only
    have hpol : polka c.abs L s.height v.round bid := hg.1.hvs.maj23_quorum hm
    have h1 : Sim c p L s L (pvUnlock s v bid) := by
      unfold pvUnlock
      split
      · rename_i hc
        obtain ⟨_, hc2, hc3, hc4⟩ := hc
        refine unlock_sim_at hg v.round bid hpol (fun _ _ => ⟨hc2, hc3⟩) ?_
          rfl rfl rfl rfl rfl rfl rfl rfl rfl rfl
        intro lb hl he
        subst he
        simp [lockedIs, hl, hashesTo] at hc4
      · exact Sim.refl hg
    obtain ⟨f1, f2, f3, f4, f5, f6, f7, f8, f9, f10⟩ := pvValid_fields (pvUnlock s v bid) v bid
    have h2 : Sim c p L (pvUnlock s v bid) L (pvValid (pvUnlock s v bid) v bid) :=
      Sim.ofAdv' (h1.good hg) ⟨f1, f6, f7, f8, f5, Or.inr ⟨f2, by rw [f3]; exact fun h => h,
        by rw [f3]; exact fun h => h⟩⟩ f4 (by rw [f10]; exact fun _ h => h) f9
    exact h1.trans h2

theorem afterPrevote_sim {c : SysCfg} {p : Val} {s : Node} {L : List Vote} (hg : Good c p s L) (v : Vote) :
    ∃ L', Sim c p L s L' (afterPrevote (c.node p) s v) := by
  rw [afterPrevote_unfold]
  have hsim := pvCore_sim hg v
  split
  · exact hsim.then hg fun hg2 => enterNewRound_sim hg2 _ _
  · split
    · rename_i hc
      split
      · exact hsim.then hg fun hg2 => enterPrecommit_sim hg2 _ _ (Nat.le_of_eq hc.1.symm)
      · split
        · exact hsim.then hg fun hg2 => enterPrevoteWait_sim hg2 _ _ (Nat.le_of_eq hc.1.symm)
        · exact ⟨L, hsim⟩
    · split
      · split
        · exact hsim.then hg fun hg2 => enterPrevote_sim hg2 _ _ (Nat.le_refl _)
        · exact ⟨L, hsim⟩
      · exact ⟨L, hsim⟩

theorem enterPrecommit_of_height_ne (k : NodeCfg) (s : Node) (h r : Nat) (hne : s.height ≠ h) :
    enterPrecommit k s h r = s := by
  rw [enterPrecommit_unfold, if_pos (Or.inl hne)]

theorem enterPrecommitWait_of_height_ne (s : Node) (h r : Nat) (hne : s.height ≠ h) :
    enterPrecommitWait s h r = s := by
  unfold enterPrecommitWait; rw [if_pos (Or.inl hne)]

/-- `enterNewRound(height, r)` then `enterPrecommit(height, r)` -/
theorem newRound_precommit_sim {c : SysCfg} {p : Val} {s : Node} {L : List Vote} (hg : Good c p s L)
    (r : Nat) : ∃ L', Sim c p L s L'
      (enterPrecommit (c.node p) (enterNewRound (c.node p) s s.height r) s.height r) ∧
      ((enterPrecommit (c.node p) (enterNewRound (c.node p) s s.height r) s.height r).height = s.height →
        r ≤ (enterPrecommit (c.node p) (enterNewRound (c.node p) s s.height r) s.height r).round) := by
  obtain ⟨L1, h1⟩ := enterNewRound_sim hg s.height r
  by_cases hh : (enterNewRound (c.node p) s s.height r).height = s.height
  · have hr1 := enterNewRound_round hg r h1 hh
    obtain ⟨L2, h2⟩ := enterPrecommit_sim (h1.good hg) s.height r hr1
    refine ⟨L2, h1.trans h2, fun he => ?_⟩
    exact Nat.le_trans hr1 (h2.rmono (by rw [he, hh]))
  · rw [enterPrecommit_of_height_ne _ _ _ _ hh]
    exact ⟨L1, h1, fun he => absurd he hh⟩

theorem afterPrecommit_sim {c : SysCfg} {p : Val} {s : Node} {L : List Vote} (hg : Good c p s L) (v : Vote) :
    ∃ L', Sim c p L s L' (afterPrecommit (c.node p) s v) := by
  unfold afterPrecommit
  dsimp only
  split
  · rename_i bid hm
    obtain ⟨L2, h2, hr2⟩ := newRound_precommit_sim hg v.round
    split
    · exact ⟨L2, h2⟩
    · split
      · exact h2.then hg fun hg2 => enterCommit_sim hg2 _ _
      · by_cases hh : (enterPrecommit (c.node p) (enterNewRound (c.node p) s s.height v.round) s.height
            v.round).height = s.height
        · exact h2.then hg fun hg2 => enterPrecommitWait_sim hg2 _ _ (hr2 hh)
        · rw [enterPrecommitWait_of_height_ne _ _ _ hh]
          exact ⟨L2, h2⟩
  · split
    · obtain ⟨L1, h1⟩ := enterNewRound_sim hg s.height v.round
      by_cases hh : (enterNewRound (c.node p) s s.height v.round).height = s.height
      · exact h1.then hg fun hg2 => enterPrecommitWait_sim hg2 _ _ (enterNewRound_round hg v.round h1 hh)
      · rw [enterPrecommitWait_of_height_ne _ _ _ hh]
        exact ⟨L1, h1⟩
    · exact ⟨L, Sim.refl hg⟩

theorem addVote_sim {c : SysCfg} {p : Val} {s : Node} {L : List Vote} (hg : Good c p s L)
    (v : Vote) (peer : Nat) (sigOk : Bool) (hv : sigOk = true → v ∈ L) :
    ∃ L', Sim c p L s L' (addVote (c.node p) s v peer sigOk) := by
  unfold addVote
  split
  · exact ⟨L, Sim.refl hg⟩
  · split
    · exact ⟨L, Sim.refl hg⟩
    · rename_i hne hh
      have hh' : v.height = s.height := Decidable.not_not.mp hh
      dsimp only
      have hs1 : Sim c p L s L { s with votes := (s.votes.addVote v peer sigOk).1 } :=
        Sim.ofAdv hg ⟨rfl, rfl, rfl, rfl, rfl, Or.inr ⟨rfl, fun h => h, fun h => h⟩⟩
          (hg.1.hvs.addVote v peer sigOk hv hh') hg.1.queue hg.1.tick
      split
      · exact ⟨L, hs1⟩
      · split
        · exact hs1.then hg fun hg2 => afterPrevote_sim hg2 v
        · exact hs1.then hg fun hg2 => afterPrecommit_sim hg2 v

theorem handleMsg_sim {c : SysCfg} {p : Val} {s : Node} {L : List Vote} (hg : Good c p s L)
    (m : Msg) (peer : Nat) (sigOk : Bool) (hv : ∀ v, m = .vote v → sigOk = true → v ∈ L) :
    ∃ L', Sim c p L s L' (handleMsg (c.node p) s m peer sigOk) := by
  unfold handleMsg
  cases m with
  | proposal pr => exact ⟨L, setProposal_sim hg pr sigOk⟩
  | blockPart h r b => exact addProposalBlockPart_sim hg h r b
  | vote v => exact addVote_sim hg v peer sigOk (hv v rfl)

theorem handleTimeout_sim {c : SysCfg} {p : Val} {s : Node} {L : List Vote} (hg : Good c p s L)
    (ti : Tick) (hti : ti.height = s.height → ti.round ≤ s.round) :
    ∃ L', Sim c p L s L' (handleTimeout (c.node p) s ti) := by
  unfold handleTimeout
  split
  · exact ⟨L, Sim.refl hg⟩
  · rename_i hguard
    simp only [not_or, not_and, Decidable.not_not] at hguard
    have hr : ti.round ≤ s.round := hti hguard.1
    split
    · exact enterNewRound_sim hg _ _
    · exact enterPropose_sim hg _ _ (Nat.zero_le _)
    · exact enterPrevote_sim hg _ _ hr
    · exact enterPrecommit_sim hg _ _ hr
    · obtain ⟨L1, h1⟩ := enterPrecommit_sim hg ti.height ti.round hr
      dsimp only
      split
      · exact ⟨L1, h1⟩
      · exact h1.then hg fun hg2 => enterNewRound_sim hg2 _ _
    · exact ⟨L, Sim.ofAdv' hg ⟨rfl, rfl, rfl, rfl, rfl, Or.inr ⟨rfl, fun h => h, fun h => h⟩⟩ rfl
        (fun _ h => h) rfl⟩

/-- **One iteration of the receive routine is simulated by the abstract protocol.** -/
theorem handle_sim {c : SysCfg} {p : Val} {s : Node} {L : List Vote} (hg : Good c p s L)
    (i : Input) (hi : InputOK L i) : ∃ L', Sim c p L s L' (handle (c.node p) s i) := by
  unfold handle
  split
  · exact ⟨L, Sim.refl hg⟩
  · cases i with
    | start =>
      dsimp only
      have f := schedule_fields s s.height 0 .newHeight
      obtain ⟨f1, f2, f3, f4, f5, f6, f7, f8, f9, _⟩ := f
      refine ⟨L, Sim.ofAdv hg ⟨f1, f7, f8, f9, f6, Or.inr ⟨f2, by rw [f3]; exact fun h => h,
        by rw [f3]; exact fun h => h⟩⟩ (by rw [f1, f4]; exact hg.1.hvs) (by rw [f5]; exact hg.1.queue) ?_⟩
      rw [f1, f2]
      exact schedule_tick .newHeight hg.1.tick rfl (Nat.zero_le _)
    | peer m pr ok =>
      dsimp only
      apply handleMsg_sim hg
      intro v hm hok
      subst hm; subst hok
      exact hi
    | internal =>
      dsimp only
      cases hq : s.queue with
      | nil => exact ⟨L, Sim.refl hg⟩
      | cons m q =>
        dsimp only
        have hs0 : Sim c p L s L { s with queue := q } :=
          Sim.ofAdv' hg ⟨rfl, rfl, rfl, rfl, rfl, Or.inr ⟨rfl, fun h => h, fun h => h⟩⟩ rfl
            (fun v hv => by rw [hq]; exact List.mem_cons_of_mem _ hv) rfl
        refine hs0.then hg fun hg2 => handleMsg_sim hg2 m 0 true ?_
        intro v hm _
        subst hm
        exact hg.1.queue v (by rw [hq]; exact List.mem_cons_self)
    | timeout =>
      dsimp only
      split
      · exact ⟨L, Sim.refl hg⟩
      · have hs0 : Sim c p L s L { s with tickArmed := false } :=
          Sim.ofAdv' hg ⟨rfl, rfl, rfl, rfl, rfl, Or.inr ⟨rfl, fun h => h, fun h => h⟩⟩ rfl
            (fun _ h => h) rfl
        exact hs0.then hg fun hg2 => handleTimeout_sim hg2 s.tickLast hg.1.tick.2
    | maj23 pr r t b =>
      dsimp only
      exact ⟨L, Sim.ofAdv hg ⟨rfl, rfl, rfl, rfl, rfl, Or.inr ⟨rfl, fun h => h, fun h => h⟩⟩
        (hg.1.hvs.setPeerMaj23 r t pr b) hg.1.queue hg.1.tick⟩

end GnoVerif.C31
