import GnoVerif.Proofs.C05Unpack
/-! C05: the special-case tables (NaN / Inf / ±0) of fadd64, fmul64, fdiv64 and the comparison rules. -/
namespace GnoVerif.C05.L
open GnoVerif.Gen.C05

theorem sign64_eq_iff (f g : BitVec 64) :
    (f &&& 9223372036854775808#64 = g &&& 9223372036854775808#64) ↔ (neg64 f ↔ neg64 g) := by
  unfold neg64
  constructor
  · intro h
    have := congrArg BitVec.toNat h
    rw [toNat_and_sign64, toNat_and_sign64] at this
    have := f.isLt; have := g.isLt
    omega
  · intro h
    apply BitVec.eq_of_toNat_eq
    rw [toNat_and_sign64, toNat_and_sign64]
    have := f.isLt; have := g.isLt
    omega

theorem sign64_eq_zero_iff (f : BitVec 64) : (f &&& 9223372036854775808#64 = 0#64) ↔ ¬ neg64 f := by
  unfold neg64
  constructor
  · intro h
    have := congrArg BitVec.toNat h
    rw [toNat_and_sign64] at this; simp at this
    have := f.isLt
    omega
  · intro h
    apply BitVec.eq_of_toNat_eq
    rw [toNat_and_sign64]; simp
    have := f.isLt
    omega

theorem sign64_of_neg (f : BitVec 64) (h : neg64 f) : f &&& 9223372036854775808#64 = 9223372036854775808#64 := by
  apply BitVec.eq_of_toNat_eq
  rw [toNat_and_sign64]; unfold neg64 at h; have := f.isLt; simp; omega

theorem sign64_of_pos (f : BitVec 64) (h : ¬ neg64 f) : f &&& 9223372036854775808#64 = 0#64 :=
  (sign64_eq_zero_iff f).2 h

theorem inf64_eq (f : BitVec 64) (h : isInf64 f) : f = mkInf64 (decide (neg64 f)) := by
  apply BitVec.eq_of_toNat_eq
  unfold isInf64 expF64 mantF64 at h
  unfold mkInf64 neg64
  have := f.isLt
  by_cases hn : 2^63 ≤ f.toNat <;> simp [hn] <;> omega

theorem zero64_eq (f : BitVec 64) (h : isZero64 f) : f = mkZero64 (decide (neg64 f)) := by
  apply BitVec.eq_of_toNat_eq
  unfold isZero64 mag64 at h
  unfold mkZero64 neg64
  have := f.isLt
  by_cases hn : 2^63 ≤ f.toNat <;> simp [hn] <;> omega

theorem neg64_mkInf64 (b : Bool) : neg64 (mkInf64 b) ↔ b = true := by
  cases b <;> decide
theorem neg64_mkZero64 (b : Bool) : neg64 (mkZero64 b) ↔ b = true := by
  cases b <;> decide

theorem not_nan_of_inf {f : BitVec 64} (h : isInf64 f) : ¬ isNaN64 f := fun hn => hn.2 h.2
theorem not_nan_of_zero {f : BitVec 64} (h : isZero64 f) : ¬ isNaN64 f := by
  unfold isZero64 mag64 at h; unfold isNaN64 expF64; omega
theorem not_inf_of_zero {f : BitVec 64} (h : isZero64 f) : ¬ isInf64 f := by
  unfold isZero64 mag64 at h; unfold isInf64 expF64; omega
theorem zero_iff_fields (f : BitVec 64) : isZero64 f ↔ (mantF64 f = 0 ∧ expF64 f = 0) := by
  unfold isZero64 mag64 mantF64 expF64; omega

theorem fadd64_nan (f g : BitVec 64) (h : isNaN64 f ∨ isNaN64 g) : fadd64 f g = nan64 := by
  obtain ⟨fm, fe, hf, hfm, _⟩ := funpack64_ex f
  obtain ⟨gm, ge, hg, hgm, _⟩ := funpack64_ex g
  unfold fadd64
  rw [hf, hg]
  simp only []
  rcases h with h | h <;> simp [h, nan64]


theorem sign64_cases (g : BitVec 64) :
    (neg64 g ∧ g &&& 9223372036854775808#64 = 9223372036854775808#64) ∨
    (¬ neg64 g ∧ g &&& 9223372036854775808#64 = 0#64) := by
  by_cases h : neg64 g
  · exact Or.inl ⟨h, sign64_of_neg g h⟩
  · exact Or.inr ⟨h, sign64_of_pos g h⟩

theorem signs_xor_inf (f g : BitVec 64) :
    ((f &&& 9223372036854775808#64) ^^^ (g &&& 9223372036854775808#64)) ^^^ 9218868437227405312#64
      = mkInf64 (xorNeg64 f g) := by
  unfold xorNeg64
  rcases sign64_cases f with ⟨hf, ef⟩ | ⟨hf, ef⟩ <;> rcases sign64_cases g with ⟨hg, eg⟩ | ⟨hg, eg⟩ <;>
    rw [ef, eg] <;> simp [hf, hg] <;> decide

theorem signs_xor_zero (f g : BitVec 64) :
    ((f &&& 9223372036854775808#64) ^^^ (g &&& 9223372036854775808#64)) ^^^ 0#64
      = mkZero64 (xorNeg64 f g) := by
  unfold xorNeg64
  rcases sign64_cases f with ⟨hf, ef⟩ | ⟨hf, ef⟩ <;> rcases sign64_cases g with ⟨hg, eg⟩ | ⟨hg, eg⟩ <;>
    rw [ef, eg] <;> simp [hf, hg] <;> decide

theorem inf_xor_sign (f g : BitVec 64) (hf : isInf64 f) :
    f ^^^ (g &&& 9223372036854775808#64) = mkInf64 (xorNeg64 f g) := by
  unfold xorNeg64
  rw [inf64_eq f hf]
  rcases sign64_cases g with ⟨hg, eg⟩ | ⟨hg, eg⟩ <;> rw [eg] <;> simp only [neg64_mkInf64, hg] <;>
    cases (decide (neg64 f)) <;> decide

theorem zero_xor_sign (f g : BitVec 64) (hf : isZero64 f) :
    f ^^^ (g &&& 9223372036854775808#64) = mkZero64 (xorNeg64 f g) := by
  unfold xorNeg64
  rw [zero64_eq f hf]
  rcases sign64_cases g with ⟨hg, eg⟩ | ⟨hg, eg⟩ <;> rw [eg] <;> simp only [neg64_mkZero64, hg] <;>
    cases (decide (neg64 f)) <;> decide

theorem xorNeg64_comm (f g : BitVec 64) : xorNeg64 f g = xorNeg64 g f := by
  unfold xorNeg64; cases decide (neg64 f) <;> cases decide (neg64 g) <;> rfl

/-! ### all combinations of ±Inf and ±0: closed terms, evaluated by the kernel -/

theorem fadd64_inf_inf (a b : Bool) :
    fadd64 (mkInf64 a) (mkInf64 b) = if a = b then mkInf64 a else nan64 := by
  cases a <;> cases b <;> decide
theorem fadd64_inf_zero (a b : Bool) : fadd64 (mkInf64 a) (mkZero64 b) = mkInf64 a := by
  cases a <;> cases b <;> decide
theorem fadd64_zero_inf (a b : Bool) : fadd64 (mkZero64 a) (mkInf64 b) = mkInf64 b := by
  cases a <;> cases b <;> decide
theorem fadd64_zero_zero (a b : Bool) : fadd64 (mkZero64 a) (mkZero64 b) = mkZero64 (a && b) := by
  cases a <;> cases b <;> decide


/-! ### fadd64 with one generic operand -/

theorem fadd64_inf_left (f g : BitVec 64) (hf : isInf64 f) (hg : ¬ isNaN64 g)
    (hno : ¬ (isInf64 g ∧ ¬ (neg64 f ↔ neg64 g))) : fadd64 f g = f := by
  obtain ⟨fm, fe, hF, hfm, _⟩ := funpack64_ex f
  obtain ⟨gm, ge, hG, hgm, _⟩ := funpack64_ex g
  have hfn := not_nan_of_inf hf
  unfold fadd64
  rw [hF, hG]
  simp only []
  by_cases hgi : isInf64 g
  · have hs : (neg64 f ↔ neg64 g) := by
      by_cases h : (neg64 f ↔ neg64 g)
      · exact h
      · exact absurd ⟨hgi, h⟩ hno
    have := (sign64_eq_iff f g).2 hs
    simp [hf, hg, hfn, hgi, this]
  · simp [hf, hg, hfn, hgi]

theorem fadd64_inf_right (f g : BitVec 64) (hf : ¬ isNaN64 f) (hfi : ¬ isInf64 f) (hg : isInf64 g) :
    fadd64 f g = g := by
  obtain ⟨fm, fe, hF, hfm, _⟩ := funpack64_ex f
  obtain ⟨gm, ge, hG, hgm, _⟩ := funpack64_ex g
  have hgn := not_nan_of_inf hg
  unfold fadd64
  rw [hF, hG]
  simp only []
  simp [hf, hg, hfi, hgn]

theorem fadd64_zero_left (f g : BitVec 64) (hf : isZero64 f) (hg : ¬ isNaN64 g) (hgi : ¬ isInf64 g)
    (hgz : ¬ isZero64 g) : fadd64 f g = g := by
  obtain ⟨fm, fe, hF, hfm, _⟩ := funpack64_ex f
  obtain ⟨gm, ge, hG, hgm, _⟩ := funpack64_ex g
  have hfn := not_nan_of_zero hf
  have hfi := not_inf_of_zero hf
  have hfm0 : fm = 0#64 := hfm.2 (by rw [zero_iff_fields] at hf; exact ⟨hf.1, Or.inl hf.2⟩)
  have hgm0 : gm ≠ 0#64 := by
    intro h
    have := hgm.1 h
    rw [zero_iff_fields] at hgz
    unfold isInf64 at hgi
    rcases this with ⟨h1, h2 | h2⟩
    · exact hgz ⟨h1, h2⟩
    · exact hgi ⟨h2, h1⟩
  unfold fadd64
  rw [hF, hG]
  simp only []
  simp [hfn, hfi, hg, hgi, hfm0, hgm0]

theorem fadd64_zero_right (f g : BitVec 64) (hg : isZero64 g) (hf : ¬ isNaN64 f) (hfi : ¬ isInf64 f)
    (hfz : ¬ isZero64 f) : fadd64 f g = f := by
  obtain ⟨fm, fe, hF, hfm, _⟩ := funpack64_ex f
  obtain ⟨gm, ge, hG, hgm, _⟩ := funpack64_ex g
  have hgn := not_nan_of_zero hg
  have hgi := not_inf_of_zero hg
  have hgm0 : gm = 0#64 := hgm.2 (by rw [zero_iff_fields] at hg; exact ⟨hg.1, Or.inl hg.2⟩)
  have hfm0 : fm ≠ 0#64 := by
    intro h
    have := hfm.1 h
    rw [zero_iff_fields] at hfz
    unfold isInf64 at hfi
    rcases this with ⟨h1, h2 | h2⟩
    · exact hfz ⟨h1, h2⟩
    · exact hfi ⟨h2, h1⟩
  unfold fadd64
  rw [hF, hG]
  simp only []
  simp [hgn, hgi, hf, hfi, hfm0, hgm0]


theorem mant_zero_of_class {f m : BitVec 64}
    (hfm : m = 0#64 ↔ (mantF64 f = 0 ∧ (expF64 f = 0 ∨ expF64 f = 2047))) :
    m = 0#64 ↔ (isZero64 f ∨ isInf64 f) := by
  rw [hfm, zero_iff_fields]; unfold isInf64
  constructor
  · rintro ⟨h1, h2 | h2⟩
    · exact Or.inl ⟨h1, h2⟩
    · exact Or.inr ⟨h2, h1⟩
  · rintro (⟨h1, h2⟩ | ⟨h1, h2⟩)
    · exact ⟨h1, Or.inl h2⟩
    · exact ⟨h2, Or.inr h1⟩

/-! ### fmul64 -/

theorem fmul64_nan (f g : BitVec 64) (h : isNaN64 f ∨ isNaN64 g) : fmul64 f g = nan64 := by
  obtain ⟨fm, fe, hF, hfm, _⟩ := funpack64_ex f
  obtain ⟨gm, ge, hG, hgm, _⟩ := funpack64_ex g
  unfold fmul64
  rw [hF, hG]
  simp only []
  rcases h with h | h <;> simp [h, nan64]

theorem fmul64_inf_zero (f g : BitVec 64) (hf : isInf64 f) (hg : isZero64 g) : fmul64 f g = nan64 := by
  rw [inf64_eq f hf, zero64_eq g hg]
  cases decide (neg64 f) <;> cases decide (neg64 g) <;> decide

theorem fmul64_zero_inf (f g : BitVec 64) (hf : isZero64 f) (hg : isInf64 g) : fmul64 f g = nan64 := by
  rw [zero64_eq f hf, inf64_eq g hg]
  cases decide (neg64 f) <;> cases decide (neg64 g) <;> decide

theorem fmul64_inf_left (f g : BitVec 64) (hf : isInf64 f) (hg : ¬ isNaN64 g) (hgz : ¬ isZero64 g) :
    fmul64 f g = mkInf64 (xorNeg64 f g) := by
  obtain ⟨fm, fe, hF, hfm, _⟩ := funpack64_ex f
  obtain ⟨gm, ge, hG, hgm, _⟩ := funpack64_ex g
  have hfn := not_nan_of_inf hf
  have hfm0 : fm = 0#64 := (mant_zero_of_class hfm).2 (Or.inr hf)
  have hx := inf_xor_sign f g hf
  unfold fmul64
  rw [hF, hG]
  simp only []
  by_cases hgi : isInf64 g
  · simp [hf, hfn, hg, hgi, hx]
  · have hgm0 : gm ≠ 0#64 := fun h => by
      rcases (mant_zero_of_class hgm).1 h with h | h
      · exact hgz h
      · exact hgi h
    simp [hf, hfn, hg, hgi, hx, hfm0, hgm0]

theorem fmul64_inf_right (f g : BitVec 64) (hg : isInf64 g) (hf : ¬ isNaN64 f) (hfz : ¬ isZero64 f) :
    fmul64 f g = mkInf64 (xorNeg64 f g) := by
  obtain ⟨fm, fe, hF, hfm, _⟩ := funpack64_ex f
  obtain ⟨gm, ge, hG, hgm, _⟩ := funpack64_ex g
  have hgn := not_nan_of_inf hg
  have hgm0 : gm = 0#64 := (mant_zero_of_class hgm).2 (Or.inr hg)
  have hx := inf_xor_sign g f hg
  rw [xorNeg64_comm] at hx
  unfold fmul64
  rw [hF, hG]
  simp only []
  by_cases hfi : isInf64 f
  · have hx' := inf_xor_sign f g hfi
    simp [hf, hfi, hg, hgn, hx']
  · have hfm0 : fm ≠ 0#64 := fun h => by
      rcases (mant_zero_of_class hfm).1 h with h | h
      · exact hfz h
      · exact hfi h
    simp [hf, hfi, hg, hgn, hx, hfm0, hgm0]

theorem fmul64_zero_left (f g : BitVec 64) (hf : isZero64 f) (hg : ¬ isNaN64 g) (hgi : ¬ isInf64 g) :
    fmul64 f g = mkZero64 (xorNeg64 f g) := by
  obtain ⟨fm, fe, hF, hfm, _⟩ := funpack64_ex f
  obtain ⟨gm, ge, hG, hgm, _⟩ := funpack64_ex g
  have hfn := not_nan_of_zero hf
  have hfi := not_inf_of_zero hf
  have hfm0 : fm = 0#64 := (mant_zero_of_class hfm).2 (Or.inl hf)
  have hx := zero_xor_sign f g hf
  unfold fmul64
  rw [hF, hG]
  simp only []
  simp [hfn, hfi, hg, hgi, hx, hfm0]

theorem fmul64_zero_right (f g : BitVec 64) (hg : isZero64 g) (hf : ¬ isNaN64 f) (hfi : ¬ isInf64 f) :
    fmul64 f g = mkZero64 (xorNeg64 f g) := by
  obtain ⟨fm, fe, hF, hfm, _⟩ := funpack64_ex f
  obtain ⟨gm, ge, hG, hgm, _⟩ := funpack64_ex g
  have hgn := not_nan_of_zero hg
  have hgi := not_inf_of_zero hg
  have hgm0 : gm = 0#64 := (mant_zero_of_class hgm).2 (Or.inl hg)
  have hx := zero_xor_sign g f hg
  rw [xorNeg64_comm] at hx
  unfold fmul64
  rw [hF, hG]
  simp only []
  by_cases hfz : isZero64 f
  · have hx' := zero_xor_sign f g hfz
    have hfm0 : fm = 0#64 := (mant_zero_of_class hfm).2 (Or.inl hfz)
    simp [hf, hfi, hgn, hgi, hx', hfm0]
  · have hfm0 : fm ≠ 0#64 := fun h => by
      rcases (mant_zero_of_class hfm).1 h with h | h
      · exact hfz h
      · exact hfi h
    simp [hf, hfi, hgn, hgi, hx, hfm0, hgm0]

/-! ### fdiv64 -/

theorem fdiv64_nan (f g : BitVec 64) (h : isNaN64 f ∨ isNaN64 g) : fdiv64 f g = .ok nan64 := by
  obtain ⟨fm, fe, hF, hfm, _⟩ := funpack64_ex f
  obtain ⟨gm, ge, hG, hgm, _⟩ := funpack64_ex g
  unfold fdiv64
  rw [hF, hG]
  simp only []
  rcases h with h | h <;> simp [h, nan64] <;> rfl

theorem fdiv64_inf_inf (f g : BitVec 64) (hf : isInf64 f) (hg : isInf64 g) : fdiv64 f g = .ok nan64 := by
  rw [inf64_eq f hf, inf64_eq g hg]
  cases decide (neg64 f) <;> cases decide (neg64 g) <;> decide

theorem fdiv64_zero_zero (f g : BitVec 64) (hf : isZero64 f) (hg : isZero64 g) : fdiv64 f g = .ok nan64 := by
  rw [zero64_eq f hf, zero64_eq g hg]
  cases decide (neg64 f) <;> cases decide (neg64 g) <;> decide


theorem mant_ne_zero_of_class {f m : BitVec 64}
    (hfm : m = 0#64 ↔ (mantF64 f = 0 ∧ (expF64 f = 0 ∨ expF64 f = 2047)))
    (hz : ¬ isZero64 f) (hi : ¬ isInf64 f) : m ≠ 0#64 := fun h => by
  rcases (mant_zero_of_class hfm).1 h with h | h
  · exact hz h
  · exact hi h

/-- Inf / (finite or zero) = Inf -/
theorem fdiv64_inf_left (f g : BitVec 64) (hf : isInf64 f) (hg : ¬ isNaN64 g) (hgi : ¬ isInf64 g) :
    fdiv64 f g = .ok (mkInf64 (xorNeg64 f g)) := by
  obtain ⟨fm, fe, hF, hfm, _⟩ := funpack64_ex f
  obtain ⟨gm, ge, hG, hgm, _⟩ := funpack64_ex g
  have hfn := not_nan_of_inf hf
  have hfm0 : fm = 0#64 := (mant_zero_of_class hfm).2 (Or.inr hf)
  have hx := signs_xor_inf f g
  unfold fdiv64
  rw [hF, hG]
  simp only []
  simp [hf, hfn, hg, hgi, hx]
  rfl

/-- (nonzero, non-NaN) / 0 = Inf -/
theorem fdiv64_zero_right (f g : BitVec 64) (hg : isZero64 g) (hf : ¬ isNaN64 f) (hfz : ¬ isZero64 f) :
    fdiv64 f g = .ok (mkInf64 (xorNeg64 f g)) := by
  by_cases hfi : isInf64 f
  · exact fdiv64_inf_left f g hfi (not_nan_of_zero hg) (not_inf_of_zero hg)
  obtain ⟨fm, fe, hF, hfm, _⟩ := funpack64_ex f
  obtain ⟨gm, ge, hG, hgm, _⟩ := funpack64_ex g
  have hgn := not_nan_of_zero hg
  have hgi := not_inf_of_zero hg
  have hgm0 : gm = 0#64 := (mant_zero_of_class hgm).2 (Or.inl hg)
  have hfm0 : fm ≠ 0#64 := mant_ne_zero_of_class hfm hfz hfi
  have hx := signs_xor_inf f g
  unfold fdiv64
  rw [hF, hG]
  simp only []
  simp [hf, hfi, hgn, hgi, hx, hfm0, hgm0]
  rfl

/-- (finite or zero) / Inf = 0 -/
theorem fdiv64_inf_right (f g : BitVec 64) (hg : isInf64 g) (hf : ¬ isNaN64 f) (hfi : ¬ isInf64 f) :
    fdiv64 f g = .ok (mkZero64 (xorNeg64 f g)) := by
  obtain ⟨fm, fe, hF, hfm, _⟩ := funpack64_ex f
  obtain ⟨gm, ge, hG, hgm, _⟩ := funpack64_ex g
  have hgn := not_nan_of_inf hg
  have hgm0 : gm = 0#64 := (mant_zero_of_class hgm).2 (Or.inr hg)
  have hx := signs_xor_zero f g
  unfold fdiv64
  rw [hF, hG]
  simp only []
  simp only [BitVec.xor_zero] at hx
  simp [hf, hfi, hg, hgn, hx]
  rfl

/-- 0 / (nonzero, non-NaN) = 0 -/
theorem fdiv64_zero_left (f g : BitVec 64) (hf : isZero64 f) (hg : ¬ isNaN64 g) (hgz : ¬ isZero64 g) :
    fdiv64 f g = .ok (mkZero64 (xorNeg64 f g)) := by
  by_cases hgi : isInf64 g
  · exact fdiv64_inf_right f g hgi (not_nan_of_zero hf) (not_inf_of_zero hf)
  obtain ⟨fm, fe, hF, hfm, _⟩ := funpack64_ex f
  obtain ⟨gm, ge, hG, hgm, _⟩ := funpack64_ex g
  have hfn := not_nan_of_zero hf
  have hfi := not_inf_of_zero hf
  have hfm0 : fm = 0#64 := (mant_zero_of_class hfm).2 (Or.inl hf)
  have hgm0 : gm ≠ 0#64 := mant_ne_zero_of_class hgm hgz hgi
  have hx := signs_xor_zero f g
  unfold fdiv64
  rw [hF, hG]
  simp only []
  simp only [BitVec.xor_zero] at hx
  simp [hfn, hfi, hg, hgi, hx, hfm0, hgm0]
  rfl

end GnoVerif.C05.L
