import GnoVerif.Model.C15Sym
import GnoVerif.Model.C15Spec
/-! C15: the symbolic scheme satisfies the cryptographic hypotheses. -/
namespace GnoVerif.C15.Sym
open GnoVerif.C15

/-- if at least one position is marked, two successful runs of the loop share a verified pair -/
theorem vloop_witness (v v' : Nat → SSig → Bool) :
    ∀ (subs : List Nat) (bits : List Bool) (sigs : List SSig),
      1 ≤ countTrue bits → subs.length = bits.length →
      vloop v subs bits sigs = true → vloop v' subs bits sigs = true →
      ∃ p s, v p s = true ∧ v' p s = true
  | _, [], _, h, _, _, _ => by simp [countTrue] at h
  | [], _ :: _, _, _, hl, _, _ => by simp at hl
  | p :: ps, b :: bs, sigs, hc, hl, h1, h2 => by
    cases b with
    | true =>
      cases sigs with
      | nil => simp [vloop] at h1
      | cons s ss =>
        simp only [vloop, if_true, Bool.and_eq_true] at h1 h2
        exact ⟨p, s, h1.1, h2.1⟩
    | false =>
      simp only [vloop] at h1 h2
      simp only [Bool.false_eq_true, if_false] at h1 h2
      have hc' : 1 ≤ countTrue bs := by simpa [countTrue] using hc
      exact vloop_witness v v' ps bs sigs hc' (by simpa using hl) h1 h2

theorem verifyF_unique : ∀ (f pk : Nat) (d d' : SignDoc Nat) (sg : SSig),
    verifyF f pk d sg = true → verifyF f pk d' sg = true → d = d'
  | 0, _, _, _, _, h, _ => by simp [verifyF] at h
  | f + 1, pk, d, d', sg, h1, h2 => by
    unfold verifyF at h1 h2
    cases hr : ring pk with
    | ed | secp | mock =>
      simp only [hr] at h1 h2
      cases sg with
      | leaf k d0 intact =>
        cases intact with
        | true =>
          simp only [Bool.and_eq_true, decide_eq_true_eq] at h1 h2
          exact h1.2.symm.trans h2.2
        | false => simp at h1
      | multi _ _ => simp at h1
      | junk => simp at h1
    | multi K subs =>
      simp only [hr] at h1 h2
      cases sg with
      | leaf _ _ _ => simp at h1
      | junk => simp at h1
      | multi bits sigs =>
        simp only at h1 h2
        split at h1
        · cases h1
        rename_i hK
        split at h1
        · cases h1
        rename_i hlen
        split at h1
        · cases h1
        split at h1
        · cases h1
        rename_i hcount
        rename_i hsz
        simp only [hK, hlen, hsz, hcount, if_false] at h2
        have hc : 1 ≤ countTrue bits := by omega
        obtain ⟨p, s, e1, e2⟩ := vloop_witness _ _ subs bits sigs hc (by simpa using hlen) h1 h2
        exact verifyF_unique f p d d' s e1 e2
    | absent =>
      simp [hr] at h1

/-- every key of the ring binds a signature to at most one sign doc; addresses
    and sign bytes are injective by construction -/
theorem sym_cryptoOk : CryptoOk crypto :=
  ⟨fun pk b b' sg h1 h2 => verifyF_unique fuel pk b b' sg h1 h2,
   fun _ _ h => by cases h; exact ⟨rfl, rfl⟩,
   fun _ _ h => h⟩

/-- a threshold of 0 (ring key 5) verifies nothing -/
theorem threshold_zero_never_verifies (d : SignDoc Nat) (sg : SSig) : crypto.verify 5 d sg = false := by
  cases sg <;> simp [crypto, fuel, verifyF, ring]

end GnoVerif.C15.Sym
