/-
Helper lemmas for C22, part 4: API level (nil keys), addressing a store inside
the stack, Write / checkpoints, histories.  Core-only.
-/
import GnoVerif.Proofs.C22Iter

namespace GnoVerif.C22
open GnoVerif GnoVerif.Lex GnoVerif.OMap

/-! ### addressing -/

theorem sub_coherent {l : Layer} (hc : Coherent l) {d : Nat} {x : Layer} (h : l.sub d = some x) :
    Coherent x := by
  induction d generalizing l with
  | zero => simp only [Layer.sub, Option.some.injEq] at h; subst h; exact hc
  | succ d ih =>
    cases l with
    | base m => simp [Layer.sub] at h
    | cache c p => exact ih hc.1 h
    | pfx q p =>
      have hc : Coherent p := hc
      exact ih hc h

theorem at'_fst (f : Layer → Out × Layer) (d : Nat) (l : Layer) :
    (Layer.at' f d l).1 = match l.sub d with
      | some x => (f x).1
      | none => .err "badlayer" := by
  induction d generalizing l with
  | zero => rfl
  | succ d ih =>
    cases l with
    | base m => rfl
    | cache c p => simp only [Layer.at', Layer.sub]; exact ih p
    | pfx q p => simp only [Layer.at', Layer.sub]; exact ih p

/-- an operation that preserves coherence and the view of the store it is
applied to preserves coherence and every view from there up. -/
theorem at'_viewpres (f : Layer → Out × Layer)
    (hf : ∀ x, Coherent x → Coherent (f x).2 ∧ view (f x).2 = view x)
    (d : Nat) (l : Layer) (hc : Coherent l) :
    Coherent (Layer.at' f d l).2 ∧ view (Layer.at' f d l).2 = view l := by
  induction d generalizing l with
  | zero => exact hf l hc
  | succ d ih =>
    cases l with
    | base m => exact ⟨hc, rfl⟩
    | cache c p =>
      obtain ⟨i1, i2⟩ := ih p hc.1
      simp only [Layer.at']
      refine ⟨⟨i1, hc.2.1, ?_⟩, ?_⟩
      · intro k cv hg hd; rw [i2]; exact hc.2.2 k cv hg hd
      · simp only [view, i2]
    | pfx q p =>
      obtain ⟨i1, i2⟩ := ih p hc
      simp only [Layer.at']
      exact ⟨i1, by simp only [view, i2]⟩

/-- an operation that preserves coherence of the store it is applied to (but may
change its view) preserves coherence of the stack when no cache store above
holds a clean entry. -/
theorem at'_noclean (f : Layer → Out × Layer)
    (hf : ∀ x, Coherent x → Coherent (f x).2)
    (d : Nat) (l : Layer) (hc : Coherent l) (hn : NoCleanAbove d l) :
    Coherent (Layer.at' f d l).2 := by
  induction d generalizing l with
  | zero => exact hf l hc
  | succ d ih =>
    cases l with
    | base m => exact hc
    | cache c p =>
      simp only [Layer.at']
      refine ⟨ih p hc.1 hn.2, hc.2.1, ?_⟩
      intro k cv hg hd
      have := hn.1 k cv hg
      rw [hd] at this; cases this
    | pfx q p => exact ih p hc hn

theorem sub_at' (f : Layer → Out × Layer) (d : Nat) (l : Layer) :
    (Layer.at' f d l).2.sub d = (l.sub d).map (fun x => (f x).2) := by
  induction d generalizing l with
  | zero => rfl
  | succ d ih =>
    cases l with
    | base m => rfl
    | cache c p => exact ih p
    | pfx q p => exact ih p

/-! ### API level -/

theorem apiGet_spec (x : Layer) (hc : Coherent x) (k : Option Bytes) :
    (x.apiGet k).1 = (match keyArg x k with
        | none => .panic "nilkey"
        | some k => .val (OMap.get (view x) k)) ∧
    Coherent (x.apiGet k).2 ∧ view (x.apiGet k).2 = view x := by
  cases x with
  | base m => exact ⟨rfl, hc, rfl⟩
  | cache c p =>
    cases k with
    | none => exact ⟨rfl, hc, rfl⟩
    | some k =>
      obtain ⟨g1, g2, g3⟩ := get_spec (.cache c p) hc k
      exact ⟨by simp only [Layer.apiGet, keyArg, g1], g3, g2⟩
  | pfx q p =>
    cases k with
    | none => exact ⟨rfl, hc, rfl⟩
    | some k =>
      obtain ⟨g1, g2, g3⟩ := get_spec (.pfx q p) hc k
      exact ⟨by simp only [Layer.apiGet, keyArg, g1], g3, g2⟩

theorem apiHas_spec (x : Layer) (hc : Coherent x) (k : Option Bytes) :
    (x.apiHas k).1 = (match keyArg x k with
        | none => .panic "nilkey"
        | some k => .bool (OMap.get (view x) k).isSome) ∧
    Coherent (x.apiHas k).2 ∧ view (x.apiHas k).2 = view x := by
  cases x with
  | base m => exact ⟨rfl, hc, rfl⟩
  | cache c p =>
    cases k with
    | none => exact ⟨rfl, hc, rfl⟩
    | some k =>
      obtain ⟨g1, g2, g3⟩ := get_spec (.cache c p) hc k
      obtain ⟨h1, h2⟩ := has_eq_get (.cache c p) k
      exact ⟨by simp only [Layer.apiHas, keyArg, h1, g1], by simp only [Layer.apiHas, h2]; exact g3,
        by simp only [Layer.apiHas, h2]; exact g2⟩
  | pfx q p =>
    cases k with
    | none => exact ⟨rfl, hc, rfl⟩
    | some k =>
      obtain ⟨g1, g2, g3⟩ := get_spec (.pfx q p) hc k
      obtain ⟨h1, h2⟩ := has_eq_get (.pfx q p) k
      exact ⟨by simp only [Layer.apiHas, keyArg, h1, g1], by simp only [Layer.apiHas, h2]; exact g3,
        by simp only [Layer.apiHas, h2]; exact g2⟩

theorem apiIter_spec (x : Layer) (hc : Coherent x) (s e : Option Bytes) (asc : Bool) :
    (x.apiIter s e asc).1 = .items (asItems (OMap.range (view x) s e asc)) ∧
    Coherent (x.apiIter s e asc).2 ∧ view (x.apiIter s e asc).2 = view x := by
  obtain ⟨i1, i2, i3⟩ := iter_spec x hc s e asc
  exact ⟨by simp only [Layer.apiIter, i1], i3, i2⟩

theorem apiSet_coherent (x : Layer) (hc : Coherent x) (k v : Option Bytes) :
    Coherent (x.apiSet k v).2 := by
  cases x with
  | base m => exact (set_spec (.base m) hc _ _).2
  | cache c p =>
    cases k with
    | none => exact hc
    | some k =>
      cases v with
      | none => exact hc
      | some v => exact (set_spec (.cache c p) hc k v).2
  | pfx q p =>
    cases k with
    | none => exact hc
    | some k =>
      cases v with
      | none => exact hc
      | some v => exact (set_spec (.pfx q p) hc k v).2

theorem apiDel_coherent (x : Layer) (hc : Coherent x) (k : Option Bytes) :
    Coherent (x.apiDel k).2 := by
  cases x with
  | base m => exact (del_spec (.base m) hc _).2
  | cache c p =>
    cases k with
    | none => exact hc
    | some k => exact (del_spec (.cache c p) hc k).2
  | pfx q p =>
    cases k with
    | none => exact hc
    | some k => exact (del_spec (.pfx q p) hc k).2

theorem coherent_empty_cache {p : Layer} (hp : Coherent p) : Coherent (.cache .empty p) :=
  ⟨hp, CacheWF.empty, by intro k cv hg; simp [CacheState.empty] at hg⟩

theorem apiWrite_spec (x : Layer) (hc : Coherent x) :
    Coherent x.apiWrite.2 ∧ view x.apiWrite.2 = view x := by
  cases x with
  | base m => exact ⟨hc, rfl⟩
  | pfx q p => exact ⟨hc, rfl⟩
  | cache c p =>
    obtain ⟨a1, a2⟩ := applyEntries_spec p hc.1 c.cache
    exact ⟨coherent_empty_cache a2, by simp only [Layer.apiWrite, view, CacheState.empty, applyDirty, List.foldl_nil, a1]⟩

theorem apiCp_spec (x : Layer) (hc : Coherent x) :
    Coherent x.apiCp.2 ∧ view x.apiCp.2 = view x := by
  cases x with
  | base m => exact ⟨hc, rfl⟩
  | pfx q p => exact ⟨hc, rfl⟩
  | cache c p =>
    refine ⟨⟨hc.1, ?_, hc.2.2⟩, rfl⟩
    exact ⟨hc.2.1.cacheSorted, hc.2.1.unsSorted, hc.2.1.sortedSorted, hc.2.1.dirtyShape,
      hc.2.1.unsDirty, hc.2.1.sortedFresh, hc.2.1.dirtyTracked⟩

theorem apiHasCp_spec (x : Layer) (hc : Coherent x) :
    Coherent x.apiHasCp.2 ∧ view x.apiHasCp.2 = view x := by
  cases x with
  | base m => exact ⟨hc, rfl⟩
  | pfx q p => exact ⟨hc, rfl⟩
  | cache c p => exact ⟨hc, rfl⟩

theorem apiWcp_coherent (x : Layer) (hc : Coherent x) : Coherent x.apiWcp.2 := by
  cases x with
  | base m => exact hc
  | pfx q p => exact hc
  | cache c p =>
    simp only [Layer.apiWcp]
    cases hck : c.checkpoint with
    | none => exact hc
    | some ck => exact coherent_empty_cache (applyEntries_spec p hc.1 ck).2

/-! ### one step -/

theorem step_coherent (l : Layer) (hc : Coherent l) (op : Op) (hs : Safe l op) :
    Coherent (step l op).2 := by
  cases op with
  | newCache => exact coherent_empty_cache hc
  | newPfx q => exact hc
  | get d k => exact (at'_viewpres _ (fun x hx => (apiGet_spec x hx k).2) d l hc).1
  | has d k => exact (at'_viewpres _ (fun x hx => (apiHas_spec x hx k).2) d l hc).1
  | set d k v => exact at'_noclean _ (fun x hx => apiSet_coherent x hx k v) d l hc hs
  | del d k => exact at'_noclean _ (fun x hx => apiDel_coherent x hx k) d l hc hs
  | iter d asc s e => exact (at'_viewpres _ (fun x hx => (apiIter_spec x hx s e asc).2) d l hc).1
  | write d => exact (at'_viewpres _ (fun x hx => apiWrite_spec x hx) d l hc).1
  | cp d => exact (at'_viewpres _ (fun x hx => apiCp_spec x hx) d l hc).1
  | wcp d => exact at'_noclean _ (fun x hx => apiWcp_coherent x hx) d l hc hs
  | hascp d => exact (at'_viewpres _ (fun x hx => apiHasCp_spec x hx) d l hc).1

theorem step_out (l : Layer) (hc : Coherent l) (op : Op) : (step l op).1 = specOut l op := by
  cases op with
  | get d k =>
    simp only [step, specOut, at'_fst]
    cases hx : l.sub d with
    | none => rfl
    | some x => exact (apiGet_spec x (sub_coherent hc hx) k).1
  | has d k =>
    simp only [step, specOut, at'_fst]
    cases hx : l.sub d with
    | none => rfl
    | some x => exact (apiHas_spec x (sub_coherent hc hx) k).1
  | iter d asc s e =>
    simp only [step, specOut, at'_fst]
    cases hx : l.sub d with
    | none => rfl
    | some x => exact (apiIter_spec x (sub_coherent hc hx) s e asc).1
  | _ => rfl

/-! ### histories -/

theorem run_spec (l : Layer) (hc : Coherent l) (ops : List Op) (hs : SafeRun l ops) :
    (run l ops).1 = specRun l ops ∧ Coherent (run l ops).2 := by
  induction ops generalizing l with
  | nil => exact ⟨rfl, hc⟩
  | cons op ops ih =>
    obtain ⟨h1, h2⟩ := hs
    obtain ⟨i1, i2⟩ := ih (step l op).2 (step_coherent l hc op h1) h2
    exact ⟨by simp only [run, specRun, step_out l hc op, i1], i2⟩

/-! ### checkpoints -/

theorem setCacheValue_checkpoint (c : CacheState) (k : Bytes) (v : Option Bytes) (a b : Bool) :
    (setCacheValue c k v a b).checkpoint = c.checkpoint := rfl

/-- a plain operation on the top cache store keeps its checkpoint and leaves the
parent's view alone. -/
theorem topPlain_step (c : CacheState) (p : Layer) (hc : Coherent (.cache c p)) (op : Op)
    (h : op.topPlain = true) :
    ∃ c' p', (step (.cache c p) op).2 = .cache c' p' ∧ c'.checkpoint = c.checkpoint ∧
      view p' = view p ∧ Coherent (.cache c' p') := by
  have hco : Coherent (step (.cache c p) op).2 := by
    apply step_coherent _ hc
    cases op with
    | set d k v => cases d <;> simp_all [Op.topPlain, Safe, NoCleanAbove]
    | del d k => cases d <;> simp_all [Op.topPlain, Safe, NoCleanAbove]
    | wcp d => simp [Op.topPlain] at h
    | _ => trivial
  have hp : Coherent p := hc.1
  cases op with
  | newCache => simp [Op.topPlain] at h
  | newPfx q => simp [Op.topPlain] at h
  | write d => simp [Op.topPlain] at h
  | cp d => simp [Op.topPlain] at h
  | wcp d => simp [Op.topPlain] at h
  | get d k =>
    cases d with
    | succ d => simp [Op.topPlain] at h
    | zero =>
      cases k with
      | none => exact ⟨c, p, rfl, rfl, rfl, hc⟩
      | some k =>
        simp only [step, Layer.at', Layer.apiGet, Layer.get] at hco ⊢
        cases hg : OMap.get c.cache k with
        | some cv => exact ⟨c, p, rfl, rfl, rfl, hc⟩
        | none =>
          simp only [hg] at hco
          exact ⟨_, _, rfl, rfl, (get_spec p hp k).2.1, hco⟩
  | has d k =>
    cases d with
    | succ d => simp [Op.topPlain] at h
    | zero =>
      cases k with
      | none => exact ⟨c, p, rfl, rfl, rfl, hc⟩
      | some k =>
        simp only [step, Layer.at', Layer.apiHas, Layer.has, Layer.get] at hco ⊢
        cases hg : OMap.get c.cache k with
        | some cv => exact ⟨c, p, rfl, rfl, rfl, hc⟩
        | none =>
          simp only [hg] at hco
          exact ⟨_, _, rfl, rfl, (get_spec p hp k).2.1, hco⟩
  | set d k v =>
    cases d with
    | succ d => simp [Op.topPlain] at h
    | zero =>
      cases k with
      | none => exact ⟨c, p, rfl, rfl, rfl, hc⟩
      | some k =>
        cases v with
        | none => exact ⟨c, p, rfl, rfl, rfl, hc⟩
        | some v => exact ⟨_, _, rfl, rfl, rfl, hco⟩
  | del d k =>
    cases d with
    | succ d => simp [Op.topPlain] at h
    | zero =>
      cases k with
      | none => exact ⟨c, p, rfl, rfl, rfl, hc⟩
      | some k => exact ⟨_, _, rfl, rfl, rfl, hco⟩
  | iter d asc s e =>
    cases d with
    | succ d => simp [Op.topPlain] at h
    | zero => exact ⟨_, _, rfl, rfl, (iter_spec p hp s e asc).2.1, hco⟩
  | hascp d =>
    cases d with
    | succ d => simp [Op.topPlain] at h
    | zero => exact ⟨c, p, rfl, rfl, rfl, hc⟩

theorem topPlain_run (c : CacheState) (p : Layer) (hc : Coherent (.cache c p)) (ops : List Op)
    (h : ∀ op ∈ ops, op.topPlain = true) :
    ∃ c' p', (run (.cache c p) ops).2 = .cache c' p' ∧ c'.checkpoint = c.checkpoint ∧
      view p' = view p ∧ Coherent (.cache c' p') := by
  induction ops generalizing c p with
  | nil => exact ⟨c, p, rfl, rfl, rfl, hc⟩
  | cons op ops ih =>
    obtain ⟨c1, p1, e1, k1, v1, h1⟩ := topPlain_step c p hc op (h op (by simp))
    obtain ⟨c2, p2, e2, k2, v2, h2⟩ := ih c1 p1 h1 (fun o ho => h o (List.mem_cons_of_mem _ ho))
    refine ⟨c2, p2, ?_, k2.trans k1, v2.trans v1, h2⟩
    simp only [run, e1, e2]

end GnoVerif.C22
