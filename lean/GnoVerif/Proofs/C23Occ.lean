/-
Proofs.C23Occ — occupancy: every leaf keeps `1..B` entries and every inner node
`1..B-1` separators through `Set` and `Remove` (`4 ≤ B`; the code's `B = 32`).
These are the array bounds of the Go structs; non-empty nodes are what the
iterator, the pruning walk and the importer rely on.
-/
import GnoVerif.Proofs.C23Remove

namespace GnoVerif.C23
open GnoVerif

theorem minKeys_bounds {B : Nat} (hB : 4 ≤ B) : 2 ≤ minKeys B ∧ 2 * minKeys B ≤ B := by
  simp only [minKeys]; omega

/-! ### insert -/

/-- occupancy of an insertion result. -/
def InsOcc (B h : Nat) (r : InsRes (Node h)) : Prop :=
  Occ B h r.node ∧ ∀ sep right, r.split = some (sep, right) → Occ B h right

theorem leafInsert_occ {B : Nat} (hB : 4 ≤ B) {l : Leaf} {lo hi : Option Key} (hord : Ord 0 l lo hi)
    (hocc : Occ B 0 l) (key : Key) (v : Val) : InsOcc B 0 (leafInsert B l key v) := by
  obtain ⟨es⟩ := l
  have h' : LeafOrd es lo hi := hord
  have ho : 1 ≤ es.length ∧ es.length ≤ B := hocc
  simp only [InsOcc, leafInsert]
  cases hf : (searchLeaf ⟨es⟩ key).2 with
  | true =>
    have hpair : searchLeaf ⟨es⟩ key = ((searchLeaf ⟨es⟩ key).1, true) := by rw [← hf]
    rw [hpair]
    simp only [if_true]
    refine ⟨?_, by simp⟩
    show 1 ≤ (es.set _ _).length ∧ (es.set _ _).length ≤ B
    simpa using ho
  | false =>
    have hpair : searchLeaf ⟨es⟩ key = ((searchLeaf ⟨es⟩ key).1, false) := by rw [← hf]
    have hpos : (searchLeaf ⟨es⟩ key).1 ≤ es.length := (searchLeaf_spec h'.1 key).1
    rw [hpair]
    simp only [Bool.false_eq_true, if_false]
    generalize (searchLeaf ⟨es⟩ key).1 = pos at hpos
    have hall : (es.take pos ++ (key, v) :: es.drop pos).length = es.length + 1 := by
      simp only [List.length_append, List.length_take, List.length_cons, List.length_drop]; omega
    split
    · rename_i hlt
      refine ⟨?_, by simp⟩
      show 1 ≤ (es.take pos ++ (key, v) :: es.drop pos).length ∧ _ ≤ B
      rw [hall]; omega
    · rename_i hfull
      have hlenB : es.length = B := by omega
      refine ⟨?_, ?_⟩
      · show 1 ≤ (List.take _ _).length ∧ (List.take _ _).length ≤ B
        simp only [List.length_take, hall]
        split <;> omega
      · intro sep right hsr
        simp only [Option.some.injEq, Prod.mk.injEq] at hsr
        obtain ⟨_, rfl⟩ := hsr
        show 1 ≤ (List.drop _ _).length ∧ (List.drop _ _).length ≤ B
        simp only [List.length_drop, hall]
        split <;> omega

theorem innerAfterInsert_occ {B : Nat} (hB : 4 ≤ B) {h : Nat} {n : Inner (Node h)} {i : Nat}
    {r : InsRes (Node h)} (hlen : n.kids.length = n.keys.length + 1) (hi : i < n.kids.length)
    (hocc : Occ B (h + 1) n) (hr : InsOcc B h r) : InsOcc B (h + 1) (innerAfterInsert B n i r) := by
  obtain ⟨keys, kids, sizes⟩ := n
  obtain ⟨hk1, hk2, hkids⟩ : 1 ≤ keys.length ∧ keys.length ≤ B - 1 ∧ ∀ c ∈ kids, Occ B h c := hocc
  simp only at hlen hi
  obtain ⟨hrn, hrs⟩ := hr
  simp only [InsOcc, innerAfterInsert]
  cases hsp : r.split with
  | none =>
    simp only
    refine ⟨⟨hk1, hk2, ?_⟩, by simp⟩
    intro c hc
    rcases List.mem_or_eq_of_mem_set hc with hc | rfl
    · exact hkids c hc
    · exact hrn
  | some p =>
    obtain ⟨sep, right⟩ := p
    have hright := hrs sep right hsp
    simp only
    have hmem : ∀ c ∈ kids.take i ++ r.node :: right :: kids.drop (i + 1), Occ B h c := by
      intro c hc
      rcases List.mem_append.1 hc with hc | hc
      · exact hkids c (List.mem_of_mem_take hc)
      · rcases List.mem_cons.1 hc with rfl | hc
        · exact hrn
        · rcases List.mem_cons.1 hc with rfl | hc
          · exact hright
          · exact hkids c (List.mem_of_mem_drop hc)
    have hklen : (keys.take i ++ sep :: keys.drop i).length = keys.length + 1 := by
      simp only [List.length_append, List.length_take, List.length_cons, List.length_drop]; omega
    split
    · rename_i hroom
      refine ⟨⟨?_, ?_, hmem⟩, by simp⟩
      · show 1 ≤ (keys.take i ++ sep :: keys.drop i).length
        rw [hklen]; omega
      · show (keys.take i ++ sep :: keys.drop i).length ≤ B - 1
        rw [hklen]; omega
    · rename_i hfull
      have hkB : keys.length = B - 1 := by omega
      refine ⟨⟨?_, ?_, ?_⟩, ?_⟩
      · show 1 ≤ (List.take _ _).length
        simp only [List.length_take, hklen]; omega
      · show (List.take _ _).length ≤ B - 1
        simp only [List.length_take, hklen]; omega
      · intro c hc; exact hmem c (List.mem_of_mem_take hc)
      · intro sep' right' hsr
        simp only [Option.some.injEq, Prod.mk.injEq] at hsr
        obtain ⟨_, rfl⟩ := hsr
        refine ⟨?_, ?_, ?_⟩
        · show 1 ≤ (List.drop _ _).length
          simp only [List.length_drop, hklen]; omega
        · show (List.drop _ _).length ≤ B - 1
          simp only [List.length_drop, hklen]; omega
        · intro c hc; exact hmem c (List.mem_of_mem_drop hc)

theorem nodeInsert_occ {B : Nat} (hB : 4 ≤ B) : ∀ (h : Nat) (c : Node h) (lo hi : Option Key) (key : Key)
    (v : Val), Ord h c lo hi → Occ B h c → InsOcc B h (nodeInsert B h c key v)
  | 0, l, lo, hi, key, v, hord, hocc => leafInsert_occ hB hord hocc key v
  | h + 1, n, lo, hi, key, v, hord, hocc => by
    have hlen : (n : Inner (Node h)).kids.length = (n : Inner (Node h)).keys.length + 1 :=
      hord.1.length_eq
    have hks := Ord.keys_sorted hord
    have hile := (searchInner_spec key hks).1
    simp only [nodeInsert]
    generalize searchInner (n : Inner (Node h)).keys key = i at hile
    have hi : i < (n : Inner (Node h)).kids.length := by omega
    rw [List.getElem?_eq_getElem hi]
    simp only
    obtain ⟨lo', hi', hco⟩ := hord.1.forall_mem _ (List.getElem_mem hi)
    exact innerAfterInsert_occ hB hlen hi hocc
      (nodeInsert_occ hB h _ lo' hi' key v hco (hocc.2.2 _ (List.getElem_mem hi)))

theorem treeInsert_occ {B : Nat} (hB : 4 ≤ B) (t : Tree) (ht : t.OrdOk) (ho : t.OccOk B) (key : Key)
    (v : Val) : (treeInsert B t key v).1.OccOk B := by
  cases t with
  | empty =>
    show 1 ≤ [(key, v)].length ∧ [(key, v)].length ≤ B
    simp; omega
  | node h root =>
    have hr := nodeInsert_occ hB h root none none key v ht ho
    simp only [treeInsert]
    cases hsp : (nodeInsert B h root key v).split with
    | none => exact hr.1
    | some p =>
      obtain ⟨sep, right⟩ := p
      refine ⟨by simp, by simp; omega, ?_⟩
      intro c hc
      simp only [List.mem_cons, List.mem_nil_iff, or_false] at hc
      rcases hc with rfl | rfl
      · exact hr.1
      · exact hr.2 sep _ hsp

/-! ### remove -/

/-- array bounds and children's occupancy, without the node's own lower bound. -/
def OccU (B : Nat) : (h : Nat) → Node h → Prop
  | 0, (l : Leaf) => l.es.length ≤ B
  | h + 1, (n : Inner (Node h)) => n.keys.length ≤ B - 1 ∧ ∀ c ∈ n.kids, Occ B h c

/-- the node is below the minimum occupancy (what `underflow` reports). -/
def Under (B : Nat) : (h : Nat) → Node h → Prop
  | 0, (l : Leaf) => l.es.length < minKeys B
  | _ + 1, (n : Inner _) => n.keys.length + 1 < minKeys B

theorem Occ.toU {B : Nat} : ∀ {h : Nat} {c : Node h}, Occ B h c → OccU B h c
  | 0, _, hc => hc.2
  | _ + 1, _, hc => ⟨hc.2.1, hc.2.2⟩

theorem shiftRight_occ {B : Nat} (hB : 4 ≤ B) : ∀ (h : Nat) (sep : Key) (l r : Node h) (lo hi : Option Key),
    Ord h l lo (some sep) → Ord h r (some sep) hi →
    Occ B h l → canSpare B h l = true → OccU B h r → Under B h r →
    Occ B h (shiftRight h sep l r).1 ∧ Occ B h (shiftRight h sep l r).2.1
  | 0, sep, l, r, lo, hi, _, _, hlo, hsp, hru, hrU => by
    obtain ⟨L⟩ := l
    obtain ⟨R⟩ := r
    obtain ⟨m2, mB⟩ := minKeys_bounds hB
    have hsp' : minKeys B < L.length := by simpa [canSpare] using hsp
    have hlo' : 1 ≤ L.length ∧ L.length ≤ B := hlo
    have hrU' : R.length < minKeys B := hrU
    simp only [shiftRight]
    cases hg : L.getLast? with
    | none =>
      have : L = [] := List.getLast?_eq_none_iff.1 hg
      subst this; simp at hsp'
    | some e =>
      refine ⟨?_, ?_⟩
      · show 1 ≤ L.dropLast.length ∧ L.dropLast.length ≤ B
        simp only [List.length_dropLast]; omega
      · show 1 ≤ (e :: R).length ∧ (e :: R).length ≤ B
        simp only [List.length_cons]; omega
  | h + 1, sep, l, r, lo, hi, hl, hr, hlo, hsp, hru, hrU => by
    obtain ⟨lk, lc, ls⟩ := (l : Inner (Node h))
    obtain ⟨rk, rc, rs⟩ := (r : Inner (Node h))
    obtain ⟨m2, mB⟩ := minKeys_bounds hB
    have hlen := hl.1.length_eq
    simp only at hlen
    have hsp' : minKeys B < lk.length + 1 := by simpa [canSpare] using hsp
    obtain ⟨hl1, hl2, hl3⟩ : 1 ≤ lk.length ∧ lk.length ≤ B - 1 ∧ ∀ c ∈ lc, Occ B h c := hlo
    obtain ⟨hr2, hr3⟩ : rk.length ≤ B - 1 ∧ ∀ c ∈ rc, Occ B h c := hru
    have hrU' : rk.length + 1 < minKeys B := hrU
    simp only [shiftRight]
    cases hgk : lk.getLast? with
    | none =>
      have : lk = [] := List.getLast?_eq_none_iff.1 hgk
      subst this; simp at hl1
    | some kl =>
      cases hgc : lc.getLast? with
      | none =>
        have : lc = [] := List.getLast?_eq_none_iff.1 hgc
        subst this; simp at hlen
      | some cl =>
        have hclmem : cl ∈ lc := List.mem_of_getLast? hgc
        simp only
        refine ⟨⟨?_, ?_, ?_⟩, ⟨?_, ?_, ?_⟩⟩
        · show 1 ≤ lk.dropLast.length
          simp only [List.length_dropLast]; omega
        · show lk.dropLast.length ≤ B - 1
          simp only [List.length_dropLast]; omega
        · intro c hc; exact hl3 c (List.dropLast_subset _ hc)
        · show 1 ≤ (sep :: rk).length
          simp
        · show (sep :: rk).length ≤ B - 1
          simp only [List.length_cons]; omega
        · intro c hc
          rcases List.mem_cons.1 hc with rfl | hc
          · exact hl3 _ hclmem
          · exact hr3 c hc

theorem shiftLeft_occ {B : Nat} (hB : 4 ≤ B) : ∀ (h : Nat) (sep : Key) (l r : Node h) (lo hi : Option Key),
    Ord h l lo (some sep) → Ord h r (some sep) hi →
    OccU B h l → Under B h l → Occ B h r → canSpare B h r = true →
    Occ B h (shiftLeft h sep l r).1 ∧ Occ B h (shiftLeft h sep l r).2.1
  | 0, sep, l, r, lo, hi, _, _, hlu, hlU, hro, hsp => by
    obtain ⟨L⟩ := l
    obtain ⟨R⟩ := r
    obtain ⟨m2, mB⟩ := minKeys_bounds hB
    have hsp' : minKeys B < R.length := by simpa [canSpare] using hsp
    have hro' : 1 ≤ R.length ∧ R.length ≤ B := hro
    have hlU' : L.length < minKeys B := hlU
    match R, hsp', hro' with
    | e :: rest, hsp', hro' =>
      simp only [shiftLeft]
      refine ⟨?_, ?_⟩
      · show 1 ≤ (L ++ [e]).length ∧ (L ++ [e]).length ≤ B
        simp only [List.length_append, List.length_cons, List.length_nil]; omega
      · show 1 ≤ rest.length ∧ rest.length ≤ B
        simp only [List.length_cons] at hsp' hro'; omega
  | h + 1, sep, l, r, lo, hi, hl, hr, hlu, hlU, hro, hsp => by
    obtain ⟨lk, lc, ls⟩ := (l : Inner (Node h))
    obtain ⟨rk, rc, rs⟩ := (r : Inner (Node h))
    obtain ⟨m2, mB⟩ := minKeys_bounds hB
    have hlen := hr.1.length_eq
    simp only at hlen
    have hsp' : minKeys B < rk.length + 1 := by simpa [canSpare] using hsp
    obtain ⟨hr1, hr2, hr3⟩ : 1 ≤ rk.length ∧ rk.length ≤ B - 1 ∧ ∀ c ∈ rc, Occ B h c := hro
    obtain ⟨hl2, hl3⟩ : lk.length ≤ B - 1 ∧ ∀ c ∈ lc, Occ B h c := hlu
    have hlU' : lk.length + 1 < minKeys B := hlU
    simp only [shiftLeft]
    match rk, rc, hlen, hsp', hr1, hr2, hr3 with
    | [], _, _, _, hr1, _, _ => simp at hr1
    | _ :: _, [], hlen, _, _, _, _ => simp at hlen
    | k0 :: rks, c0 :: rcs, hlen, hsp', hr1, hr2, hr3 =>
      simp only
      simp only [List.length_cons] at hsp' hr2
      refine ⟨⟨?_, ?_, ?_⟩, ⟨?_, ?_, ?_⟩⟩
      · show 1 ≤ (lk ++ [sep]).length
        simp
      · show (lk ++ [sep]).length ≤ B - 1
        simp only [List.length_append, List.length_cons, List.length_nil]; omega
      · intro c hc
        rcases List.mem_append.1 hc with hc | hc
        · exact hl3 c hc
        · simp at hc; subst hc; exact hr3 _ (by simp)
      · show 1 ≤ rks.length
        omega
      · show rks.length ≤ B - 1
        omega
      · intro c hc; exact hr3 c (by simp [hc])

/-- merging two siblings gives a node within the array bounds when one of them is
under the minimum and the other cannot spare. -/
theorem mergeNodes_occ {B : Nat} (hB : 4 ≤ B) : ∀ (h : Nat) (sep : Key) (l r : Node h),
    OccU B h l → OccU B h r →
    ((Under B h l ∧ Occ B h r ∧ canSpare B h r = false) ∨
     (Occ B h l ∧ canSpare B h l = false ∧ Under B h r)) →
    Occ B h (mergeNodes h sep l r)
  | 0, sep, l, r, hl, hr, hc => by
    obtain ⟨L⟩ := l
    obtain ⟨R⟩ := r
    obtain ⟨m2, mB⟩ := minKeys_bounds hB
    show 1 ≤ (L ++ R).length ∧ (L ++ R).length ≤ B
    simp only [List.length_append]
    rcases hc with ⟨hU, ho, hs⟩ | ⟨ho, hs, hU⟩
    · have hU' : L.length < minKeys B := hU
      have ho' : 1 ≤ R.length ∧ R.length ≤ B := ho
      have hs' : ¬ minKeys B < R.length := by simpa [canSpare] using hs
      omega
    · have hU' : R.length < minKeys B := hU
      have ho' : 1 ≤ L.length ∧ L.length ≤ B := ho
      have hs' : ¬ minKeys B < L.length := by simpa [canSpare] using hs
      omega
  | h + 1, sep, l, r, hl, hr, hc => by
    obtain ⟨lk, lc, ls⟩ := (l : Inner (Node h))
    obtain ⟨rk, rc, rs⟩ := (r : Inner (Node h))
    obtain ⟨m2, mB⟩ := minKeys_bounds hB
    obtain ⟨hl2, hl3⟩ : lk.length ≤ B - 1 ∧ ∀ c ∈ lc, Occ B h c := hl
    obtain ⟨hr2, hr3⟩ : rk.length ≤ B - 1 ∧ ∀ c ∈ rc, Occ B h c := hr
    refine ⟨?_, ?_, ?_⟩
    · show 1 ≤ (lk ++ sep :: rk).length
      simp only [List.length_append, List.length_cons]; omega
    · show (lk ++ sep :: rk).length ≤ B - 1
      simp only [List.length_append, List.length_cons]
      rcases hc with ⟨hU, ho, hs⟩ | ⟨ho, hs, hU⟩
      · have hU' : lk.length + 1 < minKeys B := hU
        have hs' : ¬ minKeys B < rk.length + 1 := by simpa [canSpare] using hs
        omega
      · have hU' : rk.length + 1 < minKeys B := hU
        have hs' : ¬ minKeys B < lk.length + 1 := by simpa [canSpare] using hs
        omega
    · intro c hc'
      rcases List.mem_append.1 hc' with hc' | hc'
      · exact hl3 c hc'
      · exact hr3 c hc'

/-! #### the three parent-level repairs on a focused pair -/

section pair
variable {h : Nat} {K1 K2 : List Key} {C1 C2 : List (Node h)} {a b : Node h} {k : Key}
  {S : List Nat} {idx : Nat}

theorem redistributeRight_eq (hK : K1.length = idx) (hC : C1.length = idx) :
    (redistributeRight (⟨K1 ++ k :: K2, C1 ++ a :: b :: C2, S⟩ : Inner (Node h)) idx).kids =
      C1 ++ (shiftRight h k a b).1 :: (shiftRight h k a b).2.1 :: C2 ∧
    (redistributeRight (⟨K1 ++ k :: K2, C1 ++ a :: b :: C2, S⟩ : Inner (Node h)) idx).keys =
      K1 ++ (shiftRight h k a b).2.2.1 :: K2 := by
  simp only [redistributeRight]
  rw [getElem?_mid hC, getElem?_mid2 hC, getElem?_mid hK]
  simp only
  rw [set_mid hK, set_mid hC, set_mid2 hC]
  exact ⟨rfl, rfl⟩

theorem redistributeLeft_eq (hK : K1.length = idx) (hC : C1.length = idx) :
    (redistributeLeft (⟨K1 ++ k :: K2, C1 ++ a :: b :: C2, S⟩ : Inner (Node h)) idx).kids =
      C1 ++ (shiftLeft h k a b).1 :: (shiftLeft h k a b).2.1 :: C2 ∧
    (redistributeLeft (⟨K1 ++ k :: K2, C1 ++ a :: b :: C2, S⟩ : Inner (Node h)) idx).keys =
      K1 ++ (shiftLeft h k a b).2.2.1 :: K2 := by
  simp only [redistributeLeft]
  rw [getElem?_mid hC, getElem?_mid2 hC, getElem?_mid hK]
  simp only
  rw [set_mid hK, set_mid hC, set_mid2 hC]
  exact ⟨rfl, rfl⟩

theorem mergeAt_eq (hK : K1.length = idx) (hC : C1.length = idx) :
    (mergeAt (⟨K1 ++ k :: K2, C1 ++ a :: b :: C2, S⟩ : Inner (Node h)) idx).kids =
      C1 ++ mergeNodes h k a b :: C2 ∧
    (mergeAt (⟨K1 ++ k :: K2, C1 ++ a :: b :: C2, S⟩ : Inner (Node h)) idx).keys = K1 ++ K2 := by
  simp only [mergeAt]
  rw [getElem?_mid hC, getElem?_mid2 hC, getElem?_mid hK]
  simp only
  rw [eraseIdx_mid hK, set_mid hC, eraseIdx_mid2 hC]
  exact ⟨rfl, rfl⟩

end pair

theorem getElem?_of_mem_left {α : Type} {A B : List α} {x : α} (h : x ∈ A) :
    ∃ j, j < A.length ∧ (A ++ B)[j]? = some x := by
  obtain ⟨j, hj, rfl⟩ := List.mem_iff_getElem.1 h
  exact ⟨j, hj, by rw [List.getElem?_append_left hj, List.getElem?_eq_getElem hj]⟩

theorem getElem?_of_mem_right {α : Type} {A B : List α} {x : α} (h : x ∈ B) :
    ∃ j, A.length ≤ j ∧ (A ++ B)[j]? = some x := by
  obtain ⟨j, hj, rfl⟩ := List.mem_iff_getElem.1 h
  refine ⟨A.length + j, by omega, ?_⟩
  rw [List.getElem?_append_right (by omega)]
  simp [hj]

/-- all members of a focused pair's surroundings satisfy what holds at every other index. -/
theorem pair_others {α : Type} {P : α → Prop} {C1 C2 : List α} {a b : α} {idx i : Nat}
    (hC : C1.length = idx) (hi : i = idx ∨ i = idx + 1)
    (hother : ∀ j x, (C1 ++ a :: b :: C2)[j]? = some x → j ≠ i → P x) :
    (∀ x ∈ C1, P x) ∧ (∀ x ∈ C2, P x) := by
  refine ⟨?_, ?_⟩
  · intro x hx
    obtain ⟨j, hj, hget⟩ := getElem?_of_mem_left (B := a :: b :: C2) hx
    exact hother j x hget (by omega)
  · intro x hx
    obtain ⟨j, hj, hget⟩ := getElem?_of_mem_right (A := C1 ++ [a, b]) hx
    have : C1 ++ [a, b] ++ C2 = C1 ++ a :: b :: C2 := by simp
    rw [this] at hget
    simp only [List.length_append, List.length_cons, List.length_nil] at hj
    exact hother j x hget (by omega)

theorem mem_pair_result {α : Type} {P : α → Prop} {C1 C2 : List α} {l' r' : α}
    (h1 : ∀ x ∈ C1, P x) (h2 : ∀ x ∈ C2, P x) (hl : P l') (hr : P r') :
    ∀ x ∈ C1 ++ l' :: r' :: C2, P x := by
  intro x hx
  rcases List.mem_append.1 hx with hx | hx
  · exact h1 x hx
  · rcases List.mem_cons.1 hx with rfl | hx
    · exact hl
    · rcases List.mem_cons.1 hx with rfl | hx
      · exact hr
      · exact h2 x hx

theorem mem_single_result {α : Type} {P : α → Prop} {C1 C2 : List α} {m : α}
    (h1 : ∀ x ∈ C1, P x) (h2 : ∀ x ∈ C2, P x) (hm : P m) : ∀ x ∈ C1 ++ m :: C2, P x := by
  intro x hx
  rcases List.mem_append.1 hx with hx | hx
  · exact h1 x hx
  · rcases List.mem_cons.1 hx with rfl | hx
    · exact hm
    · exact h2 x hx

/-- `fixUnderflow` restores the occupancy of all children; the parent loses one
separator exactly when it merged. -/
theorem fixUnderflow_occ {B : Nat} (hB : 4 ≤ B) {h : Nat} (p : Inner (Node h)) (i : Nat)
    (lo hi : Option Key) (hp : Ord (h + 1) p lo hi) (hi_lt : i < p.kids.length)
    (hk1 : 1 ≤ p.keys.length)
    (hother : ∀ j x, p.kids[j]? = some x → j ≠ i → Occ B h x)
    (hself : ∀ x, p.kids[i]? = some x → OccU B h x ∧ Under B h x) :
    (∀ x ∈ (fixUnderflow B p i).1.kids, Occ B h x) ∧
    (fixUnderflow B p i).1.keys.length + (if (fixUnderflow B p i).2 = true then 1 else 0) =
      p.keys.length := by
  obtain ⟨keys, kids, sizes⟩ := p
  obtain ⟨hch, hsz⟩ := hp
  simp only at hch hsz hi_lt hk1 hother hself
  have hlen := hch.length_eq
  unfold fixUnderflow
  simp only
  by_cases hA : (decide (i > 0) && spareAt B (⟨keys, kids, sizes⟩ : Inner (Node h)) (i - 1)) = true
  · rw [if_pos hA]
    simp only [Bool.and_eq_true, decide_eq_true_eq] at hA
    obtain ⟨idx, rfl⟩ : ∃ idx, i = idx + 1 := ⟨i - 1, by omega⟩
    simp only [Nat.add_sub_cancel] at hA ⊢
    obtain ⟨K1, k, K2, C1, a, b, C2, rfl, rfl, hK1, hC1, hpre, ha, hb, hpost⟩ :=
      pair_focus hch (idx := idx) (by omega)
    have hsa : canSpare B h a = true := by
      have := hA.2; simp only [spareAt] at this; rw [getElem?_mid hC1] at this; exact this
    obtain ⟨o1, o2⟩ := pair_others (P := Occ B h) hC1 (Or.inr rfl) hother
    have hao : Occ B h a := hother idx a (getElem?_mid hC1) (by omega)
    obtain ⟨hbu, hbU⟩ := hself b (getElem?_mid2 hC1)
    obtain ⟨r1, r2⟩ := shiftRight_occ hB h k a b _ _ ha hb hao hsa hbu hbU
    obtain ⟨e1, e2⟩ := redistributeRight_eq (S := sizes) (K2 := K2) (C2 := C2) (k := k) (a := a) (b := b) hK1 hC1
    rw [e1, e2]
    exact ⟨mem_pair_result o1 o2 r1 r2, by simp⟩
  · rw [if_neg hA]
    by_cases hBc : (decide (i < keys.length) && spareAt B (⟨keys, kids, sizes⟩ : Inner (Node h)) (i + 1)) = true
    · rw [if_pos hBc]
      simp only [Bool.and_eq_true, decide_eq_true_eq] at hBc
      obtain ⟨K1, k, K2, C1, a, b, C2, rfl, rfl, hK1, hC1, hpre, ha, hb, hpost⟩ :=
        pair_focus hch (idx := i) hBc.1
      have hsb : canSpare B h b = true := by
        have := hBc.2; simp only [spareAt] at this; rw [getElem?_mid2 hC1] at this; exact this
      obtain ⟨o1, o2⟩ := pair_others (P := Occ B h) hC1 (Or.inl rfl) hother
      have hbo : Occ B h b := hother (i + 1) b (getElem?_mid2 hC1) (by omega)
      obtain ⟨hau, haU⟩ := hself a (getElem?_mid hC1)
      obtain ⟨r1, r2⟩ := shiftLeft_occ hB h k a b _ _ ha hb hau haU hbo hsb
      obtain ⟨e1, e2⟩ := redistributeLeft_eq (S := sizes) (K2 := K2) (C2 := C2) (k := k) (a := a) (b := b) hK1 hC1
      rw [e1, e2]
      exact ⟨mem_pair_result o1 o2 r1 r2, by simp⟩
    · rw [if_neg hBc]
      by_cases h3 : i > 0
      · rw [if_pos h3]
        obtain ⟨idx, rfl⟩ : ∃ idx, i = idx + 1 := ⟨i - 1, by omega⟩
        simp only [Nat.add_sub_cancel] at hA ⊢
        obtain ⟨K1, k, K2, C1, a, b, C2, rfl, rfl, hK1, hC1, hpre, ha, hb, hpost⟩ :=
          pair_focus hch (idx := idx) (by omega)
        have hsa : canSpare B h a = false := by
          simp only [Bool.and_eq_true, decide_eq_true_eq, not_and, spareAt] at hA
          rw [getElem?_mid hC1] at hA
          have := hA (by omega)
          simpa using this
        obtain ⟨o1, o2⟩ := pair_others (P := Occ B h) hC1 (Or.inr rfl) hother
        have hao : Occ B h a := hother idx a (getElem?_mid hC1) (by omega)
        obtain ⟨hbu, hbU⟩ := hself b (getElem?_mid2 hC1)
        have hm := mergeNodes_occ hB h k a b hao.toU hbu (Or.inr ⟨hao, hsa, hbU⟩)
        obtain ⟨e1, e2⟩ := mergeAt_eq (S := sizes) (K2 := K2) (C2 := C2) (k := k) (a := a) (b := b) hK1 hC1
        rw [e1, e2]
        refine ⟨mem_single_result o1 o2 hm, ?_⟩
        simp only [List.length_append, List.length_cons, if_true]; omega
      · rw [if_neg h3]
        have hi0 : i = 0 := by omega
        subst hi0
        obtain ⟨K1, k, K2, C1, a, b, C2, rfl, rfl, hK1, hC1, hpre, ha, hb, hpost⟩ :=
          pair_focus hch (idx := 0) (by omega)
        have hsb : canSpare B h b = false := by
          simp only [Bool.and_eq_true, decide_eq_true_eq, not_and, spareAt] at hBc
          rw [getElem?_mid2 hC1] at hBc
          have := hBc (by omega)
          simpa using this
        obtain ⟨o1, o2⟩ := pair_others (P := Occ B h) hC1 (Or.inl rfl) hother
        have hbo : Occ B h b := hother 1 b (getElem?_mid2 hC1) (by omega)
        obtain ⟨hau, haU⟩ := hself a (getElem?_mid hC1)
        have hm := mergeNodes_occ hB h k a b hau hbo.toU (Or.inl ⟨haU, hbo, hsb⟩)
        obtain ⟨e1, e2⟩ := mergeAt_eq (S := sizes) (K2 := K2) (C2 := C2) (k := k) (a := a) (b := b) hK1 hC1
        rw [e1, e2]
        refine ⟨mem_single_result o1 o2 hm, ?_⟩
        simp only [List.length_append, List.length_cons, if_true]; omega

/-- occupancy of a removal result: within the array bounds; at least minimal
unless `underflow` is reported, in which case it is below the minimum. -/
def RemOcc (B h : Nat) (r : RemRes (Node h)) : Prop :=
  r.found = true →
    OccU B h r.node ∧ (r.underflow = false → Occ B h r.node) ∧ (r.underflow = true → Under B h r.node)

theorem leafRemove_occ {B : Nat} (hB : 4 ≤ B) {l : Leaf} (hocc : Occ B 0 l) (key : Key) :
    RemOcc B 0 (leafRemove B l key) := by
  obtain ⟨es⟩ := l
  have ho : 1 ≤ es.length ∧ es.length ≤ B := hocc
  obtain ⟨m2, mB⟩ := minKeys_bounds hB
  simp only [RemOcc, leafRemove]
  cases hf : (searchLeaf ⟨es⟩ key).2 with
  | false =>
    have hpair : searchLeaf ⟨es⟩ key = ((searchLeaf ⟨es⟩ key).1, false) := by rw [← hf]
    rw [hpair]; simp
  | true =>
    have hpair : searchLeaf ⟨es⟩ key = ((searchLeaf ⟨es⟩ key).1, true) := by rw [← hf]
    rw [hpair]
    simp only [Bool.not_true, Bool.false_eq_true, if_false, forall_const, decide_eq_false_iff_not,
      decide_eq_true_eq]
    have hle : (es.eraseIdx (searchLeaf ⟨es⟩ key).1).length ≤ es.length := by
      rw [List.length_eraseIdx]; split <;> omega
    refine ⟨?_, ?_, ?_⟩
    · show (es.eraseIdx _).length ≤ B
      omega
    · intro hnu
      show 1 ≤ (es.eraseIdx _).length ∧ (es.eraseIdx _).length ≤ B
      omega
    · intro hu; exact hu

theorem getElem?_set_other {α : Type} (l : List α) (i j : Nat) (y x : α) (hne : j ≠ i)
    (h : (l.set i y)[j]? = some x) : l[j]? = some x := by
  rwa [List.getElem?_set_ne (Ne.symm hne)] at h

theorem nodeRemove_occ {B : Nat} (hB : 4 ≤ B) : ∀ (h : Nat) (c : Node h) (lo hi : Option Key) (key : Key),
    Ord h c lo hi → lbOk lo key → ubOk hi key → Occ B h c → RemOcc B h (nodeRemove B h c key)
  | 0, l, _, _, key, _, _, _, hocc => leafRemove_occ hB hocc key
  | h + 1, n, lo, hi, key, hord, hlo, hhi, hocc => by
    have hB2 : 2 ≤ B := by omega
    obtain ⟨m2, mB⟩ := minKeys_bounds hB
    obtain ⟨keys, kids, sizes⟩ := (n : Inner (Node h))
    obtain ⟨hch, hsz⟩ := hord
    obtain ⟨hk1, hk2, hkids⟩ : 1 ≤ keys.length ∧ keys.length ≤ B - 1 ∧ ∀ c ∈ kids, Occ B h c := hocc
    simp only at hch hsz
    obtain ⟨K1, K2, C1, c, C2, rfl, rfl, hK1, hC1, hKL, hKR, hpre, hc, hpost, hlo', hhi'⟩ :=
      inner_focus hch hlo hhi
    have hcocc : Occ B h c := hkids c (by simp)
    have ihok := nodeRemove_ok hB2 h c _ _ key hc hlo' hhi'
    have ihocc := nodeRemove_occ hB h c _ _ key hc hlo' hhi' hcocc
    have hkid : (⟨K1 ++ K2, C1 ++ c :: C2, sizes⟩ : Inner (Node h)).kids[searchInner
        (⟨K1 ++ K2, C1 ++ c :: C2, sizes⟩ : Inner (Node h)).keys key]? = some c := getElem?_mid hC1
    by_cases hf : (nodeRemove B h c key).found = true
    · rw [nodeRemove_succ_found hkid hf]
      generalize nodeRemove B h c key = r at ihok ihocc hf
      obtain ⟨hru, hrO, hrU⟩ := ihocc hf
      obtain ⟨hn1, _, _⟩ := innerN1_ok hpre hpost hKL hKR hc ihok hf hC1 hK1 hsz
      by_cases hu : r.underflow = true
      · rw [innerAfterRemove_under _ _ hu]
        have hfix := fixUnderflow_occ hB
          (innerN1 (⟨K1 ++ K2, C1 ++ c :: C2, sizes⟩ : Inner (Node h)) (searchInner (K1 ++ K2) key) r)
          (searchInner (K1 ++ K2) key) lo hi hn1
          (by simp only [innerN1, List.length_set, List.length_append, List.length_cons]; omega)
          hk1
          (fun j x hx hne => hkids x (List.mem_of_getElem? (getElem?_set_other _ _ _ _ _ hne hx)))
          (fun x hx => by
            simp only [innerN1] at hx
            rw [set_mid hC1, getElem?_mid hC1] at hx
            cases hx
            exact ⟨hru, hrU hu⟩)
        generalize fixUnderflow B _ (searchInner (K1 ++ K2) key) = res at hfix
        obtain ⟨n2, merged⟩ := res
        obtain ⟨f1, f2⟩ := hfix
        have f2' : n2.keys.length + (if merged = true then 1 else 0) = (K1 ++ K2).length := f2
        intro _
        refine ⟨⟨by show n2.keys.length ≤ B - 1; omega, f1⟩, ?_, ?_⟩
        · intro hnu
          have hnu' : (merged && decide (n2.keys.length + 1 < minKeys B)) = false := hnu
          refine ⟨?_, by show n2.keys.length ≤ B - 1; omega, f1⟩
          show 1 ≤ n2.keys.length
          simp only [Bool.and_eq_false_iff, decide_eq_false_iff_not] at hnu'
          rcases hnu' with hm | hm
          · subst hm
            have : n2.keys.length + 0 = (K1 ++ K2).length := f2'
            omega
          · omega
        · intro hu2
          have hu2' : (merged && decide (n2.keys.length + 1 < minKeys B)) = true := hu2
          simp only [Bool.and_eq_true, decide_eq_true_eq] at hu2'
          exact hu2'.2
      · have hu' : r.underflow = false := by simpa using hu
        rw [innerAfterRemove_nounder _ _ hu']
        have hall : ∀ x ∈ (C1 ++ c :: C2).set (searchInner (K1 ++ K2) key) r.node, Occ B h x := by
          rw [set_mid hC1]
          exact mem_single_result (fun x hx => hkids x (by simp [hx]))
            (fun x hx => hkids x (by simp [hx])) (hrO hu')
        intro _
        exact ⟨⟨hk2, hall⟩, fun _ => ⟨hk1, hk2, hall⟩, by simp⟩
    · have hf' : (nodeRemove B h c key).found = false := by simpa using hf
      rw [nodeRemove_succ_notfound hkid hf']
      intro hcontra; simp at hcontra

theorem treeRemove_occ {B : Nat} (hB : 4 ≤ B) (t : Tree) (ht : t.OrdOk) (ho : t.OccOk B) (key : Key) :
    (treeRemove B t key).1.OccOk B := by
  cases t with
  | empty => trivial
  | node h root =>
    cases h with
    | zero =>
      have hr := leafRemove_occ hB ho key
      simp only [treeRemove]
      by_cases hf : (leafRemove B root key).found = true
      · simp only [hf, Bool.not_true, Bool.false_eq_true, if_false]
        obtain ⟨hu, _, _⟩ := hr hf
        split
        · trivial
        · rename_i hne
          have hu' : (leafRemove B root key).node.es.length ≤ B := hu
          exact ⟨by omega, hu'⟩
      · simp only [hf, Bool.not_false, if_true]; exact ho
    | succ h =>
      have hr := nodeRemove_occ hB (h + 1) root none none key ht trivial trivial ho
      have hok := nodeRemove_ok (show 2 ≤ B by omega) (h + 1) root none none key ht trivial trivial
      simp only [treeRemove]
      by_cases hf : (nodeRemove B (h + 1) root key).found = true
      · simp only [hf, Bool.not_true, Bool.false_eq_true, if_false]
        obtain ⟨hu, _, _⟩ := hr hf
        simp only [RemOk, hf, if_true] at hok
        obtain ⟨_, hordn, _⟩ := hok
        generalize (nodeRemove B (h + 1) root key).node = n at hu hordn
        obtain ⟨keys, kids, sizes⟩ := (n : Inner (Node h))
        obtain ⟨hu1, hu2⟩ : keys.length ≤ B - 1 ∧ ∀ c ∈ kids, Occ B h c := hu
        have hlenk := hordn.1.length_eq
        simp only at hlenk
        split
        · cases kids with
          | nil => simp at hlenk
          | cons c cs => exact hu2 c (by simp)
        · rename_i hne
          exact ⟨by simp only at hne ⊢; omega, hu1, hu2⟩
      · simp only [hf, Bool.not_false, if_true]; exact ho

end GnoVerif.C23
