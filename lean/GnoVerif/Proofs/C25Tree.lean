import GnoVerif.Proofs.C25Split
/-!
Helper definitions and lemmas for C25: the shape reasoning is separated from the
hash reasoning by an explicit binary tree.

* `Tree`, `Tree.hash`, `Tree.leafAt`, `Tree.auntsRev` — structural;
* `chfaPath` — `computeHashFromAunts` as a function of the root-first turn
  sequence instead of `(index, total)`;
* `build items`, `turns i n` — the tree / the turn sequence the code's
  `getSplitPoint` recursion produces; the connecting lemmas to the model
  (`treeHash_eq`, `auntsFor_rev`, `chfa_eq_path`, `leafAt_turns`).
-/
namespace GnoVerif.C25

inductive Tree where
  | leaf (x : Bytes)
  | node (l r : Tree)
deriving Repr

namespace Tree

def hash (H : Bytes → Bytes) : Tree → Bytes
  | leaf x => leafHash H x
  | node l r => innerHash H (l.hash H) (r.hash H)

/-- the byte string whose `H`-image is the node's hash -/
def preimage (H : Bytes → Bytes) : Tree → Bytes
  | leaf x => 0 :: x
  | node l r => 1 :: (l.hash H ++ r.hash H)

theorem hash_eq_preimage (H : Bytes → Bytes) (t : Tree) : t.hash H = H (t.preimage H) := by
  cases t <;> rfl

/-- the item reached by a root-first turn sequence (`true` = right), if the
sequence ends exactly at a leaf -/
def leafAt : Tree → List Bool → Option Bytes
  | leaf x, [] => some x
  | node l _, false :: p => l.leafAt p
  | node _ r, true :: p => r.leafAt p
  | _, _ => none

/-- sibling hashes along a path, root-first (the reverse of Go's `Aunts`) -/
def auntsRev (H : Bytes → Bytes) : Tree → List Bool → List Bytes
  | node l r, false :: p => r.hash H :: l.auntsRev H p
  | node l r, true :: p => l.hash H :: r.auntsRev H p
  | _, _ => []

def size : Tree → Nat
  | leaf _ => 1
  | node l r => l.size + r.size

end Tree

/-- `computeHashFromAunts` driven by the turn sequence; `ra` = reversed aunts -/
def chfaPath (H : Bytes → Bytes) : List Bool → Option Bytes → List Bytes → Option Bytes
  | [], lh, [] => lh
  | [], _, _ :: _ => none
  | _ :: _, _, [] => none
  | d :: ds, lh, a :: rest =>
    match chfaPath H ds lh rest with
    | none => none
    | some h => some (if d then innerHash H a h else innerHash H h a)

/-- root-first turn sequence of leaf `i` among `t` leaves, following `getSplitPoint` -/
def turns (i t : Nat) : List Bool :=
  if _h : t ≤ 1 then []
  else
    let k := getSplitPoint t
    if i < k then false :: turns i k else true :: turns (i - k) (t - k)
termination_by t
decreasing_by
  · exact getSplitPoint_lt (by omega)
  · have := getSplitPoint_pos (n := t) (by omega); omega

/-- the tree `SimpleHashFromByteSlices` hashes.  `build [] = leaf []` is a junk
value: every lemma about `build` assumes a non-empty list. -/
def build (items : List Bytes) : Tree :=
  match items with
  | [] => .leaf []
  | [x] => .leaf x
  | x :: y :: rest =>
    let k := getSplitPoint (x :: y :: rest).length
    .node (build ((x :: y :: rest).take k)) (build ((x :: y :: rest).drop k))
termination_by items.length
decreasing_by
  · have := getSplitPoint_lt (n := (x :: y :: rest).length) (by simp)
    simp only [List.length_take, List.length_cons] at *; omega
  · have := getSplitPoint_pos (n := (x :: y :: rest).length) (by simp)
    simp only [List.length_drop, List.length_cons] at *; omega

/-! ### unfolding lemmas in terms of lengths -/

theorem take_ne_nil {items : List Bytes} (h : 2 ≤ items.length) :
    items.take (getSplitPoint items.length) ≠ [] := by
  have := getSplitPoint_pos h
  intro hc
  have h1 : (items.take (getSplitPoint items.length)).length = 0 := by rw [hc]; rfl
  rw [List.length_take] at h1; omega

theorem drop_ne_nil {items : List Bytes} (h : 2 ≤ items.length) :
    items.drop (getSplitPoint items.length) ≠ [] := by
  have := getSplitPoint_lt h
  intro hc
  have h1 : (items.drop (getSplitPoint items.length)).length = 0 := by rw [hc]; rfl
  rw [List.length_drop] at h1; omega

theorem treeHash_two {H : Bytes → Bytes} {items : List Bytes} (h : 2 ≤ items.length) :
    treeHash H items = innerHash H (treeHash H (items.take (getSplitPoint items.length)))
      (treeHash H (items.drop (getSplitPoint items.length))) := by
  match items, h with
  | x :: y :: rest, _ => rw [treeHash]

theorem build_two {items : List Bytes} (h : 2 ≤ items.length) :
    build items = .node (build (items.take (getSplitPoint items.length)))
      (build (items.drop (getSplitPoint items.length))) := by
  match items, h with
  | x :: y :: rest, _ => rw [build]

theorem auntsFor_two {H : Bytes → Bytes} {items : List Bytes} (i : Nat) (h : 2 ≤ items.length) :
    auntsFor H items i =
      if i < getSplitPoint items.length then
        auntsFor H (items.take (getSplitPoint items.length)) i ++ [treeHash H (items.drop (getSplitPoint items.length))]
      else
        auntsFor H (items.drop (getSplitPoint items.length)) (i - getSplitPoint items.length)
          ++ [treeHash H (items.take (getSplitPoint items.length))] := by
  match items, h with
  | x :: y :: rest, _ => rw [auntsFor]

theorem turns_two {i t : Nat} (h : 2 ≤ t) :
    turns i t = if i < getSplitPoint t then false :: turns i (getSplitPoint t)
      else true :: turns (i - getSplitPoint t) (t - getSplitPoint t) := by
  rw [turns]; simp only [show ¬ t ≤ 1 by omega, dite_false]

theorem turns_one (i : Nat) : turns i 1 = [] := by rw [turns]; simp

/-! ### the model functions are the tree functions on `build items` -/

theorem treeHash_eq (H : Bytes → Bytes) : ∀ (n : Nat) (items : List Bytes), items.length = n → items ≠ [] →
    treeHash H items = (build items).hash H := by
  intro n
  induction n using Nat.strongRecOn with
  | _ n ih =>
    intro items hn hne
    match items, hne with
    | [x], _ => simp [treeHash, build, Tree.hash]
    | x :: y :: rest, _ =>
      have h2 : 2 ≤ (x :: y :: rest).length := by simp
      have hlt := getSplitPoint_lt h2
      have hpos := getSplitPoint_pos h2
      rw [treeHash_two h2, build_two h2, Tree.hash]
      rw [ih _ (by rw [List.length_take]; omega) _ rfl (take_ne_nil h2),
          ih _ (by rw [List.length_drop]; omega) _ rfl (drop_ne_nil h2)]

theorem leafAt_turns : ∀ (n : Nat) (items : List Bytes) (i : Nat), items.length = n → i < items.length →
    (build items).leafAt (turns i items.length) = items[i]? := by
  intro n
  induction n using Nat.strongRecOn with
  | _ n ih =>
    intro items i hn hi
    match items, hi with
    | [x], hi =>
      have : i = 0 := by simpa using hi
      subst this
      simp [build, turns_one, Tree.leafAt]
    | x :: y :: rest, hi =>
      have h2 : 2 ≤ (x :: y :: rest).length := by simp
      have hlt := getSplitPoint_lt h2
      have hpos := getSplitPoint_pos h2
      rw [build_two h2, turns_two h2]
      generalize hk : getSplitPoint (x :: y :: rest).length = k at *
      generalize hl : (x :: y :: rest) = l at *
      split
      · rename_i hik
        have hlen : (l.take k).length = k := by rw [List.length_take]; omega
        have := ih k (by omega) (l.take k) i hlen (by omega)
        rw [hlen] at this
        rw [Tree.leafAt, this, List.getElem?_take]
        simp [hik]
      · rename_i hik
        have hlen : (l.drop k).length = l.length - k := by rw [List.length_drop]
        have := ih (l.length - k) (by omega) (l.drop k) (i - k) hlen (by omega)
        rw [hlen] at this
        rw [Tree.leafAt, this, List.getElem?_drop]
        congr 1; omega

theorem auntsFor_rev (H : Bytes → Bytes) : ∀ (n : Nat) (items : List Bytes) (i : Nat), items.length = n →
    i < items.length →
    (auntsFor H items i).reverse = (build items).auntsRev H (turns i items.length) := by
  intro n
  induction n using Nat.strongRecOn with
  | _ n ih =>
    intro items i hn hi
    match items, hi with
    | [x], hi => simp [auntsFor, build, turns_one, Tree.auntsRev]
    | x :: y :: rest, hi =>
      have h2 : 2 ≤ (x :: y :: rest).length := by simp
      have hlt := getSplitPoint_lt h2
      have hpos := getSplitPoint_pos h2
      rw [build_two h2, turns_two h2, auntsFor_two i h2]
      have hne1 := take_ne_nil h2
      have hne2 := drop_ne_nil h2
      generalize hk : getSplitPoint (x :: y :: rest).length = k at *
      generalize hl : (x :: y :: rest) = l at *
      split
      · rename_i hik
        have hlen : (l.take k).length = k := by rw [List.length_take]; omega
        have := ih k (by omega) (l.take k) i hlen (by omega)
        rw [hlen] at this
        rw [List.reverse_append, Tree.auntsRev, this, treeHash_eq H _ _ rfl hne2]
        rfl
      · rename_i hik
        have hlen : (l.drop k).length = l.length - k := by rw [List.length_drop]
        have := ih (l.length - k) (by omega) (l.drop k) (i - k) hlen (by omega)
        rw [hlen] at this
        rw [List.reverse_append, Tree.auntsRev, this, treeHash_eq H _ _ rfl hne1]
        rfl

theorem chfa_eq_path (H : Bytes → Bytes) (lh : Option Bytes) : ∀ (ra : List Bytes) (i t : Nat), i < t →
    chfa H i t lh ra = chfaPath H (turns i t) lh ra := by
  intro ra
  induction ra with
  | nil =>
    intro i t hit
    by_cases h1 : t = 1
    · subst h1; simp [chfa, turns_one, chfaPath]; omega
    · have h2 : 2 ≤ t := by omega
      rw [turns_two h2]
      split <;> simp [chfa, chfaPath, h1] <;> omega
  | cons a rest ih =>
    intro i t hit
    by_cases h1 : t = 1
    · subst h1; simp [chfa, turns_one, chfaPath]
    · have h2 : 2 ≤ t := by omega
      have hlt := getSplitPoint_lt h2
      have hpos := getSplitPoint_pos h2
      rw [turns_two h2, chfa]
      have hg : ¬ (i ≥ t ∨ t = 0) := by omega
      simp only [hg, h1, if_false]
      split
      · rename_i hik
        rw [chfaPath, ih _ _ hik]
        cases chfaPath H (turns i (getSplitPoint t)) lh rest <;> simp
      · rename_i hik
        rw [chfaPath, ih _ _ (by omega)]
        cases chfaPath H (turns (i - getSplitPoint t) (t - getSplitPoint t)) lh rest <;> simp

end GnoVerif.C25
