import GnoVerif.Proofs.C43Dec
/-! C43 helper lemmas: the receiver after ANY byte prefix of the stream (whole frames plus a proper
    prefix of the next one): no error, deliveries are a prefix of what was accepted. -/
namespace GnoVerif.C43

theorem putUvarintAux_prefix_high (f : Nat) : ∀ (n : Nat) (q : Bytes) (b : UInt8) (rest : Bytes),
    putUvarintAux f n = q ++ b :: rest → ∀ x ∈ q, ¬ x < 0x80 := by
  induction f with
  | zero =>
    intro n q b rest h x hx
    simp only [putUvarintAux] at h
    cases q with
    | nil => cases hx
    | cons y ys =>
      simp only [List.cons_append, List.cons.injEq] at h
      have := h.2
      cases ys <;> simp at this
  | succ f ih =>
    intro n q b rest h x hx
    unfold putUvarintAux at h
    by_cases hlt : n < 128
    · simp only [hlt, if_true] at h
      cases q with
      | nil => cases hx
      | cons y ys =>
        simp only [List.cons_append, List.cons.injEq] at h
        have := h.2
        cases ys <;> simp at this
    · simp only [hlt, if_false] at h
      cases q with
      | nil => cases hx
      | cons y ys =>
        simp only [List.cons_append, List.cons.injEq] at h
        rcases List.mem_cons.mp hx with rfl | hx'
        · rw [← h.1]
          exact u8_not_lt_128 _ (Nat.mod_lt _ (by omega))
        · exact ih (n / 128) ys b rest h.2 x hx'

theorem Recv.feed_high : ∀ (q : Bytes) (r : Recv) (acc : Bytes), r.err = none → r.phase = .len acc →
    (∀ x ∈ q, ¬ x < 0x80) → acc.length + q.length < 10 →
    r.feed q = { r with phase := .len (acc ++ q) } := by
  intro q
  induction q with
  | nil => intro r acc _ hp _ _; cases r; simp_all [Recv.feed]
  | cons b q ih =>
    intro r acc he hp hq hl
    rw [Recv.feed_cons]
    have hb : ¬ b < 0x80 := hq b (by simp)
    have h10 : ¬ (acc ++ [b]).length = 10 := by
      simp only [List.length_append, List.length_cons, List.length_nil] at *; omega
    have hstep : r.onByte b = { r with phase := .len (acc ++ [b]) } := by
      unfold Recv.onByte
      simp only [he, hp]
      rw [if_neg]
      rintro (h | h)
      · exact hb h
      · exact h10 h
    rw [hstep, ih { r with phase := .len (acc ++ [b]) } (acc ++ [b]) he rfl
      (fun x hx => hq x (by simp [hx]))
      (by simp only [List.length_append, List.length_cons, List.length_nil] at *; omega)]
    simp

theorem Recv.feed_body_partial : ∀ (bs : Bytes) (r : Recv) (need : Nat) (accRev : Bytes),
    r.err = none → r.phase = .body need accRev → bs.length < need →
    r.feed bs = { r with phase := .body (need - bs.length) (bs.reverse ++ accRev) } := by
  intro bs
  induction bs with
  | nil => intro r need accRev _ hp _; cases r; simp_all [Recv.feed]
  | cons b bs ih =>
    intro r need accRev he hp hl
    rw [Recv.feed_cons]
    have h1 : ¬ need ≤ 1 := by simp at hl; omega
    have hstep : r.onByte b = { r with phase := .body (need - 1) (b :: accRev) } := by
      simp [Recv.onByte, he, hp, h1]
    rw [hstep, ih { r with phase := .body (need - 1) (b :: accRev) } (need - 1) (b :: accRev) he rfl
      (by simp at hl; omega)]
    simp only [List.length_cons, List.reverse_cons, List.append_assoc, List.cons_append, List.nil_append]
    congr 2
    omega

/-- the length prefix of a frame that fits has been read: now `L` body bytes are expected. -/
theorem Recv.feed_lenprefix (r : Recv) (L : Nat) (hr : r.err = none) (hph : r.phase = .len [])
    (hL : L < 2 ^ 63) (hpos : 0 < L) (hfit : (putUvarint L).length + L ≤ r.maxFrame) :
    r.feed (putUvarint L) = { r with phase := .body L [] } := by
  have h1 := Recv.feed_put_aux 9 9 L r [] hr hph (by simpa using hL) (by omega) (by omega) (by simp)
  simp only [List.nil_append] at h1
  unfold putUvarint at *
  rw [h1]
  unfold Recv.onLen
  have hu : (goUvarint (putUvarintAux 9 L)).1 = L := goUvarint_put_fst _ hL
  simp only [hu]
  have c1 : ¬ r.maxFrame < L := by omega
  have c2 : ¬ ((r.maxFrame : Int) - ((putUvarintAux 9 L).length : Nat) < (L : Nat)) := by omega
  have c3 : ¬ L = 0 := by omega
  rw [if_neg c1, if_neg c2, if_neg c3]

/-- everything but the phase is as in `r`. -/
structure SameBut (r r' : Recv) : Prop where
  err : r'.err = r.err
  delivered : r'.delivered = r.delivered
  chans : r'.chans = r.chans
  log : r'.log = r.log
  maxFrame : r'.maxFrame = r.maxFrame

/-- a PROPER prefix of a valid frame: no error, nothing delivered, only the phase moves. -/
theorem Recv.feed_proper_prefix (r : Recv) (p : Packet) (hr : r.err = none) (hph : r.phase = .len [])
    (hlen : (encFrame p).length ≤ r.maxFrame)
    (hp : ∀ ch eof bs, p = .msg ch eof bs → bs.length < 2 ^ 62)
    (bs rest : Bytes) (hsplit : encFrame p = bs ++ rest) (hrest : rest ≠ []) :
    SameBut r (r.feed bs) := by
  have hL := encAny_len_lt p hp
  have hpos := encAny_pos p
  have hflen : (encFrame p).length = (putUvarint (encAny p).length).length + (encAny p).length := by
    simp [encFrame]
  have hrl : 0 < rest.length := List.length_pos_iff.mpr hrest
  have hsp : putUvarint (encAny p).length ++ encAny p = bs ++ rest := by
    rw [← hsplit]; rfl
  rcases List.append_eq_append_iff.mp hsp with ⟨a', hbs, hany⟩ | ⟨c', hpre, hrest'⟩
  · -- bs = prefix ++ a', encAny p = a' ++ rest
    subst hbs
    rw [Recv.feed_append, Recv.feed_lenprefix r _ hr hph hL hpos (by omega)]
    have hal : a'.length < (encAny p).length := by
      have := congrArg List.length hany
      simp only [List.length_append] at this; omega
    rw [Recv.feed_body_partial a' { r with phase := .body (encAny p).length [] } (encAny p).length [] hr rfl hal]
    exact ⟨rfl, rfl, rfl, rfl, rfl⟩
  · -- prefix = bs ++ c', c' ++ encAny p = rest
    cases c' with
    | nil =>
      -- bs is exactly the length prefix
      simp only [List.append_nil] at hpre
      subst hpre
      rw [Recv.feed_lenprefix r _ hr hph hL hpos (by omega)]
      exact ⟨rfl, rfl, rfl, rfl, rfl⟩
    | cons b cs =>
      have hhigh := putUvarintAux_prefix_high 9 (encAny p).length bs b cs hpre
      have hl10 := putUvarint_len_le (encAny p).length
      have hbl : bs.length < 10 := by
        have := congrArg List.length hpre
        simp only [List.length_append, List.length_cons] at this; omega
      rw [Recv.feed_high bs r [] hr hph hhigh (by simpa using hbl)]
      exact ⟨rfl, rfl, rfl, rfl, rfl⟩


/-! ### the sending side only grows its logs -/

/-- the packets written by a run, in order. -/
def SRun.emits (t : SRun) : List Act → List Packet
  | [] => []
  | a :: as => t.emit a ++ (t.act a).emits as

theorem SRun.run_out (acts : List Act) : ∀ t : SRun, (t.run acts).out = t.out ++ t.emits acts := by
  induction acts with
  | nil => intro t; simp [SRun.run, SRun.emits]
  | cons a as ih =>
    intro t
    show ((t.act a).run as).out = _
    rw [ih, SRun.act_out, SRun.emits, List.append_assoc]

theorem onCh_append (a b : List (UInt8 × Bytes)) (ch : UInt8) : onCh (a ++ b) ch = onCh a ch ++ onCh b ch := by
  simp [onCh, List.filter_append]

theorem SRun.act_accepted (t : SRun) (a : Act) : ∃ l, (t.act a).accepted = t.accepted ++ l := by
  cases a with
  | send id m =>
    simp only [SRun.act]
    split
    · exact ⟨_, rfl⟩
    · exact ⟨[], by simp⟩
  | trySend id m =>
    simp only [SRun.act]
    split
    · exact ⟨_, rfl⟩
    · exact ⟨[], by simp⟩
  | step i =>
    simp only [SRun.act]
    cases t.snd.stepAt i with
    | none => exact ⟨[], by simp⟩
    | some sp => exact ⟨[], by simp⟩
  | ping => exact ⟨[], by simp [SRun.act]⟩
  | pong => exact ⟨[], by simp [SRun.act]⟩

theorem SRun.run_accepted (acts : List Act) : ∀ t : SRun, ∃ l, (t.run acts).accepted = t.accepted ++ l := by
  induction acts with
  | nil => intro t; exact ⟨[], by simp [SRun.run]⟩
  | cons a as ih =>
    intro t
    obtain ⟨l1, h1⟩ := t.act_accepted a
    obtain ⟨l2, h2⟩ := ih (t.act a)
    exact ⟨l1 ++ l2, by show ((t.act a).run as).accepted = _; rw [h2, h1, List.append_assoc]⟩

theorem SRun.run_accepted_prefix (acts : List Act) (t : SRun) (ch : UInt8) :
    onCh t.accepted ch <+: onCh (t.run acts).accepted ch := by
  obtain ⟨l, h⟩ := SRun.run_accepted acts t
  rw [h, onCh_append]; exact List.prefix_append _ _

/-- a written packet carries at most `P` payload bytes (or is a ping/pong). -/
def PktOK (P : Nat) : Packet → Prop
  | .msg _ _ bs => bs.length ≤ P
  | _ => True

theorem stepAt_payload (s : Sender) (i : Nat) (s' : Sender) (p : Packet) (h : s.stepAt i = some (s', p)) :
    PktOK s.maxPayload p := by
  obtain ⟨c0, _, _, hp, _⟩ := stepAt_some s i s' p h
  rw [hp]
  unfold SChan.next
  simp only []
  split <;> simp only [PktOK, List.length_take] <;> omega

theorem SRun.emit_ok (t : SRun) (a : Act) : ∀ p ∈ t.emit a, PktOK t.snd.maxPayload p := by
  intro p hp
  cases a with
  | send id m => simp [SRun.emit] at hp
  | trySend id m => simp [SRun.emit] at hp
  | step i =>
    simp only [SRun.emit] at hp
    cases hs : t.snd.stepAt i with
    | none => simp [hs] at hp
    | some sp =>
      obtain ⟨s', p'⟩ := sp
      simp only [hs, List.mem_singleton] at hp
      subst hp
      exact stepAt_payload _ _ _ _ hs
  | ping => simp only [SRun.emit, List.mem_singleton] at hp; subst hp; trivial
  | pong => simp only [SRun.emit, List.mem_singleton] at hp; subst hp; trivial

theorem SRun.emit_len (t : SRun) (a : Act) : (t.emit a).length ≤ 1 := by
  cases a <;> simp only [SRun.emit, List.length_nil, List.length_cons] <;> try omega
  split <;> simp

/-- after ANY number `k` of the written packets the receiver satisfies the invariant with the
    sender state of that moment, whose accepted log is a prefix of the final one; and every written
    packet respects the payload limit. -/
theorem Inv.run_prefix {P : Nat} {rd : List RDesc} (hP0 : 0 < P) (hP1 : P ≤ 2 ^ 20) (acts : List Act) :
    ∀ (t : SRun) (r : Recv), Inv P rd t r → (∀ a ∈ acts, ActOK rd a) →
      (∀ p ∈ t.emits acts, PktOK P p) ∧
      ∀ k, ∃ tk, Inv P rd tk (r.feed (wireOf ((t.emits acts).take k))) ∧
        ∀ ch, onCh tk.accepted ch <+: onCh (t.run acts).accepted ch := by
  induction acts with
  | nil =>
    intro t r h _
    refine ⟨by simp [SRun.emits], fun k => ⟨t, by simpa [SRun.emits, wireOf, Recv.feed] using h, fun ch => ?_⟩⟩
    exact List.prefix_refl _
  | cons a as ih =>
    intro t r h hok
    have h1 := h.act hP0 hP1 a (hok a (by simp))
    obtain ⟨hpk, hk⟩ := ih (t.act a) _ h1 (fun b hb => hok b (by simp [hb]))
    refine ⟨?_, ?_⟩
    · intro p hp
      simp only [SRun.emits, List.mem_append] at hp
      rcases hp with hp | hp
      · have := t.emit_ok a p hp
        rwa [h.hP] at this
      · exact hpk p hp
    · intro k
      by_cases hkl : (t.emit a).length ≤ k
      · obtain ⟨tk, hinv, hacc⟩ := hk (k - (t.emit a).length)
        refine ⟨tk, ?_, hacc⟩
        have : ((t.emit a) ++ (t.act a).emits as).take k
            = t.emit a ++ ((t.act a).emits as).take (k - (t.emit a).length) := by
          rw [List.take_append, List.take_of_length_le hkl]
        show Inv P rd tk (r.feed (wireOf ((t.emit a ++ (t.act a).emits as).take k)))
        rw [this, wireOf_append, Recv.feed_append]
        exact hinv
      · have hk0 : k = 0 := by have := t.emit_len a; omega
        subst hk0
        refine ⟨t, by simpa [wireOf, Recv.feed] using h, fun ch => ?_⟩
        exact SRun.run_accepted_prefix (a :: as) t ch

/-- a prefix of the byte stream = some whole frames, then possibly a proper prefix of the next one. -/
theorem wire_prefix_split : ∀ (ps : List Packet) (bs : Bytes), bs <+: wireOf ps →
    ∃ k part, bs = wireOf (ps.take k) ++ part ∧
      (part = [] ∨ ∃ p rest, ps[k]? = some p ∧ encFrame p = part ++ rest ∧ rest ≠ []) := by
  intro ps
  induction ps with
  | nil =>
    intro bs h
    have : bs = [] := by simpa [wireOf] using h
    exact ⟨0, [], by simp [this, wireOf], Or.inl rfl⟩
  | cons p ps ih =>
    intro bs h
    obtain ⟨t, ht⟩ := h
    have hw : wireOf (p :: ps) = encFrame p ++ wireOf ps := by simp [wireOf]
    rw [hw] at ht
    rcases List.append_eq_append_iff.mp ht with ⟨a', h1, _⟩ | ⟨c', h1, h2⟩
    · cases a' with
      | nil =>
        refine ⟨1, [], ?_, Or.inl rfl⟩
        simp only [List.append_nil] at h1
        simp [wireOf, h1]
      | cons x xs =>
        exact ⟨0, bs, by simp [wireOf], Or.inr ⟨p, x :: xs, by simp, h1, by simp⟩⟩
    · obtain ⟨k, part, hk, hpart⟩ := ih c' ⟨t, h2.symm⟩
      refine ⟨k + 1, part, ?_, ?_⟩
      · rw [h1, hk]; simp [wireOf]
      · rcases hpart with h | ⟨q, rest, hq, he, hr⟩
        · exact Or.inl h
        · exact Or.inr ⟨q, rest, by simpa using hq, he, hr⟩


/-- the receiver has read ANY prefix of the byte stream (it may lag, the connection may die in
    the middle of a frame): no error, and each channel's deliveries are a prefix of what was
    accepted on it. -/
theorem Inv.safe_prefix {P : Nat} {rd : List RDesc} (hP0 : 0 < P) (hP1 : P ≤ 2 ^ 20) (acts : List Act)
    (t : SRun) (r : Recv) (h : Inv P rd t r) (hok : ∀ a ∈ acts, ActOK rd a)
    (bs : Bytes) (hpre : bs <+: wireOf (t.emits acts)) :
    (r.feed bs).err = none ∧ ∀ ch, onCh (r.feed bs).delivered ch <+: onCh (t.run acts).accepted ch := by
  obtain ⟨hpk, hk⟩ := Inv.run_prefix hP0 hP1 acts t r h hok
  obtain ⟨k, part, hbs, hpart⟩ := wire_prefix_split _ bs hpre
  obtain ⟨tk, hinv, hacc⟩ := hk k
  have hdel : ∀ ch, onCh (r.feed (wireOf ((t.emits acts).take k))).delivered ch <+: onCh (t.run acts).accepted ch := by
    intro ch
    refine List.IsPrefix.trans ?_ (hacc ch)
    by_cases hex : ∃ c ∈ tk.snd.chans, c.id = ch
    · obtain ⟨c, hc, rfl⟩ := hex
      obtain ⟨rc, _, hrel⟩ := hinv.chan c hc
      rw [hrel.split, List.append_assoc]
      exact List.prefix_append _ _
    · have hno : ∀ c ∈ tk.snd.chans, c.id ≠ ch := fun c hc e => hex ⟨c, hc, e⟩
      obtain ⟨h1, h2⟩ := hinv.other ch hno
      rw [h1, h2]; exact List.prefix_refl _
  rw [hbs, Recv.feed_append]
  rcases hpart with rfl | ⟨p, rest, hp, henc, hrest⟩
  · simp only [Recv.feed, List.foldl_nil]
    exact ⟨hinv.rerr, hdel⟩
  · have hpm : p ∈ t.emits acts := List.mem_of_getElem? hp
    have hpok := hpk p hpm
    have hlen : (encFrame p).length ≤ (r.feed (wireOf ((t.emits acts).take k))).maxFrame := by
      rw [hinv.rmax]
      cases p with
      | ping => exact (encFrame_ctl_le_max P hP0 hP1).1
      | pong => exact (encFrame_ctl_le_max P hP0 hP1).2
      | msg ch eof b => exact encFrame_msg_le_max P hP0 hP1 ch eof b hpok
    have hnm : ∀ ch eof b, p = .msg ch eof b → b.length < 2 ^ 62 := by
      intro ch eof b e; subst e
      have : b.length ≤ P := hpok
      omega
    have hsb := Recv.feed_proper_prefix _ p hinv.rerr hinv.rph hlen hnm part rest henc hrest
    refine ⟨by rw [hsb.err]; exact hinv.rerr, fun ch => ?_⟩
    rw [hsb.delivered]; exact hdel ch

end GnoVerif.C43
