import GnoVerif.Proofs.C05Round2
import GnoVerif.Proofs.C05RoundInt
import GnoVerif.Proofs.C05Tables
/-! C05: (f) `fadd64` on finite non-zero operands is the correctly rounded exact sum (integer level). -/
set_option linter.unusedSimpArgs false
namespace GnoVerif.C05.L
open GnoVerif.Gen.C05

theorem toInt_lit_sub_ofNat (c : Int) (k : Nat) (hc1 : -(2^40) ≤ c) (hc2 : c ≤ 2^40) (hk : k < 2^32) :
    (BitVec.ofInt 64 c - BitVec.ofNat 64 k).toInt = c - k := by
  rw [BitVec.toInt_sub, BitVec.toInt_ofInt, BitVec.toInt_ofNat']
  simp only [Int.bmod_def]; omega

/-- finite non-zero values: normalised 53-bit mantissa, exponent in [-1074, 1023] -/
theorem funpack64_fin (f : BitVec 64) (hfin : isFinite64 f) (hnz : ¬ isZero64 f) :
    ∃ m e, funpack64 f = (f &&& 9223372036854775808#64, m, e, false, false) ∧
      2^52 ≤ m.toNat ∧ m.toNat < 2^53 ∧ -1074 ≤ e.toInt ∧ e.toInt ≤ 1023 := by
  have hml := mantF64_lt f
  have hel := expF64_lt f
  have hmt : (f &&& 4503599627370495#64).toNat = mantF64 f := toNat_and_mant64 f
  unfold isFinite64 at hfin
  by_cases h0 : expF64 f = 0
  · have hm : mantF64 f ≠ 0 := fun h => hnz ((zero_iff_fields f).2 ⟨h, h0⟩)
    obtain ⟨k, hk1, hk52, heq, htn, hlo, hhi⟩ := funpack64_subnormal f h0 hm
    refine ⟨_, _, heq, by rw [htn]; exact hlo, by rw [htn]; exact hhi, ?_, ?_⟩
    · rw [toInt_lit_sub_ofNat _ _ (by omega) (by omega) (by omega)]; omega
    · rw [toInt_lit_sub_ofNat _ _ (by omega) (by omega) (by omega)]; omega
  · refine ⟨_, _, funpack64_normal f h0 hfin, ?_, ?_, ?_, ?_⟩
    · rw [toNat_or_implicit64 _ (by omega), hmt]; omega
    · rw [toNat_or_implicit64 _ (by omega), hmt]; omega
    · rw [toInt_ofNat_add_ofInt _ _ (by omega) (by omega) (by omega)]; omega
    · rw [toInt_ofNat_add_ofInt _ _ (by omega) (by omega) (by omega)]; omega


/-- the arithmetic core of `fadd64`, after the special cases and the operand swap (generated text) -/
def addCore64 (fs fm fe gs gm ge : BitVec 64) : BitVec 64 :=
  let shift := (fe - ge)
  let fm := (fm <<< 2)
  let gm := (gm <<< 2)
  let trunc := (gm &&& ((1#64 <<< (shift).toNat) - 1#64))
  let gm := (gm >>> (shift).toNat)
  let fm := (if (fs == gs) then
    let fm := (fm + gm)
    fm
  else
    let fm := (fm - gm)
    let fm := (if (trunc != 0#64) then
      let fm := (fm - 1#64)
      fm
    else
      fm)
    fm)
  let fs := (if (fm == 0#64) then
    let fs := 0#64
    fs
  else
    fs)
  (fpack64 fs fm (fe - 2#64) trunc)

theorem ne_zero_of_ge (m : BitVec 64) (h : 2^52 ≤ m.toNat) : (m == 0#64) = false := by
  rw [Bool.eq_false_iff]; intro hh
  have := congrArg BitVec.toNat (eq_of_beq hh); simp at this; omega

theorem fadd64_core (f g fs fm fe gs gm ge : BitVec 64)
    (hF : funpack64 f = (fs, fm, fe, false, false)) (hG : funpack64 g = (gs, gm, ge, false, false))
    (hfm : 2^52 ≤ fm.toNat) (hgm : 2^52 ≤ gm.toNat) :
    fadd64 f g = if ((BitVec.slt fe ge) || ((fe == ge) && (BitVec.ult fm gm))) then
      addCore64 gs gm ge fs fm fe else addCore64 fs fm fe gs gm ge := by
  have c1 := ne_zero_of_ge fm hfm
  have c2 := ne_zero_of_ge gm hgm
  unfold fadd64
  rw [hF, hG]
  simp only [c1, c2, Bool.or_self, Bool.false_eq_true, if_false, Bool.and_self, Bool.false_and]
  split <;> rfl


/-! ### arithmetic helpers -/

theorem div_mod_of_eq (n x y P : Nat) (hy : y < P) (h : n = x * P + y) : n / P = x ∧ n % P = y := by
  subst h
  have hP : 0 < P := by omega
  constructor
  · rw [Nat.mul_comm, Nat.mul_add_div hP, Nat.div_eq_of_lt hy]; omega
  · rw [Nat.mul_comm, Nat.mul_add_mod, Nat.mod_eq_of_lt hy]

/-- `(a·P − b)` split by `P`: quotient and whether the remainder is zero -/
theorem sub_div_mod (a b P : Nat) (hP : 0 < P) (h : b ≤ a * P) :
    (a * P - b) / P = a - b / P - (if b % P ≠ 0 then 1 else 0) ∧ ((a * P - b) % P = 0 ↔ b % P = 0) := by
  have d := Nat.div_add_mod b P
  have hr : b % P < P := Nat.mod_lt _ hP
  generalize b / P = q at *
  generalize b % P = r at *
  by_cases hr0 : r = 0
  · subst hr0
    have hq : q ≤ a := by
      have : P * q ≤ a * P := by omega
      rw [Nat.mul_comm] at this
      exact Nat.le_of_mul_le_mul_right this hP
    have e : a * P - b = (a - q) * P + 0 := by
      rw [Nat.sub_mul, ← d, Nat.mul_comm P q]; omega
    obtain ⟨h1, h2⟩ := div_mod_of_eq _ _ _ _ hP e
    simp [h1, h2]
  · have hq : q < a := by
      have h3 : P * q < a * P := by omega
      rw [Nat.mul_comm] at h3
      exact Nat.lt_of_mul_lt_mul_right h3
    have e : a * P - b = (a - q - 1) * P + (P - r) := by
      have e1 : a * P = (a - q - 1) * P + (q + 1) * P := by
        rw [← Nat.add_mul]; congr 1; omega
      rw [e1, ← d, Nat.add_mul, Nat.mul_comm P q]; omega
    obtain ⟨h1, h2⟩ := div_mod_of_eq _ _ _ _ (by omega) e
    rw [h1, h2]
    simp [hr0]; omega

theorem add_div_mod (a b P : Nat) (hP : 0 < P) :
    (a * P + b) / P = a + b / P ∧ (a * P + b) % P = b % P := by
  constructor
  · rw [Nat.mul_comm, Nat.mul_add_div hP]
  · rw [Nat.mul_comm, Nat.mul_add_mod]

/-- Go's `gm & (1<<shift - 1)` for ANY shift count (a count ≥ 64 gives the mask 0 − 1 = all ones) -/
theorem toNat_and_lowmask (x : BitVec 64) (n : Nat) :
    (x &&& ((1#64 <<< n) - 1#64)).toNat = x.toNat % 2^n := by
  by_cases hn : n < 64
  · have h1 : (1#64 <<< n).toNat = 2^n := by
      rw [BitVec.toNat_shiftLeft, Nat.shiftLeft_eq]; simp
      exact Nat.pow_lt_pow_right (a := 2) (by decide) hn
    have hpos : 0 < 2^n := Nat.two_pow_pos n
    have hlt : 2^n < 2^64 := Nat.pow_lt_pow_right (a := 2) (by decide) hn
    have h2 : ((1#64 <<< n) - 1#64).toNat = 2^n - 1 := by
      rw [BitVec.toNat_sub_of_le (by simp [BitVec.le_def, h1]; omega), h1]; simp
    rw [BitVec.toNat_and, h2]
    exact Nat.and_two_pow_sub_one_eq_mod _ _
  · have h1 : (1#64 <<< n) = 0#64 := by
      apply BitVec.eq_of_toNat_eq
      rw [BitVec.toNat_shiftLeft, Nat.shiftLeft_eq]; simp
      have : 2^64 ∣ 2^n := Nat.pow_dvd_pow 2 (by omega)
      exact Nat.mod_eq_zero_of_dvd this
    have h2 : (0#64 - 1#64) = BitVec.allOnes 64 := by decide
    rw [h1, h2, BitVec.and_allOnes]
    have : x.toNat < 2^n := Nat.lt_of_lt_of_le x.isLt (Nat.pow_le_pow_right (by decide) (by omega))
    rw [Nat.mod_eq_of_lt this]


theorem toNat_shl2 (m : BitVec 64) (h : m.toNat < 2^53) : (m <<< 2).toNat = 4 * m.toNat := by
  rw [BitVec.toNat_shiftLeft, Nat.shiftLeft_eq]; simp; omega

theorem toInt_sub_two (e : BitVec 64) (h1 : -(2^40) ≤ e.toInt) (h2 : e.toInt ≤ 2^40) : (e - 2#64).toInt = e.toInt - 2 := by
  rw [BitVec.toInt_sub]; simp only [Int.bmod_def]
  have : (2#64).toInt = 2 := by decide
  rw [this]; omega

theorem toNat_sub_exp (fe ge : BitVec 64) (h1 : -(2^40) ≤ fe.toInt) (h2 : fe.toInt ≤ 2^40)
    (h3 : -(2^40) ≤ ge.toInt) (h4 : ge.toInt ≤ 2^40) (h : ge.toInt ≤ fe.toInt) :
    (fe - ge).toNat = (fe.toInt - ge.toInt).toNat := by
  have hi : (fe - ge).toInt = fe.toInt - ge.toInt := by
    rw [BitVec.toInt_sub]; simp only [Int.bmod_def]; omega
  have := toNat_of_toInt_nonneg (fe - ge) (by omega)
  omega

theorem eq_zero_iff_toNat (x : BitVec 64) : x = 0#64 ↔ x.toNat = 0 :=
  ⟨fun h => by rw [h]; rfl, fun h => BitVec.eq_of_toNat_eq (by simpa using h)⟩

/-- (f, addition) the arithmetic core of `fadd64` returns the correctly rounded exact sum / difference -/
theorem addCore64_spec (fs fm fe gs gm ge : BitVec 64)
    (hfs : fs = 0#64 ∨ fs = 9223372036854775808#64)
    (hfm1 : 2^52 ≤ fm.toNat) (hfm2 : fm.toNat < 2^53) (hgm1 : 2^52 ≤ gm.toNat) (hgm2 : gm.toNat < 2^53)
    (hfe1 : -1074 ≤ fe.toInt) (hfe2 : fe.toInt ≤ 1023) (hge1 : -1074 ≤ ge.toInt) (hge2 : ge.toInt ≤ 1023)
    (hord : ge.toInt < fe.toInt ∨ (ge.toInt = fe.toInt ∧ gm.toNat ≤ fm.toNat)) :
    addCore64 fs fm fe gs gm ge =
      if (if fs = gs then 4 * fm.toNat * 2^(fe.toInt - ge.toInt).toNat + 4 * gm.toNat
          else 4 * fm.toNat * 2^(fe.toInt - ge.toInt).toNat - 4 * gm.toNat) = 0 then 0#64
      else fs ||| BitVec.ofNat 64 (roundInt64
        (if fs = gs then 4 * fm.toNat * 2^(fe.toInt - ge.toInt).toNat + 4 * gm.toNat
          else 4 * fm.toNat * 2^(fe.toInt - ge.toInt).toNat - 4 * gm.toNat)
        (fe.toInt - 2 - ((fe.toInt - ge.toInt).toNat : Int))) := by
  have hsh : (fe - ge).toNat = (fe.toInt - ge.toInt).toNat :=
    toNat_sub_exp fe ge (by omega) (by omega) (by omega) (by omega) (by omega)
  generalize hshd : (fe.toInt - ge.toInt).toNat = sh at *
  have hP : 0 < 2^sh := Nat.two_pow_pos sh
  have hfm4 := toNat_shl2 fm hfm2
  have hgm4 := toNat_shl2 gm hgm2
  have htr : ((gm <<< 2) &&& ((1#64 <<< sh) - 1#64)).toNat = 4 * gm.toNat % 2^sh := by
    rw [toNat_and_lowmask, hgm4]
  have hgS : ((gm <<< 2) >>> sh).toNat = 4 * gm.toNat / 2^sh := by
    rw [BitVec.toNat_ushiftRight, Nat.shiftRight_eq_div_pow, hgm4]
  have hE := toInt_sub_two fe (by omega) (by omega)
  -- the shifted-down addend is at most the augend
  have hhalf : 1 ≤ sh → 4 * gm.toNat / 2^sh ≤ 4 * gm.toNat / 2 ∧ 2 ≤ 2^sh := by
    intro h1
    have : 2^sh = 2 * 2^(sh-1) := by
      rw [show sh = (sh-1)+1 by omega, Nat.pow_succ]; simp; omega
    have hp := Nat.two_pow_pos (sh-1)
    refine ⟨?_, by omega⟩
    rw [this, ← Nat.div_div_eq_div_mul]
    exact Nat.div_le_self _ _
  have hqle : 4 * gm.toNat / 2^sh ≤ 4 * fm.toNat := by
    rcases hord with h | ⟨h, hle⟩
    · have := (hhalf (by omega)).1; omega
    · have : sh = 0 := by omega
      subst this; simp; omega
  have hble : 4 * gm.toNat ≤ 4 * fm.toNat * 2^sh := by
    rcases hord with h | ⟨h, hle⟩
    · have h2 := (hhalf (by omega)).2
      have : 4 * fm.toNat * 2 ≤ 4 * fm.toNat * 2^sh := Nat.mul_le_mul_left _ h2
      omega
    · have : sh = 0 := by omega
      subst this; simp; omega
  unfold addCore64
  simp only [hsh]
  generalize hT : ((gm <<< 2) &&& ((1#64 <<< sh) - 1#64)) = T at *
  generalize hG : ((gm <<< 2) >>> sh) = G at *
  have hT0 : T = 0#64 ↔ 4 * gm.toNat % 2^sh = 0 := by rw [eq_zero_iff_toNat, htr]
  by_cases hsg : fs = gs
  · -- same signs: magnitudes add
    subst hsg
    simp only [beq_self_eq_true, if_true]
    obtain ⟨hd, hmd⟩ := add_div_mod (4 * fm.toNat) (4 * gm.toNat) (2^sh) hP
    have hM : ((fm <<< 2) + G).toNat = (4 * fm.toNat * 2^sh + 4 * gm.toNat) / 2^sh := by
      rw [BitVec.toNat_add, hfm4, hgS, hd]
      have : 4 * gm.toNat / 2^sh ≤ 4 * gm.toNat := Nat.div_le_self _ _
      exact Nat.mod_eq_of_lt (by omega)
    have hMge : 2^54 ≤ ((fm <<< 2) + G).toNat := by rw [hM, hd]; omega
    have hM0 : (((fm <<< 2) + G) == 0#64) = false := by
      rw [Bool.eq_false_iff]; intro hh
      have := congrArg BitVec.toNat (eq_of_beq hh); simp at this; omega
    have hN0 : ¬ (4 * fm.toNat * 2^sh + 4 * gm.toNat = 0) := by omega
    simp only [hM0, Bool.false_eq_true, if_false, hN0]
    rw [fpack64_roundInt fs ((fm <<< 2) + G) (fe - 2#64) T _ sh hfs (by omega) (by omega) hM
      (by rw [hT0, hmd]) (by omega) (Or.inr (by omega)), hE]
  · -- opposite signs: magnitudes subtract (never negative thanks to the swap)
    have hbeq : (fs == gs) = false := by simp [hsg]
    simp only [hbeq, hsg, Bool.false_eq_true, if_false]
    obtain ⟨hd, hmd⟩ := sub_div_mod (4 * fm.toNat) (4 * gm.toNat) (2^sh) hP hble
    -- the mantissa after the conditional decrement
    have hsub1 : ((fm <<< 2) - G).toNat = 4 * fm.toNat - 4 * gm.toNat / 2^sh := by
      rw [BitVec.toNat_sub_of_le (by rw [BitVec.le_def, hfm4, hgS]; exact hqle), hfm4, hgS]
    have hstrict : 4 * gm.toNat % 2^sh ≠ 0 → 4 * gm.toNat / 2^sh < 4 * fm.toNat := by
      intro hr
      rcases hord with h | ⟨h, hle⟩
      · have h2 := (hhalf (by omega)).1
        omega
      · have : sh = 0 := by omega
        subst this
        exact absurd (Nat.mod_one _) hr
    by_cases hr : 4 * gm.toNat % 2^sh = 0
    · have hT' : T = 0#64 := hT0.2 hr
      have hbne : (T != 0#64) = false := by simp [hT']
      simp only [hbne, Bool.false_eq_true, if_false]
      have hM : ((fm <<< 2) - G).toNat = (4 * fm.toNat * 2^sh - 4 * gm.toNat) / 2^sh := by
        rw [hsub1, hd]; simp [hr]
      by_cases hz : ((fm <<< 2) - G).toNat = 0
      · have hM0 : (((fm <<< 2) - G) == 0#64) = true := by
          rw [beq_iff_eq, eq_zero_iff_toNat]; exact hz
        have hN0 : 4 * fm.toNat * 2^sh - 4 * gm.toNat = 0 := by
          have := Nat.div_add_mod (4 * fm.toNat * 2^sh - 4 * gm.toNat) (2^sh)
          rw [← hM, hz, hmd.2 hr] at this; omega
        simp only [hM0, if_true, hN0]
        have : ((fm <<< 2) - G) = 0#64 := (eq_zero_iff_toNat _).2 hz
        rw [this]; unfold fpack64; simp
      · have hM0 : (((fm <<< 2) - G) == 0#64) = false := by
          rw [Bool.eq_false_iff]; intro hh; exact hz ((eq_zero_iff_toNat _).1 (eq_of_beq hh))
        have hN0 : ¬ (4 * fm.toNat * 2^sh - 4 * gm.toNat = 0) := by
          intro h0
          have : ((fm <<< 2) - G).toNat = 0 := by rw [hM, h0]; simp
          exact hz this
        simp only [hM0, Bool.false_eq_true, if_false, hN0]
        rw [fpack64_roundInt fs ((fm <<< 2) - G) (fe - 2#64) T _ sh hfs (by omega) (by omega) hM
          (by rw [hT0]; exact ⟨fun h => hmd.2 h, fun h => hmd.1 h⟩) hz (Or.inl (hmd.2 hr)), hE]
    · have hT' : T ≠ 0#64 := fun h => hr (hT0.1 h)
      have hbne : (T != 0#64) = true := by simp [hT']
      simp only [hbne, if_true]
      have hlt := hstrict hr
      have hM : ((fm <<< 2) - G - 1#64).toNat = (4 * fm.toNat * 2^sh - 4 * gm.toNat) / 2^sh := by
        rw [BitVec.toNat_sub_of_le (by rw [BitVec.le_def, hsub1]; simp; omega), hsub1, hd]
        simp [hr]
      -- sticky ⇒ shift ≥ 3 ⇒ the difference still has ≥ 54 bits
      have hsh3 : 3 ≤ sh := by
        rcases Nat.lt_or_ge sh 3 with h | h
        · exfalso
          have : sh = 0 ∨ sh = 1 ∨ sh = 2 := by omega
          rcases this with rfl | rfl | rfl <;> simp at hr <;> omega
        · exact h
      have hq53 : 4 * gm.toNat / 2^sh < 2^52 := by
        have h8 : 2^sh = 8 * 2^(sh-3) := by
          rw [show sh = (sh-3)+3 by omega, Nat.pow_add]; simp; omega
        rw [h8, ← Nat.div_div_eq_div_mul]
        exact Nat.lt_of_le_of_lt (Nat.div_le_self _ _) (by omega)
      have hMge : 2^53 ≤ ((fm <<< 2) - G - 1#64).toNat := by
        rw [hM, hd]; simp [hr]; omega
      have hM0 : (((fm <<< 2) - G - 1#64) == 0#64) = false := by
        rw [Bool.eq_false_iff]; intro hh
        have := congrArg BitVec.toNat (eq_of_beq hh); simp at this; omega
      have hN0 : ¬ (4 * fm.toNat * 2^sh - 4 * gm.toNat = 0) := by
        intro h0
        have : ((fm <<< 2) - G - 1#64).toNat = 0 := by rw [hM, h0]; simp
        omega
      simp only [hM0, Bool.false_eq_true, if_false, hN0]
      rw [fpack64_roundInt fs ((fm <<< 2) - G - 1#64) (fe - 2#64) T _ sh hfs (by omega) (by omega) hM
        (by rw [hT0]; exact ⟨fun h => hmd.2 h, fun h => hmd.1 h⟩) (by omega) (Or.inr hMge), hE]


theorem addCore64_eq_sumSpec (fs fm fe gs gm ge : BitVec 64)
    (hfs : fs = 0#64 ∨ fs = 9223372036854775808#64)
    (hfm1 : 2^52 ≤ fm.toNat) (hfm2 : fm.toNat < 2^53) (hgm1 : 2^52 ≤ gm.toNat) (hgm2 : gm.toNat < 2^53)
    (hfe1 : -1074 ≤ fe.toInt) (hfe2 : fe.toInt ≤ 1023) (hge1 : -1074 ≤ ge.toInt) (hge2 : ge.toInt ≤ 1023)
    (hord : ge.toInt < fe.toInt ∨ (ge.toInt = fe.toInt ∧ gm.toNat ≤ fm.toNat)) :
    addCore64 fs fm fe gs gm ge = sumSpec64 fs fm fe gs gm ge := by
  rw [addCore64_spec fs fm fe gs gm ge hfs hfm1 hfm2 hgm1 hgm2 hfe1 hfe2 hge1 hge2 hord]
  unfold sumSpec64
  have : fe.toInt - 2 - (((fe.toInt - ge.toInt).toNat : Nat) : Int) = ge.toInt - 2 := by omega
  simp only [this]

theorem sign64_cases' (f : BitVec 64) :
    f &&& 9223372036854775808#64 = 0#64 ∨ f &&& 9223372036854775808#64 = 9223372036854775808#64 := by
  rcases sign64_cases f with ⟨_, h⟩ | ⟨_, h⟩
  · exact Or.inr h
  · exact Or.inl h

/-- (f, addition) on finite non-zero operands `fadd64` is the correctly rounded exact sum -/
theorem fadd64_rounded (f g : BitVec 64) (hf : isFinite64 f) (hfz : ¬ isZero64 f)
    (hg : isFinite64 g) (hgz : ¬ isZero64 g) :
    fadd64 f g =
      if ((BitVec.slt (funpack64 f).2.2.1 (funpack64 g).2.2.1) ||
          (((funpack64 f).2.2.1 == (funpack64 g).2.2.1) && (BitVec.ult (funpack64 f).2.1 (funpack64 g).2.1))) then
        sumSpec64 (funpack64 g).1 (funpack64 g).2.1 (funpack64 g).2.2.1 (funpack64 f).1 (funpack64 f).2.1 (funpack64 f).2.2.1
      else
        sumSpec64 (funpack64 f).1 (funpack64 f).2.1 (funpack64 f).2.2.1 (funpack64 g).1 (funpack64 g).2.1 (funpack64 g).2.2.1 := by
  obtain ⟨fm, fe, hF, hfm1, hfm2, hfe1, hfe2⟩ := funpack64_fin f hf hfz
  obtain ⟨gm, ge, hG, hgm1, hgm2, hge1, hge2⟩ := funpack64_fin g hg hgz
  rw [fadd64_core f g _ fm fe _ gm ge hF hG hfm1 hgm1, hF, hG]
  simp only []
  have hslt : BitVec.slt fe ge = decide (fe.toInt < ge.toInt) := by simp [BitVec.slt]
  have hult : BitVec.ult fm gm = decide (fm.toNat < gm.toNat) := by simp [BitVec.ult]
  have heq : (fe == ge) = decide (fe.toInt = ge.toInt) := by
    by_cases h : fe = ge
    · simp [h]
    · have : fe.toInt ≠ ge.toInt := fun h' => h (BitVec.eq_of_toInt_eq h')
      simp [h, this]
  rw [hslt, hult, heq]
  by_cases hc : (decide (fe.toInt < ge.toInt) || (decide (fe.toInt = ge.toInt) && decide (fm.toNat < gm.toNat))) = true
  · rw [if_pos hc, if_pos hc]
    simp only [Bool.or_eq_true, Bool.and_eq_true, decide_eq_true_eq] at hc
    exact addCore64_eq_sumSpec _ gm ge _ fm fe (sign64_cases' g) hgm1 hgm2 hfm1 hfm2 hge1 hge2 hfe1 hfe2
      (by rcases hc with h | ⟨h1, h2⟩ <;> omega)
  · rw [if_neg hc, if_neg hc]
    simp only [Bool.or_eq_true, Bool.and_eq_true, decide_eq_true_eq, not_or, not_and] at hc
    exact addCore64_eq_sumSpec _ fm fe _ gm ge (sign64_cases' f) hfm1 hfm2 hgm1 hgm2 hfe1 hfe2 hge1 hge2
      (by omega)

end GnoVerif.C05.L
