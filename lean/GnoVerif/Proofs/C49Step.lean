import GnoVerif.Proofs.C49Remove
import GnoVerif.Proofs.C49Push
/-! C49: every legal atomic step preserves the invariant; runs. -/
namespace GnoVerif.C49
set_option linter.unusedSimpArgs false

theorem gapRem_congr {s s' : State} (hrem : ∀ j, s'.rem j = s.rem j) {a b : Nat} (h : GapRem s a b) :
    GapRem s' a b := fun j h1 h2 => by rw [hrem]; exact h j h1 h2

theorem listOK_congr {s s' : State} (h : ListOK s) (hsize : s'.size = s.size)
    (hrem : ∀ j, s'.rem j = s.rem j) (hhead : s'.head = s.head) (htail : s'.tail = s.tail)
    (hlen : s'.len = s.len) (hclosed : s'.closed = s.closed) (hstale : s'.stale = s.stale) : ListOK s' := by
  constructor
  · intro x hx; rw [hhead] at hx; rw [hsize, hrem]
    obtain ⟨a, b, c⟩ := h.head_some x hx
    exact ⟨a, b, fun j hj => by rw [hrem]; exact c j hj⟩
  · intro hx j hj; rw [hhead] at hx; rw [hsize] at hj; rw [hrem]; exact h.head_none hx j hj
  · intro x hx; rw [htail] at hx; rw [hsize, hrem]
    obtain ⟨a, b, c⟩ := h.tail_some x hx
    exact ⟨a, b, gapRem_congr hrem c⟩
  · intro hx j hj; rw [htail] at hx; rw [hsize] at hj; rw [hrem]; exact h.tail_none hx j hj
  · rw [hlen, h.len_eq]; unfold liveCount; rw [hsize, cnt_congr (r' := s.rem) (fun j _ => hrem j)]
  · rw [hclosed, hhead]; exact h.closed_eq
  · rw [hstale]; exact h.stale_ok

theorem elemOK_congr {s s' : State} {i : Nat} (h : ElemOK s i) (hsize : s'.size = s.size)
    (hrem : ∀ j, s'.rem j = s.rem j) (hel : s'.elems i = s.elems i) : ElemOK s' i := by
  constructor
  · intro n hn; rw [hel] at hn; rw [hsize, hrem, hrem]
    obtain ⟨a, b, c, d⟩ := h.next_some n hn
    exact ⟨a, b, gapRem_congr hrem c, d⟩
  · intro hn hr; rw [hel] at hn; rw [hrem] at hr; rw [hsize]; exact gapRem_congr hrem (h.next_none hn hr)
  · intro p hp; rw [hel] at hp; rw [hrem, hrem]
    obtain ⟨a, b, c⟩ := h.prev_some p hp
    exact ⟨a, gapRem_congr hrem b, c⟩
  · intro hp hr j hj; rw [hel] at hp; rw [hrem] at hr; rw [hrem]; exact h.prev_none hp hr j hj
  · rw [hel, hrem]; exact h.nclosed
  · rw [hel, hrem]; exact h.pclosed
  · rw [hel]; exact h.nstale
  · rw [hel]; exact h.pstale

/-! ### traverser-only steps -/

theorem inv_setTrav {s : State} (hI : Inv s) (t : Nat) (tr : Trav)
    (hT : TravOK (s.setTrav t tr) t) : Inv (s.setTrav t tr) := by
  refine ⟨hI.alive, listOK_congr hI.list rfl (fun _ => rfl) rfl rfl rfl rfl rfl,
    fun i hi => elemOK_congr (hI.elem i hi) rfl (fun _ => rfl) rfl, fun t' => ?_⟩
  by_cases h : t' = t
  · subst h; exact hT
  · have hh : (s.setTrav t tr).travs t' = s.travs t' := by simp [State.setTrav, h]
    have hO := hI.trav t'
    constructor
    · rw [hh]; exact hO.sorted
    · rw [hh]; exact hO.bound
    · rw [hh]; exact hO.cover
    · rw [hh]; exact hO.st_at
    · rw [hh]; exact hO.st_wn
    · rw [hh]; exact hO.st_wf
    · rw [hh]; exact hO.st_idle

/-- building `TravOK` for the updated traverser from facts about the new record. -/
theorem travOK_mk {s : State} (t : Nat) (tr : Trav)
    (sorted : tr.log.Pairwise (· < ·))
    (bound : ∀ x ∈ tr.log, x < s.size)
    (cover : ∀ x ∈ tr.log, ∀ j, j < x → j ∈ tr.log ∨ s.rem j = true)
    (st_at : ∀ e, tr.st = .at e → e ∈ tr.log ∧ ∀ x ∈ tr.log, x ≤ e)
    (st_wn : ∀ e w, tr.st = .wantNext e w → e ∈ tr.log ∧ (∀ x ∈ tr.log, x ≤ e) ∧
      ∀ g, w = some g → g ≤ (s.elems e).nextStale.length)
    (st_wf : ∀ w, tr.st = .wantFront w → tr.log = [] ∧ ∀ g, w = some g → g ≤ s.stale.length)
    (st_idle : tr.st = .idle → tr.log = []) : TravOK (s.setTrav t tr) t := by
  have hh : (s.setTrav t tr).travs t = tr := by simp [State.setTrav]
  constructor
  · rw [hh]; exact sorted
  · rw [hh]; exact bound
  · rw [hh]; exact cover
  · rw [hh]; exact st_at
  · rw [hh]; exact st_wn
  · rw [hh]; exact st_wf
  · rw [hh]; exact st_idle

/-- a traverser that only changes its control state, keeping its log. -/
theorem travOK_restate {s : State} (hI : Inv s) (t : Nat) (st : TState)
    (st_at : ∀ e, st = .at e → e ∈ (s.travs t).log ∧ ∀ x ∈ (s.travs t).log, x ≤ e)
    (st_wn : ∀ e w, st = .wantNext e w → e ∈ (s.travs t).log ∧ (∀ x ∈ (s.travs t).log, x ≤ e) ∧
      ∀ g, w = some g → g ≤ (s.elems e).nextStale.length)
    (st_wf : ∀ w, st = .wantFront w → (s.travs t).log = [] ∧ ∀ g, w = some g → g ≤ s.stale.length)
    (st_idle : st = .idle → (s.travs t).log = []) :
    Inv (s.setTrav t { s.travs t with st := st }) :=
  inv_setTrav hI t _ (travOK_mk t _ (hI.trav t).sorted (hI.trav t).bound (hI.trav t).cover
    st_at st_wn st_wf st_idle)

/-- the traverser at cursor `e` (the maximum of its log) is handed `e`'s successor `n`. -/
theorem inv_advance {s : State} (hI : Inv s) (t e n : Nat)
    (hmem : e ∈ (s.travs t).log) (hmax : ∀ x ∈ (s.travs t).log, x ≤ e)
    (hn : (s.elems e).next = some n) :
    Inv (s.setTrav t { st := .at n, log := (s.travs t).log ++ [n] }) := by
  have hT := hI.trav t
  have hes := hT.bound e hmem
  obtain ⟨hen, hns, hg, _⟩ := (hI.elem e hes).next_some n hn
  refine inv_setTrav hI t _ (travOK_mk t _ ?_ ?_ ?_ ?_ ?_ ?_ ?_)
  · refine List.pairwise_append.2 ⟨hT.sorted, List.pairwise_singleton _ _, ?_⟩
    intro a ha b hb
    have := hmax a ha
    simp at hb; omega
  · intro x hx
    rcases List.mem_append.1 hx with h | h
    · exact hT.bound x h
    · simp at h; omega
  · intro x hx j hj
    rcases List.mem_append.1 hx with h | h
    · rcases hT.cover x h j hj with h' | h'
      · exact Or.inl (List.mem_append_left _ h')
      · exact Or.inr h'
    · simp at h; subst h
      rcases Nat.lt_trichotomy j e with hje | hje | hje
      · rcases hT.cover e hmem j hje with h' | h'
        · exact Or.inl (List.mem_append_left _ h')
        · exact Or.inr h'
      · subst hje; exact Or.inl (List.mem_append_left _ hmem)
      · exact Or.inr (hg j hje hj)
  · intro e' he'
    cases he'
    refine ⟨by simp, ?_⟩
    intro x hx
    rcases List.mem_append.1 hx with h | h
    · have := hmax x h; omega
    · simp at h; omega
  · intro e' w he'; cases he'
  · intro w he'; cases he'
  · intro he'; cases he'

theorem inv_tstep {s : State} (hI : Inv s) (t : Nat) : Inv (tstep s t) := by
  have hT := hI.trav t
  rcases hst : (s.travs t).st with _ | w | e | ⟨e, w⟩ | _
  · simp only [tstep, hst]; exact hI
  · rcases w with _ | g
    · -- wantFront none
      rcases hh : s.head with _ | h
      · simp only [tstep, hst, hh]
        refine travOK_restate hI t _ ?_ ?_ ?_ ?_
        · intro e he; cases he
        · intro e w he; cases he
        · intro w he; cases he
          exact ⟨(hT.st_wf _ hst).1, fun g hg => by cases hg; exact Nat.le_refl _⟩
        · intro he; cases he
      · simp only [tstep, hst, hh]
        obtain ⟨hhs, hhl, hall⟩ := hI.list.head_some h hh
        refine inv_setTrav hI t _ (travOK_mk t _ (List.pairwise_singleton _ _) ?_ ?_ ?_ ?_ ?_ ?_)
        · intro x hx; simp at hx; omega
        · intro x hx j hj; simp at hx; subst hx; exact Or.inr (hall j hj)
        · intro e he; cases he; simp
        · intro e w he; cases he
        · intro w he; cases he
        · intro he; cases he
    · -- wantFront (some g)
      simp only [tstep, hst]
      split
      · refine travOK_restate hI t _ ?_ ?_ ?_ ?_
        · intro e he; cases he
        · intro e w he; cases he
        · intro w he; cases he
          exact ⟨(hT.st_wf _ hst).1, fun g hg => by cases hg⟩
        · intro he; cases he
      · exact hI
  · simp only [tstep, hst]; exact hI
  · obtain ⟨hmem, hmax, _⟩ := hT.st_wn e w hst
    rcases w with _ | g
    · -- wantNext e none
      simp only [tstep, hst]
      split
      · rcases hn : (s.elems e).next with _ | n
        · simp only []
          refine travOK_restate hI t _ ?_ ?_ ?_ ?_
          · intro e he; cases he
          · intro e w he; cases he
          · intro w he; cases he
          · intro he; cases he
        · simp only []
          exact inv_advance hI t e n hmem hmax hn
      · refine travOK_restate hI t _ ?_ ?_ ?_ ?_
        · intro e he; cases he
        · intro e' w he; cases he
          exact ⟨hmem, hmax, fun g hg => by cases hg; exact Nat.le_refl _⟩
        · intro w he; cases he
        · intro he; cases he
    · -- wantNext e (some g)
      simp only [tstep, hst]
      split
      · refine travOK_restate hI t _ ?_ ?_ ?_ ?_
        · intro e he; cases he
        · intro e' w he; cases he
          exact ⟨hmem, hmax, fun g hg => by cases hg⟩
        · intro w he; cases he
        · intro he; cases he
      · exact hI
  · simp only [tstep, hst]; exact hI

/-! ### DetachPrev / DetachNext -/

theorem inv_setElem_removed {s : State} (hI : Inv s) {e : Nat} (he : e < s.size) (hr : s.rem e = true)
    (el : Elem) (hrem : el.removed = true)
    (hnS : el.nextStale = (s.elems e).nextStale) (hpS : el.prevStale = (s.elems e).prevStale)
    (hnc : el.nextClosed = true) (hpc : el.prevClosed = true)
    (hnext : el.next = (s.elems e).next ∨ el.next = none)
    (hprev : el.prev = (s.elems e).prev ∨ el.prev = none) : Inv (s.setElem e el) := by
  have hremeq : ∀ j, (s.setElem e el).rem j = s.rem j := by
    intro j
    by_cases hj : j = e
    · subst hj; simp [State.rem, hrem]; exact hr
    · simp [State.rem, State.setElem, hj]
  refine ⟨hI.alive, listOK_congr hI.list rfl hremeq rfl rfl rfl rfl rfl, fun i hi => ?_, fun t => ?_⟩
  · by_cases hie : i = e
    · subst hie
      have hE := hI.elem i he
      have hel : (s.setElem i el).elems i = el := by simp
      have hri : (s.setElem i el).rem i = true := by rw [hremeq]; exact hr
      constructor
      · intro n hn; rw [hel] at hn
        rcases hnext with h | h
        · rw [h] at hn
          obtain ⟨a, b, c, d⟩ := hE.next_some n hn
          exact ⟨a, b, gapRem_congr hremeq c, fun h' => by rw [hri] at h'; cases h'⟩
        · rw [h] at hn; cases hn
      · intro _ h'; rw [hri] at h'; cases h'
      · intro p hp; rw [hel] at hp
        rcases hprev with h | h
        · rw [h] at hp
          obtain ⟨a, b, c⟩ := hE.prev_some p hp
          exact ⟨a, gapRem_congr hremeq b, fun h' => by rw [hri] at h'; cases h'⟩
        · rw [h] at hp; cases hp
      · intro _ h'; rw [hri] at h'; cases h'
      · rw [hel, hri, hnc]; simp
      · rw [hel, hri, hpc]; simp
      · rw [hel, hnS]; exact hE.nstale
      · rw [hel, hpS]; exact hE.pstale
    · exact elemOK_congr (hI.elem i hi) rfl hremeq (by simp [State.setElem, hie])
  · have hT := hI.trav t
    refine ⟨hT.sorted, hT.bound, ?_, hT.st_at, ?_, hT.st_wf, hT.st_idle⟩
    · intro x hx j hj
      rcases hT.cover x hx j hj with h | h
      · exact Or.inl h
      · exact Or.inr (by rw [hremeq]; exact h)
    · intro e' w hw
      obtain ⟨a, b, c⟩ := hT.st_wn e' w hw
      refine ⟨a, b, fun g hg => ?_⟩
      by_cases h : e' = e
      · subst h
        have : ((s.setElem e' el).elems e').nextStale = (s.elems e').nextStale := by simp [hnS]
        rw [this]; exact c g hg
      · have : ((s.setElem e el).elems e') = s.elems e' := by simp [State.setElem, h]
        rw [this]; exact c g hg

theorem removed_closed {s : State} (hI : Inv s) {e : Nat} (he : e < s.size) (hr : s.rem e = true) :
    (s.elems e).nextClosed = true ∧ (s.elems e).prevClosed = true := by
  have hE := hI.elem e he
  constructor
  · rw [hE.nclosed, hr]; simp
  · rw [hE.pclosed, hr]; simp

/-! ### one step -/

/-- `PushBack` on a state satisfying the invariant: returns the new id, effect as specified. -/
theorem stepR_push {s : State} (hI : Inv s) :
    ∃ s', stepR s .push = (s', .pushed s.size) ∧ PushSpec s s' := by
  obtain ⟨s', h1, h2⟩ := pushCore_spec hI
  exact ⟨s', by simp only [stepR, hI.alive, h1]; rfl, h2⟩

/-- `Remove(e)` of an element in the list: none of the three guards fires, no wait-group panic,
    effect as specified. -/
theorem stepR_remove_legal {s : State} (hI : Inv s) {e : Nat} (he' : e < s.size) (hr : s.rem e = false) :
    ∃ s', stepR s (.remove e) = (s', .ok) ∧ RemoveSpec s e s' := by
  have hal := hI.alive
  have he : ¬ e ≥ s.size := by omega
  obtain ⟨s', h1, h2⟩ := removeCore_spec hI he' hr
  have hE := hI.elem e he'
  have hh : s.head.isNone = false := by
    rcases hh : s.head with _ | h
    · have := hI.list.head_none hh e he'; rw [hr] at this; cases this
    · rfl
  have ht : s.tail.isNone = false := by
    rcases hh : s.tail with _ | h
    · have := hI.list.tail_none hh e he'; rw [hr] at this; cases this
    · rfl
  have hg1 : ((s.elems e).prev.isNone && s.head != some e) = false := by
    rcases hp : (s.elems e).prev with _ | p
    · have hall := hE.prev_none hp hr
      rcases hhd : s.head with _ | h
      · rw [hhd] at hh; cases hh
      · obtain ⟨hhs, hhl, hall'⟩ := hI.list.head_some h hhd
        have : h = e := by
          rcases Nat.lt_trichotomy h e with h' | h' | h'
          · have := hall h h'; rw [hhl] at this; cases this
          · exact h'
          · have := hall' e h'; rw [hr] at this; cases this
        simp [this]
    · simp
  have hg2 : ((s.elems e).next.isNone && s.tail != some e) = false := by
    have := eq_tail_of_next_none hI he' hr
    rcases hn : (s.elems e).next with _ | n
    · simp [this hn]
    · simp
  exact ⟨s', by simp [stepR, hal, he, hh, ht, hg1, hg2, h1], h2⟩

theorem inv_step {s : State} (hI : Inv s) (op : Op) (hleg : Legal s op) : Inv (step s op) := by
  have hal := hI.alive
  cases op with
  | push =>
    obtain ⟨s', h1, h2⟩ := stepR_push hI
    simp only [step, h1]
    exact inv_push hI h2
  | remove e =>
    by_cases he : e ≥ s.size
    · simp [step, stepR, hal, he]; exact hI
    · have he' : e < s.size := by omega
      have hr : s.rem e = false := hleg he'
      obtain ⟨s', h1, h2⟩ := stepR_remove_legal hI he' hr
      simp only [step, h1]
      exact inv_remove hI he' hr h2
  | detachPrev e =>
    simp only [step, stepR, hal]
    by_cases he : e ≥ s.size
    · simp [he]; exact hI
    · have he' : e < s.size := by omega
      by_cases hr : s.rem e = true
      · have hr' : (s.elems e).removed = true := hr
        obtain ⟨h1, h2⟩ := removed_closed hI he' hr
        simp [he, hr']
        exact inv_setElem_removed hI he' hr _ rfl rfl rfl h1 h2 (Or.inl rfl) (Or.inr rfl)
      · have hr' : (s.elems e).removed = false := by
          simpa [State.rem] using hr
        simp [he, hr']; exact hI
  | detachNext e =>
    simp only [step, stepR, hal]
    by_cases he : e ≥ s.size
    · simp [he]; exact hI
    · have he' : e < s.size := by omega
      by_cases hr : s.rem e = true
      · have hr' : (s.elems e).removed = true := hr
        obtain ⟨h1, h2⟩ := removed_closed hI he' hr
        simp [he, hr']
        exact inv_setElem_removed hI he' hr _ rfl rfl rfl h1 h2 (Or.inr rfl) (Or.inl rfl)
      · have hr' : (s.elems e).removed = false := by
          simpa [State.rem] using hr
        simp [he, hr']; exact hI
  | tfront t =>
    simp only [step, stepR, hal]
    by_cases hp : pending (s.travs t).st = true
    · simp [hp]; exact hI
    · simp [hp]
      refine inv_setTrav hI t _ (travOK_mk t _ List.Pairwise.nil ?_ ?_ ?_ ?_ ?_ ?_)
      · intro x hx; cases hx
      · intro x hx; cases hx
      · intro e he; cases he
      · intro e w he; cases he
      · intro w he; cases he; exact ⟨rfl, fun g hg => by cases hg⟩
      · intro _; rfl
  | tnext t =>
    have hT := hI.trav t
    simp only [step, stepR, hal]
    rcases hst : (s.travs t).st with _ | w | e | ⟨e, w⟩ | _
    all_goals simp [pending]
    all_goals try exact hI
    obtain ⟨hmem, hmax⟩ := hT.st_at e hst
    refine travOK_restate hI t _ ?_ ?_ ?_ ?_
    · intro e he; cases he
    · intro e' w he; cases he
      exact ⟨hmem, hmax, fun g hg => by cases hg⟩
    · intro w he; cases he
    · intro he; cases he
  | tnextNow t =>
    have hT := hI.trav t
    simp only [step, stepR, hal]
    rcases hst : (s.travs t).st with _ | w | e | ⟨e, w⟩ | _
    all_goals simp [pending]
    all_goals try exact hI
    obtain ⟨hmem, hmax⟩ := hT.st_at e hst
    rcases hn : (s.elems e).next with _ | n
    · simp; exact hI
    · simp; exact inv_advance hI t e n hmem hmax hn
  | tstep t =>
    simp only [step, stepR, hal]
    exact inv_tstep hI t

theorem inv_init : Inv init := by
  refine ⟨rfl, ⟨?_, ?_, ?_, ?_, rfl, rfl, ?_⟩, fun i hi => absurd hi (Nat.not_lt_zero i), fun t => ?_⟩
  · intro h hh; cases hh
  · intro _ j hj; exact absurd hj (Nat.not_lt_zero j)
  · intro h hh; cases hh
  · intro _ j hj; exact absurd hj (Nat.not_lt_zero j)
  · intro b hb; cases hb
  · refine ⟨List.Pairwise.nil, ?_, ?_, ?_, ?_, ?_, fun _ => rfl⟩
    · intro x hx; cases hx
    · intro x hx; cases hx
    · intro e he; cases he
    · intro e w he; cases he
    · intro w he; cases he

theorem inv_run {s : State} (hI : Inv s) (ops : List Op) (hleg : LegalRun s ops) : Inv (run s ops) := by
  induction ops generalizing s with
  | nil => exact hI
  | cons op ops ih => exact ih (inv_step hI op hleg.1) hleg.2

end GnoVerif.C49
