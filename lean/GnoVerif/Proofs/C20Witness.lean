import GnoVerif.Proofs.C20Val
/-! Concrete environments and witnesses for the findings of property C20
(the same inputs as corpus/C20/*.ops, run there against the real code). -/
namespace GnoVerif.C20

/-- "tm.BlockID", "tm.PartSetHeader", "tm.Proposal", "std.MemPackage", "std.MemFile" -/
def nBlockID : Bytes := [116, 109, 46, 66, 108, 111, 99, 107, 73, 68]
def nPartSetHeader : Bytes := [116, 109, 46, 80, 97, 114, 116, 83, 101, 116, 72, 101, 97, 100, 101, 114]
def nProposal : Bytes := [116, 109, 46, 80, 114, 111, 112, 111, 115, 97, 108]
def nMemPackage : Bytes := [115, 116, 100, 46, 77, 101, 109, 80, 97, 99, 107, 97, 103, 101]
def nMemFile : Bytes := [115, 116, 100, 46, 77, 101, 109, 70, 105, 108, 101]
/-- the interface id of `interface{}` -/
def iAny : Bytes := [97, 110, 121]

def fld (num : Nat) (td : TD) : FieldD := ⟨num, false, false, td⟩

/-- the descriptors the harness derives from amino's TypeInfo for these types
(corpus/C20/01-epoch-in-empty-struct.ops, 02-dec-padded-len.ops). -/
def envW : Env := [
  ⟨nMemFile, [iAny], .struct [fld 1 .str, fld 2 .str] []⟩,
  ⟨nMemPackage, [iAny], .struct [fld 1 .str, fld 2 .str, fld 3 (.list true false (.ref nMemFile)),
      fld 4 (.iface iAny), fld 5 (.iface iAny)] []⟩,
  ⟨nBlockID, [iAny], .struct [fld 1 .bytes, fld 2 (.ref nPartSetHeader)] []⟩,
  ⟨nPartSetHeader, [iAny], .struct [fld 1 (.svar 64), fld 2 .bytes] []⟩,
  ⟨nProposal, [iAny], .struct [fld 1 (.uvar 8), fld 2 (.svar 64), fld 3 (.svar 64), fld 4 (.svar 64),
      fld 5 (.ref nBlockID), fld 6 .time, fld 7 .bytes] []⟩]

def vBlockID0 : Val := .struct [.x [], .struct [.i 0, .x []]]

/-- `bft.Proposal{Timestamp: t}` with everything else zero. -/
def vProposalAt (s ns : Int) : Val := .struct [.u 0, .i 0, .i 0, .i 0, vBlockID0, .t s ns, .x []]

/-- `std.MemPackage{Type: bft.Proposal{Timestamp: t}}`. -/
def vMemPackageAt (s ns : Int) : Val :=
  .struct [.x [], .x [], .list [], .any nProposal (vProposalAt s ns), .nil]

/-- bytes `220e0a0c2f746d2e50726f706f73616c` -/
def bzEpoch : Bytes := [0x22, 0x0e, 0x0a, 0x0c, 0x2f, 0x74, 0x6d, 0x2e, 0x50, 0x72, 0x6f, 0x70, 0x6f, 0x73, 0x61, 0x6c]

/-- `2a858080000a033a0107`: field 5 (BlockID) with its length 5 padded to 4 bytes. -/
def bzPadded : Bytes := [0x2a, 0x85, 0x80, 0x80, 0x00, 0x0a, 0x03, 0x3a, 0x01, 0x07]
/-- `2a050a033a0107`: the same message with the canonical length prefix. -/
def bzCanon : Bytes := [0x2a, 0x05, 0x0a, 0x03, 0x3a, 0x01, 0x07]

/-- `Proposal{BlockID{Hash: 3a0107}, Signature: sig}` (time defaulted to 1970). -/
def vProposalSig (sig : Bytes) : Val :=
  .struct [.u 0, .i 0, .i 0, .i 0, .struct [.x [0x3a, 0x01, 0x07], .struct [.i 0, .x []]], .t 0 0, .x sig]

/-! ### a schema-less reading of a protobuf message -/

/-- top-level fields `(number, wire type, payload length)` of a protobuf message,
using the bytes the varints REALLY occupy; `none` if the bytes are not a
sequence of complete fields. -/
def wireFields : Nat → Bytes → Option (List (Nat × Nat))
  | 0, _ => none
  | k + 1, bz =>
    if bz.isEmpty then some [] else
    match decKeyRaw bz with
    | none => none
    | some (num, t, kn) =>
      match consumeAny t (bz.drop kn) with
      | none => none
      | some cn => (wireFields k (bz.drop (kn + cn))).map fun l => (num, t) :: l

def wireFieldNums (bz : Bytes) : Option (List Nat) :=
  (wireFields (bz.length + 1) bz).map fun l => l.map (·.1)

end GnoVerif.C20
