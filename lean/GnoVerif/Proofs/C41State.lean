import GnoVerif.Model.C41Chain
/-! Helper lemmas for C41 (state store). -/
namespace GnoVerif.C41

open GnoVerif.Gen.C41 (valSetCheckpointInterval)

variable {VS : Type}

/-! ### association lists -/

theorem get_set_eq {κ ν : Type} [DecidableEq κ] (l : List (κ × ν)) (k : κ) (v : ν) :
    get (set l k v) k = some v := by
  simp [get, set]

theorem get_set_ne {κ ν : Type} [DecidableEq κ] (l : List (κ × ν)) {k k' : κ} (v : ν) (h : k ≠ k') :
    get (set l k v) k' = get l k' := by
  simp [get, set, h]

/-! ### the rotation loop -/

theorem incLoop_succ_last (inc1 : VS → Except String VS) (n : Nat) (b : VS) :
    incLoop inc1 (n + 1) b =
      match incLoop inc1 n b with
      | .ok s => inc1 s
      | .error e => .error e := by
  induction n generalizing b with
  | zero =>
    simp only [incLoop]
    cases inc1 b <;> rfl
  | succ n ih =>
    rw [incLoop]
    cases h : inc1 b with
    | error e => simp [incLoop, h]
    | ok s' =>
      simp only []
      rw [ih s']
      conv => rhs; rw [incLoop, h]

theorem incLoop_step (inc1 : VS → Except String VS) {n : Nat} {b m r : VS}
    (h1 : incLoop inc1 n b = .ok m) (h2 : inc1 m = .ok r) : incLoop inc1 (n + 1) b = .ok r := by
  rw [incLoop_succ_last, h1]; exact h2

/-! ### the checkpoint arithmetic -/

theorem interval_pos : 0 < valSetCheckpointInterval := by decide

theorem tmod_nonneg_lt {j I : Int} (hj : 0 ≤ j) (hI : 0 < I) : 0 ≤ Int.tmod j I ∧ Int.tmod j I < I := by
  rw [Int.tmod_eq_emod_of_nonneg hj]
  exact ⟨Int.emod_nonneg _ (by omega), Int.emod_lt_of_pos _ hI⟩

theorem checkpoint_tmod {j I : Int} (hj : 0 ≤ j) (hI : 0 < I) : Int.tmod (j - Int.tmod j I) I = 0 := by
  rw [Int.tmod_eq_emod_of_nonneg hj]
  have h2 : j - j % I = I * (j / I) := by
    have := Int.emod_add_mul_ediv j I
    omega
  have h3 : 0 ≤ I * (j / I) := Int.mul_nonneg (by omega) (Int.ediv_nonneg hj (by omega))
  rw [h2, Int.tmod_eq_emod_of_nonneg h3, Int.mul_emod_right]

/-! ### what one `SaveState` of a chain writes -/

theorem saveState_first (db : DB VS) (s : St VS) (h1 : s.lbh + 1 = s.ih) (h2 : s.lhvc ≤ s.lbh + 2) :
    saveState db s =
      ({ vals := set (set db.vals (s.lbh + 1) ⟨s.vals, s.lbh + 1⟩) (s.lbh + 2)
            ⟨if s.lbh + 2 = s.lhvc ∨ Int.tmod (s.lbh + 2) valSetCheckpointInterval = 0 then s.nvals else none, s.lhvc⟩,
         params := set db.params (s.lbh + 1) ⟨s.params, s.lbh + 1⟩,
         state := some s }, .ok) := by
  have h5 : s.lbh + 1 + 1 = s.lbh + 2 := by omega
  have h7 : ¬ (s.lbh + 2 < s.lhvc) := by omega
  have h9 : ¬ (s.lbh + 1 < s.lbh + 1) := by omega
  unfold saveState saveValidatorsInfo saveConsensusParamsInfo
  simp only [h5, gt_iff_lt, h7, h9, h1.symm, and_false, if_false, if_true, true_or]

theorem saveState_later (db : DB VS) (s : St VS) (h1 : s.ih < s.lbh + 1) (h2 : s.lhvc ≤ s.lbh + 2) :
    saveState db s =
      ({ vals := set db.vals (s.lbh + 2)
            ⟨if s.lbh + 2 = s.lhvc ∨ Int.tmod (s.lbh + 2) valSetCheckpointInterval = 0 then s.nvals else none, s.lhvc⟩,
         params := set db.params (s.lbh + 1) ⟨if s.lhpc = s.lbh + 1 then s.params else Params.empty, s.lhpc⟩,
         state := some s }, .ok) := by
  have h5 : s.lbh + 1 + 1 = s.lbh + 2 := by omega
  have h6 : ¬ (s.lbh + 1 = s.ih) := by omega
  have h7 : ¬ (s.lbh + 2 < s.lhvc) := by omega
  have h8 : ¬ (1 < s.lbh + 1 ∧ s.lbh + 1 < s.ih) := by omega
  unfold saveState saveValidatorsInfo saveConsensusParamsInfo
  simp only [h5, gt_iff_lt, h6, h7, h8, if_false]

end GnoVerif.C41
