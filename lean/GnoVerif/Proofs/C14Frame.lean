import GnoVerif.Proofs.C14Ops
/-! Helper lemmas for C14 that hold for EVERY state (no invariant assumed): which
keeper calls never touch the supply records, and which leave the store untouched
when they fail. -/
namespace GnoVerif.C14
set_option linter.unusedSimpArgs false
set_option linter.unusedVariables false

theorem ensureAccount_supply (s : State) (a : Addr) : (ensureAccount s a).2.supply = s.supply := by
  unfold ensureAccount; split <;> rfl

theorem subAcctWrites_supply (s : State) (acc : Option Account) (a : Addr) (up : Bool) (aw : Option Coins) :
    (subAcctWrites s acc a up aw).supply = s.supply := by
  unfold subAcctWrites
  cases acc <;> cases aw <;> cases up <;> simp [ensureAccount_supply]

theorem subtractCore_supply (tier : Denom → Bool) (s : State) (acc : Option Account) (a : Addr) (amt : Coins) (up : Bool) :
    (subtractCore tier s acc a amt up).1.supply = s.supply := by
  unfold subtractCore
  split
  · rfl
  · split
    · rfl
    · split
      · rfl
      · split
        · rfl
        · simp [(writeSplits_frame _ _ _).2.1, subAcctWrites_supply]

theorem subtractCoins_supply (tier : Denom → Bool) (s : State) (a : Addr) (amt : Coins) (vest : Bool) :
    (subtractCoins tier s a amt vest).1.supply = s.supply := by
  unfold subtractCoins
  split
  · rfl
  · simp only
    split
    · rfl
    · exact subtractCore_supply ..

theorem addCoins_supply (tier : Denom → Bool) (s : State) (a : Addr) (amt : Coins) :
    (addCoins tier s a amt).1.supply = s.supply := by
  unfold addCoins
  split
  · rfl
  · split
    · rfl
    · simp only
      split
      · simp [(writeSplits_frame _ _ _).2.1, ensureAccount_supply]
      · split
        · simp [ensureAccount_supply]
        · split
          · simp [ensureAccount_supply]
          · simp [(writeSplits_frame _ _ _).2.1, ensureAccount_supply]

theorem sendCore_supply (tier : Denom → Bool) (s : State) (f t : Addr) (amt : Coins) (vest : Bool) :
    (sendCore tier s f t amt vest).1.supply = s.supply := by
  unfold sendCore
  have h1 := subtractCoins_supply tier s f amt vest
  cases hsub : subtractCoins tier s f amt vest with
  | mk s1 r1 =>
    rw [hsub] at h1
    cases r1 with
    | some e => exact h1
    | none => simp only; rw [addCoins_supply]; exact h1

theorem sendCoins_supply (tier : Denom → Bool) (s : State) (f t : Addr) (amt : Coins) :
    (sendCoins tier s f t amt).1.supply = s.supply := by
  unfold sendCoins
  split
  · rfl
  · split
    · rfl
    · exact sendCore_supply ..

theorem subInputs_supply (tier : Denom → Bool) (s : State) (ins : List (Addr × Coins)) :
    (subInputs tier s ins).1.supply = s.supply := by
  induction ins generalizing s with
  | nil => rfl
  | cons e ins ih =>
    obtain ⟨a, cs⟩ := e
    unfold subInputs
    split
    · rfl
    · have h1 := subtractCoins_supply tier s a cs true
      cases hsub : subtractCoins tier s a cs true with
      | mk s1 r1 =>
        rw [hsub] at h1
        cases r1 with
        | some e => exact h1
        | none => simp only; rw [ih]; exact h1

theorem addOutputs_supply (tier : Denom → Bool) (s : State) (outs : List (Addr × Coins)) :
    (addOutputs tier s outs).1.supply = s.supply := by
  induction outs generalizing s with
  | nil => rfl
  | cons e outs ih =>
    obtain ⟨a, cs⟩ := e
    unfold addOutputs
    have h1 := addCoins_supply tier s a cs
    cases hadd : addCoins tier s a cs with
    | mk s1 r1 =>
      rw [hadd] at h1
      cases r1 with
      | some e => exact h1
      | none => simp only; rw [ih]; exact h1

theorem inputOutput_supply (tier : Denom → Bool) (s : State) (ins outs : List (Addr × Coins)) :
    (inputOutput tier s ins outs).1.supply = s.supply := by
  unfold inputOutput
  split
  · rfl
  · have h1 := subInputs_supply tier s ins
    cases hsub : subInputs tier s ins with
    | mk s1 r1 =>
      rw [hsub] at h1
      cases r1 with
      | some e => exact h1
      | none => simp only; rw [addOutputs_supply]; exact h1

/-- every raw keeper step other than mint / burn — successful, failed or failed
half-way — leaves the supply records exactly as they were, from ANY state. -/
theorem rawStep_supply (tier : Denom → Bool) (s : State) (op : Op) (hmb : op.isMintBurn = false) :
    (rawStep tier s op).1.supply = s.supply := by
  cases op with
  | send f t amt => exact sendCoins_supply ..
  | sendU f t amt => exact sendCore_supply ..
  | fee a c fees =>
    simp only [rawStep, deductFees]
    split
    · rfl
    · split
      · rfl
      · split
        · rfl
        · exact sendCore_supply ..
  | multi ins outs => exact inputOutput_supply ..
  | mint a amt => simp [Op.isMintBurn] at hmb
  | burn a amt => simp [Op.isMintBurn] at hmb
  | vest a l =>
    simp only [rawStep, vestOp]
    split <;> rfl
  | unlock => rfl
  | restrict ds =>
    simp only [rawStep, restrictOp]
    split <;> rfl
  | whitelist a =>
    simp only [rawStep, whitelistOp]
    split
    · split <;> rfl
    · rfl

/-! ### failure leaves the store untouched -/

theorem subtractCore_fail (tier : Denom → Bool) (s s' : State) (acc : Option Account) (a : Addr) (amt : Coins)
    (up : Bool) (e : Fail) (h : subtractCore tier s acc a amt up = (s', some e)) : s' = s := by
  unfold subtractCore at h
  split at h
  · simp at h; exact h.1.symm
  · split at h
    · simp at h; exact h.1.symm
    · split at h
      · simp at h; exact h.1.symm
      · split at h
        · simp at h; exact h.1.symm
        · simp at h

/-- `SubtractCoins` / `subtractCoinsUnrestricted`: every check precedes every write. -/
theorem subtractCoins_fail (tier : Denom → Bool) (s s' : State) (a : Addr) (amt : Coins) (vest : Bool) (e : Fail)
    (h : subtractCoins tier s a amt vest = (s', some e)) : s' = s := by
  unfold subtractCoins at h
  split at h
  · simp at h; exact h.1.symm
  · simp only at h
    split at h
    · simp at h; exact h.1.symm
    · exact subtractCore_fail _ _ _ _ _ _ _ _ h

theorem coinsAdd_nil_left (b : Coins) (hv : coinsValid b = true) : coinsAdd [] b = .ok b := by
  unfold coinsAdd
  have : addUnsafe [] b = .ok (removeZero b) := by unfold addUnsafe; rfl
  rw [this, removeZero_of_valid b hv]
  simp [hv]

/-- `AddCoins`: the only write before a fallible step is the creation of a missing
account, and a freshly created account cannot make that step fail. -/
theorem addCoins_fail (tier : Denom → Bool) (s s' : State) (a : Addr) (amt : Coins) (e : Fail)
    (h : addCoins tier s a amt = (s', some e)) : s' = s := by
  unfold addCoins at h
  by_cases hv : coinsValid amt = true
  case neg => simp [hv] at h; exact h.1.symm
  simp only [hv, Bool.not_true, Bool.false_eq_true, ↓reduceIte] at h
  split at h
  · simp at h; exact h.1.symm
  · split at h
    · simp at h
    · cases hg : getAcct s a with
      | some o =>
        have he : ensureAccount s a = (o, s) := by unfold ensureAccount; rw [hg]
        rw [he] at h
        simp only at h
        split at h
        · simp at h; exact h.1.symm
        · split at h
          · simp at h; exact h.1.symm
          · simp at h
      | none =>
        exfalso
        have he : (ensureAccount s a).1.coins = [] := by unfold ensureAccount; rw [hg]; rfl
        have h1 : acctTierCoins tier (ensureAccount s a).1 = .ok [] := by
          unfold acctTierCoins; rw [he]; simp
        rw [h1] at h
        simp only at h
        rw [coinsAdd_nil_left _ (coinsValid_filter _ amt hv)] at h
        simp at h

theorem mintCoins_fail (tier : Denom → Bool) (s s' : State) (a : Addr) (amt : Coins) (e : Fail)
    (h : mintCoins tier s a amt = (s', some e)) : s' = s := by
  unfold mintCoins at h
  split at h
  · simp at h; exact h.1.symm
  · split at h
    · simp at h; exact h.1.symm
    · cases hadd : addCoins tier s a amt with
      | mk s1 r1 =>
        rw [hadd] at h
        cases r1 with
        | some e' =>
          simp at h
          rw [← h.1]; exact addCoins_fail _ _ _ _ _ _ hadd
        | none => simp at h

theorem burnCoins_fail (tier : Denom → Bool) (s s' : State) (a : Addr) (amt : Coins) (e : Fail)
    (h : burnCoins tier s a amt = (s', some e)) : s' = s := by
  unfold burnCoins at h
  split at h
  · simp at h; exact h.1.symm
  · split at h
    · simp at h; exact h.1.symm
    · cases hsub : subtractCoins tier s a amt true with
      | mk s1 r1 =>
        rw [hsub] at h
        cases r1 with
        | some e' =>
          simp at h
          rw [← h.1]; exact subtractCoins_fail _ _ _ _ _ _ _ hsub
        | none => simp at h

end GnoVerif.C14
