import GnoVerif.Proofs.C42Write
/-!
C42 helper lemmas, part 3: what one `Read` does — from the buffer, at end of input,
on a partial frame, on a frame that opens / does not open.
-/
namespace GnoVerif.C42

/-! ### frames -/

theorem mkFrame_length (ch : Bytes) (h : ch.length ≤ dataMaxSize) :
    (mkFrame ch).length = totalFrameSize := by
  simp only [mkFrame, List.length_append, leBytes_length, List.length_replicate, dataLenSize_eq, totalFrameSize_eq]
  rw [dataMaxSize_eq] at h ⊢
  omega

theorem mkFrame_take4 (ch : Bytes) : (mkFrame ch).take dataLenSize = leBytes dataLenSize ch.length := by
  simp only [mkFrame, List.append_assoc]
  exact List.take_left' (leBytes_length _ _)

theorem mkFrame_chunkLength (ch : Bytes) (h : ch.length ≤ dataMaxSize) :
    leNat ((mkFrame ch).take dataLenSize) = ch.length := by
  rw [mkFrame_take4, leNat_leBytes_of_lt]
  rw [dataMaxSize_eq] at h
  rw [dataLenSize_eq]
  omega

theorem mkFrame_chunk (ch : Bytes) :
    ((mkFrame ch).drop dataLenSize).take ch.length = ch := by
  simp only [mkFrame, List.append_assoc]
  rw [List.drop_left' (leBytes_length _ _)]
  exact List.take_left

theorem sealedAt_length (A : AEAD) (k : Bytes) (hO : A.Overhead k) (c : Nat) (f : Fr) (hf : f.WF) :
    (sealedAt A k c f).length = sealedFrameSize := by
  rw [sealedAt, hO, mkFrame_length _ hf.2]
  rfl

/-! ### windows -/

theorem windows_short (w : Bytes) (h : w.length < sealedFrameSize) : windows w = [] := by
  rw [windows]; simp [h]

theorem windows_append (s rest : Bytes) (hs : s.length = sealedFrameSize) :
    windows (s ++ rest) = s :: windows rest := by
  rw [windows]
  have : ¬ (s ++ rest).length < sealedFrameSize := by rw [List.length_append]; omega
  simp only [this, if_false]
  rw [List.take_left' hs, List.drop_left' hs]

theorem windows_take_drop (w : Bytes) (h : sealedFrameSize ≤ w.length) :
    windows w = w.take sealedFrameSize :: windows (w.drop sealedFrameSize) := by
  rw [windows]
  simp [Nat.not_lt.2 h]

/-! ### one Read -/

theorem read_buffer (A : AEAD) (sc : SC) (conn : Bytes) (size : Nat) (h : sc.recvBuffer ≠ []) :
    read A sc conn size =
      ⟨{ sc with recvBuffer := sc.recvBuffer.drop (min size sc.recvBuffer.length) }, conn,
       sc.recvBuffer.take (min size sc.recvBuffer.length), none⟩ := by
  unfold read
  simp [h]

theorem read_eof (A : AEAD) (sc : SC) (size : Nat) (h : sc.recvBuffer = []) :
    read A sc [] size = ⟨sc, [], [], some .eof⟩ := by
  unfold read
  simp [h]

theorem read_short (A : AEAD) (sc : SC) (conn : Bytes) (size : Nat) (h : sc.recvBuffer = [])
    (h0 : conn ≠ []) (h1 : conn.length < sealedFrameSize) :
    read A sc conn size = ⟨sc, [], [], some .short⟩ := by
  unfold read
  simp [h, h0, h1]

theorem read_reject (A : AEAD) (sc : SC) (conn : Bytes) (size : Nat) (h : sc.recvBuffer = [])
    (h1 : sealedFrameSize ≤ conn.length)
    (ho : A.doOpen sc.recvKey sc.recvNonce (conn.take sealedFrameSize) = none) :
    read A sc conn size = ⟨sc, conn.drop sealedFrameSize, [], some .decrypt⟩ := by
  have h0 : conn ≠ [] := by
    intro e; rw [e] at h1; simp [sealedFrameSize_eq] at h1
  unfold read
  simp [h, h0, Nat.not_lt.2 h1, ho]

theorem read_accept (A : AEAD) (sc : SC) (conn : Bytes) (size c : Nat) (ch : Bytes)
    (h : sc.recvBuffer = []) (h1 : sealedFrameSize ≤ conn.length)
    (hn : sc.recvNonce = nonceOf c) (hc : c < maxUint64) (hch : ch.length ≤ dataMaxSize)
    (ho : A.doOpen sc.recvKey sc.recvNonce (conn.take sealedFrameSize) = some (mkFrame ch)) :
    read A sc conn size =
      ⟨{ sc with recvNonce := nonceOf (c + 1), recvBuffer := ch.drop (min size ch.length) },
       conn.drop sealedFrameSize, ch.take (min size ch.length), none⟩ := by
  have h0 : conn ≠ [] := by
    intro e; rw [e] at h1; simp [sealedFrameSize_eq] at h1
  have hinc : incrNonce sc.recvNonce = some (nonceOf (c + 1)) := by rw [hn]; exact incrNonce_nonceOf c hc
  unfold read
  simp only [h, ne_eq, not_true_eq_false, if_false, h0, Nat.not_lt.2 h1, ho, hinc,
    mkFrame_chunkLength ch hch, Nat.not_lt.2 hch, mkFrame_chunk]
  congr 2
  by_cases hlt : min size ch.length < ch.length
  · simp [hlt]
  · have : ch.length ≤ min size ch.length := Nat.le_of_not_lt hlt
    simp [hlt, List.drop_eq_nil_of_le this]

end GnoVerif.C42
