import GnoVerif.Model.C25
/-! Helper lemmas for C25: `getSplitPoint` is the unique power of two `k` with `k < n ≤ 2k`. -/
namespace GnoVerif.C25

theorem getSplitPoint_spec {n : Nat} (h : 2 ≤ n) :
    ∃ e, getSplitPoint n = 2 ^ e ∧ 2 ^ e < n ∧ n ≤ 2 ^ (e + 1) := by
  have hn : n ≠ 0 := by omega
  have h1 : 2 ^ Nat.log2 n ≤ n := Nat.log2_self_le hn
  have h2 : n < 2 ^ (Nat.log2 n + 1) := Nat.lt_log2_self
  have h3 : 1 ≤ Nat.log2 n := (Nat.le_log2 hn).2 (by simpa using h)
  unfold getSplitPoint
  simp only []
  split
  · rename_i heq
    refine ⟨Nat.log2 n - 1, ?_, ?_, ?_⟩
    · have : Nat.log2 n = (Nat.log2 n - 1) + 1 := by omega
      rw [this, Nat.pow_succ]; simp
    · have : Nat.log2 n = (Nat.log2 n - 1) + 1 := by omega
      rw [this, Nat.pow_succ] at heq
      have : 0 < 2 ^ (Nat.log2 n - 1) := Nat.pow_pos (by decide)
      omega
    · have : Nat.log2 n - 1 + 1 = Nat.log2 n := by omega
      rw [this]; omega
  · exact ⟨Nat.log2 n, rfl, by omega, by omega⟩

theorem pow_unique {a b n : Nat} (ha : 2 ^ a < n) (ha' : n ≤ 2 ^ (a + 1))
    (hb : 2 ^ b < n) (hb' : n ≤ 2 ^ (b + 1)) : a = b := by
  have h1 : 2 ^ a < 2 ^ (b + 1) := by omega
  have h2 : 2 ^ b < 2 ^ (a + 1) := by omega
  have := (Nat.pow_lt_pow_iff_right (a := 2) (by decide)).1 h1
  have := (Nat.pow_lt_pow_iff_right (a := 2) (by decide)).1 h2
  omega

theorem getSplitPoint_eq {n e : Nat} (h1 : 2 ^ e < n) (h2 : n ≤ 2 ^ (e + 1)) :
    getSplitPoint n = 2 ^ e := by
  have hp : 0 < 2 ^ e := Nat.pow_pos (by decide)
  obtain ⟨e', he, ha, hb⟩ := getSplitPoint_spec (n := n) (by omega)
  rw [he, pow_unique ha hb h1 h2]

/-- `n ≤ 2·k`: the right part is never larger than the left part -/
theorem getSplitPoint_le_twice {n : Nat} (h : 2 ≤ n) : n ≤ 2 * getSplitPoint n := by
  obtain ⟨e, he, _, hb⟩ := getSplitPoint_spec h
  rw [he]; rw [Nat.pow_succ] at hb; omega

theorem getSplitPoint_two : getSplitPoint 2 = 1 := getSplitPoint_eq (e := 0) (by decide) (by decide)

/-- for `n ≥ 3` the split point is even and halves when the level is paired up -/
theorem getSplitPoint_half {n : Nat} (h : 3 ≤ n) :
    ∃ k, getSplitPoint n = 2 * k ∧ getSplitPoint ((n + 1) / 2) = k := by
  obtain ⟨e, he, ha, hb⟩ := getSplitPoint_spec (n := n) (by omega)
  cases e with
  | zero => simp at hb; omega
  | succ e =>
    refine ⟨2 ^ e, by rw [he, Nat.pow_succ]; omega, ?_⟩
    apply getSplitPoint_eq
    · rw [Nat.pow_succ] at ha; omega
    · rw [Nat.pow_succ] at hb; omega

end GnoVerif.C25
