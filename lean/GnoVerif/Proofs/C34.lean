import GnoVerif.Spec.C34
/-! Helper lemmas for C34: order facts on H/R/S, `checkHRS` characterisation,
the inductive invariant and its preservation by every step. Core Lean only. -/
namespace GnoVerif.C34
variable {σ : Type}

theorem HRS.lt_def (a b : HRS) :
    a < b ↔ (a.h < b.h ∨ (a.h = b.h ∧ (a.r < b.r ∨ (a.r = b.r ∧ a.s < b.s)))) := Iff.rfl
theorem HRS.le_def (a b : HRS) :
    a ≤ b ↔ (a.h < b.h ∨ (a.h = b.h ∧ (a.r < b.r ∨ (a.r = b.r ∧ a.s ≤ b.s)))) := Iff.rfl

theorem HRS.le_refl (a : HRS) : a ≤ a := by rw [HRS.le_def]; omega
theorem HRS.le_of_lt {a b : HRS} (h : a < b) : a ≤ b := by
  rw [HRS.lt_def] at h; rw [HRS.le_def]; omega
theorem HRS.le_of_eq {a b : HRS} (h : a = b) : a ≤ b := h ▸ HRS.le_refl a
theorem HRS.lt_of_le_of_lt {a b c : HRS} (h1 : a ≤ b) (h2 : b < c) : a < c := by
  rw [HRS.le_def] at h1; rw [HRS.lt_def] at h2 ⊢; omega
theorem HRS.lt_trans {a b c : HRS} (h1 : a < b) (h2 : b < c) : a < c :=
  HRS.lt_of_le_of_lt (HRS.le_of_lt h1) h2
theorem HRS.ne_of_lt {a b : HRS} (h : a < b) : a ≠ b := by
  intro e; subst e; rw [HRS.lt_def] at h; omega
theorem HRS.not_lt_of_le {a b : HRS} (h : a ≤ b) : ¬ b < a := by
  rw [HRS.le_def] at h; rw [HRS.lt_def]; omega

/-! ### `checkHRS` -/

theorem checkHRS_fresh {st : SignState σ} {q : HRS} (h : checkHRS st q = .fresh) : st.hrs < q := by
  unfold checkHRS at h
  rw [HRS.lt_def]
  split at h; · cases h
  split at h; · omega
  split at h; · cases h
  split at h; · omega
  split at h; · cases h
  split at h; · omega
  split at h <;> cases h

theorem checkHRS_same {st : SignState σ} {q : HRS} (h : checkHRS st q = .same) :
    q = st.hrs ∧ ∃ sb sg, st.sb = some sb ∧ st.sig = some sg := by
  unfold checkHRS at h
  split at h; · cases h
  split at h; · cases h
  split at h; · cases h
  split at h; · cases h
  split at h; · cases h
  split at h; · cases h
  split at h
  · cases h
  · cases h
  · rename_i sb sg hsb hsg
    refine ⟨?_, sb, sg, hsb, hsg⟩
    apply HRS.ext <;> omega

/-! ### The invariant -/

/-- The sign-bytes stored in a `FileState` carry its H/R/S, and the stored
signature is the signer's signature of them. -/
def WF (sign : SignBytes → σ) (st : SignState σ) : Prop :=
  ∀ sb, st.sb = some sb → sb.hrs = st.hrs ∧ st.sig = some (sign sb)

/-- What holds of the file and the log at every instant, also inside a process
that is being killed. -/
structure Core (sign : SignBytes → σ) (s : State σ) : Prop where
  wf_disk : WF sign s.disk
  persisted : Persisted s
  remembered : Remembered s
  mono : Monotone s.released
  noconf : NoConflict s.released
  valid : SigValid sign s.released

/-- Between calls, the memory of the running process IS the file content
(that is what the roll-back in `Update` re-establishes after a failed save). -/
structure Inv (sign : SignBytes → σ) (s : State σ) : Prop extends Core sign s where
  clean : s.mem = s.disk

theorem inv_init (sign : SignBytes → σ) : Inv sign (State.init : State σ) where
  wf_disk := by intro sb h; cases h
  persisted := by intro e h; cases h
  remembered := by intro e h; cases h
  mono := List.Pairwise.nil
  noconf := by intro a h; cases h
  valid := by intro e h; cases h
  clean := rfl

theorem Core.restart {sign : SignBytes → σ} {s : State σ} (h : Core sign s) : Inv sign (restart s) :=
  { wf_disk := h.wf_disk, persisted := h.persisted, remembered := h.remembered, mono := h.mono,
    noconf := h.noconf, valid := h.valid, clean := rfl }

theorem Inv.wf_mem {sign : SignBytes → σ} {s : State σ} (h : Inv sign s) : WF sign s.mem := by
  rw [h.clean]; exact h.wf_disk

theorem disk_lt_of_fresh {sign : SignBytes → σ} {s : State σ} (h : Inv sign s) {q : HRS}
    (hf : checkHRS s.mem q = .fresh) : s.disk.hrs < q := by
  rw [← h.clean]; exact checkHRS_fresh hf

/-- killed before the rename: only the dying process's memory differs. -/
theorem core_mem_only {sign : SignBytes → σ} {s : State σ} (h : Core sign s) (m : SignState σ) :
    Core sign { s with mem := m } :=
  { wf_disk := h.wf_disk, persisted := h.persisted, remembered := h.remembered, mono := h.mono,
    noconf := h.noconf, valid := h.valid }

theorem wf_fresh (sign : SignBytes → σ) (sb : SignBytes) :
    WF sign (⟨sb.hrs, some sb, some (sign sb)⟩ : SignState σ) := by
  intro sb' e; cases e; exact ⟨rfl, rfl⟩

/-- the new state reaches the file (rename done) but the process dies before the signature leaves it. -/
theorem core_persist_silent {sign : SignBytes → σ} {s : State σ} (h : Core sign s) (sb : SignBytes)
    (hlt : s.disk.hrs < sb.hrs) :
    Core sign { s with mem := ⟨sb.hrs, some sb, some (sign sb)⟩, disk := ⟨sb.hrs, some sb, some (sign sb)⟩ } := by
  have old_lt : ∀ e ∈ s.released, e.hrs < sb.hrs := fun e he => HRS.lt_of_le_of_lt (h.persisted e he) hlt
  exact {
      wf_disk := wf_fresh sign sb
      persisted := fun e he => HRS.le_of_lt (old_lt e he)
      remembered := fun e he eq => absurd eq (HRS.ne_of_lt (old_lt e he))
      mono := h.mono, noconf := h.noconf, valid := h.valid }

/-- the new state reaches the file and then the signature is handed out. -/
theorem core_persist_release {sign : SignBytes → σ} {s : State σ} (h : Core sign s) (sb : SignBytes)
    (hlt : s.disk.hrs < sb.hrs) :
    Core sign (({ s with mem := ⟨sb.hrs, some sb, some (sign sb)⟩, disk := ⟨sb.hrs, some sb, some (sign sb)⟩ } : State σ).release
                ⟨sb.hrs, sb.body, sb.ts, sign sb⟩) := by
  have old_lt : ∀ e ∈ s.released, e.hrs < sb.hrs := fun e he => HRS.lt_of_le_of_lt (h.persisted e he) hlt
  refine {
      wf_disk := wf_fresh sign sb
      persisted := ?_, remembered := ?_, mono := ?_, noconf := ?_, valid := ?_ }
  · intro e he
    simp only [State.release, List.mem_append, List.mem_singleton] at he
    rcases he with he | rfl
    · exact HRS.le_of_lt (old_lt e he)
    · exact HRS.le_refl _
  · intro e he eq
    simp only [State.release, List.mem_append, List.mem_singleton] at he
    rcases he with he | rfl
    · exact absurd eq (HRS.ne_of_lt (old_lt e he))
    · exact ⟨rfl, rfl⟩
  · unfold Monotone
    simp only [State.release]
    rw [List.pairwise_append]
    refine ⟨h.mono, List.pairwise_singleton _ _, ?_⟩
    intro a ha b hb
    simp only [List.mem_singleton] at hb
    subst hb
    exact HRS.le_of_lt (old_lt a ha)
  · intro a ha b hb eq
    simp only [State.release, List.mem_append, List.mem_singleton] at ha hb
    rcases ha with ha | rfl <;> rcases hb with hb | rfl
    · exact h.noconf a ha b hb eq
    · exact absurd eq (HRS.ne_of_lt (old_lt a ha))
    · exact absurd eq.symm (HRS.ne_of_lt (old_lt b hb))
    · exact ⟨rfl, rfl, rfl⟩
  · intro e he
    simp only [State.release, List.mem_append, List.mem_singleton] at he
    rcases he with he | rfl
    · exact h.valid e he
    · rfl

/-- the same-HRS branch: the stored message is released again, unchanged. -/
theorem core_reuse {sign : SignBytes → σ} {s : State σ} (h : Inv sign s)
    {last : SignBytes} {sg : σ} (hsb : s.mem.sb = some last) (hsg : s.mem.sig = some sg) :
    Core sign (s.release ⟨s.mem.hrs, last.body, last.ts, sg⟩) := by
  have clean := h.clean
  have hw := h.wf_mem last hsb
  have hlast : last = ⟨s.mem.hrs, last.body, last.ts⟩ := by
    cases last; simp only at hw ⊢; rw [hw.1]
  have hsg' : sg = sign last := by
    have := hw.2; rw [hsg] at this; exact Option.some.inj this
  refine { wf_disk := h.wf_disk, persisted := ?_, remembered := ?_, mono := ?_, noconf := ?_, valid := ?_ }
  · intro e he
    simp only [State.release, List.mem_append, List.mem_singleton] at he
    rcases he with he | rfl
    · exact h.persisted e he
    · exact HRS.le_of_eq (by rw [clean]; rfl)
  · intro e he eq
    simp only [State.release, List.mem_append, List.mem_singleton] at he
    rcases he with he | rfl
    · exact h.remembered e he eq
    · show s.disk.sb = some _ ∧ s.disk.sig = some _
      rw [← clean, hsb, hsg, ← hlast]; exact ⟨rfl, rfl⟩
  · unfold Monotone
    simp only [State.release]
    rw [List.pairwise_append]
    refine ⟨h.mono, List.pairwise_singleton _ _, ?_⟩
    intro a ha b hb
    simp only [List.mem_singleton] at hb
    subst hb
    show a.hrs ≤ s.mem.hrs
    rw [clean]; exact h.persisted a ha
  · have key : ∀ a ∈ s.released, a.hrs = s.mem.hrs → a.body = last.body ∧ a.ts = last.ts ∧ a.sig = sg := by
      intro a ha eq
      have := h.remembered a ha (by rw [eq, clean])
      rw [← clean, hsb, hsg] at this
      have e1 := Option.some.inj this.1
      have e2 := Option.some.inj this.2
      rw [e1]; exact ⟨rfl, rfl, e2.symm⟩
    intro a ha b hb eq
    simp only [State.release, List.mem_append, List.mem_singleton] at ha hb
    rcases ha with ha | rfl <;> rcases hb with hb | rfl
    · exact h.noconf a ha b hb eq
    · exact key a ha eq
    · have := key b hb eq.symm
      exact ⟨this.1.symm, this.2.1.symm, this.2.2.symm⟩
    · exact ⟨rfl, rfl, rfl⟩
  · intro e he
    simp only [State.release, List.mem_append, List.mem_singleton] at he
    rcases he with he | rfl
    · exact h.valid e he
    · show sg = sign ⟨s.mem.hrs, last.body, last.ts⟩
      rw [← hlast]; exact hsg'

/-! ### Every step preserves the invariant -/

theorem reuse_mem_disk (s : State σ) (sb : SignBytes) :
    (reuse s sb).1.mem = s.mem ∧ (reuse s sb).1.disk = s.disk ∧ (reuse s sb).1.failing = s.failing ∧
    (reuse s sb).2.saveFailed = false := by
  unfold reuse
  split
  · split
    · exact ⟨rfl, rfl, rfl, rfl⟩
    · split <;> exact ⟨rfl, rfl, rfl, rfl⟩
  · exact ⟨rfl, rfl, rfl, rfl⟩

theorem core_reuse_branch {sign : SignBytes → σ} {s : State σ} (h : Inv sign s)
    (sb : SignBytes) (hq : sb.hrs = s.mem.hrs) : Core sign (reuse s sb).1 := by
  unfold reuse
  split
  · rename_i last sg hsb hsg
    split
    · rename_i heq
      have := core_reuse h hsb hsg
      subst heq
      rw [← hq] at this
      exact this
    · split
      · rename_i hne hts
        have := core_reuse h hsb hsg
        unfold onlyDifferByTimestamp at hts
        have e := of_decide_eq_true hts
        have eb : last.body = sb.body := (SignBytes.mk.inj e).2.1
        rw [← hq, eb] at this
        exact this
      · exact h.toCore
  · exact h.toCore

theorem core_fresh_branch {sign : SignBytes → σ} {s : State σ} (h : Inv sign s) (p : Persist)
    (sb : SignBytes) (hlt : s.disk.hrs < sb.hrs) : Core sign (freshSign sign p s sb).1 := by
  unfold freshSign
  simp only []
  split
  · exact h.toCore
  · split
    · split
      · exact h.toCore
      · exact core_persist_release h.toCore sb hlt
    · exact core_mem_only h.toCore _
    · exact core_persist_silent h.toCore sb hlt

theorem core_signReq {sign : SignBytes → σ} {s : State σ} (h : Inv sign s) (p : Persist) (q : Req) :
    Core sign (signReq sign p s q).1 := by
  unfold signReq signReqWith
  split
  · exact h.toCore
  · split
    · exact h.toCore
    · exact h.toCore
    · rename_i hc
      exact core_reuse_branch h _ (checkHRS_same hc).1
    · rename_i hc
      exact core_fresh_branch h p _ (disk_lt_of_fresh h hc)

/-- A completed call (not killed) leaves memory equal to the file: success
persists, failure rolls back, everything else touches neither. -/
theorem freshSign_normal_clean (sign : SignBytes → σ) (s : State σ) (sb : SignBytes) (hc : s.mem = s.disk) :
    (freshSign sign .normal s sb).1.mem = (freshSign sign .normal s sb).1.disk := by
  unfold freshSign
  simp only []
  split
  · exact hc
  · split
    · exact hc
    · rfl

theorem signReq_normal_clean (sign : SignBytes → σ) (s : State σ) (q : Req) (hc : s.mem = s.disk) :
    (signReq sign .normal s q).1.mem = (signReq sign .normal s q).1.disk := by
  cases hq : q.step with
  | none => simp only [signReq, signReqWith, hq]; exact hc
  | some st =>
    cases hk : checkHRS s.mem ⟨q.h, q.r, st⟩ with
    | err e => simp only [signReq, signReqWith, hq, hk]; exact hc
    | panicNoSig => simp only [signReq, signReqWith, hq, hk]; exact hc
    | same =>
      simp only [signReq, signReqWith, hq, hk]
      rw [(reuse_mem_disk s _).1, (reuse_mem_disk s _).2.1]; exact hc
    | fresh =>
      simp only [signReq, signReqWith, hq, hk]
      exact freshSign_normal_clean sign s _ hc

theorem inv_step {sign : SignBytes → σ} {s : State σ} (h : Inv sign s) (op : Op) :
    Inv sign (step sign s op).1 := by
  cases op with
  | sign q =>
    exact { toCore := core_signReq h .normal q, clean := signReq_normal_clean sign s q h.clean }
  | crash => exact h.toCore.restart
  | failsave on => exact { toCore := { h.toCore with }, clean := h.clean }
  | cut c q =>
    simp only [step, stepWith]
    split
    · exact h
    · exact (core_signReq (sign := sign) h.toCore.restart _ q).restart

theorem inv_run {sign : SignBytes → σ} (ops : List Op) : ∀ {s : State σ}, Inv sign s →
    Inv sign (run sign s ops) := by
  induction ops with
  | nil => intro s h; exact h
  | cons op ops ih =>
    intro s h
    exact ih (inv_step h op)

/-! ### A failed save changes nothing -/

theorem freshSign_failed_unchanged (sign : SignBytes → σ) (s : State σ) (sb : SignBytes)
    (hf : (freshSign sign .normal s sb).2.saveFailed = true) : (freshSign sign .normal s sb).1 = s := by
  unfold freshSign at hf ⊢
  simp only [] at hf ⊢
  split
  · rfl
  · rename_i hv
    simp only [hv] at hf
    split
    · rfl
    · rename_i hfl
      simp only [hfl] at hf
      cases hf

theorem signReq_failed_unchanged (sign : SignBytes → σ) (s : State σ) (q : Req)
    (hf : (signReq sign .normal s q).2.saveFailed = true) : (signReq sign .normal s q).1 = s := by
  cases hq : q.step with
  | none => simp only [signReq, signReqWith, hq]
  | some st =>
    cases hk : checkHRS s.mem ⟨q.h, q.r, st⟩ with
    | err e => simp only [signReq, signReqWith, hq, hk]
    | panicNoSig => simp only [signReq, signReqWith, hq, hk]
    | same =>
      simp only [signReq, signReqWith, hq, hk] at hf
      rw [(reuse_mem_disk s _).2.2.2] at hf
      cases hf
    | fresh =>
      simp only [signReq, signReqWith, hq, hk] at hf ⊢
      exact freshSign_failed_unchanged sign s _ hf

/-! ### The log is exactly what is returned with a nil error -/

theorem signReq_logged (sign : SignBytes → σ) (p : Persist) (s : State σ) (q : Req) :
    Logged q s.released (signReq sign p s q).1.released (signReq sign p s q).2 := by
  cases hq : q.step with
  | none => simp only [signReq, signReqWith, hq]; rfl
  | some st =>
    cases hk : checkHRS s.mem ⟨q.h, q.r, st⟩ with
    | err e => simp only [signReq, signReqWith, hq, hk]; rfl
    | panicNoSig => simp only [signReq, signReqWith, hq, hk]; rfl
    | same =>
      simp only [signReq, signReqWith, hq, hk]
      unfold reuse
      split
      · split
        · exact ⟨st, hq, rfl⟩
        · split
          · exact ⟨st, hq, rfl⟩
          · rfl
      · rfl
    | fresh =>
      simp only [signReq, signReqWith, hq, hk]
      unfold freshSign
      simp only []
      split
      · rfl
      · split
        · split
          · rfl
          · exact ⟨st, hq, rfl⟩
        · rfl
        · rfl

theorem step_logged (sign : SignBytes → σ) (s : State σ) (op : Op) :
    match op with
    | .sign q => Logged q s.released (step sign s op).1.released (step sign s op).2
    | .cut _ q => s.failing = false → Logged q s.released (step sign s op).1.released (step sign s op).2
    | _ => (step sign s op).1.released = s.released := by
  cases op with
  | sign q => exact signReq_logged sign _ s q
  | crash => rfl
  | failsave on => rfl
  | cut c q =>
    intro hf
    simp only [step, stepWith, hf]
    exact signReq_logged sign _ (restart s) q

end GnoVerif.C34
