import GnoVerif.Spec.C34
/-! Helper lemmas for C34: order facts on H/R/S, `checkHRS` characterisation,
the inductive invariant and its preservation by every step. Core Lean only. -/
namespace GnoVerif.C34
variable {σ : Type}

theorem HRS.lt_def (a b : HRS) :
    a < b ↔ (a.h < b.h ∨ (a.h = b.h ∧ (a.r < b.r ∨ (a.r = b.r ∧ a.s < b.s)))) := Iff.rfl
theorem HRS.le_def (a b : HRS) :
    a ≤ b ↔ (a.h < b.h ∨ (a.h = b.h ∧ (a.r < b.r ∨ (a.r = b.r ∧ a.s ≤ b.s)))) := Iff.rfl

theorem HRS.le_refl (a : HRS) : a ≤ a := by rw [HRS.le_def]; omega
theorem HRS.le_of_lt {a b : HRS} (h : a < b) : a ≤ b := by
  rw [HRS.lt_def] at h; rw [HRS.le_def]; omega
theorem HRS.le_of_eq {a b : HRS} (h : a = b) : a ≤ b := h ▸ HRS.le_refl a
theorem HRS.lt_of_le_of_lt {a b c : HRS} (h1 : a ≤ b) (h2 : b < c) : a < c := by
  rw [HRS.le_def] at h1; rw [HRS.lt_def] at h2 ⊢; omega
theorem HRS.lt_trans {a b c : HRS} (h1 : a < b) (h2 : b < c) : a < c :=
  HRS.lt_of_le_of_lt (HRS.le_of_lt h1) h2
theorem HRS.ne_of_lt {a b : HRS} (h : a < b) : a ≠ b := by
  intro e; subst e; rw [HRS.lt_def] at h; omega
theorem HRS.not_lt_of_le {a b : HRS} (h : a ≤ b) : ¬ b < a := by
  rw [HRS.le_def] at h; rw [HRS.lt_def]; omega

/-! ### `checkHRS` -/

theorem checkHRS_fresh {st : SignState σ} {q : HRS} (h : checkHRS st q = .fresh) : st.hrs < q := by
  unfold checkHRS at h
  rw [HRS.lt_def]
  split at h; · cases h
  split at h; · omega
  split at h; · cases h
  split at h; · omega
  split at h; · cases h
  split at h; · omega
  split at h <;> cases h

theorem checkHRS_same {st : SignState σ} {q : HRS} (h : checkHRS st q = .same) :
    q = st.hrs ∧ ∃ sb sg, st.sb = some sb ∧ st.sig = some sg := by
  unfold checkHRS at h
  split at h; · cases h
  split at h; · cases h
  split at h; · cases h
  split at h; · cases h
  split at h; · cases h
  split at h; · cases h
  split at h
  · cases h
  · cases h
  · rename_i sb sg hsb hsg
    refine ⟨?_, sb, sg, hsb, hsg⟩
    apply HRS.ext <;> omega

/-! ### The invariant -/

/-- The sign-bytes stored in a `FileState` carry its H/R/S, and the stored
signature is the signer's signature of them. -/
def WF (sign : SignBytes → σ) (st : SignState σ) : Prop :=
  ∀ sb, st.sb = some sb → sb.hrs = st.hrs ∧ st.sig = some (sign sb)

structure Inv (sign : SignBytes → σ) (s : State σ) : Prop where
  wf_mem : WF sign s.mem
  wf_disk : WF sign s.disk
  ahead : s.mem = s.disk ∨ s.disk.hrs < s.mem.hrs
  persisted : Persisted s
  remembered : Remembered s
  mono : Monotone s.released
  noconf : NoConflict s.released
  valid : SigValid sign s.released

theorem inv_init (sign : SignBytes → σ) : Inv sign (State.init : State σ) where
  wf_mem := by intro sb h; cases h
  wf_disk := by intro sb h; cases h
  ahead := Or.inl rfl
  persisted := by intro e h; cases h
  remembered := by intro e h; cases h
  mono := List.Pairwise.nil
  noconf := by intro a h; cases h
  valid := by intro e h; cases h

theorem inv_restart {sign : SignBytes → σ} {s : State σ} (h : Inv sign s) : Inv sign (restart s) :=
  { h with wf_mem := h.wf_disk, ahead := Or.inl rfl }

theorem disk_lt_of_fresh {sign : SignBytes → σ} {s : State σ} (h : Inv sign s) {q : HRS}
    (hf : checkHRS s.mem q = .fresh) : s.disk.hrs < q := by
  have h1 := checkHRS_fresh hf
  rcases h.ahead with e | lt
  · rw [← e]; exact h1
  · exact HRS.lt_trans lt h1

/-- memory runs ahead (failed save, or killed before the rename): nothing else changes. -/
theorem inv_mem_ahead {sign : SignBytes → σ} {s : State σ} (h : Inv sign s) (sb : SignBytes)
    (hlt : s.disk.hrs < sb.hrs) :
    Inv sign { s with mem := ⟨sb.hrs, some sb, some (sign sb)⟩ } :=
  { h with
    wf_mem := by intro sb' e; cases e; exact ⟨rfl, rfl⟩
    ahead := Or.inr hlt }

/-- the new state reaches the file (rename done) but the process dies before the signature leaves it. -/
theorem inv_persist_silent {sign : SignBytes → σ} {s : State σ} (h : Inv sign s) (sb : SignBytes)
    (hlt : s.disk.hrs < sb.hrs) :
    Inv sign { s with mem := ⟨sb.hrs, some sb, some (sign sb)⟩, disk := ⟨sb.hrs, some sb, some (sign sb)⟩ } := by
  have old_lt : ∀ e ∈ s.released, e.hrs < sb.hrs := fun e he => HRS.lt_of_le_of_lt (h.persisted e he) hlt
  have wf : WF sign (⟨sb.hrs, some sb, some (sign sb)⟩ : SignState σ) := by
    intro sb' e; cases e; exact ⟨rfl, rfl⟩
  exact {
      wf_mem := wf, wf_disk := wf, ahead := Or.inl rfl
      persisted := fun e he => HRS.le_of_lt (old_lt e he)
      remembered := fun e he eq => absurd eq (HRS.ne_of_lt (old_lt e he))
      mono := h.mono, noconf := h.noconf, valid := h.valid }

/-- the new state reaches the file and then the signature is handed out. -/
theorem inv_persist_release {sign : SignBytes → σ} {s : State σ} (h : Inv sign s) (sb : SignBytes)
    (hlt : s.disk.hrs < sb.hrs) :
    Inv sign { s with mem := ⟨sb.hrs, some sb, some (sign sb)⟩, disk := ⟨sb.hrs, some sb, some (sign sb)⟩,
                      released := s.released ++ [⟨sb.hrs, sb.body, sb.ts, sign sb⟩] } := by
  have old_lt : ∀ e ∈ s.released, e.hrs < sb.hrs := fun e he => HRS.lt_of_le_of_lt (h.persisted e he) hlt
  have wf : WF sign (⟨sb.hrs, some sb, some (sign sb)⟩ : SignState σ) := by
    intro sb' e; cases e; exact ⟨rfl, rfl⟩
  refine {
      wf_mem := wf, wf_disk := wf, ahead := Or.inl rfl
      persisted := ?_, remembered := ?_, mono := ?_, noconf := ?_, valid := ?_ }
  · intro e he
    simp only [List.mem_append, List.mem_singleton] at he
    rcases he with he | rfl
    · exact HRS.le_of_lt (old_lt e he)
    · exact HRS.le_refl _
  · intro e he eq
    simp only [List.mem_append, List.mem_singleton] at he
    rcases he with he | rfl
    · exact absurd eq (HRS.ne_of_lt (old_lt e he))
    · exact ⟨rfl, rfl⟩
  · unfold Monotone
    rw [List.pairwise_append]
    refine ⟨h.mono, List.pairwise_singleton _ _, ?_⟩
    intro a ha b hb
    simp only [List.mem_singleton] at hb
    subst hb
    exact HRS.le_of_lt (old_lt a ha)
  · intro a ha b hb eq
    simp only [List.mem_append, List.mem_singleton] at ha hb
    rcases ha with ha | rfl <;> rcases hb with hb | rfl
    · exact h.noconf a ha b hb eq
    · exact absurd eq (HRS.ne_of_lt (old_lt a ha))
    · exact absurd eq.symm (HRS.ne_of_lt (old_lt b hb))
    · exact ⟨rfl, rfl, rfl⟩
  · intro e he
    simp only [List.mem_append, List.mem_singleton] at he
    rcases he with he | rfl
    · exact h.valid e he
    · rfl

/-- the same-HRS branch from a memory state equal to the file: the stored
message is released again, unchanged. -/
theorem inv_reuse {sign : SignBytes → σ} {s : State σ} (h : Inv sign s) (clean : s.mem = s.disk)
    {last : SignBytes} {sg : σ} (hsb : s.mem.sb = some last) (hsg : s.mem.sig = some sg) :
    Inv sign { s with released := s.released ++ [⟨s.mem.hrs, last.body, last.ts, sg⟩] } := by
  have hw := h.wf_mem last hsb
  have hlast : last = ⟨s.mem.hrs, last.body, last.ts⟩ := by
    cases last; simp only at hw ⊢; rw [hw.1]
  have hsg' : sg = sign last := by
    have := hw.2; rw [hsg] at this; exact Option.some.inj this
  refine { wf_mem := h.wf_mem, wf_disk := h.wf_disk, ahead := h.ahead
           persisted := ?_, remembered := ?_, mono := ?_, noconf := ?_, valid := ?_ }
  · intro e he
    simp only [List.mem_append, List.mem_singleton] at he
    rcases he with he | rfl
    · exact h.persisted e he
    · exact HRS.le_of_eq (by rw [clean])
  · intro e he eq
    simp only [List.mem_append, List.mem_singleton] at he
    rcases he with he | rfl
    · exact h.remembered e he eq
    · show s.disk.sb = some _ ∧ s.disk.sig = some _
      rw [← clean, hsb, hsg, ← hlast]; exact ⟨rfl, rfl⟩
  · unfold Monotone
    rw [List.pairwise_append]
    refine ⟨h.mono, List.pairwise_singleton _ _, ?_⟩
    intro a ha b hb
    simp only [List.mem_singleton] at hb
    subst hb
    show a.hrs ≤ s.mem.hrs
    rw [clean]; exact h.persisted a ha
  · have key : ∀ a ∈ s.released, a.hrs = s.mem.hrs → a.body = last.body ∧ a.ts = last.ts ∧ a.sig = sg := by
      intro a ha eq
      have := h.remembered a ha (by rw [eq, clean])
      rw [← clean, hsb, hsg] at this
      have e1 := Option.some.inj this.1
      have e2 := Option.some.inj this.2
      rw [e1]; exact ⟨rfl, rfl, e2.symm⟩
    intro a ha b hb eq
    simp only [List.mem_append, List.mem_singleton] at ha hb
    rcases ha with ha | rfl <;> rcases hb with hb | rfl
    · exact h.noconf a ha b hb eq
    · exact key a ha eq
    · have := key b hb eq.symm
      exact ⟨this.1.symm, this.2.1.symm, this.2.2.symm⟩
    · exact ⟨rfl, rfl, rfl⟩
  · intro e he
    simp only [List.mem_append, List.mem_singleton] at he
    rcases he with he | rfl
    · exact h.valid e he
    · show sg = sign ⟨s.mem.hrs, last.body, last.ts⟩
      rw [← hlast]; exact hsg'

/-! ### Every step preserves the invariant (under the guard) -/

theorem inv_reuse_branch {sign : SignBytes → σ} {s : State σ} (h : Inv sign s) (clean : s.mem = s.disk)
    (sb : SignBytes) (hq : sb.hrs = s.mem.hrs) : Inv sign (reuse s sb).1 := by
  unfold reuse
  split
  · rename_i last sg hsb hsg
    have hw := h.wf_mem last hsb
    split
    · rename_i heq
      have := inv_reuse h clean hsb hsg
      subst heq
      rw [← hq] at this
      exact this
    · split
      · rename_i hne hts
        have := inv_reuse h clean hsb hsg
        unfold onlyDifferByTimestamp at hts
        have e := of_decide_eq_true hts
        have eb : last.body = sb.body := (SignBytes.mk.inj e).2.1
        rw [← hq, eb] at this
        exact this
      · exact h
  · exact h

theorem inv_fresh_branch {sign : SignBytes → σ} {s : State σ} (h : Inv sign s) (p : Persist)
    (sb : SignBytes) (hlt : s.disk.hrs < sb.hrs) : Inv sign (freshSign sign p s sb).1 := by
  unfold freshSign
  simp only []
  split
  · exact inv_mem_ahead h sb hlt
  · split
    · split
      · exact inv_mem_ahead h sb hlt
      · exact inv_persist_release h sb hlt
    · exact inv_mem_ahead h sb hlt
    · exact inv_persist_silent h sb hlt

theorem inv_signReq {sign : SignBytes → σ} {s : State σ} (h : Inv sign s) (p : Persist) (q : Req)
    (g : CleanReuse s q) : Inv sign (signReq sign p s q).1 := by
  unfold signReq
  split
  · exact h
  · rename_i st hst
    split
    · exact h
    · exact h
    · rename_i hc
      exact inv_reuse_branch h (g st hst hc) _ (checkHRS_same hc).1
    · rename_i hc
      exact inv_fresh_branch h p _ (disk_lt_of_fresh h hc)

theorem inv_step {sign : SignBytes → σ} {s : State σ} (h : Inv sign s) (op : Op)
    (g : ∀ q, servedReq s op = some q → CleanReuse s q) : Inv sign (step sign s op).1 := by
  cases op with
  | sign q => exact inv_signReq h _ q (g q rfl)
  | crash => exact inv_restart h
  | failsave on => exact { h with }
  | cut c q =>
    simp only [step]
    split
    · exact h
    · exact inv_restart (inv_signReq (inv_restart h) _ q (fun _ _ _ => rfl))

theorem inv_run {sign : SignBytes → σ} (ops : List Op) : ∀ {s : State σ}, Inv sign s →
    NoDirtyReuse sign s ops → Inv sign (run sign s ops) := by
  induction ops with
  | nil => intro s h _; exact h
  | cons op ops ih =>
    intro s h g
    exact ih (inv_step h op g.1) g.2

/-! ### Operational conditions that imply the guard -/

theorem reuse_mem_disk (s : State σ) (sb : SignBytes) :
    (reuse s sb).1.mem = s.mem ∧ (reuse s sb).1.disk = s.disk ∧ (reuse s sb).1.failing = s.failing ∧
    (reuse s sb).2.saveFailed = false := by
  unfold reuse
  split
  · split
    · exact ⟨rfl, rfl, rfl, rfl⟩
    · split <;> exact ⟨rfl, rfl, rfl, rfl⟩
  · exact ⟨rfl, rfl, rfl, rfl⟩

theorem freshSign_normal_clean (sign : SignBytes → σ) (s : State σ) (sb : SignBytes)
    (hf : (freshSign sign .normal s sb).2.saveFailed = false) :
    (freshSign sign .normal s sb).1.mem = (freshSign sign .normal s sb).1.disk := by
  unfold freshSign at hf ⊢
  simp only [] at hf ⊢
  split at hf
  · cases hf
  · rename_i hv
    simp only [hv]
    split at hf
    · cases hf
    · rename_i hfl
      simp only [hfl]
      rfl

theorem signReq_normal_clean (sign : SignBytes → σ) (s : State σ) (q : Req) (hc : s.mem = s.disk)
    (hf : (signReq sign .normal s q).2.saveFailed = false) :
    (signReq sign .normal s q).1.mem = (signReq sign .normal s q).1.disk := by
  cases hq : q.step with
  | none => simp only [signReq, hq]; exact hc
  | some st =>
    cases hk : checkHRS s.mem ⟨q.h, q.r, st⟩ with
    | err e => simp only [signReq, hq, hk]; exact hc
    | panicNoSig => simp only [signReq, hq, hk]; exact hc
    | same =>
      simp only [signReq, hq, hk]
      rw [(reuse_mem_disk s _).1, (reuse_mem_disk s _).2.1]; exact hc
    | fresh =>
      simp only [signReq, hq, hk] at hf ⊢
      exact freshSign_normal_clean sign s _ hf

theorem step_clean (sign : SignBytes → σ) (s : State σ) (op : Op) (hc : s.mem = s.disk)
    (hf : (step sign s op).2.saveFailed = false) : (step sign s op).1.mem = (step sign s op).1.disk := by
  cases op with
  | sign q => exact signReq_normal_clean sign s q hc hf
  | crash => rfl
  | failsave on => exact hc
  | cut c q =>
    simp only [step]
    split
    · exact hc
    · rfl

theorem restartsFirst_cons {op : Op} {ops : List Op} (h : restartsFirst (op :: ops) = true) : op = .crash := by
  cases op <;> first | rfl | cases h

theorem noDirtyReuse_of_failStop' (sign : SignBytes → σ) (ops : List Op) : ∀ (s : State σ),
    (s.mem = s.disk ∨ restartsFirst ops = true) → FailStop sign s ops → NoDirtyReuse sign s ops := by
  induction ops with
  | nil => intro s _ _; trivial
  | cons op ops ih =>
    intro s hs hfs
    refine ⟨?_, ih _ ?_ hfs.2⟩
    · intro q hq st _ _
      rcases hs with hc | hr
      · exact hc
      · cases restartsFirst_cons hr; cases hq
    · rcases hs with hc | hr
      · cases hsf : (step sign s op).2.saveFailed
        · exact Or.inl (step_clean sign s op hc hsf)
        · exact Or.inr (hfs.1 hsf)
      · cases restartsFirst_cons hr; exact Or.inl rfl

theorem noDirtyReuse_of_failStop (sign : SignBytes → σ) (ops : List Op) (s : State σ)
    (hc : s.mem = s.disk) (h : FailStop sign s ops) : NoDirtyReuse sign s ops :=
  noDirtyReuse_of_failStop' sign ops s (Or.inl hc) h

theorem noDirtyReuse_prefix (sign : SignBytes → σ) (pre post : List Op) : ∀ (s : State σ),
    NoDirtyReuse sign s (pre ++ post) → NoDirtyReuse sign s pre := by
  induction pre with
  | nil => intro s _; trivial
  | cons op pre ih => intro s h; exact ⟨h.1, ih _ h.2⟩

theorem validate_wf (sign : SignBytes → σ) (q : Req) (st : Nat) (hq : q.wf = true) (hst : q.step = some st) :
    validate (⟨⟨q.h, q.r, st⟩, some ⟨⟨q.h, q.r, st⟩, q.body, q.ts⟩, some (sign ⟨⟨q.h, q.r, st⟩, q.body, q.ts⟩)⟩ : SignState σ) = true := by
  unfold Req.wf at hq
  rw [hst] at hq
  simp only [Bool.and_eq_true, decide_eq_true_eq] at hq
  unfold validate
  simp only [Bool.and_eq_true, decide_eq_true_eq]
  exact ⟨⟨⟨hq.1.1, hq.1.2⟩, hq.2.2⟩, trivial, hq.2.1⟩

theorem signReq_benign (sign : SignBytes → σ) (s : State σ) (p : Persist) (q : Req) (hq : q.wf = true)
    (hfl : s.failing = false) : (signReq sign p s q).2.saveFailed = false ∧ (signReq sign p s q).1.failing = false := by
  unfold signReq
  split
  · exact ⟨rfl, hfl⟩
  · rename_i st hst
    split
    · exact ⟨rfl, hfl⟩
    · exact ⟨rfl, hfl⟩
    · exact ⟨(reuse_mem_disk s _).2.2.2, by rw [(reuse_mem_disk s _).2.2.1]; exact hfl⟩
    · unfold freshSign
      simp only [validate_wf sign q st hq hst, hfl, Bool.not_true, Bool.false_eq_true, if_false]
      cases p <;> exact ⟨rfl, rfl⟩

theorem step_benign (sign : SignBytes → σ) (s : State σ) (op : Op) (hb : op.benign = true)
    (hfl : s.failing = false) : (step sign s op).2.saveFailed = false ∧ (step sign s op).1.failing = false := by
  cases op with
  | sign q => exact signReq_benign sign s _ q hb hfl
  | crash => exact ⟨rfl, hfl⟩
  | failsave on =>
    simp only [Op.benign, Bool.not_eq_true'] at hb
    subst hb
    exact ⟨rfl, rfl⟩
  | cut c q =>
    simp only [step, hfl]
    exact signReq_benign sign (restart s) _ q hb hfl

theorem failStop_of_benign (sign : SignBytes → σ) (ops : List Op) : ∀ (s : State σ),
    s.failing = false → (∀ op ∈ ops, op.benign = true) → FailStop sign s ops := by
  induction ops with
  | nil => intro s _ _; trivial
  | cons op ops ih =>
    intro s hfl hb
    have h1 := step_benign sign s op (hb op (List.mem_cons_self ..)) hfl
    refine ⟨?_, ih _ h1.2 (fun o ho => hb o (List.mem_cons_of_mem _ ho))⟩
    intro h; rw [h1.1] at h; cases h

/-! ### Unconditional part: what is released is always a valid signature of what is returned -/

structure InvW (sign : SignBytes → σ) (s : State σ) : Prop where
  wf_mem : WF sign s.mem
  wf_disk : WF sign s.disk
  valid : SigValid sign s.released

theorem sigValid_append {sign : SignBytes → σ} {l : List (Released σ)} (h : SigValid sign l)
    (e : Released σ) (he : e.sig = sign ⟨e.hrs, e.body, e.ts⟩) : SigValid sign (l ++ [e]) := by
  intro x hx
  simp only [List.mem_append, List.mem_singleton] at hx
  rcases hx with hx | rfl
  · exact h x hx
  · exact he

theorem wf_fresh (sign : SignBytes → σ) (sb : SignBytes) :
    WF sign (⟨sb.hrs, some sb, some (sign sb)⟩ : SignState σ) := by
  intro sb' e; cases e; exact ⟨rfl, rfl⟩

theorem invW_signReq {sign : SignBytes → σ} {s : State σ} (h : InvW sign s) (p : Persist) (q : Req) :
    InvW sign (signReq sign p s q).1 := by
  unfold signReq
  split
  · exact h
  · split
    · exact h
    · exact h
    · rename_i hc
      have hq := (checkHRS_same hc).1
      unfold reuse
      split
      · rename_i last sg hsb hsg
        have hw := h.wf_mem last hsb
        have hsg' : sg = sign last := by
          have := hw.2; rw [hsg] at this; exact Option.some.inj this
        split
        · rename_i heq
          exact ⟨h.wf_mem, h.wf_disk, sigValid_append h.valid _ (by rw [hsg', ← heq])⟩
        · split
          · rename_i hts
            unfold onlyDifferByTimestamp at hts
            have e := SignBytes.mk.inj (of_decide_eq_true hts)
            refine ⟨h.wf_mem, h.wf_disk, sigValid_append h.valid _ ?_⟩
            show sg = sign ⟨_, _, last.ts⟩
            rw [hsg']
            congr 1
            cases last
            simp only at e ⊢
            rw [e.1, e.2.1]
          · exact h
      · exact h
    · unfold freshSign
      simp only []
      split
      · exact ⟨wf_fresh sign _, h.wf_disk, h.valid⟩
      · split
        · split
          · exact ⟨wf_fresh sign _, h.wf_disk, h.valid⟩
          · exact ⟨wf_fresh sign _, wf_fresh sign _, sigValid_append h.valid _ rfl⟩
        · exact ⟨wf_fresh sign _, h.wf_disk, h.valid⟩
        · exact ⟨wf_fresh sign _, wf_fresh sign _, h.valid⟩

theorem invW_step {sign : SignBytes → σ} {s : State σ} (h : InvW sign s) (op : Op) :
    InvW sign (step sign s op).1 := by
  cases op with
  | sign q => exact invW_signReq h _ q
  | crash => exact ⟨h.wf_disk, h.wf_disk, h.valid⟩
  | failsave on => exact ⟨h.wf_mem, h.wf_disk, h.valid⟩
  | cut c q =>
    simp only [step]
    split
    · exact h
    · have := invW_signReq (s := restart s) ⟨h.wf_disk, h.wf_disk, h.valid⟩
        (match c with | .old => .killedOld | .new => .killedNew) q
      exact ⟨this.wf_disk, this.wf_disk, this.valid⟩

theorem invW_run {sign : SignBytes → σ} (ops : List Op) : ∀ {s : State σ}, InvW sign s →
    InvW sign (run sign s ops) := by
  induction ops with
  | nil => intro s h; exact h
  | cons op ops ih => intro s h; exact ih (invW_step h op)

theorem invW_init (sign : SignBytes → σ) : InvW sign (State.init : State σ) :=
  ⟨(inv_init sign).wf_mem, (inv_init sign).wf_disk, (inv_init sign).valid⟩

/-! ### The log is exactly what is returned with a nil error -/

theorem signReq_logged (sign : SignBytes → σ) (p : Persist) (s : State σ) (q : Req) :
    Logged q s.released (signReq sign p s q).1.released (signReq sign p s q).2 := by
  cases hq : q.step with
  | none => simp only [signReq, hq]; rfl
  | some st =>
    cases hk : checkHRS s.mem ⟨q.h, q.r, st⟩ with
    | err e => simp only [signReq, hq, hk]; rfl
    | panicNoSig => simp only [signReq, hq, hk]; rfl
    | same =>
      simp only [signReq, hq, hk]
      unfold reuse
      split
      · split
        · exact ⟨st, hq, rfl⟩
        · split
          · exact ⟨st, hq, rfl⟩
          · rfl
      · rfl
    | fresh =>
      simp only [signReq, hq, hk]
      unfold freshSign
      simp only []
      split
      · rfl
      · split
        · split
          · rfl
          · exact ⟨st, hq, rfl⟩
        · rfl
        · rfl

theorem step_logged (sign : SignBytes → σ) (s : State σ) (op : Op) :
    match op with
    | .sign q => Logged q s.released (step sign s op).1.released (step sign s op).2
    | .cut _ q => s.failing = false → Logged q s.released (step sign s op).1.released (step sign s op).2
    | _ => (step sign s op).1.released = s.released := by
  cases op with
  | sign q => exact signReq_logged sign _ s q
  | crash => rfl
  | failsave on => rfl
  | cut c q =>
    intro hf
    simp only [step, hf]
    exact signReq_logged sign _ (restart s) q

end GnoVerif.C34
