import GnoVerif.Proofs.C45Str
import GnoVerif.Proofs.C45Bits
import GnoVerif.Proofs.C45Chk
/-!
C45 helper lemmas, part 6: the end-to-end statements, in the form most
convenient to prove; `Props/C45.lean` restates them.
-/
namespace GnoVerif.C45

/-- what `DecodeNoLimit` demands of a prefix: non-empty, printable US-ASCII. -/
def PrintableHrp (h : Bytes) : Prop := h ≠ [] ∧ ∀ c ∈ h, InRange c

/-- a prefix that survives the round trip unchanged: printable and without upper-case letters
(the encoder lower-cases the prefix before encoding). -/
def ValidHrp (h : Bytes) : Prop := h ≠ [] ∧ ∀ c ∈ h, InRange c ∧ isUpper c = false

theorem lowerAll_eq_self (s : Bytes) (h : ∀ c ∈ s, isUpper c = false) : lowerAll s = s := by
  apply lowerAll_of_no_upper
  induction s with
  | nil => rfl
  | cons c cs ih =>
    simp only [List.any_cons, Bool.or_eq_false_iff]
    exact ⟨h c (by simp), ih (fun x hx => h x (by simp [hx]))⟩

theorem map_ofNat_toNat (d : Bytes) : (d.map UInt8.toNat).map UInt8.ofNat = d := by
  induction d with
  | nil => rfl
  | cons c cs ih => simp only [List.map_cons, ih]; simp

theorem any_ge_false (conv : List Nat) (h : ∀ v ∈ conv, v < 32) : conv.any (fun b => decide (b ≥ 32)) = false := by
  induction conv with
  | nil => rfl
  | cons v vs ih =>
    simp only [List.any_cons, Bool.or_eq_false_iff]
    refine ⟨?_, ih (fun x hx => h x (by simp [hx]))⟩
    have := h v (by simp)
    simp; omega

theorem decode_encode_lower' (hrp d : Bytes) (hv : PrintableHrp hrp) :
    ∃ s, encode hrp d = .ok s ∧ decode s = .ok (lowerAll hrp, d) := by
  obtain ⟨conv, hc1, hc2, hc3⟩ := convert_roundtrip (d.map UInt8.toNat) (by
    intro x hx
    simp only [List.mem_map] at hx
    obtain ⟨c, _, rfl⟩ := hx
    exact UInt8.toNat_lt c)
  -- the encoder's output
  have henc : encode hrp d = .ok (lowerAll hrp ++ 49 :: (conv ++ createChecksum (lowerAll hrp) conv).map charAt) := by
    unfold encode
    rw [hc1]
    simp only [encode5, any_ge_false conv hc2]
    simp
  refine ⟨_, henc, ?_⟩
  generalize hH : lowerAll hrp = H
  generalize hcs : createChecksum H conv = cs
  have hcslt : ∀ v ∈ cs, v < 32 := by rw [← hcs]; exact checksumSyms_lt _
  have hcslen : cs.length = 6 := by rw [← hcs]; rfl
  have hall : ∀ v ∈ conv ++ cs, v < 32 := by
    intro v hv'
    simp only [List.mem_append] at hv'
    rcases hv' with h | h
    · exact hc2 v h
    · exact hcslt v h
  have hHne : 1 ≤ H.length := by
    rw [← hH, lowerAll_length]
    cases hrp with
    | nil => exact absurd rfl hv.1
    | cons _ _ => simp
  have hHprop : ∀ c ∈ H, InRange c ∧ isUpper c = false := by
    intro c hc
    rw [← hH] at hc
    simp only [lowerAll, List.mem_map] at hc
    obtain ⟨x, hx, rfl⟩ := hc
    exact ⟨lower_inRange x (hv.2 x hx), lower_not_upper x⟩
  have hTprop : ∀ c ∈ (conv ++ cs).map charAt, InRange c ∧ isUpper c = false ∧ c ≠ 49 := by
    intro c hc
    simp only [List.mem_map] at hc
    obtain ⟨v, hv', rfl⟩ := hc
    have := charset_mem _ (charAt_mem v (hall v hv'))
    exact ⟨this.2.1, this.1, this.2.2⟩
  have h49 : (49 : UInt8) ∉ (conv ++ cs).map charAt := fun hm => (hTprop 49 hm).2.2 rfl
  have hsprop : ∀ c ∈ H ++ 49 :: (conv ++ cs).map charAt, InRange c ∧ isUpper c = false := by
    intro c hc
    simp only [List.mem_append, List.mem_cons] at hc
    rcases hc with h | rfl | h
    · exact hHprop c h
    · exact ⟨by decide, by decide⟩
    · exact ⟨(hTprop c h).1, (hTprop c h).2.1⟩
  have hlen : 8 ≤ (H ++ 49 :: (conv ++ cs).map charAt).length := by
    simp only [List.length_append, List.length_cons, List.length_map]
    omega
  have hd5 : decode5 (H ++ 49 :: (conv ++ cs).map charAt) = .ok (H, conv) := by
    rw [decode5_of_scan _ false hlen (scan_ok_of _ false hsprop)]
    rw [lowerAll_eq_self _ (fun c hc => (hsprop c hc).2)]
    rw [decodeLower_split H _ h49]
    rw [if_neg (by simp only [List.length_map, List.length_append]; omega)]
    rw [toBytes_map_charAt _ hall]
    simp only
    have hver : verifyChecksum H (conv ++ cs) = true := by
      unfold verifyChecksum
      rw [← hcs, polymod_createChecksum]
      simp
    rw [hver]
    simp only [if_true]
    congr 2
    apply List.take_left'
    simp only [List.length_append]; omega
  unfold decode
  rw [hd5]
  simp only
  rw [hc3]
  simp only
  rw [map_ofNat_toNat]

theorem decode_encode' (hrp d : Bytes) (hv : ValidHrp hrp) :
    ∃ s, encode hrp d = .ok s ∧ decode s = .ok (hrp, d) := by
  have h := decode_encode_lower' hrp d ⟨hv.1, fun c hc => (hv.2 c hc).1⟩
  rw [lowerAll_eq_self hrp (fun c hc => (hv.2 c hc).2)] at h
  exact h

/-! ### rejection -/

/-- the decoder returns an error (it is a total function: "no panic" is by construction). -/
def Rejected (s : Bytes) : Prop := ∃ e, decode s = .error e

theorem decode_of_decode5_error (s : Bytes) (e : Err) (h : decode5 s = .error e) : decode s = .error e := by
  unfold decode; rw [h]

theorem decode5_cases (s : Bytes) :
    (∃ e, decode5 s = .error e ∧ (e = .length ∨ e = .char ∨ e = .mixed)) ∨
    (8 ≤ s.length ∧ (∃ r, scan s false false = .ok r) ∧ decode5 s = decodeLower (lowerAll s)) := by
  by_cases hl : s.length < 8
  · left
    exact ⟨.length, by unfold decode5; rw [if_pos hl], Or.inl rfl⟩
  · cases hs : scan s false false with
    | error e =>
      left
      refine ⟨e, by unfold decode5; rw [if_neg hl, hs], ?_⟩
      rcases scan_error s false false e hs with ⟨h, _⟩ | h
      · exact Or.inr (Or.inl h)
      · exact Or.inr (Or.inr h)
    | ok r =>
      right
      exact ⟨by omega, ⟨r, rfl⟩, decode5_of_scan s r (by omega) hs⟩

theorem rejected_of_decodeLower_error (s : Bytes) (h : ∀ r, scan s false false = .ok r → 8 ≤ s.length →
    ∃ e, decodeLower (lowerAll s) = .error e) : Rejected s := by
  rcases decode5_cases s with ⟨e, he, _⟩ | ⟨hl, ⟨r, hr⟩, heq⟩
  · exact ⟨e, decode_of_decode5_error s e he⟩
  · obtain ⟨e, he⟩ := h r hr hl
    exact ⟨e, decode_of_decode5_error s e (by rw [heq, he])⟩

theorem reject_short (s : Bytes) (h : s.length < 8) : decode s = .error .length := by
  apply decode_of_decode5_error
  unfold decode5; rw [if_pos h]

theorem reject_out_of_range (s : Bytes) (h : ∃ c ∈ s, ¬ InRange c) : Rejected s := by
  apply rejected_of_decodeLower_error
  intro r hr _
  obtain ⟨c, hc, hn⟩ := h
  exact absurd ((scan_ok s false false r (by simp) hr).1 c hc) hn

theorem reject_mixed_case (s : Bytes) (hlo : ∃ c ∈ s, isLower c = true) (hup : ∃ c ∈ s, isUpper c = true) :
    Rejected s := by
  apply rejected_of_decodeLower_error
  intro r hr _
  exfalso
  apply (scan_ok s false false r (by simp) hr).2.2
  simp only [Bool.false_or, List.any_eq_true]
  exact ⟨hlo, hup⟩

/-- with every byte printable and at least 8 of them, mixed case is reported as such. -/
theorem reject_mixed_case_class (s : Bytes) (hl : 8 ≤ s.length) (hr : ∀ c ∈ s, InRange c)
    (hlo : ∃ c ∈ s, isLower c = true) (hup : ∃ c ∈ s, isUpper c = true) :
    decode s = .error .mixed := by
  apply decode_of_decode5_error
  unfold decode5
  rw [if_neg (by omega)]
  cases hs : scan s false false with
  | ok r =>
    exfalso
    apply (scan_ok s false false r (by simp) hs).2.2
    simp only [Bool.false_or, List.any_eq_true]
    exact ⟨hlo, hup⟩
  | error e =>
    rcases scan_error s false false e hs with ⟨_, c, hc, hn⟩ | h
    · exact absurd (hr c hc) hn
    · rw [h]

theorem lower_49 : lower 49 = 49 := by decide

theorem lowerAll_split (h b : Bytes) : lowerAll (h ++ 49 :: b) = lowerAll h ++ 49 :: lowerAll b := by
  rw [lowerAll_append, lowerAll_cons, lower_49]

theorem reject_no_separator (s : Bytes) (h : (49 : UInt8) ∉ s) : Rejected s := by
  apply rejected_of_decodeLower_error
  intro _ _ _
  refine ⟨.sep, ?_⟩
  unfold decodeLower
  rw [lastIdx_none 49 _ (not_mem_lowerAll_49 s h)]

/-- the last `'1'` is the first byte (empty prefix) or fewer than six bytes follow it. -/
theorem reject_bad_separator (h b : Bytes) (hb : (49 : UInt8) ∉ b) (hbad : h = [] ∨ b.length < 6) :
    Rejected (h ++ 49 :: b) := by
  apply rejected_of_decodeLower_error
  intro _ _ _
  refine ⟨.sep, ?_⟩
  rw [lowerAll_split, decodeLower_split _ _ (not_mem_lowerAll_49 b hb), if_pos]
  rw [lowerAll_length, lowerAll_length]
  rcases hbad with rfl | hbad
  · left; simp
  · right; exact hbad

/-- a byte after the last `'1'` whose lower-case form is not one of the 32 data characters. -/
theorem reject_non_charset (h b : Bytes) (hb : (49 : UInt8) ∉ b) (hc : ∃ c ∈ b, lower c ∉ charset) :
    Rejected (h ++ 49 :: b) := by
  apply rejected_of_decodeLower_error
  intro _ _ _
  rw [lowerAll_split, decodeLower_split _ _ (not_mem_lowerAll_49 b hb)]
  split
  · exact ⟨_, rfl⟩
  · have : toBytes (lowerAll b) = .error .charset := by
      apply toBytes_not_charset
      obtain ⟨c, hc1, hc2⟩ := hc
      exact ⟨lower c, by simp only [lowerAll, List.mem_map]; exact ⟨c, hc1, rfl⟩, hc2⟩
    rw [this]
    exact ⟨_, rfl⟩

/-- the data characters decode to `vs`, and the checksum state over (lower-cased prefix, `vs`)
is neither of the two constants the decoder accepts. -/
theorem reject_bad_checksum (h b : Bytes) (vs : List Nat) (hb : (49 : UInt8) ∉ b)
    (hvs : toBytes (lowerAll b) = .ok vs)
    (h0 : polymod (lowerAll h) vs ≠ const0) (hM : polymod (lowerAll h) vs ≠ constM) :
    Rejected (h ++ 49 :: b) := by
  apply rejected_of_decodeLower_error
  intro _ _ _
  rw [lowerAll_split, decodeLower_split _ _ (not_mem_lowerAll_49 b hb)]
  split
  · exact ⟨_, rfl⟩
  · rw [hvs]
    simp only
    have : verifyChecksum (lowerAll h) vs = false := by
      unfold verifyChecksum
      simp [h0, hM]
    rw [this]
    exact ⟨_, rfl⟩

end GnoVerif.C45
