import GnoVerif.Proofs.C45Str
import GnoVerif.Proofs.C45Bits
import GnoVerif.Proofs.C45Chk
/-!
C45 helper lemmas, part 6: the end-to-end statements, in the form most
convenient to prove; `Props/C45.lean` restates them.
-/
namespace GnoVerif.C45

/-- what `DecodeNoLimit` demands of a prefix: non-empty, printable US-ASCII. -/
def PrintableHrp (h : Bytes) : Prop := h ≠ [] ∧ ∀ c ∈ h, InRange c

/-- a prefix that survives the round trip unchanged: printable and without upper-case letters
(the encoder lower-cases the prefix before encoding). -/
def ValidHrp (h : Bytes) : Prop := h ≠ [] ∧ ∀ c ∈ h, InRange c ∧ isUpper c = false

theorem lowerAll_eq_self (s : Bytes) (h : ∀ c ∈ s, isUpper c = false) : lowerAll s = s := by
  apply lowerAll_of_no_upper
  induction s with
  | nil => rfl
  | cons c cs ih =>
    simp only [List.any_cons, Bool.or_eq_false_iff]
    exact ⟨h c (by simp), ih (fun x hx => h x (by simp [hx]))⟩

theorem map_ofNat_toNat (d : Bytes) : (d.map UInt8.toNat).map UInt8.ofNat = d := by
  induction d with
  | nil => rfl
  | cons c cs ih => simp only [List.map_cons, ih]; simp

theorem any_ge_false (conv : List Nat) (h : ∀ v ∈ conv, v < 32) : conv.any (fun b => decide (b ≥ 32)) = false := by
  induction conv with
  | nil => rfl
  | cons v vs ih =>
    simp only [List.any_cons, Bool.or_eq_false_iff]
    refine ⟨?_, ih (fun x hx => h x (by simp [hx]))⟩
    have := h v (by simp)
    simp; omega

theorem decode_encode_lower (hrp d : Bytes) (hv : PrintableHrp hrp) :
    ∃ s, encode hrp d = .ok s ∧ decode s = .ok (lowerAll hrp, d) := by
  obtain ⟨conv, hc1, hc2, hc3⟩ := convert_roundtrip (d.map UInt8.toNat) (by
    intro x hx
    simp only [List.mem_map] at hx
    obtain ⟨c, _, rfl⟩ := hx
    exact UInt8.toNat_lt c)
  -- the encoder's output
  have henc : encode hrp d = .ok (lowerAll hrp ++ 49 :: (conv ++ createChecksum (lowerAll hrp) conv).map charAt) := by
    unfold encode
    rw [hc1]
    simp only [encode5, any_ge_false conv hc2]
    simp
  refine ⟨_, henc, ?_⟩
  generalize hH : lowerAll hrp = H
  generalize hcs : createChecksum H conv = cs
  have hcslt : ∀ v ∈ cs, v < 32 := by rw [← hcs]; exact checksumSyms_lt _
  have hcslen : cs.length = 6 := by rw [← hcs]; rfl
  have hall : ∀ v ∈ conv ++ cs, v < 32 := by
    intro v hv'
    simp only [List.mem_append] at hv'
    rcases hv' with h | h
    · exact hc2 v h
    · exact hcslt v h
  have hHne : 1 ≤ H.length := by
    rw [← hH, lowerAll_length]
    cases hrp with
    | nil => exact absurd rfl hv.1
    | cons _ _ => simp
  have hHprop : ∀ c ∈ H, InRange c ∧ isUpper c = false := by
    intro c hc
    rw [← hH] at hc
    simp only [lowerAll, List.mem_map] at hc
    obtain ⟨x, hx, rfl⟩ := hc
    exact ⟨lower_inRange x (hv.2 x hx), lower_not_upper x⟩
  have hTprop : ∀ c ∈ (conv ++ cs).map charAt, InRange c ∧ isUpper c = false ∧ c ≠ 49 := by
    intro c hc
    simp only [List.mem_map] at hc
    obtain ⟨v, hv', rfl⟩ := hc
    have := charset_mem _ (charAt_mem v (hall v hv'))
    exact ⟨this.2.1, this.1, this.2.2⟩
  have h49 : (49 : UInt8) ∉ (conv ++ cs).map charAt := fun hm => (hTprop 49 hm).2.2 rfl
  have hsprop : ∀ c ∈ H ++ 49 :: (conv ++ cs).map charAt, InRange c ∧ isUpper c = false := by
    intro c hc
    simp only [List.mem_append, List.mem_cons] at hc
    rcases hc with h | rfl | h
    · exact hHprop c h
    · exact ⟨by decide, by decide⟩
    · exact ⟨(hTprop c h).1, (hTprop c h).2.1⟩
  have hlen : 8 ≤ (H ++ 49 :: (conv ++ cs).map charAt).length := by
    simp only [List.length_append, List.length_cons, List.length_map]
    omega
  have hd5 : decode5 (H ++ 49 :: (conv ++ cs).map charAt) = .ok (H, conv) := by
    rw [decode5_of_scan _ false hlen (scan_ok_of _ false hsprop)]
    rw [lowerAll_eq_self _ (fun c hc => (hsprop c hc).2)]
    rw [decodeLower_split H _ h49]
    rw [if_neg (by simp only [List.length_map, List.length_append]; omega)]
    rw [toBytes_map_charAt _ hall]
    simp only
    have hver : verifyChecksum H (conv ++ cs) = true := by
      unfold verifyChecksum
      rw [← hcs, polymod_createChecksum]
      simp
    rw [hver]
    simp only [if_true]
    congr 2
    apply List.take_left'
    simp only [List.length_append]; omega
  unfold decode
  rw [hd5]
  simp only
  rw [hc3]
  simp only
  rw [map_ofNat_toNat]

theorem decode_encode (hrp d : Bytes) (hv : ValidHrp hrp) :
    ∃ s, encode hrp d = .ok s ∧ decode s = .ok (hrp, d) := by
  have h := decode_encode_lower hrp d ⟨hv.1, fun c hc => (hv.2 c hc).1⟩
  rw [lowerAll_eq_self hrp (fun c hc => (hv.2 c hc).2)] at h
  exact h

end GnoVerif.C45
