/-
Helper lemmas for C19 (overflow-checked integer arithmetic).

Part 1: bridge from `BitVec w` + signedness flag to `Int`
        (every value lies in `[lo, lo + 2^w)`, every wrapped operation is
        congruent mod `2^w` to the exact one).
Part 2: pure `Int` cores of the four checks, parametrised by `P = 2^w` and
        `lo ∈ {0, -P/2}`.
Part 3: normal forms of the generated `Except` programs.
-/
import GnoVerif.Gen.C19
import GnoVerif.Proofs.C19Core

namespace GnoVerif.C19
open GnoVerif.GoInt GnoVerif.Gen.C19

/-! ## Part 1: bridge -/

theorem two_pow_eq {w : Nat} (hw : 0 < w) : (2 : Int) ^ w = 2 * 2 ^ (w - 1) := by
  obtain ⟨n, rfl⟩ : ∃ n, w = n + 1 := ⟨w - 1, by omega⟩
  simp [Int.pow_succ, Int.mul_comm]

theorem two_pow_pos (w : Nat) : (0 : Int) < 2 ^ w := Int.pow_pos (by decide)

/-- `minVal` is `0` or `-2^w / 2`. -/
theorem minVal_cases {w : Nat} (hw : 0 < w) (sg : Bool) :
    minVal w sg = 0 ∨ 2 * minVal w sg = -(2 : Int) ^ w := by
  cases sg
  · left; simp [minVal]
  · right; simp only [minVal, if_true]; rw [two_pow_eq hw]; omega

/-- `inRange` as a half-open interval of length `2^w` starting at `minVal`. -/
theorem inRange_iff {w : Nat} (hw : 0 < w) (sg : Bool) (v : Int) :
    inRange w sg v ↔ minVal w sg ≤ v ∧ v < minVal w sg + 2 ^ w := by
  cases sg
  · simp only [inRange, minVal, maxVal, Bool.false_eq_true, if_false]; omega
  · simp only [inRange, minVal, maxVal, if_true]; rw [two_pow_eq hw]; omega

theorem toInt_inRange {w : Nat} (sg : Bool) (a : BitVec w) : inRange w sg (toInt sg a) := by
  cases sg
  · simp only [inRange, minVal, maxVal, toInt, Bool.false_eq_true, if_false]
    have := a.isLt
    have h2 : ((2 ^ w : Nat) : Int) = (2 : Int) ^ w := by simp
    omega
  · simp only [inRange, minVal, maxVal, toInt, if_true]
    exact ⟨by have := BitVec.le_toInt a; omega, BitVec.toInt_le⟩

theorem toInt_bounds {w : Nat} (hw : 0 < w) (sg : Bool) (a : BitVec w) :
    minVal w sg ≤ toInt sg a ∧ toInt sg a < minVal w sg + 2 ^ w :=
  (inRange_iff hw sg _).1 (toInt_inRange sg a)

theorem toInt_inj {w : Nat} (sg : Bool) {a b : BitVec w} : toInt sg a = toInt sg b ↔ a = b := by
  cases sg
  · simp only [toInt, Bool.false_eq_true, if_false]
    rw [Int.ofNat_inj]; exact BitVec.toNat_inj
  · simp only [toInt, if_true]; exact BitVec.toInt_inj

theorem toInt_lit0 {w : Nat} (sg : Bool) : toInt sg (lit w 0) = 0 := by
  cases sg <;> simp [toInt, lit]

theorem lit0_eq {w : Nat} : lit w 0 = 0#w := by simp [lit]

/-- The literal `1` denotes `1` whenever it fits the type (`w ≥ 1` unsigned, `w ≥ 2` signed). -/
theorem toInt_lit1 {w : Nat} (hw : 0 < w) (sg : Bool) (h2 : sg = true → 2 ≤ w) :
    toInt sg (lit w 1) = 1 := by
  cases sg
  · simp only [toInt, lit, Bool.false_eq_true, if_false]
    have : BitVec.ofInt w 1 = 1#w := by simp [BitVec.ofInt_ofNat]
    rw [this, BitVec.toNat_ofNat]
    have : 1 < 2 ^ w := Nat.one_lt_two_pow (by omega)
    rw [Nat.mod_eq_of_lt this]; rfl
  · simp only [toInt, lit, if_true]
    have : BitVec.ofInt w 1 = 1#w := by simp [BitVec.ofInt_ofNat]
    rw [this]; exact BitVec.toInt_one (by have := h2 rfl; omega)

theorem lt_eq_decide {w : Nat} (sg : Bool) (a b : BitVec w) :
    lt sg a b = decide (toInt sg a < toInt sg b) := by
  cases sg
  · simp only [lt, toInt, Bool.false_eq_true, if_false, BitVec.ult_eq_decide]
    simp
  · simp only [lt, toInt, if_true, BitVec.slt_eq_decide]

theorem gt_eq_decide {w : Nat} (sg : Bool) (a b : BitVec w) :
    gt sg a b = decide (toInt sg b < toInt sg a) := lt_eq_decide sg b a

theorem beq_eq_decide {w : Nat} (sg : Bool) (a b : BitVec w) :
    (a == b) = decide (toInt sg a = toInt sg b) := by
  rw [Bool.eq_iff_iff]; simp [toInt_inj]

theorem bmod_cong (x : Int) (m : Nat) : ∃ k : Int, x.bmod m = x + k * m :=
  ⟨-(Int.bdiv x m), by rw [Int.bmod_eq_self_sub_bdiv_mul]; ring⟩

theorem emod_cong (x m : Int) : ∃ k : Int, x % m = x + k * m :=
  ⟨-(x / m), by rw [Int.emod_def]; ring⟩

theorem toInt_add_cong {w : Nat} (sg : Bool) (a b : BitVec w) :
    ∃ k : Int, toInt sg (a + b) = toInt sg a + toInt sg b + k * 2 ^ w := by
  cases sg
  · simp only [toInt, Bool.false_eq_true, if_false, BitVec.toNat_add]
    obtain ⟨k, hk⟩ := emod_cong ((a.toNat : Int) + b.toNat) (2 ^ w)
    exact ⟨k, by rw [← hk]; simp⟩
  · simp only [toInt, if_true, BitVec.toInt_add]
    obtain ⟨k, hk⟩ := bmod_cong (a.toInt + b.toInt) (2 ^ w)
    exact ⟨k, by rw [hk]; simp⟩

theorem toInt_sub_cong {w : Nat} (sg : Bool) (a b : BitVec w) :
    ∃ k : Int, toInt sg (a - b) = toInt sg a - toInt sg b + k * 2 ^ w := by
  cases sg
  · simp only [toInt, Bool.false_eq_true, if_false, BitVec.toNat_sub]
    have hb := b.isLt
    have h2 : ((2 ^ w : Nat) : Int) = (2 : Int) ^ w := by simp
    rw [Int.natCast_mod, ← h2]
    generalize 2 ^ w = P at *
    obtain ⟨k, hk⟩ := emod_cong (((P - b.toNat + a.toNat : Nat) : Int)) (P : Int)
    have h3 : ((P - b.toNat + a.toNat : Nat) : Int) = (P : Int) - b.toNat + a.toNat := by omega
    refine ⟨k + 1, ?_⟩
    rw [hk, h3]; ring
  · simp only [toInt, if_true, BitVec.toInt_sub]
    obtain ⟨k, hk⟩ := bmod_cong (a.toInt - b.toInt) (2 ^ w)
    exact ⟨k, by rw [hk]; simp⟩

theorem toInt_mul_cong {w : Nat} (sg : Bool) (a b : BitVec w) :
    ∃ k : Int, toInt sg (a * b) = toInt sg a * toInt sg b + k * 2 ^ w := by
  cases sg
  · simp only [toInt, Bool.false_eq_true, if_false, BitVec.toNat_mul]
    obtain ⟨k, hk⟩ := emod_cong ((a.toNat : Int) * b.toNat) (2 ^ w)
    exact ⟨k, by rw [← hk]; simp⟩
  · simp only [toInt, if_true, BitVec.toInt_mul]
    obtain ⟨k, hk⟩ := bmod_cong (a.toInt * b.toInt) (2 ^ w)
    exact ⟨k, by rw [hk]; simp⟩

/-- The wrapped quotient Go computes for `a / b`. -/
def quot {w : Nat} (sg : Bool) (a b : BitVec w) : BitVec w := if sg then a.sdiv b else a.udiv b

/-- Go's `/` on a non-zero divisor: congruent to the truncated quotient. -/
theorem toInt_quot_cong {w : Nat} (sg : Bool) (a b : BitVec w) :
    ∃ k : Int, toInt sg (quot sg a b)
      = Int.tdiv (toInt sg a) (toInt sg b) + k * 2 ^ w := by
  unfold quot
  cases sg
  · refine ⟨0, ?_⟩
    simp only [toInt, Bool.false_eq_true, if_false]
    rw [show a.udiv b = a / b from rfl, BitVec.toNat_udiv, Int.ofNat_tdiv]; simp
  · simp only [toInt, if_true, BitVec.toInt_sdiv]
    obtain ⟨k, hk⟩ := bmod_cong (a.toInt.tdiv b.toInt) (2 ^ w)
    exact ⟨k, by rw [hk]; simp⟩

/-! ## Part 3: normal forms of the generated programs -/

theorem zero_inRange {w : Nat} (hw : 0 < w) (sg : Bool) :
    minVal w sg ≤ 0 ∧ (0 : Int) < minVal w sg + 2 ^ w := by
  have := toInt_bounds hw sg (lit w 0); rwa [toInt_lit0] at this

theorem beq_lit0 {w : Nat} (sg : Bool) (a : BitVec w) :
    (a == lit w 0) = decide (toInt sg a = 0) := by
  rw [beq_eq_decide sg, toInt_lit0]

theorem Add_fst {w : Nat} (sg : Bool) (a b : BitVec w) : (Gen.C19.Add sg a b).1 = a + b := rfl

theorem Add_snd {w : Nat} (sg : Bool) (a b : BitVec w) :
    (Gen.C19.Add sg a b).2
      = (decide (toInt sg a < toInt sg (a + b)) == decide (0 < toInt sg b)) := by
  show (gt sg (a + b) a == gt sg b (lit w 0)) = _
  rw [gt_eq_decide, gt_eq_decide, toInt_lit0]

theorem Sub_fst {w : Nat} (sg : Bool) (a b : BitVec w) : (Gen.C19.Sub sg a b).1 = a - b := rfl

theorem Sub_snd {w : Nat} (sg : Bool) (a b : BitVec w) :
    (Gen.C19.Sub sg a b).2
      = (decide (toInt sg (a - b) < toInt sg a) == decide (0 < toInt sg b)) := by
  show (lt sg (a - b) a == gt sg b (lit w 0)) = _
  rw [lt_eq_decide, gt_eq_decide, toInt_lit0]

/-- Go's `/` does not panic on a non-zero divisor. -/
theorem div_ok {w : Nat} (sg : Bool) (c b : BitVec w) (hb : (b == lit w 0) = false) :
    div sg c b = .ok (if sg then c.sdiv b else c.udiv b) := by
  unfold div
  rw [lit0_eq] at hb
  simp only [hb]
  rfl

/-- `Mul` never fails (its internal division is guarded by `b ≠ 0`), and this is its value. -/
theorem Mul_eq {w : Nat} (sg : Bool) (a b : BitVec w) :
    Gen.C19.Mul sg a b = .ok (if (a == lit w 0 || b == lit w 0) then (lit w 0, true)
      else (a * b,
        ((lt sg (a * b) (lit w 0)) == ((lt sg a (lit w 0)) != (lt sg b (lit w 0))))
          && (quot sg (a * b) b == a))) := by
  unfold Gen.C19.Mul quot
  by_cases h : (a == lit w 0 || b == lit w 0) = true
  · simp only [h, if_true]; rfl
  · have hb : (b == lit w 0) = false := by
      cases hb : (b == lit w 0) <;> simp_all
    simp only [h]
    by_cases ht : ((lt sg (a * b) (lit w 0)) == ((lt sg a (lit w 0)) != (lt sg b (lit w 0)))) = true
    · simp only [ht, if_true, div_ok sg (a * b) b hb, Bool.true_and]
      rfl
    · have ht' := Bool.eq_false_iff.2 ht
      simp only [ht', Bool.false_eq_true, if_false, Bool.false_and]
      rfl

/-- `Div` never fails (the division is guarded by `b ≠ 0`), and this is its value. -/
theorem Div_eq {w : Nat} (sg : Bool) (a b : BitVec w) :
    Gen.C19.Div sg a b = .ok (if (b == lit w 0) then (lit w 0, false)
      else (quot sg a b, ((quot sg a b != a) || (b == lit w 1)) || (a == lit w 0))) := by
  unfold Gen.C19.Div quot
  by_cases h : (b == lit w 0) = true
  · simp only [h, if_true]; rfl
  · have hb := Bool.eq_false_iff.2 h
    simp only [hb, Bool.false_eq_true, if_false, div_ok sg a b hb]
    rfl

theorem Addp_eq {w : Nat} (sg : Bool) (a b : BitVec w) :
    Gen.C19.Addp sg a b = if (Gen.C19.Add sg a b).2 = true then .ok (Gen.C19.Add sg a b).1
      else .error "addition overflow" := by
  unfold Gen.C19.Addp
  rcases Gen.C19.Add sg a b with ⟨r, ok⟩
  cases ok <;> rfl

theorem Subp_eq {w : Nat} (sg : Bool) (a b : BitVec w) :
    Gen.C19.Subp sg a b = if (Gen.C19.Sub sg a b).2 = true then .ok (Gen.C19.Sub sg a b).1
      else .error "subtraction overflow" := by
  unfold Gen.C19.Subp
  rcases Gen.C19.Sub sg a b with ⟨r, ok⟩
  cases ok <;> rfl

theorem Mulp_eq {w : Nat} (sg : Bool) (a b c : BitVec w) (ok : Bool)
    (h : Gen.C19.Mul sg a b = .ok (c, ok)) :
    Gen.C19.Mulp sg a b = if ok = true then .ok c else .error "multiplication overflow" := by
  unfold Gen.C19.Mulp
  rw [h]
  cases ok <;> rfl

theorem Divp_eq {w : Nat} (sg : Bool) (a b c : BitVec w) (ok : Bool)
    (h : Gen.C19.Div sg a b = .ok (c, ok)) :
    Gen.C19.Divp sg a b = if ok = true then .ok c else .error "division failure" := by
  unfold Gen.C19.Divp
  rw [h]
  cases ok <;> rfl

/-! ## Part 4: assembly -/

/-- value and flag of `Mul`, with the exactness statement. -/
theorem mul_main {w : Nat} (hw : 0 < w) (sg : Bool) (a b : BitVec w) :
    ∃ c ok, Gen.C19.Mul sg a b = .ok (c, ok) ∧
      (ok = true ↔ inRange w sg (toInt sg a * toInt sg b)) ∧
      (ok = true → toInt sg c = toInt sg a * toInt sg b) := by
  rw [Mul_eq]
  have hP := two_pow_pos w
  have h0 := zero_inRange hw sg
  by_cases h : (a == lit w 0 || b == lit w 0) = true
  · refine ⟨lit w 0, true, by simp only [h, if_true], ?_, ?_⟩
    all_goals
      have hz : toInt sg a * toInt sg b = 0 := by
        rw [Bool.or_eq_true, beq_lit0 sg, beq_lit0 sg, decide_eq_true_eq, decide_eq_true_eq] at h
        rcases h with h | h <;> rw [h] <;> simp
      rw [hz]
    · simp only [true_iff]; exact (inRange_iff hw sg 0).2 h0
    · intro _; exact toInt_lit0 sg
  · refine ⟨a * b, _, by simp only [h]; rfl, ?_⟩
    rw [Bool.or_eq_true, beq_lit0 sg, beq_lit0 sg, decide_eq_true_eq, decide_eq_true_eq,
      not_or] at h
    obtain ⟨k, hk⟩ := toInt_mul_cong sg a b
    obtain ⟨j, hj⟩ := toInt_quot_cong sg (a * b) b
    rw [lt_eq_decide, lt_eq_decide, lt_eq_decide, toInt_lit0, beq_eq_decide sg, inRange_iff hw]
    exact Core.mul_core k j hP (minVal_cases hw sg) (toInt_bounds hw sg a) (toInt_bounds hw sg b)
      (toInt_bounds hw sg (a * b)) (toInt_bounds hw sg _) h.1 h.2 hk hj

/-- value and flag of `Div`, with the exactness statement.  `h2`: the literal `1` of the
source must fit the type (false only for a hypothetical 1-bit signed type). -/
theorem div_main {w : Nat} (hw : 0 < w) (sg : Bool) (h2 : sg = true → 2 ≤ w) (a b : BitVec w) :
    ∃ c ok, Gen.C19.Div sg a b = .ok (c, ok) ∧
      (ok = true ↔ (b ≠ 0#w ∧ inRange w sg (Int.tdiv (toInt sg a) (toInt sg b)))) ∧
      (ok = true → toInt sg c = Int.tdiv (toInt sg a) (toInt sg b)) := by
  rw [Div_eq]
  have hP := two_pow_pos w
  by_cases h : (b == lit w 0) = true
  · refine ⟨lit w 0, false, by simp only [h, if_true], ?_, ?_⟩
    · rw [lit0_eq] at h; simp at h; simp [h]
    · intro hf; cases hf
  · refine ⟨quot sg a b, _, by simp only [h]; rfl, ?_⟩
    have hb0 : b ≠ 0#w := by rw [lit0_eq] at h; simpa using h
    rw [beq_lit0 sg, decide_eq_true_eq] at h
    obtain ⟨j, hj⟩ := toInt_quot_cong sg a b
    have hc := Core.div_core j hP (minVal_cases hw sg) (toInt_bounds hw sg a) (toInt_bounds hw sg b)
      (toInt_bounds hw sg _) h hj
    have e : ((quot sg a b != a) || (b == lit w 1) || (a == lit w 0))
        = ((!decide (toInt sg (quot sg a b) = toInt sg a)) || decide (toInt sg b = 1)
            || decide (toInt sg a = 0)) := by
      rw [bne, beq_eq_decide sg, beq_eq_decide sg b, beq_lit0 sg, toInt_lit1 hw sg h2]
    rw [e, inRange_iff hw]
    exact ⟨by rw [hc.1]; simp [hb0], hc.2⟩

/-- With a non-zero divisor the truncated quotient is unrepresentable only for `MinInt / -1`. -/
theorem tdiv_inRange_iff {w : Nat} (hw : 0 < w) (sg : Bool) (a b : BitVec w)
    (hb : toInt sg b ≠ 0) :
    inRange w sg (Int.tdiv (toInt sg a) (toInt sg b))
      ↔ ¬(sg = true ∧ toInt sg a = minVal w sg ∧ toInt sg b = -1) := by
  have hP := two_pow_pos w
  have ha := toInt_bounds hw sg a
  have hbb := toInt_bounds hw sg b
  have hnat := Int.natAbs_tdiv_le_natAbs (toInt sg a) (toInt sg b)
  rw [inRange_iff hw]
  cases sg
  · simp only [Bool.false_eq_true, false_and, not_false_eq_true, iff_true]
    simp only [minVal, Bool.false_eq_true, if_false] at *
    have h0 : 0 ≤ Int.tdiv (toInt false a) (toInt false b) :=
      Int.tdiv_nonneg (by omega) (by omega)
    omega
  · simp only [true_and]
    have hm : 2 * minVal w true = -(2 : Int) ^ w := by
      rcases minVal_cases hw true with h | h
      · simp [minVal] at h
      · exact h
    constructor
    · rintro hin ⟨hx, hy⟩
      rw [hx, hy, show (-1 : Int) = -(1 : Int) from rfl, Int.tdiv_neg, Int.tdiv_one] at hin
      omega
    · intro hne
      by_cases htop : Int.tdiv (toInt true a) (toInt true b) = -minVal w true
      · obtain ⟨h1, h2⟩ := Core.tdiv_eq_top (H := -minVal w true) (by omega)
          ⟨by omega, by omega⟩ htop
        exact absurd ⟨by omega, h2⟩ hne
      · omega

end GnoVerif.C19
