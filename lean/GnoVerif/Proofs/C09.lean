import GnoVerif.Model.C09Deposit
/-! Helper lemmas for C09 (deposit ledger and store size bookkeeping). -/
namespace GnoVerif.C09

/-! ### refund arithmetic -/

theorem refundAmount_le (d s r : Nat) (h : r ≤ s) : refundAmount d s r ≤ d := by
  unfold refundAmount
  split
  · exact Nat.le_refl _
  · rcases Nat.eq_zero_or_pos s with hs | hs
    · subst hs; simp
    · exact Nat.div_le_of_le_mul (by rw [Nat.mul_comm s d]; exact Nat.mul_le_mul_left d h)

theorem refundAmount_self (d s : Nat) : refundAmount d s s = d := by
  simp [refundAmount]

theorem refundAmount_mul_le (d s r : Nat) (h : s ≠ r) : refundAmount d s r * s ≤ d * r := by
  unfold refundAmount
  rw [if_neg h]
  exact Nat.div_mul_le_self _ _

/-! ### realm lookup / update -/

theorem find?_insertRealm_same (r : Realm) (l : List Realm) :
    (insertRealm r l).find? (·.name = r.name) = some r := by
  induction l with
  | nil => simp [insertRealm]
  | cons x xs ih =>
    unfold insertRealm
    by_cases h1 : x.name = r.name
    · simp [h1]
    · rw [if_neg h1]
      by_cases h2 : r.name < x.name
      · simp [h2]
      · rw [if_neg h2]
        simp [List.find?, h1, ih]

theorem find?_insertRealm_other (r : Realm) (l : List Realm) (n : String) (h : n ≠ r.name) :
    (insertRealm r l).find? (·.name = n) = l.find? (·.name = n) := by
  have hr : ¬ (r.name = n) := fun e => h e.symm
  induction l with
  | nil => simp [insertRealm, hr]
  | cons x xs ih =>
    unfold insertRealm
    by_cases h1 : x.name = r.name
    · have hx : ¬ (x.name = n) := fun e => h (by rw [← e, h1])
      simp [h1, List.find?, hr, hx]
    · rw [if_neg h1]
      by_cases h2 : r.name < x.name
      · simp [h2, List.find?, hr]
      · rw [if_neg h2]
        by_cases hx : x.name = n
        · simp [List.find?, hx]
        · simp [List.find?, hx, ih]

theorem find_put_same (l : Ledger) (r : Realm) : (l.put r).find r.name = r := by
  simp [Ledger.find, Ledger.put, find?_insertRealm_same]

theorem find_put_other (l : Ledger) (r : Realm) (n : String) (h : n ≠ r.name) :
    (l.put r).find n = l.find n := by
  simp [Ledger.find, Ledger.put, find?_insertRealm_other r l.realms n h]

@[simp] theorem find_setBal (l : Ledger) (c v : Nat) (n : String) : (l.setBal c v).find n = l.find n := rfl
@[simp] theorem price_put (l : Ledger) (r : Realm) : (l.put r).price = l.price := rfl
@[simp] theorem balOf_put (l : Ledger) (r : Realm) (c : Nat) : (l.put r).balOf c = l.balOf c := rfl

theorem find_name (l : Ledger) (n : String) : (l.find n).name = n := by
  unfold Ledger.find
  cases h : l.realms.find? (·.name = n) with
  | none => rfl
  | some r => simpa using List.find?_some h

/-! ### the loop: clean accumulators -/

/-- no error recorded so far -/
def Clean (a : Acc) : Prop := a.fatal = none ∧ a.depErr = false ∧ a.fundsErr = false

/-- the effect of a successful lock -/
def lockLed (c price : Nat) (l : Ledger) (n : String) (d : Nat) : Ledger :=
  (l.setBal c (l.balOf c - d * price)).put
    { l.find n with deposit := (l.find n).deposit + d * price, storage := (l.find n).storage + d,
                    backing := (l.find n).backing + d * price }

/-- the effect of a successful refund -/
def refundLed (c : Nat) (l : Ledger) (n : String) (released : Nat) : Ledger :=
  let r := l.find n
  let u := refundAmount r.deposit r.storage released
  (l.setBal c (l.balOf c + u)).put
    { r with deposit := r.deposit - u, storage := r.storage - released, backing := r.backing - u }

/-- `stepRealm` without its local definitions -/
theorem stepRealm_def (c price : Nat) (a : Acc) (n : String) (diff : Int) :
    stepRealm c price a n diff =
      if a.fatal.isSome then a
      else if diff = 0 then a
      else if diff > 0 then
        (if diff.toNat * price > maxInt64 then { a with fatal := some .overflow }
         else if a.amt < diff.toNat * price then { a with depErr := true }
         else if a.led.balOf c < diff.toNat * price then { a with fundsErr := true }
         else { a with led := lockLed c price a.led n diff.toNat, amt := a.amt - diff.toNat * price })
      else
        (if (a.led.find n).storage < (-diff).toNat then { a with fatal := some .refund }
         else if (a.led.find n).deposit < refundAmount (a.led.find n).deposit (a.led.find n).storage (-diff).toNat then
           { a with fatal := some .refund }
         else if (a.led.find n).backing < refundAmount (a.led.find n).deposit (a.led.find n).storage (-diff).toNat then
           { a with fatal := some .refund }
         else { a with led := refundLed c a.led n (-diff).toNat }) := rfl

theorem find_lockLed_same (c price : Nat) (l : Ledger) (n : String) (d : Nat) :
    (lockLed c price l n d).find n =
      { l.find n with deposit := (l.find n).deposit + d * price, storage := (l.find n).storage + d,
                      backing := (l.find n).backing + d * price } := by
  have e : ({ l.find n with deposit := (l.find n).deposit + d * price, storage := (l.find n).storage + d,
                             backing := (l.find n).backing + d * price } : Realm).name = n := find_name l n
  have h := find_put_same (l.setBal c (l.balOf c - d * price))
    { l.find n with deposit := (l.find n).deposit + d * price, storage := (l.find n).storage + d,
                    backing := (l.find n).backing + d * price }
  rw [e] at h
  exact h

theorem find_lockLed_other (c price : Nat) (l : Ledger) (n m : String) (d : Nat) (h : m ≠ n) :
    (lockLed c price l n d).find m = l.find m := by
  unfold lockLed
  rw [find_put_other _ _ _ (by simpa [find_name] using h)]
  rfl

theorem find_refundLed_same (c : Nat) (l : Ledger) (n : String) (rel : Nat) :
    (refundLed c l n rel).find n =
      { l.find n with
          deposit := (l.find n).deposit - refundAmount (l.find n).deposit (l.find n).storage rel,
          storage := (l.find n).storage - rel,
          backing := (l.find n).backing - refundAmount (l.find n).deposit (l.find n).storage rel } := by
  have e : ({ l.find n with
        deposit := (l.find n).deposit - refundAmount (l.find n).deposit (l.find n).storage rel,
        storage := (l.find n).storage - rel,
        backing := (l.find n).backing - refundAmount (l.find n).deposit (l.find n).storage rel } : Realm).name = n :=
    find_name l n
  have h := find_put_same (l.setBal c (l.balOf c + refundAmount (l.find n).deposit (l.find n).storage rel))
    { l.find n with
        deposit := (l.find n).deposit - refundAmount (l.find n).deposit (l.find n).storage rel,
        storage := (l.find n).storage - rel,
        backing := (l.find n).backing - refundAmount (l.find n).deposit (l.find n).storage rel }
  rw [e] at h
  exact h

theorem find_refundLed_other (c : Nat) (l : Ledger) (n m : String) (rel : Nat) (h : m ≠ n) :
    (refundLed c l n rel).find m = l.find m := by
  unfold refundLed
  simp only []
  rw [find_put_other _ _ _ (by simpa [find_name] using h)]
  rfl

/-- errors are sticky -/
theorem stepRealm_not_clean (c price : Nat) (a : Acc) (n : String) (diff : Int) (h : ¬ Clean a) :
    ¬ Clean (stepRealm c price a n diff) := by
  rw [stepRealm_def]
  repeat' split
  all_goals first
    | exact h
    | (intro hc; simp only [Clean] at h hc; simp_all)

/-- the loop never records `ok` as a fatal outcome -/
theorem stepRealm_fatal_ne_ok (c price : Nat) (a : Acc) (n : String) (diff : Int) (h : a.fatal ≠ some .ok) :
    (stepRealm c price a n diff).fatal ≠ some .ok := by
  rw [stepRealm_def]
  repeat' split
  all_goals first
    | exact h
    | simp

/-- a step that leaves the accumulator clean took the success branch -/
theorem stepRealm_clean (c price : Nat) (a : Acc) (n : String) (diff : Int)
    (h' : Clean (stepRealm c price a n diff)) :
    Clean a ∧
    ((diff = 0 ∧ stepRealm c price a n diff = a) ∨
     (diff > 0 ∧ diff.toNat * price ≤ maxInt64 ∧ diff.toNat * price ≤ a.amt ∧ diff.toNat * price ≤ a.led.balOf c ∧
        stepRealm c price a n diff =
          { a with led := lockLed c price a.led n diff.toNat, amt := a.amt - diff.toNat * price }) ∨
     (diff < 0 ∧ (-diff).toNat ≤ (a.led.find n).storage ∧
        refundAmount (a.led.find n).deposit (a.led.find n).storage (-diff).toNat ≤ (a.led.find n).deposit ∧
        refundAmount (a.led.find n).deposit (a.led.find n).storage (-diff).toNat ≤ (a.led.find n).backing ∧
        stepRealm c price a n diff = { a with led := refundLed c a.led n (-diff).toNat })) := by
  have hc : Clean a := Classical.byContradiction fun hn => stepRealm_not_clean c price a n diff hn h'
  refine ⟨hc, ?_⟩
  obtain ⟨hf, hd, hfu⟩ := hc
  have hfs : ¬ (a.fatal.isSome = true) := by simp [hf]
  rw [stepRealm_def] at h' ⊢
  rw [if_neg hfs] at h' ⊢
  by_cases h0 : diff = 0
  · left; exact ⟨h0, by rw [if_pos h0]⟩
  · rw [if_neg h0] at h' ⊢
    by_cases hp : diff > 0
    · right; left
      rw [if_pos hp] at h' ⊢
      by_cases h1 : diff.toNat * price > maxInt64
      · rw [if_pos h1] at h'; exact absurd h'.1 (by simp)
      · rw [if_neg h1] at h' ⊢
        by_cases h2 : a.amt < diff.toNat * price
        · rw [if_pos h2] at h'; exact absurd h'.2.1 (by simp)
        · rw [if_neg h2] at h' ⊢
          by_cases h3 : a.led.balOf c < diff.toNat * price
          · rw [if_pos h3] at h'; exact absurd h'.2.2 (by simp)
          · rw [if_neg h3]
            exact ⟨hp, by omega, by omega, by omega, rfl⟩
    · right; right
      have hn : diff < 0 := by omega
      rw [if_neg hp] at h' ⊢
      by_cases h1 : (a.led.find n).storage < (-diff).toNat
      · rw [if_pos h1] at h'; exact absurd h'.1 (by simp)
      · rw [if_neg h1] at h' ⊢
        by_cases h2 : (a.led.find n).deposit < refundAmount (a.led.find n).deposit (a.led.find n).storage (-diff).toNat
        · rw [if_pos h2] at h'; exact absurd h'.1 (by simp)
        · rw [if_neg h2] at h' ⊢
          by_cases h3 : (a.led.find n).backing < refundAmount (a.led.find n).deposit (a.led.find n).storage (-diff).toNat
          · rw [if_pos h3] at h'; exact absurd h'.1 (by simp)
          · rw [if_neg h3]
            exact ⟨hn, by omega, by omega, by omega, rfl⟩

/-- the fold of the loop -/
def runLoop (c price : Nat) (a : Acc) (ds : List (String × Int)) : Acc :=
  ds.foldl (fun a (nd : String × Int) => stepRealm c price a nd.1 nd.2) a

theorem runLoop_cons (c price : Nat) (a : Acc) (nd : String × Int) (ds : List (String × Int)) :
    runLoop c price a (nd :: ds) = runLoop c price (stepRealm c price a nd.1 nd.2) ds := rfl

theorem runLoop_fatal_ne_ok (c price : Nat) (ds : List (String × Int)) :
    ∀ a, a.fatal ≠ some .ok → (runLoop c price a ds).fatal ≠ some .ok := by
  induction ds with
  | nil => intro a h; exact h
  | cons nd ds ih => intro a h; rw [runLoop_cons]; exact ih _ (stepRealm_fatal_ne_ok _ _ _ _ _ h)

theorem runLoop_not_clean (c price : Nat) (ds : List (String × Int)) :
    ∀ a, ¬ Clean a → ¬ Clean (runLoop c price a ds) := by
  induction ds with
  | nil => intro a h; exact h
  | cons nd ds ih => intro a h; rw [runLoop_cons]; exact ih _ (stepRealm_not_clean _ _ _ _ _ h)

/-- realms that the loop does not name keep their record -/
theorem stepRealm_frame (c price : Nat) (a : Acc) (n m : String) (diff : Int) (h : m ≠ n) :
    (stepRealm c price a n diff).led.find m = a.led.find m := by
  rw [stepRealm_def]
  repeat' split
  all_goals first
    | rfl
    | exact find_lockLed_other _ _ _ _ _ _ h
    | exact find_refundLed_other _ _ _ _ _ h

theorem runLoop_frame (c price : Nat) (m : String) (ds : List (String × Int)) :
    ∀ a, (∀ nd ∈ ds, nd.1 ≠ m) → (runLoop c price a ds).led.find m = a.led.find m := by
  induction ds with
  | nil => intro a _; rfl
  | cons nd ds ih =>
    intro a h
    rw [runLoop_cons, ih _ (fun x hx => h x (List.mem_cons_of_mem _ hx))]
    exact stepRealm_frame _ _ _ _ _ _ (fun e => h nd (List.mem_cons_self) e.symm)

/-! ### what a clean run did to each named realm -/

/-- the record of realm `n` after a clean step with delta `d`, from the record before -/
def stepRecord (price : Nat) (r : Realm) (d : Int) : Realm :=
  if d > 0 then
    { r with deposit := r.deposit + d.toNat * price, storage := r.storage + d.toNat, backing := r.backing + d.toNat * price }
  else if d < 0 then
    { r with deposit := r.deposit - refundAmount r.deposit r.storage (-d).toNat,
             storage := r.storage - (-d).toNat,
             backing := r.backing - refundAmount r.deposit r.storage (-d).toNat }
  else r

theorem stepRealm_clean_record (c price : Nat) (a : Acc) (n : String) (diff : Int)
    (h' : Clean (stepRealm c price a n diff)) :
    (stepRealm c price a n diff).led.find n = stepRecord price (a.led.find n) diff := by
  obtain ⟨_, h | h | h⟩ := stepRealm_clean c price a n diff h'
  · obtain ⟨h0, he⟩ := h
    rw [he]; simp [stepRecord, h0]
  · obtain ⟨hp, _, _, _, he⟩ := h
    rw [he]
    show (lockLed c price a.led n diff.toNat).find n = _
    rw [find_lockLed_same]
    simp only [stepRecord, hp, if_true]
  · obtain ⟨hn, _, _, _, he⟩ := h
    rw [he]
    have hp : ¬ diff > 0 := by omega
    show (refundLed c a.led n (-diff).toNat).find n = _
    rw [find_refundLed_same]
    simp only [stepRecord, hp, hn, if_true, if_false]

/-- distinct realm names -/
def DistinctNames (ds : List (String × Int)) : Prop := (ds.map (·.1)).Nodup

theorem runLoop_clean_record (c price : Nat) (ds : List (String × Int)) (hd : DistinctNames ds) :
    ∀ a, Clean (runLoop c price a ds) →
      ∀ nd ∈ ds, (runLoop c price a ds).led.find nd.1 = stepRecord price (a.led.find nd.1) nd.2 := by
  induction ds with
  | nil => intro a _ nd h; cases h
  | cons x ds ih =>
    intro a hc nd hmem
    have hnd : (ds.map (·.1)).Nodup ∧ x.1 ∉ ds.map (·.1) := by
      have := hd; unfold DistinctNames at this
      simp only [List.map_cons, List.nodup_cons] at this
      exact ⟨this.2, this.1⟩
    rw [runLoop_cons] at hc ⊢
    have hstep : Clean (stepRealm c price a x.1 x.2) :=
      Classical.byContradiction fun hn => runLoop_not_clean c price ds _ hn hc
    rcases List.mem_cons.1 hmem with rfl | hin
    · rw [runLoop_frame c price nd.1 ds _ (fun y hy e => hnd.2 (by rw [← e]; exact List.mem_map_of_mem hy))]
      exact stepRealm_clean_record c price a nd.1 nd.2 hstep
    · rw [ih hnd.1 _ hc nd hin]
      have hne : nd.1 ≠ x.1 := fun e => hnd.2 (by rw [← e]; exact List.mem_map_of_mem hin)
      rw [stepRealm_frame _ _ _ _ _ _ hne]

/-- the deposit limit bounds the total cost of growth -/
theorem runLoop_clean_limit (c price : Nat) (ds : List (String × Int)) :
    ∀ a, Clean (runLoop c price a ds) →
      (runLoop c price a ds).amt + ((ds.filter (·.2 > 0)).map (fun nd => nd.2.toNat * price)).sum = a.amt := by
  induction ds with
  | nil => intro a _; simp [runLoop]
  | cons x ds ih =>
    intro a hc
    rw [runLoop_cons] at hc ⊢
    have hstep : Clean (stepRealm c price a x.1 x.2) :=
      Classical.byContradiction fun hn => runLoop_not_clean c price ds _ hn hc
    have hrec := ih _ hc
    obtain ⟨_, h | h | h⟩ := stepRealm_clean c price a x.1 x.2 hstep
    · obtain ⟨h0, he⟩ := h
      rw [he] at hrec ⊢
      have hx : ¬ x.2 > 0 := by omega
      rw [List.filter_cons_of_neg (by simpa using hx)]
      exact hrec
    · obtain ⟨hp, _, hle, _, he⟩ := h
      rw [he] at hrec ⊢
      rw [List.filter_cons_of_pos (by simpa using hp)]
      simp only [List.map_cons, List.sum_cons]
      simp only at hrec
      omega
    · obtain ⟨hn, _, _, _, he⟩ := h
      rw [he] at hrec ⊢
      have hx : ¬ x.2 > 0 := by omega
      rw [List.filter_cons_of_neg (by simpa using hx)]
      exact hrec

/-! ### deposits stay backed -/

def Backed (l : Ledger) : Prop := ∀ n, (l.find n).deposit ≤ (l.find n).backing

theorem stepRealm_backed (c price : Nat) (a : Acc) (n : String) (diff : Int) (h : Backed a.led) :
    Backed (stepRealm c price a n diff).led := by
  intro m
  by_cases hm : m = n
  · subst hm
    have hb := h m
    rw [stepRealm_def]
    repeat' split
    all_goals first
      | exact hb
      | (show ((lockLed _ _ _ _ _).find m).deposit ≤ ((lockLed _ _ _ _ _).find m).backing
         rw [find_lockLed_same]; simp only []; omega)
      | (show ((refundLed _ _ _ _).find m).deposit ≤ ((refundLed _ _ _ _).find m).backing
         rw [find_refundLed_same]; simp only []; omega)
  · rw [stepRealm_frame _ _ _ _ _ _ hm]; exact h m

theorem runLoop_backed (c price : Nat) (ds : List (String × Int)) :
    ∀ a, Backed a.led → Backed (runLoop c price a ds).led := by
  induction ds with
  | nil => intro a h; exact h
  | cons x ds ih => intro a h; rw [runLoop_cons]; exact ih _ (stepRealm_backed _ _ _ _ _ h)

/-! ### processDeposit / message in terms of the loop -/

theorem processDeposit_ok (l : Ledger) (c maxDep : Nat) (ds : List (String × Int)) (l' : Ledger)
    (h : processDeposit l c maxDep ds = (.ok, l')) :
    Clean (runLoop c l.price { led := l, amt := if maxDep = 0 then l.deflt else maxDep } ds) ∧
    l' = (runLoop c l.price { led := l, amt := if maxDep = 0 then l.deflt else maxDep } ds).led := by
  have hne := runLoop_fatal_ne_ok c l.price ds { led := l, amt := if maxDep = 0 then l.deflt else maxDep } (by simp)
  unfold processDeposit at h
  simp only [] at h
  unfold runLoop at hne ⊢
  generalize List.foldl _ _ ds = a at h hne ⊢
  cases hf : a.fatal with
  | some o =>
    rw [hf] at h hne
    simp only [Prod.mk.injEq] at h
    exact absurd (by rw [h.1]) hne
  | none =>
    rw [hf] at h
    by_cases h1 : a.depErr = true
    · simp [h1] at h
    · by_cases h2 : a.fundsErr = true
      · simp [h1, h2] at h
      · simp only [h1, h2, if_false, Bool.false_eq_true, Prod.mk.injEq, true_and] at h
        exact ⟨⟨hf, by simpa using h1, by simpa using h2⟩, h.symm⟩

theorem processDeposit_not_ok (l : Ledger) (c maxDep : Nat) (ds : List (String × Int))
    (h : (processDeposit l c maxDep ds).1 ≠ .ok) : (processDeposit l c maxDep ds).2 = l := by
  unfold processDeposit at h ⊢
  simp only [] at h ⊢
  generalize List.foldl _ _ ds = a at h ⊢
  cases hf : a.fatal with
  | some o => simp
  | none =>
    rw [hf] at h
    simp only [] at h ⊢
    by_cases h1 : a.depErr = true
    · simp [h1]
    · by_cases h2 : a.fundsErr = true
      · simp [h1, h2]
      · simp [h1, h2] at h

/-! ### store bookkeeping -/

def Store.keys (st : Store) : List (Nat × Nat) := st.map (·.1)

theorem sizeOf_erase_self (st : Store) (k : Nat × Nat) : (st.erase k).sizeOf k = 0 := by
  unfold Store.sizeOf Store.erase
  have : (List.filter (fun x => decide (x.1 ≠ k)) st).find? (fun x => decide (x.1 = k)) = none := by
    rw [List.find?_eq_none]
    intro x hx
    simp only [List.mem_filter, decide_eq_true_eq] at hx
    simpa using hx.2
  rw [this]

theorem bytesOf_foldl (l : List ((Nat × Nat) × Nat)) (n : Nat) :
    l.foldl (fun n e => n + e.2) n = n + (l.map (·.2)).sum := by
  induction l generalizing n with
  | nil => simp
  | cons x xs ih => simp [List.foldl, ih]; omega

theorem bytesOf_eq (st : Store) (r : Nat) :
    st.bytesOf r = ((st.filter (·.1.1 = r)).map (·.2)).sum := by
  unfold Store.bytesOf
  rw [bytesOf_foldl]; simp

theorem bytesOf_cons (e : (Nat × Nat) × Nat) (st : Store) (r : Nat) :
    Store.bytesOf (e :: st) r = (if e.1.1 = r then e.2 else 0) + Store.bytesOf st r := by
  rw [bytesOf_eq, bytesOf_eq]
  by_cases h : e.1.1 = r <;> simp [List.filter, h]

/-- keys are unique -/
def Store.Uniq (st : Store) : Prop := (st.map (·.1)).Nodup

theorem uniq_erase (st : Store) (k : Nat × Nat) (h : st.Uniq) : (st.erase k).Uniq := by
  unfold Store.Uniq Store.erase at *
  exact (List.Nodup.sublist ((List.filter_sublist).map _) h)

theorem not_mem_erase (st : Store) (k : Nat × Nat) : k ∉ (st.erase k).map (·.1) := by
  unfold Store.erase
  intro h
  rw [List.mem_map] at h
  obtain ⟨e, he, hk⟩ := h
  simp only [List.mem_filter, decide_eq_true_eq] at he
  exact he.2 hk

theorem bytesOf_erase (st : Store) (k : Nat × Nat) (r : Nat) (h : st.Uniq) :
    (st.erase k).bytesOf r + (if k.1 = r then st.sizeOf k else 0) = st.bytesOf r := by
  induction st with
  | nil => simp [Store.erase, Store.bytesOf, Store.sizeOf]
  | cons e st ih =>
    have hu : Store.Uniq st ∧ e.1 ∉ st.map (·.1) := by
      unfold Store.Uniq at h
      simp only [List.map_cons, List.nodup_cons] at h
      exact ⟨h.2, h.1⟩
    by_cases hk : e.1 = k
    · -- the entry itself: the rest does not contain k
      have hrest : Store.erase st k = st := by
        unfold Store.erase
        rw [List.filter_eq_self]
        intro x hx
        simp only [decide_eq_true_eq]
        intro hxk
        exact hu.2 (by rw [hk, ← hxk]; exact List.mem_map_of_mem hx)
      have e1 : Store.erase (e :: st) k = st := by
        show List.filter _ (e :: st) = st
        rw [List.filter_cons]
        simp only [hk, ne_eq, not_true_eq_false, decide_false, Bool.false_eq_true, if_false]
        exact hrest
      have e2 : Store.sizeOf (e :: st) k = e.2 := by
        unfold Store.sizeOf
        simp [List.find?, hk]
      rw [e1, e2, bytesOf_cons, hk]
      by_cases hr : k.1 = r <;> simp [hr] <;> omega
    · have e1 : Store.erase (e :: st) k = e :: Store.erase st k := by
        show List.filter _ (e :: st) = e :: List.filter _ st
        rw [List.filter_cons]
        simp [hk]
      have e2 : Store.sizeOf (e :: st) k = Store.sizeOf st k := by
        unfold Store.sizeOf
        simp [List.find?, hk]
      rw [e1, e2, bytesOf_cons, bytesOf_cons]
      have := ih hu.1
      omega

/-- the invariant of the telescoping argument -/
def Acct (sc : Store × (Nat → Int)) : Prop := sc.1.Uniq ∧ ∀ r, sc.2 r = (sc.1.bytesOf r : Int)

theorem applyOp_acct (sc : Store × (Nat → Int)) (op : StoreOp) (h : Acct sc) : Acct (applyOp sc op) := by
  obtain ⟨hu, hc⟩ := h
  cases op with
  | set k size =>
    refine ⟨?_, ?_⟩
    · show Store.Uniq ((k, size) :: Store.erase sc.1 k)
      unfold Store.Uniq
      simp only [List.map_cons, List.nodup_cons]
      exact ⟨not_mem_erase _ _, uniq_erase _ _ hu⟩
    · intro r
      show (if r = k.1 then sc.2 r + ((size : Int) - (sc.1.sizeOf k : Int)) else sc.2 r)
        = (Store.bytesOf ((k, size) :: Store.erase sc.1 k) r : Int)
      rw [bytesOf_cons]
      have := bytesOf_erase sc.1 k r hu
      have := hc r
      by_cases hr : r = k.1
      · subst hr; simp only [if_true] at *; omega
      · have hr' : ¬ k.1 = r := fun e => hr e.symm
        simp only [hr, hr', if_false] at *; omega
  | del k =>
    refine ⟨uniq_erase _ _ hu, ?_⟩
    intro r
    show (if r = k.1 then sc.2 r - (sc.1.sizeOf k : Int) else sc.2 r) = (Store.bytesOf (Store.erase sc.1 k) r : Int)
    have := bytesOf_erase sc.1 k r hu
    have := hc r
    by_cases hr : r = k.1
    · subst hr; simp only [if_true] at *; omega
    · have hr' : ¬ k.1 = r := fun e => hr e.symm
      simp only [hr, hr', if_false] at *; omega

theorem foldl_acct (ops : List StoreOp) : ∀ sc, Acct sc → Acct (ops.foldl applyOp sc) := by
  induction ops with
  | nil => intro sc h; exact h
  | cons op ops ih => intro sc h; exact ih _ (applyOp_acct sc op h)

end GnoVerif.C09
