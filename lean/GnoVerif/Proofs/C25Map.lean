import GnoVerif.Model.C25
/-!
Helper lemmas for C25 (SimpleMap): `KVPairs.Less` is a strict total order on
(key, value) pairs, hence sorting is insertion-order independent; the amino
length-prefixed encoding `KVPair.Bytes` is injective.
-/
namespace GnoVerif.C25

/-! ### bytes.Compare -/

theorem cmpBytes_eq_iff : ∀ (a b : Bytes), cmpBytes a b = .eq ↔ a = b
  | [], [] => by simp [cmpBytes]
  | [], _ :: _ => by simp [cmpBytes]
  | _ :: _, [] => by simp [cmpBytes]
  | a :: as, b :: bs => by
    rw [cmpBytes]
    by_cases h1 : a < b
    · simp [h1]; intro h; subst h; exact absurd h1 (UInt8.lt_irrefl _)
    · by_cases h2 : b < a
      · simp [h1, h2]; intro h; subst h; exact absurd h2 (UInt8.lt_irrefl _)
      · have : a = b := UInt8.le_antisymm (UInt8.not_lt.mp h2) (UInt8.not_lt.mp h1)
        subst this
        simp [cmpBytes_eq_iff as bs]

theorem cmpBytes_gt_iff : ∀ (a b : Bytes), cmpBytes a b = .gt ↔ cmpBytes b a = .lt
  | [], [] => by simp [cmpBytes]
  | [], _ :: _ => by simp [cmpBytes]
  | _ :: _, [] => by simp [cmpBytes]
  | a :: as, b :: bs => by
    rw [cmpBytes, cmpBytes]
    by_cases h1 : a < b
    · have : ¬ b < a := UInt8.lt_asymm h1
      simp [h1, this]
    · by_cases h2 : b < a
      · simp [h1, h2]
      · simp [h1, h2, cmpBytes_gt_iff as bs]

theorem cmpBytes_lt_trans : ∀ (a b c : Bytes), cmpBytes a b = .lt → cmpBytes b c = .lt → cmpBytes a c = .lt
  | [], [], _ => by simp [cmpBytes]
  | [], _ :: _, [] => by simp [cmpBytes]
  | [], _ :: _, _ :: _ => by simp [cmpBytes]
  | _ :: _, [], _ => by simp [cmpBytes]
  | _ :: _, _ :: _, [] => by simp [cmpBytes]
  | a :: as, b :: bs, c :: cs => by
    intro hab hbc
    rw [cmpBytes] at hab hbc ⊢
    by_cases h1 : a < b
    · by_cases h2 : b < c
      · simp [UInt8.lt_trans h1 h2]
      · by_cases h3 : c < b
        · simp [h2, h3] at hbc
        · have : b = c := UInt8.le_antisymm (UInt8.not_lt.mp h3) (UInt8.not_lt.mp h2)
          subst this; simp [h1]
    · by_cases h1' : b < a
      · simp [h1, h1'] at hab
      · have : a = b := UInt8.le_antisymm (UInt8.not_lt.mp h1') (UInt8.not_lt.mp h1)
        subst this
        by_cases h2 : a < c
        · simp [h2]
        · by_cases h3 : c < a
          · simp [h2, h3] at hbc
          · simp only [h1, h2, h3, if_false] at hab hbc ⊢
            exact cmpBytes_lt_trans as bs cs hab hbc

theorem cmpBytes_irrefl (a : Bytes) : cmpBytes a a ≠ .lt := by
  have := (cmpBytes_eq_iff a a).2 rfl
  rw [this]; simp

theorem cmpBytes_trichotomy (a b : Bytes) : cmpBytes a b = .lt ∨ a = b ∨ cmpBytes b a = .lt := by
  cases h : cmpBytes a b with
  | lt => left; rfl
  | eq => right; left; exact (cmpBytes_eq_iff a b).1 h
  | gt => right; right; exact (cmpBytes_gt_iff a b).1 h

/-! ### KVPairs.Less -/

theorem kvLess_iff (a b : KV) :
    kvLess a b = true ↔ cmpBytes a.key b.key = .lt ∨ (a.key = b.key ∧ cmpBytes a.value b.value = .lt) := by
  unfold kvLess
  cases h : cmpBytes a.key b.key with
  | lt => simp
  | eq =>
    have := (cmpBytes_eq_iff _ _).1 h
    simp [this]
  | gt =>
    simp
    intro heq
    rw [heq, (cmpBytes_eq_iff _ _).2 rfl] at h
    cases h

theorem kvLess_irrefl (a : KV) : kvLess a a = false := by
  cases h : kvLess a a with
  | false => rfl
  | true =>
    rcases (kvLess_iff a a).1 h with h | ⟨_, h⟩ <;> exact absurd h (cmpBytes_irrefl _)

theorem kvLess_trans {a b c : KV} (h1 : kvLess a b = true) (h2 : kvLess b c = true) : kvLess a c = true := by
  rw [kvLess_iff] at *
  rcases h1 with h1 | ⟨e1, h1⟩ <;> rcases h2 with h2 | ⟨e2, h2⟩
  · left; exact cmpBytes_lt_trans _ _ _ h1 h2
  · left; rw [← e2]; exact h1
  · left; rw [e1]; exact h2
  · right; exact ⟨e1.trans e2, cmpBytes_lt_trans _ _ _ h1 h2⟩

theorem kvLess_trichotomy (a b : KV) : kvLess a b = true ∨ a = b ∨ kvLess b a = true := by
  rcases cmpBytes_trichotomy a.key b.key with h | h | h
  · left; exact (kvLess_iff a b).2 (Or.inl h)
  · rcases cmpBytes_trichotomy a.value b.value with h' | h' | h'
    · left; exact (kvLess_iff a b).2 (Or.inr ⟨h, h'⟩)
    · right; left; cases a; cases b; simp_all
    · right; right; exact (kvLess_iff b a).2 (Or.inr ⟨h.symm, h'⟩)
  · right; right; exact (kvLess_iff b a).2 (Or.inl h)

theorem kvLess_asymm {a b : KV} (h : kvLess a b = true) : kvLess b a = false := by
  cases h' : kvLess b a with
  | false => rfl
  | true => have := kvLess_trans h h'; rw [kvLess_irrefl] at this; cases this

theorem kvLe_total (a b : KV) : (kvLe a b || kvLe b a) = true := by
  unfold kvLe
  cases h : kvLess b a with
  | false => simp
  | true => simp [kvLess_asymm h]

theorem kvLe_trans (a b c : KV) (h1 : kvLe a b = true) (h2 : kvLe b c = true) : kvLe a c = true := by
  unfold kvLe at *
  simp only [Bool.not_eq_true'] at *
  cases h : kvLess c a with
  | false => rfl
  | true =>
    rcases kvLess_trichotomy a b with hab | hab | hab
    · have := kvLess_trans h hab; rw [h2] at this; cases this
    · subst hab; rw [h2] at h; cases h
    · rw [h1] at hab; cases hab

theorem kvLe_antisymm (a b : KV) (h1 : kvLe a b = true) (h2 : kvLe b a = true) : a = b := by
  unfold kvLe at *
  simp only [Bool.not_eq_true'] at *
  rcases kvLess_trichotomy a b with h | h | h
  · rw [h2] at h; cases h
  · exact h
  · rw [h1] at h; cases h

/-- sorting is a function of the multiset of pairs only -/
theorem smSort_perm {l₁ l₂ : List KV} (h : l₁.Perm l₂) : smSort l₁ = smSort l₂ := by
  unfold smSort
  apply List.Perm.eq_of_pairwise (le := fun a b => kvLe a b = true)
  · intro a b _ _ hab hba; exact kvLe_antisymm a b hab hba
  · exact List.pairwise_mergeSort kvLe_trans kvLe_total l₁
  · exact List.pairwise_mergeSort kvLe_trans kvLe_total l₂
  · exact (List.mergeSort_perm l₁ kvLe).trans (h.trans (List.mergeSort_perm l₂ kvLe).symm)

theorem smFromEntries_eq_map (H : Bytes → Bytes) (entries : List (Bytes × Bytes)) :
    smFromEntries H entries = entries.map (fun e => (⟨e.1, H e.2⟩ : KV)) := by
  unfold smFromEntries
  suffices ∀ (acc : List KV), entries.foldl (fun kvs e => smSet H kvs e.1 e.2) acc
      = acc ++ entries.map (fun e => (⟨e.1, H e.2⟩ : KV)) by simpa using this []
  induction entries with
  | nil => intro acc; simp
  | cons e es ih => intro acc; rw [List.foldl_cons, ih]; simp [smSet]

theorem mem_smSort {kvs : List KV} {kv : KV} : kv ∈ smSort kvs ↔ kv ∈ kvs :=
  (List.mergeSort_perm kvs kvLe).mem_iff

/-! ### the length-prefixed encoding is injective -/

theorem uvarint_ne_nil (n : Nat) : uvarint n ≠ [] := by
  rw [uvarint]; split <;> simp

/-- uvarint is prefix-free: equal concatenations force equal numbers and equal rests -/
theorem uvarint_inj : ∀ (n m : Nat) (r s : Bytes), uvarint n ++ r = uvarint m ++ s → n = m ∧ r = s := by
  intro n
  induction n using Nat.strongRecOn with
  | _ n ih =>
    intro m r s h
    rw [uvarint.eq_1 n, uvarint.eq_1 m] at h
    by_cases hn : n < 128 <;> by_cases hm : m < 128 <;> simp only [hn, hm, if_true, if_false] at h
    · simp only [List.cons_append, List.nil_append, List.cons.injEq] at h
      have h1 := congrArg UInt8.toNat h.1
      simp [UInt8.toNat_ofNat'] at h1
      exact ⟨by omega, h.2⟩
    · simp only [List.cons_append, List.nil_append, List.cons.injEq] at h
      have h1 := congrArg UInt8.toNat h.1
      simp [UInt8.toNat_ofNat'] at h1
      exfalso; omega
    · simp only [List.cons_append, List.nil_append, List.cons.injEq] at h
      have h1 := congrArg UInt8.toNat h.1
      simp [UInt8.toNat_ofNat'] at h1
      exfalso; omega
    · simp only [List.cons_append, List.cons.injEq] at h
      have h1 := congrArg UInt8.toNat h.1
      simp [UInt8.toNat_ofNat'] at h1
      obtain ⟨hq, hrs⟩ := ih (n / 128) (by omega) (m / 128) r s h.2
      exact ⟨by omega, hrs⟩

theorem encodeByteSlice_inj {a b r s : Bytes} (h : encodeByteSlice a ++ r = encodeByteSlice b ++ s) :
    a = b ∧ r = s := by
  unfold encodeByteSlice at h
  rw [List.append_assoc, List.append_assoc] at h
  obtain ⟨hl, h'⟩ := uvarint_inj _ _ _ _ h
  exact List.append_inj h' hl

theorem kvBytes_inj {a b : KV} (h : a.bytes = b.bytes) : a = b := by
  unfold KV.bytes at h
  obtain ⟨hk, h'⟩ := encodeByteSlice_inj h
  have h'' : encodeByteSlice a.value ++ [] = encodeByteSlice b.value ++ [] := by simpa using h'
  obtain ⟨hv, _⟩ := encodeByteSlice_inj h''
  cases a; cases b; simp_all

end GnoVerif.C25
