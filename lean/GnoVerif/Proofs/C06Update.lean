import GnoVerif.Proofs.C06Count
/-! C06 — the ref-count invariant through an assignment followed by DidUpdate. -/
namespace GnoVerif.C06
open State

theorem count_set (l : List (Option Nat)) (i : Nat) (v x : Option Nat) (hi : i < l.length) :
    ((l.set i v).count x : Int) = (l.count x : Int) - (if l[i] = x then 1 else 0) + (if v = x then 1 else 0) := by
  induction l generalizing i with
  | nil => simp at hi
  | cons y ys ih =>
    cases i with
    | zero =>
      simp only [List.set_cons_zero, List.count_cons, List.getElem_cons_zero, beq_iff_eq]
      by_cases h1 : y = x <;> by_cases h2 : v = x <;> simp [h1, h2] <;> omega
    | succ j =>
      have hj : j < ys.length := by simpa using hi
      simp only [List.set_cons_succ, List.count_cons, List.getElem_cons_succ]
      have := ih j hj
      omega

theorem get_setSlot (s : State) (a i : Nat) (v : Option Nat) (x : Nat) :
    (setSlot s a i v).get x =
      if x = a ∧ a < s.heap.length then { s.get a with kids := (s.get a).kids.set i v } else s.get x :=
  get_modify s a x fun o => { o with kids := o.kids.set i v }

@[simp] theorem length_setSlot (s : State) (a i : Nat) (v : Option Nat) :
    (setSlot s a i v).heap.length = s.heap.length := length_modify _ _ _

theorem mem_children_iff (s : State) (a c : Nat) : c ∈ s.children a ↔ some c ∈ (s.get a).kids := by
  unfold State.children
  simp [List.mem_filterMap]

theorem wf_setSlot (s : State) (a i : Nat) (v : Option Nat) (hw : WF s)
    (hv : ∀ c, v = some c → c < s.heap.length) : WF (setSlot s a i v) := by
  refine ⟨fun x ht => ?_, fun x hx c hc => ?_⟩
  · rw [get_setSlot] at ht ⊢
    split
    · rename_i h; rw [if_pos h] at ht; exact hw.unreal_not_deleted a ht
    · rename_i h; rw [if_neg h] at ht; exact hw.unreal_not_deleted x ht
  · rw [length_setSlot] at hx ⊢
    rw [mem_children_iff, get_setSlot] at hc
    by_cases h : x = a ∧ a < s.heap.length
    · rw [if_pos h] at hc
      simp only at hc
      rcases List.mem_or_eq_of_mem_set hc with hm | he
      · exact hw.kids_in_range a h.2 c ((mem_children_iff s a c).2 hm)
      · exact hv c he.symm
    · rw [if_neg h] at hc
      exact hw.kids_in_range x hx c ((mem_children_iff s x c).2 hc)

/-- the indicator "this slot value is the object x" -/
def ind (v : Option Nat) (x : Nat) : Int := if v = some x then 1 else 0

/-- overwriting slot `i` of `po`: if `po` is a counted parent, the old target is owed a
    decrement and the new one an increment -/
theorem rci_setSlot (s : State) (po i : Nat) (v : Option Nat) (owe : Nat → Int)
    (hpo : po < s.heap.length) (hi : i < (s.get po).kids.length) (h : RCI s owe) :
    RCI (setSlot s po i v) fun x =>
      owe x + (if counted (s.get po) then ind v x - ind (slot s po i) x else 0) := by
  intro x hx
  rw [length_setSlot] at hx
  have hslot : slot s po i = (s.get po).kids[i] := by
    unfold slot
    simp [List.getD_eq_getElem?_getD, List.getElem?_eq_getElem hi]
  have hrefs : refs (setSlot s po i v) x =
      refs s x + (if counted (s.get po) then ind v x - ind (slot s po i) x else 0) := by
    unfold refs
    rw [length_setSlot]
    rw [sumTo_update s.heap.length (fun p => contrib (s.get p) x) (fun p => contrib ((setSlot s po i v).get p) x) po hpo
      (fun j _ hne => by simp only [get_setSlot, hne, false_and, if_false])]
    have h2 : contrib ((setSlot s po i v).get po) x =
        if counted (s.get po) then (((s.get po).kids.set i v).count (some x) : Int) else 0 := by
      rw [get_setSlot]
      simp only [hpo, and_self, if_true]
      rfl
    rw [h2]
    by_cases hc : counted (s.get po) = true
    · simp only [contrib, hc, if_true]
      rw [count_set _ i v (some x) hi, hslot]
      simp only [ind]
      have e1 : ((s.get po).kids[i] = some x) = ((s.get po).kids[i] = some x) := rfl
      omega
    · simp only [contrib, hc, if_false, Bool.false_eq_true]
      omega
  have hrc : ((setSlot s po i v).get x).rc = (s.get x).rc ∧ pinned ((setSlot s po i v).get x) = pinned (s.get x) := by
    rw [get_setSlot]
    split
    · rename_i hxa; rw [hxa.1]; exact ⟨rfl, rfl⟩
    · exact ⟨rfl, rfl⟩
  rw [hrefs, hrc.1, hrc.2]
  have := h x hx
  show (s.get x).rc + (owe x + (if counted (s.get po) then ind v x - ind (slot s po i) x else 0)) = _
  omega

theorem ind_none (x : Nat) : ind none x = 0 := rfl

theorem ind_some (c x : Nat) : ind (some c) x = if x = c then 1 else 0 := by
  unfold ind
  by_cases h : x = c
  · subst h; simp
  · have : ¬ c = x := fun e => h e.symm
    simp [h, this]

theorem sameCore_didUpdateCo_after (s : State) (r po c : Nat) :
    SameCore (incRc s c) (didUpdateCo s r po c) := by
  unfold didUpdateCo
  simp only []
  have h1 : SameCore (incRc s c)
      (if ((incRc s c).get c).rc > 1 ∧ ¬ ((incRc s c).get c).escaped = true then markNewEscaped (incRc s c) r c else incRc s c) := by
    split
    · exact sameCore_markNewEscaped _ _ _
    · exact SameCore.refl _
  generalize (if ((incRc s c).get c).rc > 1 ∧ ¬ ((incRc s c).get c).escaped = true then markNewEscaped (incRc s c) r c else incRc s c) = s1 at h1 ⊢
  split
  · exact h1.trans (sameCore_markDirty _ _ _)
  · exact h1.trans ((sameCore_setOwner _ _ _).trans (sameCore_markNewReal _ _ _))

theorem sameCore_didUpdateXo_after (s : State) (r x : Nat) :
    SameCore (decRc s x) (didUpdateXo s r x) := by
  unfold didUpdateXo
  show SameCore (decRc s x)
    (if ((decRc s x).get x).rc = 0 then (if (decRc s x).isReal x then markNewDeleted (decRc s x) r x else decRc s x)
     else if (decRc s x).isReal x then markDirty (decRc s x) r x else decRc s x)
  split
  · split
    · exact sameCore_markNewDeleted _ _ _
    · exact SameCore.refl _
  · split
    · exact sameCore_markDirty _ _ _
    · exact SameCore.refl _

theorem didUpdateCo_keeps (s : State) (r po c : Nat) (owe : Nat → Int) (hw : WF s) (hc : c < s.heap.length)
    (h : RCI s fun x => owe x + (if x = c then 1 else 0)) :
    (didUpdateCo s r po c).heap.length = s.heap.length ∧ WF (didUpdateCo s r po c) ∧ RCI (didUpdateCo s r po c) owe := by
  have ri := rci_incRc s c owe hc h
  have wi : WF (incRc s c) := wf_modify_rc _ c (· + 1) hw
  have sc := sameCore_didUpdateCo_after s r po c
  exact ⟨sc.1.trans (length_modify _ _ _), sc.wf wi, sc.rci ri⟩

theorem didUpdateXo_keeps (s : State) (r c : Nat) (owe : Nat → Int) (hw : WF s) (hc : c < s.heap.length)
    (h : RCI s fun x => owe x - (if x = c then 1 else 0)) :
    (didUpdateXo s r c).heap.length = s.heap.length ∧ WF (didUpdateXo s r c) ∧ RCI (didUpdateXo s r c) owe := by
  have ri := rci_decRc s c owe hc h
  have wi : WF (decRc s c) := wf_modify_rc _ c (· - 1) hw
  have sc := sameCore_didUpdateXo_after s r c
  exact ⟨sc.1.trans (length_modify _ _ _), sc.wf wi, sc.rci ri⟩

/-- `DidUpdate(po, xo, co)` consumes exactly what the assignment left owed -/
theorem rci_didUpdate (s : State) (r po : Nat) (xo co : Option Nat) (owe : Nat → Int)
    (hw : WF s) (hxo : ∀ c, xo = some c → c < s.heap.length) (hco : ∀ c, co = some c → c < s.heap.length)
    (hpkg : s.isReal po = true → (s.get po).pkg = r)
    (h : RCI s fun x => owe x + (if s.isReal po then ind co x - ind xo x else 0)) :
    (didUpdate s r po xo co).heap.length = s.heap.length ∧ WF (didUpdate s r po xo co) ∧
      RCI (didUpdate s r po xo co) owe := by
  by_cases hreal : s.isReal po = true
  · have hp := hpkg hreal
    have sc0 := sameCore_markDirty s r po
    have w0 := sc0.wf hw
    have l0 := sc0.1
    have r0 : RCI (markDirty s r po) fun x => owe x + (ind co x - ind xo x) := by
      apply sc0.rci
      intro x hx; have := h x hx; simpa [hreal] using this
    cases co with
    | none =>
      cases xo with
      | none =>
        have e : didUpdate s r po none none = markDirty s r po := by
          simp [didUpdate, hreal, hp]
        rw [e]
        refine ⟨l0, w0, ?_⟩
        intro x hx; have := r0 x hx; simp only [ind_none] at this; omega
      | some x' =>
        have e : didUpdate s r po (some x') none = didUpdateXo (markDirty s r po) r x' := by
          simp [didUpdate, hreal, hp]
        rw [e]
        obtain ⟨l1, w1, r1⟩ := didUpdateXo_keeps (markDirty s r po) r x' owe w0 (by rw [l0]; exact hxo x' rfl) (by
          intro x hx; have := r0 x hx; simp only [ind_none, ind_some] at this; dsimp only; omega)
        exact ⟨l1.trans l0, w1, r1⟩
    | some c =>
      obtain ⟨l1, w1, r1⟩ := didUpdateCo_keeps (markDirty s r po) r po c (fun x => owe x - ind xo x) w0
        (by rw [l0]; exact hco c rfl) (by
          intro x hx; have := r0 x hx; simp only [ind_some] at this; dsimp only; omega)
      cases xo with
      | none =>
        have e : didUpdate s r po none (some c) = didUpdateCo (markDirty s r po) r po c := by
          simp [didUpdate, hreal, hp]
        rw [e]
        refine ⟨l1.trans l0, w1, ?_⟩
        intro x hx; have := r1 x hx; simp only [ind_none] at this; omega
      | some x' =>
        have e : didUpdate s r po (some x') (some c) =
            didUpdateXo (didUpdateCo (markDirty s r po) r po c) r x' := by
          simp [didUpdate, hreal, hp]
        rw [e]
        obtain ⟨l2, w2, r2⟩ := didUpdateXo_keeps _ r x' owe w1 (by rw [l1, l0]; exact hxo x' rfl) (by
          intro x hx; have := r1 x hx; simp only [ind_some] at this; dsimp only; omega)
        exact ⟨l2.trans (l1.trans l0), w2, r2⟩
  · have hreal' : s.isReal po = false := by simpa using hreal
    have e : didUpdate s r po xo co = s := by simp [didUpdate, hreal']
    rw [e]
    refine ⟨rfl, hw, ?_⟩
    intro x hx; have := h x hx; simpa [hreal'] using this

end GnoVerif.C06
