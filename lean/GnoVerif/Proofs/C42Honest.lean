import GnoVerif.Proofs.C42Hs
/-!
C42 helper lemmas, part 7: the honest handshake, evaluated symbolically — one side
receiving a well-formed ephemeral-key message followed by one sealed frame that carries a
well-formed auth message.
-/
namespace GnoVerif.C42

/-! ### the two messages -/

theorem uvarintEnc_small (n : Nat) (h : n < 128) : uvarintEnc n = [UInt8.ofNat n] := by
  rw [uvarintEnc]; simp [h]

theorem encEph_eq (p : Bytes) (h : p.length = 32) : encEph p = 34 :: 0x0a :: 32 :: p := by
  unfold encEph
  simp only [h, List.length_append, List.length_cons, List.length_nil]
  rw [uvarintEnc_small 32 (by decide), uvarintEnc_small _ (by decide)]
  rfl

theorem encAuth_eq (key sig : Bytes) (hk : key.length = 32) (hs : sig.length = 64) :
    encAuth key sig = 100 :: (0x0a :: 32 :: key ++ 0x12 :: 64 :: sig) := by
  unfold encAuth
  simp only [hk, hs, List.length_append, List.length_cons, List.length_nil]
  rw [uvarintEnc_small 32 (by decide), uvarintEnc_small 64 (by decide), uvarintEnc_small _ (by decide)]
  simp

theorem encAuth_length (key sig : Bytes) (hk : key.length = 32) (hs : sig.length = 64) :
    (encAuth key sig).length = 101 := by
  rw [encAuth_eq key sig hk hs]; simp [hk, hs]

theorem decEphBody_enc (p : Bytes) (h : p.length = 32) : decEphBody (0x0a :: 32 :: p) = some p := by
  simp [decEphBody, h]

theorem decAuthBody_enc (key sig : Bytes) (hk : key.length = 32) (hs : sig.length = 64) :
    decAuthBody (0x0a :: 32 :: key ++ 0x12 :: 64 :: sig) = some (key, sig) := by
  have h1 : (key ++ 0x12 :: 64 :: sig).take 32 = key := List.take_left' hk
  have h2 : (key ++ 0x12 :: 64 :: sig).drop 32 = 0x12 :: 64 :: sig := List.drop_left' hk
  simp only [decAuthBody, List.cons_append, h1, h2, hk, hs]
  simp

/-! ### reading a length-prefixed message off the raw queue -/

theorem readFull_done (A : AEAD) (fuel : Nat) (r : Rd) (want : Nat) (acc : Bytes)
    (h : want ≤ acc.length) : readFull A (fuel + 1) r want acc = (r, acc, none) := by
  unfold readFull
  simp [h]

theorem readFull_raw (A : AEAD) (fuel : Nat) (conn : Bytes) (want : Nat)
    (hw : 0 < want) (h : want ≤ conn.length) :
    readFull A (fuel + 2) ⟨none, conn⟩ want [] = (⟨none, conn.drop want⟩, conn.take want, none) := by
  have hne : conn ≠ [] := by
    intro e; rw [e] at h; simp at h; omega
  rw [readFull]
  simp only [List.length_nil, ge_iff_le, Nat.le_zero_eq, Nat.sub_zero, List.nil_append]
  rw [if_neg (by omega)]
  simp only [Rd.read, rawRead, hne, if_false]
  exact readFull_done A fuel _ want _ (by rw [List.length_take]; omega)

/-- the length prefix is one byte below 0x80 -/
theorem readPrefix_one (A : AEAD) (fuel : Nat) (r r' : Rd) (b : UInt8)
    (hr : r.read A 1 = (r', [b], none)) (hb : b &&& 0x80 = 0) :
    readPrefix A (fuel + 1) r [] = (r', [b], none) := by
  rw [readPrefix]
  simp [hr, hb]

/-- the ephemeral-key message `34 0a 20 <32 bytes>` is read off the raw queue -/
theorem readSized_eph (A : AEAD) (p rest : Bytes) (hp : p.length = 32) :
    readSized A ⟨none, encEph p ++ rest⟩ = (⟨none, rest⟩, .ok (0x0a :: 32 :: p)) := by
  rw [encEph_eq p hp]
  unfold readSized
  have hpre : readPrefix A 10 ⟨none, 34 :: 0x0a :: 32 :: p ++ rest⟩ [] =
      (⟨none, 0x0a :: 32 :: p ++ rest⟩, [34], none) :=
    readPrefix_one A 9 _ _ 34 (by simp [Rd.read, rawRead]) (by decide)
  simp only [hpre]
  have hu : uvarint ([34] ++ List.replicate (10 - ([34] : Bytes).length) 0) 0 0 0 = 34 := by decide
  simp only [hu]
  rw [if_neg (by decide), if_neg (by decide)]
  have hlen : 34 ≤ (0x0a :: 32 :: p ++ rest : Bytes).length := by simp [hp]
  rw [readFull_raw A _ _ 34 (by decide) hlen]
  have h1 : (0x0a :: 32 :: p ++ rest : Bytes).take 34 = 0x0a :: 32 :: p := by
    have : (0x0a :: 32 :: p ++ rest : Bytes) = (0x0a :: 32 :: p) ++ rest := rfl
    rw [this]; exact List.take_left' (by simp [hp])
  have h2 : (0x0a :: 32 :: p ++ rest : Bytes).drop 34 = rest := by
    have : (0x0a :: 32 :: p ++ rest : Bytes) = (0x0a :: 32 :: p) ++ rest := rfl
    rw [this]; exact List.drop_left' (by simp [hp])
  simp only [h1, h2]

/-! ### reading the auth message through the fresh SecretConnection -/

/-- one sealed frame carrying a 101-byte message `100 ‖ body` is read as `body`, leaving the
receive counter at 1 and the buffer empty -/
theorem readSized_auth (A : AEAD) (sc : SC) (body : Bytes) (hb : body.length = 100)
    (hC : A.Correct sc.recvKey) (hO : A.Overhead sc.recvKey)
    (hn : sc.recvNonce = nonceOf 0) (hbuf : sc.recvBuffer = []) :
    readSized A ⟨some sc, sealedAt A sc.recvKey 0 (100 :: body)⟩ =
      (⟨some { sc with recvNonce := nonceOf 1, recvBuffer := [] }, []⟩, .ok body) := by
  have hwf : Fr.WF (100 :: body) := ⟨by simp, by simp [hb, dataMaxSize_eq]⟩
  have hlen := sealedAt_length A sc.recvKey hO 0 (100 :: body) hwf
  have h1 : sealedFrameSize ≤ (sealedAt A sc.recvKey 0 (100 :: body)).length := by omega
  have htake : (sealedAt A sc.recvKey 0 (100 :: body)).take sealedFrameSize =
      sealedAt A sc.recvKey 0 (100 :: body) := List.take_of_length_le (by omega)
  have hdrop : (sealedAt A sc.recvKey 0 (100 :: body)).drop sealedFrameSize = [] :=
    List.drop_eq_nil_of_le (by omega)
  have ho : A.doOpen sc.recvKey sc.recvNonce ((sealedAt A sc.recvKey 0 (100 :: body)).take sealedFrameSize) =
      some (mkFrame (100 :: body)) := by
    rw [htake, hn]; exact hC _ _
  have hr1 := read_accept A sc _ 1 0 (100 :: body) hbuf h1 hn (by decide) hwf.2 ho
  rw [hdrop] at hr1
  have hmin : min 1 (100 :: body : Bytes).length = 1 := by simp
  rw [hmin] at hr1
  simp only [List.take_succ_cons, List.take_zero, List.drop_succ_cons, List.drop_zero] at hr1
  unfold readSized
  have hpre : readPrefix A 10 ⟨some sc, sealedAt A sc.recvKey 0 (100 :: body)⟩ [] =
      (⟨some { sc with recvNonce := nonceOf (0 + 1), recvBuffer := body }, []⟩, [100], none) :=
    readPrefix_one A 9 _ _ 100 (by simp [Rd.read, hr1]) (by decide)
  simp only [hpre]
  have hu : uvarint ([100] ++ List.replicate (10 - ([100] : Bytes).length) 0) 0 0 0 = 100 := by decide
  simp only [hu]
  rw [if_neg (by decide), if_neg (by decide)]
  -- the body comes out of the buffer in one read
  have hbne : body ≠ [] := by intro e; rw [e] at hb; simp at hb
  have hr2 := read_buffer A { sc with recvNonce := nonceOf (0 + 1), recvBuffer := body } [] 100 hbne
  simp only [hb, Nat.min_self] at hr2
  have ht : body.take 100 = body := List.take_of_length_le (by omega)
  have hd : body.drop 100 = [] := List.drop_eq_nil_of_le (by omega)
  rw [ht, hd] at hr2
  simp only [List.length_nil, Nat.zero_add]
  rw [show (100 + 2 : Nat) = (100 + 0) + 2 from rfl]
  rw [readFull]
  simp only [List.length_nil, ge_iff_le, Nat.le_zero_eq, Nat.sub_zero, List.nil_append]
  rw [if_neg (by decide)]
  simp only [Rd.read, hr2]
  rw [readFull_done A _ _ 100 body (by omega)]

/-! ### one honest side -/

theorem chunksOf_single (d : Bytes) (h0 : d ≠ []) (h : d.length ≤ dataMaxSize) : chunksOf d = [d] := by
  rw [chunksOf_of_ne d h0, List.take_of_length_le h, List.drop_eq_nil_of_le h, chunksOf_nil]

/-- One side of the handshake, given a well-formed peer: the ephemeral-key message of a
32-byte, non-blacklisted key for which X25519 succeeds, then ONE frame — sealed under this
side's receive key with counter 0 — carrying the auth message of a 32-byte key and a 64-byte
signature that verifies over the challenge. -/
theorem handshake_side (P : Prims) (A : AEAD) (locPriv locEph remEph remPub remSig s : Bytes)
    (hre : remEph.length = 32) (hso : hasSmallOrder remEph = false)
    (hdh : P.dh locEph remEph = some s)
    (hlp : (P.pubKey locPriv).length = 32) (hls : ∀ m, (P.sign locPriv m).length = 64)
    (hrp : remPub.length = 32) (hrs : remSig.length = 64)
    (hv : P.verify remPub (deriveSecrets (P.kdf s) (locIsLeast (P.ephPub locEph) remEph)).2.2 remSig = true)
    (hC : A.Correct (deriveSecrets (P.kdf s) (locIsLeast (P.ephPub locEph) remEph)).1)
    (hO : A.Overhead (deriveSecrets (P.kdf s) (locIsLeast (P.ephPub locEph) remEph)).1) :
    makeSecretConnection P A locPriv locEph
        (encEph remEph ++ sealedAt A (deriveSecrets (P.kdf s) (locIsLeast (P.ephPub locEph) remEph)).1 0
          (encAuth remPub remSig)) =
      ⟨encEph (P.ephPub locEph) ++
          sealedAt A (deriveSecrets (P.kdf s) (locIsLeast (P.ephPub locEph) remEph)).2.1 0
            (encAuth (P.pubKey locPriv)
              (P.sign locPriv (deriveSecrets (P.kdf s) (locIsLeast (P.ephPub locEph) remEph)).2.2)),
        [],
        .ok ⟨(deriveSecrets (P.kdf s) (locIsLeast (P.ephPub locEph) remEph)).2.1,
             (deriveSecrets (P.kdf s) (locIsLeast (P.ephPub locEph) remEph)).1,
             nonceOf 1, nonceOf 1, [], remPub⟩,
        (deriveSecrets (P.kdf s) (locIsLeast (P.ephPub locEph) remEph)).2.2⟩ := by
  obtain ⟨d, hd⟩ : ∃ d, d = deriveSecrets (P.kdf s) (locIsLeast (P.ephPub locEph) remEph) := ⟨_, rfl⟩
  simp only [← hd] at hv hC hO ⊢
  unfold makeSecretConnection
  simp only [readSized_eph A remEph _ hre, decEphBody_enc remEph hre, hso, Bool.false_eq_true, if_false, hdh,
    ← hd]
  unfold authenticate
  -- the auth message goes out as one frame under counter 0
  have hmsg := encAuth_length (P.pubKey locPriv) (P.sign locPriv d.2.2) hlp (hls _)
  have hne : encAuth (P.pubKey locPriv) (P.sign locPriv d.2.2) ≠ [] := by
    intro e; rw [e] at hmsg; simp at hmsg
  have hch := chunksOf_single _ hne (by rw [hmsg, dataMaxSize_eq]; omega)
  have hw := write_spec A ⟨d.2.1, d.1, nonceOf 0, nonceOf 0, [], []⟩
    (encAuth (P.pubKey locPriv) (P.sign locPriv d.2.2)) 0 rfl
    (by rw [hch]; simp [maxUint64_eq])
  simp only [hch, framesOfWrite, sealAll, List.append_nil, List.length_cons,
    List.length_nil] at hw
  simp only [hw, Bool.false_eq_true, if_false]
  -- the peer's auth message comes in through the fresh connection
  rw [encAuth_eq remPub remSig hrp hrs]
  have hbody : (0x0a :: 32 :: remPub ++ 0x12 :: 64 :: remSig : Bytes).length = 100 := by
    simp [hrp, hrs]
  have hrd := readSized_auth A ⟨d.2.1, d.1, nonceOf (0 + 1), nonceOf 0, [], []⟩
    (0x0a :: 32 :: remPub ++ 0x12 :: 64 :: remSig) hbody hC hO rfl rfl
  simp only at hrd
  simp only [hrd, decAuthBody_enc remPub remSig hrp hrs, hv, not_true_eq_false, if_false, Option.getD_some]

/-! ### byte order of the two ephemeral keys -/

theorem bytesLt_antisymm (a b : Bytes) (hl : a.length = b.length) (hne : a ≠ b) :
    bytesLt a b = !bytesLt b a := by
  induction a generalizing b with
  | nil =>
    cases b with
    | nil => exact absurd rfl hne
    | cons y ys => simp at hl
  | cons x xs ih =>
    cases b with
    | nil => simp at hl
    | cons y ys =>
      simp only [bytesLt]
      by_cases h1 : x < y
      · have h2 : ¬ y < x := by
          intro h; exact absurd (UInt8.lt_trans h1 h) (UInt8.lt_irrefl x)
        simp [h1, h2]
      · by_cases h2 : y < x
        · simp [h1, h2]
        · have hxy : x = y := UInt8.le_antisymm (UInt8.not_lt.1 h2) (UInt8.not_lt.1 h1)
          subst hxy
          simp only [h1, if_false]
          exact ih ys (by simpa using hl) (fun e => hne (by rw [e]))

theorem locIsLeast_swap (a b : Bytes) (hl : a.length = b.length) (hne : a ≠ b) :
    locIsLeast b a = !locIsLeast a b := by
  have h := bytesLt_antisymm a b hl hne
  unfold locIsLeast
  by_cases hab : bytesLt a b = true
  · have hba : bytesLt b a = false := by rw [hab] at h; simpa using h.symm
    simp [hab, hba, hne, Ne.symm hne]
  · have hab' : bytesLt a b = false := by simpa using hab
    have hba : bytesLt b a = true := by rw [hab'] at h; simpa using h.symm
    simp [hab', hba, hne]

theorem deriveSecrets_swap (okm : Bytes) (l : Bool) :
    (deriveSecrets okm (!l)).1 = (deriveSecrets okm l).2.1 ∧
    (deriveSecrets okm (!l)).2.1 = (deriveSecrets okm l).1 ∧
    (deriveSecrets okm (!l)).2.2 = (deriveSecrets okm l).2.2 := by
  cases l <;> exact ⟨rfl, rfl, rfl⟩

/-! ### two honest parties -/

theorem handshake_pair (P : Prims) (A : AEAD) (skA ephA skB ephB s : Bytes)
    (hla : (P.ephPub ephA).length = 32) (hlb : (P.ephPub ephB).length = 32)
    (hne : P.ephPub ephA ≠ P.ephPub ephB)
    (hsa : hasSmallOrder (P.ephPub ephA) = false) (hsb : hasSmallOrder (P.ephPub ephB) = false)
    (hdhA : P.dh ephA (P.ephPub ephB) = some s) (hdhB : P.dh ephB (P.ephPub ephA) = some s)
    (hpa : (P.pubKey skA).length = 32) (hpb : (P.pubKey skB).length = 32)
    (hga : ∀ m, (P.sign skA m).length = 64) (hgb : ∀ m, (P.sign skB m).length = 64)
    (hva : ∀ m, P.verify (P.pubKey skA) m (P.sign skA m) = true)
    (hvb : ∀ m, P.verify (P.pubKey skB) m (P.sign skB m) = true)
    (hC : ∀ k, A.Correct k) (hO : ∀ k, A.Overhead k) :
    makeSecretConnection P A skA ephA
        (encEph (P.ephPub ephB) ++
          sealedAt A (deriveSecrets (P.kdf s) (locIsLeast (P.ephPub ephA) (P.ephPub ephB))).1 0
            (encAuth (P.pubKey skB)
              (P.sign skB (deriveSecrets (P.kdf s) (locIsLeast (P.ephPub ephA) (P.ephPub ephB))).2.2))) =
      ⟨encEph (P.ephPub ephA) ++
          sealedAt A (deriveSecrets (P.kdf s) (locIsLeast (P.ephPub ephA) (P.ephPub ephB))).2.1 0
            (encAuth (P.pubKey skA)
              (P.sign skA (deriveSecrets (P.kdf s) (locIsLeast (P.ephPub ephA) (P.ephPub ephB))).2.2)),
        [],
        .ok ⟨(deriveSecrets (P.kdf s) (locIsLeast (P.ephPub ephA) (P.ephPub ephB))).2.1,
             (deriveSecrets (P.kdf s) (locIsLeast (P.ephPub ephA) (P.ephPub ephB))).1,
             nonceOf 1, nonceOf 1, [], P.pubKey skB⟩,
        (deriveSecrets (P.kdf s) (locIsLeast (P.ephPub ephA) (P.ephPub ephB))).2.2⟩ ∧
    makeSecretConnection P A skB ephB
        (encEph (P.ephPub ephA) ++
          sealedAt A (deriveSecrets (P.kdf s) (locIsLeast (P.ephPub ephA) (P.ephPub ephB))).2.1 0
            (encAuth (P.pubKey skA)
              (P.sign skA (deriveSecrets (P.kdf s) (locIsLeast (P.ephPub ephA) (P.ephPub ephB))).2.2))) =
      ⟨encEph (P.ephPub ephB) ++
          sealedAt A (deriveSecrets (P.kdf s) (locIsLeast (P.ephPub ephA) (P.ephPub ephB))).1 0
            (encAuth (P.pubKey skB)
              (P.sign skB (deriveSecrets (P.kdf s) (locIsLeast (P.ephPub ephA) (P.ephPub ephB))).2.2)),
        [],
        .ok ⟨(deriveSecrets (P.kdf s) (locIsLeast (P.ephPub ephA) (P.ephPub ephB))).1,
             (deriveSecrets (P.kdf s) (locIsLeast (P.ephPub ephA) (P.ephPub ephB))).2.1,
             nonceOf 1, nonceOf 1, [], P.pubKey skA⟩,
        (deriveSecrets (P.kdf s) (locIsLeast (P.ephPub ephA) (P.ephPub ephB))).2.2⟩ := by
  constructor
  · exact handshake_side P A skA ephA (P.ephPub ephB) (P.pubKey skB) _ s hlb hsb hdhA hpa hga hpb
      (hgb _) (hvb _) (hC _) (hO _)
  · have hsw := locIsLeast_swap (P.ephPub ephA) (P.ephPub ephB) (hla.trans hlb.symm) hne
    obtain ⟨e1, e2, e3⟩ := deriveSecrets_swap (P.kdf s) (locIsLeast (P.ephPub ephA) (P.ephPub ephB))
    have h := handshake_side P A skB ephB (P.ephPub ephA) (P.pubKey skA)
      (P.sign skA (deriveSecrets (P.kdf s) (locIsLeast (P.ephPub ephB) (P.ephPub ephA))).2.2) s hla hsa hdhB hpb hgb
      hpa (hga _) (hva _) (hC _) (hO _)
    rw [hsw, e1, e2, e3] at h
    exact h

end GnoVerif.C42
