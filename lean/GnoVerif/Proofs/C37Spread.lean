/-
C37: priority spread — RescalePriorities brings max−min within diffMax, centring keeps it
and puts the sum in [0,n), one round widens it by less than T.
-/
import GnoVerif.Proofs.C37Update
namespace GnoVerif.C37

/-! ### truncating division -/

theorem ediv_sub_le {a b r D : Int} (hr : 0 < r) (h : a - b ≤ r * D) : a / r - b / r ≤ D := by
  have h1 := Int.mul_ediv_self_le (x := a) (k := r) (by omega)
  have h2 := Int.lt_mul_ediv_self_add (x := b) hr
  have h3 : r * (a / r) < r * (b / r + 1 + D) := by
    have : r * (b / r + 1 + D) = r * (b / r) + r + r * D := by ring
    rw [this]; omega
  have := Int.lt_of_mul_lt_mul_left h3 (by omega)
  omega

theorem tdiv_of_neg {x r : Int} (hx : x < 0) : Int.tdiv x r = -((-x) / r) := by
  have h : x = -(-x) := by omega
  rw [h, Int.neg_tdiv, Int.tdiv_eq_ediv_of_nonneg (by omega)]
  simp

/-- `x/r − y/r ≤ D` for Go's truncating division whenever `x − y ≤ r·D` -/
theorem tdiv_sub_le {x y r D : Int} (hr : 0 < r) (hD : 0 ≤ D) (h : x - y ≤ r * D) :
    Int.tdiv x r - Int.tdiv y r ≤ D := by
  by_cases hx : 0 ≤ x
  · by_cases hy : 0 ≤ y
    · rw [Int.tdiv_eq_ediv_of_nonneg hx, Int.tdiv_eq_ediv_of_nonneg hy]
      exact ediv_sub_le hr h
    · rw [Int.tdiv_eq_ediv_of_nonneg hx, tdiv_of_neg (by omega)]
      -- x/r + (-y)/r ≤ D
      have h1 := Int.mul_ediv_self_le (x := x) (k := r) (by omega)
      have h2 := Int.mul_ediv_self_le (x := -y) (k := r) (by omega)
      have h3 : r * (x / r + (-y) / r) ≤ r * D := by
        have : r * (x / r + (-y) / r) = r * (x / r) + r * ((-y) / r) := by ring
        rw [this]; omega
      have := Int.le_of_mul_le_mul_left h3 hr
      omega
  · by_cases hy : 0 ≤ y
    · rw [tdiv_of_neg (by omega), Int.tdiv_eq_ediv_of_nonneg hy]
      have h1 : 0 ≤ (-x) / r := Int.ediv_nonneg (by omega) (by omega)
      have h2 : 0 ≤ y / r := Int.ediv_nonneg hy (by omega)
      omega
    · rw [tdiv_of_neg (by omega), tdiv_of_neg (by omega)]
      have := ediv_sub_le (a := -y) (b := -x) (D := D) hr (by omega)
      omega

theorem tdiv_bound {p r B : Int} (hr : 1 ≤ r) (h1 : -B ≤ p) (h2 : p ≤ B) :
    -B ≤ Int.tdiv p r ∧ Int.tdiv p r ≤ B := by
  by_cases hp : 0 ≤ p
  · rw [Int.tdiv_eq_ediv_of_nonneg hp]
    have := Int.ediv_le_self r hp
    have := Int.ediv_nonneg hp (show 0 ≤ r by omega)
    omega
  · rw [tdiv_of_neg (by omega)]
    have := Int.ediv_le_self r (show 0 ≤ -p by omega)
    have := Int.ediv_nonneg (show 0 ≤ -p by omega) (show 0 ≤ r by omega)
    omega

/-! ### `RescalePriorities` -/

theorem spreadLe_of_prioDiff {vs : List Val} {B D : Int} (hne : vs ≠ [])
    (hB : B ≤ 4611686018427387903) (hb : PrioBound vs B) (h : prioDiff vs ≤ D) : SpreadLe vs D := by
  obtain ⟨u, hu, w, hw, hd, hmax, hmin⟩ := prioDiff_spec hne hB hb
  intro x hx y hy
  have := hmax x hx
  have := hmin y hy
  omega

/-- After `RescalePriorities(D)` all priorities are within `D` of each other; the division never
panics; the magnitudes do not grow.  (`2B + D ≤ MaxInt64` is what keeps `diff + diffMax - 1` from
wrapping — the reason given for `MaxTotalVotingPower` in the source.) -/
theorem rescale_spec {vs : List Val} {B D : Int} (hne : vs ≠ []) (hb : PrioBound vs B)
    (hD : 0 < D) (hBD : 2 * B + D ≤ maxInt64) :
    rescalePanics D vs = false ∧ SpreadLe (rescale D vs) D ∧ PrioBound (rescale D vs) B := by
  have hB0 : 0 ≤ B := by
    cases vs with
    | nil => exact absurd rfl hne
    | cons x xs => have := hb x (by simp); omega
  have hB : B ≤ 4611686018427387903 := by unfold maxInt64 at hBD; omega
  obtain ⟨u, hu, w, hw, hd, hmax, hmin⟩ := prioDiff_spec hne hB hb
  have hu' := hb u hu
  have hw' := hb w hw
  by_cases hle : prioDiff vs ≤ D
  · have hres : rescale D vs = vs := by
      unfold rescale; rw [if_neg (by omega), if_neg (by omega)]
    refine ⟨?_, ?_, ?_⟩
    · unfold rescalePanics
      have : decide (prioDiff vs > D) = false := by simp only [decide_eq_false_iff_not]; omega
      simp [this]
    · rw [hres]; exact spreadLe_of_prioDiff hne hB hb hle
    · rw [hres]; exact hb
  · -- the ratio
    have hd0 : 0 ≤ prioDiff vs := by omega
    have hd2 : prioDiff vs ≤ 2 * B := by omega
    have hr_eq : rescaleRatio D vs = (prioDiff vs + D - 1) / D := by
      unfold rescaleRatio
      rw [wrap64_id (x := prioDiff vs + D) (by unfold minInt64; omega) (by omega),
        wrap64_id (x := prioDiff vs + D - 1) (by unfold minInt64; omega) (by omega),
        Int.tdiv_eq_ediv_of_nonneg (by omega)]
    have hr2 : 2 ≤ rescaleRatio D vs := by
      rw [hr_eq]; exact Int.le_ediv_of_mul_le hD (by omega)
    have hrD : prioDiff vs ≤ rescaleRatio D vs * D := by
      have := Int.lt_mul_ediv_self_add (x := prioDiff vs + D - 1) hD
      rw [hr_eq, Int.mul_comm]; omega
    have hres : rescale D vs =
        vs.map fun v => setPrio v (Int.tdiv v.prio (rescaleRatio D vs)) := by
      unfold rescale
      rw [if_neg (by omega), if_pos (by omega)]
      apply List.map_congr_left
      intro v hv
      have := tdiv_bound (r := rescaleRatio D vs) (by omega) (hb v hv).1 (hb v hv).2
      rw [wrap64_id (by unfold minInt64; unfold maxInt64 at hBD; omega) (by omega)]
    refine ⟨?_, ?_, ?_⟩
    · unfold rescalePanics
      have : decide (rescaleRatio D vs = 0) = false := by simp only [decide_eq_false_iff_not]; omega
      simp [this]
    · rw [hres]
      intro x' hx' y' hy'
      simp only [List.mem_map] at hx' hy'
      obtain ⟨x, hx, rfl⟩ := hx'
      obtain ⟨y, hy, rfl⟩ := hy'
      simp only [setPrio_prio]
      apply tdiv_sub_le (by omega) (by omega)
      have := hmax x hx
      have := hmin y hy
      omega
    · rw [hres]
      intro x' hx'
      simp only [List.mem_map] at hx'
      obtain ⟨x, hx, rfl⟩ := hx'
      simp only [setPrio_prio]
      exact tdiv_bound (by omega) (hb x hx).1 (hb x hx).2

/-! ### `shiftByAvgProposerPriority` -/

theorem sumPrio_map_sub (vs : List Val) (a : Int) :
    sumPrio (vs.map fun v => setPrio v (v.prio - a)) = sumPrio vs - vs.length * a := by
  induction vs with
  | nil => simp [sumPrio]
  | cons x xs ih =>
    simp only [List.map_cons, sumPrio, setPrio_prio, ih, List.length_cons]
    push_cast; ring

theorem sumPrio_bounds {vs : List Val} {B : Int} (hb : PrioBound vs B) :
    -(vs.length * B) ≤ sumPrio vs ∧ sumPrio vs ≤ vs.length * B := by
  induction vs with
  | nil => simp [sumPrio]
  | cons x xs ih =>
    have hx := hb x (by simp)
    have := ih (fun v hv => hb v (by simp [hv]))
    simp only [sumPrio, List.length_cons]
    have e : ((xs.length + 1 : Nat) : Int) * B = xs.length * B + B := by push_cast; ring
    rw [e]; omega

theorem exists_nonpos_of_sum_lt {vs : List Val} (h : sumPrio vs < vs.length) : ∃ w ∈ vs, w.prio ≤ 0 := by
  by_contra hc
  simp only [not_exists, not_and, Int.not_le] at hc
  have : (vs.length : Int) ≤ sumPrio vs := by
    clear h
    induction vs with
    | nil => simp [sumPrio]
    | cons x xs ih =>
      have := hc x (by simp)
      have := ih (fun v hv => hc v (by simp [hv]))
      simp only [sumPrio, List.length_cons]; push_cast; omega
  omega

theorem exists_nonneg_of_sum_nonneg {vs : List Val} (hne : vs ≠ []) (h : 0 ≤ sumPrio vs) :
    ∃ w ∈ vs, 0 ≤ w.prio := by
  by_contra hc
  simp only [not_exists, not_and, Int.not_le] at hc
  have : sumPrio vs ≤ -(vs.length : Int) := by
    clear h hne
    induction vs with
    | nil => simp [sumPrio]
    | cons x xs ih =>
      have := hc x (by simp)
      have := ih (fun v hv => hc v (by simp [hv]))
      simp only [sumPrio, List.length_cons]; push_cast; omega
  have := List.length_pos_iff.2 hne
  omega

/-- Centring keeps all differences, puts the sum into `[0, n)` and hence every priority into `[-D, D]`. -/
theorem shift_spec {vs : List Val} {B D : Int} (hne : vs ≠ []) (hb : PrioBound vs B)
    (h2B : 2 * B ≤ maxInt64) (hs : SpreadLe vs D) :
    SpreadLe (shiftByAvg vs) D ∧ PrioBound (shiftByAvg vs) D ∧
    0 ≤ sumPrio (shiftByAvg vs) ∧ sumPrio (shiftByAvg vs) < vs.length := by
  have hl : (0 : Int) < vs.length := by have := List.length_pos_iff.2 hne; omega
  obtain ⟨sb1, sb2⟩ := sumPrio_bounds hb
  have ha1 : -B ≤ avgPrio vs := by
    unfold avgPrio
    apply Int.le_ediv_of_mul_le hl
    have : -B * vs.length = -(vs.length * B) := by ring
    rw [this]; exact sb1
  have ha2 : avgPrio vs ≤ B := by
    unfold avgPrio
    apply Int.ediv_le_of_le_mul hl
    rw [Int.mul_comm]; exact sb2
  have hsh : shiftByAvg vs = vs.map fun v => setPrio v (v.prio - avgPrio vs) := by
    unfold shiftByAvg
    apply List.map_congr_left
    intro v hv
    have := hb v hv
    rw [clip_id (by unfold minInt64; unfold maxInt64 at h2B; omega) (by omega)]
  have hsum : sumPrio (shiftByAvg vs) = sumPrio vs % vs.length := by
    rw [hsh, sumPrio_map_sub, Int.emod_def]
    unfold avgPrio; rfl
  have hs0 : 0 ≤ sumPrio (shiftByAvg vs) := by rw [hsum]; exact Int.emod_nonneg _ (by omega)
  have hs1 : sumPrio (shiftByAvg vs) < vs.length := by rw [hsum]; exact Int.emod_lt_of_pos _ hl
  have hspread : SpreadLe (shiftByAvg vs) D := by
    rw [hsh]
    intro x' hx' y' hy'
    simp only [List.mem_map] at hx' hy'
    obtain ⟨x, hx, rfl⟩ := hx'
    obtain ⟨y, hy, rfl⟩ := hy'
    simp only [setPrio_prio]
    have := hs x hx y hy
    omega
  have hne' : shiftByAvg vs ≠ [] := by rw [hsh]; simpa using hne
  have hlen : (shiftByAvg vs).length = vs.length := by rw [hsh]; simp
  obtain ⟨w, hw, hw0⟩ := exists_nonpos_of_sum_lt (vs := shiftByAvg vs) (by rw [hlen]; exact hs1)
  obtain ⟨u, hu, hu0⟩ := exists_nonneg_of_sum_nonneg hne' hs0
  refine ⟨hspread, ?_, hs0, hs1⟩
  intro x hx
  have := hspread x hx w hw
  have := hspread u hu x hx
  omega

/-! ### one round -/

theorem power_le_sumPower {vs : List Val} (hpos : ∀ v ∈ vs, 1 ≤ v.power) {v : Val} (hv : v ∈ vs) :
    v.power ≤ sumPower vs := by
  induction vs with
  | nil => simp at hv
  | cons x xs ih =>
    simp only [List.mem_cons] at hv
    simp only [sumPower]
    have hnn : 0 ≤ sumPower xs := by
      have := sumPower_sublist_le (List.nil_sublist xs) (fun v hv => by have := hpos v (by simp [hv]); omega)
      simpa [sumPower] using this
    rcases hv with rfl | hv
    · omega
    · have := ih (fun v hv => hpos v (by simp [hv])) hv
      have := hpos x (by simp); omega

/-- One round from a state whose priorities are within `S` of each other (and within `[-2T, 2T]`):
afterwards they are within `max (S + T - 1) T`, and within `[-3T, 3T]`. -/
theorem step_spec {vs : List Val} {T S Bd : Int} (hne : vs ≠ []) (hsorted : SortedAddr vs)
    (hpos : ∀ v ∈ vs, 1 ≤ v.power) (hT : sumPower vs = T) (hTle : T ≤ maxTotal)
    (hb : PrioBound vs (2 * T)) (hs : SpreadLe vs S) (hBd1 : S + T - 1 ≤ Bd) (hBd2 : T ≤ Bd) :
    ∃ m ∈ vs, stepOnce T vs = (vs.map (bump m.addr T), some m.addr) ∧
      SpreadLe (vs.map (bump m.addr T)) Bd ∧ PrioBound (vs.map (bump m.addr T)) (3 * T) := by
  have hT1 : 1 ≤ T := by rw [← hT]; exact sumPower_pos hne hpos
  have hpow : ∀ v ∈ vs, v.power ≤ T := fun v hv => hT ▸ power_le_sumPower hpos hv
  obtain ⟨m, hm, hmax, hstep⟩ := stepOnce_pure (T := T) hne
    (fun v hv => by
      have := hb v hv; have := hpos v hv; have := hpow v hv
      unfold minInt64 maxInt64; unfold maxTotal at hTle; omega)
    (fun v hv => by
      have := hb v hv; have := hpos v hv; have := hpow v hv
      unfold minInt64 maxInt64; unfold maxTotal at hTle; omega)
  refine ⟨m, hm, hstep, ?_, ?_⟩
  · intro x' hx' y' hy'
    simp only [List.mem_map] at hx' hy'
    obtain ⟨x, hx, rfl⟩ := hx'
    obtain ⟨y, hy, rfl⟩ := hy'
    simp only [bump, setPrio_prio]
    have hxy := hs x hx y hy
    have := hpos x hx; have := hpos y hy; have := hpow x hx; have := hpow y hy
    by_cases hxa : x.addr = m.addr
    · by_cases hya : y.addr = m.addr
      · have : x = y := addr_inj hsorted hx hy (by omega)
        subst this
        simp only [hxa, if_true]; omega
      · simp only [hxa, hya, if_true, if_false]; omega
    · by_cases hya : y.addr = m.addr
      · have hym : y = m := addr_inj hsorted hy hm hya
        subst hym
        have := hmax x hx
        simp only [hxa, if_true, if_false]; omega
      · simp only [hxa, hya, if_false]; omega
  · intro x' hx'
    simp only [List.mem_map] at hx'
    obtain ⟨x, hx, rfl⟩ := hx'
    simp only [bump, setPrio_prio]
    have := hb x hx; have := hpos x hx; have := hpow x hx
    by_cases hxa : x.addr = m.addr
    · simp only [hxa, if_true]; omega
    · simp only [hxa, if_false]; omega

end GnoVerif.C37
