import GnoVerif.Proofs.C15
/-! C15: what phases 2 and 3 do to the state (core-only). -/
namespace GnoVerif.C15

variable {π σ β : Type} [DecidableEq π]

/-- same account number, sequence and key (only the coins may differ) -/
def Account.sameId (a b : Account π) : Prop :=
  a.accNum = b.accNum ∧ a.seq = b.seq ∧ a.pubKey = b.pubKey

def Session.sameId (a b : Session π) : Prop :=
  a.accNum = b.accNum ∧ a.seq = b.seq ∧ a.pubKey = b.pubKey

/-! ### phase 2 -/

/-- How a fee transfer relates two states: sessions and clock untouched; every
    existing account keeps its identity; at most one account (the collector's)
    is created, with the next account number. -/
structure FeeRel (c : Addr) (s s1 : State π) : Prop where
  sessions : s1.sessions = s.sessions
  height : s1.height = s.height
  time : s1.time = s.time
  notes : s1.notes = s.notes
  keep : ∀ x acc, s.accounts x = some acc → ∃ acc', s1.accounts x = some acc' ∧ acc'.sameId acc
  fresh : ∀ x, s.accounts x = none →
    s1.accounts x = none ∨
    (x = c ∧ ∃ acc', s1.accounts x = some acc' ∧ acc'.accNum = s.nextAccNum ∧ acc'.seq = 0 ∧ acc'.pubKey = none ∧
      s1.nextAccNum = s.nextAccNum + 1)
  next : s1.nextAccNum = s.nextAccNum ∨ (s.accounts c = none ∧ s1.nextAccNum = s.nextAccNum + 1)

omit [DecidableEq π] in
theorem FeeRel.refl (c : Addr) (s : State π) : FeeRel c s s :=
  ⟨rfl, rfl, rfl, rfl, fun _ acc h => ⟨acc, h, rfl, rfl, rfl⟩, fun _ h => .inl h, .inl rfl⟩

omit [DecidableEq π] in
theorem credit_feeRel (s : State π) (c : Addr) (amt : Nat) : FeeRel c s (credit s c amt) := by
  unfold credit
  split
  · rename_i acc hacc
    refine ⟨rfl, rfl, rfl, rfl, ?_, ?_, .inl rfl⟩
    · intro x a hx
      by_cases hxc : x = c
      · subst hxc
        rw [hacc] at hx
        injection hx with hx
        subst hx
        exact ⟨_, upd_same _ _ _, rfl, rfl, rfl⟩
      · exact ⟨a, by simpa [upd_other _ _ _ _ hxc] using hx, rfl, rfl, rfl⟩
    · intro x hx
      by_cases hxc : x = c
      · subst hxc
        rw [hacc] at hx
        cases hx
      · left
        simpa [upd_other _ _ _ _ hxc] using hx
  · rename_i hacc
    refine ⟨rfl, rfl, rfl, rfl, ?_, ?_, .inr ⟨hacc, rfl⟩⟩
    · intro x a hx
      by_cases hxc : x = c
      · subst hxc
        rw [hacc] at hx
        cases hx
      · exact ⟨a, by simpa [upd_other _ _ _ _ hxc] using hx, rfl, rfl, rfl⟩
    · intro x hx
      by_cases hxc : x = c
      · subst hxc
        right
        exact ⟨rfl, _, upd_same _ _ _, rfl, rfl, rfl, rfl⟩
      · left
        simpa [upd_other _ _ _ _ hxc] using hx

omit [DecidableEq π] in
theorem deductFees_feeRel (cfg : Config) (s s1 : State π) (payer : Addr) (gas : Bool) (amt : Nat)
    (h : deductFees cfg s payer gas amt = .ok s1) : FeeRel cfg.collector s s1 := by
  unfold deductFees at h
  cases ha : s.accounts payer with
  | none => simp [ha] at h
  | some a =>
  simp only [ha] at h
  by_cases hb : (if gas = true then a.coins else 0) < amt
  · simp [hb] at h
  simp only [hb, ↓reduceIte] at h
  injection h with h
  subst h
  -- first the debit (an identity-preserving update of an existing account), then the credit
  have hdeb : FeeRel cfg.collector s
      { s with accounts := upd s.accounts payer (some { a with coins := a.coins - amt }) } := by
    refine ⟨rfl, rfl, rfl, rfl, ?_, ?_, .inl rfl⟩
    · intro x acc hx
      by_cases hxp : x = payer
      · subst hxp
        rw [ha] at hx
        injection hx with hx
        subst hx
        exact ⟨_, upd_same _ _ _, rfl, rfl, rfl⟩
      · exact ⟨acc, by simpa [upd_other _ _ _ _ hxp] using hx, rfl, rfl, rfl⟩
    · intro x hx
      by_cases hxp : x = payer
      · subst hxp
        rw [ha] at hx
        cases hx
      · left
        simpa [upd_other _ _ _ _ hxp] using hx
  have hcred := credit_feeRel
    ({ s with accounts := upd s.accounts payer (some { a with coins := a.coins - amt }) } : State π)
    cfg.collector amt
  -- compose
  refine ⟨hcred.sessions.trans hdeb.sessions, hcred.height.trans hdeb.height, hcred.time.trans hdeb.time,
    hcred.notes.trans hdeb.notes, ?_, ?_, ?_⟩
  · intro x acc hx
    obtain ⟨acc1, h1, e1⟩ := hdeb.keep x acc hx
    obtain ⟨acc2, h2, e2⟩ := hcred.keep x acc1 h1
    exact ⟨acc2, h2, e2.1.trans e1.1, e2.2.1.trans e1.2.1, e2.2.2.trans e1.2.2⟩
  · intro x hx
    rcases hdeb.fresh x hx with h1 | ⟨_, acc', h1, _⟩
    · rcases hcred.fresh x h1 with h2 | ⟨hc, acc', h2, h3, h4, h5, h6⟩
      · exact .inl h2
      · exact .inr ⟨hc, acc', h2, h3, h4, h5, h6⟩
    · -- the debit never creates an account
      by_cases hxp : x = payer
      · subst hxp
        rw [ha] at hx
        cases hx
      · simp [upd_other _ _ _ _ hxp, hx] at h1
  · rcases hcred.next with h | ⟨hn, h⟩
    · exact .inl h
    · by_cases hcp : cfg.collector = payer
      · rw [hcp] at hn
        simp at hn
      · right
        refine ⟨?_, h⟩
        simpa [upd_other _ _ _ _ hcp] using hn

omit [DecidableEq π] in
theorem deductFees_payable (cfg : Config) (s s1 : State π) (payer : Addr) (gas : Bool) (amt : Nat)
    (h : deductFees cfg s payer gas amt = .ok s1) :
    ∃ a, s.accounts payer = some a ∧ amt ≤ (if gas = true then a.coins else 0) := by
  unfold deductFees at h
  cases ha : s.accounts payer with
  | none => simp [ha] at h
  | some a =>
  simp only [ha] at h
  by_cases hb : (if gas = true then a.coins else 0) < amt
  · simp [hb] at h
  exact ⟨a, rfl, Nat.le_of_not_lt hb⟩

omit [DecidableEq π] in
theorem phase2_payable (cfg : Config) (s : State π) (tx : Tx π σ) (r0 : Resolved π) (s1 : State π)
    (r0' : Resolved π) (h : phase2 cfg s tx r0 = .ok (s1, r0')) :
    tx.fee.amount = 0 ∨
    ∃ a, s.accounts r0.addr = some a ∧ tx.fee.amount ≤ (if tx.fee.gas = true then a.coins else 0) := by
  by_cases h0 : tx.fee.amount = 0
  · exact .inl h0
  right
  unfold phase2 at h
  simp only [] at h
  split at h
  · cases h
  simp only [h0, if_false] at h
  split at h
  · cases h
  split at h
  · cases h
  rename_i s1' hfee
  exact deductFees_payable cfg s s1' r0.addr tx.fee.gas tx.fee.amount hfee

/-- What phase 2 returns. -/
structure Phase2Ok (cfg : Config) (s : State π) (r0 : Resolved π) (s1 : State π) (r0' : Resolved π) : Prop where
  rel : FeeRel cfg.collector s s1
  addr : r0'.addr = r0.addr
  acc : s1.accounts r0.addr = some r0'.acc
  accId : r0'.acc.sameId r0.acc
  sess : (r0.sess = none ∧ r0'.sess = none) ∨
    (∃ sa ss ss', r0.sess = some (sa, ss) ∧ r0'.sess = some (sa, ss') ∧ ss'.sameId ss)

omit [DecidableEq π] in
theorem deductSessionSpend_sameId (ss ss' : Session π) (gas : Bool) (amt : Nat) (now : Int)
    (h : deductSessionSpend ss gas amt now = some ss') : ss'.sameId ss := by
  unfold deductSessionSpend at h
  repeat' split at h
  all_goals first
    | (cases h; exact ⟨rfl, rfl, rfl⟩)
    | cases h

omit [DecidableEq π] in
theorem phase2_ok (cfg : Config) (s : State π) (tx : Tx π σ) (r0 : Resolved π) (s1 : State π)
    (r0' : Resolved π) (hacc : s.accounts r0.addr = some r0.acc)
    (h : phase2 cfg s tx r0 = .ok (s1, r0')) : Phase2Ok cfg s r0 s1 r0' := by
  unfold phase2 at h
  simp only [] at h
  split at h
  · cases h
  split at h
  · injection h with h
    injection h with h1 h2
    subst h1 h2
    refine ⟨FeeRel.refl _ _, rfl, hacc, ⟨rfl, rfl, rfl⟩, ?_⟩
    cases hs : r0.sess with
    | none => exact .inl ⟨rfl, rfl⟩
    | some p => exact .inr ⟨p.1, p.2, p.2, rfl, rfl, rfl, rfl, rfl⟩
  split at h
  · cases h
  rename_i sess' hsess
  split at h
  · cases h
  rename_i s1' hfee
  split at h
  · cases h
  rename_i acc' hacc'
  injection h with h
  injection h with h1 h2
  subst h1 h2
  have hrel := deductFees_feeRel cfg s s1' r0.addr tx.fee.gas tx.fee.amount hfee
  obtain ⟨acc'', h2, hid⟩ := hrel.keep _ _ hacc
  rw [hacc'] at h2
  injection h2 with h2
  subst h2
  refine ⟨hrel, rfl, hacc', hid, ?_⟩
  cases hs : r0.sess with
  | none =>
    simp only [hs] at hsess
    injection hsess with hsess
    exact .inl ⟨rfl, hsess.symm⟩
  | some p =>
    obtain ⟨sa, ss⟩ := p
    simp only [hs] at hsess
    split at hsess
    · cases hsess
    rename_i ss' hd
    injection hsess with hsess
    exact .inr ⟨sa, ss, ss', rfl, hsess.symm, deductSessionSpend_sameId _ _ _ _ _ hd⟩

end GnoVerif.C15
