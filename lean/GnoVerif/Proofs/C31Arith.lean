import GnoVerif.Spec.C31
/-! Quorum arithmetic for C31 (core Lean only): two +2/3 sets share an honest validator. -/
set_option linter.unusedSimpArgs false
set_option linter.unusedVariables false
namespace GnoVerif.C31

/-- The arithmetic heart of quorum intersection, over `Int`: if `a` and `b` both exceed two
thirds of `T`, their overlap `ab` (at least `a + b - T`) exceeds any `f` of at most one third. -/
theorem quorum_overlap_int (T a b ab f : Int)
    (hincl : a + b ≤ T + ab) (ha : 2 * T < 3 * a) (hb : 2 * T < 3 * b) (hf : 3 * f ≤ T) :
    f < ab := by omega

theorem sumIf_mono {P Q : Val → Bool} (h : ∀ i, P i = true → Q i = true) (ps : List Nat) (i : Nat) :
    sumIf P ps i ≤ sumIf Q ps i := by
  induction ps generalizing i with
  | nil => simp [sumIf]
  | cons p ps ih =>
    simp only [sumIf]
    have := ih (i + 1)
    by_cases hP : P i = true
    · simp [hP, h i hP]; omega
    · simp [hP]; omega

/-- inclusion–exclusion, the half that is needed: `|P| + |Q| ≤ |all| + |P ∩ Q|` -/
theorem sumIf_incl_excl (P Q : Val → Bool) (ps : List Nat) (i : Nat) :
    sumIf P ps i + sumIf Q ps i ≤ sumIf (fun _ => true) ps i + sumIf (fun j => P j && Q j) ps i := by
  induction ps generalizing i with
  | nil => simp [sumIf]
  | cons p ps ih =>
    simp only [sumIf]
    have := ih (i + 1)
    by_cases hP : P i = true <;> by_cases hQ : Q i = true <;> simp [hP, hQ] <;> omega

/-- a set heavier than `Q` has a member (inside the index range) outside `Q` -/
theorem sumIf_lt_exists {P Q : Val → Bool} (ps : List Nat) (i : Nat)
    (h : sumIf Q ps i < sumIf P ps i) :
    ∃ j, i ≤ j ∧ j < i + ps.length ∧ P j = true ∧ Q j = false := by
  induction ps generalizing i with
  | nil => simp [sumIf] at h
  | cons p ps ih =>
    simp only [sumIf] at h
    by_cases hh : sumIf Q ps (i + 1) < sumIf P ps (i + 1)
    · obtain ⟨j, h1, h2, h3, h4⟩ := ih (i + 1) hh
      exact ⟨j, by omega, by simp; omega, h3, h4⟩
    · by_cases hP : P i = true <;> by_cases hQ : Q i = true <;> simp [hP, hQ] at h
      · omega
      · exact ⟨i, Nat.le_refl _, by simp, hP, by simpa using hQ⟩
      · omega
      · omega

theorem powerOf_mono (c : Cfg) {P Q : Val → Bool} (h : ∀ i, P i = true → Q i = true) :
    c.powerOf P ≤ c.powerOf Q := sumIf_mono h _ _

/-- **Quorum intersection.**  Two sets of validators that each hold more than two thirds of
the total power have an HONEST validator in common, when the faulty power is at most one third. -/
theorem quorum_intersection (c : Cfg) (hf : c.FewFaulty) (P Q : Val → Bool)
    (hP : 2 * c.total < 3 * c.powerOf P) (hQ : 2 * c.total < 3 * c.powerOf Q) :
    ∃ i, c.honest i ∧ P i = true ∧ Q i = true := by
  have hie := sumIf_incl_excl P Q c.powers 0
  have hlt : c.powerOf c.byz < c.powerOf (fun j => P j && Q j) := by
    have := quorum_overlap_int (c.total : Int) (c.powerOf P) (c.powerOf Q)
      (c.powerOf (fun j => P j && Q j)) (c.powerOf c.byz)
      (by unfold Cfg.powerOf Cfg.total Cfg.powerOf at *; omega) (by omega) (by omega)
      (by unfold Cfg.FewFaulty at hf; omega)
    omega
  obtain ⟨j, _, h2, h3, h4⟩ := sumIf_lt_exists c.powers 0 hlt
  simp only [Bool.and_eq_true] at h3
  exact ⟨j, ⟨by simpa [Cfg.n] using h2, h4⟩, h3.1, h3.2⟩

/-- a +2/3 set contains an honest validator -/
theorem quorum_has_honest (c : Cfg) (hf : c.FewFaulty) (P : Val → Bool)
    (hP : 2 * c.total < 3 * c.powerOf P) : ∃ i, c.honest i ∧ P i = true := by
  obtain ⟨i, h1, h2, _⟩ := quorum_intersection c hf P P hP hP
  exact ⟨i, h1, h2⟩

theorem hasVote_mono {L L' : List Vote} (h : ∀ v, v ∈ L → v ∈ L') (H r : Nat) (t : VType)
    (b : Option Block) (a : Val) : hasVote L H r t b a = true → hasVote L' H r t b a = true := by
  simp only [hasVote, decide_eq_true_eq]; exact h _

theorem quorum_mono (c : Cfg) {L L' : List Vote} (h : ∀ v, v ∈ L → v ∈ L') {H r : Nat} {t : VType}
    {b : Option Block} : quorum c L H r t b → quorum c L' H r t b := by
  intro hq
  have := powerOf_mono c (hasVote_mono h H r t b)
  unfold quorum at *; omega

theorem polka_mono (c : Cfg) {L L' : List Vote} (h : ∀ v, v ∈ L → v ∈ L') {H r : Nat}
    {b : Option Block} : polka c L H r b → polka c L' H r b := quorum_mono c h

end GnoVerif.C31
