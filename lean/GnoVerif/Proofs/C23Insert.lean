/-
Proofs.C23Insert — `nodeInsert` / `treeInsert` refine `OMap.set` and preserve
the search-order invariant (for every branching factor).
-/
import GnoVerif.Proofs.C23Ord

namespace GnoVerif.C23
open GnoVerif

/-! ### leaves -/

/-- `searchLeaf` answers in existential form. -/
theorem searchLeaf_found {es : List Entry} (hs : OMap.Sorted es) {key : Key}
    (hf : (searchLeaf ⟨es⟩ key).2 = true) :
    ∃ A v0 C, es = A ++ (key, v0) :: C ∧ A.length = (searchLeaf ⟨es⟩ key).1 ∧
      (∀ x ∈ A, x.1 < key) ∧ (∀ x ∈ C, key < x.1) := by
  obtain ⟨hle, hA, hT, _⟩ := searchLeaf_spec hs key
  obtain ⟨v0, hes, hC⟩ := hT hf
  refine ⟨_, v0, _, hes, ?_, hA, hC⟩
  have hlt : (searchLeaf ⟨es⟩ key).1 < es.length := by
    have := congrArg List.length hes
    simp only [List.length_append, List.length_cons, List.length_take, List.length_drop] at this
    omega
  simp only [List.length_take]; omega

theorem searchLeaf_notfound {es : List Entry} (hs : OMap.Sorted es) {key : Key}
    (hf : (searchLeaf ⟨es⟩ key).2 = false) :
    ∃ A C, es = A ++ C ∧ A.length = (searchLeaf ⟨es⟩ key).1 ∧
      (∀ x ∈ A, x.1 < key) ∧ (∀ x ∈ C, key < x.1) := by
  obtain ⟨hle, hA, _, hF⟩ := searchLeaf_spec hs key
  refine ⟨_, _, (List.take_append_drop _ es).symm, ?_, hA, hF hf⟩
  simp only [List.length_take]; omega

theorem leafOrd_set {es : List Entry} {lo hi : Option Key} (h : LeafOrd es lo hi) {key : Key} (v : Val)
    (hlo : lbOk lo key) (hhi : ubOk hi key) : LeafOrd (OMap.set es key v) lo hi := by
  refine ⟨OMap.sorted_set h.1 key v, ?_, h.2.2⟩
  intro e he
  rcases OMap.mem_set he with rfl | he
  · exact ⟨hlo, hhi⟩
  · exact h.2.1 e he

/-- cutting a leaf's entries at `sp`: the separator is the first key of the right part. -/
theorem leafOrd_split {all : List Entry} {lo hi : Option Key} (h : LeafOrd all lo hi) {sp : Nat}
    (hsp : sp < all.length) :
    LeafOrd (all.take sp) lo (some ((all.drop sp).headD ([], [])).1) ∧
    LeafOrd (all.drop sp) (some ((all.drop sp).headD ([], [])).1) hi := by
  obtain ⟨hs, hb, hg⟩ := h
  have hd : all.drop sp = all[sp] :: all.drop (sp + 1) := (List.getElem_cons_drop (h := hsp)).symm
  have hsplit : all = all.take sp ++ all.drop sp := (List.take_append_drop sp all).symm
  have hs' : OMap.Sorted (all.take sp ++ all.drop sp) := by rw [← hsplit]; exact hs
  obtain ⟨s1, s2, hcross⟩ := List.pairwise_append.1 hs'
  have hmem : all[sp] ∈ all := List.getElem_mem hsp
  have hsepmem : all[sp] ∈ all.drop sp := by rw [hd]; exact List.mem_cons_self
  rw [hd] at s2 hcross ⊢
  simp only [List.headD_cons]
  refine ⟨⟨s1, ?_, ?_⟩, ⟨s2, ?_, ?_⟩⟩
  · intro e he
    exact ⟨(hb e (List.mem_of_mem_take he)).1, hcross e he _ List.mem_cons_self⟩
  · exact gapOk_some_right.2 (hb _ hmem).1
  · intro e he
    refine ⟨?_, (hb e (by rw [hsplit]; exact List.mem_append_right _ (by rw [hd]; exact he))).2⟩
    rcases List.mem_cons.1 he with rfl | he'
    · exact Lex.le_refl _
    · exact Lex.le_of_lt ((List.pairwise_cons.1 s2).1 e he')
  · have := (hb _ hmem).2
    cases hi with
    | none => trivial
    | some u => exact Lex.le_of_lt this

/-- the specification of an insertion result relative to the node it was applied to. -/
def InsOk (h : Nat) (c : Node h) (r : InsRes (Node h)) (lo hi : Option Key) (key : Key) (v : Val) : Prop :=
  r.updated = (OMap.get (abs h c) key).isSome ∧
  match r.split with
  | none => Ord h r.node lo hi ∧ abs h r.node = OMap.set (abs h c) key v
  | some (sep, right) =>
    Ord h r.node lo (some sep) ∧ Ord h right (some sep) hi ∧
      abs h r.node ++ abs h right = OMap.set (abs h c) key v

theorem leafInsert_ok (B : Nat) {l : Leaf} {lo hi : Option Key} (h : Ord 0 l lo hi) {key : Key} (v : Val)
    (hlo : lbOk lo key) (hhi : ubOk hi key) : InsOk 0 l (leafInsert B l key v) lo hi key v := by
  obtain ⟨es⟩ := l
  have h' : LeafOrd es lo hi := h
  have hset := leafOrd_set h' v hlo hhi
  simp only [InsOk, leafInsert, abs_zero]
  cases hf : (searchLeaf ⟨es⟩ key).2 with
  | true =>
    obtain ⟨A, v0, C, rfl, hA, hAlt, hCgt⟩ := searchLeaf_found h'.1 hf
    have hget : OMap.get (A ++ (key, v0) :: C) key = some v0 := by
      rw [oget_append_lt hAlt]; simp [OMap.get_cons]
    have hsetEq : OMap.set (A ++ (key, v0) :: C) key v = A ++ (key, v) :: C := by
      rw [oset_append_lt v hAlt, oset_head_eq]
    have hpair : searchLeaf ⟨A ++ (key, v0) :: C⟩ key = ((searchLeaf ⟨A ++ (key, v0) :: C⟩ key).1, true) := by
      rw [← hf]
    rw [hpair]
    simp only [if_true, hget, Option.isSome_some, true_and]
    have hgetD : (A ++ (key, v0) :: C).getD (searchLeaf ⟨A ++ (key, v0) :: C⟩ key).1 (key, v) = (key, v0) := by
      rw [List.getD_eq_getElem?_getD, getElem?_mid hA]; rfl
    rw [hgetD, set_mid hA, ← hsetEq]
    exact ⟨hset, rfl⟩
  | false =>
    obtain ⟨A, C, rfl, hA, hAlt, hCgt⟩ := searchLeaf_notfound h'.1 hf
    have hget : OMap.get (A ++ C) key = none := by
      rw [oget_append_lt hAlt]; exact oget_all_gt hCgt
    have hsetEq : OMap.set (A ++ C) key v = A ++ (key, v) :: C := by
      rw [oset_append_lt v hAlt, oset_all_gt v hCgt]
    have hpair : searchLeaf ⟨A ++ C⟩ key = ((searchLeaf ⟨A ++ C⟩ key).1, false) := by
      rw [← hf]
    rw [hpair]
    simp only [Bool.false_eq_true, if_false, hget, Option.isSome_none]
    have htake : (A ++ C).take (searchLeaf ⟨A ++ C⟩ key).1 = A := by rw [← hA]; simp
    have hdrop : (A ++ C).drop (searchLeaf ⟨A ++ C⟩ key).1 = C := by rw [← hA]; simp
    rw [htake, hdrop, ← hsetEq]
    split
    · exact ⟨rfl, hset, rfl⟩
    · rename_i hfull
      simp only [splitLeaf]
      have hlen : (OMap.set (A ++ C) key v).length = (A ++ C).length + 1 := by
        rw [hsetEq]; simp; omega
      have hpos : (searchLeaf ⟨A ++ C⟩ key).1 ≤ (A ++ C).length := by
        rw [← hA]; simp
      generalize (searchLeaf ⟨A ++ C⟩ key).1 = pos at hpos
      generalize hsp : (if pos = B then (OMap.set (A ++ C) key v).length - 2
        else ((OMap.set (A ++ C) key v).length + 1) / 2) = sp
      have hsplt : sp < (OMap.set (A ++ C) key v).length := by
        rw [← hsp, hlen]
        split <;> omega
      obtain ⟨o1, o2⟩ := leafOrd_split hset hsplt
      exact ⟨trivial, o1, o2, List.take_append_drop _ _⟩

/-! ### inner nodes -/

theorem chain_single {α : Type} {P : α → Option Key → Option Key → Prop} {c : α} {lo hi : Option Key} :
    Chain P [] [c] lo hi ↔ P c lo hi := Iff.rfl

theorem chain_pair {α : Type} {P : α → Option Key → Option Key → Prop} {a b : α} {k : Key}
    {lo hi : Option Key} : Chain P [k] [a, b] lo hi ↔ P a lo (some k) ∧ P b (some k) hi := Iff.rfl

/-- the focused form of an inner node: separators `K1 ++ K2`, children `C1 ++ c :: C2`. -/
theorem chain_focus {α : Type} {P : α → Option Key → Option Key → Prop}
    {K1 K2 : List Key} {C1 C2 : List α} {c : α} {lo hi : Option Key} (h1 : C1.length = K1.length) :
    Chain P (K1 ++ K2) (C1 ++ c :: C2) lo hi ↔
      Pre P K1 C1 lo ∧ P c (lastOr lo K1) (headOr hi K2) ∧ Post P K2 C2 hi := by
  have := chain_plug (P := P) (K1 := K1) (KM := []) (K2 := K2) (C1 := C1) (CM := [c]) (C2 := C2)
    (lo := lo) (hi := hi) h1 rfl
  simpa [chain_single] using this

theorem chain_focus2 {α : Type} {P : α → Option Key → Option Key → Prop}
    {K1 K2 : List Key} {C1 C2 : List α} {a b : α} {k : Key} {lo hi : Option Key}
    (h1 : C1.length = K1.length) :
    Chain P (K1 ++ k :: K2) (C1 ++ a :: b :: C2) lo hi ↔
      Pre P K1 C1 lo ∧ (P a (lastOr lo K1) (some k) ∧ P b (some k) (headOr hi K2)) ∧ Post P K2 C2 hi := by
  have := chain_plug (P := P) (K1 := K1) (KM := [k]) (K2 := K2) (C1 := C1) (CM := [a, b]) (C2 := C2)
    (lo := lo) (hi := hi) h1 rfl
  simpa [chain_pair] using this

theorem map_sizes_mid {h : Nat} (C1 C2 : List (Node h)) (c : Node h) :
    (C1 ++ c :: C2).map (nodeSize h) = C1.map (nodeSize h) ++ nodeSize h c :: C2.map (nodeSize h) := by
  simp

theorem innerAfterInsert_ok (B : Nat) {h : Nat} {K1 K2 : List Key} {C1 C2 : List (Node h)} {c : Node h}
    {sizes : List Nat} {lo hi : Option Key} {key : Key} {v : Val} {i : Nat} {r : InsRes (Node h)}
    (hpre : Pre (Ord h) K1 C1 lo) (hpost : Post (Ord h) K2 C2 hi)
    (hK1 : ∀ x ∈ K1, x ≤ key) (hK2 : ∀ x ∈ K2, key < x)
    (hc : Ord h c (lastOr lo K1) (headOr hi K2))
    (hr : InsOk h c r (lastOr lo K1) (headOr hi K2) key v)
    (hCi : C1.length = i) (hKi : K1.length = i)
    (hsz : sizes = (C1 ++ c :: C2).map (nodeSize h)) :
    InsOk (h + 1) (⟨K1 ++ K2, C1 ++ c :: C2, sizes⟩ : Inner (Node h))
      (innerAfterInsert B (⟨K1 ++ K2, C1 ++ c :: C2, sizes⟩ : Inner (Node h)) i r) lo hi key v := by
  have hCK : C1.length = K1.length := by omega
  have hlt := pre_lt hpre hK1
  have hgt := post_gt hpost hK2
  have habs : abs (h + 1) (⟨K1 ++ K2, C1 ++ c :: C2, sizes⟩ : Inner (Node h)) =
      flat h C1 ++ (abs h c ++ flat h C2) := by simp [abs_succ]
  have hset : OMap.set (flat h C1 ++ (abs h c ++ flat h C2)) key v =
      flat h C1 ++ (OMap.set (abs h c) key v ++ flat h C2) := by
    rw [oset_append_lt v hlt, oset_append_gt v hgt]
  have hget : OMap.get (flat h C1 ++ (abs h c ++ flat h C2)) key = OMap.get (abs h c) key := by
    rw [oget_append_lt hlt, oget_append_gt hgt]
  obtain ⟨hupd, hsplit⟩ := hr
  have hM1 : (C1.map (nodeSize h)).length = i := by simpa using hCi
  unfold InsOk
  rw [habs, hset, hget]
  simp only [innerAfterInsert]
  cases hsp : r.split with
  | none =>
    rw [hsp] at hsplit
    obtain ⟨hord, habsr⟩ := hsplit
    simp only
    refine ⟨hupd, ⟨?_, ?_⟩, ?_⟩
    · rw [set_mid hCi]
      exact (chain_focus hCK).2 ⟨hpre, hord, hpost⟩
    · -- sizes
      show (if r.updated = true then sizes else sizes.set i (sizes.getD i 0 + 1)) =
        ((C1 ++ c :: C2).set i r.node).map (nodeSize h)
      rw [set_mid hCi, map_sizes_mid, hsz, map_sizes_mid]
      have hsr : nodeSize h r.node = (OMap.set (abs h c) key v).length := by
        rw [hord.size_eq, habsr]
      have hsc : nodeSize h c = (abs h c).length := hc.size_eq
      rw [oset_length hc.sorted] at hsr
      rw [hupd]
      cases hg : (OMap.get (abs h c) key).isSome with
      | true => simp only [if_true]; rw [hg] at hsr; simp only [if_true] at hsr; rw [hsr, hsc]
      | false =>
        rw [hg] at hsr
        simp only [Bool.false_eq_true, if_false] at hsr ⊢
        rw [List.getD_eq_getElem?_getD, getElem?_mid hM1, set_mid hM1, hsr, hsc]
        rfl
    · show abs (h + 1) (⟨K1 ++ K2, (C1 ++ c :: C2).set i r.node, _⟩ : Inner (Node h)) = _
      rw [set_mid hCi, abs_succ]
      simp [habsr]
  | some p =>
    obtain ⟨sep, right⟩ := p
    rw [hsp] at hsplit
    obtain ⟨hordL, hordR, habsr⟩ := hsplit
    simp only
    -- the node with the separator and the new right child inserted
    have hkeys' : (K1 ++ K2).take i ++ sep :: (K1 ++ K2).drop i = K1 ++ sep :: K2 := by
      rw [← hKi]; simp
    have hkids' : (C1 ++ c :: C2).take i ++ r.node :: right :: (C1 ++ c :: C2).drop (i + 1) =
        C1 ++ r.node :: right :: C2 := by
      rw [take_mid hCi, drop_mid_succ hCi]
    have hsizes' : ∀ s1 : List Nat, (s1 = sizes ∨ s1 = sizes.set i (sizes.getD i 0 + 1)) →
        s1.take i ++ nodeSize h r.node :: nodeSize h right :: s1.drop (i + 1) =
          (C1 ++ r.node :: right :: C2).map (nodeSize h) := by
      intro s1 hs1
      rw [hsz, map_sizes_mid] at hs1
      rcases hs1 with rfl | rfl
      · rw [take_mid hM1, drop_mid_succ hM1]; simp
      · rw [set_mid hM1, take_mid hM1, drop_mid_succ hM1]; simp
    have hs1 : (if r.updated = true then sizes else sizes.set i (sizes.getD i 0 + 1)) = sizes ∨
        (if r.updated = true then sizes else sizes.set i (sizes.getD i 0 + 1)) =
          sizes.set i (sizes.getD i 0 + 1) := by
      split
      · exact Or.inl rfl
      · exact Or.inr rfl
    rw [hkeys', hkids', hsizes' _ hs1]
    have hchain : Chain (Ord h) (K1 ++ sep :: K2) (C1 ++ r.node :: right :: C2) lo hi :=
      (chain_focus2 hCK).2 ⟨hpre, ⟨hordL, hordR⟩, hpost⟩
    have habs' : flat h (C1 ++ r.node :: right :: C2) =
        flat h C1 ++ (OMap.set (abs h c) key v ++ flat h C2) := by
      simp [← habsr]
    split
    · -- room in this inner node
      exact ⟨hupd, ⟨hchain, rfl⟩, by rw [abs_succ]; exact habs'⟩
    · -- the inner node splits
      simp only [splitInner]
      generalize hks : K1 ++ sep :: K2 = ks at hchain
      generalize hcs : C1 ++ r.node :: right :: C2 = cs at hchain habs'
      have hlen := hchain.length_eq
      have hkpos : 0 < ks.length := by
        rw [← hks]; simp only [List.length_append, List.length_cons]; omega
      have hsp' : ks.length / 2 < ks.length := Nat.div_lt_self hkpos (by omega)
      generalize ks.length / 2 = sp at hsp'
      have hkd : ks = ks.take sp ++ ks[sp] :: ks.drop (sp + 1) := split_at ks sp hsp'
      have hcd : cs = cs.take (sp + 1) ++ cs.drop (sp + 1) := (List.take_append_drop _ _).symm
      have hgetD : ks.getD sp [] = ks[sp] := by
        simp [List.getD_eq_getElem?_getD, hsp']
      rw [hgetD]
      have hCL : (cs.take (sp + 1)).length = (ks.take sp).length + 1 := by
        simp only [List.length_take]; omega
      rw [hkd, hcd] at hchain
      obtain ⟨cL, cR⟩ := (chain_append hCL).1 hchain
      refine ⟨hupd, ⟨cL, by simp [List.map_take]⟩, ⟨cR, by simp [List.map_drop]⟩, ?_⟩
      show flat h (cs.take (sp + 1)) ++ flat h (cs.drop (sp + 1)) = _
      rw [← flat_append, List.take_append_drop]
      exact habs'

/-- `nodeInsert` refines `OMap.set` and preserves the search order (every `B`). -/
theorem nodeInsert_ok (B : Nat) : ∀ (h : Nat) (c : Node h) (lo hi : Option Key) (key : Key) (v : Val),
    Ord h c lo hi → lbOk lo key → ubOk hi key → InsOk h c (nodeInsert B h c key v) lo hi key v
  | 0, l, lo, hi, key, v, hord, hlo, hhi => leafInsert_ok B hord v hlo hhi
  | h + 1, n, lo, hi, key, v, hord, hlo, hhi => by
    obtain ⟨keys, kids, sizes⟩ := (n : Inner (Node h))
    obtain ⟨hch, hsz⟩ := hord
    simp only at hch hsz
    have hks := (Chain.keys_sorted (fun _ _ _ hp => Ord.gap hp) hch).1
    obtain ⟨hile, hKL, hKR⟩ := searchInner_spec key hks
    have hlen := hch.length_eq
    simp only [nodeInsert]
    generalize searchInner keys key = i at hile hKL hKR
    obtain ⟨K1, K2, rfl, hK1len, hKL, hKR⟩ : ∃ K1 K2, keys = K1 ++ K2 ∧ K1.length = i ∧
        (∀ x ∈ K1, x ≤ key) ∧ (∀ x ∈ K2, key < x) :=
      ⟨keys.take i, keys.drop i, (List.take_append_drop i keys).symm,
        by simp only [List.length_take]; omega, hKL, hKR⟩
    obtain ⟨C1, c, C2, rfl, hC1len⟩ : ∃ C1 c C2, kids = C1 ++ c :: C2 ∧ C1.length = i :=
      ⟨kids.take i, kids[i]'(by omega), kids.drop (i + 1), split_at kids i (by omega),
        by simp only [List.length_take]; omega⟩
    obtain ⟨hpre, hc, hpost⟩ := (chain_focus (by omega)).1 hch
    rw [getElem?_mid hC1len]
    simp only
    exact innerAfterInsert_ok B hpre hpost hKL hKR hc
      (nodeInsert_ok B h c _ _ key v hc (lbOk_lastOr hlo hKL) (ubOk_headOr hhi hKR))
      hC1len hK1len hsz

/-- `treeInsert` (with the empty-root branch of `Set`) refines `OMap.set`. -/
theorem treeInsert_ok (B : Nat) (t : Tree) (ht : t.OrdOk) (key : Key) (v : Val) :
    (treeInsert B t key v).1.OrdOk ∧
    (treeInsert B t key v).1.abs = OMap.set t.abs key v ∧
    (treeInsert B t key v).2 = (OMap.get t.abs key).isSome := by
  cases t with
  | empty =>
    refine ⟨?_, rfl, rfl⟩
    show LeafOrd [(key, v)] none none
    exact ⟨by simp [OMap.Sorted], by simp, trivial⟩
  | node h root =>
    have hr := nodeInsert_ok B h root none none key v ht trivial trivial
    obtain ⟨hupd, hsplit⟩ := hr
    simp only [treeInsert]
    cases hsp : (nodeInsert B h root key v).split with
    | none =>
      rw [hsp] at hsplit
      exact ⟨hsplit.1, hsplit.2, hupd⟩
    | some p =>
      obtain ⟨sep, right⟩ := p
      rw [hsp] at hsplit
      obtain ⟨hl, hr, habs⟩ := hsplit
      refine ⟨⟨chain_pair.2 ⟨hl, hr⟩, rfl⟩, ?_, hupd⟩
      show flat h [(nodeInsert B h root key v).node, right] = OMap.set (abs h root) key v
      simpa using habs

end GnoVerif.C23
