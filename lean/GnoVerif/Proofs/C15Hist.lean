import GnoVerif.Proofs.C15Seq
/-! C15: histories — the invariant, monotone evolution, and replay rejection. -/
namespace GnoVerif.C15

variable {π σ β : Type} [DecidableEq π]

/-- How states evolve along any history: account numbers of existing accounts
    are fixed and sequences never decrease; a session found later either
    continues an earlier one or carries a number the counter had not issued. -/
structure Evolves (s s' : State π) : Prop where
  next : s.nextAccNum ≤ s'.nextAccNum
  acc : ∀ a acc, s.accounts a = some acc →
    ∃ acc', s'.accounts a = some acc' ∧ acc'.accNum = acc.accNum ∧ acc.seq ≤ acc'.seq
  sess : ∀ m k ss', s'.sessions m k = some ss' →
    (∃ ss, s.sessions m k = some ss ∧ ss'.accNum = ss.accNum ∧ ss.seq ≤ ss'.seq) ∨ s.nextAccNum ≤ ss'.accNum
  height : s.height ≤ s'.height

omit [DecidableEq π] in
theorem Evolves.refl (s : State π) : Evolves s s :=
  ⟨Nat.le_refl _, fun _ acc h => ⟨acc, h, rfl, Nat.le_refl _⟩,
   fun _ _ ss' h => .inl ⟨ss', h, rfl, Nat.le_refl _⟩, Nat.le_refl _⟩

omit [DecidableEq π] in
theorem Evolves.trans {s s' s'' : State π} (h1 : Evolves s s') (h2 : Evolves s' s'') : Evolves s s'' := by
  refine ⟨Nat.le_trans h1.next h2.next, ?_, ?_, Nat.le_trans h1.height h2.height⟩
  · intro a acc ha
    obtain ⟨acc', ha', e1, e2⟩ := h1.acc a acc ha
    obtain ⟨acc'', ha'', e3, e4⟩ := h2.acc a acc' ha'
    exact ⟨acc'', ha'', e3.trans e1, Nat.le_trans e2 e4⟩
  · intro m k ss'' hs''
    rcases h2.sess m k ss'' hs'' with ⟨ss', hs', e1, e2⟩ | hge
    · rcases h1.sess m k ss' hs' with ⟨ss, hs, e3, e4⟩ | hge
      · exact .inl ⟨ss, hs, e1.trans e3, Nat.le_trans e4 e2⟩
      · exact .inr (by rw [e1]; exact hge)
    · exact .inr (Nat.le_trans h1.next hge)

/-! ### messages -/

/-- what running messages can do -/
structure MsgsRel (cr : Crypto π σ β) (s s' : State π) : Prop where
  accounts : s'.accounts = s.accounts
  height : s'.height = s.height
  time : s'.time = s.time
  next : s.nextAccNum ≤ s'.nextAccNum
  sess : ∀ m k, s'.sessions m k = s.sessions m k ∨ s'.sessions m k = none ∨
    ∃ ss', s'.sessions m k = some ss' ∧ s.nextAccNum ≤ ss'.accNum ∧ ss'.accNum < s'.nextAccNum ∧
      ∃ key, ss'.pubKey = some key ∧ cr.addrOf key = k

omit [DecidableEq π] in
theorem MsgsRel.refl (cr : Crypto π σ β) (s : State π) : MsgsRel cr s s :=
  ⟨rfl, rfl, rfl, Nat.le_refl _, fun _ _ => .inl rfl⟩

omit [DecidableEq π] in
theorem MsgsRel.trans {cr : Crypto π σ β} {s s' s'' : State π} (h1 : MsgsRel cr s s') (h2 : MsgsRel cr s' s'') :
    MsgsRel cr s s'' := by
  refine ⟨h2.accounts.trans h1.accounts, h2.height.trans h1.height, h2.time.trans h1.time,
    Nat.le_trans h1.next h2.next, ?_⟩
  intro m k
  rcases h2.sess m k with e2 | e2 | ⟨ss', e2, g1, g2, g3⟩
  · rcases h1.sess m k with e1 | e1 | ⟨ss', e1, g1, g2, g3⟩
    · exact .inl (e2.trans e1)
    · exact .inr (.inl (e2.trans e1))
    · exact .inr (.inr ⟨ss', e2.trans e1, g1, Nat.lt_of_lt_of_le g2 h2.next, g3⟩)
  · exact .inr (.inl e2)
  · exact .inr (.inr ⟨ss', e2, Nat.le_trans h1.next g1, g2, g3⟩)

omit [DecidableEq π] in
theorem runMsg_rel (cr : Crypto π σ β) (s s' : State π) (m : Msg π) (h : runMsg cr s m = .ok s') :
    MsgsRel cr s s' := by
  cases m with
  | note ss tag fail =>
    simp only [runMsg] at h
    split at h
    · cases h
    injection h with h
    subst h
    exact ⟨rfl, rfl, rfl, Nat.le_refl _, fun _ _ => .inl rfl⟩
  | createSession creator key exp limit period =>
    simp only [runMsg] at h
    split at h
    · cases h
    repeat' split at h
    all_goals first
      | cases h
      | skip
    refine ⟨rfl, rfl, rfl, Nat.le_succ _, ?_⟩
    intro m k
    by_cases hmk : m = creator ∧ k = cr.addrOf key
    · obtain ⟨e1, e2⟩ := hmk
      subst e1 e2
      exact .inr (.inr ⟨_, upd2_same _ _ _ _, Nat.le_refl _, Nat.lt_succ_self _, key, rfl, rfl⟩)
    · exact .inl (upd2_other _ _ _ _ _ _ hmk)
  | revokeSession creator key =>
    simp only [runMsg] at h
    split at h
    · cases h
    injection h with h
    subst h
    refine ⟨rfl, rfl, rfl, Nat.le_refl _, ?_⟩
    intro m k
    by_cases hmk : m = creator ∧ k = cr.addrOf key
    · obtain ⟨e1, e2⟩ := hmk
      subst e1 e2
      exact .inr (.inl (upd2_same _ _ _ _))
    · exact .inl (upd2_other _ _ _ _ _ _ hmk)
  | revokeAll creator =>
    simp only [runMsg] at h
    injection h with h
    subst h
    refine ⟨rfl, rfl, rfl, Nat.le_refl _, ?_⟩
    intro m k
    by_cases hm : m = creator
    · exact .inr (.inl (by simp [hm]))
    · exact .inl (by simp [hm])

omit [DecidableEq π] in
theorem runMsgs_rel (cr : Crypto π σ β) : ∀ (ms : List (Msg π)) (s s' : State π),
    runMsgs cr s ms = .ok s' → MsgsRel cr s s'
  | [], s, s', h => by
    simp [runMsgs] at h
    subst h
    exact MsgsRel.refl cr s
  | m :: ms, s, s', h => by
    unfold runMsgs at h
    split at h
    · cases h
    rename_i s1 h1
    exact (runMsg_rel cr s s1 m h1).trans (runMsgs_rel cr ms s1 s' h)

omit [DecidableEq π] in
theorem MsgsRel.evolves {cr : Crypto π σ β} {s s' : State π} (h : MsgsRel cr s s') : Evolves s s' := by
  refine ⟨h.next, ?_, ?_, Nat.le_of_eq h.height.symm⟩
  · intro a acc ha
    exact ⟨acc, by rw [h.accounts]; exact ha, rfl, Nat.le_refl _⟩
  · intro m k ss' hs'
    rcases h.sess m k with e | e | ⟨ss'', e, g1, _, _⟩
    · exact .inl ⟨ss', by rw [← e]; exact hs', rfl, Nat.le_refl _⟩
    · rw [e] at hs'
      cases hs'
    · rw [e] at hs'
      injection hs' with hs'
      subst hs'
      exact .inr g1

omit [DecidableEq π] in
theorem MsgsRel.inv {cr : Crypto π σ β} {s s' : State π} (h : MsgsRel cr s s') (hi : Inv cr s) : Inv cr s' := by
  refine ⟨?_, ?_, ?_, ?_⟩
  · intro a acc ha
    rw [h.accounts] at ha
    exact Nat.lt_of_lt_of_le (hi.accLt a acc ha) h.next
  · intro m k ss hs
    rcases h.sess m k with e | e | ⟨ss', e, _, g2, _⟩
    · rw [e] at hs
      exact Nat.lt_of_lt_of_le (hi.sessLt m k ss hs) h.next
    · rw [e] at hs
      cases hs
    · rw [e] at hs
      injection hs with hs
      subst hs
      exact g2
  · intro a acc pk ha hp
    rw [h.accounts] at ha
    exact hi.accKey a acc pk ha hp
  · intro m k ss hs
    rcases h.sess m k with e | e | ⟨ss', e, _, _, g3⟩
    · rw [e] at hs
      exact hi.sessKey m k ss hs
    · rw [e] at hs
      cases hs
    · rw [e] at hs
      injection hs with hs
      subst hs
      exact g3

/-! ### the ante's effect -/

omit [DecidableEq π] in
theorem SeqEffect.evolves {cr : Crypto π σ β} {cfg : Config} {tx : Tx π σ} {s s' : State π}
    (h : SeqEffect cr cfg tx s s') : Evolves s s' := by
  refine ⟨?_, ?_, ?_, Nat.le_of_eq h.height.symm⟩
  · rcases h.next with e | e <;> omega
  · intro a acc ha
    obtain ⟨acc', ha', e1, e2, _⟩ := h.accounts a acc ha
    refine ⟨acc', ha', e1, ?_⟩
    rcases e2 with ⟨_, e⟩ | ⟨_, e, _⟩ <;> omega
  · intro m k ss' hs'
    have := h.sessions m k
    cases hs : s.sessions m k with
    | none =>
      rw [hs] at this
      simp only at this
      rw [this] at hs'
      cases hs'
    | some ss =>
      rw [hs] at this
      simp only at this
      obtain ⟨ss'', e0, e1, e2, _⟩ := this
      rw [e0] at hs'
      injection hs' with hs'
      subst hs'
      refine .inl ⟨ss, rfl, e1, ?_⟩
      rcases e2 with ⟨_, e⟩ | ⟨_, e⟩ <;> omega

omit [DecidableEq π] in
theorem SeqEffect.inv {cr : Crypto π σ β} {cfg : Config} {tx : Tx π σ} {s s' : State π}
    (h : SeqEffect cr cfg tx s s') (hi : Inv cr s) : Inv cr s' := by
  have hnext : s.nextAccNum ≤ s'.nextAccNum := by rcases h.next with e | e <;> omega
  refine ⟨?_, ?_, ?_, ?_⟩
  · intro a acc' ha'
    cases ha : s.accounts a with
    | some acc =>
      obtain ⟨acc'', e0, e1, _⟩ := h.accounts a acc ha
      rw [e0] at ha'
      injection ha' with ha'
      subst ha'
      have := hi.accLt a acc ha
      omega
    | none =>
      rcases h.created a ha with e | ⟨_, acc'', e0, e1, _, _, e4⟩
      · rw [e] at ha'
        cases ha'
      · rw [e0] at ha'
        injection ha' with ha'
        subst ha'
        omega
  · intro m k ss' hs'
    have := h.sessions m k
    cases hs : s.sessions m k with
    | none =>
      rw [hs] at this
      simp only at this
      rw [this] at hs'
      cases hs'
    | some ss =>
      rw [hs] at this
      simp only at this
      obtain ⟨ss'', e0, e1, _, _⟩ := this
      rw [e0] at hs'
      injection hs' with hs'
      subst hs'
      have := hi.sessLt m k ss hs
      omega
  · intro a acc' pk ha' hp
    cases ha : s.accounts a with
    | some acc =>
      obtain ⟨acc'', e0, _, _, e3⟩ := h.accounts a acc ha
      rw [e0] at ha'
      injection ha' with ha'
      subst ha'
      rcases e3 with e3 | ⟨_, pk', e3, e4⟩
      · exact hi.accKey a acc pk ha (by rw [← e3]; exact hp)
      · rw [e3] at hp
        injection hp with hp
        subst hp
        exact e4
    | none =>
      rcases h.created a ha with e | ⟨_, acc'', e0, _, _, e3, _⟩
      · rw [e] at ha'
        cases ha'
      · rw [e0] at ha'
        injection ha' with ha'
        subst ha'
        rw [e3] at hp
        cases hp
  · intro m k ss' hs'
    have := h.sessions m k
    cases hs : s.sessions m k with
    | none =>
      rw [hs] at this
      simp only at this
      rw [this] at hs'
      cases hs'
    | some ss =>
      rw [hs] at this
      simp only at this
      obtain ⟨ss'', e0, _, _, e3⟩ := this
      rw [e0] at hs'
      injection hs' with hs'
      subst hs'
      obtain ⟨key, hk, hka⟩ := hi.sessKey m k ss hs
      rcases e3 with e3 | e3
      · exact ⟨key, by rw [e3]; exact hk, hka⟩
      · rw [hk] at e3
        cases e3

/-! ### the other steps -/

omit [DecidableEq π] in
theorem FeeRel.evolves_inv (cr : Crypto π σ β) {c : Addr} {s s' : State π} (hrel : FeeRel c s s') (hi : Inv cr s) :
    Evolves s s' ∧ Inv cr s' := by
  have hnext : s.nextAccNum ≤ s'.nextAccNum := by
    rcases hrel.next with e | ⟨_, e⟩ <;> omega
  refine ⟨⟨hnext, ?_, ?_, Nat.le_of_eq hrel.height.symm⟩, ⟨?_, ?_, ?_, ?_⟩⟩
  · intro x acc hx
    obtain ⟨acc', e0, e1, e2, _⟩ := hrel.keep x acc hx
    exact ⟨acc', e0, e1, Nat.le_of_eq e2.symm⟩
  · intro m k ss' hs'
    rw [hrel.sessions] at hs'
    exact .inl ⟨ss', hs', rfl, Nat.le_refl _⟩
  · intro x acc' hx'
    cases hx : s.accounts x with
    | some acc =>
      obtain ⟨acc'', e0, e1, _⟩ := hrel.keep x acc hx
      rw [e0] at hx'
      injection hx' with hx'
      subst hx'
      have := hi.accLt x acc hx
      omega
    | none =>
      rcases hrel.fresh x hx with e | ⟨_, acc'', e0, e1, _, _, e4⟩
      · rw [e] at hx'
        cases hx'
      · rw [e0] at hx'
        injection hx' with hx'
        subst hx'
        omega
  · intro m k ss hs
    rw [hrel.sessions] at hs
    exact Nat.lt_of_lt_of_le (hi.sessLt m k ss hs) hnext
  · intro x acc' pk hx' hp
    cases hx : s.accounts x with
    | some acc =>
      obtain ⟨acc'', e0, _, _, e3⟩ := hrel.keep x acc hx
      rw [e0] at hx'
      injection hx' with hx'
      subst hx'
      exact hi.accKey x acc pk hx (by rw [← e3]; exact hp)
    | none =>
      rcases hrel.fresh x hx with e | ⟨_, acc'', e0, _, _, e3, _⟩
      · rw [e] at hx'
        cases hx'
      · rw [e0] at hx'
        injection hx' with hx'
        subst hx'
        rw [e3] at hp
        cases hp
  · intro m k ss hs
    rw [hrel.sessions] at hs
    exact hi.sessKey m k ss hs

omit [DecidableEq π] in
theorem credit_evolves_inv (cr : Crypto π σ β) (s : State π) (a : Addr) (amt : Nat) (hi : Inv cr s) :
    Evolves s (credit s a amt) ∧ Inv cr (credit s a amt) :=
  (credit_feeRel s a amt).evolves_inv cr hi

omit [DecidableEq π] in
theorem beginBlock_evolves_inv (cr : Crypto π σ β) (s : State π) (dt : Nat) (hi : Inv cr s) :
    Evolves s (beginBlock s dt) ∧ Inv cr (beginBlock s dt) :=
  ⟨⟨Nat.le_refl _, fun _ acc h => ⟨acc, h, rfl, Nat.le_refl _⟩,
    fun _ _ ss' h => .inl ⟨ss', h, rfl, Nat.le_refl _⟩, Nat.le_succ _⟩,
   ⟨hi.accLt, hi.sessLt, hi.accKey, hi.sessKey⟩⟩

/-! ### deliver -/

/-- An accepted delivery = the ante passed on `s` giving `s1`, then the
    messages ran (or failed and were rolled back to `s1`). -/
theorem deliver_accepted (cr : Crypto π σ β) (cfg : Config) (s : State π) (tx : Tx π σ)
    (h : Accepted (deliver cr cfg s tx).2) :
    ∃ s1, ante cr cfg s tx = .ok s1 ∧ MsgsRel cr s1 (deliver cr cfg s tx).1 := by
  unfold deliver at h ⊢
  by_cases he : tx.msgs.isEmpty = true
  · simp [he, Accepted] at h
  simp only [he, ↓reduceIte] at h ⊢
  cases hv : validateMsgs tx.msgs with
  | some e => simp [hv, Accepted] at h
  | none =>
    simp only [hv] at h ⊢
    cases ha : ante cr cfg s tx with
    | error e => simp [ha, Accepted] at h
    | ok s1 =>
      simp only [ha] at h ⊢
      refine ⟨s1, rfl, ?_⟩
      cases hm : runMsgs cr s1 tx.msgs with
      | error e => exact MsgsRel.refl cr s1
      | ok s2 => exact runMsgs_rel cr _ _ _ hm

theorem deliver_not_accepted (cr : Crypto π σ β) (cfg : Config) (s : State π) (tx : Tx π σ)
    (h : ¬ Accepted (deliver cr cfg s tx).2) : (deliver cr cfg s tx).1 = s := by
  unfold deliver at h ⊢
  by_cases he : tx.msgs.isEmpty = true
  · simp [he]
  simp only [he, ↓reduceIte] at h ⊢
  cases hv : validateMsgs tx.msgs with
  | some e => rfl
  | none =>
    simp only [hv] at h ⊢
    cases ha : ante cr cfg s tx with
    | error e => rfl
    | ok s1 =>
      simp only [ha] at h ⊢
      exfalso
      apply h
      cases hm : runMsgs cr s1 tx.msgs <;> simp [Accepted]

/-- every step at a non-genesis height keeps the invariant and only evolves the state -/
theorem step_evolves_inv (cr : Crypto π σ β) (cfg : Config) (s : State π) (o : Op π σ)
    (hh : s.height ≠ 0) (hi : Inv cr s) :
    Evolves s (step cr cfg s o) ∧ Inv cr (step cr cfg s o) ∧ (step cr cfg s o).height ≠ 0 := by
  cases o with
  | tx t =>
    simp only [step]
    by_cases hacc : Accepted (deliver cr cfg s t).2
    · obtain ⟨s1, ha, hm⟩ := deliver_accepted cr cfg s t hacc
      have he := ante_seq_effect cr cfg s t s1 (fun h => hh h.1) ha
      refine ⟨he.evolves.trans hm.evolves, hm.inv (he.inv hi), ?_⟩
      rw [hm.height, he.height]
      exact hh
    · rw [deliver_not_accepted cr cfg s t hacc]
      exact ⟨Evolves.refl s, hi, hh⟩
  | block dt =>
    simp only [step]
    have := beginBlock_evolves_inv cr s dt hi
    exact ⟨this.1, this.2, by simp [beginBlock]⟩
  | fund a amt =>
    simp only [step]
    have := credit_evolves_inv cr s a amt hi
    exact ⟨this.1, this.2, by rw [(credit_feeRel s a amt).height]; exact hh⟩

/-- the invariant holds along every history, genesis height included -/
theorem step_inv (cr : Crypto π σ β) (cfg : Config) (s : State π) (o : Op π σ) (hi : Inv cr s) :
    Inv cr (step cr cfg s o) := by
  cases o with
  | tx t =>
    simp only [step]
    by_cases hacc : Accepted (deliver cr cfg s t).2
    · obtain ⟨s1, ha, hm⟩ := deliver_accepted cr cfg s t hacc
      by_cases hg : s.height = 0 ∧ cfg.verifyGenesis = false
      · exact hm.inv ((ante_genesis_skip cr cfg s t s1 hg ha).evolves_inv cr hi).2
      · exact hm.inv ((ante_seq_effect cr cfg s t s1 hg ha).inv hi)
    · rw [deliver_not_accepted cr cfg s t hacc]
      exact hi
  | block dt => exact (beginBlock_evolves_inv cr s dt hi).2
  | fund a amt => exact (credit_evolves_inv cr s a amt hi).2

theorem run_inv (cr : Crypto π σ β) (cfg : Config) : ∀ (ops : List (Op π σ)) (s : State π),
    Inv cr s → Inv cr (run cr cfg s ops)
  | [], _, hi => hi
  | o :: ops, s, hi => run_inv cr cfg ops _ (step_inv cr cfg s o hi)

omit [DecidableEq π] in
theorem init_inv (cr : Crypto π σ β) (t : Int) : Inv cr (init t : State π) :=
  ⟨fun _ _ h => by simp [init] at h, fun _ _ _ h => by simp [init] at h,
   fun _ _ _ h => by simp [init] at h, fun _ _ _ h => by simp [init] at h⟩

theorem run_evolves_inv (cr : Crypto π σ β) (cfg : Config) : ∀ (ops : List (Op π σ)) (s : State π),
    s.height ≠ 0 → Inv cr s →
    Evolves s (run cr cfg s ops) ∧ Inv cr (run cr cfg s ops) ∧ (run cr cfg s ops).height ≠ 0
  | [], s, hh, hi => ⟨Evolves.refl s, hi, hh⟩
  | o :: ops, s, hh, hi => by
    obtain ⟨e1, i1, h1⟩ := step_evolves_inv cr cfg s o hh hi
    obtain ⟨e2, i2, h2⟩ := run_evolves_inv cr cfg ops (step cr cfg s o) h1 i1
    exact ⟨e1.trans e2, i2, h2⟩

end GnoVerif.C15
