import GnoVerif.Proofs.C05Conv32
import GnoVerif.Proofs.C05F32
/-! C05: `funpack32` class by class, and exactness of the widening `f32to64`. -/
set_option linter.unusedSimpArgs false
namespace GnoVerif.C05.L
open GnoVerif.Gen.C05

theorem funpack32_loop1_spec (fuel : Nat) (e : BitVec 64) (m : BitVec 32)
    (h0 : m.toNat ≠ 0) (h1 : m.toNat < 2^24) (hf : 2^23 ≤ m.toNat * 2^fuel) :
    ∃ k, k ≤ fuel ∧ funpack32_loop1 fuel e m = (e - BitVec.ofNat 64 k, m <<< k) ∧
      (m <<< k).toNat = m.toNat * 2^k ∧ 2^23 ≤ m.toNat * 2^k ∧ m.toNat * 2^k < 2^24 ∧
      (k ≠ 0 → m.toNat < 2^23) := by
  induction fuel generalizing e m with
  | zero =>
    refine ⟨0, Nat.le_refl _, ?_, ?_, ?_, ?_, ?_⟩ <;> simp_all [funpack32_loop1]
  | succ n ih =>
    rw [funpack32_loop1_succ]
    by_cases hlt : m.toNat < 2^23
    · have hc : BitVec.ult m 8388608#32 = true := by
        simp [BitVec.ult, hlt]
      simp only [hc, if_true]
      have hm1 : (m <<< 1).toNat = m.toNat * 2 := by
        rw [BitVec.toNat_shiftLeft, Nat.shiftLeft_eq]; simp; omega
      have e2 : ∀ j, m.toNat * 2 * 2^j = m.toNat * 2^(j+1) := by
        intro j; rw [Nat.pow_succ, Nat.mul_assoc, Nat.mul_comm 2]
      obtain ⟨k, hk, heq, htn, hlo, hhi, _⟩ := ih (e - 1#64) (m <<< 1) (by omega) (by omega)
        (by rw [hm1, e2]; exact hf)
      have hsh : m <<< (k + 1) = m <<< 1 <<< k := by
        rw [Nat.add_comm, BitVec.shiftLeft_add]
      rw [hm1, e2] at htn hlo hhi
      refine ⟨k + 1, by omega, ?_, ?_, hlo, hhi, fun _ => hlt⟩
      · rw [heq, hsh]
        congr 1
        rw [BitVec.sub_sub]; congr 1
        apply BitVec.eq_of_toNat_eq; simp [BitVec.toNat_add]; omega
      · rw [hsh, htn]
    · have hc : BitVec.ult m 8388608#32 = false := by
        simp [BitVec.ult]; omega
      simp only [hc]
      refine ⟨0, by omega, ?_, ?_, ?_, ?_, ?_⟩ <;> simp <;> omega

theorem expF32_lt (f : BitVec 32) : expF32 f < 256 := by unfold expF32; omega
theorem mantF32_lt (f : BitVec 32) : mantF32 f < 2^23 := by unfold mantF32; omega

/-- finite non-zero binary32 values: normalised 24-bit mantissa, exponent in [−149, 127] -/
theorem funpack32_fin (f : BitVec 32) (hfin : isFinite32 f) (hnz : ¬ isZero32 f) :
    ∃ m e, funpack32 f = (f &&& 2147483648#32, m, e, false, false) ∧
      2^23 ≤ m.toNat ∧ m.toNat < 2^24 ∧ -149 ≤ e.toInt ∧ e.toInt ≤ 127 := by
  have hml := mantF32_lt f
  have hel := expF32_lt f
  have hmt : (f &&& 8388607#32).toNat = mantF32 f := toNat_and_mant32 f
  unfold isFinite32 at hfin
  have c1 : (BitVec.ofNat 64 (expF32 f) == 255#64) = false :=
    ofNat64_ne_lit _ 255 (by omega) (by omega) hfin
  by_cases h0 : expF32 f = 0
  · have hm : mantF32 f ≠ 0 := by
      intro h; apply hnz
      unfold isZero32 mag32; unfold expF32 at h0; unfold mantF32 at h; omega
    obtain ⟨k, hk, heq, htn, hlo, hhi, hk0⟩ :=
      funpack32_loop1_spec 128 (0#64 + BitVec.ofInt 64 (-126)) (f &&& 8388607#32)
        (by omega) (by omega) (by rw [hmt]; exact two_pow_le_mul _ _ _ hm (by decide))
    rw [hmt] at htn hlo hhi
    have hk1 : 1 ≤ k := by
      rcases Nat.eq_zero_or_pos k with h | h
      · subst h; simp at hlo; omega
      · exact h
    have hk23 : k ≤ 23 := by
      rcases Nat.lt_or_ge 23 k with h | h
      · have : 2^24 ≤ 2^k := Nat.pow_le_pow_right (by decide) h
        have : 1 * 2^k ≤ mantF32 f * 2^k := Nat.mul_le_mul_right _ (by omega)
        omega
      · exact h
    have e1 : (0#64 + BitVec.ofInt 64 (-126)) = BitVec.ofInt 64 (-126) := by decide
    rw [e1] at heq
    refine ⟨(f &&& 8388607#32) <<< k, BitVec.ofInt 64 (-126) - BitVec.ofNat 64 k, ?_, by rw [htn]; exact hlo,
      by rw [htn]; exact hhi, ?_, ?_⟩
    · unfold funpack32
      simp only [exp32_eq, h0]
      have c : ((f &&& 8388607#32) != 0#32) = true := by
        have : (f &&& 8388607#32) ≠ 0#32 := by
          intro h; have := congrArg BitVec.toNat h; rw [hmt] at this; simp at this; exact hm this
        simpa using this
      have e3 : BitVec.ofInt 64 (-126) = 18446744073709551490#64 := by decide
      rw [e3] at heq
      simp only [loopFuel]
      simp [c, heq, e3]
    · rw [toInt_lit_sub_ofNat _ _ (by omega) (by omega) (by omega)]; omega
    · rw [toInt_lit_sub_ofNat _ _ (by omega) (by omega) (by omega)]; omega
  · have c2 : (BitVec.ofNat 64 (expF32 f) == 0#64) = false := ofNat64_ne_lit _ 0 (by omega) (by omega) h0
    refine ⟨(f &&& 8388607#32) ||| 8388608#32, BitVec.ofNat 64 (expF32 f) + BitVec.ofInt 64 (-127), ?_, ?_, ?_, ?_, ?_⟩
    · unfold funpack32
      simp only [exp32_eq]
      simp [c1, c2]
    · rw [toNat_or_implicit32 _ (by omega), hmt]; omega
    · rw [toNat_or_implicit32 _ (by omega), hmt]; omega
    · rw [toInt_ofNat_add_ofInt _ _ (by omega) (by omega) (by omega)]; omega
    · rw [toInt_ofNat_add_ofInt _ _ (by omega) (by omega) (by omega)]; omega


theorem sign64_of_sign32 (f : BitVec 32) :
    (BitVec.setWidth 64 (f &&& 2147483648#32)) <<< 32 = 0#64 ∨
    (BitVec.setWidth 64 (f &&& 2147483648#32)) <<< 32 = 9223372036854775808#64 := by
  have h : f &&& 2147483648#32 = 0#32 ∨ f &&& 2147483648#32 = 2147483648#32 := by
    have hl := f.isLt
    have e := toNat_and_sign32 f
    by_cases hn : f.toNat < 2^31
    · left; apply BitVec.eq_of_toNat_eq; rw [e]; simp; omega
    · right; apply BitVec.eq_of_toNat_eq; rw [e]; simp; omega
  rcases h with h | h <;> rw [h]
  · left; decide
  · right; decide

/-- the bits `f32to64` produces for a finite non-zero binary32 value: same sign, exponent re-biased,
the 24-bit mantissa left-aligned — nothing is rounded -/
theorem f32to64_bits (f : BitVec 32) (hf : isFinite32 f) (hfz : ¬ isZero32 f) :
    ∃ fm fe, funpack32 f = (f &&& 2147483648#32, fm, fe, false, false) ∧
      2^23 ≤ fm.toNat ∧ fm.toNat < 2^24 ∧ -149 ≤ fe.toInt ∧ fe.toInt ≤ 127 ∧
      f32to64 f = ((BitVec.setWidth 64 (f &&& 2147483648#32)) <<< 32) |||
        BitVec.ofNat 64 ((fe.toInt + 1023).toNat * 2^52 + (fm.toNat * 2^29 - 2^52)) := by
  obtain ⟨fm, fe, hF, hm1, hm2, he1, he2⟩ := funpack32_fin f hf hfz
  refine ⟨fm, fe, hF, hm1, hm2, he1, he2, ?_⟩
  have hM : ((BitVec.setWidth 64 fm) <<< 29).toNat = fm.toNat * 2^29 := by
    rw [BitVec.toNat_shiftLeft, BitVec.toNat_setWidth, Nat.shiftLeft_eq]
    have : fm.toNat % 2^64 = fm.toNat := Nat.mod_eq_of_lt (by omega)
    rw [this]; exact Nat.mod_eq_of_lt (by omega)
  unfold f32to64
  rw [hF]
  simp only [Bool.false_eq_true, if_false]
  rw [fpack64_exact _ _ fe 0#64 (by rw [hM]; omega) (by rw [hM]; omega) (by omega) (by omega)]
  have := assemble64_eq ((BitVec.setWidth 64 (f &&& 2147483648#32)) <<< 32) fe ((BitVec.setWidth 64 fm) <<< 29)
    (by rw [hM]; omega) (by rw [hM]; omega) (by omega) (by omega)
  unfold assemble64 at this
  rw [this, hM]

theorem toNat_sign_or (s : BitVec 64) (hs : s = 0#64 ∨ s = 9223372036854775808#64) (B : Nat) (hB : B < 2^63) :
    (s ||| BitVec.ofNat 64 B).toNat = s.toNat + B := by
  have hb : (BitVec.ofNat 64 B).toNat = B := by
    rw [BitVec.toNat_ofNat]; exact Nat.mod_eq_of_lt (by omega)
  rcases hs with rfl | rfl
  · simp; omega
  · rw [BitVec.toNat_or, hb]
    have h := Nat.two_pow_add_eq_or_of_lt (i := 63) hB 1
    have e : (9223372036854775808#64).toNat = 2^63 * 1 := by decide
    rw [e, ← h]

/-- decoding an assembled normal number: sign, mantissa with the hidden bit, unbiased exponent -/
theorem funpack64_of_bits (s : BitVec 64) (hs : s = 0#64 ∨ s = 9223372036854775808#64) (Eb q : Nat)
    (hE1 : 1 ≤ Eb) (hE2 : Eb ≤ 2046) (hq1 : 2^52 ≤ q) (hq2 : q < 2^53) :
    funpack64 (s ||| BitVec.ofNat 64 (Eb * 2^52 + (q - 2^52))) =
      (s, BitVec.ofNat 64 q, BitVec.ofNat 64 Eb + BitVec.ofInt 64 (-1023), false, false) := by
  have hB : Eb * 2^52 + (q - 2^52) < 2^63 := by omega
  have hR := toNat_sign_or s hs _ hB
  generalize hRd : (s ||| BitVec.ofNat 64 (Eb * 2^52 + (q - 2^52))) = R at *
  have hsn : s.toNat = 0 ∨ s.toNat = 2^63 := by rcases hs with rfl | rfl <;> simp
  have hexp : expF64 R = Eb := by unfold expF64; rw [hR]; omega
  have hmant : mantF64 R = q - 2^52 := by unfold mantF64; rw [hR]; omega
  rw [funpack64_normal R (by omega) (by omega), hexp]
  have h1 : R &&& 9223372036854775808#64 = s := by
    apply BitVec.eq_of_toNat_eq; rw [toNat_and_sign64, hR]; omega
  have h2 : (R &&& 4503599627370495#64) ||| 4503599627370496#64 = BitVec.ofNat 64 q := by
    apply BitVec.eq_of_toNat_eq
    have hm : (R &&& 4503599627370495#64).toNat = q - 2^52 := by rw [toNat_and_mant64]; exact hmant
    rw [toNat_or_implicit64 _ (by rw [hm]; omega), hm, BitVec.toNat_ofNat, Nat.mod_eq_of_lt (by omega)]; omega
  rw [h1, h2]

/-- widening is exact: unpacking the widened value gives the same sign, the same exponent and the
24-bit mantissa left-aligned to 53 bits -/
theorem funpack64_f32to64 (f : BitVec 32) (hf : isFinite32 f) (hfz : ¬ isZero32 f) :
    funpack64 (f32to64 f) =
      ((BitVec.setWidth 64 (funpack32 f).1) <<< 32, BitVec.ofNat 64 ((funpack32 f).2.1.toNat * 2^29),
       (funpack32 f).2.2.1, false, false) := by
  obtain ⟨fm, fe, hF, hm1, hm2, he1, he2, hbits⟩ := f32to64_bits f hf hfz
  rw [hbits, hF]
  simp only []
  have hEb : ((fe.toInt + 1023).toNat : Int) = fe.toInt + 1023 := by omega
  rw [funpack64_of_bits _ (sign64_of_sign32 f) (fe.toInt + 1023).toNat (fm.toNat * 2^29) (by omega) (by omega)
    (by omega) (by omega)]
  have : BitVec.ofNat 64 (fe.toInt + 1023).toNat + BitVec.ofInt 64 (-1023) = fe := by
    apply BitVec.eq_of_toInt_eq
    rw [toInt_ofNat_add_ofInt _ _ (by omega) (by omega) (by omega)]; omega
  rw [this]

end GnoVerif.C05.L
