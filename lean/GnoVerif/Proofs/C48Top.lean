/- Helper lemmas for C48: Option-level (nil-aware) wrappers used by Props/C48.lean. -/
import GnoVerif.Proofs.C48Enc
namespace GnoVerif.C48

theorem bget_set (l : List Bool) (i j : Nat) (v : Bool) :
    bget (l.set i v) j = if j = i ∧ i < l.length then v else bget l j := by
  unfold bget
  simp only [List.getD_eq_getElem?_getD, List.getElem?_set]
  by_cases h : i = j
  · subst h
    by_cases h2 : i < l.length
    · simp [h2]
    · simp [h2]
  · have : ¬ j = i := fun e => h e.symm
    simp [h, this]

theorem wf_empty : (⟨0, []⟩ : BA).WF := ⟨rfl, fun i _ => bitAt_nil i⟩

theorem newBitArray_spec (n : Int) :
    WF (newBitArray n) ∧ abs (newBitArray n) = List.replicate n.toNat false ∧
      (newBitArray n = none ↔ n ≤ 0) := by
  unfold newBitArray
  by_cases h : n ≤ 0
  · rw [if_pos h]
    have : n.toNat = 0 := by omega
    simp [WF, abs, this, h]
  · rw [if_neg h]
    refine ⟨wf_zero _, ?_, by simp [h]⟩
    simp only [abs]
    apply abs_eq_of
    · simp
    · intro i hi
      simp only at hi ⊢
      rw [bitAt_replicate_zero, bget_of_lt _ _ (by simpa using hi)]
      simp

theorem setIndex_some_spec (b : BA) (hb : b.WF) (i : Nat) (v : Bool) :
    (b.setIndex i v).1.WF ∧ (b.setIndex i v).2 = decide (i < b.bits) ∧
      (b.setIndex i v).1.abs = b.abs.set i v := by
  rcases Nat.lt_or_ge i b.bits with hi | hi
  · obtain ⟨s1, s2, s3, s4⟩ := b.setIndex_spec hb.len i v hi
    refine ⟨⟨by rw [s3, s2, hb.len], fun j hj => ?_⟩, by rw [s1]; simp [hi], ?_⟩
    · rw [s2] at hj
      rw [s4, if_neg (by omega)]
      exact hb.pad j hj
    · apply abs_eq_of
      · rw [s2]; simp [length_abs]
      · intro j hj
        rw [s4, bget_set, hb.bget_abs]
        have : i < b.abs.length := by rw [length_abs]; exact hi
        by_cases hji : j = i <;> simp [hji, this]
  · rw [b.setIndex_oob i v hi]
    refine ⟨hb, by simp [show ¬ i < b.bits by omega], ?_⟩
    simp only
    rw [List.set_eq_of_length_le (by rw [length_abs]; exact hi)]

theorem getIndex_some_spec (b : BA) (hb : b.WF) (i : Nat) : b.getIndex i = bget b.abs i := by
  rw [b.getIndex_eq hb.len, bget_abs]

end GnoVerif.C48
