/-
Proofs.C23Versions — the versioned store `MT` (Model.C23Versions): every
reachable state keeps all its trees well-formed, the cached size exact and
`lastSaved` equal to the saved version the session is based on; the
per-operation effect on the abstract contents.
-/
import GnoVerif.Proofs.C23Occ
import GnoVerif.Model.C23Versions

namespace GnoVerif.C23
open GnoVerif

theorem Tree.size_eq_abs {B : Nat} {t : Tree} (ht : t.WF B) : t.size = t.abs.length := by
  cases t with
  | empty => rfl
  | node h n => exact Ord.size_eq ht.1

theorem Tree.sorted_abs {t : Tree} (ht : t.OrdOk) : OMap.Sorted t.abs := by
  cases t with
  | empty => exact List.Pairwise.nil
  | node h n => exact Ord.sorted ht

theorem Tree.wf_empty (B : Nat) : Tree.empty.WF B := ⟨trivial, trivial⟩

/-- `Set` at tree level. -/
theorem treeInsert_wf {B : Nat} (hB : 4 ≤ B) {t : Tree} (ht : t.WF B) (key : Key) (v : Val) :
    (treeInsert B t key v).1.WF B ∧
    (treeInsert B t key v).1.abs = OMap.set t.abs key v ∧
    (treeInsert B t key v).2 = (OMap.get t.abs key).isSome := by
  obtain ⟨h1, h2, h3⟩ := treeInsert_ok B t ht.1 key v
  exact ⟨⟨h1, treeInsert_occ hB t ht.1 ht.2 key v⟩, h2, h3⟩

/-- `Remove` at tree level. -/
theorem treeRemove_wf {B : Nat} (hB : 4 ≤ B) {t : Tree} (ht : t.WF B) (key : Key) :
    (treeRemove B t key).1.WF B ∧
    (treeRemove B t key).1.abs = OMap.del t.abs key ∧
    (if (treeRemove B t key).2.2 = true then OMap.get t.abs key = some (treeRemove B t key).2.1
     else OMap.get t.abs key = none) := by
  obtain ⟨h1, h2, h3⟩ := treeRemove_ok (show 2 ≤ B by omega) t ht.1 key
  exact ⟨⟨h1, treeRemove_occ hB t ht.1 ht.2 key⟩, h2, h3⟩

namespace MT

/-- the invariant of the versioned store. -/
structure Inv (B : Nat) (m : MT) : Prop where
  root : m.root.WF B
  last : m.lastSaved.WF B
  saved : ∀ p ∈ m.saved, p.2.WF B
  size : m.size = m.root.abs.length
  /-- `lastSaved` is the saved version the session is based on (the empty tree before any save) -/
  base : (m.version = 0 ∧ m.lastSaved = .empty) ∨ m.lookup m.version = some m.lastSaved
  /-- version numbers start at 1 -/
  pos : ∀ p ∈ m.saved, 0 < p.1

theorem inv_init (B : Nat) : Inv B {} :=
  ⟨Tree.wf_empty B, Tree.wf_empty B, by simp, rfl, Or.inl ⟨rfl, rfl⟩, by simp⟩

theorem lookup_mem {m : MT} {v : Nat} {t : Tree} (h : m.lookup v = some t) : (v, t) ∈ m.saved := by
  simp only [lookup, Option.map_eq_some_iff] at h
  obtain ⟨p, hp, rfl⟩ := h
  have := List.find?_some hp
  have hm := List.mem_of_find?_eq_some hp
  simp only [beq_iff_eq] at this
  rw [← this]; exact hm

theorem mem_insertSaved {v : Nat} {t : Tree} {l : List (Nat × Tree)} {p : Nat × Tree}
    (h : p ∈ insertSaved v t l) : p = (v, t) ∨ p ∈ l := by
  induction l with
  | nil => simp [insertSaved] at h; exact Or.inl h
  | cons q l ih =>
    obtain ⟨w, u⟩ := q
    simp only [insertSaved] at h
    split at h
    · simpa using h
    · rcases List.mem_cons.1 h with h | h
      · exact Or.inr (by simp [h])
      · rcases ih h with h | h
        · exact Or.inl h
        · exact Or.inr (List.mem_cons_of_mem _ h)

theorem find_insertSaved {v : Nat} {t : Tree} {l : List (Nat × Tree)}
    (hnone : l.find? (·.1 == v) = none) :
    (insertSaved v t l).find? (·.1 == v) = some (v, t) := by
  induction l with
  | nil => simp [insertSaved]
  | cons q l ih =>
    obtain ⟨w, u⟩ := q
    simp only [List.find?_cons] at hnone
    split at hnone
    · simp at hnone
    · rename_i hw
      simp only [insertSaved]
      split
      · simp
      · simp only [List.find?_cons, hw]
        exact ih hnone

theorem find_insertSaved_ne {v w : Nat} {t : Tree} {l : List (Nat × Tree)} (hne : w ≠ v) :
    (insertSaved v t l).find? (·.1 == w) = l.find? (·.1 == w) := by
  induction l with
  | nil => simp [insertSaved, hne.symm]
  | cons q l ih =>
    obtain ⟨x, u⟩ := q
    simp only [insertSaved]
    split
    · simp [List.find?_cons, hne.symm]
    · simp only [List.find?_cons, ih]

/-! ### one theorem per operation -/

theorem set_inv {B : Nat} (hB : 4 ≤ B) {m m' : MT} {key : Key} {v : Option Val} {u : Bool}
    (hi : Inv B m) (h : m.set B key v = .ok (m', u)) : Inv B m' := by
  simp only [set] at h
  split at h; · cases h
  split at h; · cases h
  split at h; · cases h
  rename_i val
  simp only [Except.ok.injEq, Prod.mk.injEq] at h
  obtain ⟨rfl, rfl⟩ := h
  obtain ⟨w1, w2, w3⟩ := treeInsert_wf hB hi.root key val
  refine ⟨w1, hi.last, hi.saved, ?_, hi.base, hi.pos⟩
  show (if (treeInsert B m.root key val).2 = true then m.size else m.size + 1) =
    (treeInsert B m.root key val).1.abs.length
  rw [w2, w3, oset_length (Tree.sorted_abs hi.root.1), hi.size]

theorem remove_inv {B : Nat} (hB : 4 ≤ B) {m m' : MT} {key : Key} {o : Option Val}
    (hi : Inv B m) (h : m.remove B key = .ok (m', o)) : Inv B m' := by
  simp only [remove] at h
  split at h; · cases h
  obtain ⟨w1, w2, w3⟩ := treeRemove_wf hB hi.root key
  split at h
  · simp only [Except.ok.injEq, Prod.mk.injEq] at h
    obtain ⟨rfl, _⟩ := h; exact hi
  · rename_i hf
    simp only [Bool.not_eq_true, Bool.not_eq_false'] at hf
    simp only [Except.ok.injEq, Prod.mk.injEq] at h
    obtain ⟨rfl, _⟩ := h
    refine ⟨w1, hi.last, hi.saved, ?_, hi.base, hi.pos⟩
    show m.size - 1 = _
    rw [w2, odel_length (Tree.sorted_abs hi.root.1), hi.size]
    simp only [hf, if_true] at w3
    simp [w3]

theorem saveVersion_inv {B : Nat} (hashOf : Tree → Bytes) {m : MT} (hi : Inv B m) :
    Inv B (m.saveVersion hashOf).2 := by
  unfold saveVersion
  by_cases hp : m.poisoned = true
  · rw [if_pos hp]; exact hi
  · rw [if_neg hp]
    cases hl : m.lookup (m.version + 1) with
    | some existing =>
      simp only [hl]
      have hex := hi.saved _ (lookup_mem hl)
      by_cases hc : saveConflict hashOf existing m.root = true
      · rw [if_pos hc]
        exact ⟨hi.root, hi.last, hi.saved, hi.size, hi.base, hi.pos⟩
      · rw [if_neg hc]
        exact ⟨hex, hex, hi.saved, Tree.size_eq_abs hex, Or.inr hl, hi.pos⟩
    | none =>
      simp only [hl]
      refine ⟨hi.root, hi.root, ?_, hi.size, Or.inr ?_, ?_⟩
      · intro p hp
        rcases mem_insertSaved hp with rfl | hp
        · exact hi.root
        · exact hi.saved p hp
      · simp only [lookup, Option.map_eq_none_iff] at hl
        simp only [lookup, find_insertSaved hl, Option.map_some]
      · intro p hp
        rcases mem_insertSaved hp with rfl | hp
        · simp
        · exact hi.pos p hp

theorem rollback_inv {B : Nat} {m : MT} (hi : Inv B m) : Inv B m.rollback :=
  ⟨hi.last, hi.last, hi.saved, Tree.size_eq_abs hi.last, hi.base, hi.pos⟩

theorem loadVersion_inv {B : Nat} {m m' : MT} {v l : Nat} (hi : Inv B m)
    (h : m.loadVersion v = .ok (m', l)) : Inv B m' := by
  simp only [loadVersion] at h
  cases hl : m.lookup v with
  | none => rw [hl] at h; cases h
  | some t =>
    rw [hl] at h
    simp only [Except.ok.injEq, Prod.mk.injEq] at h
    obtain ⟨rfl, _⟩ := h
    have ht := hi.saved _ (lookup_mem hl)
    exact ⟨ht, ht, hi.saved, Tree.size_eq_abs ht, Or.inr hl, hi.pos⟩

theorem reopen_inv {B : Nat} {m : MT} (hi : Inv B m) : Inv B m.reopen.1 := by
  simp only [reopen]
  cases hl : m.lookup m.latest with
  | none => exact ⟨Tree.wf_empty B, Tree.wf_empty B, hi.saved, rfl, Or.inl ⟨rfl, rfl⟩, hi.pos⟩
  | some t =>
    have ht := hi.saved _ (lookup_mem hl)
    exact ⟨ht, ht, hi.saved, Tree.size_eq_abs ht, Or.inr hl, hi.pos⟩

theorem find_filter_gt {l : List (Nat × Tree)} {to v : Nat} (hv : to < v) :
    (l.filter (fun p => decide (p.1 > to))).find? (·.1 == v) = l.find? (·.1 == v) := by
  induction l with
  | nil => rfl
  | cons q l ih =>
    obtain ⟨w, u⟩ := q
    simp only [List.filter_cons]
    split
    · simp only [List.find?_cons, ih]
    · rename_i hw
      simp only [gt_iff_lt, decide_eq_true_eq, Nat.not_lt] at hw
      have : (w == v) = false := by simp; omega
      simp only [List.find?_cons, this, ih]

theorem prune_inv {B : Nat} {m m' : MT} {to : Nat} (hi : Inv B m) (h : m.prune to = .ok m') :
    Inv B m' := by
  simp only [prune] at h
  split at h; · cases h
  split at h; · cases h; exact hi
  split at h; · cases h
  split at h; · cases h
  rename_i hact
  cases h
  refine ⟨hi.root, hi.last, fun p hp => hi.saved p (List.mem_filter.1 hp).1, hi.size, ?_,
    fun p hp => hi.pos p (List.mem_filter.1 hp).1⟩
  rcases hi.base with hb | hb
  · exact Or.inl hb
  · right
    simp only [lookup] at hb ⊢
    rw [find_filter_gt (by omega)]
    exact hb

theorem apply_inv {B : Nat} (hB : 4 ≤ B) (hashOf : Tree → Bytes) {m : MT} (hi : Inv B m) (op : Op) :
    Inv B (m.apply B hashOf op) := by
  cases op with
  | set k v =>
    simp only [apply]
    cases h : m.set B k v with
    | error e => exact hi
    | ok r => obtain ⟨m', u⟩ := r; exact set_inv hB hi h
  | rm k =>
    simp only [apply]
    cases h : m.remove B k with
    | error e => exact hi
    | ok r => obtain ⟨m', u⟩ := r; exact remove_inv hB hi h
  | save => exact saveVersion_inv hashOf hi
  | rollback => exact rollback_inv hi
  | load v =>
    simp only [apply]
    cases h : m.loadVersion v with
    | error e => exact hi
    | ok r => obtain ⟨m', u⟩ := r; exact loadVersion_inv hi h
  | prune to =>
    simp only [apply]
    cases h : m.prune to with
    | error e => exact hi
    | ok m' => exact prune_inv hi h
  | reopen => exact reopen_inv hi

theorem run_inv {B : Nat} (hB : 4 ≤ B) (hashOf : Tree → Bytes) (ops : List Op) :
    Inv B (run B hashOf ops) := by
  unfold run
  have : ∀ (m : MT), Inv B m → Inv B (ops.foldl (apply B hashOf) m) := by
    induction ops with
    | nil => intro m hm; exact hm
    | cons op ops ih => intro m hm; exact ih _ (apply_inv hB hashOf hm op)
  exact this _ (inv_init B)

/-- a saved version is never re-bound or altered; it disappears only through pruning. -/
theorem lookup_apply {B : Nat} (hashOf : Tree → Bytes) (m : MT) (op : Op) {v : Nat} {t : Tree}
    (h : m.lookup v = some t) :
    (m.apply B hashOf op).lookup v = some t ∨
    (∃ to, op = .prune to ∧ v ≤ to ∧ (m.apply B hashOf op).lookup v = none) := by
  cases op with
  | set k val =>
    left
    simp only [apply]
    cases hs : m.set B k val with
    | error e => exact h
    | ok r =>
      obtain ⟨m', u⟩ := r
      simp only [set] at hs
      split at hs; · cases hs
      split at hs; · cases hs
      split at hs; · cases hs
      simp only [Except.ok.injEq, Prod.mk.injEq] at hs
      obtain ⟨rfl, _⟩ := hs
      exact h
  | rm k =>
    left
    simp only [apply]
    cases hs : m.remove B k with
    | error e => exact h
    | ok r =>
      obtain ⟨m', u⟩ := r
      simp only [remove] at hs
      split at hs; · cases hs
      split at hs
      · simp only [Except.ok.injEq, Prod.mk.injEq] at hs; obtain ⟨rfl, _⟩ := hs; exact h
      · simp only [Except.ok.injEq, Prod.mk.injEq] at hs; obtain ⟨rfl, _⟩ := hs; exact h
  | save =>
    left
    simp only [apply]
    unfold saveVersion
    by_cases hp : m.poisoned = true
    · rw [if_pos hp]; exact h
    · rw [if_neg hp]
      cases hl : m.lookup (m.version + 1) with
      | some existing =>
        simp only [hl]
        by_cases hc : saveConflict hashOf existing m.root = true
        · rw [if_pos hc]; exact h
        · rw [if_neg hc]; exact h
      | none =>
        simp only [hl]
        have hne : v ≠ m.version + 1 := by
          intro he; subst he; rw [hl] at h; cases h
        simp only [lookup] at h ⊢
        rw [find_insertSaved_ne hne]; exact h
  | rollback => left; exact h
  | load w =>
    left
    simp only [apply]
    cases hs : m.loadVersion w with
    | error e => exact h
    | ok r =>
      obtain ⟨m', u⟩ := r
      simp only [loadVersion] at hs
      cases hl : m.lookup w with
      | none => rw [hl] at hs; cases hs
      | some t' =>
        rw [hl] at hs
        simp only [Except.ok.injEq, Prod.mk.injEq] at hs
        obtain ⟨rfl, _⟩ := hs
        exact h
  | prune to =>
    simp only [apply]
    cases hs : m.prune to with
    | error e => exact Or.inl h
    | ok m' =>
      simp only [prune] at hs
      split at hs; · cases hs
      split at hs; · cases hs; exact Or.inl h
      split at hs; · cases hs
      split at hs; · cases hs
      cases hs
      by_cases hv : to < v
      · left
        simp only [lookup] at h ⊢
        rw [find_filter_gt hv]; exact h
      · right
        refine ⟨to, rfl, by omega, ?_⟩
        simp only [lookup, Option.map_eq_none_iff, List.find?_eq_none]
        intro p hp
        have := (List.mem_filter.1 hp).2
        simp only [gt_iff_lt, decide_eq_true_eq] at this
        simp; omega
  | reopen =>
    left
    simp only [apply, reopen]
    cases hl : m.lookup m.latest with
    | none => exact h
    | some t' => exact h

/-- pruning keeps every version above the target exactly as it was. -/
theorem prune_lookup {m m' : MT} {to : Nat} (h : m.prune to = .ok m') {v : Nat} (hv : to < v) :
    m'.lookup v = m.lookup v := by
  simp only [prune] at h
  split at h; · cases h
  split at h; · cases h; rfl
  split at h; · cases h
  split at h; · cases h
  cases h
  simp only [lookup]
  rw [find_filter_gt hv]

end MT
end GnoVerif.C23
