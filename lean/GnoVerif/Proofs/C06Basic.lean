import GnoVerif.Model.C06Inv
/-! Basic lemmas for C06: heap access, flag-only updates, sums over the heap. -/
namespace GnoVerif.C06
open State

/-! ### get / modify -/

theorem get_modify (s : State) (a x : Nat) (f : Obj → Obj) :
    (s.modify a f).get x = if x = a ∧ a < s.heap.length then f (s.get a) else s.get x := by
  unfold State.modify State.get
  simp only [List.getD_eq_getElem?_getD, List.getElem?_set]
  by_cases hx : x = a
  · subst hx
    by_cases hl : x < s.heap.length
    · simp [hl]
    · simp [hl]
  · have : ¬ a = x := fun e => hx e.symm
    simp [hx, this]

theorem get_modify_self (s : State) (a : Nat) (f : Obj → Obj) (h : a < s.heap.length) :
    (s.modify a f).get a = f (s.get a) := by
  rw [get_modify]; simp [h]

theorem get_modify_ne (s : State) (a x : Nat) (f : Obj → Obj) (h : x ≠ a) :
    (s.modify a f).get x = s.get x := by
  rw [get_modify]; simp [h]

@[simp] theorem length_modify (s : State) (a : Nat) (f : Obj → Obj) :
    (s.modify a f).heap.length = s.heap.length := by
  simp [State.modify]

@[simp] theorem heap_modMarks (s : State) (r : Nat) (f : Marks → Marks) : (s.modMarks r f).heap = s.heap := rfl
@[simp] theorem get_modMarks (s : State) (r : Nat) (f : Marks → Marks) (x : Nat) : (s.modMarks r f).get x = s.get x := rfl
@[simp] theorem heap_fail (s : State) : s.fail.heap = s.heap := rfl
@[simp] theorem get_fail (s : State) (x : Nat) : s.fail.get x = s.get x := rfl
@[simp] theorem time_modMarks (s : State) (r : Nat) (f : Marks → Marks) : (s.modMarks r f).time = s.time := rfl
@[simp] theorem time_modify (s : State) (a : Nat) (f : Obj → Obj) : (s.modify a f).time = s.time := rfl
@[simp] theorem marks_modify (s : State) (a : Nat) (f : Obj → Obj) : (s.modify a f).marks = s.marks := rfl

theorem get_default_of_ge (s : State) (a : Nat) (h : s.heap.length ≤ a) : s.get a = default := by
  unfold State.get
  simp [List.getD_eq_getElem?_getD, List.getElem?_eq_none h]

/-! ### the part of an object that ref-counting is about -/

/-- what the invariants read: kind, realm stamp, ref-count, slots, id time, deleted flag -/
structure Core where
  kind : Kind
  pkg : Nat
  rc : Int
  kids : List (Option Nat)
  time : Nat
  deleted : Bool
  deriving DecidableEq

def core (o : Obj) : Core := ⟨o.kind, o.pkg, o.rc, o.kids, o.time, o.deleted⟩

/-- same heap size, same cores -/
def SameCore (s s' : State) : Prop :=
  s'.heap.length = s.heap.length ∧ ∀ x, core (s'.get x) = core (s.get x)

theorem SameCore.refl (s : State) : SameCore s s := ⟨rfl, fun _ => rfl⟩

theorem SameCore.trans {s1 s2 s3 : State} (h1 : SameCore s1 s2) (h2 : SameCore s2 s3) : SameCore s1 s3 :=
  ⟨h2.1.trans h1.1, fun x => (h2.2 x).trans (h1.2 x)⟩

/-- a modification that keeps the core of the touched object -/
theorem sameCore_modify (s : State) (a : Nat) (f : Obj → Obj) (h : ∀ o, core (f o) = core o) :
    SameCore s (s.modify a f) := by
  refine ⟨length_modify s a f, fun x => ?_⟩
  rw [get_modify]
  split
  · rename_i hx; rw [hx.1]; exact h _
  · rfl

theorem sameCore_modMarks (s : State) (r : Nat) (f : Marks → Marks) : SameCore s (s.modMarks r f) :=
  ⟨rfl, fun _ => rfl⟩

theorem sameCore_fail (s : State) : SameCore s s.fail := ⟨rfl, fun _ => rfl⟩

theorem sameCore_markNewReal (s : State) (r a : Nat) : SameCore s (markNewReal s r a) := by
  unfold markNewReal
  split
  · exact SameCore.refl s
  · exact (sameCore_modify s a _ (by intro o; rfl)).trans (sameCore_modMarks _ r _)

theorem sameCore_markDirty (s : State) (r a : Nat) : SameCore s (markDirty s r a) := by
  unfold markDirty
  split
  · exact SameCore.refl s
  · split
    · exact SameCore.refl s
    · exact (sameCore_modify s a _ (by intro o; rfl)).trans (sameCore_modMarks _ r _)

theorem sameCore_markNewDeleted (s : State) (r a : Nat) : SameCore s (markNewDeleted s r a) := by
  unfold markNewDeleted
  split
  · exact SameCore.refl s
  · exact (sameCore_modify s a _ (by intro o; rfl)).trans (sameCore_modMarks _ r _)

theorem sameCore_markNewEscaped (s : State) (r a : Nat) : SameCore s (markNewEscaped s r a) := by
  unfold markNewEscaped
  split
  · exact SameCore.refl s
  · exact (sameCore_modify s a _ (by intro o; rfl)).trans (sameCore_modMarks _ r _)

theorem sameCore_setOwner (s : State) (a : Nat) (p : Option Nat) : SameCore s (setOwner s a p) :=
  sameCore_modify s a _ (by intro o; rfl)

/-! ### sums over the heap -/

def sumTo (n : Nat) (f : Nat → Int) : Int := ((List.range n).map f).sum

theorem sumTo_succ (n : Nat) (f : Nat → Int) : sumTo (n + 1) f = sumTo n f + f n := by
  simp [sumTo, List.range_succ]

theorem sumTo_congr (n : Nat) (f g : Nat → Int) (h : ∀ i, i < n → f i = g i) : sumTo n f = sumTo n g := by
  induction n with
  | zero => rfl
  | succ n ih =>
    rw [sumTo_succ, sumTo_succ, ih (fun i hi => h i (Nat.lt_succ_of_lt hi)), h n (Nat.lt_succ_self n)]

/-- changing one summand -/
theorem sumTo_update (n : Nat) (f g : Nat → Int) (p : Nat) (hp : p < n)
    (h : ∀ i, i < n → i ≠ p → g i = f i) : sumTo n g = sumTo n f - f p + g p := by
  induction n with
  | zero => omega
  | succ n ih =>
    rw [sumTo_succ, sumTo_succ]
    by_cases hpn : p = n
    · subst hpn
      rw [sumTo_congr p g f (fun i hi => h i (Nat.lt_succ_of_lt hi) (Nat.ne_of_lt hi))]
      omega
    · have hlt : p < n := by omega
      rw [ih hlt (fun i hi hne => h i (Nat.lt_succ_of_lt hi) hne), h n (Nat.lt_succ_self n) (fun e => hpn e.symm)]
      omega

theorem sumTo_add (n : Nat) (f g : Nat → Int) : sumTo n (fun i => f i + g i) = sumTo n f + sumTo n g := by
  induction n with
  | zero => rfl
  | succ n ih => rw [sumTo_succ, sumTo_succ, sumTo_succ, ih]; omega

end GnoVerif.C06
