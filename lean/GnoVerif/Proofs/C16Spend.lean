import GnoVerif.Proofs.C16Coins
import GnoVerif.Model.C16Spec
/-! Helper lemmas for C16: `DeductSessionSpend` / `CheckSessionSpend` on one session. -/
namespace GnoVerif.C16

/-- the session as `DeductSessionSpend` sees it at block time `now` (pending reset applied) -/
def norm (s : Session) (now : Int) : Session :=
  if resetDue s now then { s with used := [], reset := now } else s

/-- spend already counted in the period that contains `now` -/
def U (s : Session) (now : Int) (d : Denom) : Int := amountOf (norm s now).used d

theorem resetDue_iff {s : Session} {now : Int} :
    resetDue s now = true ↔ s.period > 0 ∧ now ≥ s.reset + s.period := by
  simp [resetDue]

theorem norm_of_due {s : Session} {now : Int} (h : resetDue s now = true) :
    norm s now = { s with used := [], reset := now } := by simp [norm, h]

theorem norm_of_not_due {s : Session} {now : Int} (h : resetDue s now = false) : norm s now = s := by
  simp [norm, h]

theorem not_due_after_reset {s : Session} {now : Int} (h : resetDue s now = true) :
    resetDue { s with used := ([] : Coins), reset := now } now = false := by
  have := resetDue_iff.mp h
  simp only [resetDue, Bool.and_eq_false_iff, decide_eq_false_iff_not]
  right; omega

theorem norm_idem (s : Session) (now : Int) : resetDue (norm s now) now = false := by
  by_cases h : resetDue s now = true
  · rw [norm_of_due h]; exact not_due_after_reset h
  · have h' : resetDue s now = false := by simpa using h
    rw [norm_of_not_due h']; exact h'

theorem WFS_norm {s : Session} (h : WFS s) (now : Int) : WFS (norm s now) := by
  unfold norm
  split
  · exact ⟨rfl, h.limit, fun d => by simpa [amountOf] using amountOf_nonneg h.limit d⟩
  · exact h

/-- the fields `DeductSessionSpend` never touches -/
def SameGrant (s s' : Session) : Prop :=
  s'.limit = s.limit ∧ s'.period = s.period ∧ s'.expiresAt = s.expiresAt ∧ s'.paths = s.paths

theorem SameGrant.refl (s : Session) : SameGrant s s := ⟨rfl, rfl, rfl, rfl⟩
theorem SameGrant.trans {a b c : Session} (h1 : SameGrant a b) (h2 : SameGrant b c) : SameGrant a c :=
  ⟨h2.1.trans h1.1, h2.2.1.trans h1.2.1, h2.2.2.1.trans h1.2.2.1, h2.2.2.2.trans h1.2.2.2⟩

/-- shape of every successful `DeductSessionSpend` -/
theorem deduct_ok_shape {s s' : Session} {amt : Coins} {now : Int}
    (h : deductSessionSpend s amt now = .ok s') :
    (isZero amt = true ∧ s' = s) ∨
    (isZero amt = false ∧ s.limit.length ≠ 0 ∧ ∃ nu, add (norm s now).used amt = some nu ∧
      isAllGTE (norm s now).limit nu = true ∧ s' = { norm s now with used := nu }) := by
  unfold deductSessionSpend at h
  split at h
  · left; rename_i hz; cases h; exact ⟨hz, rfl⟩
  · rename_i hz
    right
    have hz' : isZero amt = false := by simpa using hz
    split at h
    · cases h
    · rename_i hl
      have hl' : s.limit.length ≠ 0 := by simpa using hl
      have hn : (if resetDue s now = true then { s with used := ([] : Coins), reset := now } else s) = norm s now := rfl
      simp only [hn] at h
      cases ha : add (norm s now).used amt with
      | none => rw [ha] at h; cases h
      | some nu =>
        rw [ha] at h
        simp only at h
        split at h
        · cases h
        · rename_i hg
          cases h
          exact ⟨hz', hl', nu, rfl, by simpa using hg, rfl⟩

theorem norm_sameGrant (s : Session) (now : Int) : SameGrant s (norm s now) := by
  unfold norm; split <;> exact ⟨rfl, rfl, rfl, rfl⟩

theorem norm_seq (s : Session) (now : Int) : (norm s now).seq = s.seq := by
  unfold norm; split <;> rfl

/-- `DeductSessionSpend` keeps the record well-formed, whatever the amount. -/
theorem deduct_WFS {s s' : Session} {amt : Coins} {now : Int} (hw : WFS s)
    (h : deductSessionSpend s amt now = .ok s') : WFS s' ∧ SameGrant s s' ∧ s'.seq = s.seq := by
  rcases deduct_ok_shape h with ⟨_, rfl⟩ | ⟨_, _, nu, ha, hg, rfl⟩
  · exact ⟨hw, SameGrant.refl _, rfl⟩
  · have hn := WFS_norm hw now
    have hv := add_valid ha
    have hg' := norm_sameGrant s now
    refine ⟨⟨hv, hn.limit, fun d => ?_⟩, ⟨hg'.1, hg'.2.1, hg'.2.2.1, hg'.2.2.2⟩, norm_seq s now⟩
    exact isAllGTE_spec hn.limit hv hg d

/-- the relation between a session before and after any number of deductions made at block
    time `now`: nothing counted, or the record sits in the period containing `now` -/
def Adv (now : Int) (s s' : Session) : Prop :=
  SameGrant s s' ∧ WFS s' ∧
  ((s'.reset = s.reset ∧ s'.used = s.used) ∨
   (s'.reset = (norm s now).reset ∧ resetDue s' now = false ∧
     ∀ d, amountOf (norm s now).used d ≤ amountOf s'.used d))

theorem norm_congr {s s' : Session} {now : Int} (hp : s'.period = s.period) (hr : s'.reset = s.reset)
    (hu : s'.used = s.used) : (norm s' now).used = (norm s now).used ∧ (norm s' now).reset = (norm s now).reset ∧
      resetDue s' now = resetDue s now := by
  have hd : resetDue s' now = resetDue s now := by simp [resetDue, hp, hr]
  unfold norm
  rw [hd]
  split <;> simp [hu, hr]

theorem U_congr {s s' : Session} {now : Int} (hp : s'.period = s.period) (hr : s'.reset = s.reset)
    (hu : s'.used = s.used) (d : Denom) : U s' now d = U s now d := by
  unfold U; rw [(norm_congr hp hr hu).1]

theorem Adv.refl {now : Int} {s : Session} (h : WFS s) : Adv now s s :=
  ⟨SameGrant.refl s, h, Or.inl ⟨rfl, rfl⟩⟩

theorem Adv.trans {now : Int} {a b c : Session} (h1 : Adv now a b) (h2 : Adv now b c) : Adv now a c := by
  obtain ⟨g1, _, d1⟩ := h1
  obtain ⟨g2, w2, d2⟩ := h2
  refine ⟨g1.trans g2, w2, ?_⟩
  rcases d1 with ⟨r1, u1⟩ | ⟨r1, n1, m1⟩
  · rcases d2 with ⟨r2, u2⟩ | ⟨r2, n2, m2⟩
    · exact Or.inl ⟨r2.trans r1, u2.trans u1⟩
    · right
      refine ⟨?_, n2, fun d => ?_⟩
      · rw [r2]; exact (norm_congr g1.2.1 r1 u1).2.1
      · rw [← (norm_congr g1.2.1 r1 u1).1]; exact m2 d
  · right
    rcases d2 with ⟨r2, u2⟩ | ⟨r2, n2, m2⟩
    · refine ⟨r2.trans r1, ?_, fun d => ?_⟩
      · rw [(norm_congr g2.2.1 r2 u2).2.2]; exact n1
      · rw [u2]; exact m1 d
    · refine ⟨?_, n2, fun d => ?_⟩
      · rw [r2, norm_of_not_due n1]; exact r1
      · have := m2 d
        rw [norm_of_not_due n1] at this
        exact Int.le_trans (m1 d) this

/-- A successful deduction of a valid amount advances the record and raises the counted spend
    of the current period by exactly the amount. -/
theorem deduct_adv {s s' : Session} {amt : Coins} {now : Int} (hw : WFS s) (hv : validCoins amt = true)
    (h : deductSessionSpend s amt now = .ok s') :
    Adv now s s' ∧ ∀ d, U s' now d = U s now d + amountOf amt d := by
  obtain ⟨hw', hg, _⟩ := deduct_WFS hw h
  rcases deduct_ok_shape h with ⟨hz, rfl⟩ | ⟨_, _, nu, ha, _, rfl⟩
  · exact ⟨Adv.refl hw, fun d => by rw [amountOf_zero_of_isZero hz]; omega⟩
  · have hnd : resetDue ({ norm s now with used := nu }) now = false := by
      have := norm_idem s now
      simpa [resetDue] using this
    have hq := (add_spec (WFS_norm hw now).used hv ha).2
    refine ⟨⟨hg, hw', Or.inr ⟨rfl, hnd, fun d => ?_⟩⟩, fun d => ?_⟩
    · have := amountOf_nonneg hv d
      have := hq d
      simp only
      omega
    · unfold U
      rw [norm_of_not_due hnd]
      exact hq d

/-- the reset a deduction performs is due: the period is positive and has elapsed -/
theorem reset_change_due {now : Int} {s s' : Session} (h : Adv now s s') (hne : s'.reset ≠ s.reset) :
    resetDue s now = true ∧ s'.reset = now ∧ resetDue s' now = false := by
  rcases h.2.2 with ⟨r, _⟩ | ⟨r, n, _⟩
  · exact absurd r hne
  · by_cases hd : resetDue s now = true
    · refine ⟨hd, ?_, n⟩
      rw [r, norm_of_due hd]
    · have hd' : resetDue s now = false := by simpa using hd
      rw [norm_of_not_due hd'] at r
      exact absurd r hne

/-- what `Adv` and the potential give for the two cases the history proof distinguishes -/
theorem adv_outflow_bound {now : Int} {s s' : Session} {d : Denom} {out : Int} (h : Adv now s s')
    (hout : out ≤ U s' now d - U s now d) :
    (s'.reset = s.reset → out ≤ amountOf s'.used d - amountOf s.used d) ∧
    (s'.reset ≠ s.reset → out ≤ amountOf s'.used d) := by
  constructor
  · intro hr
    rcases h.2.2 with ⟨_, u⟩ | ⟨r, n, _⟩
    · rw [U_congr h.1.2.1 hr u] at hout
      rw [u]; omega
    · by_cases hd : resetDue s now = true
      · -- a due reset would have changed the stored reset
        exfalso
        rw [norm_of_due hd] at r
        have := resetDue_iff.mp hd
        simp only at r
        omega
      · have hd' : resetDue s now = false := by simpa using hd
        unfold U at hout
        rw [norm_of_not_due n, norm_of_not_due hd'] at hout
        exact hout
  · intro hne
    obtain ⟨hd, _, n⟩ := reset_change_due h hne
    unfold U at hout
    rw [norm_of_not_due n, norm_of_due hd] at hout
    simpa [amountOf] using hout

/-- within one period the counted spend never goes down -/
theorem adv_used_mono {now : Int} {s s' : Session} (h : Adv now s s') (hr : s'.reset = s.reset) (d : Denom) :
    amountOf s.used d ≤ amountOf s'.used d := by
  rcases h.2.2 with ⟨_, u⟩ | ⟨r, _, mono⟩
  · rw [u]; exact Int.le_refl _
  · by_cases hd : resetDue s now = true
    · exfalso
      rw [norm_of_due hd] at r
      have := resetDue_iff.mp hd
      simp only at r
      omega
    · have hd' : resetDue s now = false := by simpa using hd
      have := mono d
      rw [norm_of_not_due hd'] at this
      exact this

end GnoVerif.C16
