import GnoVerif.Proofs.C06Basic
/-!
C06 — the ref-count invariant through DidUpdate, incRefCreatedDescendants and
decRefDeletedDescendants.

`counted o`: the object takes part in ref-counting as a PARENT — it has an
object id (real) and is not deleted.  `refs s a`: number of reference slots of
counted objects that point to `a`.  The invariant, with an `owe` term for the
middle of a recursive crawl (children of an object that has just become
counted / uncounted and whose slots have not all been visited yet):

    RCI s owe :  ∀ a,  rc a + owe a = refs s a + pinned a
-/
namespace GnoVerif.C06
open State

def counted (o : Obj) : Bool := o.time != 0 && !o.deleted

def contrib (o : Obj) (a : Nat) : Int := if counted o then (o.kids.count (some a) : Int) else 0

def refs (s : State) (a : Nat) : Int := sumTo s.heap.length fun p => contrib (s.get p) a

def RCI (s : State) (owe : Nat → Int) : Prop :=
  ∀ a, a < s.heap.length → (s.get a).rc + owe a = refs s a + pinned (s.get a)

/-- well-formedness that the crawls need -/
structure WF (s : State) : Prop where
  unreal_not_deleted : ∀ a, (s.get a).time = 0 → (s.get a).deleted = false
  kids_in_range : ∀ a, a < s.heap.length → ∀ c ∈ s.children a, c < s.heap.length

theorem contrib_core (o o' : Obj) (h : core o' = core o) (a : Nat) : contrib o' a = contrib o a := by
  have h1 : o'.kids = o.kids := congrArg Core.kids h
  have h2 : o'.time = o.time := congrArg Core.time h
  have h3 : o'.deleted = o.deleted := congrArg Core.deleted h
  simp [contrib, counted, h1, h2, h3]

theorem refs_congr (s s' : State) (hl : s'.heap.length = s.heap.length)
    (h : ∀ x a, contrib (s'.get x) a = contrib (s.get x) a) (a : Nat) : refs s' a = refs s a := by
  unfold refs
  rw [hl]
  exact sumTo_congr _ _ _ (fun i _ => h i a)

theorem SameCore.refs {s s' : State} (h : SameCore s s') (a : Nat) : refs s' a = refs s a :=
  refs_congr s s' h.1 (fun x a => contrib_core _ _ (h.2 x) a) a

theorem SameCore.rci {s s' : State} (h : SameCore s s') {owe : Nat → Int} (hr : RCI s owe) : RCI s' owe := by
  intro a ha
  have hc := h.2 a
  have h1 : (s'.get a).rc = (s.get a).rc := congrArg Core.rc hc
  have h2 : (s'.get a).kind = (s.get a).kind := congrArg Core.kind hc
  rw [h.refs a, h1]
  have := hr a (by rw [← h.1]; exact ha)
  simp only [pinned, h2] at this ⊢
  exact this

theorem SameCore.children {s s' : State} (h : SameCore s s') (a : Nat) : s'.children a = s.children a := by
  unfold State.children
  rw [show (s'.get a).kids = (s.get a).kids from congrArg Core.kids (h.2 a)]

theorem SameCore.wf {s s' : State} (h : SameCore s s') (hw : WF s) : WF s' := by
  refine ⟨fun a ht => ?_, fun a ha c hc => ?_⟩
  · have hc := h.2 a
    have h1 : (s'.get a).time = (s.get a).time := congrArg Core.time hc
    have h2 : (s'.get a).deleted = (s.get a).deleted := congrArg Core.deleted hc
    rw [h2]; exact hw.unreal_not_deleted a (by rw [← h1]; exact ht)
  · rw [h.1] at ha ⊢
    rw [h.children a] at hc
    exact hw.kids_in_range a ha c hc

theorem SameCore.isReal {s s' : State} (h : SameCore s s') (a : Nat) : s'.isReal a = s.isReal a := by
  unfold State.isReal
  rw [show (s'.get a).time = (s.get a).time from congrArg Core.time (h.2 a)]

/-! ### changing only the ref-count -/

theorem contrib_rc (o : Obj) (k : Int) (a : Nat) : contrib { o with rc := k } a = contrib o a := rfl

theorem refs_modify_rc (s : State) (c : Nat) (g : Int → Int) (a : Nat) :
    refs (s.modify c fun o => { o with rc := g o.rc }) a = refs s a := by
  apply refs_congr _ _ (length_modify _ _ _)
  intro x a
  rw [get_modify]
  split
  · rename_i hx; rw [hx.1]; rfl
  · rfl

theorem rci_incRc (s : State) (c : Nat) (owe : Nat → Int) (hc : c < s.heap.length)
    (h : RCI s fun x => owe x + (if x = c then 1 else 0)) : RCI (incRc s c) owe := by
  intro a ha
  unfold incRc at ha ⊢
  rw [length_modify] at ha
  rw [refs_modify_rc s c (· + 1), get_modify]
  have := h a ha
  by_cases hac : a = c
  · subst hac
    simp only [hc, and_self, if_true] at this ⊢
    simp only [pinned] at this ⊢
    omega
  · simp only [hac, false_and, if_false] at this ⊢
    omega

theorem rci_decRc (s : State) (c : Nat) (owe : Nat → Int) (hc : c < s.heap.length)
    (h : RCI s fun x => owe x - (if x = c then 1 else 0)) : RCI (decRc s c) owe := by
  intro a ha
  unfold decRc at ha ⊢
  rw [length_modify] at ha
  rw [refs_modify_rc s c (· - 1), get_modify]
  have := h a ha
  by_cases hac : a = c
  · subst hac
    simp only [hc, and_self, if_true] at this ⊢
    simp only [pinned] at this ⊢
    omega
  · simp only [hac, false_and, if_false] at this ⊢
    omega

theorem wf_modify_rc (s : State) (c : Nat) (g : Int → Int) (hw : WF s) :
    WF (s.modify c fun o => { o with rc := g o.rc }) := by
  have hk : ∀ x, ((s.modify c fun o => { o with rc := g o.rc }).get x).kids = (s.get x).kids ∧
      ((s.modify c fun o => { o with rc := g o.rc }).get x).time = (s.get x).time ∧
      ((s.modify c fun o => { o with rc := g o.rc }).get x).deleted = (s.get x).deleted := by
    intro x
    rw [get_modify]
    split
    · rename_i hx; rw [hx.1]; exact ⟨rfl, rfl, rfl⟩
    · exact ⟨rfl, rfl, rfl⟩
  refine ⟨fun a ht => ?_, fun a ha c' hc' => ?_⟩
  · rw [(hk a).2.2]; exact hw.unreal_not_deleted a (by rw [← (hk a).2.1]; exact ht)
  · rw [length_modify] at ha ⊢
    unfold State.children at hc'
    rw [(hk a).1] at hc'
    exact hw.kids_in_range a ha c' hc'

theorem count_children (s : State) (a x : Nat) :
    ((s.get a).kids.count (some x) : Int) = ((s.children a).count x : Int) := by
  unfold State.children
  congr 1
  induction (s.get a).kids with
  | nil => rfl
  | cons k ks ih =>
    cases k with
    | none => simp [List.count_cons, ih]
    | some y =>
      simp only [List.count_cons, List.filterMap_cons, id_eq, ih]
      by_cases hy : y = x <;> simp [hy]

/-! ### assignNewObjectID -/

theorem get_assignId (s : State) (a x : Nat) :
    (assignId s a).get x =
      if x = a ∧ a < s.heap.length then { s.get a with time := s.timeOf (s.get a).pkg + 1 } else s.get x := by
  exact get_modify s a x fun o => { o with time := s.timeOf (s.get a).pkg + 1 }

@[simp] theorem length_assignId (s : State) (a : Nat) : (assignId s a).heap.length = s.heap.length := by
  exact length_modify s a fun o => { o with time := s.timeOf (s.get a).pkg + 1 }

theorem children_assignId (s : State) (a x : Nat) : (assignId s a).children x = s.children x := by
  unfold State.children
  rw [get_assignId]
  split
  · rename_i hx; rw [hx.1]
  · rfl

theorem wf_assignId (s : State) (a : Nat) (hw : WF s) : WF (assignId s a) := by
  refine ⟨fun x ht => ?_, fun x hx c hc => ?_⟩
  · rw [get_assignId] at ht ⊢
    split
    · rename_i h; rw [if_pos h] at ht; simp at ht
    · rename_i h; rw [if_neg h] at ht; exact hw.unreal_not_deleted x ht
  · rw [length_assignId] at hx ⊢
    rw [children_assignId] at hc
    exact hw.kids_in_range x hx c hc

/-- a fresh id makes the object a counted parent: every slot of it is now owed one increment -/
theorem rci_assignId (s : State) (a : Nat) (owe : Nat → Int) (ha : a < s.heap.length)
    (ht : (s.get a).time = 0) (hd : (s.get a).deleted = false) (h : RCI s owe) :
    RCI (assignId s a) fun x => owe x + ((s.children a).count x : Int) := by
  intro x hx
  rw [length_assignId] at hx
  have hrefs : refs (assignId s a) x = refs s x + ((s.children a).count x : Int) := by
    unfold refs
    rw [length_assignId]
    rw [sumTo_update s.heap.length (fun p => contrib (s.get p) x) (fun p => contrib ((assignId s a).get p) x) a ha
      (fun i _ hne => by simp only [get_assignId, hne, false_and, if_false])]
    have h1 : contrib (s.get a) x = 0 := by simp [contrib, counted, ht]
    have h2 : contrib ((assignId s a).get a) x = ((s.children a).count x : Int) := by
      rw [get_assignId]
      simp only [ha, and_self, if_true]
      simp only [contrib, counted, hd]
      rw [← count_children]
      simp
    rw [h1, h2]; omega
  have hrc : ((assignId s a).get x).rc = (s.get x).rc ∧ pinned ((assignId s a).get x) = pinned (s.get x) := by
    rw [get_assignId]
    split
    · rename_i hxa; rw [hxa.1]; exact ⟨rfl, rfl⟩
    · exact ⟨rfl, rfl⟩
  rw [hrefs, hrc.1, hrc.2]
  have := h x hx
  show (s.get x).rc + (owe x + ((s.children a).count x : Int)) = _
  omega

/-! ### incRefCreatedDescendants -/

/-- what the crawl guarantees about a state transformer -/
def Keeps (f : State → State) : Prop :=
  ∀ s owe, WF s → RCI s owe → (f s).heap.length = s.heap.length ∧ WF (f s) ∧ RCI (f s) owe

theorem keeps_of_sameCore (f : State → State) (h : ∀ s, SameCore s (f s)) : Keeps f :=
  fun s _ hw hr => ⟨(h s).1, (h s).wf hw, (h s).rci hr⟩

theorem incRefChild_keeps (recur : State → Nat → State) (r a : Nat)
    (hrec : ∀ c, Keeps fun s => recur s c) (c : Nat) (s : State) (owe : Nat → Int)
    (hc : c < s.heap.length) (hw : WF s) (h : RCI s fun x => owe x + (if x = c then 1 else 0)) :
    (incRefChild recur r a s c).heap.length = s.heap.length ∧ WF (incRefChild recur r a s c) ∧
      RCI (incRefChild recur r a s c) owe := by
  have h1 : RCI (incRc s c) owe := rci_incRc s c owe hc h
  have hw1 : WF (incRc s c) := wf_modify_rc s c (· + 1) hw
  have hl1 : (incRc s c).heap.length = s.heap.length := length_modify _ _ _
  unfold incRefChild
  simp only []
  split
  · split
    · -- rc = 1, real
      have sc : SameCore (incRc s c) (markDirty (setOwner (incRc s c) c (some a)) r c) :=
        (sameCore_setOwner _ _ _).trans (sameCore_markDirty _ _ _)
      exact ⟨sc.1.trans hl1, sc.wf hw1, sc.rci h1⟩
    · -- rc = 1, unreal: recurse
      have sc : SameCore (incRc s c) ((setOwner (incRc s c) c (some a)).modify c fun o => { o with newReal := true }) :=
        (sameCore_setOwner _ _ _).trans (sameCore_modify _ _ _ (by intro o; rfl))
      obtain ⟨l2, w2, r2⟩ := hrec c _ owe (sc.wf hw1) (sc.rci h1)
      exact ⟨l2.trans (sc.1.trans hl1), w2, r2⟩
  · split
    · have sc1 : SameCore (incRc s c) (markDirty (incRc s c) r c) := sameCore_markDirty _ _ _
      split
      · exact ⟨sc1.1.trans hl1, sc1.wf hw1, sc1.rci h1⟩
      · have sc2 := sc1.trans (sameCore_markNewEscaped (markDirty (incRc s c) r c) r c)
        exact ⟨sc2.1.trans hl1, sc2.wf hw1, sc2.rci h1⟩
    · exact ⟨hl1, (sameCore_fail _).wf hw1, (sameCore_fail _).rci h1⟩

/-- the fold over the children: `owe` holds one increment per remaining child -/
theorem incRef_fold (recur : State → Nat → State) (r a : Nat) (hrec : ∀ c, Keeps fun s => recur s c) :
    ∀ (cs : List Nat) (s : State) (owe : Nat → Int), (∀ c ∈ cs, c < s.heap.length) → WF s →
      RCI s (fun x => owe x + (cs.count x : Int)) →
      (cs.foldl (incRefChild recur r a) s).heap.length = s.heap.length ∧
        WF (cs.foldl (incRefChild recur r a) s) ∧ RCI (cs.foldl (incRefChild recur r a) s) owe := by
  intro cs
  induction cs with
  | nil =>
    intro s owe _ hw h
    refine ⟨rfl, hw, ?_⟩
    intro x hx; have := h x hx; simpa using this
  | cons c cs ih =>
    intro s owe hin hw h
    simp only [List.foldl_cons]
    have hc : c < s.heap.length := hin c List.mem_cons_self
    have hstep := incRefChild_keeps recur r a hrec c s (fun x => owe x + (cs.count x : Int)) hc hw (by
      intro x hx
      have := h x hx
      simp only [List.count_cons] at this
      by_cases hxc : x = c
      · subst hxc; simp only [beq_self_eq_true, if_true] at this ⊢; omega
      · have hcx : ¬ c = x := fun e => hxc e.symm
        simp only [beq_iff_eq, hcx, hxc, if_false] at this ⊢
        omega)
    obtain ⟨l1, w1, r1⟩ := hstep
    obtain ⟨l2, w2, r2⟩ := ih _ owe (fun c' hc' => by rw [l1]; exact hin c' (List.mem_cons_of_mem _ hc')) w1 r1
    exact ⟨l2.trans l1, w2, r2⟩

theorem incRef_keeps : ∀ (fuel r a : Nat), Keeps fun s => incRef fuel s r a := by
  intro fuel
  induction fuel with
  | zero =>
    intro r a s owe hw h
    exact ⟨rfl, (sameCore_fail s).wf hw, (sameCore_fail s).rci h⟩
  | succ fuel ih =>
    intro r a s owe hw h
    show (incRef (fuel + 1) s r a).heap.length = _ ∧ WF (incRef (fuel + 1) s r a) ∧ RCI (incRef (fuel + 1) s r a) owe
    unfold incRef
    split
    · exact ⟨rfl, hw, h⟩
    · rename_i hreal
      have ht : (s.get a).time = 0 := by
        simp only [State.isReal, bne_iff_ne, ne_eq, Decidable.not_not] at hreal
        exact hreal
      by_cases ha : a < s.heap.length
      · have hd := hw.unreal_not_deleted a ht
        have r1 := rci_assignId s a owe ha ht hd h
        have w1 := wf_assignId s a hw
        have sc := sameCore_modMarks (assignId s a) r fun m => { m with created := m.created ++ [a] }
        have hch : ((assignId s a).modMarks r fun m => { m with created := m.created ++ [a] }).children a = s.children a := by
          rw [sc.children, children_assignId]
        simp only []
        rw [hch]
        have hin : ∀ c ∈ s.children a, c < ((assignId s a).modMarks r fun m => { m with created := m.created ++ [a] }).heap.length := by
          intro c hc
          rw [sc.1, length_assignId]
          exact hw.kids_in_range a ha c hc
        obtain ⟨l2, w2, r2⟩ := incRef_fold (fun s c => incRef fuel s r c) r a (fun c => ih r c) (s.children a) _ owe hin
          (sc.wf w1) (sc.rci r1)
        exact ⟨l2.trans (sc.1.trans (length_assignId s a)), w2, r2⟩
      · -- out of range: nothing is there, nothing changes
        have hlen : s.heap.length ≤ a := by omega
        have hnone : s.children a = [] := by
          unfold State.children; rw [get_default_of_ge s a hlen]; rfl
        have hsame : SameCore s ((assignId s a).modMarks r fun m => { m with created := m.created ++ [a] }) := by
          refine ⟨by simp, fun x => ?_⟩
          simp only [get_modMarks, get_assignId]
          have : ¬ (x = a ∧ a < s.heap.length) := fun h => ha h.2
          rw [if_neg this]
        simp only []
        rw [hsame.children, hnone]
        exact ⟨hsame.1, hsame.wf hw, hsame.rci h⟩

/-! ### decRefDeletedDescendants -/

/-- every slot of a counted object points to a real object -/
def Closed (s : State) : Prop :=
  ∀ p, p < s.heap.length → counted (s.get p) = true → ∀ c ∈ s.children p, s.isReal c = true

theorem SameCore.closed {s s' : State} (h : SameCore s s') (hc : Closed s) : Closed s' := by
  intro p hp hcnt c hmem
  rw [h.1] at hp
  rw [h.children p] at hmem
  rw [h.isReal c]
  have hcore := h.2 p
  have : counted (s.get p) = true := by
    have h2 : (s'.get p).time = (s.get p).time := congrArg Core.time hcore
    have h3 : (s'.get p).deleted = (s.get p).deleted := congrArg Core.deleted hcore
    simpa [counted, h2, h3] using hcnt
  exact hc p hp this c hmem

theorem closed_modify_rc (s : State) (c : Nat) (g : Int → Int) (hc : Closed s) :
    Closed (s.modify c fun o => { o with rc := g o.rc }) := by
  have hk : ∀ x, ((s.modify c fun o => { o with rc := g o.rc }).get x).kids = (s.get x).kids ∧
      ((s.modify c fun o => { o with rc := g o.rc }).get x).time = (s.get x).time ∧
      ((s.modify c fun o => { o with rc := g o.rc }).get x).deleted = (s.get x).deleted := by
    intro x
    rw [get_modify]
    split
    · rename_i hx; rw [hx.1]; exact ⟨rfl, rfl, rfl⟩
    · exact ⟨rfl, rfl, rfl⟩
  intro p hp hcnt c' hmem
  rw [length_modify] at hp
  unfold State.children at hmem
  rw [(hk p).1] at hmem
  unfold State.isReal
  rw [(hk c').2.1]
  have : counted (s.get p) = true := by
    simpa [counted, (hk p).2.1, (hk p).2.2] using hcnt
  exact hc p hp this c' hmem

/-- the flag update at the head of decRefDeletedDescendants -/
def delMark (o : Obj) : Obj :=
  { o with newDeleted := false, newReal := false, newEscaped := false, deleted := true }

theorem get_delete (s : State) (a x : Nat) :
    (s.modify a delMark).get x = if x = a ∧ a < s.heap.length then delMark (s.get a) else s.get x :=
  get_modify s a x delMark

theorem children_delete (s : State) (a x : Nat) : (s.modify a delMark).children x = s.children x := by
  unfold State.children
  rw [get_delete]
  split
  · rename_i hx; rw [hx.1]; rfl
  · rfl

theorem isReal_delete (s : State) (a x : Nat) : (s.modify a delMark).isReal x = s.isReal x := by
  unfold State.isReal
  rw [get_delete]
  split
  · rename_i hx; rw [hx.1]; rfl
  · rfl

theorem wf_delete (s : State) (a : Nat) (hreal : s.isReal a = true) (hw : WF s) : WF (s.modify a delMark) := by
  refine ⟨fun x ht => ?_, fun x hx c hc => ?_⟩
  · rw [get_delete] at ht ⊢
    split
    · rename_i h
      rw [if_pos h] at ht
      have : (s.get a).time = 0 := ht
      simp [State.isReal, this] at hreal
    · rename_i h; rw [if_neg h] at ht; exact hw.unreal_not_deleted x ht
  · rw [length_modify] at hx ⊢
    rw [children_delete] at hc
    exact hw.kids_in_range x hx c hc

theorem closed_delete (s : State) (a : Nat) (hc : Closed s) : Closed (s.modify a delMark) := by
  intro p hp hcnt c hmem
  rw [length_modify] at hp
  rw [children_delete] at hmem
  rw [isReal_delete]
  rw [get_delete] at hcnt
  by_cases h : p = a ∧ a < s.heap.length
  · rw [if_pos h] at hcnt
    simp [counted, delMark] at hcnt
  · rw [if_neg h] at hcnt
    exact hc p hp hcnt c hmem

/-- deleting a counted object: every slot of it is now owed one decrement -/
theorem rci_delete (s : State) (a : Nat) (owe : Nat → Int) (ha : a < s.heap.length)
    (hcnt : counted (s.get a) = true) (h : RCI s owe) :
    RCI (s.modify a delMark) fun x => owe x - ((s.children a).count x : Int) := by
  intro x hx
  rw [length_modify] at hx
  have hrefs : refs (s.modify a delMark) x = refs s x - ((s.children a).count x : Int) := by
    unfold refs
    rw [length_modify]
    rw [sumTo_update s.heap.length (fun p => contrib (s.get p) x) (fun p => contrib ((s.modify a delMark).get p) x) a ha
      (fun i _ hne => by simp only [get_delete, hne, false_and, if_false])]
    have h1 : contrib (s.get a) x = ((s.children a).count x : Int) := by
      simp only [contrib, hcnt, if_true]
      exact count_children s a x
    have h2 : contrib ((s.modify a delMark).get a) x = 0 := by
      rw [get_delete]
      simp [ha, contrib, counted, delMark]
    rw [h1, h2]; omega
  have hrc : ((s.modify a delMark).get x).rc = (s.get x).rc ∧ pinned ((s.modify a delMark).get x) = pinned (s.get x) := by
    rw [get_delete]
    split
    · rename_i hxa; rw [hxa.1]; exact ⟨rfl, rfl⟩
    · exact ⟨rfl, rfl⟩
  rw [hrefs, hrc.1, hrc.2]
  have := h x hx
  show (s.get x).rc + (owe x - ((s.children a).count x : Int)) = _
  omega

/-- what the deleting crawl guarantees, for a start object that is real -/
def KeepsD (f : State → State) (a : Nat) : Prop :=
  ∀ s owe, WF s → Closed s → RCI s owe → s.isReal a = true →
    (f s).heap.length = s.heap.length ∧ WF (f s) ∧ Closed (f s) ∧ RCI (f s) owe ∧ (∀ x, (f s).isReal x = s.isReal x)

theorem isReal_modify_rc (s : State) (c : Nat) (g : Int → Int) (x : Nat) :
    (s.modify c fun o => { o with rc := g o.rc }).isReal x = s.isReal x := by
  unfold State.isReal
  rw [get_modify]
  split
  · rename_i hx; rw [hx.1]
  · rfl

theorem decRefChild_keeps (recur : State → Nat → State) (r : Nat)
    (hrec : ∀ c, KeepsD (fun s => recur s c) c) (c : Nat) (s : State) (owe : Nat → Int)
    (hc : c < s.heap.length) (hreal : s.isReal c = true) (hw : WF s) (hcl : Closed s)
    (h : RCI s fun x => owe x - (if x = c then 1 else 0)) :
    (decRefChild recur r s c).heap.length = s.heap.length ∧ WF (decRefChild recur r s c) ∧
      Closed (decRefChild recur r s c) ∧ RCI (decRefChild recur r s c) owe ∧
      (∀ x, (decRefChild recur r s c).isReal x = s.isReal x) := by
  have h1 : RCI (decRc s c) owe := rci_decRc s c owe hc h
  have hw1 : WF (decRc s c) := wf_modify_rc s c (· - 1) hw
  have hc1 : Closed (decRc s c) := closed_modify_rc s c (· - 1) hcl
  have hl1 : (decRc s c).heap.length = s.heap.length := length_modify _ _ _
  have hr1 : ∀ x, (decRc s c).isReal x = s.isReal x := isReal_modify_rc s c (· - 1)
  unfold decRefChild
  simp only []
  split
  · obtain ⟨l2, w2, c2, r2, i2⟩ := hrec c _ owe hw1 hc1 h1 (by rw [hr1]; exact hreal)
    exact ⟨l2.trans hl1, w2, c2, r2, fun x => (i2 x).trans (hr1 x)⟩
  · split
    · have sc : SameCore (decRc s c) (markDirty (decRc s c) r c) := sameCore_markDirty _ _ _
      exact ⟨sc.1.trans hl1, sc.wf hw1, sc.closed hc1, sc.rci h1, fun x => (sc.isReal x).trans (hr1 x)⟩
    · have sc := sameCore_fail (decRc s c)
      exact ⟨hl1, sc.wf hw1, sc.closed hc1, sc.rci h1, fun x => (sc.isReal x).trans (hr1 x)⟩

theorem decRef_fold (recur : State → Nat → State) (r : Nat) (hrec : ∀ c, KeepsD (fun s => recur s c) c) :
    ∀ (cs : List Nat) (s : State) (owe : Nat → Int), (∀ c ∈ cs, c < s.heap.length ∧ s.isReal c = true) →
      WF s → Closed s → RCI s (fun x => owe x - (cs.count x : Int)) →
      (cs.foldl (decRefChild recur r) s).heap.length = s.heap.length ∧
        WF (cs.foldl (decRefChild recur r) s) ∧ Closed (cs.foldl (decRefChild recur r) s) ∧
        RCI (cs.foldl (decRefChild recur r) s) owe ∧
        (∀ x, (cs.foldl (decRefChild recur r) s).isReal x = s.isReal x) := by
  intro cs
  induction cs with
  | nil =>
    intro s owe _ hw hcl h
    refine ⟨rfl, hw, hcl, ?_, fun _ => rfl⟩
    intro x hx; have := h x hx; simpa using this
  | cons c cs ih =>
    intro s owe hin hw hcl h
    simp only [List.foldl_cons]
    have hc := hin c List.mem_cons_self
    have hstep := decRefChild_keeps recur r hrec c s (fun x => owe x - (cs.count x : Int)) hc.1 hc.2 hw hcl (by
      intro x hx
      have := h x hx
      simp only [List.count_cons] at this
      by_cases hxc : x = c
      · subst hxc; simp only [beq_self_eq_true, if_true] at this ⊢; omega
      · have hcx : ¬ c = x := fun e => hxc e.symm
        simp only [beq_iff_eq, hcx, hxc, if_false] at this ⊢
        omega)
    obtain ⟨l1, w1, c1, r1, i1⟩ := hstep
    obtain ⟨l2, w2, c2, r2, i2⟩ := ih _ owe (fun c' hc' => by
      have := hin c' (List.mem_cons_of_mem _ hc')
      rw [l1, i1]; exact this) w1 c1 r1
    exact ⟨l2.trans l1, w2, c2, r2, fun x => (i2 x).trans (i1 x)⟩

theorem decRef_succ (fuel : Nat) (s : State) (r a : Nat) :
    decRef (fuel + 1) s r a =
      if (s.get a).deleted then s
      else
        (((s.modify a delMark).modMarks r fun m => { m with deleted := m.deleted ++ [a] }).children a).foldl
          (decRefChild (fun s c => decRef fuel s r c) r)
          ((s.modify a delMark).modMarks r fun m => { m with deleted := m.deleted ++ [a] }) := rfl

theorem decRef_keeps : ∀ (fuel r a : Nat), KeepsD (fun s => decRef fuel s r a) a := by
  intro fuel
  induction fuel with
  | zero =>
    intro r a s owe hw hcl h _
    have sc := sameCore_fail s
    exact ⟨rfl, sc.wf hw, sc.closed hcl, sc.rci h, fun x => sc.isReal x⟩
  | succ fuel ih =>
    intro r a s owe hw hcl h hreal
    show (decRef (fuel + 1) s r a).heap.length = _ ∧ WF (decRef (fuel + 1) s r a) ∧ Closed (decRef (fuel + 1) s r a) ∧
      RCI (decRef (fuel + 1) s r a) owe ∧ ∀ x, (decRef (fuel + 1) s r a).isReal x = s.isReal x
    rw [decRef_succ]
    split
    · exact ⟨rfl, hw, hcl, h, fun _ => rfl⟩
    · rename_i hdel
      have hdel' : (s.get a).deleted = false := by simpa using hdel
      have ha : a < s.heap.length := by
        apply Classical.byContradiction
        intro hn
        have : s.get a = default := get_default_of_ge s a (by omega)
        simp [State.isReal, this] at hreal
        exact absurd hreal (by decide)
      have hcnt : counted (s.get a) = true := by
        simp only [State.isReal] at hreal
        simp [counted, hreal, hdel']
      have r1 := rci_delete s a owe ha hcnt h
      have w1 := wf_delete s a hreal hw
      have c1 := closed_delete s a hcl
      have sc := sameCore_modMarks (s.modify a delMark) r fun m => { m with deleted := m.deleted ++ [a] }
      have hch : ((s.modify a delMark).modMarks r fun m => { m with deleted := m.deleted ++ [a] }).children a = s.children a := by
        rw [sc.children, children_delete]
      rw [hch]
      have hin : ∀ c ∈ s.children a,
          c < ((s.modify a delMark).modMarks r fun m => { m with deleted := m.deleted ++ [a] }).heap.length ∧
          ((s.modify a delMark).modMarks r fun m => { m with deleted := m.deleted ++ [a] }).isReal c = true := by
        intro c hc
        refine ⟨?_, ?_⟩
        · rw [sc.1, length_modify]; exact hw.kids_in_range a ha c hc
        · rw [sc.isReal, isReal_delete]; exact hcl a ha hcnt c hc
      obtain ⟨l2, w2, c2, r2, i2⟩ := decRef_fold (fun s c => decRef fuel s r c) r (fun c => ih r c) (s.children a) _ owe hin
        (sc.wf w1) (sc.closed c1) (sc.rci r1)
      exact ⟨l2.trans (sc.1.trans (length_modify _ _ _)), w2, c2, r2,
        fun x => (i2 x).trans ((sc.isReal x).trans (isReal_delete s a x))⟩

end GnoVerif.C06
