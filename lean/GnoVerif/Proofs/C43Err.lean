import GnoVerif.Proofs.C43Main
/-! C43 helper lemmas: on ANY event stream the receiver's deliveries are the reference reassembly of
    the packets it accepted; a closed receiver never changes. -/
namespace GnoVerif.C43

/-- receiver state agrees with the reference reassembly of its own log. -/
structure RInv (r : Recv) : Prop where
  deliv : r.delivered = (specAssemble r.log).2
  pend : ∀ rc ∈ r.chans, rc.recving = (specAssemble r.log).1 rc.id

theorem specAssemble_snoc (log : List Packet) (p : Packet) :
    specAssemble (log ++ [p]) = specStep (specAssemble log) p := by
  simp [specAssemble, List.foldl_append]

theorem RInv.phase {r : Recv} (h : RInv r) (ph : Phase) : RInv { r with phase := ph } := ⟨h.deliv, h.pend⟩

theorem RInv.close {r : Recv} (h : RInv r) (e : Err) : RInv (r.close e) := ⟨h.deliv, h.pend⟩

theorem RInv.onPacket {r : Recv} (h : RInv r) (p : Packet) : RInv (r.onPacket p) := by
  cases p with
  | ping => exact ⟨by simp [Recv.onPacket, specAssemble_snoc, specStep, h.deliv],
      by intro rc hrc; simp [Recv.onPacket, specAssemble_snoc, specStep, h.pend rc hrc]⟩
  | pong => exact ⟨by simp [Recv.onPacket, specAssemble_snoc, specStep, h.deliv],
      by intro rc hrc; simp [Recv.onPacket, specAssemble_snoc, specStep, h.pend rc hrc]⟩
  | msg ch eof bs =>
    simp only [Recv.onPacket]
    split
    · exact h.close _
    · rename_i c hf
      have hc : c ∈ r.chans := List.mem_of_find?_eq_some hf
      have hid : c.id = ch := by simpa using List.find?_some hf
      have hrecv : c.recving = (specAssemble r.log).1 ch := by rw [h.pend c hc, hid]
      by_cases hcap : c.cap < c.recving.length + bs.length
      · rw [if_pos hcap]; exact h.close _
      · rw [if_neg hcap]
        by_cases he : eof = 1
        · rw [if_pos he]
          refine ⟨?_, ?_⟩
          · simp [specAssemble_snoc, specStep, he, h.deliv, hrecv]
          · intro rc hrc
            obtain ⟨x, hx, rfl⟩ := List.mem_map.mp hrc
            by_cases hxi : x.id = ch
            · simp [specAssemble_snoc, specStep, he, hxi]
            · simp [specAssemble_snoc, specStep, he, hxi, h.pend x hx]
        · rw [if_neg he]
          refine ⟨?_, ?_⟩
          · simp [specAssemble_snoc, specStep, he, h.deliv]
          · intro rc hrc
            obtain ⟨x, hx, rfl⟩ := List.mem_map.mp hrc
            by_cases hxi : x.id = ch
            · simp [specAssemble_snoc, specStep, he, hxi, hrecv]
            · simp [specAssemble_snoc, specStep, he, hxi, h.pend x hx]

theorem RInv.onBody {r : Recv} (h : RInv r) (body : Bytes) : RInv (r.onBody body) := by
  unfold Recv.onBody
  split
  · exact h.close _
  · exact h.close _
  · exact (h.phase _).onPacket _

theorem RInv.onLen {r : Recv} (h : RInv r) (acc : Bytes) : RInv (r.onLen acc) := by
  unfold Recv.onLen
  simp only []
  split
  · exact h.close _
  · split
    · exact h.close _
    · split
      · exact (h.phase _).onBody _
      · exact h.phase _

theorem RInv.onByte {r : Recv} (h : RInv r) (b : UInt8) : RInv (r.onByte b) := by
  unfold Recv.onByte
  split
  · exact h
  · split
    · simp only []
      split
      · exact h.onLen _
      · exact h.phase _
    · split
      · exact (h.phase _).onBody _
      · exact h.phase _

theorem RInv.onEv {r : Recv} (h : RInv r) (e : Ev) : RInv (r.onEv e) := by
  unfold Recv.onEv
  split
  · exact h
  · cases e with
    | byte b => exact h.onByte b
    | zero =>
      simp only []
      split
      · exact h.onByte 0
      · exact h
    | eof =>
      simp only []
      split
      · exact h.close _
      · exact h.close _
      · exact h.close _

theorem RInv.run {r : Recv} (h : RInv r) (es : List Ev) : RInv (r.run es) := by
  induction es generalizing r with
  | nil => exact h
  | cons e es ih => exact ih (h.onEv e)

theorem RInv.init (P : Nat) (rd : List RDesc) : RInv (mkRecv P rd) := by
  refine ⟨rfl, ?_⟩
  intro rc hrc
  obtain ⟨d, _, rfl⟩ := List.mem_map.mp hrc
  rfl

/-- a closed receiver ignores everything. -/
theorem Recv.run_closed (r : Recv) (e : Err) (h : r.err = some e) (es : List Ev) : r.run es = r := by
  induction es with
  | nil => rfl
  | cons x xs ih =>
    simp only [Recv.run, List.foldl_cons] at *
    have : r.onEv x = r := by simp [Recv.onEv, h]
    rw [this]; exact ih

end GnoVerif.C43
