import GnoVerif.Proofs.C20ListFacts
/-! Omitted structs are zero values (property C20, proved fragment). -/
namespace GnoVerif.C20

/-- the bytes `encFields` emits for one non-list field. -/
def fieldEnc (env : Env) (f : FieldD) (v : Val) : EncM Bytes :=
  if !f.writeEmpty && isDefault env f.td v then pure []
  else do
    let value ← enc env f.td v 0 false false
    pure (fieldBytes f.num (typ3 env f.td) value (f.writeEmpty || (f.ptr && !(v matches .nil))))

theorem encFields_cons (env : Env) (f : FieldD) (fs : List FieldD) (v : Val) (vs : List Val)
    (h : isUnpackedList env f.td = false) :
    encFields env (f :: fs) (v :: vs) = (do
      let one ← fieldEnc env f v
      let more ← encFields env fs vs
      pure (one ++ more)) := by
  cases v <;>
  · simp only [encFields, fieldEnc, h, Bool.false_eq_true, if_false]
    split
    · rfl
    · generalize enc env f.td _ 0 false false = r
      cases r <;> rfl

/-- the slot of a zero struct (the lambda inside `zeroVal`). -/
def zeroSlot (env : Env) (k : Nat) (f : FieldD) : Val :=
  if f.ptr then
    (if f.td == .time then .t 0 0
     else if isStructKind env f.td then Val.nil
     else zeroVal env k f.td)
  else zeroVal env k f.td

theorem zeroVal_ref (env : Env) (k : Nat) (name n : Bytes) (ifs : List Bytes) (fs : List FieldD) (rs : List Nat)
    (h : env.find? name = some ⟨n, ifs, .struct fs rs⟩) :
    zeroVal env (k + 1) (.ref name) = .struct (fs.map (zeroSlot env k)) := by
  simp only [zeroVal, h]
  rfl

theorem encKey_ne_nil (num : Nat) (t : Typ3) : encKey num t ≠ [] := encUvarint_ne_nil _

theorem writeMaybeBare_eq_zero {buf : Bytes} (h : writeMaybeBare buf false = [0]) (hl : buf.length < 2 ^ 64) :
    buf = [] := by
  unfold writeMaybeBare at h
  cases buf with
  | nil => rfl
  | cons b t =>
    simp only [List.isEmpty_cons, Bool.false_eq_true, if_false, encBytes] at h
    have := congrArg List.length h
    simp at this
    have := encUvarint_length_pos (t.length + 1)
    omega

/-- wf inversion for struct values. -/
theorem wf_struct_inv {env : Env} {d : Nat} {td : TD} {vs : List Val} (h : wf env d td (.struct vs) = true) :
    ∃ name n ifs fs rs d', td = .ref name ∧ env.find? name = some ⟨n, ifs, .struct fs rs⟩ ∧ d = d' + 1 ∧
      wfFields env d' fs vs = true := by
  unfold wf at h
  cases td <;> simp only [Bool.false_eq_true] at h
  rename_i name
  split at h
  · rename_i n ifs fs rs hf
    cases d with
    | zero => simp at h
    | succ d' => exact ⟨name, n, ifs, fs, rs, d', rfl, hf, rfl, h⟩
  · simp at h

theorem enc_struct (env : Env) (name n : Bytes) (ifs : List Bytes) (fs : List FieldD) (rs : List Nat) (vs : List Val)
    (fnum : Nat) (bare bo : Bool) (h : env.find? name = some ⟨n, ifs, .struct fs rs⟩) :
    enc env (.ref name) (.struct vs) fnum bare bo = (do
      let buf ← encFields env fs vs
      pure (writeMaybeBare buf bare)) := by
  simp only [enc, h]

end GnoVerif.C20

namespace GnoVerif.C20

def isPrimVal : Val → Bool
  | .u _ | .i _ | .b _ | .x _ => true
  | _ => false

theorem wf_primVal {env : Env} {d : Nat} {td : TD} {v : Val} (hv : isPrimVal v = true) :
    wf env d td v = primOK td v := by
  cases v <;> simp [isPrimVal] at hv <;> simp [wf]

theorem enc_primVal {env : Env} {td : TD} {v : Val} (hv : isPrimVal v = true) (fnum : Nat) (bare bo : Bool) :
    enc env td v fnum bare bo = (encPrim td v bo).getD (.error .badValue) := by
  cases v <;> simp [isPrimVal] at hv <;> simp [enc]

theorem primOK_isPrimTD {td : TD} {v : Val} (h : primOK td v = true) : isPrimTD td = true := by
  cases td <;> cases v <;> simp [primOK] at h <;> rfl

theorem primOK_isPrimVal {td : TD} {v : Val} (h : primOK td v = true) : isPrimVal v = true := by
  cases td <;> cases v <;> simp [primOK] at h <;> rfl

/-- wf inversion for list values. -/
theorem wf_list_inv {env : Env} {d : Nat} {td : TD} {vs : List Val} (h : wf env d td (.list vs) = true) :
    ∃ ptr e, td = .list ptr false e ∧ listElemOK env ptr e = true ∧ wfElems env d e vs = true := by
  unfold wf at h
  cases td <;> simp only [Bool.false_eq_true] at h
  rename_i ptr ne e
  simp only [Bool.and_eq_true, Bool.not_eq_true'] at h
  obtain ⟨⟨hne, hok⟩, hel⟩ := h
  subst hne
  exact ⟨ptr, e, rfl, hok, hel⟩

/-- wf inversion for a nil interface. -/
theorem wf_nil_inv {env : Env} {d : Nat} {td : TD} (h : wf env d td .nil = true) : ∃ id, td = .iface id := by
  unfold wf at h
  cases td <;> simp only [Bool.false_eq_true] at h
  rename_i id
  exact ⟨id, rfl⟩

theorem wf_nil_depth {env : Env} {d : Nat} {td : TD} (h : wf env d td .nil = true) : 0 < d := by
  unfold wf at h
  cases td <;> simp only [Bool.false_eq_true] at h
  simp only [bne_iff_ne, ne_eq] at h
  omega

/-- wf inversion for a non-nil interface value. -/
theorem wf_any_inv {env : Env} {d : Nat} {td : TD} {name : Bytes} {cv : Val}
    (h : wf env d td (.any name cv) = true) :
    ∃ id n ifs fs rs, td = .iface id ∧ env.find? name = some ⟨n, ifs, .struct fs rs⟩ ∧
      ifs.contains id = true ∧ nameOK name = true ∧ wf env d (.ref name) cv = true := by
  unfold wf at h
  cases td <;> simp only [Bool.false_eq_true] at h
  rename_i id
  split at h
  · rename_i n ifs fs rs hf
    simp only [Bool.and_eq_true] at h
    exact ⟨id, n, ifs, fs, rs, rfl, hf, h.1.1, h.1.2, h.2⟩
  · simp at h

/-- a wf value is a primitive (of a primitive descriptor), a struct, a list, a nil
interface or a non-nil interface value. -/
theorem wf_cases {env : Env} {d : Nat} {td : TD} {v : Val} (h : wf env d td v = true) :
    (isPrimVal v = true ∧ primOK td v = true) ∨ (∃ vs, v = .struct vs) ∨ (∃ vs, v = .list vs) ∨
      (v = .nil ∧ ∃ id, td = .iface id) ∨ (∃ name cv id, v = .any name cv ∧ td = .iface id) := by
  cases v
  case u n => simp only [wf] at h; exact Or.inl ⟨rfl, h⟩
  case i z => simp only [wf] at h; exact Or.inl ⟨rfl, h⟩
  case b x => simp only [wf] at h; exact Or.inl ⟨rfl, h⟩
  case x bs => simp only [wf] at h; exact Or.inl ⟨rfl, h⟩
  case struct vs => exact Or.inr (Or.inl ⟨vs, rfl⟩)
  case list vs => exact Or.inr (Or.inr (Or.inl ⟨vs, rfl⟩))
  case nil => exact Or.inr (Or.inr (Or.inr (Or.inl ⟨rfl, wf_nil_inv h⟩)))
  case any name cv =>
    obtain ⟨id, _, _, _, _, htd, _⟩ := wf_any_inv h
    exact Or.inr (Or.inr (Or.inr (Or.inr ⟨name, cv, id, rfl, htd⟩)))
  all_goals (simp [wf] at h)

theorem wfElems_cons {env : Env} {d : Nat} {e : TD} {v : Val} {vs : List Val} :
    wfElems env d e (v :: vs) = true ↔ wf env d e v = true ∧ wfElems env d e vs = true := by
  simp [wfElems]

theorem wfFields_cons_inv {env : Env} {d : Nat} {f : FieldD} {fs : List FieldD} {v : Val} {vs : List Val}
    (h : wfFields env d (f :: fs) (v :: vs) = true) :
    f.writeEmpty = false ∧
    (f.ptr = true → isRefTD f.td = true ∧ isStructKind env f.td = true ∧ (v = .nil ∨ wf env d f.td v = true)) ∧
    (f.ptr = false → wf env d f.td v = true) ∧
    wfFields env d fs vs = true := by
  simp only [wfFields, Bool.and_eq_true, Bool.not_eq_true'] at h
  obtain ⟨⟨hwe, hf⟩, hrest⟩ := h
  refine ⟨hwe, ?_, ?_, hrest⟩
  · intro hp
    simp only [hp, if_true, Bool.and_eq_true] at hf
    refine ⟨hf.1.1, hf.1.2, ?_⟩
    cases v <;> simp_all
  · intro hp
    simp only [hp, Bool.false_eq_true, if_false, Bool.and_eq_true, Bool.or_eq_true] at hf
    exact hf.2

/-- a pointer field of the fragment is never an unpacked list. -/
theorem ptr_field_not_list {env : Env} {f : FieldD} (hr : isRefTD f.td = true) (hs : isStructKind env f.td = true) :
    isUnpackedList env f.td = false := by
  cases htd : f.td <;> simp [htd, isRefTD] at hr
  rename_i name
  rw [htd] at hs
  simp only [isStructKind, Option.isNone_iff_eq_none] at hs
  exact isUnpackedList_ref hs

theorem fieldBytes_eq_nil {num : Nat} {t : Typ3} {value : Bytes} {we : Bool}
    (h : fieldBytes num t value we = []) : we = false ∧ value = [0] := by
  unfold fieldBytes at h
  split at h
  · rename_i hc
    simp only [Bool.and_eq_true, Bool.not_eq_true', beq_iff_eq] at hc
    exact hc
  · simp at h
    exact absurd h.1 (encKey_ne_nil _ _)

/-! ### list encodings -/

theorem enc_list (env : Env) (ptr ne : Bool) (e : TD) (vs : List Val) (fnum : Nat) (bare bo : Bool) :
    enc env (.list ptr ne e) (.list vs) fnum bare bo =
      (if (typ3 env e != .blen || isByteElem env e) = true then (do
          let buf ← encPacked env e vs (isByteElem env e)
          pure (writeMaybeBare buf bare))
       else (do
          let buf ← encUnpacked env e ptr ne (writeImplicit env e) fnum vs
          pure (writeMaybeBare buf bare))) := by
  simp only [enc]

theorem encUnpacked_nil (env : Env) (e : TD) (ptr ne impl : Bool) (fnum : Nat) :
    encUnpacked env e ptr ne impl fnum [] = .ok [] := by
  simp [encUnpacked, pure, Except.pure]

theorem encPacked_nil (env : Env) (e : TD) (bo : Bool) : encPacked env e [] bo = .ok [] := by
  simp [encPacked, pure, Except.pure]

/-- the bytes of one element of an unpacked list (after its key). -/
def elemEnc (env : Env) (e : TD) (ptr ne impl : Bool) (v : Val) : EncM Bytes :=
  if isDefault env e v then
    (if isStructKind env e && ptr && !ne then .error .nilElem else pure [0])
  else if impl then do
    let inner ← enc env e v 0 false false
    pure (encBytes (encKey 1 .blen ++ inner))
  else enc env e v 1 false false

theorem encUnpacked_cons (env : Env) (e : TD) (ptr ne impl : Bool) (fnum : Nat) (v : Val) (vs : List Val) :
    encUnpacked env e ptr ne impl fnum (v :: vs) = (do
      let one ← elemEnc env e ptr ne impl v
      let more ← encUnpacked env e ptr ne impl fnum vs
      pure (encKey fnum .blen ++ one ++ more)) := by
  simp only [encUnpacked, elemEnc]
  split
  · split <;> rfl
  · split
    · generalize enc env e v 0 false false = r
      cases r <;> rfl
    · rfl

theorem encUnpacked_ne_nil {env : Env} {e : TD} {ptr ne impl : Bool} {fnum : Nat} {v : Val} {vs : List Val} {bs : Bytes}
    (h : encUnpacked env e ptr ne impl fnum (v :: vs) = .ok bs) :
    ∃ rest, bs = encKey fnum .blen ++ rest := by
  rw [encUnpacked_cons] at h
  cases h1 : elemEnc env e ptr ne impl v with
  | error x => rw [h1] at h; cases h
  | ok one =>
    cases h2 : encUnpacked env e ptr ne impl fnum vs with
    | error x => rw [h1, h2] at h; cases h
    | ok more =>
      rw [h1, h2] at h
      simp only [bind, Except.bind, pure, Except.pure, Except.ok.injEq] at h
      exact ⟨one ++ more, by rw [← h, List.append_assoc]⟩

/-- a packed element of the fragment: its encoding is its primitive encoding. -/
theorem encPacked_cons_prim (env : Env) (e : TD) (v : Val) (vs : List Val) (hv : isPrimVal v = true) :
    encPacked env e (v :: vs) false = (do
      let one ← (encPrim e v false).getD (.error .badValue)
      let more ← encPacked env e vs false
      pure (one ++ more)) := by
  cases v <;> simp [isPrimVal] at hv <;> simp only [encPacked, enc] <;> rfl

end GnoVerif.C20

namespace GnoVerif.C20

/-- what an unpacked-list field contributes to `encFields`. -/
def listFieldEnc (env : Env) (f : FieldD) (v : Val) : EncM Bytes :=
  if !f.writeEmpty && isDefault env f.td v then pure []
  else match v with
    | .list es =>
      match f.td with
      | .list ptr ne e => encUnpacked env e ptr ne (writeImplicit env e) f.num es
      | _ => .error .unsupported
    | _ => .error .badValue

theorem encFields_cons_list (env : Env) (f : FieldD) (fs : List FieldD) (v : Val) (vs : List Val)
    (h : isUnpackedList env f.td = true) :
    encFields env (f :: fs) (v :: vs) = (do
      let one ← listFieldEnc env f v
      let more ← encFields env fs vs
      pure (one ++ more)) := by
  cases v <;>
  · simp only [encFields, listFieldEnc, h, if_true]
    split
    · rfl
    · first
      | rfl
      | (cases f.td <;> rfl)

/-- a wf field that is an unpacked list: its shape. -/
theorem wf_list_field {env : Env} {d : Nat} {f : FieldD} {fs : List FieldD} {v : Val} {vs : List Val}
    (hw : wfFields env d (f :: fs) (v :: vs) = true) (hK : isUnpackedList env f.td = true) :
    f.ptr = false ∧ ∃ ptr e es, f.td = .list ptr false e ∧ v = .list es ∧ listElemOK env ptr e = true ∧
      wfElems env d e es = true ∧ typ3 env e = .blen := by
  obtain ⟨_, hp, hnp, _⟩ := wfFields_cons_inv hw
  cases hptr : f.ptr
  · refine ⟨rfl, ?_⟩
    have hwv := hnp hptr
    rcases wf_cases hwv with ⟨_, hprim⟩ | ⟨vs', rfl⟩ | ⟨es, rfl⟩ | ⟨_, id, htd⟩ | ⟨_, _, id, _, htd⟩
    · rw [isUnpackedList_prim (primOK_isPrimTD hprim)] at hK; cases hK
    · obtain ⟨name, n, ifs, fs', rs, d', htd, hfind, _, _⟩ := wf_struct_inv hwv
      rw [htd, isUnpackedList_ref (aliasOf_struct hfind)] at hK; cases hK
    · obtain ⟨ptr, e, htd, hok, hel⟩ := wf_list_inv hwv
      rw [htd, isUnpackedList_list] at hK
      exact ⟨ptr, e, es, htd, rfl, hok, hel, by simpa using hK⟩
    · rw [htd, (ifaceElem_facts env id).2.2.2.2] at hK; cases hK
    · rw [htd, (ifaceElem_facts env id).2.2.2.2] at hK; cases hK
  · obtain ⟨hr, hs, _⟩ := hp hptr
    rw [ptr_field_not_list hr hs] at hK; cases hK

/-- elements of a packed list are primitives. -/
theorem wfElems_prim {env : Env} {d : Nat} {e : TD} (he : isPrimTD e = true) :
    ∀ {vs : List Val}, wfElems env d e vs = true → ∀ v ∈ vs, isPrimVal v = true ∧ primOK e v = true
  | [], _, v, hv => by simp at hv
  | w :: ws, h, v, hv => by
    rw [wfElems_cons] at h
    simp only [List.mem_cons] at hv
    rcases hv with rfl | hv
    · rcases wf_cases h.1 with hp | ⟨vs', rfl⟩ | ⟨vs', rfl⟩ | ⟨_, id, htd⟩ | ⟨_, _, id, _, htd⟩
      · exact hp
      · obtain ⟨name, _, _, _, _, _, htd, _⟩ := wf_struct_inv h.1
        rw [htd] at he; cases he
      · obtain ⟨ptr, e', htd, _⟩ := wf_list_inv h.1
        rw [htd] at he; cases he
      · rw [htd] at he; cases he
      · rw [htd] at he; cases he
    · exact wfElems_prim he h.2 v hv

theorem encPacked_eq_nil {env : Env} {d : Nat} {e : TD} (he : isPrimTD e = true) {vs : List Val}
    (hw : wfElems env d e vs = true) (h : encPacked env e vs false = .ok []) : vs = [] := by
  cases vs with
  | nil => rfl
  | cons v vs =>
    exfalso
    obtain ⟨hpv, hprim⟩ := wfElems_prim he hw v (by simp)
    rw [encPacked_cons_prim env e v vs hpv] at h
    obtain ⟨bs', hbs', hne, _⟩ := prim_roundtrip e v hprim
    rw [hbs'] at h
    cases h2 : encPacked env e vs false with
    | error x => rw [h2] at h; simp [bind, Except.bind] at h
    | ok more =>
      rw [h2] at h
      simp only [Option.getD_some, bind, Except.bind, pure, Except.pure, Except.ok.injEq,
        List.append_eq_nil_iff] at h
      exact hne h.1

/-- a list whose (non-bare) encoding is the single byte 0x00 is empty. -/
theorem list_enc_zero {env : Env} {d : Nat} {ptr : Bool} {e : TD} {vs : List Val} {fnum : Nat} {bs : Bytes}
    (hok : listElemOK env ptr e = true) (hel : wfElems env d e vs = true)
    (he : enc env (.list ptr false e) (.list vs) fnum false false = .ok bs) (hb : bs = [0])
    (hlen : bs.length < 2 ^ 64) : vs = [] := by
  rw [enc_list] at he
  split at he
  · rename_i hpk
    cases h1 : encPacked env e vs (isByteElem env e) with
    | error x => rw [h1] at he; cases he
    | ok buf =>
      rw [h1] at he
      simp only [bind, Except.bind, pure, Except.pure, Except.ok.injEq] at he
      rw [← he] at hb hlen
      have hbl : buf.length < 2 ^ 64 := by
        unfold writeMaybeBare at hlen
        split at hlen
        · rename_i hemp; simp at hemp; simp [hemp]
        · simp only [Bool.false_eq_true, if_false, encBytes, List.length_append] at hlen; omega
      have hnil := writeMaybeBare_eq_zero hb hbl
      subst hnil
      -- packed: the element descriptor is a packed primitive
      unfold listElemOK at hok
      simp only [Bool.or_eq_true, Bool.and_eq_true, Bool.not_eq_true'] at hok
      rcases hok with ⟨(hpe | hble) | hif, _⟩ | ⟨hr, hs⟩
      · obtain ⟨hprim, _, hbe⟩ := packedElem_facts (env := env) hpe
        rw [hbe] at h1
        exact encPacked_eq_nil hprim hel h1
      · obtain ⟨_, ht3, hbe, _⟩ := blElem_facts (env := env) hble
        simp [ht3, hbe] at hpk
      · cases hte : e <;> simp [hte, isIfaceTD] at hif
        rename_i id
        rw [hte] at hpk
        simp [(ifaceElem_facts env id).1, (ifaceElem_facts env id).2.1] at hpk
      · cases hte : e <;> simp [hte, isRefTD] at hr
        rename_i name
        rw [hte] at hs
        simp only [isStructKind, Option.isNone_iff_eq_none] at hs
        obtain ⟨ht3, hbe, _⟩ := refElem_facts hs
        rw [hte] at hpk
        simp [ht3, hbe] at hpk
  · cases vs with
    | nil => rfl
    | cons v vs =>
      exfalso
      cases h1 : encUnpacked env e ptr false (writeImplicit env e) fnum (v :: vs) with
      | error x => rw [h1] at he; cases he
      | ok buf =>
        rw [h1] at he
        simp only [bind, Except.bind, pure, Except.pure, Except.ok.injEq] at he
        obtain ⟨rest, hr⟩ := encUnpacked_ne_nil h1
        rw [← he] at hb hlen
        have hbl : buf.length < 2 ^ 64 := by
          unfold writeMaybeBare at hlen
          split at hlen
          · rename_i hemp; simp at hemp; simp [hemp]
          · simp only [Bool.false_eq_true, if_false, encBytes, List.length_append] at hlen; omega
        have hnil := writeMaybeBare_eq_zero hb hbl
        rw [hnil] at hr
        have := encKey_ne_nil fnum .blen
        cases hk : encKey fnum .blen with
        | nil => exact this hk
        | cons _ _ => rw [hk] at hr; simp at hr

end GnoVerif.C20

namespace GnoVerif.C20

theorem isStructOrUnpacked_ref' {env : Env} {name : Bytes} (h : aliasOf env name = none) :
    isStructOrUnpacked env (.ref name) = true := by
  simp [isStructOrUnpacked, repr_ref h]

/-- the Any envelope: type URL, then (unless empty) the value. -/
def anyEnvelope (name buf2 : Bytes) : Bytes :=
  encKey 1 .blen ++ encBytes (47 :: name) ++
    (if buf2.isEmpty || buf2 == [0] then [] else encKey 2 .blen ++ encBytes buf2)

theorem enc_any (env : Env) (id name n : Bytes) (ifs : List Bytes) (fs : List FieldD) (rs : List Nat) (cv : Val)
    (fnum : Nat) (bare bo : Bool) (hfind : env.find? name = some ⟨n, ifs, .struct fs rs⟩) :
    enc env (.iface id) (.any name cv) fnum bare bo = (do
      let buf2 ← enc env (.ref name) cv 1 true false
      pure (writeMaybeBare (anyEnvelope name buf2) bare)) := by
  simp only [enc, hfind, ctdOf, isStructOrUnpacked_ref' (aliasOf_struct hfind), Bool.not_true,
    Bool.false_eq_true, if_false, anyEnvelope]

theorem anyEnvelope_ne_nil (name buf2 : Bytes) : anyEnvelope name buf2 ≠ [] := by
  unfold anyEnvelope
  have := encKey_ne_nil 1 .blen
  cases hk : encKey 1 .blen with
  | nil => exact absurd hk this
  | cons _ _ => simp

/-- head-field argument shared by `zero_fields` and `omitted_field_zero`: given the
value-level zero lemma for the field's value, an omitted non-list-path field holds
the zero slot. -/
theorem omitted_field_core (env : Env) (d : Nat) (f : FieldD) (fs : List FieldD) (v : Val) (vs : List Val)
    (hw : wfFields env d (f :: fs) (v :: vs) = true) (hone : fieldEnc env f v = .ok [])
    (k : Nat) (hk : d ≤ k)
    (hzv : ∀ value, wf env d f.td v = true → enc env f.td v 0 false false = .ok value → value = [0] →
      v = zeroVal env k f.td) :
    v = zeroSlot env k f := by
  obtain ⟨hwe, hp, hnp, hrest⟩ := wfFields_cons_inv hw
  unfold fieldEnc at hone
  cases hptr : f.ptr
  · have hwv := hnp hptr
    simp only [zeroSlot, hptr, Bool.false_eq_true, if_false]
    split at hone
    · rename_i hdef
      simp only [hwe, Bool.not_false, Bool.true_and] at hdef
      rcases wf_cases hwv with ⟨hpv, hprim⟩ | ⟨vs', rfl⟩ | ⟨es, rfl⟩ | ⟨rfl, id, htd⟩ | ⟨_, _, id, rfl, htd⟩
      · obtain ⟨bs', hbs', _, _⟩ := prim_roundtrip f.td v hprim
        exact prim_omitted_zero env f.td v hprim bs' hbs' (Or.inl hdef) k
      · simp [isDefault, isDefaultVal] at hdef
      · obtain ⟨ptr, e, htd, _, _⟩ := wf_list_inv hwv
        simp only [isDefault, isDefaultVal, List.isEmpty_iff] at hdef
        subst hdef
        rw [htd]
        cases k <;> rfl
      · rw [htd]
        cases k <;> rfl
      · simp [isDefault, isDefaultVal] at hdef
    · cases henc : enc env f.td v 0 false false with
      | error e => rw [henc] at hone; cases hone
      | ok value =>
        rw [henc] at hone
        simp only [bind, Except.bind, pure, Except.pure, Except.ok.injEq] at hone
        obtain ⟨_, hv0⟩ := fieldBytes_eq_nil hone
        exact hzv value hwv henc hv0
  · obtain ⟨hr, hs, hv⟩ := hp hptr
    have htime : (f.td == TD.time) = false := by
      cases htd : f.td <;> simp [htd, isRefTD] at hr ⊢
    simp only [zeroSlot, hptr, if_true, htime, Bool.false_eq_true, if_false, hs]
    rcases hv with rfl | hwv
    · rfl
    · exfalso
      have hnotprim : ¬ (isPrimVal v = true ∧ primOK f.td v = true) := by
        intro ⟨_, hprim⟩
        have := primOK_isPrimTD hprim
        cases htd : f.td <;> simp [htd, isRefTD, isPrimTD] at hr this
      have hnotlist : ¬ ((∃ es, v = .list es) ∨ (v = .nil ∧ ∃ id, f.td = .iface id) ∨
          (∃ name cv id, v = .any name cv ∧ f.td = .iface id)) := by
        rintro (⟨es, hes⟩ | ⟨_, id, htd⟩ | ⟨_, _, id, _, htd⟩)
        · subst hes
          obtain ⟨ptr, e, htd, _⟩ := wf_list_inv hwv
          rw [htd] at hr; cases hr
        · rw [htd] at hr; cases hr
        · rw [htd] at hr; cases hr
      split at hone
      · rename_i hdef
        simp only [hwe, Bool.not_false, Bool.true_and] at hdef
        rcases wf_cases hwv with hp' | ⟨vs', rfl⟩ | hl
        · exact hnotprim hp'
        · simp [isDefault, isDefaultVal] at hdef
        · exact hnotlist hl
      · cases henc : enc env f.td v 0 false false with
        | error e => rw [henc] at hone; cases hone
        | ok value =>
          rw [henc] at hone
          simp only [bind, Except.bind, pure, Except.pure, Except.ok.injEq] at hone
          obtain ⟨hwe', _⟩ := fieldBytes_eq_nil hone
          rcases wf_cases hwv with hp' | ⟨vs', rfl⟩ | hl
          · exact hnotprim hp'
          · simp [hptr] at hwe'
          · exact hnotlist hl

/-- an omitted unpacked-list field is the empty list. -/
theorem omitted_list_field (env : Env) (d : Nat) (f : FieldD) (fs : List FieldD) (v : Val) (vs : List Val)
    (hw : wfFields env d (f :: fs) (v :: vs) = true) (hK : isUnpackedList env f.td = true)
    (hone : listFieldEnc env f v = .ok []) : v = .list [] := by
  obtain ⟨hptr, ptr, e, es, htd, rfl, hok, hel, ht3⟩ := wf_list_field hw hK
  unfold listFieldEnc at hone
  split at hone
  · rename_i hdef
    simp only [Bool.and_eq_true] at hdef
    have := hdef.2
    simp only [isDefault, isDefaultVal, List.isEmpty_iff] at this
    rw [this]
  · simp only [htd] at hone
    cases es with
    | nil => rfl
    | cons x xs =>
      exfalso
      obtain ⟨rest, hr⟩ := encUnpacked_ne_nil hone
      have := encKey_ne_nil f.num .blen
      cases hk : encKey f.num .blen with
      | nil => exact this hk
      | cons _ _ => rw [hk] at hr; simp at hr

mutual
/-- a value that amino omits (default, or encoded as the single byte 0x00) is the
zero value of its descriptor, for any fuel at least its nesting depth. -/
theorem zero_val (env : Env) : ∀ (v : Val) (d : Nat) (td : TD) (bs : Bytes) (fnum : Nat),
    wf env d td v = true → enc env td v fnum false false = .ok bs →
    (isDefault env td v = true ∨ bs = [0]) → bs.length < 2 ^ 64 →
    ∀ k, d ≤ k → v = zeroVal env k td
  | .struct vs, d, td, bs, fnum, hw, he, hom, hlen, k, hk => by
    obtain ⟨name, n, ifs, fs, rs, d', rfl, hfind, rfl, hwf⟩ := wf_struct_inv hw
    rw [enc_struct env name n ifs fs rs vs fnum false false hfind] at he
    cases hbuf : encFields env fs vs with
    | error e => rw [hbuf] at he; cases he
    | ok buf =>
      rw [hbuf] at he
      simp only [bind, Except.bind, pure, Except.pure, Except.ok.injEq] at he
      have hb0 : bs = [0] := by
        rcases hom with hd | hb
        · simp [isDefault, isDefaultVal] at hd
        · exact hb
      rw [← he] at hb0
      have hbl : buf.length < 2 ^ 64 := by
        rw [← he] at hlen
        unfold writeMaybeBare at hlen
        split at hlen
        · rename_i hemp; simp at hemp; simp [hemp]
        · simp only [Bool.false_eq_true, if_false, encBytes, List.length_append] at hlen
          omega
      have hnil := writeMaybeBare_eq_zero hb0 hbl
      subst hnil
      cases k with
      | zero => omega
      | succ k' =>
        rw [zeroVal_ref env k' name n ifs fs rs hfind]
        rw [zero_fields env vs d' fs hwf hbuf k' (by omega)]
  | .list vs, d, td, bs, fnum, hw, he, hom, hlen, k, _ => by
    obtain ⟨ptr, e, rfl, hok, hel⟩ := wf_list_inv hw
    have : vs = [] := by
      rcases hom with hd | hb
      · simpa [isDefault, isDefaultVal] using hd
      · exact list_enc_zero hok hel he hb hlen
    subst this
    cases k <;> rfl
  | .u n, d, td, bs, fnum, hw, he, hom, _, k, _ => by
    have hv : isPrimVal (.u n) = true := rfl
    rw [wf_primVal hv] at hw
    rw [enc_primVal hv] at he
    obtain ⟨bs', hbs', _, _⟩ := prim_roundtrip td _ hw
    rw [hbs'] at he; simp at he; subst he
    exact prim_omitted_zero env td _ hw bs' hbs' hom k
  | .i n, d, td, bs, fnum, hw, he, hom, _, k, _ => by
    have hv : isPrimVal (.i n) = true := rfl
    rw [wf_primVal hv] at hw
    rw [enc_primVal hv] at he
    obtain ⟨bs', hbs', _, _⟩ := prim_roundtrip td _ hw
    rw [hbs'] at he; simp at he; subst he
    exact prim_omitted_zero env td _ hw bs' hbs' hom k
  | .b n, d, td, bs, fnum, hw, he, hom, _, k, _ => by
    have hv : isPrimVal (.b n) = true := rfl
    rw [wf_primVal hv] at hw
    rw [enc_primVal hv] at he
    obtain ⟨bs', hbs', _, _⟩ := prim_roundtrip td _ hw
    rw [hbs'] at he; simp at he; subst he
    exact prim_omitted_zero env td _ hw bs' hbs' hom k
  | .x n, d, td, bs, fnum, hw, he, hom, _, k, _ => by
    have hv : isPrimVal (.x n) = true := rfl
    rw [wf_primVal hv] at hw
    rw [enc_primVal hv] at he
    obtain ⟨bs', hbs', _, _⟩ := prim_roundtrip td _ hw
    rw [hbs'] at he; simp at he; subst he
    exact prim_omitted_zero env td _ hw bs' hbs' hom k
  | .t _ _, _, _, _, _, hw, _, _, _, _, _ => by simp [wf] at hw
  | .d _, _, _, _, _, hw, _, _, _, _, _ => by simp [wf] at hw
  | .nil, _, td, _, _, hw, _, _, _, k, _ => by
    obtain ⟨id, rfl⟩ := wf_nil_inv hw
    cases k <;> rfl
  | .any name cv, d, td, bs, fnum, hw, he, hom, hlen, _, _ => by
    exfalso
    obtain ⟨id, n, ifs, fs, rs, rfl, hfind, _, _, _⟩ := wf_any_inv hw
    rcases hom with hd | hb
    · simp [isDefault, isDefaultVal] at hd
    · rw [enc_any env id name n ifs fs rs cv fnum false false hfind] at he
      cases h2 : enc env (.ref name) cv 1 true false with
      | error x => rw [h2] at he; cases he
      | ok buf2 =>
        rw [h2] at he
        simp only [bind, Except.bind, pure, Except.pure, Except.ok.injEq] at he
        rw [← he] at hb hlen
        have hbl : (anyEnvelope name buf2).length < 2 ^ 64 := by
          unfold writeMaybeBare at hlen
          split at hlen
          · rename_i hemp; simp at hemp; simp [hemp]
          · simp only [Bool.false_eq_true, if_false, encBytes, List.length_append] at hlen; omega
        exact anyEnvelope_ne_nil name buf2 (writeMaybeBare_eq_zero hb hbl)
  | .m _ _, _, _, _, _, hw, _, _, _, _, _ => by simp [wf] at hw

/-- a struct whose field encodings are all empty has all fields zero. -/
theorem zero_fields (env : Env) : ∀ (vs : List Val) (d : Nat) (fs : List FieldD),
    wfFields env d fs vs = true → encFields env fs vs = .ok [] →
    ∀ k, d ≤ k → vs = fs.map (zeroSlot env k)
  | [], d, fs, hw, _, k, _ => by
    cases fs with
    | nil => rfl
    | cons f fs => simp [wfFields] at hw
  | v :: vs, d, fs, hw, he, k, hk => by
    cases fs with
    | nil => simp [wfFields] at hw
    | cons f fs =>
      obtain ⟨hwe, hp, hnp, hrest⟩ := wfFields_cons_inv hw
      cases hK : isUnpackedList env f.td
      · rw [encFields_cons env f fs v vs hK] at he
        cases hone : fieldEnc env f v with
        | error e => rw [hone] at he; cases he
        | ok one =>
          cases hmore : encFields env fs vs with
          | error e => rw [hone, hmore] at he; cases he
          | ok more =>
            rw [hone, hmore] at he
            simp only [bind, Except.bind, pure, Except.pure, Except.ok.injEq, List.append_eq_nil_iff] at he
            obtain ⟨h1, h2⟩ := he
            subst h1; subst h2
            simp only [List.map_cons]
            rw [← zero_fields env vs d fs hrest hmore k hk]
            congr 1
            exact omitted_field_core env d f fs v vs hw hone k hk
              (fun value hwv henc hv0 => zero_val env v d f.td value 0 hwv henc (Or.inr hv0)
                (by rw [hv0]; norm_num) k hk)
      · rw [encFields_cons_list env f fs v vs hK] at he
        cases hone : listFieldEnc env f v with
        | error e => rw [hone] at he; cases he
        | ok one =>
          cases hmore : encFields env fs vs with
          | error e => rw [hone, hmore] at he; cases he
          | ok more =>
            rw [hone, hmore] at he
            simp only [bind, Except.bind, pure, Except.pure, Except.ok.injEq, List.append_eq_nil_iff] at he
            obtain ⟨h1, h2⟩ := he
            subst h1; subst h2
            simp only [List.map_cons]
            rw [← zero_fields env vs d fs hrest hmore k hk]
            congr 1
            have hv := omitted_list_field env d f fs v vs hw hK hone
            obtain ⟨hptr, ptr, e, es, htd, _, _⟩ := wf_list_field hw hK
            rw [hv]
            simp only [zeroSlot, hptr, Bool.false_eq_true, if_false, htd]
            cases k <;> rfl
end

/-- an omitted (non-unpacked-list) field holds the zero slot value. -/
theorem omitted_field_zero (env : Env) (d : Nat) (f : FieldD) (fs : List FieldD) (v : Val) (vs : List Val)
    (hw : wfFields env d (f :: fs) (v :: vs) = true) (hone : fieldEnc env f v = .ok [])
    (k : Nat) (hk : d ≤ k) : v = zeroSlot env k f :=
  omitted_field_core env d f fs v vs hw hone k hk
    (fun value hwv henc hv0 => zero_val env v d f.td value 0 hwv henc (Or.inr hv0) (by rw [hv0]; norm_num) k hk)

/-- for fragment fields the decoder's default (`defaultValue`) is the zero slot. -/
theorem defaultSlot_eq_zeroSlot (env : Env) (d : Nat) (f : FieldD) (fs : List FieldD) (v : Val) (vs : List Val)
    (hw : wfFields env d (f :: fs) (v :: vs) = true) :
    defaultSlot env f.ptr f.td = zeroSlot env (env.length + 4) f := by
  obtain ⟨hwe, hp, hnp, hrest⟩ := wfFields_cons_inv hw
  cases hptr : f.ptr
  · have hwv := hnp hptr
    have htime' : ¬ f.td = TD.time := by
      rcases wf_cases hwv with ⟨_, hprim⟩ | ⟨vs', rfl⟩ | ⟨es, rfl⟩ | ⟨_, id, htd⟩ | ⟨_, _, id, _, htd⟩
      · have := primOK_isPrimTD hprim
        cases htd : f.td <;> simp [htd, isPrimTD] at this ⊢
      · obtain ⟨name, _, _, _, _, _, htd, _⟩ := wf_struct_inv hwv
        simp [htd]
      · obtain ⟨ptr, e, htd, _⟩ := wf_list_inv hwv
        simp [htd]
      · simp [htd]
      · simp [htd]
    simp [defaultSlot, zeroSlot, hptr, htime', zeroOf]
  · obtain ⟨hr, hs, _⟩ := hp hptr
    have htime' : ¬ f.td = TD.time := by
      cases htd : f.td <;> simp [htd, isRefTD] at hr ⊢
    simp [defaultSlot, zeroSlot, hptr, htime', hs]

end GnoVerif.C20
