import GnoVerif.Proofs.C20Fields
/-! Omitted structs are zero values (property C20, proved fragment). -/
namespace GnoVerif.C20

/-- the bytes `encFields` emits for one non-list field. -/
def fieldEnc (env : Env) (f : FieldD) (v : Val) : EncM Bytes :=
  if !f.writeEmpty && isDefault env f.td v then pure []
  else do
    let value ← enc env f.td v 0 false false
    pure (fieldBytes f.num (typ3 env f.td) value (f.writeEmpty || (f.ptr && !(v matches .nil))))

theorem encFields_cons (env : Env) (f : FieldD) (fs : List FieldD) (v : Val) (vs : List Val)
    (h : isUnpackedList env f.td = false) :
    encFields env (f :: fs) (v :: vs) = (do
      let one ← fieldEnc env f v
      let more ← encFields env fs vs
      pure (one ++ more)) := by
  cases v <;>
  · simp only [encFields, fieldEnc, h, Bool.false_eq_true, if_false]
    split
    · rfl
    · generalize enc env f.td _ 0 false false = r
      cases r <;> rfl

/-- the slot of a zero struct (the lambda inside `zeroVal`). -/
def zeroSlot (env : Env) (k : Nat) (f : FieldD) : Val :=
  if f.ptr then
    (if f.td == .time then .t 0 0
     else if isStructKind env f.td then Val.nil
     else zeroVal env k f.td)
  else zeroVal env k f.td

theorem zeroVal_ref (env : Env) (k : Nat) (name n : Bytes) (ifs : List Bytes) (fs : List FieldD) (rs : List Nat)
    (h : env.find? name = some ⟨n, ifs, .struct fs rs⟩) :
    zeroVal env (k + 1) (.ref name) = .struct (fs.map (zeroSlot env k)) := by
  simp only [zeroVal, h]
  rfl

theorem encKey_ne_nil (num : Nat) (t : Typ3) : encKey num t ≠ [] := encUvarint_ne_nil _

theorem writeMaybeBare_eq_zero {buf : Bytes} (h : writeMaybeBare buf false = [0]) (hl : buf.length < 2 ^ 64) :
    buf = [] := by
  unfold writeMaybeBare at h
  cases buf with
  | nil => rfl
  | cons b t =>
    simp only [List.isEmpty_cons, Bool.false_eq_true, if_false, encBytes] at h
    have := congrArg List.length h
    simp at this
    have := encUvarint_length_pos (t.length + 1)
    omega

/-- wf inversion for struct values. -/
theorem wf_struct_inv {env : Env} {d : Nat} {td : TD} {vs : List Val} (h : wf env d td (.struct vs) = true) :
    ∃ name n ifs fs rs d', td = .ref name ∧ env.find? name = some ⟨n, ifs, .struct fs rs⟩ ∧ d = d' + 1 ∧
      wfFields env d' fs vs = true := by
  unfold wf at h
  cases td <;> simp only [Bool.false_eq_true] at h
  rename_i name
  split at h
  · rename_i n ifs fs rs hf
    cases d with
    | zero => simp at h
    | succ d' => exact ⟨name, n, ifs, fs, rs, d', rfl, hf, rfl, h⟩
  · simp at h

theorem enc_struct (env : Env) (name n : Bytes) (ifs : List Bytes) (fs : List FieldD) (rs : List Nat) (vs : List Val)
    (fnum : Nat) (bare bo : Bool) (h : env.find? name = some ⟨n, ifs, .struct fs rs⟩) :
    enc env (.ref name) (.struct vs) fnum bare bo = (do
      let buf ← encFields env fs vs
      pure (writeMaybeBare buf bare)) := by
  simp only [enc, h]

end GnoVerif.C20

namespace GnoVerif.C20

def isPrimVal : Val → Bool
  | .u _ | .i _ | .b _ | .x _ => true
  | _ => false

theorem wf_primVal {env : Env} {d : Nat} {td : TD} {v : Val} (hv : isPrimVal v = true) :
    wf env d td v = primOK td v := by
  cases v <;> simp [isPrimVal] at hv <;> simp [wf]

theorem enc_primVal {env : Env} {td : TD} {v : Val} (hv : isPrimVal v = true) (fnum : Nat) (bare bo : Bool) :
    enc env td v fnum bare bo = (encPrim td v bo).getD (.error .badValue) := by
  cases v <;> simp [isPrimVal] at hv <;> simp [enc]

theorem primOK_isPrimTD {td : TD} {v : Val} (h : primOK td v = true) : isPrimTD td = true := by
  cases td <;> cases v <;> simp [primOK] at h <;> rfl

theorem primOK_isPrimVal {td : TD} {v : Val} (h : primOK td v = true) : isPrimVal v = true := by
  cases td <;> cases v <;> simp [primOK] at h <;> rfl

/-- a wf value is either a primitive (of a primitive descriptor) or a struct. -/
theorem wf_cases {env : Env} {d : Nat} {td : TD} {v : Val} (h : wf env d td v = true) :
    (isPrimVal v = true ∧ primOK td v = true) ∨ (∃ vs, v = .struct vs) := by
  cases v <;> simp only [wf, Bool.false_eq_true] at h
  case u n => exact Or.inl ⟨rfl, h⟩
  case i z => exact Or.inl ⟨rfl, h⟩
  case b x => exact Or.inl ⟨rfl, h⟩
  case x bs => exact Or.inl ⟨rfl, h⟩
  case struct vs => exact Or.inr ⟨vs, rfl⟩

theorem wfFields_cons_inv {env : Env} {d : Nat} {f : FieldD} {fs : List FieldD} {v : Val} {vs : List Val}
    (h : wfFields env d (f :: fs) (v :: vs) = true) :
    f.writeEmpty = false ∧
    (f.ptr = true → isRefTD f.td = true ∧ isStructKind env f.td = true ∧ (v = .nil ∨ wf env d f.td v = true)) ∧
    (f.ptr = false → (isPrimTD f.td = true ∨ isRefTD f.td = true) ∧ wf env d f.td v = true) ∧
    wfFields env d fs vs = true := by
  simp only [wfFields, Bool.and_eq_true, Bool.not_eq_true'] at h
  obtain ⟨⟨hwe, hf⟩, hrest⟩ := h
  refine ⟨hwe, ?_, ?_, hrest⟩
  · intro hp
    simp only [hp, if_true, Bool.and_eq_true] at hf
    refine ⟨hf.1.1, hf.1.2, ?_⟩
    cases v <;> simp_all
  · intro hp
    simp only [hp, Bool.false_eq_true, if_false, Bool.and_eq_true, Bool.or_eq_true] at hf
    exact hf

/-- fragment fields are never "unpacked lists". -/
theorem wf_field_not_list {env : Env} {d : Nat} {f : FieldD} {fs : List FieldD} {v : Val} {vs : List Val}
    (h : wfFields env d (f :: fs) (v :: vs) = true) : isUnpackedList env f.td = false := by
  obtain ⟨_, hp, hnp, _⟩ := wfFields_cons_inv h
  cases hptr : f.ptr
  · obtain ⟨hk, hw⟩ := hnp hptr
    rcases wf_cases hw with ⟨_, hprim⟩ | ⟨vs', rfl⟩
    · exact isUnpackedList_prim (primOK_isPrimTD hprim)
    · obtain ⟨name, n, ifs, fs', rs, d', htd, hfind, _, _⟩ := wf_struct_inv hw
      rw [htd]
      exact isUnpackedList_ref (aliasOf_struct hfind)
  · obtain ⟨hr, hs, _⟩ := hp hptr
    cases htd : f.td <;> simp [htd, isRefTD] at hr
    rename_i name
    rw [htd] at hs
    simp only [isStructKind, Option.isNone_iff_eq_none] at hs
    exact isUnpackedList_ref hs

theorem fieldBytes_eq_nil {num : Nat} {t : Typ3} {value : Bytes} {we : Bool}
    (h : fieldBytes num t value we = []) : we = false ∧ value = [0] := by
  unfold fieldBytes at h
  split at h
  · rename_i hc
    simp only [Bool.and_eq_true, Bool.not_eq_true', beq_iff_eq] at hc
    exact hc
  · simp at h
    exact absurd h.1 (encKey_ne_nil _ _)

end GnoVerif.C20

namespace GnoVerif.C20

mutual
/-- a value that amino omits (default, or encoded as the single byte 0x00) is the
zero value of its descriptor, for any fuel at least its nesting depth. -/
theorem zero_val (env : Env) : ∀ (v : Val) (d : Nat) (td : TD) (bs : Bytes),
    wf env d td v = true → enc env td v 0 false false = .ok bs →
    (isDefault env td v = true ∨ bs = [0]) → bs.length < 2 ^ 64 →
    ∀ k, d ≤ k → v = zeroVal env k td
  | .struct vs, d, td, bs, hw, he, hom, hlen, k, hk => by
    obtain ⟨name, n, ifs, fs, rs, d', rfl, hfind, rfl, hwf⟩ := wf_struct_inv hw
    rw [enc_struct env name n ifs fs rs vs 0 false false hfind] at he
    cases hbuf : encFields env fs vs with
    | error e => rw [hbuf] at he; cases he
    | ok buf =>
      rw [hbuf] at he
      simp only [bind, Except.bind, pure, Except.pure, Except.ok.injEq] at he
      have hb0 : bs = [0] := by
        rcases hom with hd | hb
        · simp [isDefault, isDefaultVal] at hd
        · exact hb
      rw [← he] at hb0
      have hbl : buf.length < 2 ^ 64 := by
        rw [← he] at hlen
        unfold writeMaybeBare at hlen
        split at hlen
        · rename_i hemp; simp at hemp; simp [hemp]
        · simp only [Bool.false_eq_true, if_false, encBytes, List.length_append] at hlen
          omega
      have hnil := writeMaybeBare_eq_zero hb0 hbl
      subst hnil
      cases k with
      | zero => omega
      | succ k' =>
        rw [zeroVal_ref env k' name n ifs fs rs hfind]
        rw [zero_fields env vs d' fs hwf hbuf k' (by omega)]
  | .u n, d, td, bs, hw, he, hom, _, k, _ => by
    have hv : isPrimVal (.u n) = true := rfl
    rw [wf_primVal hv] at hw
    rw [enc_primVal hv] at he
    obtain ⟨bs', hbs', _, _⟩ := prim_roundtrip td _ hw
    rw [hbs'] at he; simp at he; subst he
    exact prim_omitted_zero env td _ hw bs' hbs' hom k
  | .i n, d, td, bs, hw, he, hom, _, k, _ => by
    have hv : isPrimVal (.i n) = true := rfl
    rw [wf_primVal hv] at hw
    rw [enc_primVal hv] at he
    obtain ⟨bs', hbs', _, _⟩ := prim_roundtrip td _ hw
    rw [hbs'] at he; simp at he; subst he
    exact prim_omitted_zero env td _ hw bs' hbs' hom k
  | .b n, d, td, bs, hw, he, hom, _, k, _ => by
    have hv : isPrimVal (.b n) = true := rfl
    rw [wf_primVal hv] at hw
    rw [enc_primVal hv] at he
    obtain ⟨bs', hbs', _, _⟩ := prim_roundtrip td _ hw
    rw [hbs'] at he; simp at he; subst he
    exact prim_omitted_zero env td _ hw bs' hbs' hom k
  | .x n, d, td, bs, hw, he, hom, _, k, _ => by
    have hv : isPrimVal (.x n) = true := rfl
    rw [wf_primVal hv] at hw
    rw [enc_primVal hv] at he
    obtain ⟨bs', hbs', _, _⟩ := prim_roundtrip td _ hw
    rw [hbs'] at he; simp at he; subst he
    exact prim_omitted_zero env td _ hw bs' hbs' hom k
  | .t _ _, _, _, _, hw, _, _, _, _, _ => by simp [wf] at hw
  | .d _, _, _, _, hw, _, _, _, _, _ => by simp [wf] at hw
  | .nil, _, _, _, hw, _, _, _, _, _ => by simp [wf] at hw
  | .list _, _, _, _, hw, _, _, _, _, _ => by simp [wf] at hw
  | .any _ _, _, _, _, hw, _, _, _, _, _ => by simp [wf] at hw
  | .m _ _, _, _, _, hw, _, _, _, _, _ => by simp [wf] at hw

/-- a struct whose field encodings are all empty has all fields zero. -/
theorem zero_fields (env : Env) : ∀ (vs : List Val) (d : Nat) (fs : List FieldD),
    wfFields env d fs vs = true → encFields env fs vs = .ok [] →
    ∀ k, d ≤ k → vs = fs.map (zeroSlot env k)
  | [], d, fs, hw, _, k, _ => by
    cases fs with
    | nil => rfl
    | cons f fs => simp [wfFields] at hw
  | v :: vs, d, fs, hw, he, k, hk => by
    cases fs with
    | nil => simp [wfFields] at hw
    | cons f fs =>
      have hnl := wf_field_not_list hw
      obtain ⟨hwe, hp, hnp, hrest⟩ := wfFields_cons_inv hw
      rw [encFields_cons env f fs v vs hnl] at he
      cases hone : fieldEnc env f v with
      | error e => rw [hone] at he; cases he
      | ok one =>
        cases hmore : encFields env fs vs with
        | error e => rw [hone, hmore] at he; cases he
        | ok more =>
          rw [hone, hmore] at he
          simp only [bind, Except.bind, pure, Except.pure, Except.ok.injEq, List.append_eq_nil_iff] at he
          obtain ⟨h1, h2⟩ := he
          subst h1; subst h2
          simp only [List.map_cons]
          rw [← zero_fields env vs d fs hrest hmore k hk]
          congr 1
          -- the head field
          unfold fieldEnc at hone
          cases hptr : f.ptr
          · -- non-pointer field
            obtain ⟨_, hwv⟩ := hnp hptr
            simp only [zeroSlot, hptr, Bool.false_eq_true, if_false]
            split at hone
            · rename_i hdef
              simp only [hwe, Bool.not_false, Bool.true_and] at hdef
              -- default: need the encoding to apply zero_val; use that wf values always encode
              cases henc : enc env f.td v 0 false false with
              | error e =>
                -- a default value of the fragment is a primitive; primitives always encode
                rcases wf_cases hwv with ⟨hpv, hprim⟩ | ⟨vs', rfl⟩
                · rw [enc_primVal hpv] at henc
                  obtain ⟨bs', hbs', _, _⟩ := prim_roundtrip f.td v hprim
                  rw [hbs'] at henc; simp at henc
                · simp [isDefault, isDefaultVal] at hdef
              | ok value =>
                rcases wf_cases hwv with ⟨hpv, hprim⟩ | ⟨vs', rfl⟩
                · rw [enc_primVal hpv] at henc
                  obtain ⟨bs', hbs', _, _⟩ := prim_roundtrip f.td v hprim
                  rw [hbs'] at henc; simp at henc; subst henc
                  exact prim_omitted_zero env f.td v hprim bs' hbs' (Or.inl hdef) k
                · simp [isDefault, isDefaultVal] at hdef
            · cases henc : enc env f.td v 0 false false with
              | error e => rw [henc] at hone; cases hone
              | ok value =>
                rw [henc] at hone
                simp only [bind, Except.bind, pure, Except.pure, Except.ok.injEq] at hone
                obtain ⟨_, hv0⟩ := fieldBytes_eq_nil hone
                exact zero_val env v d f.td value hwv henc (Or.inr hv0) (by rw [hv0]; norm_num) k hk
          · -- pointer field: only nil is omitted
            obtain ⟨hr, hs, hv⟩ := hp hptr
            have htime : (f.td == TD.time) = false := by
              cases htd : f.td <;> simp [htd, isRefTD] at hr ⊢
            simp only [zeroSlot, hptr, if_true, htime, Bool.false_eq_true, if_false, hs]
            rcases hv with rfl | hwv
            · rfl
            · exfalso
              split at hone
              · rename_i hdef
                simp only [hwe, Bool.not_false, Bool.true_and] at hdef
                rcases wf_cases hwv with ⟨hpv, hprim⟩ | ⟨vs', rfl⟩
                · have := primOK_isPrimTD hprim
                  cases htd : f.td <;> simp [htd, isRefTD, isPrimTD] at hr this
                · simp [isDefault, isDefaultVal] at hdef
              · cases henc : enc env f.td v 0 false false with
                | error e => rw [henc] at hone; cases hone
                | ok value =>
                  rw [henc] at hone
                  simp only [bind, Except.bind, pure, Except.pure, Except.ok.injEq] at hone
                  obtain ⟨hwe', _⟩ := fieldBytes_eq_nil hone
                  rcases wf_cases hwv with ⟨hpv, hprim⟩ | ⟨vs', rfl⟩
                  · have := primOK_isPrimTD hprim
                    cases htd : f.td <;> simp [htd, isRefTD, isPrimTD] at hr this
                  · simp [hptr] at hwe'
end

end GnoVerif.C20

namespace GnoVerif.C20

/-- the head-field part of `zero_fields`, standalone: an omitted field holds the
zero slot value. -/
theorem omitted_field_zero (env : Env) (d : Nat) (f : FieldD) (fs : List FieldD) (v : Val) (vs : List Val)
    (hw : wfFields env d (f :: fs) (v :: vs) = true) (hone : fieldEnc env f v = .ok [])
    (k : Nat) (hk : d ≤ k) : v = zeroSlot env k f := by
  obtain ⟨hwe, hp, hnp, hrest⟩ := wfFields_cons_inv hw
  unfold fieldEnc at hone
  cases hptr : f.ptr
  · obtain ⟨_, hwv⟩ := hnp hptr
    simp only [zeroSlot, hptr, Bool.false_eq_true, if_false]
    split at hone
    · rename_i hdef
      simp only [hwe, Bool.not_false, Bool.true_and] at hdef
      rcases wf_cases hwv with ⟨hpv, hprim⟩ | ⟨vs', rfl⟩
      · obtain ⟨bs', hbs', _, _⟩ := prim_roundtrip f.td v hprim
        exact prim_omitted_zero env f.td v hprim bs' hbs' (Or.inl hdef) k
      · simp [isDefault, isDefaultVal] at hdef
    · cases henc : enc env f.td v 0 false false with
      | error e => rw [henc] at hone; cases hone
      | ok value =>
        rw [henc] at hone
        simp only [bind, Except.bind, pure, Except.pure, Except.ok.injEq] at hone
        obtain ⟨_, hv0⟩ := fieldBytes_eq_nil hone
        exact zero_val env v d f.td value hwv henc (Or.inr hv0) (by rw [hv0]; norm_num) k hk
  · obtain ⟨hr, hs, hv⟩ := hp hptr
    have htime : (f.td == TD.time) = false := by
      cases htd : f.td <;> simp [htd, isRefTD] at hr ⊢
    simp only [zeroSlot, hptr, if_true, htime, Bool.false_eq_true, if_false, hs]
    rcases hv with rfl | hwv
    · rfl
    · exfalso
      split at hone
      · rename_i hdef
        simp only [hwe, Bool.not_false, Bool.true_and] at hdef
        rcases wf_cases hwv with ⟨hpv, hprim⟩ | ⟨vs', rfl⟩
        · have := primOK_isPrimTD hprim
          cases htd : f.td <;> simp [htd, isRefTD, isPrimTD] at hr this
        · simp [isDefault, isDefaultVal] at hdef
      · cases henc : enc env f.td v 0 false false with
        | error e => rw [henc] at hone; cases hone
        | ok value =>
          rw [henc] at hone
          simp only [bind, Except.bind, pure, Except.pure, Except.ok.injEq] at hone
          obtain ⟨hwe', _⟩ := fieldBytes_eq_nil hone
          rcases wf_cases hwv with ⟨hpv, hprim⟩ | ⟨vs', rfl⟩
          · have := primOK_isPrimTD hprim
            cases htd : f.td <;> simp [htd, isRefTD, isPrimTD] at hr this
          · simp [hptr] at hwe'

/-- for fragment fields the decoder's default (`defaultValue`) is the zero slot. -/
theorem defaultSlot_eq_zeroSlot (env : Env) (d : Nat) (f : FieldD) (fs : List FieldD) (v : Val) (vs : List Val)
    (hw : wfFields env d (f :: fs) (v :: vs) = true) :
    defaultSlot env f.ptr f.td = zeroSlot env (env.length + 4) f := by
  obtain ⟨hwe, hp, hnp, hrest⟩ := wfFields_cons_inv hw
  cases hptr : f.ptr
  · obtain ⟨hk, hwv⟩ := hnp hptr
    have htime : (f.td == TD.time) = false := by
      rcases wf_cases hwv with ⟨_, hprim⟩ | ⟨vs', rfl⟩
      · have := primOK_isPrimTD hprim
        cases htd : f.td <;> simp [htd, isPrimTD] at this ⊢
      · obtain ⟨name, _, _, _, _, _, htd, _⟩ := wf_struct_inv hwv
        simp [htd]
    have htime' : ¬ f.td = TD.time := by simpa using htime
    simp [defaultSlot, zeroSlot, hptr, htime', zeroOf]
  · obtain ⟨hr, hs, _⟩ := hp hptr
    have htime' : ¬ f.td = TD.time := by
      cases htd : f.td <;> simp [htd, isRefTD] at hr ⊢
    simp [defaultSlot, zeroSlot, hptr, htime', hs]

end GnoVerif.C20
