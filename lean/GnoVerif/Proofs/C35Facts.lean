import GnoVerif.Proofs.C35Run
/-! Remaining helper lemmas for Props/C35.lean. -/
set_option linter.unusedSimpArgs false
set_option linter.unusedVariables false
namespace GnoVerif.C35

theorem quorum_le_iff (T x : Nat) : T * 2 / 3 + 1 ≤ x ↔ 3 * x > 2 * T := by omega

/-- Outcome of `AddVote` for a vote that passes the checks. -/
theorem verified_outcome {s : VoteSet} {v : Vote} (hI : Inv s) (hP : PeerInv s) (hv : Verified s v) :
    (at? s.votes v.idx.toNat = none ∧ (addVote s (some v)).2 = .ret true none) ∨
    (∃ e, at? s.votes v.idx.toNat = some e ∧ e.block.key ≠ v.block.key ∧
      ∃ a, (addVote s (some v)).2 = .ret a (some .conflict) ∧ (a = true ↔ PeerClaimed s v.block.key)) := by
  obtain ⟨a, power, hval, sp, heq⟩ := addVote_verified hI hv
  cases hc : at? s.votes v.idx.toNat with
  | none => left; exact ⟨rfl, by rw [heq, hc]; rfl⟩
  | some e =>
    right
    refine ⟨e, rfl, (getVote_none hv.2.2.2.2.2.1).1 e hc, _, by rw [heq, hc]; rfl, ?_⟩
    rw [sp.added, hc]
    constructor
    · rintro (h | ⟨bv, hb, hf⟩)
      · cases h
      · exact (hP.flag _ bv hb).mp hf
    · intro h
      obtain ⟨bv, hb⟩ := hP.entry _ h
      exact Or.inr ⟨bv, hb, (hP.flag _ bv hb).mpr h⟩

theorem conflict_iff {s : VoteSet} {v : Vote} (hI : Inv s) (hP : PeerInv s) :
    (∃ a, (addVote s (some v)).2 = .ret a (some .conflict)) ↔
      Verified s v ∧ (at? s.votes v.idx.toNat).isSome := by
  constructor
  · rintro ⟨a, h⟩
    by_cases hv : Verified s v
    · refine ⟨hv, ?_⟩
      rcases verified_outcome hI hP hv with ⟨_, h2⟩ | ⟨e, he, _⟩
      · rw [h2] at h; cases h
      · rw [he]; rfl
    · obtain ⟨_, e, h2, h3⟩ := addVote_not_verified hv
      rw [h2] at h; cases h; exact absurd rfl h3
  · rintro ⟨hv, hs⟩
    rcases verified_outcome hI hP hv with ⟨h1, _⟩ | ⟨e, _, _, a, h, _⟩
    · rw [h1] at hs; cases hs
    · exact ⟨a, h⟩

theorem addVote_no_panic {s : VoteSet} (hI : Inv s) (hP : PeerInv s) (ov : Option Vote) (p : Panic) :
    (addVote s ov).2 ≠ .panic p := by
  cases ov with
  | none => simp [addVote]
  | some v =>
    by_cases hv : Verified s v
    · rcases verified_outcome hI hP hv with ⟨_, h⟩ | ⟨_, _, _, _, h, _⟩ <;> rw [h] <;> simp
    · obtain ⟨_, e, h, _⟩ := addVote_not_verified hv
      rw [h]; simp

/-- every validator that has a canonical vote has a counted vote -/
def EverTracked (s : VoteSet) : Prop := ∀ j, (at? s.votes j).isSome → ∃ k w, Tracked s k j w

theorem everTracked_step {s : VoteSet} (hI : Inv s) (hP : PeerInv s) (hE : EverTracked s) (e : Event) :
    EverTracked (step s e) := by
  have sf := stepFacts hI hP e
  intro j hj
  have mono : ∀ k w, Tracked s k j w → Tracked (step s e) k j w := fun k w h => (sf.tracked k j w).mpr (Or.inl h)
  cases hw : at? (step s e).votes j with
  | none => rw [hw] at hj; cases hj
  | some w =>
    rcases sf.votesFrom j w hw with h | h | ⟨h1, h2, h3⟩
    · obtain ⟨k, w', h'⟩ := hE j (by rw [h]; rfl)
      exact ⟨k, w', mono k w' h'⟩
    · exact ⟨_, w, mono _ w h⟩
    · rcases h3 with h3 | ⟨h3, _⟩
      · exact ⟨_, w, (sf.tracked _ j w).mpr (Or.inr ⟨h1, h3, rfl, h2⟩)⟩
      · have := (conflict_iff hI hP).mp ⟨_, h3⟩
        have hj' : j = w.idx.toNat := by omega
        obtain ⟨k, w', h'⟩ := hE j (by rw [hj']; exact this.2)
        exact ⟨k, w', mono k w' h'⟩

theorem everTracked_run {s : VoteSet} (hI : Inv s) (hP : PeerInv s) (hE : EverTracked s) (evs : List Event) :
    EverTracked (run s evs) := by
  induction evs generalizing s with
  | nil => exact hE
  | cons e evs ih =>
    have sf := stepFacts hI hP e
    rw [run_cons]; exact ih sf.inv sf.peer (everTracked_step hI hP hE e)

theorem reachable_everTracked {s : VoteSet} (hr : Reachable s) : EverTracked s := by
  obtain ⟨h, r, t, vals, evs, rfl⟩ := hr
  apply everTracked_run (inv_new h r t vals) (peerInv_new h r t vals)
  intro j hj
  simp [newVoteSet, at?_replicate] at hj

theorem countedFor_eq {s : VoteSet} (hI : Inv s) {k : Nat} {bv : BlockVotes} (h : alGet k s.vbb = some bv) :
    countedFor s k = bv.sum := by
  unfold countedFor; rw [h]; exact (hI.sumBV k bv h).symm

theorem countedForBlock_eq {s : VoteSet} {b : BlockID}
    (h : ∀ j w, Tracked s b.key j w → w.block = b) : countedForBlock s b = countedFor s b.key := by
  unfold countedForBlock countedFor
  cases hb : alGet b.key s.vbb with
  | none => rfl
  | some bv =>
    simp only []
    apply sumPow_congr _ (by simp)
    intro j
    unfold at?
    rw [List.getElem?_map]
    cases hj : bv.votes[j]? with
    | none => rfl
    | some o =>
      cases o with
      | none => rfl
      | some w =>
        have : w.block = b := h j w ⟨bv, hb, by simp [at?, hj]⟩
        simp [this]

theorem makeCommit_ok {s : VoteSet} {b : BlockID} {es : List (Option Vote)} (h : makeCommit s = .ok (b, es)) :
    s.type = precommitType ∧ s.maj23 = some b ∧ es = s.votes := by
  unfold makeCommit at h
  split at h
  · cases h
  · rename_i ht
    split at h
    · cases h
    · rename_i m hm
      cases h
      exact ⟨by simpa using ht, hm, rfl⟩

theorem alGet_mem {β : Type} {k : Nat} {b : β} {l : List (Nat × β)} (h : alGet k l = some b) : (k, b) ∈ l := by
  induction l with
  | nil => simp [alGet] at h
  | cons hd t ih =>
    obtain ⟨k', b'⟩ := hd
    simp only [alGet] at h
    split at h
    · rename_i hk; cases h; subst hk; exact List.mem_cons_self
    · exact List.mem_cons_of_mem _ (ih h)

/-- `getVote` finds nothing when the validator has no known vote under that key. -/
theorem getVote_none_of_known {s : VoteSet} (hI : Inv s) {i k : Nat}
    (h : ∀ w ∈ knownVotes s i, w.block.key ≠ k) : getVote s i k = none := by
  have h1 : ∀ e, at? s.votes i = some e → e.block.key ≠ k := by
    intro e he; apply h; unfold knownVotes; simp [he]
  have h2 : ∀ bv, alGet k s.vbb = some bv → at? bv.votes i = none := by
    intro bv hb
    cases hw : at? bv.votes i with
    | none => rfl
    | some w =>
      exfalso
      have hk := (hI.wfBV k bv i w hb hw).2
      apply h w _ hk
      unfold knownVotes
      simp only [List.mem_append, List.mem_filterMap]
      exact Or.inr ⟨(k, bv), alGet_mem hb, hw⟩
  unfold getVote
  cases he : at? s.votes i with
  | some e =>
    simp only [h1 e he, if_false]
    cases hb : alGet k s.vbb with
    | none => rfl
    | some bv => exact h2 bv hb
  | none =>
    simp only []
    cases hb : alGet k s.vbb with
    | none => rfl
    | some bv => exact h2 bv hb

end GnoVerif.C35
