import GnoVerif.Proofs.C30Avl
/-!
C30 helper lemmas, part 3: the read operations of a well-formed node agree with the
sorted list (`get` / `GetWithIndex`, `has`, `getByIndex`, `size`, height bounds).
-/
namespace GnoVerif.C30
open GnoVerif
namespace Node

theorem size_eq_length {n : Node} (hi : n.Inv) : n.size = n.toList.length := by
  have := C50.Node.size_eq_length ((inv_toC50 n).2 hi)
  simpa using this

theorem toList_ne_nil (n : Node) : n.toList ≠ [] := by
  induction n with
  | leaf => simp
  | inner k h s nk l r ihl _ => simp [ihl]

theorem size_pos {n : Node} (hi : n.Inv) : 1 ≤ n.size := by
  rw [size_eq_length hi]
  have := toList_ne_nil n
  have : 0 < n.toList.length := List.length_pos_iff.2 this
  omega

/-- `get`: rank of the key among the stored keys, and the value -/
theorem get_spec {n : Node} (hw : n.WF) (key : Bytes) :
    n.get key = ((((n.toList.filter (fun p => p.1 < key)).length : Nat) : Int), OMap.get n.toList key) := by
  obtain ⟨hi, hs⟩ := (wf_toC50 n).1 hw
  have h50 := C50.Node.get_spec key hi hs
  -- the C50 `Get` returns (index, value, exists); relate the two functions structurally
  have hrel : ∀ m : Node, (toC50 m).get key = ((m.get key).1, (m.get key).2, ((m.get key).2).isSome) := by
    intro m
    induction m with
    | leaf nk nv k0 =>
      simp only [toC50_leaf, C50.Node.get, get]
      by_cases h1 : nk = key
      · subst h1; simp [Lex.lt_irrefl]
      · by_cases h2 : nk < key
        · simp [h1, h2]
        · have h3 : key < nk := by
            rcases Lex.lt_trichotomy nk key with hh | hh | hh
            · exact absurd hh h2
            · exact absurd hh h1
            · exact hh
          simp [h1, h2, h3]
    | inner nk ht s k0 l r ihl ihr =>
      simp only [toC50_inner, C50.Node.get, get]
      by_cases h1 : key < nk
      · simp only [h1, if_true]; exact ihl
      · simp only [h1, if_false, ihr, size_toC50]
  rw [hrel n] at h50
  simp only [Prod.mk.injEq] at h50
  obtain ⟨h1, h2, -⟩ := h50
  rw [toList_toC50] at h1 h2
  rw [lookup_eq_get] at h2
  have : n.get key = ((n.get key).1, (n.get key).2) := rfl
  rw [this, h1, h2]
  rfl

/-- `has` (which also answers at inner nodes, whose key is a stored key) -/
theorem has_spec {n : Node} (hw : n.WF) (key : Bytes) : n.has key = (OMap.get n.toList key).isSome := by
  obtain ⟨hi, hs⟩ := (wf_toC50 n).1 hw
  have h50 := C50.Node.has_spec key hi hs
  have hrel : ∀ m : Node, (toC50 m).has key = m.has key := by
    intro m
    induction m with
    | leaf => rfl
    | inner nk ht s k0 l r ihl ihr => simp only [toC50_inner, C50.Node.has, has, ihl, ihr]
  rw [hrel, toList_toC50, C50.OMap.contains, lookup_eq_get] at h50
  exact h50

/-- `getByIndex i` is the `i`-th entry of the sorted list for `0 ≤ i < size` … -/
theorem getByIndex_spec {n : Node} (hi : n.Inv) {i : Nat} (h : i < n.toList.length) :
    n.getByIndex (i : Int) = some (n.toList[i]) := by
  induction n generalizing i with
  | leaf nk nv k0 =>
    simp only [toList_leaf, List.length_singleton] at h
    have : i = 0 := by omega
    subst this
    simp [getByIndex]
  | inner nk ht s k0 l r ihl ihr =>
    obtain ⟨hil, hir, -⟩ := hi
    have hsl := size_eq_length hil
    simp only [toList_inner, List.length_append] at h
    simp only [getByIndex, toList_inner]
    by_cases hlt : i < l.toList.length
    · have : (i : Int) < l.size := by omega
      rw [if_pos this, ihl hil hlt, List.getElem_append_left hlt]
    · have hge : l.toList.length ≤ i := by omega
      have : ¬ (i : Int) < l.size := by omega
      rw [if_neg this]
      have hidx : (i : Int) - l.size = ((i - l.toList.length : Nat) : Int) := by omega
      rw [hidx, ihr hir (by omega), List.getElem_append_right hge]

/-- … and `(nil, nil)` everywhere else (negative or ≥ size) -/
theorem getByIndex_none {n : Node} (hi : n.Inv) {i : Int} (h : i < 0 ∨ (n.toList.length : Int) ≤ i) :
    n.getByIndex i = none := by
  induction n generalizing i with
  | leaf nk nv k0 =>
    simp only [toList_leaf, List.length_singleton] at h
    have : i ≠ 0 := by omega
    simp [getByIndex, this]
  | inner nk ht s k0 l r ihl ihr =>
    obtain ⟨hil, hir, -⟩ := hi
    have hsl := size_eq_length hil
    have hpl := size_pos hil
    simp only [toList_inner, List.length_append] at h
    simp only [getByIndex]
    by_cases hlt : i < l.size
    · rw [if_pos hlt]
      exact ihl hil (by omega)
    · rw [if_neg hlt]
      exact ihr hir (by omega)

theorem balanced_of_inv {n : Node} (hi : n.Inv) : n.Balanced :=
  (balanced_toC50 n).1 (C50.Node.balanced_of_inv ((inv_toC50 n).2 hi))

theorem height_eq_realHeight {n : Node} (hi : n.Inv) : n.height = (n.realHeight : Int) := by
  have := C50.Node.height_eq_realHeight ((inv_toC50 n).2 hi)
  simpa using this

theorem pow_le_length {n : Node} (hi : n.Inv) : 2 ^ (n.realHeight / 2) ≤ n.toList.length := by
  have := C50.Node.pow_le_length ((inv_toC50 n).2 hi)
  simpa using this

end Node
end GnoVerif.C30
