/-
Proofs.C26Open — opening a handle (Load / LoadReadonly / LoadVersion, with the
guarded `ensureFastIndex`) establishes the handle invariants and frames
everything that already exists.
-/
import GnoVerif.Proofs.C26Commit

set_option linter.unusedSimpArgs false
set_option linter.unusedVariables false

namespace GnoVerif.C26
open GnoVerif

/-- a handle straight out of `loadVersionDiscovered` (or never loaded). -/
structure Fresh (db : DB) (h : Handle) : Prop where
  work    : h.work = h.saved
  touched : h.touched = false
  batch   : h.batch = []
  saved   : if h.version = 0 then h.saved = [] else db.tree h.version = some h.saved

theorem hinv_of_fresh {db : DB} {h : Handle} (hf : Fresh db h)
    (hc : h.fastOpt = true → h.ensured = true → h.version ≠ 0 → ∃ S, db.stamp = some S ∧ h.version ≤ S) :
    HInv db h := by
  refine ⟨hf.saved, fun _ => ⟨hf.work, hf.batch⟩, fun k => Or.inl (by rw [hf.work]), ?_, fun _ => hf.batch, hc⟩
  intro _ _ k
  rw [hf.batch]
  simp only [netFast]
  rw [hf.work]

theorem Fresh.ensured {db : DB} {h : Handle} (hf : Fresh db h) (b : Bool) :
    Fresh db { h with ensured := b } := ⟨hf.work, hf.touched, hf.batch, hf.saved⟩

theorem Fresh.frame {db db' : DB} {h : Handle} (hf : Fresh db h) (hfr : Frame db db') : Fresh db' h := by
  refine ⟨hf.work, hf.touched, hf.batch, ?_⟩
  have := hf.saved
  split at this
  · rename_i h0; simp [h0, this]
  · rename_i h0; simp only [h0, if_false]; exact hfr.1 _ _ this

theorem emptyHandle_fresh (db : DB) (fo : Bool) (f l : Ver) : Fresh db (emptyHandle fo f l) :=
  ⟨rfl, rfl, rfl, by simp [emptyHandle]⟩

theorem loadAt_eq {db : DB} {fo : Bool} {f l v : Ver} {h : Handle}
    (hl : loadAt db fo f l v = some h) :
    ∃ m, db.tree v = some m ∧
      h = { fastOpt := fo, ensured := false, version := v, work := m, saved := m,
            touched := false, batch := [], poisoned := false, first := f, latest := l } := by
  unfold loadAt at hl
  split at hl
  · simp at hl
  · rename_i m hm
    simp only [Option.some.injEq] at hl
    exact ⟨m, hm, hl.symm⟩

theorem loadAt_fresh {db : DB} (hi : DBInv db) {fo : Bool} {f l v : Ver} {h : Handle}
    (hl : loadAt db fo f l v = some h) :
    Fresh db h ∧ h.version = v ∧ h.ensured = false ∧ h.fastOpt = fo ∧ h.first = f ∧ v ≠ 0 := by
  obtain ⟨m, hm, rfl⟩ := loadAt_eq hl
  have hv : v ≠ 0 := by
    intro e; subst e
    exact absurd (hi.pos _ (tree_mem hm)) (Nat.lt_irrefl 0)
  refine ⟨⟨rfl, rfl, rfl, ?_⟩, rfl, rfl, rfl, rfl, hv⟩
  simp only [hv, if_false]; exact hm

theorem loadReadonly_cases {db : DB} {fo : Bool} {skew : Nat} {h : Handle} {v : Ver}
    (hr : loadReadonly db fo skew = some (h, v)) :
    (v = 0 ∧ maxOf (db.visible skew) = 0 ∧
        h = emptyHandle fo (minOf (db.visible skew)) (maxOf (db.visible skew))) ∨
    (v ≠ 0 ∧ v = maxOf (db.visible skew) ∧
        loadAt db fo (minOf (db.visible skew)) (maxOf (db.visible skew)) v = some h) := by
  unfold loadReadonly at hr
  simp only at hr
  split at hr
  · rename_i h0
    simp only [Option.some.injEq, Prod.mk.injEq] at hr
    exact Or.inl ⟨hr.2.symm, h0, hr.1.symm⟩
  · rename_i h0
    split at hr
    · simp at hr
    · rename_i g hg
      simp only [Option.some.injEq, Prod.mk.injEq] at hr
      obtain ⟨e1, e2⟩ := hr
      subst e1; subst e2
      exact Or.inr ⟨h0, rfl, hg⟩

/-! ### the writer's extra invariant for a fresh handle (no skew) -/

theorem vers_nil_of_maxOf_zero {db : DB} (hi : DBInv db) (h0 : maxOf db.versions = 0) : db.vers = [] := by
  cases hv : db.vers with
  | nil => rfl
  | cons p l =>
    have hp : p ∈ db.vers := by rw [hv]; simp
    have hm : p.1 ∈ db.versions := mem_versions.2 ⟨p.2, hp⟩
    have := le_maxOf hm
    rw [h0] at this
    exact absurd (hi.pos p hp) (Nat.not_lt_of_le this)

theorem winv_fresh {db : DB} (hi : DBInv db) {h : Handle} (hfirst : h.first = minOf db.versions)
    (hv : (h.version = 0 ∧ maxOf db.versions = 0) ∨ h.version ∈ db.versions)
    (hcur : h.fastOpt = true → h.ensured = true → StampCurrent db) : WInv db h := by
  refine ⟨?_, ?_, ?_, ?_, hcur⟩
  · intro h0
    rcases hv with ⟨_, hm⟩ | hm
    · exact vers_nil_of_maxOf_zero hi hm
    · obtain ⟨m, hm⟩ := mem_versions.1 hm
      rw [h0] at hm
      exact absurd (hi.pos _ hm) (Nat.lt_irrefl 0)
  · intro p hp
    rw [hfirst]
    exact minOf_le (mem_versions.2 ⟨p.2, hp⟩)
  · intro hz
    rw [hfirst] at hz
    cases hvs : db.vers with
    | nil => rfl
    | cons p l =>
      have hne : db.versions ≠ [] := by simp [DB.versions, hvs]
      have hmem := minOf_mem hne
      rw [hz] at hmem
      obtain ⟨m, hm⟩ := mem_versions.1 hmem
      exact absurd (hi.pos _ hm) (Nat.lt_irrefl 0)
  · rw [hfirst]
    rcases hv with ⟨_, hm⟩ | hm
    · have := vers_nil_of_maxOf_zero hi hm
      simp [DB.versions, this, minOf]
    · exact Nat.le_succ_of_le (minOf_le hm)

/-! ### `ensureFastIndex` -/

theorem ensure_noop {db : DB} {h : Handle} (he : ensureDecision db h = .noop) (hf : h.fastOpt = true) :
    db.stamp = some h.version := by
  unfold ensureDecision at he
  simp only [hf, Bool.not_true, Bool.false_eq_true, if_false] at he
  split at he
  · simp at he
  · rename_i s hs
    split at he
    · simp at he
    · split at he
      · simp at he
      · rename_i h1 h2
        rw [hs]
        congr 1
        exact Nat.le_antisymm (Nat.le_of_not_lt h2) (Nat.le_of_not_lt h1)

theorem ensure_rebuild {db : DB} {h : Handle} (he : ensureDecision db h = .rebuild) :
    h.fastOpt = true ∧ ∀ S, db.stamp = some S → S < h.version := by
  unfold ensureDecision at he
  by_cases hf : h.fastOpt = true
  · refine ⟨hf, ?_⟩
    simp only [hf, Bool.not_true, Bool.false_eq_true, if_false] at he
    split at he
    · rename_i hs; intro S hS; rw [hs] at hS; simp at hS
    · rename_i s hs
      intro S hS
      rw [hs] at hS
      simp only [Option.some.injEq] at hS
      subst hS
      split at he
      · assumption
      · split at he <;> simp at he
  · have hf' : h.fastOpt = false := by simpa using hf
    simp [hf'] at he

/-- `Load()` with the real rule. -/
theorem loadWith_spec {db : DB} (hi : DBInv db) (fo : Bool) (skew : Nat) :
    DBInv (loadWith ensureDecision db fo skew).1 ∧
    Frame db (loadWith ensureDecision db fo skew).1 ∧
    (loadWith ensureDecision db fo skew).1.vers = db.vers ∧
    (StampCurrent db → StampCurrent (loadWith ensureDecision db fo skew).1) ∧
    ∀ h, (loadWith ensureDecision db fo skew).2.1 = some h →
      Fresh (loadWith ensureDecision db fo skew).1 h ∧ h.fastOpt = fo ∧
      h.first = minOf (db.visible skew) ∧
      ((h.version = 0 ∧ maxOf (db.visible skew) = 0) ∨ h.version ∈ db.versions) ∧
      (h.fastOpt = true → h.ensured = true → h.version ≠ 0 →
          ∃ S, (loadWith ensureDecision db fo skew).1.stamp = some S ∧ h.version ≤ S) ∧
      (skew = 0 → h.fastOpt = true → h.ensured = true →
          StampCurrent (loadWith ensureDecision db fo skew).1) := by
  unfold loadWith
  cases hr : loadReadonly db fo skew with
  | none => exact ⟨hi, Frame.refl _, rfl, id, fun h hh => by simp at hh⟩
  | some r =>
    obtain ⟨g, v⟩ := r
    simp only
    rcases loadReadonly_cases hr with ⟨hv0, hmax, hg⟩ | ⟨hv0, hvmax, hl⟩
    · -- nothing visible: Load returns 0 without ensureFastIndex
      simp only [hv0, if_true]
      refine ⟨hi, Frame.refl _, trivial, id, ?_⟩
      intro h hh
      simp only [Option.some.injEq] at hh
      subst hh; subst hg
      refine ⟨(emptyHandle_fresh db fo _ _).ensured true, rfl, rfl, Or.inl ⟨rfl, hmax⟩,
        fun _ _ hne => absurd rfl hne, ?_⟩
      intro hs _ _
      subst hs
      rw [visible_zero] at hmax
      have hnil := vers_nil_of_maxOf_zero hi hmax
      refine Or.inl ⟨hnil, ?_⟩
      cases hst : db.stamp with
      | none => rfl
      | some S =>
        obtain ⟨p, hp, _⟩ := hi.stampLe S hst
        rw [hnil] at hp; simp at hp
    · obtain ⟨hfr, hgv, hge, hgf, hgfirst, _⟩ := loadAt_fresh hi hl
      have hgtree : db.tree g.version = some g.work := by
        have := hfr.saved
        rw [hgv] at this ⊢
        simp only [hv0, if_false] at this
        rw [hfr.work]; exact this
      have hgmem : g.version ∈ db.versions := mem_versions.2 ⟨_, tree_mem hgtree⟩
      have hgmax : skew = 0 → ∀ p ∈ db.vers, p.1 ≤ g.version := by
        intro hs p hp
        subst hs
        rw [hgv, hvmax, visible_zero]
        exact le_maxOf (mem_versions.2 ⟨p.2, hp⟩)
      simp only [hv0, if_false]
      cases he : ensureDecision db g with
      | noop =>
        simp only
        refine ⟨hi, Frame.refl _, trivial, id, ?_⟩
        intro h hh
        simp only [Option.some.injEq] at hh
        subst hh
        have hst : g.fastOpt = true → db.stamp = some g.version := ensure_noop he
        refine ⟨hfr.ensured true, hgf, hgfirst, Or.inr hgmem,
          fun hf _ _ => ⟨g.version, hst hf, Nat.le_refl _⟩, ?_⟩
        intro hs hf _
        exact Or.inr ⟨g.version, hst hf, hgmax hs⟩
      | rebuild =>
        simp only
        obtain ⟨hf, hlt⟩ := ensure_rebuild he
        have hle : ∀ S, db.stamp = some S → S ≤ g.version := fun S hS => Nat.le_of_lt (hlt S hS)
        obtain ⟨hi', hfr'⟩ := rebuild_inv hi hgtree hle
        refine ⟨hi', hfr', rebuild_vers db g, ?_, ?_⟩
        · -- a current stamp never triggers a rebuild
          intro hcur
          rcases hcur with ⟨hnil, _⟩ | ⟨S, hS, hall⟩
          · obtain ⟨m, hm⟩ := mem_versions.1 hgmem
            rw [hnil] at hm; simp at hm
          · obtain ⟨m, hm⟩ := mem_versions.1 hgmem
            exact absurd (hall _ hm) (Nat.not_le_of_lt (hlt S hS))
        · intro h hh
          simp only [Option.some.injEq] at hh
          subst hh
          refine ⟨(hfr.frame hfr').ensured true, hgf, hgfirst, Or.inr hgmem,
            fun _ _ _ => ⟨g.version, rebuild_stamp db g, Nat.le_refl _⟩, ?_⟩
          intro hs _ _
          refine Or.inr ⟨g.version, rebuild_stamp db g, ?_⟩
          rw [rebuild_vers]; exact hgmax hs
      | ahead =>
        simp only
        refine ⟨hi, Frame.refl _, trivial, id, ?_⟩
        intro h hh
        simp only [Option.some.injEq] at hh
        subst hh
        refine ⟨hfr, hgf, hgfirst, Or.inr hgmem, ?_, ?_⟩
        · intro _ he'; rw [hge] at he'; simp at he'
        · intro _ _ he'; rw [hge] at he'; simp at he'

end GnoVerif.C26
