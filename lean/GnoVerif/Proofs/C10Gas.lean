import GnoVerif.Model.C10Gas
/-! Helper lemmas about the gas meters of `Model/C10Gas.lean`. -/
namespace GnoVerif.C10

theorem inI64_iff (x : Int) : inI64 x = true ↔ (minI64 ≤ x ∧ x ≤ maxI64) := by
  simp [inI64]

namespace Basic

theorem consume_neg (g : Basic) (a : Int) (h : a < 0) : g.consume a = (g, some .negative) := by
  simp [consume, h]

theorem consume_overflow (g : Basic) (a : Int) (h0 : 0 ≤ a) (h : inI64 (g.consumed + a) = false) :
    g.consume a = (g, some .overflow) := by
  have : ¬ a < 0 := by omega
  simp [consume, this, h]

theorem consume_fits (g : Basic) (a : Int) (h0 : 0 ≤ a) (h : inI64 (g.consumed + a) = true) :
    g.consume a = ({ g with consumed := g.consumed + a },
                   if g.consumed + a > g.limit then some .oog else none) := by
  have : ¬ a < 0 := by omega
  simp [consume, this, h]

/-- the three exhaustive cases of `ConsumeGas` -/
theorem consume_cases (g : Basic) (a : Int) :
    (a < 0 ∧ g.consume a = (g, some .negative)) ∨
    (0 ≤ a ∧ inI64 (g.consumed + a) = false ∧ g.consume a = (g, some .overflow)) ∨
    (0 ≤ a ∧ inI64 (g.consumed + a) = true ∧
      g.consume a = ({ g with consumed := g.consumed + a },
                     if g.consumed + a > g.limit then some .oog else none)) := by
  by_cases h : a < 0
  · exact .inl ⟨h, consume_neg g a h⟩
  · have h0 : 0 ≤ a := by omega
    cases hi : inI64 (g.consumed + a) with
    | false => exact .inr (.inl ⟨h0, rfl, consume_overflow g a h0 hi⟩)
    | true => exact .inr (.inr ⟨h0, rfl, consume_fits g a h0 hi⟩)

theorem consume_limit (g : Basic) (a : Int) : (g.consume a).1.limit = g.limit := by
  rcases consume_cases g a with ⟨_, h⟩ | ⟨_, _, h⟩ | ⟨_, _, h⟩ <;> rw [h]

theorem consume_ge (g : Basic) (a : Int) : g.consumed ≤ (g.consume a).1.consumed := by
  rcases consume_cases g a with ⟨_, h⟩ | ⟨_, _, h⟩ | ⟨h0, _, h⟩ <;> rw [h] <;> simp <;> omega

theorem refund_limit (g : Basic) (a : Int) : (g.refund a).1.limit = g.limit := by
  unfold refund; split <;> rfl

theorem refund_nonneg (g : Basic) (a : Int) (h : 0 ≤ g.consumed) : 0 ≤ (g.refund a).1.consumed := by
  unfold refund
  split
  · exact h
  · simp only; split <;> omega

theorem consume_nonneg (g : Basic) (a : Int) (h : 0 ≤ g.consumed) : 0 ≤ (g.consume a).1.consumed :=
  Int.le_trans h (consume_ge g a)

theorem step_nonneg (g : Basic) (op : MOp) (h : 0 ≤ g.consumed) : 0 ≤ (g.step op).consumed := by
  cases op with
  | consume n => exact consume_nonneg g n h
  | refund n => exact refund_nonneg g n h

theorem run_nonneg (ops : List MOp) : ∀ (g : Basic), 0 ≤ g.consumed → 0 ≤ (g.run ops).consumed := by
  induction ops with
  | nil => intro g h; exact h
  | cons op rest ih => intro g h; exact ih (g.step op) (step_nonneg g op h)

theorem step_limit (g : Basic) (op : MOp) : (g.step op).limit = g.limit := by
  cases op with
  | consume n => exact consume_limit g n
  | refund n => exact refund_limit g n

theorem run_limit (ops : List MOp) : ∀ (g : Basic), (g.run ops).limit = g.limit := by
  induction ops with
  | nil => intro g; rfl
  | cons op rest ih => intro g; exact (ih (g.step op)).trans (step_limit g op)

theorem consumedToLimit_eq (g : Basic) :
    g.consumedToLimit = if g.consumed > g.limit then g.limit else g.consumed := by
  simp [consumedToLimit, isPastLimit]

theorem consumedToLimit_le (g : Basic) : g.consumedToLimit ≤ g.limit := by
  rw [consumedToLimit_eq]; split <;> omega

theorem consumedToLimit_le_consumed (g : Basic) : g.consumedToLimit ≤ g.consumed := by
  rw [consumedToLimit_eq]; split <;> omega

theorem consumedToLimit_nonneg (g : Basic) (h : 0 ≤ g.consumed) (hl : 0 ≤ g.limit) : 0 ≤ g.consumedToLimit := by
  rw [consumedToLimit_eq]; split <;> omega

end Basic
end GnoVerif.C10
