import GnoVerif.Proofs.C30Tree
/-!
C30 helper lemmas, part 6: every operation of the protocol (`St.step`) keeps the
batch-is-a-subset invariant and never changes what an existing version holds.
-/
namespace GnoVerif.C30
open GnoVerif
namespace St

/-- what `step` guarantees about the database: nothing appears under a version that
existed before, except what was there -/
def RSub (s s' : St) : Prop :=
  ∀ v r, (s.versionExists v).1 = true → s'.db.getRoot v = .ok r → s.db.getRoot v = .ok r

theorem rsub_of_db_eq {s s' : St} (h : s'.db = s.db) : RSub s s' := by
  intro v r _ hr; rw [h] at hr; exact hr

theorem rsub_of_sub {s s' : St} (h : s'.db.Sub s.db) : RSub s s' := fun v r _ hr => h v r hr

theorem batchSub_of_eq {s s' : St} (h1 : s'.db = s.db) (h2 : s'.pend = s.pend) (hb : s.BatchSub) : s'.BatchSub := by
  simp only [BatchSub, St.batch, h1, h2]; exact hb

theorem step_frame (H : Bytes → Bytes) (s : St) (op : Op) (hb : s.BatchSub) :
    (s.step H op).BatchSub ∧ RSub s (s.step H op) := by
  cases op with
  | set k v =>
    simp only [step]
    cases h : s.set k v with
    | error e => exact ⟨hb, rsub_of_db_eq rfl⟩
    | ok p =>
      obtain ⟨u, s'⟩ := p
      obtain ⟨h1, h2, -⟩ := set_frame h
      exact ⟨batchSub_of_eq h1 h2 hb, rsub_of_db_eq h1⟩
  | remove k =>
    simp only [step]
    cases h : s.remove k with
    | error e => exact ⟨hb, rsub_of_db_eq rfl⟩
    | ok p =>
      obtain ⟨x, s'⟩ := p
      obtain ⟨h1, h2, -⟩ := remove_frame h
      exact ⟨batchSub_of_eq h1 h2 hb, rsub_of_db_eq h1⟩
  | save =>
    simp only [step]
    rcases saveVersion_cases H s with ⟨-, h1, h2⟩ | ⟨hex, h1, h2, -⟩
    · exact ⟨batchSub_of_eq h1 h2 hb, rsub_of_db_eq h1⟩
    · refine ⟨batchSub_of_pend_none h2, ?_⟩
      intro v r hv hr
      rw [h1] at hr
      have hne : s.workingVersion ≠ v := by
        intro e; rw [e] at hex; rw [hex] at hv; cases hv
      rw [DB.getRoot_setRoot _ _ _ _ hne] at hr
      exact hb v r hr
  | load t =>
    simp only [step]
    obtain ⟨h1, h2⟩ := loadVersion_frame s t
    exact ⟨batchSub_of_eq h1 h2 hb, rsub_of_db_eq h1⟩
  | lvo t =>
    simp only [step]
    split
    · exact ⟨hb, rsub_of_db_eq rfl⟩
    · obtain ⟨h1, h2⟩ := loadVersionForOverwriting_frame s t hb
      exact ⟨h2, rsub_of_sub h1⟩
  | delto t =>
    simp only [step]
    obtain ⟨h1, h2⟩ := deleteVersionsToGuarded_frame s t hb
    exact ⟨h2, rsub_of_sub h1⟩
  | rollback =>
    simp only [step]
    obtain ⟨h1, h2, -⟩ := rollback_frame s
    exact ⟨batchSub_of_eq h1 h2 hb, rsub_of_db_eq h1⟩
  | reopen =>
    simp only [step]
    obtain ⟨h1, h2⟩ := reopen_frame s
    exact ⟨batchSub_of_pend_none h2, rsub_of_db_eq h1⟩

theorem init_batchSub (iv : Int) : (St.init iv).BatchSub := batchSub_of_pend_none rfl

theorem run_batchSub (H : Bytes → Bytes) (s : St) (ops : List Op) (hb : s.BatchSub) : (s.run H ops).BatchSub := by
  induction ops generalizing s with
  | nil => exact hb
  | cons op ops ih => exact ih _ (step_frame H s op hb).1

end St
end GnoVerif.C30
