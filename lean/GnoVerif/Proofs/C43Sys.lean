import GnoVerif.Proofs.C43Recv
/-! C43 helper lemmas: the joint invariant of a sender run and the receiver that has processed
    every packet written so far. -/
namespace GnoVerif.C43

/-! ### list helpers -/

theorem mem_unique_of_nodup_map {α : Type} (f : α → UInt8) : ∀ (l : List α), (l.map f).Nodup →
    ∀ a ∈ l, ∀ b ∈ l, f a = f b → a = b := by
  intro l
  induction l with
  | nil => intro _ a ha; cases ha
  | cons x xs ih =>
    intro hnd a ha b hb hab
    simp only [List.map_cons, List.nodup_cons, List.mem_map, not_exists, not_and] at hnd
    rcases List.mem_cons.mp ha with rfl | ha' <;> rcases List.mem_cons.mp hb with rfl | hb'
    · rfl
    · exact absurd hab.symm (hnd.1 b hb')
    · exact absurd hab (hnd.1 a ha')
    · exact ih hnd.2 a ha' b hb' hab

theorem find?_of_mem_nodup {α : Type} (f : α → UInt8) : ∀ (l : List α), (l.map f).Nodup →
    ∀ a ∈ l, l.find? (fun x => decide (f x = f a)) = some a := by
  intro l
  induction l with
  | nil => intro _ a ha; cases ha
  | cons x xs ih =>
    intro hnd a ha
    simp only [List.map_cons, List.nodup_cons, List.mem_map, not_exists, not_and] at hnd
    rcases List.mem_cons.mp ha with rfl | ha'
    · simp
    · have hne : ¬ f x = f a := fun h => hnd.1 a ha' h.symm
      simp only [List.find?_cons, hne, decide_false]
      exact ih hnd.2 a ha'

/-- messages of channel `ch` in a log. -/
def onCh (l : List (UInt8 × Bytes)) (ch : UInt8) : List Bytes := (l.filter (·.1 = ch)).map (·.2)

theorem onCh_snoc (l : List (UInt8 × Bytes)) (id : UInt8) (m : Bytes) (ch : UInt8) :
    onCh (l ++ [(id, m)]) ch = if id = ch then onCh l ch ++ [m] else onCh l ch := by
  unfold onCh
  by_cases h : id = ch <;> simp [List.filter_append, h]

theorem acceptedOn_eq (t : SRun) (ch : UInt8) : t.acceptedOn ch = onCh t.accepted ch := rfl
theorem deliveredOn_eq (r : Recv) (ch : UInt8) : r.deliveredOn ch = onCh r.delivered ch := rfl

/-! ### one receiver step on a known channel -/

theorem Recv.onPacket_msg (r : Recv) (rc : RChan) (ch eof : UInt8) (bs : Bytes)
    (hnd : (r.chans.map (·.id)).Nodup) (hm : rc ∈ r.chans) (hid : rc.id = ch)
    (hcap : rc.recving.length + bs.length ≤ rc.cap) :
    r.onPacket (.msg ch eof bs) =
      if eof = 1 then
        { r with chans := r.chans.map (fun c => if c.id = ch then { c with recving := [] } else c),
                 delivered := r.delivered ++ [(ch, rc.recving ++ bs)], log := r.log ++ [.msg ch eof bs] }
      else
        { r with chans := r.chans.map (fun c => if c.id = ch then { c with recving := rc.recving ++ bs } else c),
                 log := r.log ++ [.msg ch eof bs] } := by
  have hf := find?_of_mem_nodup (fun c : RChan => c.id) r.chans hnd rc hm
  simp only [hid] at hf
  have hc : ¬ rc.cap < rc.recving.length + bs.length := by omega
  simp only [Recv.onPacket, hf, hc, if_false]


/-! ### per-channel relation between the two halves -/

/-- sender channel `c` and receiver channel `rc` agree: the messages accepted on this id are those
    delivered, then the one in flight (already received part ++ part still to send), then the queue. -/
structure CRel (acc del : List Bytes) (c : SChan) (rc : RChan) : Prop where
  ids : rc.id = c.id
  split : acc = del ++ (if c.sending = [] then [] else [rc.recving ++ c.sending]) ++ c.queue
  idle : c.sending = [] → rc.recving = []
  fits : c.sending ≠ [] → (rc.recving ++ c.sending).length ≤ rc.cap
  queue : ∀ m ∈ c.queue, m ≠ [] ∧ m.length ≤ rc.cap

theorem CRel.pend {acc del : List Bytes} {c : SChan} {rc : RChan} (h : CRel acc del c rc) :
    CRel acc del c.pend.1 rc := by
  unfold SChan.pend
  by_cases h0 : c.sending.length = 0
  · have hs : c.sending = [] := List.eq_nil_of_length_eq_zero h0
    rw [if_pos h0]
    cases hq : c.queue with
    | nil => simpa [hq] using h
    | cons m q =>
      have hm := h.queue m (by rw [hq]; simp)
      have hr := h.idle hs
      refine ⟨h.ids, ?_, ?_, ?_, ?_⟩
      · have := h.split
        simp only [hs, if_true, hq] at this
        simp [hm.1, hr, this]
      · intro h'; exact absurd h' hm.1
      · intro _; simp [hr, hm.2]
      · intro m' hm'; exact h.queue m' (by rw [hq]; exact List.mem_cons_of_mem _ hm')
  · rw [if_neg h0]; exact h

theorem CRel.pend_sending {acc del : List Bytes} {c : SChan} {rc : RChan} (h : CRel acc del c rc)
    (hp : c.pend.2 = true) : c.pend.1.sending ≠ [] := by
  unfold SChan.pend at *
  by_cases h0 : c.sending.length = 0
  · rw [if_pos h0] at hp ⊢
    cases hq : c.queue with
    | nil => simp [hq] at hp
    | cons m q =>
      have hm := h.queue m (by rw [hq]; simp)
      simpa using hm.1
  · rw [if_neg h0]
    intro h'; apply h0
    have : c.sending = [] := h'
    simp [this]

theorem CRel.enqueue {acc del : List Bytes} {c : SChan} {rc : RChan} (h : CRel acc del c rc) (m : Bytes)
    (hm : m ≠ []) (hcap : m.length ≤ rc.cap) :
    CRel (acc ++ [m]) del { c with queue := c.queue ++ [m] } rc := by
  refine ⟨h.ids, ?_, h.idle, h.fits, ?_⟩
  · have := h.split
    simp only [this, List.append_assoc]
  · intro m' hm'
    rcases List.mem_append.mp hm' with h1 | h1
    · exact h.queue m' h1
    · have : m' = m := by simpa using h1
      subst this; exact ⟨hm, hcap⟩

/-- the last packet of a message: delivered. -/
theorem CRel.next_eof {acc del : List Bytes} {c : SChan} {rc : RChan} (h : CRel acc del c rc)
    (hs : c.sending ≠ []) (n : Nat) :
    CRel acc (del ++ [rc.recving ++ c.sending])
      { c with sending := [], recentlySent := n } { rc with recving := [] } := by
  refine ⟨h.ids, ?_, fun _ => rfl, fun h' => absurd rfl h', h.queue⟩
  have := h.split
  simp only [hs, if_false] at this
  simp [this]

/-- a non-final packet: `P` more bytes moved from `sending` to `recving`. -/
theorem CRel.next_more {acc del : List Bytes} {c : SChan} {rc : RChan} (h : CRel acc del c rc)
    (P : Nat) (hgt : ¬ c.sending.length ≤ P) (n : Nat) :
    CRel acc del { c with sending := c.sending.drop P, recentlySent := n }
      { rc with recving := rc.recving ++ c.sending.take P } := by
  have hs : c.sending ≠ [] := by intro h'; apply hgt; simp [h']
  have hd : c.sending.drop P ≠ [] := by
    intro h'
    have := List.drop_eq_nil_iff.mp h'
    omega
  refine ⟨h.ids, ?_, fun h' => absurd h' hd, ?_, h.queue⟩
  · have := h.split
    simp only [hs, if_false] at this
    simp only [hd, if_false, List.append_assoc, List.take_append_drop]
    simpa [List.append_assoc] using this
  · intro _
    have := h.fits hs
    simpa [List.append_assoc, List.take_append_drop] using this

end GnoVerif.C43
