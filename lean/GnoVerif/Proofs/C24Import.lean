/-
Proofs.C24Import — exporting a well-formed tree and importing the stream into a
fresh importer rebuilds exactly the same tree value (hence the same root hash
and the same contents).
-/
import GnoVerif.Proofs.C23Iter
import GnoVerif.Model.C24Hash

namespace GnoVerif.C24
open GnoVerif GnoVerif.C23

/-- smallest / largest key of a node (what the importer records per subtree). -/
def minKey (h : Nat) (n : Node h) : Key := ((abs h n).headD ([], [])).1
def maxKey (h : Nat) (n : Node h) : Key := ((abs h n).getLastD ([], [])).1

/-- the stack entry the importer builds for a subtree. -/
def entryOf (h : Nat) (n : Node h) : ImpEntry := ⟨h, n, minKey h n, maxKey h n⟩

/-! ### leaf entries -/

def lastKeyOr (L : Option Key) (es : List Entry) : Option Key :=
  match es.getLast? with
  | some e => some e.1
  | none => L

theorem import_entries (B : Nat) : ∀ (es : List Entry) (buf : List Entry) (S : List ImpEntry)
    (L : Option Key) (rest : List ExportNode),
    OMap.Sorted es → (∀ e ∈ es, e.1.length ≠ 0) → (∀ l, L = some l → ∀ e ∈ es, l < e.1) →
    impAddAll B ⟨buf, S, L⟩ (es.map (fun e => ExportNode.entry e.1 e.2) ++ rest) =
      impAddAll B ⟨buf ++ es, S, lastKeyOr L es⟩ rest
  | [], buf, S, L, rest, _, _, _ => by simp [lastKeyOr]
  | (k, v) :: es, buf, S, L, rest, hs, hne, hL => by
    have hs' := List.pairwise_cons.1 hs
    have hk : k.length ≠ 0 := hne (k, v) (by simp)
    have hlast : keyNotAfter L k = false := by
      cases L with
      | none => rfl
      | some l =>
        have : l < k := hL l rfl (k, v) (by simp)
        simpa [keyNotAfter] using Lex.not_le.2 this
    simp only [List.map_cons, List.cons_append, impAddAll, impAdd, hk, if_false, hlast,
      Bool.false_eq_true]
    rw [import_entries B es (buf ++ [(k, v)]) S (some k) rest hs'.2
      (fun e he => hne e (by simp [he]))
      (fun l hl e he => by cases hl; exact hs'.1 e he)]
    have : lastKeyOr (some k) es = lastKeyOr L ((k, v) :: es) := by
      simp only [lastKeyOr]
      cases es with
      | nil => rfl
      | cons e es =>
        simp only [List.getLast?_cons_cons]
        cases hgl : (e :: es).getLast? with
        | some z => rfl
        | none => simp at hgl
    rw [this]
    simp

/-! ### facts about the recorded smallest / largest keys -/

theorem head_mem_of_ne {α : Type} {l : List α} (d : α) (h : l ≠ []) : l.headD d ∈ l := by
  cases l with
  | nil => exact absurd rfl h
  | cons a l => simp

theorem getLastD_mem_of_ne {α : Type} {l : List α} (d : α) (h : l ≠ []) : l.getLastD d ∈ l := by
  rw [List.getLastD_eq_getLast?]
  cases hg : l.getLast? with
  | none => exact absurd (List.getLast?_eq_none_iff.1 hg) h
  | some a => exact List.mem_of_getLast? hg

theorem minKey_mem {h : Nat} {n : Node h} (hne : NE h n) : ∃ e ∈ abs h n, e.1 = minKey h n :=
  ⟨_, head_mem_of_ne _ hne.abs_ne_nil, rfl⟩

theorem maxKey_mem {h : Nat} {n : Node h} (hne : NE h n) : ∃ e ∈ abs h n, e.1 = maxKey h n :=
  ⟨_, getLastD_mem_of_ne _ hne.abs_ne_nil, rfl⟩

theorem headD_append_of_ne {α : Type} {a b : List α} (d : α) (h : a ≠ []) :
    (a ++ b).headD d = a.headD d := by
  cases a with
  | nil => exact absurd rfl h
  | cons x a => rfl

theorem getLastD_append_of_ne {α : Type} {a b : List α} (d : α) (h : b ≠ []) :
    (a ++ b).getLastD d = b.getLastD d := by
  rw [List.getLastD_eq_getLast?, List.getLastD_eq_getLast?, List.getLast?_append]
  cases hg : b.getLast? with
  | none => exact absurd (List.getLast?_eq_none_iff.1 hg) h
  | some x => rfl

theorem castAll_map (h : Nat) : ∀ cs : List (Node h), castAll h (cs.map (entryOf h)) = some cs
  | [] => rfl
  | c :: cs => by
    simp only [List.map_cons, castAll, castAll_map h cs]
    simp [castNode, entryOf]

/-- the separator windows the importer checks hold on every well-formed inner node. -/
theorem sepWindows_ok {h : Nat} : ∀ (ks : List Key) (cs : List (Node h)) (lo hi : Option Key),
    Chain (Ord h) ks cs lo hi → (∀ c ∈ cs, NE h c) →
    sepWindowsOK ks (cs.map (entryOf h)) = true
  | [], _, _, _, _, _ => rfl
  | k :: ks, cs, lo, hi, hch, hne => by
    match cs, hch, hne with
    | c :: cs', hch, hne =>
      have hlen := hch.2.length_eq
      match cs', hch, hne, hlen with
      | c2 :: cs'', hch, hne, _ =>
        obtain ⟨e1, he1, hk1⟩ := maxKey_mem (hne c (by simp))
        obtain ⟨e2, he2, hk2⟩ := minKey_mem (hne c2 (by simp))
        have h1 : maxKey h c < k := by rw [← hk1]; exact (hch.1.bounds e1 he1).2
        have hc2 : ∃ hi', Ord h c2 (some k) hi' := by
          cases ks with
          | nil =>
            match cs'', hch with
            | [], hch => exact ⟨_, hch.2⟩
          | cons k' ks' => exact ⟨_, hch.2.1⟩
        obtain ⟨hi', hc2⟩ := hc2
        have h2 : k ≤ minKey h c2 := by rw [← hk2]; exact (hc2.bounds e2 he2).1
        simp only [List.map_cons, sepWindowsOK, entryOf, h1, h2, decide_true, Bool.true_and]
        exact sepWindows_ok ks (c2 :: cs'') (some k) hi hch.2 (fun d hd => hne d (by simp [hd]))

/-- separators of a well-formed inner node are non-empty byte strings. -/
theorem seps_nonempty {h : Nat} : ∀ (ks : List Key) (cs : List (Node h)) (lo hi : Option Key),
    Chain (Ord h) ks cs lo hi → (∀ c ∈ cs, NE h c) → ∀ k ∈ ks, k.length ≠ 0
  | [], _, _, _, _, _ => by simp
  | k :: ks, cs, lo, hi, hch, hne => by
    match cs, hch, hne with
    | c :: cs', hch, hne =>
      intro x hx
      rcases List.mem_cons.1 hx with rfl | hx
      · obtain ⟨e1, he1, _⟩ := maxKey_mem (hne c (by simp))
        have : e1.1 < x := (hch.1.bounds e1 he1).2
        intro h0
        have : x = [] := List.eq_nil_of_length_eq_zero h0
        subst this
        exact Lex.not_lt_nil _ ‹e1.1 < []›
      · exact seps_nonempty ks cs' (some k) hi hch.2 (fun d hd => hne d (by simp [hd])) x hx

/-! ### the inner marker -/

theorem drop_stack {α : Type} (S X : List α) (n : Nat) (h : X.length = n) :
    (S ++ X).drop ((S ++ X).length - n) = X ∧ (S ++ X).take ((S ++ X).length - n) = S := by
  subst h
  simp

theorem impAdd_innerEnd (B h : Nat) (S : List ImpEntry) (L : Option Key) (ks : List Key)
    (c0 : Node h) (cs : List (Node h)) (hk1 : 1 ≤ ks.length) (hk2 : ks.length ≤ B - 1)
    (hlen : (c0 :: cs).length = ks.length + 1) (hseps : ∀ k ∈ ks, k.length ≠ 0)
    (hwin : sepWindowsOK ks ((c0 :: cs).map (entryOf h)) = true) :
    impAdd B ⟨[], S ++ (c0 :: cs).map (entryOf h), L⟩ (.innerEnd (h + 1) ks.length ks) =
      some ⟨[], S ++ [⟨h + 1, (⟨ks, c0 :: cs, (c0 :: cs).map (nodeSize h)⟩ : Inner (Node h)),
        minKey h c0, (((c0 :: cs).map (entryOf h)).getLastD (entryOf h c0)).maxKey⟩], L⟩ := by
  have hX : ((c0 :: cs).map (entryOf h)).length = ks.length + 1 := by simpa using hlen
  obtain ⟨hd, ht⟩ := drop_stack S ((c0 :: cs).map (entryOf h)) (ks.length + 1) hX
  have h1 : ¬ (ks.length < 1 ∨ ks.length > B - 1) := by omega
  have h2 : ¬ ((S ++ (c0 :: cs).map (entryOf h)).length < ks.length + 1) := by
    rw [List.length_append, hX]; omega
  have h3 : (ks.any fun sk => decide (sk.length = 0)) = false := by
    rw [List.any_eq_false]
    intro k hk
    simpa using hseps k hk
  simp only [impAdd, h1, if_false, h2, ne_eq, not_true_eq_false, h3, Bool.false_eq_true, hd, ht]
  simp only [List.map_cons, entryOf]
  have hcast := castAll_map h (c0 :: cs)
  simp only [List.map_cons, entryOf] at hcast
  rw [hcast]
  simp only [not_true_eq_false, if_false]
  simp only [List.map_cons, entryOf] at hwin
  simp only [hwin, Bool.not_true, Bool.false_eq_true, if_false]
  rfl

/-! ### whole subtrees -/

def lastMax (h : Nat) (L : Option Key) (cs : List (Node h)) : Option Key :=
  match cs.getLast? with
  | some c => some (maxKey h c)
  | none => L

/-- the statement proved by induction on the height. -/
def ImportsNode (B h : Nat) : Prop :=
  ∀ (n : Node h) (lo hi : Option Key) (S : List ImpEntry) (L : Option Key) (rest : List ExportNode),
    Ord h n lo hi → Occ B h n → (∀ e ∈ abs h n, e.1.length ≠ 0) →
    (∀ l, L = some l → ∀ e ∈ abs h n, l < e.1) →
    impAddAll B ⟨[], S, L⟩ (exportNode h n ++ rest) =
      impAddAll B ⟨[], S ++ [entryOf h n], some (maxKey h n)⟩ rest

theorem import_kids {B h : Nat} (ih : ImportsNode B h) : ∀ (ks : List Key) (cs : List (Node h))
    (lo hi : Option Key) (S : List ImpEntry) (L : Option Key) (rest : List ExportNode),
    Chain (Ord h) ks cs lo hi → (∀ c ∈ cs, Occ B h c) → (∀ e ∈ flat h cs, e.1.length ≠ 0) →
    (∀ l, L = some l → ∀ e ∈ flat h cs, l < e.1) →
    impAddAll B ⟨[], S, L⟩ ((cs.map (exportNode h)).flatten ++ rest) =
      impAddAll B ⟨[], S ++ cs.map (entryOf h), lastMax h L cs⟩ rest
  | [], cs, lo, hi, S, L, rest, hch, hocc, hne, hL => by
    match cs, hch, hocc, hne, hL with
    | [c], hch, hocc, hne, hL =>
      simp only [List.map_cons, List.map_nil, List.flatten_cons, List.flatten_nil, List.append_nil]
      rw [ih c lo hi S L rest hch (hocc c (by simp)) (by simpa using hne) (by simpa using hL)]
      rfl
  | k :: ks, cs, lo, hi, S, L, rest, hch, hocc, hne, hL => by
    match cs, hch, hocc, hne, hL with
    | c :: cs', hch, hocc, hne, hL =>
      have hcne : NE h c := NE_of_ord_occ hch.1 (hocc c (by simp))
      simp only [List.map_cons, List.flatten_cons, List.append_assoc]
      rw [ih c lo (some k) S L _ hch.1 (hocc c (by simp))
        (fun e he => hne e (by simp [he])) (fun l hl e he => hL l hl e (by simp [he]))]
      have hgood := chain_good (fun c lo hi hc => Ord.good hc) hch.2
      obtain ⟨em, hem, hkm⟩ := maxKey_mem hcne
      have hmax : maxKey h c < k := by rw [← hkm]; exact (hch.1.bounds em hem).2
      rw [import_kids ih ks cs' (some k) hi (S ++ [entryOf h c]) (some (maxKey h c)) rest hch.2
        (fun d hd => hocc d (by simp [hd])) (fun e he => hne e (by simp [he]))
        (fun l hl e he => by cases hl; exact Lex.lt_of_lt_of_le hmax (hgood.2.1 e he).1)]
      have hcs' : cs' ≠ [] := by
        intro h0; subst h0
        have := hch.2.length_eq; simp at this
      have hlm : lastMax h (some (maxKey h c)) cs' = lastMax h L (c :: cs') := by
        simp only [lastMax]
        cases cs' with
        | nil => exact absurd rfl hcs'
        | cons d ds =>
          simp only [List.getLast?_cons_cons]
          cases hgl : (d :: ds).getLast? with
          | some z => rfl
          | none => simp at hgl
      rw [hlm]
      simp

theorem import_node (B : Nat) : ∀ h : Nat, ImportsNode B h
  | 0 => by
    intro l lo hi S L rest hord hocc hne hL
    obtain ⟨es⟩ := l
    have h' : LeafOrd es lo hi := hord
    have ho : 1 ≤ es.length ∧ es.length ≤ B := hocc
    have hes : es ≠ [] := by intro h0; subst h0; simp at ho
    show impAddAll B ⟨[], S, L⟩ ((es.map (fun e => ExportNode.entry e.1 e.2) ++ [.leafEnd es.length]) ++ rest) = _
    rw [List.append_assoc, import_entries B es [] S L _ h'.1 hne hL]
    have h1 : ¬ (es.length < 1 ∨ es.length > B) := by omega
    simp only [List.nil_append, List.cons_append, impAddAll, impAdd, h1, if_false, ne_eq,
      not_true_eq_false]
    have hl : lastKeyOr L es = some (maxKey 0 (⟨es⟩ : Leaf)) := by
      simp only [lastKeyOr, maxKey, abs_zero, List.getLastD_eq_getLast?]
      cases hg : es.getLast? with
      | none => exact absurd (List.getLast?_eq_none_iff.1 hg) hes
      | some e => rfl
    rw [hl]
    rfl
  | h + 1 => by
    intro n lo hi S L rest hord hocc hne hL
    obtain ⟨keys, kids, sizes⟩ := (n : Inner (Node h))
    obtain ⟨hch, hsz⟩ := hord
    obtain ⟨hk1, hk2, hkocc⟩ : 1 ≤ keys.length ∧ keys.length ≤ B - 1 ∧ ∀ c ∈ kids, Occ B h c := hocc
    simp only at hch hsz
    have hlen := hch.length_eq
    have hkne : ∀ c ∈ kids, NE h c := by
      intro c hc
      obtain ⟨lo', hi', ho⟩ := hch.forall_mem c hc
      exact NE_of_ord_occ ho (hkocc c hc)
    show impAddAll B ⟨[], S, L⟩ (((kids.map (exportNode h)).flatten ++
      [.innerEnd (h + 1) keys.length keys]) ++ rest) = _
    rw [List.append_assoc, import_kids (import_node B h) keys kids lo hi S L _ hch hkocc hne hL]
    match kids, hch, hsz, hkocc, hlen, hkne, hne with
    | [], _, _, _, hlen, _, _ => simp at hlen
    | c0 :: cs, hch, hsz, hkocc, hlen, hkne, hne =>
      simp only [List.cons_append, List.nil_append, impAddAll]
      rw [impAdd_innerEnd B h S _ keys c0 cs hk1 hk2 hlen (seps_nonempty keys _ lo hi hch hkne)
        (sepWindows_ok keys _ lo hi hch hkne)]
      simp only
      -- the rebuilt entry is the entry of the original node
      have hlast : (c0 :: cs).getLast? = some ((c0 :: cs).getLast (by simp)) :=
        List.getLast?_eq_getLast _
      have hmaxe : (((c0 :: cs).map (entryOf h)).getLastD (entryOf h c0)).maxKey =
          maxKey h ((c0 :: cs).getLast (by simp)) := by
        rw [List.getLastD_eq_getLast?, List.getLast?_map, hlast]; rfl
      have habsne : ∀ c ∈ c0 :: cs, abs h c ≠ [] := fun c hc => (hkne c hc).abs_ne_nil
      have hmin : minKey (h + 1) (⟨keys, c0 :: cs, sizes⟩ : Inner (Node h)) = minKey h c0 := by
        simp only [minKey, abs_succ, flat_cons]
        rw [headD_append_of_ne _ (habsne c0 (by simp))]
      have hmax : maxKey (h + 1) (⟨keys, c0 :: cs, sizes⟩ : Inner (Node h)) =
          maxKey h ((c0 :: cs).getLast (by simp)) := by
        have hsplit : c0 :: cs = (c0 :: cs).dropLast ++ [(c0 :: cs).getLast (by simp)] :=
          (List.dropLast_concat_getLast (by simp)).symm
        simp only [maxKey, abs_succ]
        conv => lhs; rw [hsplit]
        rw [flat_append, flat_cons, flat_nil, List.append_nil,
          getLastD_append_of_ne _ (habsne _ (List.getLast_mem _))]
      have hlm : lastMax h L (c0 :: cs) = some (maxKey h ((c0 :: cs).getLast (by simp))) := by
        simp only [lastMax, hlast]
      rw [hmaxe, hlm, ← hsz]
      simp only [entryOf, hmin, hmax]

/-- exporting a well-formed tree with non-empty keys and importing the stream into
a fresh importer gives back the very same tree value. -/
theorem import_export {B : Nat} {t : Tree} (ht : t.WF B) (hk : ∀ e ∈ t.abs, e.1.length ≠ 0) :
    ∀ stream, exportTree t = some stream → importStream B stream = some t := by
  intro stream hs
  cases t with
  | empty => cases hs
  | node h n =>
    simp only [exportTree, Option.some.injEq] at hs
    subst hs
    have := import_node B h n none none [] none [] ht.1 ht.2 hk (fun l hl => by cases hl)
    simp only [List.append_nil, List.nil_append] at this
    simp only [importStream]
    show (match impAddAll B ⟨[], [], none⟩ (exportNode h n) with
      | some imp => impCommit imp
      | none => none) = _
    rw [this]
    simp [impAddAll, impCommit, entryOf]

end GnoVerif.C24
