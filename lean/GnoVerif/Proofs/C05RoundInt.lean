import GnoVerif.Proofs.C05Round2
/-! C05: `roundInt64` — scaling invariance and sticky decomposition of the integer-level rounding spec. -/
set_option linter.unusedSimpArgs false
namespace GnoVerif.C05.L
open GnoVerif.Gen.C05

theorem rneShift_exact (n a : Nat) (h : n % 2^a = 0) : rneShift n a false = n / 2^a := by
  unfold rneShift
  by_cases ha : a = 0
  · subst ha; simp
  · rw [if_neg ha, h]
    have : ¬ (2^(a-1) < 0 ∨ 0 = 2^(a-1) ∧ (false = true ∨ n / 2^a % 2 = 1)) := by
      have := Nat.two_pow_pos (a-1)
      rintro (h1 | ⟨h1, _⟩) <;> omega
    rw [if_neg this]

/-- rounding `N` at exponent `E − a` = rounding its top part `N / 2^a` at exponent `E` with the
remainder as sticky flag (needs a bit to round, `L ≥ 54`, unless the remainder is zero) -/
theorem packSpecL_split (L a N : Nat) (E : Int) (hL : 53 ≤ L) (h : 54 ≤ L ∨ N % 2^a = 0) :
    packSpecL (L + a) N (E - a) false = packSpecL L (N / 2^a) E (decide (N % 2^a ≠ 0)) := by
  unfold packSpecL
  have hEu : E - (a : Int) + (((L + a : Nat) : Int) - 53) = E + ((L : Int) - 53) := by omega
  simp only [hEu]
  have hk : L + a - 53 = a + (L - 53) := by omega
  split
  · -- normal range
    congr 2
    rw [hk]
    by_cases hb : 0 < L - 53
    · rw [rneShift_split N a (L - 53) hb false]; simp
    · have hL53 : L - 53 = 0 := by omega
      have hr : N % 2^a = 0 := by
        rcases h with h | h
        · omega
        · exact h
      rw [hL53, Nat.add_zero, rneShift_exact N a hr]
      simp [rneShift]
  · -- subnormal range
    rename_i hneg
    have hD : 1 ≤ (-1022 - E).toNat := by omega
    have hk2 : (-1022 - (E - (a : Int))).toNat = a + (-1022 - E).toNat := by omega
    rw [hk2, rneShift_split N a _ hD false]; simp

theorem log2_mul_two_pow (N j : Nat) (hN : N ≠ 0) : Nat.log2 (N * 2^j) = Nat.log2 N + j := by
  have hne : N * 2^j ≠ 0 := Nat.mul_ne_zero hN (by have := Nat.two_pow_pos j; omega)
  rw [Nat.log2_eq_iff hne]
  have h1 := Nat.log2_self_le hN
  have h2 := @Nat.lt_log2_self N
  constructor
  · rw [Nat.pow_add]; exact Nat.mul_le_mul_right _ h1
  · rw [show Nat.log2 N + j + 1 = (Nat.log2 N + 1) + j by omega, Nat.pow_add]
    exact Nat.mul_lt_mul_of_pos_right h2 (Nat.two_pow_pos j)

/-- scaling invariance: `N·2^j` at exponent `E − j` is the same value -/
theorem roundInt64_scale (N j : Nat) (E : Int) (hN : N ≠ 0) :
    roundInt64 (N * 2^j) (E - j) = roundInt64 N E := by
  unfold roundInt64
  rw [log2_mul_two_pow N j hN]
  have e1 : Nat.log2 N + j + 53 = (Nat.log2 N + 53) + j := by omega
  have e2 : E - (j : Int) - 52 = (E - 52) - (j : Int) := by omega
  have e3 : N * 2^j * 2^52 = (N * 2^52) * 2^j := by
    rw [Nat.mul_assoc, Nat.mul_comm (2^j), ← Nat.mul_assoc]
  rw [e1, e2, e3, packSpecL_split _ j _ _ (by omega) (Or.inr (Nat.mul_mod_left _ _))]
  rw [Nat.mul_div_cancel _ (Nat.two_pow_pos j), Nat.mul_mod_left]
  simp

/-- a mantissa that already has its `L ≥ 53` bits: `packSpecL` is `roundInt64` -/
theorem packSpecL_eq_roundInt64 (L M : Nat) (E : Int) (hL : 53 ≤ L) (h1 : 2^(L-1) ≤ M) (h2 : M < 2^L) :
    packSpecL L M E false = roundInt64 M E := by
  have hM : M ≠ 0 := by have := Nat.two_pow_pos (L-1); omega
  have hlog : Nat.log2 M = L - 1 := (Nat.log2_eq_iff hM).2 ⟨h1, by rw [show L - 1 + 1 = L by omega]; exact h2⟩
  unfold roundInt64
  have h := packSpecL_split L 52 (M * 2^52) E hL (Or.inr (Nat.mul_mod_left _ _))
  rw [show ((52 : Nat) : Int) = 52 from rfl] at h
  rw [hlog, show L - 1 + 53 = L + 52 by omega, h]
  rw [Nat.mul_div_cancel _ (Nat.two_pow_pos 52), Nat.mul_mod_left]
  simp

/-- sticky form: top part `M = N / 2^a` with `L ≥ 54` bits and remainder flag = exact rounding of `N` -/
theorem packSpecL_sticky (L a N : Nat) (E : Int) (hL : 54 ≤ L) (h1 : 2^(L-1) ≤ N / 2^a) (h2 : N / 2^a < 2^L) :
    packSpecL L (N / 2^a) E (decide (N % 2^a ≠ 0)) = roundInt64 N (E - a) := by
  have hP : 0 < 2^a := Nat.two_pow_pos a
  have hlo : 2^(L - 1 + a) ≤ N := by
    rw [Nat.pow_add]; exact (Nat.le_div_iff_mul_le hP).1 h1
  have hhi : N < 2^(L + a) := by
    rw [Nat.pow_add]; exact (Nat.div_lt_iff_lt_mul hP).1 h2
  rw [← packSpecL_split L a N E (by omega) (Or.inl hL)]
  exact packSpecL_eq_roundInt64 (L + a) N (E - a) (by omega) (by rw [show L + a - 1 = L - 1 + a by omega]; exact hlo) hhi


theorem toInt_sub_ofNat_small (e : BitVec 64) (k : Nat) (he1 : -(2^62) ≤ e.toInt) (he2 : e.toInt < 2^62) (hk : k < 2^32) :
    (e - BitVec.ofNat 64 k).toInt = e.toInt - k := by
  rw [BitVec.toInt_sub, BitVec.toInt_ofNat']
  simp only [Int.bmod_def]; omega

/-- The bridge used by every arithmetic operation: if the mantissa handed to `fpack64` is the top part
`N / 2^a` of an exact integer `N` and the sticky word is non-zero exactly when the dropped part
`N % 2^a` is, then the result is the correctly rounded `N·2^(e−a−52)` — provided a sticky flag comes
with at least 54 mantissa bits (one bit to round), as it does in all callers. -/
theorem fpack64_roundInt (s M e t : BitVec 64) (N a : Nat)
    (hs : s = 0#64 ∨ s = 9223372036854775808#64)
    (he1 : -(2^39) ≤ e.toInt) (he2 : e.toInt ≤ 2^39)
    (hM : M.toNat = N / 2^a) (ht : t = 0#64 ↔ N % 2^a = 0) (hM0 : M.toNat ≠ 0)
    (hst : N % 2^a = 0 ∨ 2^53 ≤ M.toNat) :
    fpack64 s M e t = s ||| BitVec.ofNat 64 (roundInt64 N (e.toInt - a)) := by
  have hdec : decide (t ≠ 0#64) = decide (N % 2^a ≠ 0) := by
    by_cases h : t = 0#64
    · have := ht.1 h; simp [h, this]
    · have : ¬ (N % 2^a = 0) := fun h' => h (ht.2 h'); simp [h, this]
  have hlo := Nat.log2_self_le hM0
  have hhi := @Nat.lt_log2_self M.toNat
  by_cases hbig : 2^53 ≤ M.toNat
  · -- at least one bit to round: sticky decomposition
    have hL : 54 ≤ Nat.log2 M.toNat + 1 := by
      have : 53 ≤ Nat.log2 M.toNat := (Nat.le_log2 hM0).2 hbig
      omega
    rw [fpack64_rne s M e t hs (by omega) (by omega) (by omega), hdec]
    unfold packSpec64
    rw [hM] at hlo hhi hL ⊢
    rw [packSpecL_sticky _ a N e.toInt hL (by simpa using hlo) hhi]
  · -- exact: the dropped part is zero
    have hr : N % 2^a = 0 := by
      rcases hst with h | h
      · exact h
      · omega
    have ht0 : t = 0#64 := ht.2 hr
    have hN : N = M.toNat * 2^a := by
      have := Nat.div_add_mod N (2^a); rw [hr, ← hM] at this; rw [Nat.mul_comm]; omega
    have hscale : roundInt64 N (e.toInt - a) = roundInt64 M.toNat e.toInt := by
      rw [hN]; exact roundInt64_scale M.toNat a e.toInt hM0
    rw [hscale, ht0]
    by_cases h52 : 2^52 ≤ M.toNat
    · rw [fpack64_rne s M e 0#64 hs h52 (by omega) (by omega)]
      unfold packSpec64
      have : decide ((0#64 : BitVec 64) ≠ 0#64) = false := by simp
      rw [this, packSpecL_eq_roundInt64 _ _ _ (by
        have : 52 ≤ Nat.log2 M.toNat := (Nat.le_log2 hM0).2 h52
        omega) (by simpa using hlo) hhi]
    · obtain ⟨j, hj1, hj52, hlo', hhi', htn, heq⟩ := fpack64_prenorm s M e 0#64 hM0 (by omega)
      rw [heq, fpack64_rne s (M <<< j) (e - BitVec.ofNat 64 j) 0#64 hs (by rw [htn]; exact hlo')
        (by rw [toInt_sub_ofNat_small _ _ (by omega) (by omega) (by omega)]; omega)
        (by rw [toInt_sub_ofNat_small _ _ (by omega) (by omega) (by omega)]; omega)]
      unfold packSpec64
      have : decide ((0#64 : BitVec 64) ≠ 0#64) = false := by simp
      have hlog : Nat.log2 (M <<< j).toNat = 52 := by
        rw [htn]; exact (Nat.log2_eq_iff (by omega)).2 ⟨hlo', hhi'⟩
      rw [this, hlog, htn, toInt_sub_ofNat_small _ _ (by omega) (by omega) (by omega),
        packSpecL_eq_roundInt64 53 _ _ (by omega) (by simpa using hlo') hhi',
        roundInt64_scale M.toNat j e.toInt hM0]

end GnoVerif.C05.L
