/-
Proofs.C24Keys — in every reachable state of the versioned store all keys are
non-empty (`Set` refuses the empty key), which is what the importer requires.
-/
import GnoVerif.Proofs.C24Import

namespace GnoVerif.C23
open GnoVerif

/-- every key of the tree is a non-empty byte string. -/
def Tree.KeysNE (t : Tree) : Prop := ∀ e ∈ t.abs, e.1.length ≠ 0

theorem Tree.keysNE_empty : Tree.empty.KeysNE := by
  intro e he; cases he

namespace MT

structure KeysInv (m : MT) : Prop where
  root : m.root.KeysNE
  last : m.lastSaved.KeysNE
  saved : ∀ p ∈ m.saved, p.2.KeysNE

theorem keys_init : KeysInv {} :=
  ⟨Tree.keysNE_empty, Tree.keysNE_empty, by simp⟩

theorem apply_keys {B : Nat} (hB : 4 ≤ B) (hashOf : Tree → Bytes) {m : MT} (hi : Inv B m)
    (hk : KeysInv m) (op : Op) : KeysInv (m.apply B hashOf op) := by
  cases op with
  | set k v =>
    simp only [apply]
    cases h : m.set B k v with
    | error e => exact hk
    | ok r =>
      obtain ⟨m', u⟩ := r
      simp only [set] at h
      split at h; · cases h
      split at h; · cases h
      rename_i hklen
      split at h; · cases h
      rename_i val
      simp only [Except.ok.injEq, Prod.mk.injEq] at h
      obtain ⟨rfl, _⟩ := h
      refine ⟨?_, hk.last, hk.saved⟩
      intro e he
      have habs := (treeInsert_wf hB hi.root k val).2.1
      have he' : e ∈ OMap.set m.root.abs k val := by rw [← habs]; exact he
      rcases OMap.mem_set he' with rfl | he'
      · exact hklen
      · exact hk.root e he'
  | rm k =>
    simp only [apply]
    cases h : m.remove B k with
    | error e => exact hk
    | ok r =>
      obtain ⟨m', u⟩ := r
      simp only [remove] at h
      split at h; · cases h
      split at h
      · simp only [Except.ok.injEq, Prod.mk.injEq] at h; obtain ⟨rfl, _⟩ := h; exact hk
      · simp only [Except.ok.injEq, Prod.mk.injEq] at h
        obtain ⟨rfl, _⟩ := h
        refine ⟨?_, hk.last, hk.saved⟩
        intro e he
        have habs := (treeRemove_wf hB hi.root k).2.1
        have he' : e ∈ OMap.del m.root.abs k := by rw [← habs]; exact he
        exact hk.root e (OMap.mem_del.1 he').1
  | save =>
    simp only [apply]
    unfold saveVersion
    by_cases hp : m.poisoned = true
    · rw [if_pos hp]; exact hk
    · rw [if_neg hp]
      cases hl : m.lookup (m.version + 1) with
      | some existing =>
        simp only [hl]
        have hex := hk.saved _ (lookup_mem hl)
        by_cases hc : saveConflict hashOf existing m.root = true
        · rw [if_pos hc]; exact ⟨hk.root, hk.last, hk.saved⟩
        · rw [if_neg hc]; exact ⟨hex, hex, hk.saved⟩
      | none =>
        simp only [hl]
        refine ⟨hk.root, hk.root, ?_⟩
        intro p hp'
        rcases mem_insertSaved hp' with rfl | hp'
        · exact hk.root
        · exact hk.saved p hp'
  | rollback => exact ⟨hk.last, hk.last, hk.saved⟩
  | load v =>
    simp only [apply]
    cases h : m.loadVersion v with
    | error e => exact hk
    | ok r =>
      obtain ⟨m', u⟩ := r
      simp only [loadVersion] at h
      cases hl : m.lookup v with
      | none => rw [hl] at h; cases h
      | some t =>
        rw [hl] at h
        simp only [Except.ok.injEq, Prod.mk.injEq] at h
        obtain ⟨rfl, _⟩ := h
        have ht := hk.saved _ (lookup_mem hl)
        exact ⟨ht, ht, hk.saved⟩
  | prune to =>
    simp only [apply]
    cases h : m.prune to with
    | error e => exact hk
    | ok m' =>
      simp only [prune] at h
      split at h; · cases h
      split at h; · cases h; exact hk
      split at h; · cases h
      split at h; · cases h
      cases h
      exact ⟨hk.root, hk.last, fun p hp => hk.saved p (List.mem_filter.1 hp).1⟩
  | reopen =>
    simp only [apply, reopen]
    cases hl : m.lookup m.latest with
    | none => exact ⟨Tree.keysNE_empty, Tree.keysNE_empty, hk.saved⟩
    | some t =>
      have ht := hk.saved _ (lookup_mem hl)
      exact ⟨ht, ht, hk.saved⟩

theorem run_inv_keys {B : Nat} (hB : 4 ≤ B) (hashOf : Tree → Bytes) (ops : List Op) :
    Inv B (run B hashOf ops) ∧ KeysInv (run B hashOf ops) := by
  unfold run
  have : ∀ (m : MT), Inv B m → KeysInv m →
      Inv B (ops.foldl (apply B hashOf) m) ∧ KeysInv (ops.foldl (apply B hashOf) m) := by
    induction ops with
    | nil => intro m h1 h2; exact ⟨h1, h2⟩
    | cons op ops ih =>
      intro m h1 h2
      exact ih _ (apply_inv hB hashOf h1 op) (apply_keys hB hashOf h1 h2 op)
  exact this _ (inv_init B) keys_init

end MT
end GnoVerif.C23
