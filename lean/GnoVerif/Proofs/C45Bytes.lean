import GnoVerif.Model.C45
/-!
C45 helper lemmas, part 5a: per-byte facts and case folding.
-/
namespace GnoVerif.C45

/-! ### per-byte facts (256 cases, kernel-evaluated) -/

theorem forall_uint8 (P : UInt8 → Prop) (h : ∀ n : Fin 256, P (UInt8.ofNat n.val)) : ∀ c, P c := by
  intro c
  have := h ⟨c.toNat, UInt8.toNat_lt c⟩
  simpa using this

/-- printable US-ASCII, the range `DecodeNoLimit` allows. -/
def InRange (c : UInt8) : Prop := 33 ≤ c ∧ c ≤ 126
instance (c : UInt8) : Decidable (InRange c) := by unfold InRange; infer_instance

def idxOK (c : UInt8) : Bool :=
  match charsetIdx c with
  | some v => decide (v < 32) && (charAt v == c) && charset.contains c
  | none => !charset.contains c

set_option maxRecDepth 20000 in
theorem byte_facts : ∀ c : UInt8,
    isUpper (lower c) = false ∧
    (InRange c → InRange (lower c)) ∧
    (lower c = 49 → c = 49) ∧
    (isUpper c = false → lower c = c) ∧
    (isUpper c = true → InRange c) ∧
    (c ∈ charset → isUpper c = false ∧ InRange c ∧ c ≠ 49) ∧
    idxOK c = true := by
  apply forall_uint8; decide +kernel

theorem lower_not_upper (c : UInt8) : isUpper (lower c) = false := (byte_facts c).1
theorem lower_inRange (c : UInt8) (h : InRange c) : InRange (lower c) := (byte_facts c).2.1 h
theorem lower_eq_49 (c : UInt8) (h : lower c = 49) : c = 49 := (byte_facts c).2.2.1 h
theorem lower_of_not_upper (c : UInt8) (h : isUpper c = false) : lower c = c := (byte_facts c).2.2.2.1 h
theorem upper_inRange (c : UInt8) (h : isUpper c = true) : InRange c := (byte_facts c).2.2.2.2.1 h
theorem charset_mem (c : UInt8) (h : c ∈ charset) : isUpper c = false ∧ InRange c ∧ c ≠ 49 :=
  (byte_facts c).2.2.2.2.2.1 h

theorem charsetIdx_some (c : UInt8) (v : Nat) (h : charsetIdx c = some v) : v < 32 ∧ charAt v = c ∧ c ∈ charset := by
  have := (byte_facts c).2.2.2.2.2.2
  unfold idxOK at this
  rw [h] at this
  simp at this
  exact ⟨this.1.1, this.1.2, this.2⟩

theorem charsetIdx_none (c : UInt8) (h : charsetIdx c = none) : c ∉ charset := by
  have := (byte_facts c).2.2.2.2.2.2
  unfold idxOK at this
  rw [h] at this
  simpa using this

theorem charsetIdx_of_mem (c : UInt8) (h : c ∈ charset) : ∃ v, charsetIdx c = some v := by
  cases hc : charsetIdx c with
  | none => exact absurd h (charsetIdx_none c hc)
  | some v => exact ⟨v, rfl⟩

theorem charsetIdx_charAt : ∀ v : Fin 32, charsetIdx (charAt v.val) = some v.val := by decide

theorem charAt_mem (v : Nat) (hv : v < 32) : charAt v ∈ charset :=
  (charsetIdx_some _ _ (charsetIdx_charAt ⟨v, hv⟩)).2.2

theorem lower_lower (c : UInt8) : lower (lower c) = lower c := lower_of_not_upper _ (lower_not_upper c)

theorem inRange_of_lower_eq (c d : UInt8) (h : lower c = lower d) (hd : InRange d) : InRange c := by
  cases hu : isUpper c with
  | true => exact upper_inRange c hu
  | false =>
    rw [lower_of_not_upper c hu] at h
    rw [h]; exact lower_inRange d hd

/-! ### lowerAll -/

theorem lowerAll_append (a b : Bytes) : lowerAll (a ++ b) = lowerAll a ++ lowerAll b := by
  simp [lowerAll]

theorem lowerAll_cons (c : UInt8) (b : Bytes) : lowerAll (c :: b) = lower c :: lowerAll b := rfl

theorem lowerAll_length (a : Bytes) : (lowerAll a).length = a.length := by simp [lowerAll]

theorem lowerAll_of_no_upper (s : Bytes) (h : s.any isUpper = false) : lowerAll s = s := by
  induction s with
  | nil => rfl
  | cons c cs ih =>
    simp only [List.any_cons, Bool.or_eq_false_iff] at h
    rw [lowerAll_cons, ih h.2, lower_of_not_upper c h.1]

theorem lowerAll_idem (s : Bytes) : lowerAll (lowerAll s) = lowerAll s := by
  induction s with
  | nil => rfl
  | cons c cs ih => simp only [lowerAll_cons]; rw [ih, lower_lower]

theorem not_mem_lowerAll_49 (b : Bytes) (h : (49 : UInt8) ∉ b) : (49 : UInt8) ∉ lowerAll b := by
  intro hm
  simp only [lowerAll, List.mem_map] at hm
  obtain ⟨c, hc, hl⟩ := hm
  rw [lower_eq_49 c hl] at hc
  exact h hc

end GnoVerif.C45
