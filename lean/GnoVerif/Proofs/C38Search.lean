import GnoVerif.Proofs.C38Frame
/-! Helper lemmas for C38 (stage 2): what `SearchForHeight` can answer on a layout of well-formed lines. -/
namespace GnoVerif.C38
open GnoVerif

theorem nextLineAux_line (cur l rest : Bytes) (h : (10 : UInt8) ∉ l) :
    nextLineAux cur (l ++ 10 :: rest) = some (cur.reverse ++ l, rest) := by
  induction l generalizing cur with
  | nil => simp [nextLineAux]
  | cons b bs ih =>
    have hb : (b == 10) = false := by
      have : b ≠ 10 := fun e => h (e ▸ List.mem_cons_self)
      simpa using this
    simp only [List.cons_append, nextLineAux, hb, Bool.false_eq_true, if_false]
    rw [ih _ (fun hm => h (List.mem_cons_of_mem _ hm))]
    simp

theorem nextLine_line (l rest : Bytes) (h : (10 : UInt8) ∉ l) : nextLine (l ++ 10 :: rest) = some (l, rest) := by
  simp [nextLine, nextLineAux_line [] l rest h]

/-- On a file of well-formed lines, FILE_LOOP answers "found" only right after the
first marker of the height searched for. -/
theorem scanFile_found (cfg : Cfg) (ignore keep : Bool) (h : Int) (items : List Item)
    (g : ∀ i ∈ items, GoodItem cfg i) :
    ∀ (fuel : Nat) (rest : Bytes), scanFile cfg ignore keep h fuel (encodeAll items) = .found rest →
      afterMarker h items = some rest := by
  induction items with
  | nil =>
    intro fuel rest hf
    cases fuel <;> simp [scanFile, encodeAll, nextLine, nextLineAux] at hf
  | cons i is ih =>
    intro fuel rest hf
    have gi := g i List.mem_cons_self
    have ih' := ih (fun x hx => g x (List.mem_cons_of_mem _ hx))
    cases fuel with
    | zero => simp [scanFile] at hf
    | succ fuel =>
      rw [encodeAll_cons, scanFile, nextLine_line _ _ (nl_not_mem_lineText i)] at hf
      simp only [readLine_lineText cfg i gi] at hf
      cases i with
      | msg p =>
        simp only [itemRes] at hf
        simpa [afterMarker] using ih' fuel rest hf
      | mark m =>
        simp only [itemRes] at hf
        by_cases h1 : h < m
        · simp [h1] at hf
        · by_cases h2 : m = h
          · subst h2
            simp at hf
            simp [afterMarker, hf]
          · have h2' : (m == h) = false := by simpa using h2
            simp only [h1, if_false, h2', Bool.false_eq_true] at hf
            cases keep with
            | true =>
              simp only [if_true] at hf
              simpa [afterMarker, h2] using ih' fuel rest hf
            | false => simp at hf

theorem searchLoop_found (cfg : Cfg) (g : Group) (ignore : Bool) (h : Int) :
    ∀ (fuel : Nat) (s : SState) (rest : Bytes), searchLoop cfg g ignore h fuel s = .found rest →
      ∃ (idx : Nat) (keep : Bool) (fl : Nat), scanFile cfg ignore keep h fl (g.file idx) = .found rest := by
  intro fuel
  induction fuel with
  | zero => intro s rest hf; simp [searchLoop] at hf
  | succ fuel ih =>
    intro s rest hf
    unfold searchLoop at hf
    dsimp only at hf
    split at hf
    · cases hf
    · split at hf
      · -- backwards
        split at hf
        · exact ih _ _ hf
        · split at hf
          · cases hf
          · split at hf
            · exact ih _ _ hf
            · cases hf
            · cases hf
            · rename_i rest' hsf
              cases hf
              exact ⟨_, _, _, hsf⟩
            · repeat' first | exact ih _ _ hf | split at hf
            · exact ih _ _ hf
      · -- binary
        split at hf
        · exact ih _ _ hf
        · split at hf
          · exact ih _ _ hf
          · cases hf
          · cases hf
          · rename_i rest' hsf
            cases hf
            exact ⟨_, _, _, hsf⟩
          · exact ih _ _ hf
          · exact ih _ _ hf

theorem scanFile_nil (cfg : Cfg) (ignore keep : Bool) (h : Int) (fuel : Nat) :
    scanFile cfg ignore keep h fuel [] = .eof := by
  cases fuel <;> simp [scanFile, nextLine, nextLineAux]

/-- "found" is only ever answered right after the first marker `h` of some file of the layout. -/
theorem search_found_sound (cfg : Cfg) (layout : Layout) (g : ∀ f ∈ layout, ∀ i ∈ f, GoodItem cfg i)
    (mode : Nat) (ignore : Bool) (h : Int) (rest : Bytes)
    (hs : search cfg (layoutGroup layout) mode ignore h = .found rest) :
    ∃ f ∈ layout, afterMarker h f = some rest := by
  obtain ⟨idx, keep, fl, hf⟩ := searchLoop_found cfg _ ignore h _ _ rest hs
  have hfile : (layoutGroup layout).file idx = ((layout[idx]?).map encodeAll).getD [] := by
    simp [Group.file, layoutGroup, List.getD_eq_getElem?_getD, List.getElem?_map]
  rw [hfile] at hf
  cases hl : layout[idx]? with
  | none => simp [hl, scanFile_nil] at hf
  | some f =>
    simp only [hl, Option.map_some, Option.getD_some] at hf
    have hmem : f ∈ layout := List.mem_of_getElem? hl
    exact ⟨f, hmem, scanFile_found cfg ignore keep h f (g f hmem) fl rest hf⟩

theorem mem_markersOf_of_afterMarker {h : Int} {f : List Item} {rest : Bytes}
    (ha : afterMarker h f = some rest) : h ∈ markersOf f := by
  induction f with
  | nil => simp [afterMarker] at ha
  | cons i is ih =>
    cases i with
    | msg p => simpa [afterMarker, markersOf] using ih (by simpa [afterMarker] using ha)
    | mark m =>
      by_cases hm : m = h
      · simp [markersOf, hm]
      · simp only [afterMarker, hm, if_false] at ha
        simp [markersOf, ih ha]

theorem markersOf_append (a b : List Item) : markersOf (a ++ b) = markersOf a ++ markersOf b := by
  induction a with
  | nil => rfl
  | cons i is ih => cases i <;> simp [markersOf, ih]

theorem mem_markersOf_flatten {h : Int} {f : List Item} {l : Layout} (hf : f ∈ l) (hh : h ∈ markersOf f) :
    h ∈ markersOf l.flatten := by
  induction l with
  | nil => cases hf
  | cons x xs ih =>
    rw [List.flatten_cons, markersOf_append, List.mem_append]
    rcases List.mem_cons.mp hf with rfl | hx
    · exact Or.inl hh
    · exact Or.inr (ih hx)

/-- With strictly increasing markers a height occurs in at most one file, so the place
found is THE first marker of that height in the whole log. -/
theorem expectedSearch_of_mem (layout : Layout) (hinc : (markersOf layout.flatten).Pairwise (· < ·))
    (h : Int) (f : List Item) (hf : f ∈ layout) (rest : Bytes) (ha : afterMarker h f = some rest) :
    expectedSearch h layout = .found rest := by
  obtain ⟨pre, post, rfl⟩ := List.append_of_mem hf
  have hnone : ∀ x ∈ pre, afterMarker h x = none := by
    intro x hx
    cases hx' : afterMarker h x with
    | none => rfl
    | some r =>
      exfalso
      have h1 : h ∈ markersOf pre.flatten := mem_markersOf_flatten hx (mem_markersOf_of_afterMarker hx')
      have h2 : h ∈ markersOf (f :: post).flatten :=
        mem_markersOf_flatten List.mem_cons_self (mem_markersOf_of_afterMarker ha)
      rw [List.flatten_append, markersOf_append, List.pairwise_append] at hinc
      exact absurd (hinc.2.2 h h1 h h2) (by omega)
  unfold expectedSearch
  rw [List.findSome?_append]
  have : pre.findSome? (afterMarker h) = none := List.findSome?_eq_none_iff.mpr hnone
  simp [this, ha]


/-- On a file of well-formed lines FILE_LOOP never reports an error. -/
theorem scanFile_good_no_err (cfg : Cfg) (ignore keep : Bool) (h : Int) (items : List Item)
    (g : ∀ i ∈ items, GoodItem cfg i) :
    ∀ (fuel : Nat), scanFile cfg ignore keep h fuel (encodeAll items) ≠ .errCorrupt ∧
      scanFile cfg ignore keep h fuel (encodeAll items) ≠ .errMeta := by
  induction items with
  | nil => intro fuel; rw [show encodeAll [] = [] from rfl, scanFile_nil]; simp
  | cons i is ih =>
    intro fuel
    have gi := g i List.mem_cons_self
    have ih' := ih (fun x hx => g x (List.mem_cons_of_mem _ hx))
    cases fuel with
    | zero => simp [scanFile]
    | succ fuel =>
      rw [encodeAll_cons, scanFile, nextLine_line _ _ (nl_not_mem_lineText i)]
      simp only [readLine_lineText cfg i gi]
      cases i with
      | msg p => simpa [itemRes] using ih' fuel
      | mark m =>
        simp only [itemRes]
        by_cases h1 : h < m
        · simp [h1]
        · by_cases h2 : (m == h) = true
          · simp [h1, h2]
          · cases keep with
            | true => simpa [h1, h2] using ih' fuel
            | false => simp [h1, h2]

theorem searchLoop_no_err (cfg : Cfg) (g : Group) (ignore : Bool) (h : Int)
    (hfiles : ∀ idx keep fl, scanFile cfg ignore keep h fl (g.file idx) ≠ .errCorrupt ∧
      scanFile cfg ignore keep h fl (g.file idx) ≠ .errMeta) :
    ∀ (fuel : Nat) (s : SState), searchLoop cfg g ignore h fuel s ≠ .errCorrupt ∧
      searchLoop cfg g ignore h fuel s ≠ .errMeta := by
  intro fuel
  induction fuel with
  | zero => intro s; simp [searchLoop]
  | succ fuel ih =>
    intro s
    unfold searchLoop
    dsimp only
    split
    · simp
    · split
      · split
        · exact ih _
        · split
          · simp
          · split
            · exact ih _
            · rename_i hsf; exact absurd hsf (hfiles _ _ _).1
            · rename_i hsf; exact absurd hsf (hfiles _ _ _).2
            · simp
            · repeat' first | exact ih _ | split
            · exact ih _
      · split
        · exact ih _
        · split
          · exact ih _
          · rename_i hsf; exact absurd hsf (hfiles _ _ _).1
          · rename_i hsf; exact absurd hsf (hfiles _ _ _).2
          · simp
          · exact ih _
          · exact ih _

/-- A search over well-formed lines never ends in a read error. -/
theorem search_no_err (cfg : Cfg) (layout : Layout) (g : ∀ f ∈ layout, ∀ i ∈ f, GoodItem cfg i)
    (mode : Nat) (ignore : Bool) (h : Int) :
    search cfg (layoutGroup layout) mode ignore h ≠ .errCorrupt ∧
    search cfg (layoutGroup layout) mode ignore h ≠ .errMeta := by
  apply searchLoop_no_err
  intro idx keep fl
  have hfile : (layoutGroup layout).file idx = ((layout[idx]?).map encodeAll).getD [] := by
    simp [Group.file, layoutGroup, List.getD_eq_getElem?_getD, List.getElem?_map]
  rw [hfile]
  cases hl : layout[idx]? with
  | none => simp [scanFile_nil]
  | some f =>
    simp only [Option.map_some, Option.getD_some]
    exact scanFile_good_no_err cfg ignore keep h f (g f (List.mem_of_getElem? hl)) fl

end GnoVerif.C38
