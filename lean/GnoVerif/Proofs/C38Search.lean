import GnoVerif.Proofs.C38Frame
/-! Helper lemmas for C38 (stage 2): what `SearchForHeight` can answer on a layout of well-formed lines. -/
namespace GnoVerif.C38
open GnoVerif

theorem nextLineAux_line (cur l rest : Bytes) (h : (10 : UInt8) ∉ l) :
    nextLineAux cur (l ++ 10 :: rest) = some (cur.reverse ++ l, rest) := by
  induction l generalizing cur with
  | nil => simp [nextLineAux]
  | cons b bs ih =>
    have hb : (b == 10) = false := by
      have : b ≠ 10 := fun e => h (e ▸ List.mem_cons_self)
      simpa using this
    simp only [List.cons_append, nextLineAux, hb, Bool.false_eq_true, if_false]
    rw [ih _ (fun hm => h (List.mem_cons_of_mem _ hm))]
    simp

theorem nextLine_line (l rest : Bytes) (h : (10 : UInt8) ∉ l) : nextLine (l ++ 10 :: rest) = some (l, rest) := by
  simp [nextLine, nextLineAux_line [] l rest h]

/-- On a file of well-formed lines, FILE_LOOP answers "found" only right after the
first marker of the height searched for. -/
theorem scanFile_found (cfg : Cfg) (ignore keep : Bool) (h : Int) (items : List Item)
    (g : ∀ i ∈ items, GoodItem cfg i) :
    ∀ (fuel : Nat) (rest : Bytes), scanFile cfg ignore keep h fuel (encodeAll items) = .found rest →
      afterMarker h items = some rest := by
  induction items with
  | nil =>
    intro fuel rest hf
    cases fuel <;> simp [scanFile, encodeAll, nextLine, nextLineAux] at hf
  | cons i is ih =>
    intro fuel rest hf
    have gi := g i List.mem_cons_self
    have ih' := ih (fun x hx => g x (List.mem_cons_of_mem _ hx))
    cases fuel with
    | zero => simp [scanFile] at hf
    | succ fuel =>
      rw [encodeAll_cons, scanFile, nextLine_line _ _ (nl_not_mem_lineText i)] at hf
      simp only [readLine_lineText cfg i gi] at hf
      cases i with
      | msg p =>
        simp only [itemRes] at hf
        simpa [afterMarker] using ih' fuel rest hf
      | mark m =>
        simp only [itemRes] at hf
        by_cases h1 : h < m
        · simp [h1] at hf
        · by_cases h2 : m = h
          · subst h2
            simp at hf
            simp [afterMarker, hf]
          · have h2' : (m == h) = false := by simpa using h2
            simp only [h1, if_false, h2', Bool.false_eq_true] at hf
            cases keep with
            | true =>
              simp only [if_true] at hf
              simpa [afterMarker, h2] using ih' fuel rest hf
            | false => simp at hf

theorem searchLoop_found (cfg : Cfg) (g : Group) (ignore : Bool) (h : Int) :
    ∀ (fuel : Nat) (s : SState) (rest : Bytes), searchLoop cfg g ignore h fuel s = .found rest →
      ∃ (idx : Nat) (keep : Bool) (fl : Nat), scanFile cfg ignore keep h fl (g.file idx) = .found rest := by
  intro fuel
  induction fuel with
  | zero => intro s rest hf; simp [searchLoop] at hf
  | succ fuel ih =>
    intro s rest hf
    unfold searchLoop at hf
    dsimp only at hf
    split at hf
    · cases hf
    · split at hf
      · -- backwards
        split at hf
        · exact ih _ _ hf
        · split at hf
          · cases hf
          · split at hf
            · exact ih _ _ hf
            · cases hf
            · cases hf
            · rename_i rest' hsf
              cases hf
              exact ⟨_, _, _, hsf⟩
            · repeat' first | exact ih _ _ hf | split at hf
            · exact ih _ _ hf
      · -- binary
        split at hf
        · exact ih _ _ hf
        · split at hf
          · exact ih _ _ hf
          · cases hf
          · cases hf
          · rename_i rest' hsf
            cases hf
            exact ⟨_, _, _, hsf⟩
          · exact ih _ _ hf
          · exact ih _ _ hf

theorem scanFile_nil (cfg : Cfg) (ignore keep : Bool) (h : Int) (fuel : Nat) :
    scanFile cfg ignore keep h fuel [] = .eof := by
  cases fuel <;> simp [scanFile, nextLine, nextLineAux]

/-- "found" is only ever answered right after the first marker `h` of some file of the layout. -/
theorem search_found_sound (cfg : Cfg) (layout : Layout) (g : ∀ f ∈ layout, ∀ i ∈ f, GoodItem cfg i)
    (mode : Nat) (ignore : Bool) (h : Int) (rest : Bytes)
    (hs : search cfg (layoutGroup layout) mode ignore h = .found rest) :
    ∃ f ∈ layout, afterMarker h f = some rest := by
  obtain ⟨idx, keep, fl, hf⟩ := searchLoop_found cfg _ ignore h _ _ rest hs
  have hfile : (layoutGroup layout).file idx = ((layout[idx]?).map encodeAll).getD [] := by
    simp [Group.file, layoutGroup, List.getD_eq_getElem?_getD, List.getElem?_map]
  rw [hfile] at hf
  cases hl : layout[idx]? with
  | none => simp [hl, scanFile_nil] at hf
  | some f =>
    simp only [hl, Option.map_some, Option.getD_some] at hf
    have hmem : f ∈ layout := List.mem_of_getElem? hl
    exact ⟨f, hmem, scanFile_found cfg ignore keep h f (g f hmem) fl rest hf⟩

theorem mem_markersOf_of_afterMarker {h : Int} {f : List Item} {rest : Bytes}
    (ha : afterMarker h f = some rest) : h ∈ markersOf f := by
  induction f with
  | nil => simp [afterMarker] at ha
  | cons i is ih =>
    cases i with
    | msg p => simpa [afterMarker, markersOf] using ih (by simpa [afterMarker] using ha)
    | mark m =>
      by_cases hm : m = h
      · simp [markersOf, hm]
      · simp only [afterMarker, hm, if_false] at ha
        simp [markersOf, ih ha]

theorem markersOf_append (a b : List Item) : markersOf (a ++ b) = markersOf a ++ markersOf b := by
  induction a with
  | nil => rfl
  | cons i is ih => cases i <;> simp [markersOf, ih]

theorem mem_markersOf_flatten {h : Int} {f : List Item} {l : Layout} (hf : f ∈ l) (hh : h ∈ markersOf f) :
    h ∈ markersOf l.flatten := by
  induction l with
  | nil => cases hf
  | cons x xs ih =>
    rw [List.flatten_cons, markersOf_append, List.mem_append]
    rcases List.mem_cons.mp hf with rfl | hx
    · exact Or.inl hh
    · exact Or.inr (ih hx)

/-- With strictly increasing markers a height occurs in at most one file, so the place
found is THE first marker of that height in the whole log. -/
theorem expectedSearch_of_mem (layout : Layout) (hinc : (markersOf layout.flatten).Pairwise (· < ·))
    (h : Int) (f : List Item) (hf : f ∈ layout) (rest : Bytes) (ha : afterMarker h f = some rest) :
    expectedSearch h layout = .found rest := by
  obtain ⟨pre, post, rfl⟩ := List.append_of_mem hf
  have hnone : ∀ x ∈ pre, afterMarker h x = none := by
    intro x hx
    cases hx' : afterMarker h x with
    | none => rfl
    | some r =>
      exfalso
      have h1 : h ∈ markersOf pre.flatten := mem_markersOf_flatten hx (mem_markersOf_of_afterMarker hx')
      have h2 : h ∈ markersOf (f :: post).flatten :=
        mem_markersOf_flatten List.mem_cons_self (mem_markersOf_of_afterMarker ha)
      rw [List.flatten_append, markersOf_append, List.pairwise_append] at hinc
      exact absurd (hinc.2.2 h h1 h h2) (by omega)
  unfold expectedSearch
  rw [List.findSome?_append]
  have : pre.findSome? (afterMarker h) = none := List.findSome?_eq_none_iff.mpr hnone
  simp [this, ha]


/-- On a file of well-formed lines FILE_LOOP never reports an error. -/
theorem scanFile_good_no_err (cfg : Cfg) (ignore keep : Bool) (h : Int) (items : List Item)
    (g : ∀ i ∈ items, GoodItem cfg i) :
    ∀ (fuel : Nat), scanFile cfg ignore keep h fuel (encodeAll items) ≠ .errCorrupt ∧
      scanFile cfg ignore keep h fuel (encodeAll items) ≠ .errMeta := by
  induction items with
  | nil => intro fuel; rw [show encodeAll [] = [] from rfl, scanFile_nil]; simp
  | cons i is ih =>
    intro fuel
    have gi := g i List.mem_cons_self
    have ih' := ih (fun x hx => g x (List.mem_cons_of_mem _ hx))
    cases fuel with
    | zero => simp [scanFile]
    | succ fuel =>
      rw [encodeAll_cons, scanFile, nextLine_line _ _ (nl_not_mem_lineText i)]
      simp only [readLine_lineText cfg i gi]
      cases i with
      | msg p => simpa [itemRes] using ih' fuel
      | mark m =>
        simp only [itemRes]
        by_cases h1 : h < m
        · simp [h1]
        · by_cases h2 : (m == h) = true
          · simp [h1, h2]
          · cases keep with
            | true => simpa [h1, h2] using ih' fuel
            | false => simp [h1, h2]

theorem searchLoop_no_err (cfg : Cfg) (g : Group) (ignore : Bool) (h : Int)
    (hfiles : ∀ idx keep fl, scanFile cfg ignore keep h fl (g.file idx) ≠ .errCorrupt ∧
      scanFile cfg ignore keep h fl (g.file idx) ≠ .errMeta) :
    ∀ (fuel : Nat) (s : SState), searchLoop cfg g ignore h fuel s ≠ .errCorrupt ∧
      searchLoop cfg g ignore h fuel s ≠ .errMeta := by
  intro fuel
  induction fuel with
  | zero => intro s; simp [searchLoop]
  | succ fuel ih =>
    intro s
    unfold searchLoop
    dsimp only
    split
    · simp
    · split
      · split
        · exact ih _
        · split
          · simp
          · split
            · exact ih _
            · rename_i hsf; exact absurd hsf (hfiles _ _ _).1
            · rename_i hsf; exact absurd hsf (hfiles _ _ _).2
            · simp
            · repeat' first | exact ih _ | split
            · exact ih _
      · split
        · exact ih _
        · split
          · exact ih _
          · rename_i hsf; exact absurd hsf (hfiles _ _ _).1
          · rename_i hsf; exact absurd hsf (hfiles _ _ _).2
          · simp
          · exact ih _
          · exact ih _

/-- A search over well-formed lines never ends in a read error. -/
theorem search_no_err (cfg : Cfg) (layout : Layout) (g : ∀ f ∈ layout, ∀ i ∈ f, GoodItem cfg i)
    (mode : Nat) (ignore : Bool) (h : Int) :
    search cfg (layoutGroup layout) mode ignore h ≠ .errCorrupt ∧
    search cfg (layoutGroup layout) mode ignore h ≠ .errMeta := by
  apply searchLoop_no_err
  intro idx keep fl
  have hfile : (layoutGroup layout).file idx = ((layout[idx]?).map encodeAll).getD [] := by
    simp [Group.file, layoutGroup, List.getD_eq_getElem?_getD, List.getElem?_map]
  rw [hfile]
  cases hl : layout[idx]? with
  | none => simp [scanFile_nil]
  | some f =>
    simp only [Option.map_some, Option.getD_some]
    exact scanFile_good_no_err cfg ignore keep h f (g f (List.mem_of_getElem? hl)) fl

/-! #### "not found" is only answered when the marker is absent (loop invariant) -/

/-- the items of file `idx` of a layout (none for an index outside it) -/
def fileItems (layout : Layout) (idx : Nat) : List Item := (layout[idx]?).getD []

theorem layoutGroup_file (layout : Layout) (idx : Nat) :
    (layoutGroup layout).file idx = encodeAll (fileItems layout idx) := by
  simp only [Group.file, layoutGroup, fileItems, List.getD_eq_getElem?_getD, List.getElem?_map]
  cases layout[idx]? <;> rfl

theorem fileItems_good {cfg : Cfg} {layout : Layout} (g : ∀ f ∈ layout, ∀ i ∈ f, GoodItem cfg i) (idx : Nat) :
    ∀ i ∈ fileItems layout idx, GoodItem cfg i := by
  unfold fileItems
  cases hl : layout[idx]? with
  | none => intro i hi; simp at hi
  | some f => exact g f (List.mem_of_getElem? hl)

/-- markers of different files are ordered like the files -/
theorem markers_cross (layout : Layout) (hinc : (markersOf layout.flatten).Pairwise (· < ·))
    (i1 i2 : Nat) (hlt : i1 < i2) (x y : Int)
    (hx : x ∈ markersOf (fileItems layout i1)) (hy : y ∈ markersOf (fileItems layout i2)) : x < y := by
  unfold fileItems at hx hy
  cases h2 : layout[i2]? with
  | none => rw [h2] at hy; simp [markersOf] at hy
  | some f2 =>
    cases h1 : layout[i1]? with
    | none => rw [h1] at hx; simp [markersOf] at hx
    | some f1 =>
      rw [h1] at hx; rw [h2] at hy
      simp only [Option.getD_some] at hx hy
      have hi2 : i2 < layout.length := (List.getElem?_eq_some_iff.mp h2).1
      have hsplit : layout = layout.take i2 ++ f2 :: layout.drop (i2 + 1) := by
        have e2 : layout[i2] = f2 := (List.getElem?_eq_some_iff.mp h2).2
        rw [← e2]
        exact (List.take_append_drop i2 layout).symm.trans (by rw [List.drop_eq_getElem_cons hi2])
      have hf1 : f1 ∈ layout.take i2 := by
        have : (layout.take i2)[i1]? = some f1 := by
          rw [List.getElem?_take_of_lt hlt]; exact h1
        exact List.mem_of_getElem? this
      rw [hsplit, List.flatten_append, markersOf_append, List.pairwise_append] at hinc
      apply hinc.2.2 x (mem_markersOf_flatten hf1 hx) y
      rw [List.flatten_cons, markersOf_append]
      exact List.mem_append_left _ hy

/-- markers inside one file are increasing -/
theorem markers_within (layout : Layout) (hinc : (markersOf layout.flatten).Pairwise (· < ·)) (idx : Nat) :
    (markersOf (fileItems layout idx)).Pairwise (· < ·) := by
  unfold fileItems
  cases h2 : layout[idx]? with
  | none => simp [markersOf]
  | some f2 =>
    have hi2 : idx < layout.length := (List.getElem?_eq_some_iff.mp h2).1
    have hsplit : layout = layout.take idx ++ f2 :: layout.drop (idx + 1) := by
      have e2 : layout[idx] = f2 := (List.getElem?_eq_some_iff.mp h2).2
      rw [← e2]
      exact (List.take_append_drop idx layout).symm.trans (by rw [List.drop_eq_getElem_cons hi2])
    rw [hsplit, List.flatten_append, markersOf_append, List.pairwise_append] at hinc
    have := hinc.2.1
    rw [List.flatten_cons, markersOf_append, List.pairwise_append] at this
    simpa using this.1

/-- What each outcome of FILE_LOOP says about a file of well-formed lines with increasing
markers (the fuel covers every line). -/
theorem scanFile_sem (cfg : Cfg) (ignore keep : Bool) (h : Int) (items : List Item)
    (g : ∀ i ∈ items, GoodItem cfg i) (hs : (markersOf items).Pairwise (· < ·)) :
    ∀ (fuel : Nat), items.length < fuel →
      match scanFile cfg ignore keep h fuel (encodeAll items) with
      | .eof => if keep then ∀ m ∈ markersOf items, m < h else markersOf items = []
      | .earlier => h ∉ markersOf items ∧ ∃ m ∈ markersOf items, h < m
      | .later => keep = false ∧ ∃ m rest, markersOf items = m :: rest ∧ m < h
      | .found _ => True
      | .errCorrupt => False
      | .errMeta => False := by
  induction items with
  | nil =>
    intro fuel _
    rw [show encodeAll [] = [] from rfl, scanFile_nil]
    cases keep <;> simp [markersOf]
  | cons i is ih =>
    intro fuel hf
    have gi := g i List.mem_cons_self
    have ih' := ih (fun x hx => g x (List.mem_cons_of_mem _ hx))
    cases fuel with
    | zero => simp at hf
    | succ fuel =>
      have hf' : is.length < fuel := by simpa using hf
      rw [encodeAll_cons, scanFile, nextLine_line _ _ (nl_not_mem_lineText i)]
      simp only [readLine_lineText cfg i gi]
      cases i with
      | msg p =>
        simp only [itemRes, markersOf]
        exact ih' (by simpa [markersOf] using hs) fuel hf'
      | mark m =>
        simp only [itemRes]
        have hs' : (markersOf is).Pairwise (· < ·) := by
          simp only [markersOf, List.pairwise_cons] at hs; exact hs.2
        have hgt : ∀ x ∈ markersOf is, m < x := by
          simp only [markersOf, List.pairwise_cons] at hs; exact hs.1
        by_cases h1 : h < m
        · simp only [h1, if_true, markersOf, List.mem_cons, not_or]
          refine ⟨⟨by omega, ?_⟩, m, Or.inl rfl, h1⟩
          intro hm; have := hgt h hm; omega
        · by_cases h2 : m = h
          · have : (m == h) = true := by simpa using h2
            simp [h1, this]
          · have h2' : (m == h) = false := by simpa using h2
            simp only [h1, if_false, h2', Bool.false_eq_true]
            cases keep with
            | false =>
              simp only [Bool.false_eq_true, if_false, markersOf]
              exact ⟨trivial, m, _, rfl, by omega⟩
            | true =>
              simp only [if_true]
              have := ih' hs' fuel hf'
              revert this
              cases scanFile cfg ignore true h fuel (encodeAll is) with
              | eof =>
                simp only [if_true, markersOf, List.mem_cons]
                intro hall x hx
                rcases hx with rfl | hx
                · omega
                · exact hall x hx
              | earlier =>
                simp only [markersOf, List.mem_cons, not_or]
                rintro ⟨hn, x, hx, hlt⟩
                exact ⟨⟨fun e => h2 e.symm, hn⟩, x, Or.inr hx, hlt⟩
              | later => simp
              | found r => simp
              | errCorrupt => simp
              | errMeta => simp

theorem length_le_encodeAll (items : List Item) : items.length ≤ (encodeAll items).length := by
  induction items with
  | nil => simp
  | cons i is ih =>
    rw [encodeAll_cons]
    simp only [List.length_cons, List.length_append]
    omega

/-- marker `h` occurs in file `idx` -/
def Present (layout : Layout) (h : Int) (idx : Nat) : Prop := h ∈ markersOf (fileItems layout idx)

/-- first index of the current probing round -/
def roundBase (s : SState) : Int :=
  match s.mode with
  | .backwards => s.maxVal + s.backoff
  | .binary => (s.minVal + s.maxVal + 1).tdiv 2

/-- loop invariant of `SearchForHeight`: the marker, if present, lies in [minVal, maxVal]
and not in a file already probed in this round -/
structure Inv (layout : Layout) (h : Int) (s : SState) : Prop where
  min0 : 0 ≤ s.minVal
  off0 : 0 ≤ s.idxoff
  bo : s.backoff ≤ 0
  inRange : ∀ idx : Nat, Present layout h idx → s.minVal ≤ (idx : Int) ∧ (idx : Int) ≤ s.maxVal
  skipped : ∀ idx : Nat, Present layout h idx → ¬ (roundBase s ≤ (idx : Int) ∧ (idx : Int) < roundBase s + s.idxoff)

/-- the facts one probe of file `index` yields about where the marker can be -/
theorem probe_facts (cfg : Cfg) (layout : Layout) (g : ∀ f ∈ layout, ∀ i ∈ f, GoodItem cfg i)
    (hinc : (markersOf layout.flatten).Pairwise (· < ·)) (ignore keep : Bool) (h : Int) (index : Int)
    (h0 : 0 ≤ index) :
    match scanFile cfg ignore keep h (((layoutGroup layout).file index.toNat).length + 1)
        ((layoutGroup layout).file index.toNat) with
    | .eof => ∀ idx : Nat, Present layout h idx → (idx : Int) ≠ index
    | .earlier => ∀ idx : Nat, Present layout h idx → (idx : Int) < index
    | .later => keep = false ∧ ∀ idx : Nat, Present layout h idx → index ≤ (idx : Int)
    | .found _ => True
    | .errCorrupt => False
    | .errMeta => False := by
  have hidx : (index.toNat : Int) = index := Int.toNat_of_nonneg h0
  have sem := scanFile_sem cfg ignore keep h (fileItems layout index.toNat) (fileItems_good g _)
    (markers_within layout hinc _) (((layoutGroup layout).file index.toNat).length + 1)
    (by rw [layoutGroup_file]; have := length_le_encodeAll (fileItems layout index.toNat); omega)
  rw [← layoutGroup_file] at sem
  revert sem
  cases scanFile cfg ignore keep h (((layoutGroup layout).file index.toNat).length + 1)
      ((layoutGroup layout).file index.toNat) with
  | eof =>
    intro sem idx hp e
    have e' : idx = index.toNat := by omega
    subst e'
    unfold Present at hp
    cases keep with
    | true => simp only [if_true] at sem; have := sem h hp; omega
    | false => simp only [Bool.false_eq_true, if_false] at sem; rw [sem] at hp; cases hp
  | earlier =>
    rintro ⟨hn, m, hm, hlt⟩ idx hp
    unfold Present at hp
    by_cases hlt2 : idx < index.toNat
    · omega
    · exfalso
      by_cases heq : idx = index.toNat
      · subst heq; exact hn hp
      · have := markers_cross layout hinc index.toNat idx (by omega) m h hm hp
        omega
  | later =>
    rintro ⟨hk, m, rest, hm, hlt⟩
    refine ⟨hk, ?_⟩
    intro idx hp
    unfold Present at hp
    by_cases hge : index.toNat ≤ idx
    · omega
    · exfalso
      have hmm : m ∈ markersOf (fileItems layout index.toNat) := by rw [hm]; exact List.mem_cons_self
      have := markers_cross layout hinc idx index.toNat (by omega) h m hp hmm
      omega
  | found r => intro _; trivial
  | errCorrupt => intro sem; exact sem
  | errMeta => intro sem; exact sem

theorem searchLoop_notFound (cfg : Cfg) (layout : Layout) (g : ∀ f ∈ layout, ∀ i ∈ f, GoodItem cfg i)
    (hinc : (markersOf layout.flatten).Pairwise (· < ·)) (ignore : Bool) (h : Int) :
    ∀ (fuel : Nat) (s : SState), Inv layout h s →
      searchLoop cfg (layoutGroup layout) ignore h fuel s = .notFound → ∀ idx, ¬ Present layout h idx := by
  intro fuel
  induction fuel with
  | zero => intro s _ hf; simp [searchLoop] at hf
  | succ fuel ih =>
    intro s inv hf
    unfold searchLoop at hf
    dsimp only at hf
    split at hf
    · -- loop exit: minVal > maxVal
      rename_i hexit
      intro idx hp
      have := inv.inRange idx hp
      omega
    · rename_i hle
      have hle' : s.minVal ≤ s.maxVal := by omega
      have hmin := inv.min0; have hoff := inv.off0; have hbo := inv.bo
      split at hf
      · -- backwards
        rename_i hmode
        have hbase : roundBase s = s.maxVal + s.backoff := by simp [roundBase, hmode]
        split at hf
        · -- the round ran past maxVal
          rename_i hover
          refine ih _ ?_ hf
          refine ⟨hmin, by simp, ?_, ?_, ?_⟩
          · dsimp only; split <;> omega
          · intro idx hp
            have h1 := inv.inRange idx hp
            have h2 := inv.skipped idx hp
            rw [hbase] at h2
            dsimp only; omega
          · intro idx hp; dsimp only; omega
        · rename_i hnover
          split at hf
          · cases hf
          · rename_i hnpanic
            have h0 : 0 ≤ s.maxVal + s.backoff + s.idxoff := by omega
            have pf := probe_facts cfg layout g hinc ignore (s.backoff == 0) h _ h0
            split at hf
            · -- eof
              rename_i hsf
              rw [hsf] at pf
              refine ih _ ?_ hf
              refine ⟨hmin, by dsimp only; omega, hbo, inv.inRange, ?_⟩
              intro idx hp
              have h2 := inv.skipped idx hp
              have h3 := pf idx hp
              rw [hbase] at h2
              have : roundBase { s with idxoff := s.idxoff + 1 } = s.maxVal + s.backoff := by
                simp [roundBase, hmode]
              rw [this]; dsimp only; omega
            · cases hf
            · cases hf
            · cases hf
            · -- earlier
              rename_i hsf
              rw [hsf] at pf
              have key : ∀ idx : Nat, Present layout h idx → (idx : Int) < s.maxVal + s.backoff := by
                intro idx hp
                have h2 := inv.skipped idx hp
                have h3 := pf idx hp
                rw [hbase] at h2
                omega
              by_cases hb0 : s.backoff = 0
              · have hb0' : (s.backoff == 0) = true := by simpa using hb0
                simp only [hb0', if_true] at hf
                split at hf
                · refine ih _ ?_ hf
                  refine ⟨hmin, by simp, by simp, ?_, ?_⟩
                  · intro idx hp; have := key idx hp; have := inv.inRange idx hp; dsimp only; omega
                  · intro idx hp; dsimp only; omega
                · refine ih _ ?_ hf
                  refine ⟨hmin, by simp, by simp, ?_, ?_⟩
                  · intro idx hp; have := key idx hp; have := inv.inRange idx hp; dsimp only; omega
                  · intro idx hp; dsimp only; omega
              · have hb0' : (s.backoff == 0) = false := by simpa using hb0
                simp only [hb0', Bool.false_eq_true, if_false] at hf
                split at hf
                · refine ih _ ?_ hf
                  refine ⟨hmin, by simp, by simp, ?_, ?_⟩
                  · intro idx hp; have := key idx hp; have := inv.inRange idx hp; dsimp only; omega
                  · intro idx hp; dsimp only; omega
                · refine ih _ ?_ hf
                  refine ⟨hmin, by simp, by dsimp only; omega, ?_, ?_⟩
                  · intro idx hp; have := key idx hp; have := inv.inRange idx hp; dsimp only; omega
                  · intro idx hp; dsimp only; omega
            · -- later
              rename_i hsf
              rw [hsf] at pf
              refine ih _ ?_ hf
              refine ⟨by dsimp only; omega, by simp, by simp, ?_, ?_⟩
              · intro idx hp
                have := pf.2 idx hp; have := inv.inRange idx hp; dsimp only; omega
              · intro idx hp; dsimp only; omega
      · -- binary
        rename_i hmode
        have hmid : (s.minVal + s.maxVal + 1).tdiv 2 = (s.minVal + s.maxVal + 1) / 2 :=
          Int.tdiv_eq_ediv_of_nonneg (by omega)
        have hbase : roundBase s = (s.minVal + s.maxVal + 1) / 2 := by simp [roundBase, hmode, hmid]
        rw [hmid] at hf
        split at hf
        · rename_i hover
          refine ih _ ?_ hf
          refine ⟨hmin, by simp, hbo, ?_, ?_⟩
          · intro idx hp
            have h1 := inv.inRange idx hp
            have h2 := inv.skipped idx hp
            rw [hbase] at h2
            dsimp only; omega
          · intro idx hp; dsimp only; omega
        · rename_i hnover
          have h0 : 0 ≤ (s.minVal + s.maxVal + 1) / 2 + s.idxoff := by omega
          have pf := probe_facts cfg layout g hinc ignore
            (decide ¬ ((s.minVal + s.maxVal + 1) / 2 + s.idxoff < s.maxVal)) h _ h0
          split at hf
          · -- eof
            rename_i hsf
            rw [hsf] at pf
            refine ih _ ?_ hf
            refine ⟨hmin, by dsimp only; omega, hbo, inv.inRange, ?_⟩
            intro idx hp
            have h2 := inv.skipped idx hp
            have h3 := pf idx hp
            rw [hbase] at h2
            have : roundBase { s with idxoff := s.idxoff + 1 } = (s.minVal + s.maxVal + 1) / 2 := by
              simp [roundBase, hmode, hmid]
            rw [this]; dsimp only; omega
          · cases hf
          · cases hf
          · cases hf
          · -- earlier
            rename_i hsf
            rw [hsf] at pf
            refine ih _ ?_ hf
            refine ⟨hmin, by simp, hbo, ?_, ?_⟩
            · intro idx hp
              have h1 := inv.inRange idx hp
              have h2 := inv.skipped idx hp
              have h3 := pf idx hp
              rw [hbase] at h2
              dsimp only; omega
            · intro idx hp; dsimp only; omega
          · -- later
            rename_i hsf
            rw [hsf] at pf
            refine ih _ ?_ hf
            refine ⟨by dsimp only; omega, by simp, hbo, ?_, ?_⟩
            · intro idx hp
              have := pf.2 idx hp; have := inv.inRange idx hp; dsimp only; omega
            · intro idx hp; dsimp only; omega

theorem present_of_afterMarker {layout : Layout} {h : Int} {f : List Item} {rest : Bytes}
    (hf : f ∈ layout) (ha : afterMarker h f = some rest) : ∃ idx, Present layout h idx := by
  obtain ⟨idx, hidx, rfl⟩ := List.getElem_of_mem hf
  refine ⟨idx, ?_⟩
  unfold Present fileItems
  rw [List.getElem?_eq_getElem hidx]
  exact mem_markersOf_of_afterMarker ha

theorem initial_inv (layout : Layout) (h : Int) (mode : Mode) :
    Inv layout h { minVal := ((layoutGroup layout).minIndex : Int), maxVal := ((layoutGroup layout).maxIndex : Int),
                   mode := mode, backoff := 0, idxoff := 0 } := by
  refine ⟨by simp [layoutGroup], by simp, by simp, ?_, ?_⟩
  · intro idx hp
    have hlt : idx < layout.length := by
      unfold Present fileItems at hp
      cases hl : layout[idx]? with
      | none => rw [hl] at hp; simp [markersOf] at hp
      | some f => exact (List.getElem?_eq_some_iff.mp hl).1
    simp only [layoutGroup, Group.maxIndex, List.length_map]
    omega
  · intro idx hp; dsimp only; omega

/-- "not found" is only ever answered when the marker is in no file of the layout. -/
theorem search_notFound_sound (cfg : Cfg) (layout : Layout) (g : ∀ f ∈ layout, ∀ i ∈ f, GoodItem cfg i)
    (hinc : (markersOf layout.flatten).Pairwise (· < ·)) (mode : Nat) (ignore : Bool) (h : Int)
    (hs : search cfg (layoutGroup layout) mode ignore h = .notFound) :
    expectedSearch h layout = .notFound := by
  have hno := searchLoop_notFound cfg layout g hinc ignore h _ _ (initial_inv layout h _) hs
  unfold expectedSearch
  have : layout.findSome? (afterMarker h) = none := by
    apply List.findSome?_eq_none_iff.mpr
    intro f hf
    cases ha : afterMarker h f with
    | none => rfl
    | some rest =>
      obtain ⟨idx, hp⟩ := present_of_afterMarker hf ha
      exact absurd hp (hno idx)
  rw [this]


/-! #### termination of the probing loop -/

/-- index probed next -/
def nextIndex (s : SState) : Int := roundBase s + s.idxoff

/-- potential: (width of [minVal,maxVal]) × (W+1)  +  (W+1 while still in backwards mode)
+ probes left in the current round -/
def potential (W : Int) (s : SState) : Int :=
  (W + 1) * ((s.maxVal - s.minVal + 1).toNat : Int)
  + (match s.mode with | .backwards => W + 1 | .binary => 0)
  + (if nextIndex s < s.minVal then 0 else ((s.maxVal + 1 - nextIndex s).toNat : Int))

structure TInv (W : Int) (s : SState) : Prop where
  min0 : 0 ≤ s.minVal
  maxW : s.maxVal + 1 ≤ W
  off0 : 0 ≤ s.idxoff
  bo : s.backoff ≤ 0

theorem width_step {A w w' : Int} (hA : 0 ≤ A) (h1 : 1 ≤ w) (h : w' + 1 ≤ w) :
    A * (w'.toNat : Int) + A ≤ A * (w.toNat : Int) := by
  have h2 : (w'.toNat : Int) + 1 ≤ (w.toNat : Int) := by omega
  have := Int.mul_le_mul_of_nonneg_left h2 hA
  rw [Int.mul_add, Int.mul_one] at this
  exact this

theorem width_mono {A w w' : Int} (hA : 0 ≤ A) (h : w' ≤ w) :
    A * (w'.toNat : Int) ≤ A * (w.toNat : Int) := by
  have h2 : (w'.toNat : Int) ≤ (w.toNat : Int) := by omega
  exact Int.mul_le_mul_of_nonneg_left h2 hA

/-- the probes left in a round never exceed the width of the range -/
theorem potential_le (W : Int) (s : SState) :
    potential W s ≤ (W + 1) * ((s.maxVal - s.minVal + 1).toNat : Int)
      + (match s.mode with | .backwards => W + 1 | .binary => 0)
      + ((s.maxVal - s.minVal + 1).toNat : Int) := by
  unfold potential
  split <;> omega

theorem scanFile_later_keep (cfg : Cfg) (ignore keep : Bool) (h : Int) :
    ∀ (fuel : Nat) (bs : Bytes), scanFile cfg ignore keep h fuel bs = .later → keep = false := by
  intro fuel
  induction fuel with
  | zero => intro bs hf; simp [scanFile] at hf
  | succ fuel ih =>
    intro bs hf
    unfold scanFile at hf
    split at hf
    · cases hf
    · split at hf
      · cases hf
      · split at hf
        · exact ih _ hf
        · cases hf
      · cases hf
      · exact ih _ hf
      · split at hf
        · cases hf
        · split at hf
          · cases hf
          · split at hf
            · exact ih _ hf
            · rename_i hk; simpa using hk

theorem searchLoop_terminates (cfg : Cfg) (g : Group) (ignore : Bool) (h : Int) (W : Int) (hW : 0 ≤ W) :
    ∀ (fuel : Nat) (s : SState), TInv W s → potential W s < (fuel : Int) →
      searchLoop cfg g ignore h fuel s ≠ .fuelOut := by
  intro fuel
  induction fuel with
  | zero =>
    intro s inv hp
    exfalso
    have h1 : 0 ≤ (W + 1) * ((s.maxVal - s.minVal + 1).toNat : Int) :=
      Int.mul_nonneg (by omega) (by omega)
    unfold potential at hp
    have := inv.min0; have := inv.maxW
    split at hp <;> split at hp <;> omega
  | succ fuel ih =>
    intro s inv hp
    have hmin := inv.min0; have hmaxW := inv.maxW; have hoff := inv.off0; have hbo := inv.bo
    unfold searchLoop
    dsimp only
    split
    · simp
    · rename_i hle
      have hle' : s.minVal ≤ s.maxVal := by omega
      have hA : 0 ≤ W + 1 := by omega
      have hw1 : 1 ≤ s.maxVal - s.minVal + 1 := by omega
      split
      · -- backwards
        rename_i hmode
        have hpot : potential W s = (W + 1) * ((s.maxVal - s.minVal + 1).toNat : Int) + (W + 1)
            + (if s.maxVal + s.backoff + s.idxoff < s.minVal then 0
               else ((s.maxVal + 1 - (s.maxVal + s.backoff + s.idxoff)).toNat : Int)) := by
          simp [potential, nextIndex, roundBase, hmode]
        rw [hpot] at hp
        split
        · -- ran past maxVal: new round further back
          rename_i hover
          apply ih
          · exact ⟨hmin, by dsimp only; omega, by simp, by dsimp only; split <;> omega⟩
          · have hs := width_step (w := s.maxVal - s.minVal + 1) (w' := s.maxVal + s.backoff - 1 - s.minVal + 1)
              hA hw1 (by omega)
            simp only [potential, nextIndex, roundBase, hmode]
            split at hp <;> split <;> split <;> omega
        · rename_i hnover
          split
          · simp
          · rename_i hnpanic
            have hr : (if s.maxVal + s.backoff + s.idxoff < s.minVal then (0 : Int)
                else ((s.maxVal + 1 - (s.maxVal + s.backoff + s.idxoff)).toNat : Int))
                = s.maxVal + 1 - (s.maxVal + s.backoff + s.idxoff) := by
              rw [if_neg hnpanic]; omega
            rw [hr] at hp
            split
            · -- eof: next file of the round
              apply ih
              · exact ⟨hmin, hmaxW, by dsimp only; omega, hbo⟩
              · simp only [potential, nextIndex, roundBase, hmode]
                split <;> omega
            · simp
            · simp
            · simp
            · -- earlier
              by_cases hb0 : s.backoff = 0
              · have hb0' : (s.backoff == 0) = true := by simpa using hb0
                simp only [hb0', if_true]
                have hs := width_step (w := s.maxVal - s.minVal + 1) (w' := s.maxVal - 1 - s.minVal + 1)
                  hA hw1 (by omega)
                split
                · apply ih
                  · exact ⟨hmin, by dsimp only; omega, by simp, by simp⟩
                  · have hmid : (s.minVal + (s.maxVal - 1) + 1).tdiv 2 = (s.minVal + (s.maxVal - 1) + 1) / 2 :=
                      Int.tdiv_eq_ediv_of_nonneg (by omega)
                    simp only [potential, nextIndex, roundBase, hmid]
                    split <;> omega
                · apply ih
                  · exact ⟨hmin, by dsimp only; omega, by simp, by simp⟩
                  · simp only [potential, nextIndex, roundBase, hmode]
                    split <;> omega
              · have hb0' : (s.backoff == 0) = false := by simpa using hb0
                simp only [hb0', Bool.false_eq_true, if_false]
                have hs := width_step (w := s.maxVal - s.minVal + 1) (w' := s.maxVal + s.backoff - s.minVal + 1)
                  hA hw1 (by omega)
                split
                · apply ih
                  · exact ⟨hmin, by dsimp only; omega, by simp, by simp⟩
                  · by_cases hnn : 0 ≤ s.minVal + (s.maxVal + s.backoff) + 1
                    · have hmid : (s.minVal + (s.maxVal + s.backoff) + 1).tdiv 2
                          = (s.minVal + (s.maxVal + s.backoff) + 1) / 2 := Int.tdiv_eq_ediv_of_nonneg hnn
                      simp only [potential, nextIndex, roundBase, hmid]
                      split <;> omega
                    · -- the new range is empty: the loop exits at the next turn
                      have hz : ((s.maxVal + s.backoff - s.minVal + 1).toNat : Int) = 0 := by omega
                      have hsz : 0 ≤ (W + 1) * ((s.maxVal - s.minVal + 1).toNat : Int) :=
                        Int.mul_nonneg hA (by omega)
                      have hle2 := potential_le W (SState.mk s.minVal (s.maxVal + s.backoff) Mode.binary 0 0)
                      simp only [hz, Int.mul_zero] at hle2
                      omega
                · apply ih
                  · exact ⟨hmin, by dsimp only; omega, by simp, by dsimp only; omega⟩
                  · simp only [potential, nextIndex, roundBase, hmode]
                    split <;> omega
            · -- later: binary search with the probed file as new lower end
              have hs := width_mono (A := W + 1) (w := s.maxVal - s.minVal + 1)
                (w' := s.maxVal - (s.maxVal + s.backoff + s.idxoff) + 1) hA (by omega)
              apply ih
              · exact ⟨by dsimp only; omega, hmaxW, by simp, by simp⟩
              · have hmid : ((s.maxVal + s.backoff + s.idxoff) + s.maxVal + 1).tdiv 2
                    = ((s.maxVal + s.backoff + s.idxoff) + s.maxVal + 1) / 2 :=
                  Int.tdiv_eq_ediv_of_nonneg (by omega)
                simp only [potential, nextIndex, roundBase, hmid]
                split <;> omega
      · -- binary
        rename_i hmode
        have hmid : (s.minVal + s.maxVal + 1).tdiv 2 = (s.minVal + s.maxVal + 1) / 2 :=
          Int.tdiv_eq_ediv_of_nonneg (by omega)
        have hpot : potential W s = (W + 1) * ((s.maxVal - s.minVal + 1).toNat : Int)
            + (if (s.minVal + s.maxVal + 1) / 2 + s.idxoff < s.minVal then 0
               else ((s.maxVal + 1 - ((s.minVal + s.maxVal + 1) / 2 + s.idxoff)).toNat : Int)) := by
          simp [potential, nextIndex, roundBase, hmode, hmid]
        rw [hpot] at hp
        rw [hmid]
        have hs := width_step (w := s.maxVal - s.minVal + 1)
          (w' := (s.minVal + s.maxVal + 1) / 2 - 1 - s.minVal + 1) hA hw1 (by omega)
        have hmid' : (s.minVal + ((s.minVal + s.maxVal + 1) / 2 - 1) + 1).tdiv 2
            = (s.minVal + ((s.minVal + s.maxVal + 1) / 2 - 1) + 1) / 2 :=
          Int.tdiv_eq_ediv_of_nonneg (by omega)
        split
        · rename_i hover
          apply ih
          · exact ⟨hmin, by dsimp only; omega, by simp, hbo⟩
          · simp only [potential, nextIndex, roundBase, hmode, hmid']
            split at hp <;> split <;> omega
        · rename_i hnover
          have hr : (if (s.minVal + s.maxVal + 1) / 2 + s.idxoff < s.minVal then (0 : Int)
              else ((s.maxVal + 1 - ((s.minVal + s.maxVal + 1) / 2 + s.idxoff)).toNat : Int))
              = s.maxVal + 1 - ((s.minVal + s.maxVal + 1) / 2 + s.idxoff) := by
            rw [if_neg (by omega)]; omega
          rw [hr] at hp
          split
          · apply ih
            · exact ⟨hmin, hmaxW, by dsimp only; omega, hbo⟩
            · simp only [potential, nextIndex, roundBase, hmode, hmid]
              split <;> omega
          · simp
          · simp
          · simp
          · apply ih
            · exact ⟨hmin, by dsimp only; omega, by simp, hbo⟩
            · simp only [potential, nextIndex, roundBase, hmode, hmid']
              split <;> omega
          · -- later: only when index < maxVal
            rename_i hsf
            have hk := scanFile_later_keep _ _ _ _ _ _ hsf
            have hlt : (s.minVal + s.maxVal + 1) / 2 + s.idxoff < s.maxVal := by simpa using hk
            have hs2 := width_step (w := s.maxVal - s.minVal + 1)
              (w' := s.maxVal - ((s.minVal + s.maxVal + 1) / 2 + s.idxoff) + 1) hA hw1 (by omega)
            have hmid2 : (((s.minVal + s.maxVal + 1) / 2 + s.idxoff) + s.maxVal + 1).tdiv 2
                = (((s.minVal + s.maxVal + 1) / 2 + s.idxoff) + s.maxVal + 1) / 2 :=
              Int.tdiv_eq_ediv_of_nonneg (by omega)
            apply ih
            · exact ⟨by dsimp only; omega, hmaxW, by simp, hbo⟩
            · simp only [potential, nextIndex, roundBase, hmode, hmid2]
              split <;> omega

/-- The probing loop of `SearchForHeight` terminates: the model's fuel is never exhausted,
whatever the files contain. -/
theorem search_ne_fuelOut (cfg : Cfg) (g : Group) (mode : Nat) (ignore : Bool) (h : Int) :
    search cfg g mode ignore h ≠ .fuelOut := by
  unfold search
  have hW : (0 : Int) ≤ (g.files.length : Int) + 1 := by omega
  have hmaxI : ((g.maxIndex : Nat) : Int) + 1 ≤ (g.files.length : Int) + 1 := by
    simp only [Group.maxIndex]; omega
  apply searchLoop_terminates cfg g ignore h ((g.files.length : Int) + 1) hW
  · exact ⟨by simp, hmaxI, by simp, by simp⟩
  · have hle := potential_le ((g.files.length : Int) + 1)
      (SState.mk (g.minIndex : Int) (g.maxIndex : Int) (if mode == 2 then Mode.binary else Mode.backwards) 0 0)
    dsimp only at hle ⊢
    have hwn : (((g.maxIndex : Int) - (g.minIndex : Int) + 1).toNat : Int) ≤ (g.files.length : Int) + 1 := by
      omega
    have hmul : ((g.files.length : Int) + 1 + 1) * (((g.maxIndex : Int) - (g.minIndex : Int) + 1).toNat : Int)
        ≤ ((g.files.length : Int) + 1 + 1) * ((g.files.length : Int) + 1) :=
      Int.mul_le_mul_of_nonneg_left hwn (by omega)
    have hm : (match (if mode == 2 then Mode.binary else Mode.backwards) with
        | .backwards => (g.files.length : Int) + 1 + 1 | .binary => 0) ≤ (g.files.length : Int) + 1 + 1 := by
      split
      · exact Int.le_refl _
      · have := hW; omega
    have e1 : ((g.files.length : Int) + 1 + 1) * ((g.files.length : Int) + 1)
        = (g.files.length : Int) * (g.files.length : Int) + 3 * (g.files.length : Int) + 2 := by grind
    have e2 : ((8 * (g.files.length + 4) * (g.files.length + 4) + 64 : Nat) : Int)
        = 8 * ((g.files.length : Int) * (g.files.length : Int)) + 64 * (g.files.length : Int) + 192 := by
      push_cast; grind
    have hq : 0 ≤ (g.files.length : Int) * (g.files.length : Int) := Int.mul_nonneg (by omega) (by omega)
    rw [e2]
    rw [e1] at hmul
    generalize (g.files.length : Int) * (g.files.length : Int) = q at hmul hq ⊢
    generalize ((g.files.length : Int) + 1 + 1) * (((g.maxIndex : Int) - (g.minIndex : Int) + 1).toNat : Int) = c at hmul hle
    revert hm hle
    generalize (match (if mode == 2 then Mode.binary else Mode.backwards) with
        | .backwards => (g.files.length : Int) + 1 + 1 | .binary => 0) = d
    intro hm hle
    omega

/-- once in binary mode the loop cannot reach the `panic("should not happen")` -/
theorem searchLoop_binary_no_panic (cfg : Cfg) (g : Group) (ignore : Bool) (h : Int) :
    ∀ (fuel : Nat) (s : SState), s.mode = .binary → searchLoop cfg g ignore h fuel s ≠ .panicked := by
  intro fuel
  induction fuel with
  | zero => intro s _; simp [searchLoop]
  | succ fuel ih =>
    intro s hm
    unfold searchLoop
    dsimp only
    split
    · simp
    · split
      · rename_i hb; rw [hm] at hb; cases hb
      · split
        · exact ih _ hm
        · split
          · exact ih _ hm
          · simp
          · simp
          · simp
          · exact ih _ hm
          · exact ih _ hm

theorem search_binary_no_panic (cfg : Cfg) (g : Group) (ignore : Bool) (h : Int) :
    search cfg g 2 ignore h ≠ .panicked := by
  unfold search
  exact searchLoop_binary_no_panic cfg g ignore h _ _ rfl


end GnoVerif.C38
