/- Helper lemmas for C48: uvarint round trip and the compact binary encoding. -/
import GnoVerif.Proofs.C48Compact
namespace GnoVerif.C48

theorem putUvarint_lt (x : Nat) (h : x < 0x80) : putUvarint x = [BitVec.ofNat 8 x] := by
  rw [putUvarint]; simp [h]

theorem putUvarint_ge (x : Nat) (h : ¬ x < 0x80) :
    putUvarint x = BitVec.ofNat 8 (x % 128 + 128) :: putUvarint (x / 128) := by
  rw [putUvarint]; simp [h]

theorem putUvarint_length_pos (x : Nat) : 0 < (putUvarint x).length := by
  by_cases h : x < 0x80
  · rw [putUvarint_lt x h]; simp
  · rw [putUvarint_ge x h]; simp

/-- or-ing a 7-bit (or smaller) group above the accumulated low bits is addition -/
theorem toNat_or_shl (acc : Word) (y : Byte) (s : Nat) (hacc : acc.toNat < 2 ^ s)
    (hfit : acc.toNat + y.toNat * 2 ^ s < 2 ^ 64) :
    (acc ||| ((y.setWidth 64) <<< s)).toNat = acc.toNat + y.toNat * 2 ^ s := by
  rw [BitVec.toNat_or, BitVec.toNat_shiftLeft, BitVec.toNat_setWidth_of_le (by omega),
    Nat.shiftLeft_eq, Nat.mod_eq_of_lt (by omega), Nat.or_comm, ← Nat.shiftLeft_eq,
    ← Nat.shiftLeft_add_eq_or_of_lt hacc, Nat.shiftLeft_eq]
  omega

theorem uvarintLoop_put : ∀ (x : Nat) (i : Nat) (acc : Word) (s : Nat) (rest : List Byte),
    s = 7 * i → (1 ≤ x ∨ i = 0) → acc.toNat < 2 ^ s → acc.toNat + x * 2 ^ s < 2 ^ 64 →
    uvarintLoop (putUvarint x ++ rest) i acc s =
      (BitVec.ofNat 64 (acc.toNat + x * 2 ^ s), (i : Int) + ((putUvarint x).length : Int)) := by
  intro x
  induction x using Nat.strongRecOn with
  | _ x ih =>
    intro i acc s rest hs hx hacc htot
    have hp : 0 < 2 ^ s := Nat.two_pow_pos s
    have hi9 : i ≤ 9 := by
      rcases hx with hx | hx
      · have h1 : 2 ^ s ≤ x * 2 ^ s := Nat.le_mul_of_pos_left _ hx
        have h2 : 2 ^ s < 2 ^ 64 := by omega
        have h3 : s < 64 := (Nat.pow_lt_pow_iff_right (by omega)).1 h2
        omega
      · omega
    by_cases hlt : x < 0x80
    · rw [putUvarint_lt x hlt]
      have hb : (BitVec.ofNat 8 x).toNat = x := by rw [BitVec.toNat_ofNat]; omega
      simp only [List.cons_append, List.nil_append, uvarintLoop, hb]
      rw [if_neg (by omega), if_pos hlt]
      have h9 : ¬ (i = 9 ∧ x > 1) := by
        rintro ⟨h9, hx1⟩
        subst h9
        subst hs
        have : x * 2 ^ 63 < 2 ^ 64 := by omega
        omega
      rw [if_neg h9]
      congr 1
      · apply BitVec.eq_of_toNat_eq
        rw [toNat_or_shl _ _ _ hacc (by rw [hb]; exact htot), hb, BitVec.toNat_ofNat,
          Nat.mod_eq_of_lt htot]
    · rw [putUvarint_ge x hlt]
      have hb : (BitVec.ofNat 8 (x % 128 + 128)).toNat = x % 128 + 128 := by
        rw [BitVec.toNat_ofNat]; omega
      simp only [List.cons_append, uvarintLoop, hb]
      have hx128 : 128 ≤ x := by omega
      have hmul : x * 2 ^ s = (x / 128) * 2 ^ (s + 7) + (x % 128) * 2 ^ s := by
        rw [Nat.pow_add]
        generalize 2 ^ s = p
        have h1 : x = 128 * (x / 128) + x % 128 := (Nat.div_add_mod x 128).symm
        calc x * p = (128 * (x / 128) + x % 128) * p := by rw [← h1]
          _ = x / 128 * (p * 2 ^ 7) + x % 128 * p := by
            rw [Nat.add_mul]; congr 1
            rw [show (2 : Nat) ^ 7 = 128 from rfl]
            ac_rfl
      have hi8 : i ≤ 8 := by
        have h1 : 128 * 2 ^ s ≤ x * 2 ^ s := Nat.mul_le_mul_right _ hx128
        have h2 : 2 ^ (s + 7) < 2 ^ 64 := by
          rw [Nat.pow_add, show (2 : Nat) ^ 7 = 128 from rfl]; omega
        have h3 : s + 7 < 64 := (Nat.pow_lt_pow_iff_right (by omega)).1 h2
        omega
      rw [if_neg (by omega), if_neg (by omega)]
      have hand : (BitVec.ofNat 8 (x % 128 + 128) &&& 0x7f).toNat = x % 128 := by
        rw [BitVec.toNat_and, hb]
        have : (0x7f : Byte).toNat = 2 ^ 7 - 1 := rfl
        rw [this, Nat.and_two_pow_sub_one_eq_mod]
        omega
      have hlow : (x % 128) * 2 ^ s ≤ x * 2 ^ s := Nat.mul_le_mul_right _ (Nat.mod_le _ _)
      have hacc' := toNat_or_shl acc (BitVec.ofNat 8 (x % 128 + 128) &&& 0x7f) s hacc
        (by rw [hand]; omega)
      rw [hand] at hacc'
      have hpow : 2 ^ (s + 7) = 128 * 2 ^ s := by
        rw [Nat.pow_add, show (2 : Nat) ^ 7 = 128 from rfl, Nat.mul_comm]
      have hm : (x % 128) * 2 ^ s ≤ 127 * 2 ^ s := Nat.mul_le_mul_right _ (by omega)
      rw [ih (x / 128) (by omega) (i + 1) _ (s + 7) rest (by omega) (Or.inl (by omega))
        (by rw [hacc', hpow]; omega) (by rw [hacc']; omega)]
      congr 1
      · rw [hacc']
        congr 1
        omega
      · simp only [List.length_cons]
        omega

theorem uvarint_put (x : Nat) (hx : x < 2 ^ 64) (rest : List Byte) :
    uvarint (putUvarint x ++ rest) = (BitVec.ofNat 64 x, ((putUvarint x).length : Int)) := by
  unfold uvarint
  rw [uvarintLoop_put x 0 0 0 rest rfl (Or.inr rfl) (by simp) (by simpa using hx)]
  simp

/-- CompactMarshal of an array with a positive size is uvarint(size) ++ Elems, and
CompactUnmarshal gives the array back -/
theorem compact_roundtrip_pos (c : CBA) (h : c.WF) (hpos : 0 < c.size)
    (hfit : c.size + 7 < 2 ^ 63) :
    compactUnmarshal (compactMarshal (some c)) = .ok (some c) := by
  obtain ⟨n, hn⟩ : ∃ n : Nat, c.size = (n : Int) := ⟨c.size.toNat, by omega⟩
  obtain ⟨he, hl⟩ := h.shape n hn
  have hn0 : 0 < n := by omega
  have hlen1 : 1 ≤ c.elems.length := by omega
  have hput := putUvarint_length_pos n
  have hm : compactMarshal (some c) = putUvarint n ++ c.elems := by
    simp only [compactMarshal, csize, show ¬ c.size ≤ 0 by omega, if_false]
    rw [hn, Int.toNat_natCast]
  rw [hm]
  unfold compactUnmarshal
  rw [if_neg (by rw [List.length_append]; omega)]
  have hnull : putUvarint n ++ c.elems ≠ nullBytes := by
    intro hEq
    by_cases hlt : n < 0x80
    · rw [putUvarint_lt n hlt] at hEq
      unfold nullBytes at hEq
      simp only [List.cons_append, List.nil_append] at hEq
      injection hEq with h1 h2
      have h1' := congrArg BitVec.toNat h1
      rw [BitVec.toNat_ofNat, Nat.mod_eq_of_lt (by omega)] at h1'
      have h2' := congrArg List.length h2
      simp only [List.length_cons, List.length_nil] at h2'
      have : n = 110 := h1'
      omega
    · rw [putUvarint_ge n hlt] at hEq
      unfold nullBytes at hEq
      simp only [List.cons_append] at hEq
      injection hEq with h1 _
      have h1' := congrArg BitVec.toNat h1
      rw [BitVec.toNat_ofNat, Nat.mod_eq_of_lt (by omega)] at h1'
      have : n % 128 + 128 = 110 := h1'
      omega
  rw [if_neg hnull, uvarint_put n (by omega) c.elems]
  simp only
  rw [if_neg (by omega), Int.toNat_natCast, List.drop_left]
  have hs7 : (BitVec.ofNat 64 n + 7 : Word).toInt = ((n + 7 : Nat) : Int) := by
    have ht : (BitVec.ofNat 64 n + 7 : Word).toNat = n + 7 := by
      have h7 : BitVec.toNat (7 : Word) = 7 := rfl
      rw [BitVec.toNat_add, BitVec.toNat_ofNat, h7, Nat.mod_eq_of_lt (show n < 2 ^ 64 by omega),
        Nat.mod_eq_of_lt (by omega)]
    rw [BitVec.toInt_eq_toNat_of_lt (by rw [ht]; omega), ht]
  rw [hs7, Int.natCast_tdiv_eq_ediv]
  rw [if_neg (by
    intro hne
    apply hne
    rw [hl]
    omega)]
  congr 2
  cases c with | mk ce cl =>
  simp only at he ⊢
  congr 1
  apply BitVec.eq_of_toNat_eq
  rw [BitVec.toNat_setWidth, BitVec.toNat_umod, BitVec.toNat_ofNat, he,
    Nat.mod_eq_of_lt (show n < 2 ^ 64 by omega)]
  have : BitVec.toNat (8 : Word) = 8 := rfl
  rw [this]
  omega

end GnoVerif.C48
