import GnoVerif.Model.C51
/-! Helper lemmas for C51: a call that returns one of the package's ERRORS leaves
    the ledger untouched — on EVERY ledger (no invariant, no int64 assumption):
    all error returns precede all writes.  Core only. -/
namespace GnoVerif.C51
set_option linter.unusedVariables false
set_option linter.unusedSimpArgs false

theorem spend_err {L : Ledger} {o s : Addr} {n : Int} {e : Err}
    (h : (spendAllowance L o s n).2 = .err e) : (spendAllowance L o s n).1 = L := by
  simp only [spendAllowance] at h ⊢
  repeat' split
  all_goals first | rfl | simp_all

theorem spend_ok_bal {L L1 : Ledger} {o s : Addr} {n : Int}
    (h : spendAllowance L o s n = (L1, .ok)) : L1.balances = L.balances ∧ L1.totalSupply = L.totalSupply := by
  simp only [spendAllowance] at h
  repeat' split at h
  all_goals simp_all
  all_goals (subst h; exact ⟨rfl, rfl⟩)

theorem transfer_err {L : Ledger} {f t : Addr} {n : Int} {e : Err}
    (h : (transfer L f t n).2 = .err e) : (transfer L f t n).1 = L := by
  simp only [transfer] at h ⊢
  repeat' split
  all_goals first | rfl | simp_all

theorem mint_err {L : Ledger} {a : Addr} {n : Int} {e : Err}
    (h : (mint L a n).2 = .err e) : (mint L a n).1 = L := by
  simp only [mint] at h ⊢
  repeat' split
  all_goals first | rfl | simp_all

theorem burn_err {L : Ledger} {a : Addr} {n : Int} {e : Err}
    (h : (burn L a n).2 = .err e) : (burn L a n).1 = L := by
  simp only [burn] at h ⊢
  repeat' split
  all_goals first | rfl | simp_all

theorem approve_err {L : Ledger} {o s : Addr} {n : Int} {e : Err}
    (h : (approve L o s n).2 = .err e) : (approve L o s n).1 = L := by
  simp only [approve] at h ⊢
  repeat' split
  all_goals first | rfl | simp_all

theorem transferFrom_err {L : Ledger} {o s t : Addr} {n : Int} {e : Err}
    (h : (transferFrom L o s t n).2 = .err e) : (transferFrom L o s t n).1 = L := by
  simp only [transferFrom] at h ⊢
  split
  · rfl
  · split
    · rfl
    · split
      · rfl
      · split
        · rfl
        · rename_i h1 h2 h3 h4
          simp only [h1, h2, h3, h4, ite_false] at h
          -- the allowance was (possibly) spent: then Transfer's own checks all pass again
          cases hsp : spendAllowance L o s n with
          | mk L1 r =>
            cases r with
            | ok =>
              obtain ⟨hb, _⟩ := spend_ok_bal hsp
              simp only [hsp] at h ⊢
              have hbo : balanceOf L1 o = balanceOf L o := by unfold balanceOf; rw [hb]
              exfalso
              simp only [transfer] at h
              simp only [Bool.or_eq_true, Bool.not_eq_true', not_or, Bool.not_eq_false] at h2
              simp only [h2.1, h2.2, h3, hbo, h4, h1, Bool.not_true, ite_false, Bool.false_eq_true] at h
              repeat' split at h
              all_goals simp at h
            | err e' =>
              have := spend_err (L := L) (o := o) (s := s) (n := n) (e := e') (by rw [hsp])
              rw [hsp] at this
              simp only [hsp]
              exact this
            | panic =>
              simp only [hsp] at h
              simp at h

/-- every call that returns an error leaves the ledger as it was — on every ledger -/
theorem step_err {L : Ledger} {op : Op} {e : Err} (h : (step L op).2 = .err e) : (step L op).1 = L := by
  cases op with
  | mint a n => exact mint_err h
  | burn a n => exact burn_err h
  | transfer f t n => exact transfer_err h
  | approve o s n => exact approve_err h
  | transferFrom o s t n => exact transferFrom_err h
  | spendAllowance o s n => exact spend_err h

end GnoVerif.C51
