import GnoVerif.Proofs.C06Finalize
/-!
C06 — processNewCreatedMarks leaves no object without id that is still referenced:
the strong post-condition of incRefCreatedDescendants (with enough fuel the start
object gets its id, and no NEW "unreal but referenced" object appears), the loop
over `newCreated`, and the closure property `Closed` that decRef needs.
-/
namespace GnoVerif.C06
open State

/-! ### counting unreal objects (the fuel measure) -/

def unrealN (s : State) : Int := sumTo s.heap.length fun p => if s.isReal p then 0 else 1

theorem sumTo_le (n : Nat) (f : Nat → Int) (h : ∀ i, i < n → f i ≤ 1) : sumTo n f ≤ n := by
  induction n with
  | zero => simp [sumTo]
  | succ n ih =>
    rw [sumTo_succ]
    have := ih (fun i hi => h i (Nat.lt_succ_of_lt hi))
    have := h n (Nat.lt_succ_self n)
    omega

theorem unrealN_le (s : State) : unrealN s ≤ s.heap.length := by
  apply sumTo_le
  intro i _
  split <;> omega

theorem unrealN_congr (s s' : State) (hl : s'.heap.length = s.heap.length) (h : ∀ x, s'.isReal x = s.isReal x) :
    unrealN s' = unrealN s := by
  unfold unrealN
  rw [hl]
  exact sumTo_congr _ _ _ (fun i _ => by rw [h i])

theorem SameCore.unrealN {s s' : State} (h : SameCore s s') : unrealN s' = unrealN s :=
  unrealN_congr s s' h.1 h.isReal

theorem isReal_assignId (s : State) (a x : Nat) (ha : a < s.heap.length) :
    (assignId s a).isReal x = (if x = a then true else s.isReal x) := by
  unfold State.isReal
  rw [get_assignId]
  by_cases hx : x = a
  · subst hx; simp [ha]
  · simp [hx]

theorem unrealN_assignId (s : State) (a : Nat) (ha : a < s.heap.length) (hu : s.isReal a = false) :
    unrealN (assignId s a) = unrealN s - 1 := by
  unfold unrealN
  rw [length_assignId]
  rw [sumTo_update s.heap.length (fun p => if s.isReal p then 0 else 1)
    (fun p => if (assignId s a).isReal p then 0 else 1) a ha
    (fun i _ hne => by rw [isReal_assignId s a i ha]; simp [hne])]
  rw [isReal_assignId s a a ha]
  simp [hu]

/-! ### no new "unreal but referenced" object -/

/-- realness only grows, and an object that is unreal and referenced afterwards was so before -/
def NoNew (s s' : State) : Prop :=
  (∀ x, s.isReal x = true → s'.isReal x = true) ∧
  (∀ x, s'.isReal x = false → (s'.get x).rc ≥ 1 → s.isReal x = false ∧ (s.get x).rc ≥ 1)

theorem NoNew.refl (s : State) : NoNew s s := ⟨fun _ h => h, fun _ h1 h2 => ⟨h1, h2⟩⟩

theorem NoNew.trans {s1 s2 s3 : State} (h1 : NoNew s1 s2) (h2 : NoNew s2 s3) : NoNew s1 s3 :=
  ⟨fun x h => h2.1 x (h1.1 x h), fun x hu hr => by
    obtain ⟨a, b⟩ := h2.2 x hu hr
    exact h1.2 x a b⟩

theorem SameCore.rc {s s' : State} (h : SameCore s s') (x : Nat) : (s'.get x).rc = (s.get x).rc :=
  congrArg Core.rc (h.2 x)

theorem SameCore.noNew {s s' : State} (h : SameCore s s') : NoNew s s' := by
  refine ⟨fun x hx => by rw [h.isReal]; exact hx, fun x hu hr => ?_⟩
  rw [h.isReal] at hu
  have : (s'.get x).rc = (s.get x).rc := congrArg Core.rc (h.2 x)
  rw [this] at hr
  exact ⟨hu, hr⟩

/-- what the strong crawl lemma delivers -/
structure Strong (s s' : State) (a : Nat) : Prop where
  len : s'.heap.length = s.heap.length
  wf : WF s'
  noNew : NoNew s s'
  real : s'.isReal a = true
  mono : unrealN s' ≤ unrealN s

/-- the same without a designated object -/
structure StrongF (s s' : State) : Prop where
  len : s'.heap.length = s.heap.length
  wf : WF s'
  noNew : NoNew s s'
  mono : unrealN s' ≤ unrealN s

theorem get_incRc (s : State) (c x : Nat) :
    (incRc s c).get x = if x = c ∧ c < s.heap.length then { s.get c with rc := (s.get c).rc + 1 } else s.get x :=
  get_modify s c x fun o => { o with rc := o.rc + 1 }

theorem isReal_incRc (s : State) (c x : Nat) : (incRc s c).isReal x = s.isReal x :=
  isReal_modify_rc s c (· + 1) x

theorem incRefChild_strong (fuel : Nat) (recur : State → Nat → State) (r a : Nat)
    (hrec : ∀ s c, WF s → c < s.heap.length → unrealN s < fuel → Strong s (recur s c) c)
    (s : State) (c : Nat) (hw : WF s) (hc : c < s.heap.length) (hf : unrealN s < fuel) :
    StrongF s (incRefChild recur r a s c) := by
  have hw1 : WF (incRc s c) := wf_modify_rc s c (· + 1) hw
  have hl1 : (incRc s c).heap.length = s.heap.length := length_modify _ _ _
  have hu1 : unrealN (incRc s c) = unrealN s := unrealN_congr _ _ hl1 (isReal_incRc s c)
  have hrc1 : ((incRc s c).get c).rc = (s.get c).rc + 1 := by rw [get_incRc]; simp [hc]
  have hother : ∀ x, x ≠ c → (incRc s c).get x = s.get x := fun x hx => by rw [get_incRc]; simp [hx]
  unfold incRefChild
  simp only []
  split
  · rename_i hrc
    rw [hrc1] at hrc
    split
    · -- rc = 1, c real
      rename_i hreal
      have sc : SameCore (incRc s c) (markDirty (setOwner (incRc s c) c (some a)) r c) :=
        (sameCore_setOwner _ _ _).trans (sameCore_markDirty _ _ _)
      refine ⟨sc.1.trans hl1, sc.wf hw1, ?_, by rw [sc.unrealN, hu1]; exact Int.le_refl _⟩
      refine ⟨fun x hx => by rw [sc.isReal, isReal_incRc]; exact hx, fun x hu hr => ?_⟩
      rw [sc.isReal, isReal_incRc] at hu
      have hxc : x ≠ c := by
        intro e; subst e
        rw [isReal_incRc] at hreal
        rw [hreal] at hu; exact absurd hu (by decide)
      have e : ((markDirty (setOwner (incRc s c) c (some a)) r c).get x).rc = (s.get x).rc := by
        rw [sc.rc x, hother x hxc]
      rw [e] at hr
      exact ⟨hu, hr⟩
    · -- rc = 1, c unreal: the recursive call gives it an id
      rename_i hreal
      have sc : SameCore (incRc s c) ((setOwner (incRc s c) c (some a)).modify c fun o => { o with newReal := true }) :=
        (sameCore_setOwner _ _ _).trans (sameCore_modify _ _ _ (by intro o; rfl))
      generalize hs2 : ((setOwner (incRc s c) c (some a)).modify c fun o => { o with newReal := true }) = s2 at sc ⊢
      have h2 := hrec s2 c (sc.wf hw1) (by rw [sc.1, hl1]; exact hc) (by rw [sc.unrealN, hu1]; exact hf)
      refine ⟨h2.len.trans (sc.1.trans hl1), h2.wf, ?_, by
        have := h2.mono; rw [sc.unrealN, hu1] at this; exact this⟩
      refine ⟨fun x hx => h2.noNew.1 x (by rw [sc.isReal, isReal_incRc]; exact hx), fun x hu hr => ?_⟩
      have hxc : x ≠ c := by
        intro e; subst e
        rw [h2.real] at hu; exact absurd hu (by decide)
      obtain ⟨hu2, hr2⟩ := h2.noNew.2 x hu hr
      rw [sc.isReal, isReal_incRc] at hu2
      have e : (s2.get x).rc = (s.get x).rc := by
        rw [sc.rc x, hother x hxc]
      rw [e] at hr2
      exact ⟨hu2, hr2⟩
  · rename_i hrc
    rw [hrc1] at hrc
    split
    · -- rc > 1: the child was referenced before
      rename_i hgt
      rw [hrc1] at hgt
      have sc : ∃ s3, s3 = (if ((markDirty (incRc s c) r c).get c).escaped = true then markDirty (incRc s c) r c
          else markNewEscaped (markDirty (incRc s c) r c) r c) ∧ SameCore (incRc s c) s3 := by
        refine ⟨_, rfl, ?_⟩
        split
        · exact sameCore_markDirty _ _ _
        · exact (sameCore_markDirty _ _ _).trans (sameCore_markNewEscaped _ _ _)
      obtain ⟨s3, hs3, sc⟩ := sc
      rw [← hs3]
      refine ⟨sc.1.trans hl1, sc.wf hw1, ?_, by rw [sc.unrealN, hu1]; exact Int.le_refl _⟩
      refine ⟨fun x hx => by rw [sc.isReal, isReal_incRc]; exact hx, fun x hu hr => ?_⟩
      rw [sc.isReal, isReal_incRc] at hu
      rw [sc.rc x] at hr
      by_cases hxc : x = c
      · subst hxc; exact ⟨hu, by omega⟩
      · rw [hother x hxc] at hr; exact ⟨hu, hr⟩
    · -- rc ≤ 0 after the increment: the Go code panics
      rename_i hle
      rw [hrc1] at hle
      have sc := sameCore_fail (incRc s c)
      refine ⟨hl1, sc.wf hw1, ?_, by rw [sc.unrealN, hu1]; exact Int.le_refl _⟩
      refine ⟨fun x hx => by rw [sc.isReal, isReal_incRc]; exact hx, fun x hu hr => ?_⟩
      rw [sc.isReal, isReal_incRc] at hu
      rw [sc.rc x] at hr
      by_cases hxc : x = c
      · subst hxc; rw [hrc1] at hr; omega
      · rw [hother x hxc] at hr; exact ⟨hu, hr⟩

theorem StrongF.trans {s1 s2 s3 : State} (h1 : StrongF s1 s2) (h2 : StrongF s2 s3) : StrongF s1 s3 :=
  ⟨h2.len.trans h1.len, h2.wf, h1.noNew.trans h2.noNew, Int.le_trans h2.mono h1.mono⟩

theorem incRef_fold_strong (fuel : Nat) (recur : State → Nat → State) (r a : Nat)
    (hrec : ∀ s c, WF s → c < s.heap.length → unrealN s < fuel → Strong s (recur s c) c) :
    ∀ (cs : List Nat) (s : State), WF s → (∀ c ∈ cs, c < s.heap.length) → unrealN s < fuel →
      StrongF s (cs.foldl (incRefChild recur r a) s) := by
  intro cs
  induction cs with
  | nil => intro s hw _ _; exact ⟨rfl, hw, NoNew.refl s, Int.le_refl _⟩
  | cons c cs ih =>
    intro s hw hin hf
    simp only [List.foldl_cons]
    have h1 := incRefChild_strong fuel recur r a hrec s c hw (hin c List.mem_cons_self) hf
    have h2 := ih _ h1.wf (fun c' hc' => by rw [h1.len]; exact hin c' (List.mem_cons_of_mem _ hc'))
      (Int.lt_of_le_of_lt h1.mono hf)
    exact h1.trans h2

theorem incRef_succ (fuel : Nat) (s : State) (r a : Nat) :
    incRef (fuel + 1) s r a =
      if s.isReal a then s
      else
        (((assignId s a).modMarks r fun m => { m with created := m.created ++ [a] }).children a).foldl
          (incRefChild (fun s c => incRef fuel s r c) r a)
          ((assignId s a).modMarks r fun m => { m with created := m.created ++ [a] }) := rfl

/-- with more fuel than there are unreal objects, the crawl gives its start object an id and
    creates no new "unreal but referenced" object -/
theorem incRef_strong : ∀ (fuel r : Nat) (s : State) (a : Nat), WF s → a < s.heap.length → unrealN s < fuel →
    Strong s (incRef fuel s r a) a := by
  intro fuel
  induction fuel with
  | zero =>
    intro r s a _ _ hf
    have : (0 : Int) ≤ unrealN s := by
      unfold unrealN
      have : ∀ n (f : Nat → Int), (∀ i, 0 ≤ f i) → 0 ≤ sumTo n f := by
        intro n f hf
        induction n with
        | zero => simp [sumTo]
        | succ n ih => rw [sumTo_succ]; have := hf n; omega
      exact this _ _ (fun i => by split <;> omega)
    omega
  | succ fuel ih =>
    intro r s a hw ha hf
    rw [incRef_succ]
    split
    · rename_i hreal
      exact ⟨rfl, hw, NoNew.refl s, hreal, Int.le_refl _⟩
    · rename_i hreal
      have hu : s.isReal a = false := by simpa using hreal
      have w1 := wf_assignId s a hw
      have sc := sameCore_modMarks (assignId s a) r fun m => { m with created := m.created ++ [a] }
      generalize hs1 : ((assignId s a).modMarks r fun m => { m with created := m.created ++ [a] }) = s1 at sc ⊢
      have hl1 : s1.heap.length = s.heap.length := sc.1.trans (length_assignId s a)
      have hu1 : unrealN s1 = unrealN s - 1 := by rw [sc.unrealN, unrealN_assignId s a ha hu]
      have hreal1 : ∀ x, s1.isReal x = (if x = a then true else s.isReal x) := by
        intro x; rw [sc.isReal, isReal_assignId s a x ha]
      have hrc1 : ∀ x, (s1.get x).rc = (s.get x).rc := by
        intro x
        rw [sc.rc x, get_assignId]
        split
        · rename_i h; rw [h.1]
        · rfl
      have hfold := incRef_fold_strong fuel (fun s c => incRef fuel s r c) r a
        (fun s c hw hc hf => ih r s c hw hc hf) (s1.children a) s1 (sc.wf w1)
        (fun c hc => (sc.wf w1).kids_in_range a (by rw [hl1]; exact ha) c hc) (by rw [hu1]; omega)
      refine ⟨hfold.len.trans hl1, hfold.wf, ?_, ?_, by have := hfold.mono; rw [hu1] at this; omega⟩
      · refine ⟨fun x hx => hfold.noNew.1 x (by rw [hreal1]; split <;> simp_all), fun x hu' hr' => ?_⟩
        obtain ⟨h1, h2⟩ := hfold.noNew.2 x hu' hr'
        rw [hreal1] at h1
        rw [hrc1] at h2
        by_cases hxa : x = a
        · simp [hxa] at h1
        · simp only [hxa, if_false] at h1
          exact ⟨h1, h2⟩
      · exact hfold.noNew.1 a (by rw [hreal1]; simp)

/-! ### the loop over `newCreated` -/

/-- no object without id is referenced -/
def NUR (s : State) : Prop := ∀ x, s.isReal x = false → (s.get x).rc ≤ 0

theorem processNewCreated_strong (r : Nat) :
    ∀ (l : List Nat) (s : State), WF s → (∀ a ∈ l, a < s.heap.length) →
      (∀ x, s.isReal x = false → (s.get x).rc ≥ 1 → x ∈ l) →
      let s' := l.foldl (fun s a => if (s.get a).rc = 0 then s else incRef s.fuelFor s r a) s
      NUR s' ∧ (∀ x, s.isReal x = true → s'.isReal x = true) ∧ s'.heap.length = s.heap.length := by
  intro l
  induction l with
  | nil =>
    intro s _ _ hj
    refine ⟨fun x hu => ?_, fun _ h => h, rfl⟩
    apply Classical.byContradiction
    intro hn
    have h0 : 0 < (s.get x).rc := Int.not_le.1 hn
    have : (s.get x).rc ≥ 1 := by omega
    exact absurd (hj x hu this) (by simp)
  | cons a l ih =>
    intro s hw hin hj
    simp only [List.foldl_cons]
    by_cases hz : (s.get a).rc = 0
    · rw [if_pos hz]
      apply ih s hw (fun x hx => hin x (List.mem_cons_of_mem _ hx))
      intro x hu hr
      rcases List.mem_cons.1 (hj x hu hr) with e | e
      · subst e; omega
      · exact e
    · rw [if_neg hz]
      have ha := hin a List.mem_cons_self
      have hs := incRef_strong s.fuelFor r s a hw ha (by
        have := unrealN_le s
        show unrealN s < ((s.heap.length + 2 : Nat) : Int)
        omega)
      obtain ⟨h1, h2, h3⟩ := ih (incRef s.fuelFor s r a) hs.wf
        (fun x hx => by rw [hs.len]; exact hin x (List.mem_cons_of_mem _ hx))
        (fun x hu hr => by
          obtain ⟨hu0, hr0⟩ := hs.noNew.2 x hu hr
          rcases List.mem_cons.1 (hj x hu0 hr0) with e | e
          · subst e; rw [hs.real] at hu; exact absurd hu (by decide)
          · exact e)
      exact ⟨h1, fun x hx => h2 x (hs.noNew.1 x hx), h3.trans hs.len⟩

/-! ### closure -/

theorem sumTo_nonneg (n : Nat) (f : Nat → Int) (h : ∀ i, 0 ≤ f i) : 0 ≤ sumTo n f := by
  induction n with
  | zero => simp [sumTo]
  | succ n ih => rw [sumTo_succ]; have := h n; omega

theorem sumTo_ge_term (n : Nat) (f : Nat → Int) (h : ∀ i, 0 ≤ f i) (p : Nat) (hp : p < n) : f p ≤ sumTo n f := by
  induction n with
  | zero => omega
  | succ n ih =>
    rw [sumTo_succ]
    by_cases hpn : p = n
    · subst hpn; have := sumTo_nonneg p f h; omega
    · have := ih (by omega); have := h n; omega

theorem contrib_nonneg (o : Obj) (a : Nat) : 0 ≤ contrib o a := by
  unfold contrib; split <;> omega

theorem pinned_nonneg (o : Obj) : 0 ≤ pinned o := by
  unfold pinned; split <;> omega

/-- exact counts + nothing unreal is referenced ⇒ slots of counted objects point to real objects -/
theorem closed_of_nur (s : State) (hr : RCI s fun _ => 0) (hw : WF s) (hn : NUR s) : Closed s := by
  intro p hp hcnt c hmem
  apply Classical.byContradiction
  intro hreal
  have hu : s.isReal c = false := by simpa using hreal
  have hc : c < s.heap.length := hw.kids_in_range p hp c hmem
  have h1 : (s.get c).rc + 0 = refs s c + pinned (s.get c) := hr c hc
  have h2 : (1 : Int) ≤ contrib (s.get p) c := by
    simp only [contrib, hcnt, if_true]
    rw [count_children]
    have : 0 < (s.children p).count c := List.count_pos_iff.2 hmem
    omega
  have h3 : contrib (s.get p) c ≤ refs s c :=
    sumTo_ge_term s.heap.length (fun q => contrib (s.get q) c) (fun q => contrib_nonneg _ _) p hp
  have h4 := pinned_nonneg (s.get c)
  have h5 := hn c hu
  omega

/-! ### properties that the creating crawl cannot disturb -/

/-- `P` survives every primitive step that incRefCreatedDescendants is made of -/
structure Stable (P : State → Prop) (r : Nat) : Prop where
  modify : ∀ s a f, P s → P (s.modify a f)
  created : ∀ s a, P s → P (s.modMarks r fun m => { m with created := m.created ++ [a] })
  updated : ∀ s a, P s → P (s.modMarks r fun m => { m with updated := m.updated ++ [a] })
  newEscaped : ∀ s a, P s → P (s.modMarks r fun m => { m with newEscaped := m.newEscaped ++ [a] })
  fail : ∀ s, P s → P s.fail
  time : ∀ s t, P s → P { s with time := t }

theorem Stable.markDirty {P : State → Prop} {r : Nat} (h : Stable P r) (s : State) (a : Nat) (hp : P s) :
    P (markDirty s r a) := by
  unfold GnoVerif.C06.markDirty
  split
  · exact hp
  · split
    · exact hp
    · exact h.updated _ a (h.modify s a _ hp)

theorem Stable.markNewEscaped {P : State → Prop} {r : Nat} (h : Stable P r) (s : State) (a : Nat) (hp : P s) :
    P (markNewEscaped s r a) := by
  unfold GnoVerif.C06.markNewEscaped
  split
  · exact hp
  · exact h.newEscaped _ a (h.modify s a _ hp)

theorem Stable.assignId {P : State → Prop} {r : Nat} (h : Stable P r) (s : State) (a : Nat) (hp : P s) :
    P (assignId s a) := by
  unfold GnoVerif.C06.assignId
  exact h.time _ _ (h.modify s a _ hp)

theorem Stable.incRefChild {P : State → Prop} {r : Nat} (h : Stable P r) (recur : State → Nat → State)
    (hrec : ∀ s c, P s → P (recur s c)) (a : Nat) (s : State) (c : Nat) (hp : P s) :
    P (incRefChild recur r a s c) := by
  have h1 : P (incRc s c) := h.modify s c _ hp
  unfold GnoVerif.C06.incRefChild
  simp only []
  split
  · split
    · exact h.markDirty _ c (h.modify _ c _ h1)
    · exact hrec _ c (h.modify _ c _ (h.modify _ c _ h1))
  · split
    · split
      · exact h.markDirty _ c h1
      · exact h.markNewEscaped _ c (h.markDirty _ c h1)
    · exact h.fail _ h1

theorem Stable.fold {P : State → Prop} {α : Type} (f : State → α → State) (hf : ∀ s x, P s → P (f s x)) :
    ∀ (l : List α) (s : State), P s → P (l.foldl f s) := by
  intro l
  induction l with
  | nil => intro s hp; exact hp
  | cons x xs ih => intro s hp; exact ih _ (hf s x hp)

theorem Stable.incRef {P : State → Prop} {r : Nat} (h : Stable P r) :
    ∀ (fuel : Nat) (s : State) (a : Nat), P s → P (incRef fuel s r a) := by
  intro fuel
  induction fuel with
  | zero => intro s a hp; exact h.fail s hp
  | succ fuel ih =>
    intro s a hp
    rw [incRef_succ]
    split
    · exact hp
    · exact Stable.fold _ (fun s c hp => h.incRefChild _ (fun s c hp => ih s c hp) a s c hp) _ _
        (h.created _ a (h.assignId s a hp))

theorem Stable.processNewCreated {P : State → Prop} {r : Nat} (h : Stable P r) (s : State) (hp : P s) :
    P (processNewCreated s r) := by
  unfold GnoVerif.C06.processNewCreated
  apply Stable.fold _ _ _ s hp
  intro s a hp
  split
  · exact hp
  · exact h.incRef _ s a hp

theorem marksOf_modMarks (s : State) (r : Nat) (f : Marks → Marks) :
    (s.modMarks r f).marksOf r = if r < s.marks.length then f (s.marksOf r) else s.marksOf r := by
  unfold State.modMarks State.marksOf
  simp only [List.getD_eq_getElem?_getD, List.getElem?_set]
  by_cases h : r < s.marks.length
  · simp [h]
  · simp [h]

/-- the `newDeleted` list of realm `r` is not touched by the creating crawl -/
theorem stable_newDeleted (r : Nat) (l : List Nat) : Stable (fun s => (s.marksOf r).newDeleted = l) r := by
  refine ⟨fun s a f hp => hp, ?_, ?_, ?_, fun s hp => hp, fun s t hp => hp⟩
  all_goals
    intro s a hp
    show ((s.modMarks r _).marksOf r).newDeleted = l
    rw [marksOf_modMarks]
    split
    · exact hp
    · exact hp

/-! ### FinalizeRealmTransaction keeps every count exact -/

/-- what DidUpdate leaves behind for the finalizer of realm `r` -/
structure PreFinal (s : State) (r : Nat) : Prop where
  wf : WF s
  rci : RCI s fun _ => 0
  /-- marked objects are objects of the heap -/
  created_in_range : ∀ a ∈ (s.marksOf r).newCreated, a < s.heap.length
  /-- an object without id that is referenced has been marked new-real -/
  unreal_marked : ∀ x, s.isReal x = false → (s.get x).rc ≥ 1 → x ∈ (s.marksOf r).newCreated
  /-- only real objects are marked new-deleted -/
  deleted_real : ∀ a ∈ (s.marksOf r).newDeleted, s.isReal a = true

theorem finalize_keeps_of_preFinal (s : State) (r : Nat) (h : PreFinal s r) :
    (finalize s r).heap.length = s.heap.length ∧ WF (finalize s r) ∧ RCI (finalize s r) fun _ => 0 := by
  obtain ⟨_, w1, r1⟩ := processNewCreated_keeps r s (fun _ => 0) h.wf h.rci
  obtain ⟨hnur, hmono, _⟩ := processNewCreated_strong r (s.marksOf r).newCreated s h.wf h.created_in_range h.unreal_marked
  have e : processNewCreated s r = List.foldl (fun s a => if (s.get a).rc = 0 then s else incRef s.fuelFor s r a) s
      (s.marksOf r).newCreated := rfl
  rw [← e] at hnur hmono
  have hcl := closed_of_nur _ r1 w1 hnur
  have hnd : ((processNewCreated s r).marksOf r).newDeleted = (s.marksOf r).newDeleted :=
    (stable_newDeleted r (s.marksOf r).newDeleted).processNewCreated s rfl
  exact finalize_keeps s r (fun _ => 0) h.wf h.rci
    (fun a ha => hmono a (h.deleted_real a (by rw [← hnd]; exact ha))) hcl

end GnoVerif.C06
