import GnoVerif.Model.C28
/-! C28 helper lemmas: the consensus side of the state is a function of the consensus events alone. -/
namespace GnoVerif.C28

theorem step_c_cons {s s' : State} {e : CEv} (h : step s (.c e) = some s') :
    stepC s.cons e = some s'.cons ∧ s'.qs = sideQ s.cons s.qs e := by
  unfold step at h
  cases hc : stepC s.cons e with
  | none => simp [hc] at h
  | some c' =>
    simp [hc] at h
    subst h
    exact ⟨rfl, rfl⟩

theorem step_q_cons {s s' : State} {e : QEv} (h : step s (.q e) = some s') :
    s'.cons = s.cons ∧ stepQ s.cons s.qs e = some s'.qs := by
  unfold step at h
  cases hq : stepQ s.cons s.qs e with
  | none => simp [hq] at h
  | some q' =>
    simp [hq] at h
    subst h
    exact ⟨rfl, rfl⟩

theorem run_cons_proj : ∀ (tr : List Ev) (s s' : State), run s tr = some s' →
    runC s.cons (consEvents tr) = some s'.cons := by
  intro tr
  induction tr with
  | nil =>
    intro s s' h
    simp [run] at h
    subst h
    simp [consEvents, runC]
  | cons e r ih =>
    intro s s' h
    simp only [run] at h
    cases hs : step s e with
    | none => simp [hs] at h
    | some s1 =>
      simp [hs] at h
      cases e with
      | c ce =>
        have := step_c_cons hs
        simp only [consEvents, runC, this.1, Option.bind_some]
        exact ih s1 s' h
      | q qe =>
        have := step_q_cons hs
        simp only [consEvents]
        rw [← this.1]
        exact ih s1 s' h

theorem runC_append (c : Cons) (a b : List CEv) :
    runC c (a ++ b) = (runC c a).bind (fun c' => runC c' b) := by
  induction a generalizing c with
  | nil => simp [runC]
  | cons e r ih =>
    simp only [List.cons_append, runC]
    cases stepC c e with
    | none => simp
    | some c1 => simp [ih]

end GnoVerif.C28
