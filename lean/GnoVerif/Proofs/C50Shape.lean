import GnoVerif.Proofs.C50Avl
/-! C50 helper lemmas: what the invariant says about the real shape (balance on
recomputed heights, search-tree routing, logarithmic height). -/
namespace GnoVerif.C50
open OMap
namespace Node
variable {α : Type}

theorem height_eq_realHeight {n : Node α} (h : n.Inv) : n.height = (n.realHeight : Int) := by
  induction n with
  | leaf k v => simp [realHeight]
  | inner k ht s l r ihl ihr =>
    rw [inv_inner] at h
    have := ihl h.1; have := ihr h.2.1
    simp only [height_inner, realHeight]
    omega

theorem balanced_of_inv {n : Node α} (h : n.Inv) : n.Balanced := by
  induction n with
  | leaf k v => trivial
  | inner k ht s l r ihl ihr =>
    rw [inv_inner] at h
    have := height_eq_realHeight h.1; have := height_eq_realHeight h.2.1
    refine ⟨ihl h.1, ihr h.2.1, ?_, ?_⟩ <;> omega

theorem searchTree_of_wf {n : Node α} (hi : n.Inv) (hs : Sorted n.toList) : n.SearchTree := by
  induction n with
  | leaf k v => trivial
  | inner k ht s l r ihl ihr =>
    obtain ⟨hsl, hsr, hbl, hbr, hmem⟩ := bounds hi hs
    rw [inv_inner] at hi
    exact ⟨ihl hi.1 hsl, ihr hi.2.1 hsr, hbl, hbr, hmem⟩

theorem forall_of_wf {n : Node α} (hi : n.Inv) (hs : Sorted n.toList) :
    n.Forall (fun m => m.WF ∧ m.height = (m.realHeight : Int) ∧ m.size = (m.toList.length : Int) ∧
      (m.height = 0 ↔ m.isLeaf = true)) := by
  induction n with
  | leaf k v => exact ⟨⟨hi, hs⟩, by simp [realHeight], by simp, by simp [isLeaf]⟩
  | inner k ht s l r ihl ihr =>
    obtain ⟨hsl, hsr, -⟩ := bounds hi hs
    have hh := height_eq_realHeight hi
    have hz := size_eq_length hi
    have hi' := hi
    rw [inv_inner] at hi'
    refine ⟨⟨⟨hi, hs⟩, hh, hz, ?_⟩, ihl hi'.1 hsl, ihr hi'.2.1 hsr⟩
    have := height_nonneg hi'.1
    have := height_nonneg hi'.2.1
    simp only [height_inner, isLeaf]
    constructor
    · intro h0; omega
    · intro h0; simp at h0

/-- an AVL tree of height `h` has at least `2^(h/2)` leaves -/
theorem pow_le_length {n : Node α} (hi : n.Inv) : 2 ^ (n.realHeight / 2) ≤ n.toList.length := by
  induction n with
  | leaf k v => simp [realHeight]
  | inner k ht s l r ihl ihr =>
    rw [inv_inner] at hi
    obtain ⟨hil, hir, -, -, -, hb1, hb2⟩ := hi
    have e1 := height_eq_realHeight hil
    have e2 := height_eq_realHeight hir
    have h1 := ihl hil
    have h2 := ihr hir
    simp only [realHeight, toList_inner, List.length_append]
    have hlp : 1 ≤ l.toList.length := by
      obtain ⟨v, rest, h⟩ := toList_exists_head l; simp [h]
    have hrp : 1 ≤ r.toList.length := by
      obtain ⟨v, rest, h⟩ := toList_exists_head r; simp [h]
    -- H = max hl hr + 1; both children have height ≥ H - 2
    by_cases hH : max l.realHeight r.realHeight + 1 < 2
    · have : (max l.realHeight r.realHeight + 1) / 2 = 0 := by omega
      rw [this]; omega
    · have hq : (max l.realHeight r.realHeight + 1) / 2 = (max l.realHeight r.realHeight - 1) / 2 + 1 := by omega
      have m1 : 2 ^ ((max l.realHeight r.realHeight - 1) / 2) ≤ 2 ^ (l.realHeight / 2) :=
        Nat.pow_le_pow_right (by omega) (by omega)
      have m2 : 2 ^ ((max l.realHeight r.realHeight - 1) / 2) ≤ 2 ^ (r.realHeight / 2) :=
        Nat.pow_le_pow_right (by omega) (by omega)
      rw [hq, Nat.pow_succ]
      omega

end Node
end GnoVerif.C50
