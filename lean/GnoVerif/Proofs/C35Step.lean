import GnoVerif.Proofs.C35Inv
/-! `addVote`, `setPeerMaj23`, `step`, `run`: what one event does (core Lean only). -/
set_option linter.unusedSimpArgs false
set_option linter.unusedVariables false
namespace GnoVerif.C35

theorem addVote_not_verified {s : VoteSet} {v : Vote} (hv : ¬ Verified s v) :
    (addVote s (some v)).1 = s ∧ ∃ e, (addVote s (some v)).2 = .ret false e ∧ e ≠ some .conflict := by
  unfold addVote
  simp only []
  split
  · exact ⟨rfl, _, rfl, by simp⟩
  · rename_i h0
    split
    · exact ⟨rfl, _, rfl, by simp⟩
    · rename_i h1
      split
      · exact ⟨rfl, _, rfl, by simp⟩
      · rename_i la pw hval
        split
        · exact ⟨rfl, _, rfl, by simp⟩
        · rename_i h2
          split
          · split
            · exact ⟨rfl, _, rfl, by simp⟩
            · exact ⟨rfl, _, rfl, by simp⟩
          · rename_i hg
            split
            · exact ⟨rfl, _, rfl, by simp⟩
            · rename_i h3
              exfalso; apply hv
              simp only [not_or, Decidable.not_not] at h1
              refine ⟨by omega, h1.1, h1.2.1, h1.2.2, ⟨pw, ?_⟩, hg, by simpa using h3⟩
              rw [hval]; simp at h2; rw [h2]

theorem addVote_verified {s : VoteSet} {v : Vote} (hI : Inv s) (hv : Verified s v) :
    ∃ a power, s.vals[v.idx.toNat]? = some (a, power) ∧
      AVVSpec s v v.idx.toNat (addVerifiedVote s v v.idx.toNat power) ∧
      addVote s (some v) = ((addVerifiedVote s v v.idx.toNat power).s,
        if (at? s.votes v.idx.toNat).isSome then .ret (addVerifiedVote s v v.idx.toNat power).added (some .conflict)
        else .ret true none) := by
  obtain ⟨h0, hh, hr, ht, ⟨p, hval⟩, hg, hs⟩ := hv
  have hwf : s.WFv v.idx.toNat v := ⟨by omega, hh, hr, ht, ⟨p, hval⟩, hs⟩
  have hsp := avv_spec hI hval hwf hg
  refine ⟨v.addr, p, hval, hsp, ?_⟩
  unfold addVote
  simp only []
  rw [if_neg (by omega), if_neg (by simp [hh, hr, ht]), hval]
  simp only []
  rw [if_neg (by simp), hg]
  simp only []
  rw [if_neg (by simp [hs])]
  simp only [hsp.noPanic, Bool.false_eq_true, if_false, hsp.conf]
  cases hc : at? s.votes v.idx.toNat with
  | some e => simp
  | none =>
    have : (addVerifiedVote s v v.idx.toNat p).added = true := hsp.added.mpr (Or.inl hc)
    simp [this]

-- ---------------------------------------------------------------- SetPeerMaj23

/-- Changing only flags of `votesByBlock` entries / adding empty entries keeps the invariant. -/
theorem inv_of_sim {s s' : VoteSet} (hI : Inv s)
    (hf : s'.vals = s.vals ∧ s'.height = s.height ∧ s'.round = s.round ∧ s'.type = s.type ∧
      s'.votes = s.votes ∧ s'.sum = s.sum ∧ s'.maj23 = s.maj23)
    (hnew : ∀ k bv', alGet k s'.vbb = some bv' →
      (∃ bv, alGet k s.vbb = some bv ∧ bv'.votes = bv.votes ∧ bv'.sum = bv.sum) ∨
      (alGet k s.vbb = none ∧ bv'.votes = List.replicate s.vals.length none ∧ bv'.sum = 0))
    (hold : ∀ k bv, alGet k s.vbb = some bv → ∃ bv', alGet k s'.vbb = some bv' ∧ bv'.votes = bv.votes ∧ bv'.sum = bv.sum) :
    Inv s' ∧ ∀ k j w, Tracked s' k j w ↔ Tracked s k j w := by
  obtain ⟨fv, fh, fr, ft, fvo, fs, fm⟩ := hf
  have htr : ∀ k j w, Tracked s' k j w ↔ Tracked s k j w := by
    intro k j w; unfold Tracked
    constructor
    · rintro ⟨bv', h1, h2⟩
      rcases hnew k bv' h1 with ⟨bv, h3, h4, _⟩ | ⟨_, h4, _⟩
      · exact ⟨bv, h3, by rw [← h4]; exact h2⟩
      · rw [h4, at?_replicate] at h2; cases h2
    · rintro ⟨bv, h1, h2⟩
      obtain ⟨bv', h3, h4, _⟩ := hold k bv h1
      exact ⟨bv', h3, by rw [h4]; exact h2⟩
  refine ⟨⟨?_, ?_⟩, htr⟩
  · constructor
    · rw [fvo, fv]; exact hI.lenVotes
    · intro k bv' h
      rcases hnew k bv' h with ⟨bv, h3, h4, _⟩ | ⟨_, h4, _⟩
      · rw [h4, fv]; exact hI.lenBV _ _ h3
      · rw [h4, fv]; simp
    · intro k bv' h
      rcases hnew k bv' h with ⟨bv, h3, h4, h5⟩ | ⟨_, h4, h5⟩
      · rw [h4, h5, fv]; exact hI.sumBV _ _ h3
      · rw [h4, h5, sumPow_replicate]
    · rw [fs, fvo, fv]; exact hI.sumAll
    · intro j w hw; rw [fvo] at hw
      unfold VoteSet.WFv; rw [fh, fr, ft, fv]; exact hI.wfVotes j w hw
    · intro k bv' j w h hw
      rcases hnew k bv' h with ⟨bv, h3, h4, _⟩ | ⟨_, h4, _⟩
      · rw [h4] at hw
        unfold VoteSet.WFv; rw [fh, fr, ft, fv]; exact hI.wfBV _ _ j w h3 hw
      · rw [h4, at?_replicate] at hw; cases hw
    · intro k bv' j w h hw
      rw [fvo]
      rcases hnew k bv' h with ⟨bv, h3, h4, _⟩ | ⟨_, h4, _⟩
      · rw [h4] at hw; exact hI.hasVote _ _ j w h3 hw
      · rw [h4, at?_replicate] at hw; cases hw
    · intro m hm; rw [fm] at hm
      obtain ⟨bv, h0, h1, h2⟩ := hI.majQuorum m hm
      obtain ⟨bv', h3, h4, h5⟩ := hold _ bv h0
      refine ⟨bv', h3, ?_, ?_⟩
      · rw [h5]; unfold VoteSet.quorum VoteSet.total; rw [fv]; exact h1
      · intro j w hw; rw [h4] at hw; rw [fvo]; exact h2 j w hw
    · intro j w hw; rw [fvo] at hw
      rcases hI.canon j w hw with h | h | h
      · left; exact (htr _ _ _).mpr h
      · right; left; rw [fm]; exact h
      · cases h
  · intro hm k bv' h; rw [fm] at hm
    have hq : s'.quorum = s.quorum := by unfold VoteSet.quorum VoteSet.total; rw [fv]
    rw [hq]
    rcases hnew k bv' h with ⟨bv, h3, _, h5⟩ | ⟨_, _, h5⟩
    · rw [h5]; exact hI.noMaj hm _ _ h3
    · rw [h5]; exact quorum_pos s

/-- Flags of `votesByBlock` entries say exactly which keys were claimed by a peer. -/
structure PeerInv (s : VoteSet) : Prop where
  flag : ∀ k bv, alGet k s.vbb = some bv → (bv.peerMaj23 = true ↔ PeerClaimed s k)
  entry : ∀ k, PeerClaimed s k → ∃ bv, alGet k s.vbb = some bv

theorem peerInv_new (h r : Int) (t : Nat) (vals : List (Nat × Nat)) : PeerInv (newVoteSet h r t vals) := by
  constructor
  · intro k bv h; simp [newVoteSet, alGet] at h
  · rintro k ⟨p, b, h, _⟩; simp [newVoteSet, alGet] at h

structure PeerSpec (s : VoteSet) (p : Nat) (b : BlockID) (r : VoteSet × Bool) : Prop where
  frame : r.1.vals = s.vals ∧ r.1.height = s.height ∧ r.1.round = s.round ∧ r.1.type = s.type ∧
    r.1.votes = s.votes ∧ r.1.sum = s.sum ∧ r.1.maj23 = s.maj23
  inv : Inv r.1
  tracked : ∀ k j w, Tracked r.1 k j w ↔ Tracked s k j w
  peer : PeerInv r.1
  err : r.2 = true ↔ ∃ e, alGet p s.peerMaj23s = some e ∧ e ≠ b

theorem peer_spec {s : VoteSet} (hI : Inv s) (hP : PeerInv s) (p : Nat) (b : BlockID) :
    PeerSpec s p b (setPeerMaj23 s p b) := by
  have claimed_mono : ∀ k, alGet p s.peerMaj23s = none →
      (PeerClaimed { s with peerMaj23s := alSet p b s.peerMaj23s } k ↔ PeerClaimed s k ∨ k = b.key) := by
    intro k hp
    unfold PeerClaimed
    simp only [alGet_alSet]
    constructor
    · rintro ⟨p', b', h1, h2⟩
      split at h1
      · cases h1; right; exact h2.symm
      · left; exact ⟨p', b', h1, h2⟩
    · rintro (⟨p', b', h1, h2⟩ | h)
      · refine ⟨p', b', ?_, h2⟩
        split
        · rename_i hpp; subst hpp; rw [hp] at h1; cases h1
        · exact h1
      · exact ⟨p, b, by simp, h.symm⟩
  unfold setPeerMaj23
  cases hp : alGet p s.peerMaj23s with
  | some e =>
    simp only []
    by_cases he : e = b
    · simp only [he, if_true]
      exact ⟨⟨rfl, rfl, rfl, rfl, rfl, rfl, rfl⟩, hI, fun _ _ _ => Iff.rfl, hP, by simp [hp, he]⟩
    · simp only [he, if_false]
      exact ⟨⟨rfl, rfl, rfl, rfl, rfl, rfl, rfl⟩, hI, fun _ _ _ => Iff.rfl, hP, by simp [hp, he]⟩
  | none =>
    simp only []
    cases hb : alGet b.key s.vbb with
    | some bv =>
      simp only []
      by_cases hfl : bv.peerMaj23 = true
      · simp only [hfl, if_true]
        refine ⟨⟨rfl, rfl, rfl, rfl, rfl, rfl, rfl⟩, ?_, ?_, ?_, by simp [hp]⟩
        · exact (inv_of_sim (s' := { s with peerMaj23s := alSet p b s.peerMaj23s }) hI ⟨rfl, rfl, rfl, rfl, rfl, rfl, rfl⟩
            (fun k bv' h => Or.inl ⟨bv', h, rfl, rfl⟩) (fun k bv h => ⟨bv, h, rfl, rfl⟩)).1
        · intro k j w; exact Iff.rfl
        · constructor
          · intro k bv' h
            change alGet k s.vbb = some bv' at h
            rw [claimed_mono k hp, hP.flag k bv' h]
            constructor
            · exact Or.inl
            · rintro (h1 | h1)
              · exact h1
              · subst h1; rw [hb] at h; cases h; exact (hP.flag _ _ hb).mp hfl
          · intro k hk
            rcases (claimed_mono k hp).mp hk with h1 | h1
            · exact hP.entry k h1
            · subst h1; exact ⟨bv, hb⟩
      · simp only [hfl, Bool.false_eq_true, if_false]
        have key : ∀ k', alGet k' (alSet b.key { bv with peerMaj23 := true } s.vbb) =
            if k' = b.key then some { bv with peerMaj23 := true } else alGet k' s.vbb := fun k' => alGet_alSet _ _ _ _
        have hsim := inv_of_sim (s' := { s with peerMaj23s := alSet p b s.peerMaj23s, vbb := alSet b.key { bv with peerMaj23 := true } s.vbb }) hI ⟨rfl, rfl, rfl, rfl, rfl, rfl, rfl⟩
            (by
              intro k bv' h
              change alGet k (alSet b.key { bv with peerMaj23 := true } s.vbb) = some bv' at h
              rw [key] at h
              split at h
              · rename_i hk; subst hk; cases h; exact Or.inl ⟨bv, hb, rfl, rfl⟩
              · exact Or.inl ⟨bv', h, rfl, rfl⟩)
            (by
              intro k bv0 h
              change ∃ bv', alGet k (alSet b.key { bv with peerMaj23 := true } s.vbb) = some bv' ∧ _
              rw [key]
              split
              · rename_i hk; subst hk; rw [hb] at h; cases h; exact ⟨_, rfl, rfl, rfl⟩
              · exact ⟨bv0, h, rfl, rfl⟩)
        refine ⟨⟨rfl, rfl, rfl, rfl, rfl, rfl, rfl⟩, hsim.1, hsim.2, ?_, by simp [hp]⟩
        constructor
        · intro k bv' h
          change alGet k (alSet b.key { bv with peerMaj23 := true } s.vbb) = some bv' at h
          have hc := claimed_mono k hp
          change (PeerClaimed { s with peerMaj23s := alSet p b s.peerMaj23s, vbb := alSet b.key { bv with peerMaj23 := true } s.vbb } k ↔ _) at hc
          rw [hc]
          rw [key] at h
          split at h
          · cases h; simp [*]
          · rename_i hk; rw [hP.flag k bv' h]; simp [hk]
        · intro k hk
          have hc := claimed_mono k hp
          change (PeerClaimed { s with peerMaj23s := alSet p b s.peerMaj23s, vbb := alSet b.key { bv with peerMaj23 := true } s.vbb } k ↔ _) at hc
          change ∃ bv', alGet k (alSet b.key { bv with peerMaj23 := true } s.vbb) = some bv'
          rw [key]
          rcases hc.mp hk with h1 | h1
          · split
            · exact ⟨_, rfl⟩
            · exact hP.entry k h1
          · simp [h1]
    | none =>
      simp only []
      have key : ∀ k', alGet k' (alSet b.key (newBlockVotes true s.vals.length) s.vbb) =
          if k' = b.key then some (newBlockVotes true s.vals.length) else alGet k' s.vbb := fun k' => alGet_alSet _ _ _ _
      have hsim := inv_of_sim (s' := { s with peerMaj23s := alSet p b s.peerMaj23s, vbb := alSet b.key (newBlockVotes true s.vals.length) s.vbb }) hI ⟨rfl, rfl, rfl, rfl, rfl, rfl, rfl⟩
          (by
            intro k bv' h
            change alGet k (alSet b.key (newBlockVotes true s.vals.length) s.vbb) = some bv' at h
            rw [key] at h
            split at h
            · rename_i hk; subst hk; cases h; exact Or.inr ⟨hb, rfl, rfl⟩
            · exact Or.inl ⟨bv', h, rfl, rfl⟩)
          (by
            intro k bv0 h
            change ∃ bv', alGet k (alSet b.key (newBlockVotes true s.vals.length) s.vbb) = some bv' ∧ _
            rw [key]
            split
            · rename_i hk; subst hk; rw [hb] at h; cases h
            · exact ⟨bv0, h, rfl, rfl⟩)
      refine ⟨⟨rfl, rfl, rfl, rfl, rfl, rfl, rfl⟩, hsim.1, hsim.2, ?_, by simp [hp]⟩
      constructor
      · intro k bv' h
        change alGet k (alSet b.key (newBlockVotes true s.vals.length) s.vbb) = some bv' at h
        have hc := claimed_mono k hp
        change (PeerClaimed { s with peerMaj23s := alSet p b s.peerMaj23s, vbb := alSet b.key (newBlockVotes true s.vals.length) s.vbb } k ↔ _) at hc
        rw [hc]
        rw [key] at h
        split at h
        · cases h; simp [*, newBlockVotes]
        · rename_i hk; rw [hP.flag k bv' h]; simp [hk]
      · intro k hk
        have hc := claimed_mono k hp
        change (PeerClaimed { s with peerMaj23s := alSet p b s.peerMaj23s, vbb := alSet b.key (newBlockVotes true s.vals.length) s.vbb } k ↔ _) at hc
        change ∃ bv', alGet k (alSet b.key (newBlockVotes true s.vals.length) s.vbb) = some bv'
        rw [key]
        rcases hc.mp hk with h1 | h1
        · split
          · exact ⟨_, rfl⟩
          · exact hP.entry k h1
        · simp [h1]

-- ---------------------------------------------------------------- one event

/-- What one event does to a state satisfying the invariant. -/
structure StepFacts (s : VoteSet) (e : Event) : Prop where
  inv : Inv (step s e)
  peer : PeerInv (step s e)
  frame : (step s e).vals = s.vals ∧ (step s e).height = s.height ∧ (step s e).round = s.round ∧
    (step s e).type = s.type
  tracked : ∀ k j w, Tracked (step s e) k j w ↔ Tracked s k j w ∨
    (e = .vote (some w) ∧ (addVote s (some w)).2.added = true ∧ k = w.block.key ∧ (j : Int) = w.idx)
  majMono : ∀ m, s.maj23 = some m → (step s e).maj23 = some m
  majNew : ∀ m, (step s e).maj23 = some m → s.maj23 = some m ∨
    (s.maj23 = none ∧ ∃ v, e = .vote (some v) ∧ v.block = m ∧ (addVote s (some v)).2.added = true)
  stable : ∀ m, s.maj23 = some m → ∀ j w, at? s.votes j = some w → w.block.key = m.key →
    at? (step s e).votes j = some w
  votesFrom : ∀ j w, at? (step s e).votes j = some w → at? s.votes j = some w ∨ Tracked s w.block.key j w ∨
    (e = .vote (some w) ∧ (j : Int) = w.idx ∧ LogEntry.stored ⟨s, w, (addVote s (some w)).2⟩)
  late : ∀ v, e = .vote (some v) → LogEntry.lateStored ⟨s, v, (addVote s (some v)).2⟩ →
    at? (step s e).votes v.idx.toNat = some v

theorem stepFacts_id {s : VoteSet} {e : Event} (hI : Inv s) (hP : PeerInv s) (hs : step s e = s)
    (hna : ∀ w, e = .vote (some w) → (addVote s (some w)).2.added = false ∧
      ¬ LogEntry.lateStored ⟨s, w, (addVote s (some w)).2⟩) : StepFacts s e := by
  constructor
  · rw [hs]; exact hI
  · rw [hs]; exact hP
  · rw [hs]; exact ⟨rfl, rfl, rfl, rfl⟩
  · intro k j w; rw [hs]
    constructor
    · exact Or.inl
    · rintro (h | ⟨h1, h2, _⟩)
      · exact h
      · rw [(hna w h1).1] at h2; cases h2
  · intro m hm; rw [hs]; exact hm
  · intro m hm; rw [hs] at hm; exact Or.inl hm
  · intro m hm j w hw _; rw [hs]; exact hw
  · intro j w hw; rw [hs] at hw; exact Or.inl hw
  · intro v hv hl; exact absurd hl (hna v hv).2

theorem stepFacts {s : VoteSet} (hI : Inv s) (hP : PeerInv s) (e : Event) : StepFacts s e := by
  cases e with
  | peerMaj p b =>
    have sp := peer_spec hI hP p b
    obtain ⟨fv, fh, fr, ft, fvo, fs, fm⟩ := sp.frame
    constructor
    · exact sp.inv
    · exact sp.peer
    · exact ⟨fv, fh, fr, ft⟩
    · intro k j w; show Tracked (setPeerMaj23 s p b).1 k j w ↔ _
      rw [sp.tracked]; simp
    · intro m hm; show (setPeerMaj23 s p b).1.maj23 = some m; rw [fm]; exact hm
    · intro m hm; change (setPeerMaj23 s p b).1.maj23 = some m at hm; rw [fm] at hm; exact Or.inl hm
    · intro m hm j w hw _; show at? (setPeerMaj23 s p b).1.votes j = some w; rw [fvo]; exact hw
    · intro j w hw; change at? (setPeerMaj23 s p b).1.votes j = some w at hw; rw [fvo] at hw; exact Or.inl hw
    · intro v hv; cases hv
  | vote ov =>
    cases ov with
    | none =>
      apply stepFacts_id hI hP rfl
      intro w hw; cases hw
    | some v =>
      by_cases hv : Verified s v
      · obtain ⟨a, power, hval, sp, heq⟩ := addVote_verified hI hv
        have hstep : step s (.vote (some v)) = (addVerifiedVote s v v.idx.toNat power).s := by
          show (addVote s (some v)).1 = _; rw [heq]
        have hadd : (addVote s (some v)).2.added = (addVerifiedVote s v v.idx.toNat power).added := by
          rw [heq]; simp only []
          split
          · rfl
          · rename_i h
            have : at? s.votes v.idx.toNat = none := by
              cases hc : at? s.votes v.idx.toNat with
              | none => rfl
              | some _ => rw [hc] at h; simp at h
            exact (sp.added.mpr (Or.inl this)).symm
        have hidx : ((v.idx.toNat : Nat) : Int) = v.idx := Int.toNat_of_nonneg hv.1
        have hP' : PeerInv (addVerifiedVote s v v.idx.toNat power).s := by
          have hcl : ∀ k, PeerClaimed (addVerifiedVote s v v.idx.toNat power).s k ↔ PeerClaimed s k := by
            intro k; unfold PeerClaimed; rw [sp.frame.2.2.2.2]
          constructor
          · intro k bv' h
            rw [hcl]
            rcases sp.flags k with hf | ⟨hn, hf⟩
            · rw [h] at hf
              cases hb : alGet k s.vbb with
              | none => rw [hb] at hf; cases hf
              | some bv =>
                rw [hb] at hf; simp only [Option.map_some, Option.some.injEq] at hf
                rw [hf]; exact hP.flag k bv hb
            · rw [h] at hf; simp only [Option.map_some, Option.some.injEq] at hf
              rw [hf]
              constructor
              · intro h2; cases h2
              · intro h2; obtain ⟨bv, hb⟩ := hP.entry k h2; rw [hn] at hb; cases hb
          · intro k hk
            obtain ⟨bv, hb⟩ := hP.entry k ((hcl k).mp hk)
            rcases sp.flags k with hf | ⟨hn, _⟩
            · rw [hb] at hf
              cases hb' : alGet k (addVerifiedVote s v v.idx.toNat power).s.vbb with
              | none => rw [hb'] at hf; cases hf
              | some bv' => exact ⟨bv', rfl⟩
            · rw [hn] at hb; cases hb
        constructor
        · rw [hstep]; exact sp.inv
        · rw [hstep]; exact hP'
        · rw [hstep]; exact ⟨sp.frame.1, sp.frame.2.1, sp.frame.2.2.1, sp.frame.2.2.2.1⟩
        · intro k j w; rw [hstep, sp.tracked]
          constructor
          · rintro (h | ⟨h1, h2, h3, h4⟩)
            · exact Or.inl h
            · subst h4; right; exact ⟨rfl, by rw [hadd]; exact h1, h2, by rw [h3]; exact hidx⟩
          · rintro (h | ⟨h1, h2, h3, h4⟩)
            · exact Or.inl h
            · cases h1; right
              exact ⟨by rw [← hadd]; exact h2, h3, by omega, rfl⟩
        · intro m hm; rw [hstep]; exact sp.majMono m hm
        · intro m hm; rw [hstep] at hm
          rcases sp.majNew m hm with h | ⟨h1, h2, h3⟩
          · exact Or.inl h
          · right; exact ⟨h1, v, rfl, h2.symm, by rw [hadd]; exact h3⟩
        · intro m hm j w hw hk; rw [hstep]; exact sp.stable m hm j w hw hk
        · intro j w hw; rw [hstep] at hw
          rcases sp.votesFrom j w hw with h | h | ⟨h1, h2, h3⟩
          · exact Or.inl h
          · exact Or.inr (Or.inl h)
          · have h2' := h2.symm; subst h2'; right; right
            refine ⟨rfl, by rw [h1]; exact hidx, ?_⟩
            rcases h3 with h3 | h3
            · left; show (addVote s (some v)).2.added = true; rw [hadd]; exact h3
            · by_cases had : (addVerifiedVote s v v.idx.toNat power).added = true
              · left; show (addVote s (some v)).2.added = true; rw [hadd]; exact had
              · right
                refine ⟨?_, h3⟩
                show (addVote s (some v)).2 = _
                rw [heq]; simp only []
                have hc : (at? s.votes v.idx.toNat).isSome = true := by
                  cases hc : at? s.votes v.idx.toNat with
                  | none => exact absurd (sp.added.mpr (Or.inl hc)) had
                  | some _ => rfl
                simp only [hc, if_true]
                simp at had; rw [had]
        · intro v' hv' hl
          cases hv'
          rw [hstep]
          obtain ⟨h1, h2⟩ := hl
          change (addVote s (some v)).2 = _ at h1
          have : (addVerifiedVote s v v.idx.toNat power).added = false := by
            rw [← hadd, h1]; rfl
          exact sp.late this h2
      · obtain ⟨h1, err, h2, h3⟩ := addVote_not_verified hv
        apply stepFacts_id hI hP (show step s (.vote (some v)) = s from h1)
        intro w hw; cases hw
        refine ⟨by rw [h2]; rfl, ?_⟩
        rintro ⟨h4, _⟩
        change (addVote s (some v)).2 = _ at h4
        rw [h2] at h4; cases h4; exact h3 rfl

end GnoVerif.C35
