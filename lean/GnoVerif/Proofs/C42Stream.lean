import GnoVerif.Proofs.C42Read
/-!
C42 helper lemmas, part 4: the honest stream — a receiver reading what a sender
wrote, untouched, with arbitrary read sizes.
-/
namespace GnoVerif.C42

/-- the receiver has accepted `p` of the sender's frames; the rest is still in flight -/
structure Hon (A : AEAD) (k : Bytes) (c0 : Nat) (sent : List Fr) (p : Nat) (sc : SC) (conn : Bytes) : Prop where
  hp : p ≤ sent.length
  key : sc.recvKey = k
  nonce : sc.recvNonce = nonceOf (c0 + p)
  conn : conn = sealAll A k (c0 + p) (sent.drop p)

theorem payload_take_succ (sent : List Fr) (p : Nat) (h : p < sent.length) :
    payload (sent.take (p + 1)) = payload (sent.take p) ++ sent[p] := by
  rw [List.take_succ_eq_append_getElem h, payload_append]
  simp [payload]

theorem payload_take_prefix (sent : List Fr) (q : Nat) : payload (sent.take q) <+: payload sent := by
  have : sent = sent.take q ++ sent.drop q := (List.take_append_drop q sent).symm
  conv => rhs; rw [this, payload_append]
  exact List.prefix_append _ _

section
variable (A : AEAD) (k : Bytes) (c0 : Nat) (sent : List Fr)
variable (hC : A.Correct k) (hO : A.Overhead k) (hwf : ∀ f ∈ sent, f.WF)
variable (hroom : c0 + sent.length ≤ maxUint64)
include hC hO hwf hroom

/-- one honest `Read`: either it returns data (at least one byte when asked for one) and
the bookkeeping advances, or everything has been delivered and it reports io.EOF -/
theorem read_honest (p : Nat) (sc : SC) (conn pre : Bytes) (size : Nat)
    (h : Hon A k c0 sent p sc conn) (hpre : payload (sent.take p) = pre ++ sc.recvBuffer) :
    ((read A sc conn size).err = none ∧
      (∃ q, Hon A k c0 sent q (read A sc conn size).sc (read A sc conn size).conn ∧
        payload (sent.take q) = pre ++ (read A sc conn size).data ++ (read A sc conn size).sc.recvBuffer) ∧
      (0 < size → (read A sc conn size).data ≠ []))
    ∨ ((read A sc conn size).err = some .eof ∧ (read A sc conn size).sc = sc ∧
        (read A sc conn size).conn = conn ∧ (read A sc conn size).data = [] ∧
        p = sent.length ∧ sc.recvBuffer = []) := by
  by_cases hb : sc.recvBuffer = []
  · by_cases hp : p = sent.length
    · -- nothing left in flight
      right
      have hconn : conn = [] := by
        rw [h.conn, hp, List.drop_length]; rfl
      subst hconn
      rw [read_eof A sc size hb]
      exact ⟨rfl, rfl, rfl, rfl, hp, hb⟩
    · -- the next frame is the sender's frame number p
      left
      have hlt : p < sent.length := Nat.lt_of_le_of_ne h.hp hp
      have hfw : sent[p].WF := hwf _ (List.getElem_mem hlt)
      have hconn : conn = sealedAt A k (c0 + p) sent[p] ++ sealAll A k (c0 + p + 1) (sent.drop (p + 1)) := by
        rw [h.conn, List.drop_eq_getElem_cons hlt]; rfl
      have hlen := sealedAt_length A k hO (c0 + p) sent[p] hfw
      have h1 : sealedFrameSize ≤ conn.length := by rw [hconn, List.length_append]; omega
      have htake : conn.take sealedFrameSize = sealedAt A k (c0 + p) sent[p] := by
        rw [hconn]; exact List.take_left' hlen
      have hdrop : conn.drop sealedFrameSize = sealAll A k (c0 + p + 1) (sent.drop (p + 1)) := by
        rw [hconn]; exact List.drop_left' hlen
      have ho : A.doOpen sc.recvKey sc.recvNonce (conn.take sealedFrameSize) = some (mkFrame sent[p]) := by
        rw [htake, h.key, h.nonce]; exact hC _ _
      have hc : c0 + p < maxUint64 := by omega
      rw [read_accept A sc conn size (c0 + p) sent[p] hb h1 h.nonce hc hfw.2 ho]
      refine ⟨rfl, ⟨p + 1, ⟨hlt, h.key, ?_, hdrop⟩, ?_⟩, ?_⟩
      · show nonceOf (c0 + p + 1) = nonceOf (c0 + (p + 1))
        rw [Nat.add_assoc]
      · show payload (sent.take (p + 1)) = pre ++ sent[p].take _ ++ sent[p].drop _
        rw [payload_take_succ sent p hlt, hpre, hb, List.append_nil, List.append_assoc, List.take_append_drop]
      · intro hs
        show sent[p].take (min size sent[p].length) ≠ []
        have hne : 0 < sent[p].length := List.length_pos_iff.2 hfw.1
        intro e
        have : (sent[p].take (min size sent[p].length)).length = 0 := by rw [e]; rfl
        rw [List.length_take] at this
        omega
  · -- served from the buffer
    left
    rw [read_buffer A sc conn size hb]
    refine ⟨rfl, ⟨p, ⟨h.hp, h.key, h.nonce, h.conn⟩, ?_⟩, ?_⟩
    · show payload (sent.take p) = pre ++ sc.recvBuffer.take _ ++ sc.recvBuffer.drop _
      rw [hpre, List.append_assoc, List.take_append_drop]
    · intro hs
      show sc.recvBuffer.take (min size sc.recvBuffer.length) ≠ []
      have hne : 0 < sc.recvBuffer.length := List.length_pos_iff.2 hb
      intro e
      have : (sc.recvBuffer.take (min size sc.recvBuffer.length)).length = 0 := by rw [e]; rfl
      rw [List.length_take] at this
      omega

/-- any sequence of honest `Read`s -/
theorem readMany_honest (sizes : List Nat) : ∀ (p : Nat) (sc : SC) (conn pre : Bytes),
    Hon A k c0 sent p sc conn → payload (sent.take p) = pre ++ sc.recvBuffer →
    ∃ q sc' conn' ds e, readMany A sc conn sizes = (sc', conn', ds, e) ∧
      Hon A k c0 sent q sc' conn' ∧
      payload (sent.take q) = pre ++ ds.flatten ++ sc'.recvBuffer ∧
      (e = none ∨ (e = some .eof ∧ q = sent.length ∧ sc'.recvBuffer = [])) ∧
      ((∀ s ∈ sizes, 0 < s) → e = none → sizes.length ≤ ds.flatten.length) := by
  induction sizes with
  | nil =>
    intro p sc conn pre h hpre
    exact ⟨p, sc, conn, [], none, rfl, h, by simpa using hpre, Or.inl rfl, fun _ _ => Nat.le_refl _⟩
  | cons size rest ih =>
    intro p sc conn pre h hpre
    rcases read_honest A k c0 sent hC hO hwf hroom p sc conn pre size h hpre with
      ⟨herr, ⟨q, hq, hpay⟩, hprog⟩ | ⟨herr, hsc, hconn, hdata, hp, hb⟩
    · obtain ⟨q', sc', conn', ds, e, hrm, hon', hpay', he, hcount⟩ :=
        ih q _ _ (pre ++ (read A sc conn size).data) hq hpay
      refine ⟨q', sc', conn', (read A sc conn size).data :: ds, e, ?_, hon', ?_, he, ?_⟩
      · simp only [readMany, herr, hrm]
      · rw [hpay']; simp [List.append_assoc]
      · intro hpos hnone
        have h1 := hcount (fun s hs => hpos s (List.mem_cons_of_mem _ hs)) hnone
        have h2 : 0 < (read A sc conn size).data.length :=
          List.length_pos_iff.2 (hprog (hpos size List.mem_cons_self))
        simp only [List.length_cons, List.flatten_cons, List.length_append]
        omega
    · refine ⟨p, sc, conn, [], some .eof, ?_, h, ?_, Or.inr ⟨rfl, hp, hb⟩, ?_⟩
      · simp only [readMany, herr, hsc, hconn]
      · simpa using hpre
      · intro _ hnone; exact absurd hnone (by simp)

end

end GnoVerif.C42
