import GnoVerif.Proofs.C35Step
/-! Histories: the invariant over `run`, and what the log of a history says about the final state. -/
set_option linter.unusedSimpArgs false
set_option linter.unusedVariables false
namespace GnoVerif.C35

theorem run_cons (s : VoteSet) (e : Event) (evs : List Event) : run s (e :: evs) = run (step s e) evs := rfl

theorem run_append (s : VoteSet) (a b : List Event) : run s (a ++ b) = run (run s a) b := by
  simp [run, List.foldl_append]

theorem inv_run {s : VoteSet} (hI : Inv s) (hP : PeerInv s) (evs : List Event) :
    Inv (run s evs) ∧ PeerInv (run s evs) ∧ (run s evs).vals = s.vals ∧ (run s evs).height = s.height ∧
    (run s evs).round = s.round ∧ (run s evs).type = s.type := by
  induction evs generalizing s with
  | nil => exact ⟨hI, hP, rfl, rfl, rfl, rfl⟩
  | cons e evs ih =>
    have sf := stepFacts hI hP e
    obtain ⟨h1, h2, h3, h4, h5, h6⟩ := ih sf.inv sf.peer
    rw [run_cons]
    exact ⟨h1, h2, h3.trans sf.frame.1, h4.trans sf.frame.2.1, h5.trans sf.frame.2.2.1, h6.trans sf.frame.2.2.2⟩

theorem reachable_inv {s : VoteSet} (h : Reachable s) : Inv s ∧ PeerInv s := by
  obtain ⟨h, r, t, vals, evs, rfl⟩ := h
  have := inv_run (inv_new h r t vals) (peerInv_new h r t vals) evs
  exact ⟨this.1, this.2.1⟩

theorem reachable_run {s : VoteSet} (h : Reachable s) (evs : List Event) : Reachable (run s evs) := by
  obtain ⟨h, r, t, vals, evs0, rfl⟩ := h
  exact ⟨h, r, t, vals, evs0 ++ evs, (run_append _ _ _).symm⟩

theorem maj_run_mono {s : VoteSet} (hI : Inv s) (hP : PeerInv s) {m : BlockID} (hm : s.maj23 = some m)
    (evs : List Event) : (run s evs).maj23 = some m := by
  induction evs generalizing s with
  | nil => exact hm
  | cons e evs ih =>
    have sf := stepFacts hI hP e
    rw [run_cons]; exact ih sf.inv sf.peer (sf.majMono m hm)

theorem stable_run {s : VoteSet} (hI : Inv s) (hP : PeerInv s) {m : BlockID} (hm : s.maj23 = some m)
    {j : Nat} {w : Vote} (hw : at? s.votes j = some w) (hk : w.block.key = m.key) (evs : List Event) :
    at? (run s evs).votes j = some w := by
  induction evs generalizing s with
  | nil => exact hw
  | cons e evs ih =>
    have sf := stepFacts hI hP e
    rw [run_cons]; exact ih sf.inv sf.peer (sf.majMono m hm) (sf.stable m hm j w hw hk)

/-- (1, history form) a vote is counted for a block key iff some `AddVote` of the history reported it added. -/
theorem tracked_run {s : VoteSet} (hI : Inv s) (hP : PeerInv s) (evs : List Event) (k j : Nat) (w : Vote) :
    Tracked (run s evs) k j w ↔ Tracked s k j w ∨
      ∃ e ∈ runLog s evs, e.vote = w ∧ e.added ∧ k = w.block.key ∧ (j : Int) = w.idx := by
  induction evs generalizing s with
  | nil => simp [run, runLog]
  | cons e evs ih =>
    have sf := stepFacts hI hP e
    rw [run_cons, ih sf.inv sf.peer, sf.tracked]
    cases e with
    | peerMaj p b =>
      simp only [runLog]
      constructor
      · rintro ((h | ⟨h, _⟩) | h)
        · exact Or.inl h
        · cases h
        · exact Or.inr h
      · rintro (h | h)
        · exact Or.inl (Or.inl h)
        · exact Or.inr h
    | vote ov =>
      cases ov with
      | none =>
        simp only [runLog]
        constructor
        · rintro ((h | ⟨h, _⟩) | h)
          · exact Or.inl h
          · cases h
          · exact Or.inr h
        · rintro (h | h)
          · exact Or.inl (Or.inl h)
          · exact Or.inr h
      | some v =>
        simp only [runLog, List.mem_cons]
        constructor
        · rintro ((h | ⟨h1, h2, h3, h4⟩) | ⟨e', he', h⟩)
          · exact Or.inl h
          · cases h1
            exact Or.inr ⟨_, Or.inl rfl, rfl, h2, h3, h4⟩
          · exact Or.inr ⟨e', Or.inr he', h⟩
        · rintro (h | ⟨e', he' | he', h1, h2, h3, h4⟩)
          · exact Or.inl (Or.inl h)
          · subst he'; left; right
            simp only at h1; subst h1
            exact ⟨rfl, h2, h3, h4⟩
          · exact Or.inr ⟨e', he', h1, h2, h3, h4⟩

/-- every canonical vote of the final state was there at the start, or was counted at the start,
or was stored by an `AddVote` of the history -/
theorem votes_run {s : VoteSet} (hI : Inv s) (hP : PeerInv s) (evs : List Event) (j : Nat) (w : Vote)
    (hw : at? (run s evs).votes j = some w) :
    at? s.votes j = some w ∨ Tracked s w.block.key j w ∨
      ∃ e ∈ runLog s evs, e.vote = w ∧ e.stored ∧ (j : Int) = w.idx := by
  induction evs generalizing s with
  | nil => exact Or.inl hw
  | cons e evs ih =>
    have sf := stepFacts hI hP e
    rw [run_cons] at hw
    have hlog : ∀ e', e' ∈ runLog (step s e) evs → e' ∈ runLog s (e :: evs) := by
      intro e' he'
      cases e with
      | peerMaj p b => exact he'
      | vote ov =>
        cases ov with
        | none => exact he'
        | some v => simp only [runLog, List.mem_cons]; exact Or.inr he'
    have hhead : ∀ v, e = .vote (some v) → (⟨s, v, (addVote s (some v)).2⟩ : LogEntry) ∈ runLog s (e :: evs) := by
      intro v hv; subst hv; simp [runLog]
    rcases ih sf.inv sf.peer hw with h | h | ⟨e', he', h⟩
    · rcases sf.votesFrom j w h with h | h | ⟨h1, h2, h3⟩
      · exact Or.inl h
      · exact Or.inr (Or.inl h)
      · exact Or.inr (Or.inr ⟨_, hhead w h1, rfl, h3, h2⟩)
    · rcases (sf.tracked _ _ _).mp h with h | ⟨h1, h2, _, h4⟩
      · exact Or.inr (Or.inl h)
      · exact Or.inr (Or.inr ⟨_, hhead w h1, rfl, Or.inl h2, h4⟩)
    · exact Or.inr (Or.inr ⟨e', hlog e' he', h⟩)

/-- a vote that replaced `votes[i]` after the majority formed stays there -/
theorem late_run {s : VoteSet} (hI : Inv s) (hP : PeerInv s) (evs : List Event) (e : LogEntry)
    (he : e ∈ runLog s evs) (hl : e.lateStored) :
    at? (run s evs).votes e.vote.idx.toNat = some e.vote ∧
      ∃ m, (run s evs).maj23 = some m ∧ m.key = e.vote.block.key := by
  induction evs generalizing s with
  | nil => simp [runLog] at he
  | cons ev evs ih =>
    have sf := stepFacts hI hP ev
    rw [run_cons]
    cases ev with
    | peerMaj p b => exact ih sf.inv sf.peer he
    | vote ov =>
      cases ov with
      | none => exact ih sf.inv sf.peer he
      | some v =>
        simp only [runLog, List.mem_cons] at he
        rcases he with he | he
        · subst he
          have h1 := sf.late v rfl hl
          obtain ⟨_, m, hm, hk⟩ := hl
          simp only at hm hk
          have hm' := sf.majMono m hm
          exact ⟨stable_run sf.inv sf.peer hm' h1 hk.symm evs, m, maj_run_mono sf.inv sf.peer hm' evs, hk⟩
        · exact ih sf.inv sf.peer he

end GnoVerif.C35
