import GnoVerif.Proofs.C27Run
/-!
C27: concrete one-block chains, evaluated by the kernel, for the
counterexample theorems and the non-vacuity examples in `Props/C27.lean`.
-/
namespace GnoVerif.C27

/-- the hypothetical design without the collector. -/
def cfgSplit : Cfg :=
  { fastMain := false, aux := none, keepRecent := 0, keepEvery := 0, initialHeight := 1, collected := false }

/-- the code's design, same parameters. -/
def cfgColl : Cfg := { cfgSplit with collected := true }

/-- the chain: empty genesis, one empty block. -/
def exRunSplit : Except Err (App × List (Nat × List StoreInfo)) := runBlocks (boot cfgSplit []) [[]]
def exRunColl : Except Err (App × List (Nat × List StoreInfo)) := runBlocks (boot cfgColl []) [[]]

def exA (r : Except Err (App × List (Nat × List StoreInfo))) (cfg : Cfg) : App :=
  match r with | .ok p => p.1 | .error _ => App.fresh cfg []
def exIds (r : Except Err (App × List (Nat × List StoreInfo))) : List (Nat × List StoreInfo) :=
  match r with | .ok p => p.2 | .error _ => []

theorem exRunSplit_ok : exRunSplit = .ok (exA exRunSplit cfgSplit, exIds exRunSplit) := by rfl
theorem exRunColl_ok : exRunColl = .ok (exA exRunColl cfgColl, exIds exRunColl) := by rfl

/-- without the collector the one commit is THREE physical writes
(base-store flush, the tree's SaveVersion, the metadata). -/
theorem exSplit_log_length : (exA exRunSplit cfgSplit).log.length = 3 := by rfl

theorem exColl_log_length : (exA exRunColl cfgColl).log.length = 1 := by rfl

def exRec (cfg : Cfg) (d : PDB) : App :=
  match recover cfg d with | .ok r => r | .error _ => App.fresh cfg []

/-- the database after the first of the three writes. -/
def exSplitCut : PDB := replay ((exA exRunSplit cfgSplit).log.take 1)

theorem exSplit_recover : recover cfgSplit exSplitCut = .ok (exRec cfgSplit exSplitCut) := by rfl

/-- it reopens at version 0 but the base store already holds the new block's header. -/
theorem exSplit_torn_prev : (exRec cfgSplit exSplitCut).obs ≠ (boot cfgSplit []).committedObs := by
  decide

theorem exSplit_torn_new :
    (exRec cfgSplit exSplitCut).obs ≠ (exA exRunSplit cfgSplit).committedObs := by
  decide

/-- collected design, but a storage engine that applies only the first op of the batch. -/
def exCollBatch : List WOp := (exA exRunColl cfgColl).log.headD []

def exCollCut : PDB := applyBatch [] (exCollBatch.take 1)

theorem exColl_log : (exA exRunColl cfgColl).log = [exCollBatch] := by rfl

theorem exColl_batch_length : exCollBatch.length = 4 := by rfl

theorem exColl_recover : recover cfgColl exCollCut = .ok (exRec cfgColl exCollCut) := by rfl

theorem exColl_torn_prev : (exRec cfgColl exCollCut).obs ≠ (boot cfgColl []).committedObs := by
  decide

theorem exColl_torn_new : (exRec cfgColl exCollCut).obs ≠ (exA exRunColl cfgColl).committedObs := by
  decide

end GnoVerif.C27
