import GnoVerif.Model.C15
/-! Helper lemmas for C15 (core-only). -/
namespace GnoVerif.C15

variable {π σ β : Type} [DecidableEq π]

/-! ### upd -/

@[simp] theorem upd_same {α : Type} (f : Addr → α) (a : Addr) (v : α) : upd f a v a = v := by
  simp [upd]

theorem upd_other {α : Type} (f : Addr → α) (a : Addr) (v : α) (x : Addr) (h : x ≠ a) : upd f a v x = f x := by
  simp [upd, h]

@[simp] theorem upd2_same {α : Type} (f : Addr → Addr → α) (a b : Addr) (v : α) : upd2 f a b v a b = v := by
  simp [upd2]

theorem upd2_other {α : Type} (f : Addr → Addr → α) (a b : Addr) (v : α) (x y : Addr) (h : ¬ (x = a ∧ y = b)) :
    upd2 f a b v x y = f x y := by
  simp [upd2, h]

/-! ### signers are duplicate-free -/

theorem dedupAux_nodup : ∀ (l acc : List Addr), acc.Nodup → (dedupAux l acc).Nodup
  | [], acc, h => by
    unfold dedupAux
    unfold List.Nodup at *
    rw [List.pairwise_reverse]
    exact h.imp (fun hab => Ne.symm hab)
  | a :: r, acc, h => by
    unfold dedupAux
    split
    · exact dedupAux_nodup r acc h
    · rename_i hn
      exact dedupAux_nodup r (a :: acc) (List.nodup_cons.mpr ⟨hn, h⟩)

omit [DecidableEq π] in
theorem signersOf_nodup (msgs : List (Msg π)) : (signersOf msgs).Nodup :=
  dedupAux_nodup _ [] List.nodup_nil

/-! ### inversion of `ante` -/

/-- Everything `ante = ok` implies about the run. -/
structure AnteOk (cr : Crypto π σ β) (cfg : Config) (s : State π) (tx : Tx π σ) (s' : State π) : Prop where
  gasOk : ¬ (cfg.maxGas ≠ -1 ∧ cfg.maxGas < tx.gasWanted)
  feeValid : tx.fee.isValid = true
  lenEq : tx.sigs.length = (signersOf tx.msgs).length
  sigsNe : tx.sigs.length ≠ 0
  run : ∃ r0 rs s1 r0', resolveAll s (signersOf tx.msgs) tx.sigs = .ok (r0 :: rs) ∧
        phase2 cfg s tx r0 = .ok (s1, r0') ∧
        ((s.height = 0 ∧ cfg.verifyGenesis = false ∧ s' = s1) ∨
         (¬ (s.height = 0 ∧ cfg.verifyGenesis = false) ∧
            sigLoop cr cfg (decide (s.height = 0)) tx s1 (r0' :: rs) tx.sigs = .ok s'))

theorem ante_ok_inv (cr : Crypto π σ β) (cfg : Config) (s : State π) (tx : Tx π σ) (s' : State π)
    (h : ante cr cfg s tx = .ok s') : AnteOk cr cfg s tx s' := by
  unfold ante at h
  split at h
  · cases h
  rename_i h1
  split at h
  · cases h
  split at h
  · cases h
  split at h
  · cases h
  split at h
  · cases h
  rename_i h5
  split at h
  · cases h
  rename_i h6
  simp only [] at h
  split at h
  · cases h
  rename_i h7
  split at h
  · cases h
  split at h
  · cases h
  split at h
  · cases h
  · cases h
  rename_i r0 rs hres
  split at h
  · cases h
  rename_i s1 r0' hp2
  refine ⟨h1, by simpa using h5, by simpa using h7, h6, r0, rs, s1, r0', hres, hp2, ?_⟩
  split at h
  · rename_i hg
    left
    injection h with h
    exact ⟨hg.1, by simpa using hg.2, h.symm⟩
  · rename_i hg
    right
    refine ⟨?_, h⟩
    intro hc
    exact hg ⟨hc.1, by simp [hc.2]⟩


/-! ### phase 1 -/

/-- what phase 1 establishes for one signer -/
def ResolvedFor (s : State π) (a : Addr) (g : Sig π σ) (r : Resolved π) : Prop :=
  r.addr = a ∧ s.accounts a = some r.acc ∧
  (match g.session with
   | none => r.sess = none
   | some sa => ∃ ss, r.sess = some (sa, ss) ∧ s.sessions a sa = some ss ∧
       ¬ (ss.expiresAt > 0 ∧ s.time ≥ ss.expiresAt))

omit [DecidableEq π] in
theorem resolveOne_ok (s : State π) (a : Addr) (g : Sig π σ) (r : Resolved π)
    (h : resolveOne s a g = .ok r) : ResolvedFor s a g r := by
  unfold resolveOne at h
  split at h
  · cases h
  rename_i acc hacc
  split at h
  · rename_i hs
    injection h with h
    subst h
    exact ⟨rfl, hacc, by simp [hs]⟩
  · rename_i sa hs
    split at h
    · cases h
    rename_i ss hss
    split at h
    · cases h
    rename_i hexp
    injection h with h
    subst h
    refine ⟨rfl, hacc, ?_⟩
    simp only [hs]
    exact ⟨ss, rfl, hss, hexp⟩

/-- pointwise relation between signers, signatures and resolved signers -/
inductive R3 (P : Addr → Sig π σ → Resolved π → Prop) :
    List Addr → List (Sig π σ) → List (Resolved π) → Prop where
  | nil : R3 P [] [] []
  | cons {a g r as gs rs} : P a g r → R3 P as gs rs → R3 P (a :: as) (g :: gs) (r :: rs)

omit [DecidableEq π] in
theorem resolveAll_ok (s : State π) : ∀ (as : List Addr) (gs : List (Sig π σ)) (rs : List (Resolved π)),
    as.length = gs.length → resolveAll s as gs = .ok rs → R3 (ResolvedFor s) as gs rs
  | [], [], rs, _, h => by
    simp [resolveAll] at h
    subst h
    exact .nil
  | [], _ :: _, _, hl, _ => by simp at hl
  | _ :: _, [], _, hl, _ => by simp at hl
  | a :: as, g :: gs, rs, hl, h => by
    unfold resolveAll at h
    split at h
    · cases h
    rename_i r hr
    split at h
    · cases h
    rename_i rs' hrs
    injection h with h
    subst h
    exact .cons (resolveOne_ok s a g r hr) (resolveAll_ok s as gs rs' (by simpa using hl) hrs)

end GnoVerif.C15
