import GnoVerif.Proofs.C41State
/-! Invariant of the state database along a chain of `SaveState` calls (C41). -/
namespace GnoVerif.C41

open GnoVerif.Gen.C41 (valSetCheckpointInterval)

variable {VS : Type}

/-- consensus-params records after saving `hist` (newest state `s`): `Lp j` = last change height
as of `j`, `Pf j` = params in effect at `j` -/
def PSpec (db : DB VS) (hist : List (St VS)) (s : St VS) (Lp : Int → Int) (Pf : Int → Params) : Prop :=
  (∀ j, s.ih ≤ j → j ≤ s.lbh + 1 →
     get db.params j = some ⟨if Lp j = j then Pf j else Params.empty, Lp j⟩ ∧
     s.ih ≤ Lp j ∧ Lp j ≤ j ∧ Lp (Lp j) = Lp j ∧ Pf (Lp j) = Pf j) ∧
  s.params = Pf (s.lbh + 1) ∧ s.lhpc = Lp (s.lbh + 1) ∧
  (∀ t ∈ hist, t.params = Pf (t.lbh + 1) ∧ s.ih ≤ t.lbh + 1 ∧ t.lbh ≤ s.lbh)

/-- validator records after saving `hist`: `Lf j` = last change height as of `j`, `Nf j` = set in
effect at `j`; within a window without change the sets are rotations of one another -/
def VSpec (inc1 : VS → Except String VS) (db : DB VS) (hist : List (St VS)) (s : St VS)
    (Lf : Int → Int) (Nf : Int → VS) : Prop :=
  (∀ j, s.ih ≤ j → j ≤ s.lbh + 2 →
     get db.vals j = some ⟨if j = Lf j ∨ Int.tmod j valSetCheckpointInterval = 0 then some (Nf j) else none, Lf j⟩ ∧
     s.ih ≤ Lf j ∧ Lf j ≤ j) ∧
  (∀ j i, s.ih ≤ j → j ≤ s.lbh + 2 → Lf j ≤ i → i ≤ j →
     Lf i = Lf j ∧ incLoop inc1 (j - i).toNat (Nf i) = .ok (Nf j)) ∧
  s.nvals = some (Nf (s.lbh + 2)) ∧ s.lhvc = Lf (s.lbh + 2) ∧
  (∀ t ∈ hist, t.nvals = some (Nf (t.lbh + 2)) ∧ t.vals = some (Nf (t.lbh + 1)) ∧ s.ih ≤ t.lbh + 1 ∧ t.lbh ≤ s.lbh) ∧
  (∀ g, hist.getLast? = some g → g.vals = some (Nf s.ih) ∧ g.ih = s.ih)

structure Inv (inc1 : VS → Except String VS) (hist : List (St VS)) (s : St VS) : Prop where
  ih1 : 1 ≤ s.ih
  hi : s.ih ≤ s.lbh + 1
  saved : allSaved (DB.empty : DB VS) hist
  state : (saveAll (DB.empty : DB VS) hist).state = some s
  exP : ∃ Lp Pf, PSpec (saveAll DB.empty hist) hist s Lp Pf
  exV : ∃ Lf Nf, VSpec inc1 (saveAll DB.empty hist) hist s Lf Nf

theorem inv_genesis (inc1 : VS → Except String VS) (s : St VS) (h : IsGenesis inc1 s) : Inv inc1 [s] s := by
  obtain ⟨h1, h2, h3, h4, v, n, hv, hn, hinc⟩ := h
  have e1 : s.lbh + 1 = s.ih := by omega
  have hs := saveState_first (DB.empty : DB VS) s e1 (by omega)
  have hdb : saveAll (DB.empty : DB VS) [s] = (saveState DB.empty s).1 := rfl
  rw [hs] at hdb
  have hne : s.lbh + 2 ≠ s.lbh + 1 := by omega
  have gv1 : get (saveAll (DB.empty : DB VS) [s]).vals (s.lbh + 1) = some ⟨s.vals, s.lbh + 1⟩ := by
    rw [hdb]; show get (set (set _ _ _) _ _) _ = _
    rw [get_set_ne _ _ hne, get_set_eq]
  have gv2 : get (saveAll (DB.empty : DB VS) [s]).vals (s.lbh + 2) =
      some ⟨if s.lbh + 2 = s.lhvc ∨ Int.tmod (s.lbh + 2) valSetCheckpointInterval = 0 then s.nvals else none, s.lhvc⟩ := by
    rw [hdb]; show get (set (set _ _ _) _ _) _ = _
    rw [get_set_eq]
  have gp1 : get (saveAll (DB.empty : DB VS) [s]).params (s.lbh + 1) = some ⟨s.params, s.lbh + 1⟩ := by
    rw [hdb]; show get (set _ _ _) _ = _
    rw [get_set_eq]
  refine ⟨h1, by omega, ?_, ?_, ?_, ?_⟩
  · simp only [allSaved, saveAll, hs, and_self]
  · rw [hdb]
  · refine ⟨fun _ => s.ih, fun _ => s.params, ?_, rfl, h4, ?_⟩
    · intro j hj1 hj2
      have : j = s.lbh + 1 := by omega
      subst this
      dsimp only
      rw [gp1, if_pos e1.symm, e1]
      exact ⟨rfl, Int.le_refl _, Int.le_refl _, rfl, rfl⟩
    · intro t ht
      simp only [List.mem_singleton] at ht
      subst ht
      exact ⟨rfl, by omega, Int.le_refl _⟩
  · refine ⟨fun _ => s.ih, fun j => if j = s.ih then v else n, ?_, ?_, ?_, h3, ?_, ?_⟩
    · intro j hj1 hj2
      dsimp only
      have hjj : j = s.lbh + 1 ∨ j = s.lbh + 2 := by omega
      rcases hjj with rfl | rfl
      · rw [gv1, if_pos (Or.inl e1), if_pos e1, hv, e1]
        exact ⟨rfl, Int.le_refl _, Int.le_refl _⟩
      · have hne2 : ¬ (s.lbh + 2 = s.ih) := by omega
        rw [gv2, h3, if_neg hne2, hn]
        exact ⟨rfl, Int.le_refl _, by omega⟩
    · intro j i hj1 hj2 hi1 hi2
      dsimp only at hi1 ⊢
      refine ⟨rfl, ?_⟩
      have hjj : j = s.ih ∨ j = s.ih + 1 := by omega
      rcases hjj with rfl | rfl
      · have : i = s.ih := by omega
        subst this
        simp [incLoop]
      · have hii : i = s.ih ∨ i = s.ih + 1 := by omega
        rcases hii with rfl | rfl
        · have hne3 : ¬ (s.ih + 1 = s.ih) := by omega
          have e : (s.ih + 1 - s.ih).toNat = 1 := by omega
          simp only [e, if_true, hne3, if_false, incLoop, hinc]
        · simp [incLoop]
    · have hne2 : ¬ (s.lbh + 2 = s.ih) := by omega
      dsimp only
      rw [if_neg hne2, hn]
    · intro t ht
      simp only [List.mem_singleton] at ht
      subst ht
      have hne2 : ¬ (t.lbh + 2 = t.ih) := by omega
      dsimp only
      rw [if_neg hne2, hn, if_pos e1, hv]
      exact ⟨rfl, rfl, by omega, Int.le_refl _⟩
    · intro g hg
      simp only [List.getLast?_singleton, Option.some.injEq] at hg
      subst hg
      dsimp only
      rw [if_pos rfl, hv]
      exact ⟨rfl, rfl⟩

theorem inv_next (inc1 : VS → Except String VS) (s s' : St VS) (rest : List (St VS))
    (hinv : Inv inc1 (s :: rest) s) (hnext : IsNext inc1 s s') : Inv inc1 (s' :: s :: rest) s' := by
  obtain ⟨lbh', ih', vals', nvals', lhvc', params', lhpc'⟩ := s'
  obtain ⟨hl, hih, hvals, ⟨n, n', hn, hn', hvc⟩, hpc⟩ := hnext
  dsimp only at hl hih hvals hn' hvc hpc
  subst hl hih hvals hn'
  obtain ⟨ih1, hi, saved, hstate, ⟨Lp, Pf, hP1, hP2, hP3, hP4⟩, ⟨Lf, Nf, hE, hW, hN, hL, hT, hG⟩⟩ := hinv
  have hnN : n = Nf (s.lbh + 2) := by rw [hn] at hN; exact Option.some.inj hN
  have hEtop := hE (s.lbh + 2) (by omega) (Int.le_refl _)
  have hPtop := hP1 (s.lbh + 1) (by omega) (Int.le_refl _)
  have hb : lhvc' ≤ s.lbh + 1 + 2 := by
    rcases hvc with ⟨h, _⟩ | h
    · rw [h, hL]; omega
    · omega
  -- the new state and database
  let s' : St VS := ⟨s.lbh + 1, s.ih, s.nvals, some n', lhvc', params', lhpc'⟩
  have hs := saveState_later (saveAll (DB.empty : DB VS) (s :: rest)) s' (by show s.ih < s.lbh + 1 + 1; omega) hb
  have hdb : saveAll (DB.empty : DB VS) (s' :: s :: rest) = (saveState (saveAll DB.empty (s :: rest)) s').1 := rfl
  rw [hs] at hdb
  have k2 : s.lbh + 1 + 2 = s.lbh + 3 := by omega
  have k1 : s.lbh + 1 + 1 = s.lbh + 2 := by omega
  dsimp only [s'] at hdb
  rw [k2, k1] at hdb
  have gvN : get (saveAll (DB.empty : DB VS) (s' :: s :: rest)).vals (s.lbh + 3) =
      some ⟨if s.lbh + 3 = lhvc' ∨ Int.tmod (s.lbh + 3) valSetCheckpointInterval = 0 then some n' else none, lhvc'⟩ := by
    rw [hdb]; show get (set _ _ _) _ = _
    rw [get_set_eq]
  have gvO : ∀ j, j ≠ s.lbh + 3 → get (saveAll (DB.empty : DB VS) (s' :: s :: rest)).vals j =
      get (saveAll (DB.empty : DB VS) (s :: rest)).vals j := by
    intro j hj
    rw [hdb]; show get (set _ _ _) _ = _
    rw [get_set_ne _ _ (Ne.symm hj)]
  have gpN : get (saveAll (DB.empty : DB VS) (s' :: s :: rest)).params (s.lbh + 2) =
      some ⟨if lhpc' = s.lbh + 2 then params' else Params.empty, lhpc'⟩ := by
    rw [hdb]; show get (set _ _ _) _ = _
    rw [get_set_eq]
  have gpO : ∀ j, j ≠ s.lbh + 2 → get (saveAll (DB.empty : DB VS) (s' :: s :: rest)).params j =
      get (saveAll (DB.empty : DB VS) (s :: rest)).params j := by
    intro j hj
    rw [hdb]; show get (set _ _ _) _ = _
    rw [get_set_ne _ _ (Ne.symm hj)]
  refine ⟨ih1, by show s.ih ≤ s.lbh + 1 + 1; omega, ?_, ?_, ?_, ?_⟩
  · exact ⟨saved, by rw [hs]⟩
  · rw [hdb]
  · -- consensus params
    refine ⟨fun j => if j = s.lbh + 2 then lhpc' else Lp j, fun j => if j = s.lbh + 2 then params' else Pf j, ?_, ?_, ?_, ?_⟩
    · intro j hj1 hj2
      dsimp only at hj1 hj2 ⊢
      by_cases hj : j = s.lbh + 2
      · subst hj
        rw [gpN]
        simp only [↓reduceIte]
        rcases hpc with ⟨h1, h2⟩ | h1
        · obtain ⟨-, q1, q2, q3, q4⟩ := hPtop
          have hne : ¬ (lhpc' = s.lbh + 2) := by rw [h1, hP3]; omega
          simp only [hne, ↓reduceIte]
          refine ⟨trivial, by rw [h1, hP3]; exact q1, by rw [h1, hP3]; omega, ?_, ?_⟩
          · rw [h1, hP3]; exact q3
          · rw [h1, hP3, h2, hP2]; exact q4
        · have h1' : lhpc' = s.lbh + 2 := by omega
          simp only [h1', ↓reduceIte]
          exact ⟨trivial, by omega, by omega, trivial, trivial⟩
      · obtain ⟨q0, q1, q2, q3, q4⟩ := hP1 j hj1 (by omega)
        have hne : ¬ (Lp j = s.lbh + 2) := by omega
        rw [gpO j hj]
        simp only [hj, hne, ↓reduceIte]
        exact ⟨q0, q1, q2, q3, q4⟩
    · simp only [k1, ↓reduceIte]
    · simp only [k1, ↓reduceIte]
    · intro t ht
      rcases List.mem_cons.mp ht with rfl | ht
      · simp only [k1, ↓reduceIte]
        exact ⟨trivial, by omega, Int.le_refl _⟩
      · obtain ⟨q1, q2, q3⟩ := hP4 t ht
        have hne : ¬ (t.lbh + 1 = s.lbh + 2) := by omega
        simp only [hne, ↓reduceIte]
        exact ⟨q1, q2, by omega⟩
  · -- validators
    refine ⟨fun j => if j = s.lbh + 3 then lhvc' else Lf j, fun j => if j = s.lbh + 3 then n' else Nf j, ?_, ?_, ?_, ?_, ?_, ?_⟩
    · intro j hj1 hj2
      dsimp only at hj1 hj2 ⊢
      by_cases hj : j = s.lbh + 3
      · subst hj
        rw [gvN]
        simp only [↓reduceIte]
        refine ⟨trivial, ?_, by omega⟩
        rcases hvc with ⟨h, _⟩ | h
        · rw [h, hL]; exact hEtop.2.1
        · omega
      · obtain ⟨q0, q1, q2⟩ := hE j hj1 (by omega)
        rw [gvO j hj]
        simp only [hj, ↓reduceIte]
        exact ⟨q0, q1, q2⟩
    · intro j i hj1 hj2 hi1 hi2
      dsimp only at hj1 hj2 hi1 ⊢
      by_cases hj : j = s.lbh + 3
      · subst hj
        simp only [↓reduceIte] at hi1 ⊢
        by_cases hi : i = s.lbh + 3
        · subst hi
          simp only [↓reduceIte]
          refine ⟨trivial, ?_⟩
          have : (s.lbh + 3 - (s.lbh + 3)).toNat = 0 := by omega
          rw [this]; rfl
        · simp only [hi, ↓reduceIte]
          rcases hvc with ⟨h, hinc⟩ | h
          · rw [h, hL] at hi1 ⊢
            obtain ⟨w1, w2⟩ := hW (s.lbh + 2) i (by omega) (Int.le_refl _) hi1 (by omega)
            refine ⟨w1, ?_⟩
            have e : (s.lbh + 3 - i).toNat = (s.lbh + 2 - i).toNat + 1 := by omega
            rw [e]
            exact incLoop_step inc1 w2 (by rw [← hnN]; exact hinc)
          · exfalso; omega
      · simp only [hj, ↓reduceIte] at hi1
        have hi : ¬ (i = s.lbh + 3) := by omega
        simp only [hj, hi, ↓reduceIte]
        exact hW j i hj1 (by omega) hi1 hi2
    · simp only [k2, ↓reduceIte]
    · simp only [k2, ↓reduceIte]
    · intro t ht
      rcases List.mem_cons.mp ht with rfl | ht
      · have hne : ¬ (s.lbh + 2 = s.lbh + 3) := by omega
        simp only [k2, k1, hne, ↓reduceIte]
        exact ⟨trivial, hN, by omega, Int.le_refl _⟩
      · obtain ⟨q1, q1', q2, q3⟩ := hT t ht
        have hne : ¬ (t.lbh + 2 = s.lbh + 3) := by omega
        have hne' : ¬ (t.lbh + 1 = s.lbh + 3) := by omega
        simp only [hne, hne', ↓reduceIte]
        exact ⟨q1, q1', q2, by omega⟩
    · intro g hg
      have hg' : (s :: rest).getLast? = some g := by
        rw [List.getLast?_cons_cons] at hg; exact hg
      have hne : ¬ (s.ih = s.lbh + 3) := by omega
      simp only [hne, ↓reduceIte]
      exact hG g hg'

theorem chain_inv (inc1 : VS → Except String VS) {hist : List (St VS)} (h : Chain inc1 hist) :
    ∃ s rest, hist = s :: rest ∧ Inv inc1 hist s := by
  induction h with
  | genesis hg => exact ⟨_, [], rfl, inv_genesis inc1 _ hg⟩
  | next hc hn ih =>
    obtain ⟨s0, rest0, he, hinv⟩ := ih
    injection he with h1 h2
    subst h1 h2
    exact ⟨_, _, rfl, inv_next inc1 _ _ _ hinv hn⟩

end GnoVerif.C41
