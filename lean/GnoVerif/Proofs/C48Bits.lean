/- Word-level helper lemmas for C48. -/
import GnoVerif.Spec.C48
namespace GnoVerif.C48

theorem one_shl_eq {w : Nat} (k : Nat) : ((1 : BitVec w) <<< k) = BitVec.twoPow w k := by
  rw [BitVec.twoPow_eq]; rfl

/-- `e & (1 << k) > 0` tests bit `k` -/
theorem bitTest_eq {w : Nat} (e : BitVec w) (k : Nat) (hk : k < w) :
    decide ((e &&& ((1 : BitVec w) <<< k)) > 0) = e.getLsbD k := by
  rw [one_shl_eq, BitVec.and_twoPow]
  by_cases h : e.getLsbD k
  · simp only [h, if_true]
    have : (0 : BitVec w) < BitVec.twoPow w k := by
      rw [BitVec.lt_def, BitVec.toNat_twoPow_of_lt hk]
      exact Nat.two_pow_pos k
    simpa using this
  · simp [h]

theorem wordBit_eq (e : Word) (k : Nat) (hk : k < 64) : wordBit e k = e.getLsbD k :=
  bitTest_eq e k hk

theorem getLsbD_one_shl {w : Nat} (k j : Nat) (hk : k < w) :
    ((1 : BitVec w) <<< k).getLsbD j = decide (k = j) := by
  rw [one_shl_eq, BitVec.getLsbD_twoPow]; simp [hk]

theorem getLsbD_setBit {w : Nat} (e : BitVec w) (k j : Nat) (hk : k < w) :
    (e ||| ((1 : BitVec w) <<< k)).getLsbD j = (e.getLsbD j || decide (k = j)) := by
  rw [BitVec.getLsbD_or, getLsbD_one_shl _ _ hk]

theorem getLsbD_clearBit {w : Nat} (e : BitVec w) (k j : Nat) (hk : k < w) (hj : j < w) :
    (e &&& ~~~((1 : BitVec w) <<< k)).getLsbD j = (e.getLsbD j && !decide (k = j)) := by
  rw [BitVec.getLsbD_and, BitVec.getLsbD_not, getLsbD_one_shl _ _ hk]; simp [hj]

theorem getLsbD_lt (e : Word) (j : Nat) (h : e.getLsbD j = true) : j < 64 := by
  rcases Nat.lt_or_ge j 64 with hc | hc
  · exact hc
  · rw [BitVec.getLsbD_of_ge e j hc] at h
    exact Bool.noConfusion h

/-- `(1<<k) - 1` has exactly the bits below `k` (for `k ≤ 64`: `1<<64 = 0`, `0-1` = all ones). -/
theorem getLsbD_mask (k j : Nat) (hk : k ≤ 64) :
    (((1 : Word) <<< k) - 1).getLsbD j = decide (j < k) := by
  have h1 : (((1 : Word) <<< k) - 1).toNat = 2 ^ k - 1 := by
    rw [one_shl_eq (w := 64), BitVec.toNat_sub, BitVec.toNat_twoPow_eq_ite]
    by_cases hk' : k < 64
    · simp only [hk', if_true]
      have : 2 ^ k ≤ 2 ^ 64 := Nat.pow_le_pow_right (by omega) (by omega)
      have hp : 0 < 2 ^ k := Nat.two_pow_pos k
      have h1 : BitVec.toNat (1 : Word) = 1 := rfl
      have hlt : 2 ^ k < 2 ^ 64 := Nat.pow_lt_pow_right (by omega) hk'
      rw [h1]
      generalize 2 ^ k = p at *
      omega
    · have : k = 64 := by omega
      subst this
      simp
  rw [BitVec.getLsbD, h1, Nat.testBit_two_pow_sub_one]

/-! ### lists of words -/

theorem length_goCopy {α : Type} (dst src : List α) : (goCopy dst src).length = dst.length := by
  unfold goCopy
  simp only [List.length_append, List.length_take, List.length_drop]
  omega

theorem getD_goCopy {α : Type} (dst src : List α) (j : Nat) (d : α) :
    (goCopy dst src).getD j d =
      if j < min dst.length src.length then src.getD j d else dst.getD j d := by
  unfold goCopy
  simp only [List.getD_eq_getElem?_getD, List.getElem?_append, List.length_take,
    List.getElem?_take, List.getElem?_drop]
  by_cases h1 : j < min dst.length src.length
  · simp only [h1, if_true]
    rw [if_pos (by omega)]
  · simp only [h1, if_false]
    by_cases h2 : j < dst.length
    · congr 2
      omega
    · rw [List.getElem?_eq_none (by omega), List.getElem?_eq_none (by omega)]

theorem goCopy_self_zero {α : Type} (es : List α) (z : α) :
    goCopy (List.replicate es.length z) es = es := by
  unfold goCopy
  simp

theorem getD_replicate_zero (n j : Nat) : (List.replicate n (0 : Word)).getD j 0 = 0 := by
  simp only [List.getD_eq_getElem?_getD, List.getElem?_replicate]
  split <;> rfl

theorem bitAt_nil (i : Nat) : bitAt [] i = false := by
  simp [bitAt]

theorem bitAt_of_ge (es : List Word) (i : Nat) (h : es.length ≤ i / 64) : bitAt es i = false := by
  unfold bitAt
  rw [List.getD_eq_getElem?_getD, List.getElem?_eq_none h]
  simp

theorem bitAt_goCopy_zero (n : Nat) (src : List Word) (i : Nat) :
    bitAt (goCopy (List.replicate n 0) src) i = (decide (i / 64 < n) && bitAt src i) := by
  unfold bitAt
  rw [getD_goCopy, getD_replicate_zero, List.length_replicate]
  by_cases h1 : i / 64 < n
  · by_cases h2 : i / 64 < src.length
    · simp [h1, h2, show i / 64 < min n src.length by omega]
    · have : src[i / 64]? = none := List.getElem?_eq_none (by omega)
      rw [if_neg (by omega)]
      simp [this]
  · simp [h1, show ¬ i / 64 < min n src.length by omega]

theorem bitAt_set (es : List Word) (j : Nat) (w : Word) (i : Nat) :
    bitAt (es.set j w) i =
      if i / 64 = j ∧ j < es.length then w.getLsbD (i % 64) else bitAt es i := by
  unfold bitAt
  simp only [List.getD_eq_getElem?_getD, List.getElem?_set]
  by_cases h : i / 64 = j
  · subst h
    by_cases h2 : i / 64 < es.length
    · simp [h2]
    · simp [h2]
  · have : ¬ j = i / 64 := fun e => h e.symm
    simp [h, this]

theorem words_ext (a b : List Word) (hl : a.length = b.length)
    (h : ∀ i, bitAt a i = bitAt b i) : a = b := by
  apply List.ext_getElem hl
  intro j h1 h2
  apply BitVec.eq_of_getLsbD_eq
  intro k hk
  have := h (64 * j + k)
  unfold bitAt at this
  rw [show (64 * j + k) / 64 = j by omega, show (64 * j + k) % 64 = k by omega] at this
  simpa [List.getD_eq_getElem?_getD, List.getElem?_eq_getElem h1, List.getElem?_eq_getElem h2] using this

/-- the loop `c[i] = f(c[i], o[i])` for `i < n` never panics when both slices
have at least `n` words, and is the pointwise map on the prefix -/
theorem mapPrefix_ok (f : Word → Word → Word) : ∀ (n : Nat) (c o : List Word),
    n ≤ c.length → n ≤ o.length →
    ∃ r, mapPrefix f n c o = .ok r ∧ r.length = c.length ∧
      ∀ j, r.getD j 0 = if j < n then f (c.getD j 0) (o.getD j 0) else c.getD j 0
  | 0, c, o, _, _ => ⟨c, rfl, rfl, fun j => by simp⟩
  | n + 1, [], _, h, _ => by simp at h
  | n + 1, _ :: _, [], _, h => by simp at h
  | n + 1, x :: c, y :: o, hc, ho => by
    obtain ⟨r, hr, hl, hg⟩ := mapPrefix_ok f n c o (by simpa using hc) (by simpa using ho)
    refine ⟨f x y :: r, ?_, by simp [hl], ?_⟩
    · simp only [mapPrefix, hr]; rfl
    · intro j
      cases j with
      | zero => simp
      | succ j => simpa using hg j

end GnoVerif.C48
