import GnoVerif.Model.C01
/-! Helper lemmas for Props/C01.lean, part 2 (map enumeration order). -/
namespace GnoVerif.C01

/-! ## Part 2: map enumeration order -/

theorem pathLe_refl : ∀ a : List Nat, pathLe a a = true
  | [] => rfl
  | x :: xs => by simp [pathLe, pathLe_refl xs]

theorem pathLe_total : ∀ a b : List Nat, (pathLe a b || pathLe b a) = true
  | [], _ => by simp [pathLe]
  | _ :: _, [] => by simp [pathLe]
  | x :: xs, y :: ys => by
    have ih := pathLe_total xs ys
    simp only [pathLe, Bool.or_eq_true, decide_eq_true_eq, Bool.and_eq_true, beq_iff_eq] at ih ⊢
    rcases Nat.lt_trichotomy x y with h | h | h
    · exact Or.inl (Or.inl h)
    · subst h
      rcases ih with ih | ih
      · exact Or.inl (Or.inr ⟨rfl, ih⟩)
      · exact Or.inr (Or.inr ⟨rfl, ih⟩)
    · exact Or.inr (Or.inl h)

theorem pathLe_trans : ∀ a b c : List Nat, pathLe a b = true → pathLe b c = true → pathLe a c = true
  | [], _, _, _, _ => by simp [pathLe]
  | _ :: _, [], _, h, _ => by simp [pathLe] at h
  | _ :: _, _ :: _, [], _, h => by simp [pathLe] at h
  | x :: xs, y :: ys, z :: zs, h1, h2 => by
    simp only [pathLe, Bool.or_eq_true, decide_eq_true_eq, Bool.and_eq_true, beq_iff_eq] at h1 h2 ⊢
    rcases h1 with h1 | ⟨e1, h1⟩ <;> rcases h2 with h2 | ⟨e2, h2⟩
    · exact Or.inl (Nat.lt_trans h1 h2)
    · subst e2; exact Or.inl h1
    · subst e1; exact Or.inl h2
    · subst e1; subst e2; exact Or.inr ⟨rfl, pathLe_trans xs ys zs h1 h2⟩

theorem pathLe_antisymm : ∀ a b : List Nat, pathLe a b = true → pathLe b a = true → a = b
  | [], [], _, _ => rfl
  | [], _ :: _, _, h => by simp [pathLe] at h
  | _ :: _, [], h, _ => by simp [pathLe] at h
  | x :: xs, y :: ys, h1, h2 => by
    simp only [pathLe, Bool.or_eq_true, decide_eq_true_eq, Bool.and_eq_true, beq_iff_eq] at h1 h2
    rcases h1 with h1 | ⟨e1, h1⟩ <;> rcases h2 with h2 | ⟨e2, h2⟩
    · omega
    · omega
    · omega
    · subst e1; rw [pathLe_antisymm xs ys h1 h2]

/-- Two entries of a list with pairwise distinct keys that have the same key are equal. -/
theorem eq_of_key_eq {α κ : Type} (key : α → κ) :
    ∀ {l : List α}, (l.map key).Nodup → ∀ {a b : α}, a ∈ l → b ∈ l → key a = key b → a = b
  | [], _, _, _, ha, _, _ => by cases ha
  | x :: xs, hnd, a, b, ha, hb, hk => by
    simp only [List.map_cons, List.nodup_cons, List.mem_map, not_exists, not_and] at hnd
    simp only [List.mem_cons] at ha hb
    rcases ha with rfl | ha <;> rcases hb with rfl | hb
    · rfl
    · exact absurd hk.symm (hnd.1 b hb)
    · exact absurd hk (hnd.1 a ha)
    · exact eq_of_key_eq key hnd.2 ha hb hk

/-- SORT-THEN-FOLD is independent of the enumeration: for a total, transitive order that
is antisymmetric on the keys, and entries with pairwise distinct keys. -/
theorem sort_fold_perm_key {α β κ : Type} (key : α → κ) (le : κ → κ → Bool)
    (total : ∀ a b, (le a b || le b a) = true)
    (trans : ∀ a b c, le a b = true → le b c = true → le a c = true)
    (antisymm : ∀ a b, le a b = true → le b a = true → a = b)
    (f : β → α → β) (init : β) {l₁ l₂ : List α} (hp : l₁.Perm l₂) (hnd : (l₁.map key).Nodup) :
    (l₁.mergeSort fun x y => le (key x) (key y)).foldl f init =
      (l₂.mergeSort fun x y => le (key x) (key y)).foldl f init := by
  have hs1 := List.pairwise_mergeSort (le := fun x y => le (key x) (key y))
    (fun a b c => trans (key a) (key b) (key c)) (fun a b => total (key a) (key b)) l₁
  have hs2 := List.pairwise_mergeSort (le := fun x y => le (key x) (key y))
    (fun a b c => trans (key a) (key b) (key c)) (fun a b => total (key a) (key b)) l₂
  have hperm : (l₁.mergeSort fun x y => le (key x) (key y)).Perm (l₂.mergeSort fun x y => le (key x) (key y)) :=
    (List.mergeSort_perm l₁ _).trans (hp.trans (List.mergeSort_perm l₂ _).symm)
  have heq := List.Perm.eq_of_pairwise (le := fun x y => le (key x) (key y) = true) (fun a b ha hb h1 h2 => by
    have ha' : a ∈ l₁ := (List.mergeSort_perm l₁ _).subset ha
    have hb' : b ∈ l₁ := hp.symm.subset ((List.mergeSort_perm l₂ _).subset hb)
    exact eq_of_key_eq key hnd ha' hb' (antisymm _ _ h1 h2)) hs1 hs2 hperm
  rw [heq]

end GnoVerif.C01
