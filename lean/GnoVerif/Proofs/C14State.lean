import GnoVerif.Spec.C14
import GnoVerif.Proofs.C14AList
import GnoVerif.Proofs.C14Coins
/-! Helper lemmas for C14: how the primitive store writes act on `WF` and on the totals. -/
namespace GnoVerif.C14
set_option linter.unusedSimpArgs false
set_option linter.unusedVariables false

theorem splitTotal_eq_sumBy (s : State) (d : Denom) :
    splitTotal s d = sumBy (fun (k : Addr × Denom) (v : Int) => if k.2 = d then v else 0) s.split := rfl

theorem acctTotal_eq_sumBy (s : State) (d : Denom) :
    acctTotal s d = sumBy (fun (_ : Addr) (x : Account) => sumOf x.coins d) s.accts := rfl

/-! ### setAccount -/

@[simp] theorem setAccount_split (s : State) (x : Account) : (setAccount s x).split = s.split := rfl
@[simp] theorem setAccount_supply (s : State) (x : Account) : (setAccount s x).supply = s.supply := rfl
@[simp] theorem setAccount_nextNum (s : State) (x : Account) : (setAccount s x).nextNum = s.nextNum := rfl
@[simp] theorem setAccount_restricted (s : State) (x : Account) : (setAccount s x).restricted = s.restricted := rfl
@[simp] theorem setAccount_unlocked (s : State) (x : Account) : (setAccount s x).unlocked = s.unlocked := rfl

theorem getAcct_setAccount (s : State) (x : Account) (k : Addr) :
    getAcct (setAccount s x) k = if k = x.addr then some x else getAcct s k := by
  unfold getAcct setAccount
  by_cases hk : k = x.addr
  · subst hk; simp [find_upd_some]
  · simp [hk, find_upd_ne _ _ _ _ hk]

@[simp] theorem getSplit_setAccount (s : State) (x : Account) (a : Addr) (d : Denom) :
    getSplit (setAccount s x) a d = getSplit s a d := rfl
@[simp] theorem getSupply_setAccount (s : State) (x : Account) (d : Denom) :
    getSupply (setAccount s x) d = getSupply s d := rfl
@[simp] theorem splitTotal_setAccount (s : State) (x : Account) (d : Denom) :
    splitTotal (setAccount s x) d = splitTotal s d := rfl

theorem acctTotal_setAccount (s : State) (x : Account) (d : Denom) :
    acctTotal (setAccount s x) d =
      acctTotal s d - (match getAcct s x.addr with | some o => sumOf o.coins d | none => 0) + sumOf x.coins d := by
  rw [acctTotal_eq_sumBy, acctTotal_eq_sumBy]
  unfold setAccount getAcct
  simp only
  rw [sumBy_upd]
  cases h : find s.accts x.addr <;> simp [optF]

/-- replacing a stored account by one with the same address and number and
well-formed coins keeps the state well-formed. -/
theorem WF_setAccount_existing {tier : Denom → Bool} {s : State} (h : WF tier s) (x o : Account)
    (ho : getAcct s x.addr = some o) (hnum : x.num = o.num)
    (hv : coinsValid x.coins = true) (ht : ∀ c ∈ x.coins, tier c.denom = true) :
    WF tier (setAccount s x) := by
  have hom : (x.addr, o) ∈ s.accts := find_some_mem _ _ _ ho
  refine ⟨?_, ?_, ?_, ?_, ?_, h.split_pos, ?_, h.split_nodup, h.supply_pos, h.supply_nodup⟩
  · exact all_upd (fun (e : Addr × Account) => e.2.addr = e.1) _ _ _ h.acct_key (by intro v hv'; obtain rfl := Option.some.inj hv'; rfl)
  · exact nodup_upd _ _ _ h.acct_nodup
  · refine all_upd (fun (e : Addr × Account) => e.2.num < s.nextNum) _ _ _ h.acct_num ?_
    intro v hv'; obtain rfl := Option.some.inj hv'
    show x.num < s.nextNum
    rw [hnum]; exact h.acct_num _ hom
  · intro e₁ he₁ e₂ he₂ hn
    rcases mem_upd _ _ _ _ he₁ with h1 | ⟨v1, hv1, rfl⟩ <;>
    rcases mem_upd _ _ _ _ he₂ with h2 | ⟨v2, hv2, rfl⟩
    · exact h.acct_num_inj e₁ h1 e₂ h2 hn
    · obtain rfl := Option.some.inj hv2
      have := h.acct_num_inj e₁ h1 (x.addr, o) hom (by simpa [hnum] using hn)
      exact this
    · obtain rfl := Option.some.inj hv1
      have := h.acct_num_inj (x.addr, o) hom e₂ h2 (by simpa [hnum] using hn)
      exact this
    · rfl
  · refine all_upd (fun (e : Addr × Account) => coinsValid e.2.coins = true ∧ ∀ c ∈ e.2.coins, tier c.denom = true) _ _ _ h.acct_coins ?_
    intro v hv'; obtain rfl := Option.some.inj hv'; exact ⟨hv, ht⟩
  · intro e he
    have := h.split_key e he
    refine ⟨this.1, this.2.1, ?_⟩
    rw [getAcct_setAccount]
    split
    · rfl
    · exact this.2.2

/-- filing a brand-new account (fresh address, number = the counter, counter bumped). -/
theorem WF_setAccount_new {tier : Denom → Bool} {s : State} (h : WF tier s) (x : Account)
    (hnone : getAcct s x.addr = none) (hnum : x.num = s.nextNum)
    (hv : coinsValid x.coins = true) (ht : ∀ c ∈ x.coins, tier c.denom = true) :
    WF tier (setAccount { s with nextNum := s.nextNum + 1 } x) := by
  refine ⟨?_, ?_, ?_, ?_, ?_, h.split_pos, ?_, h.split_nodup, h.supply_pos, h.supply_nodup⟩
  · exact all_upd (fun (e : Addr × Account) => e.2.addr = e.1) _ _ _ h.acct_key (by intro v hv'; obtain rfl := Option.some.inj hv'; rfl)
  · exact nodup_upd _ _ _ h.acct_nodup
  · refine all_upd (fun (e : Addr × Account) => e.2.num < s.nextNum + 1) _ _ _ ?_ ?_
    · intro e he; have := h.acct_num e he; omega
    · intro v hv'; obtain rfl := Option.some.inj hv'; show x.num < s.nextNum + 1; omega
  · intro e₁ he₁ e₂ he₂ hn
    rcases mem_upd _ _ _ _ he₁ with h1 | ⟨v1, hv1, rfl⟩ <;>
    rcases mem_upd _ _ _ _ he₂ with h2 | ⟨v2, hv2, rfl⟩
    · exact h.acct_num_inj e₁ h1 e₂ h2 hn
    · obtain rfl := Option.some.inj hv2
      have := h.acct_num e₁ h1
      simp at hn; omega
    · obtain rfl := Option.some.inj hv1
      have := h.acct_num e₂ h2
      simp at hn; omega
    · rfl
  · refine all_upd (fun (e : Addr × Account) => coinsValid e.2.coins = true ∧ ∀ c ∈ e.2.coins, tier c.denom = true) _ _ _ h.acct_coins ?_
    intro v hv'; obtain rfl := Option.some.inj hv'; exact ⟨hv, ht⟩
  · intro e he
    have := h.split_key e he
    refine ⟨this.1, this.2.1, ?_⟩
    rw [getAcct_setAccount]
    split
    · rfl
    · exact this.2.2

/-! ### ensureAccount -/

theorem ensureAccount_spec {tier : Denom → Bool} {s : State} (h : WF tier s) (a : Addr) :
    WF tier (ensureAccount s a).2 ∧
    getAcct (ensureAccount s a).2 a = some (ensureAccount s a).1 ∧
    (ensureAccount s a).1.addr = a ∧
    (ensureAccount s a).2.split = s.split ∧ (ensureAccount s a).2.supply = s.supply ∧
    (∀ d, acctTotal (ensureAccount s a).2 d = acctTotal s d) ∧
    (∀ k, (getAcct s k).isSome = true → (getAcct (ensureAccount s a).2 k).isSome = true) ∧
    (getAcct s a = none → (ensureAccount s a).1.coins = []) := by
  unfold ensureAccount
  cases hg : getAcct s a with
  | some o =>
    have hk : o.addr = a := h.acct_key (a, o) (find_some_mem _ _ _ hg)
    simp [hg, hk, h]
  | none =>
    simp only [newAccount]
    refine ⟨?_, ?_, ?_, ?_, ?_, ?_, ?_, ?_⟩
    · exact WF_setAccount_new h ⟨a, s.nextNum, [], .gno false⟩ hg rfl rfl (by simp)
    · rw [getAcct_setAccount]; simp
    · first | rfl | trivial
    · first | rfl | trivial
    · first | rfl | trivial
    · intro d
      rw [acctTotal_setAccount]
      have : getAcct { s with nextNum := s.nextNum + 1 } a = none := hg
      simp [this]
      rfl
    · intro k hk
      rw [getAcct_setAccount]
      split
      · rfl
      · exact hk
    · intro _; first | rfl | trivial

/-! ### setSplit / writeSplits -/

@[simp] theorem setSplit_accts (s : State) (a : Addr) (d : Denom) (v : Int) : (setSplit s a d v).accts = s.accts := rfl
@[simp] theorem setSplit_supply (s : State) (a : Addr) (d : Denom) (v : Int) : (setSplit s a d v).supply = s.supply := rfl
@[simp] theorem setSplit_nextNum (s : State) (a : Addr) (d : Denom) (v : Int) : (setSplit s a d v).nextNum = s.nextNum := rfl
@[simp] theorem getAcct_setSplit (s : State) (a : Addr) (d : Denom) (v : Int) (k : Addr) :
    getAcct (setSplit s a d v) k = getAcct s k := rfl
@[simp] theorem acctTotal_setSplit (s : State) (a : Addr) (d : Denom) (v : Int) (d' : Denom) :
    acctTotal (setSplit s a d v) d' = acctTotal s d' := rfl
@[simp] theorem getSupply_setSplit (s : State) (a : Addr) (d : Denom) (v : Int) (d' : Denom) :
    getSupply (setSplit s a d v) d' = getSupply s d' := rfl

theorem getSplit_setSplit_ne (s : State) (a a' : Addr) (d d' : Denom) (v : Int) (hne : (a', d') ≠ (a, d)) :
    getSplit (setSplit s a d v) a' d' = getSplit s a' d' := by
  unfold getSplit setSplit
  simp only
  rw [find_upd_ne _ _ _ _ hne]

theorem splitTotal_setSplit (s : State) (a : Addr) (d : Denom) (v : Int) (d' : Denom) :
    splitTotal (setSplit s a d v) d' = splitTotal s d' + (if d = d' then v - getSplit s a d else 0) := by
  rw [splitTotal_eq_sumBy, splitTotal_eq_sumBy]
  unfold setSplit getSplit
  simp only
  rw [sumBy_upd]
  by_cases hd : d = d'
  · subst hd
    by_cases hv : v = 0
    · subst hv
      cases find s.split (a, d) <;> simp [optF] <;> omega
    · cases find s.split (a, d) <;> simp [optF, hv] <;> omega
  · by_cases hv : v = 0
    · cases find s.split (a, d) <;> simp [optF, hd, hv]
    · cases find s.split (a, d) <;> simp [optF, hd, hv]

theorem WF_setSplit {tier : Denom → Bool} {s : State} (h : WF tier s) (a : Addr) (d : Denom) (v : Int)
    (hv : 0 ≤ v) (hd : validDenom d = true) (ht : tier d = false) (ha : (getAcct s a).isSome = true) :
    WF tier (setSplit s a d v) := by
  refine ⟨h.acct_key, h.acct_nodup, h.acct_num, h.acct_num_inj, h.acct_coins, ?_, ?_, ?_, h.supply_pos, h.supply_nodup⟩
  · refine all_upd (fun (e : (Addr × Denom) × Int) => 0 < e.2) _ _ _ h.split_pos ?_
    intro w hw
    split at hw
    · cases hw
    · cases hw; show 0 < v; omega
  · refine all_upd (fun (e : (Addr × Denom) × Int) => validDenom e.1.2 = true ∧ tier e.1.2 = false ∧ (getAcct s e.1.1).isSome = true) _ _ _ h.split_key ?_
    intro w hw
    exact ⟨hd, ht, ha⟩
  · exact nodup_upd _ _ _ h.split_nodup

@[simp] theorem writeSplits_nil (s : State) (a : Addr) : writeSplits s a [] = s := rfl
@[simp] theorem writeSplits_cons (s : State) (a : Addr) (w : Denom × Int) (ws : List (Denom × Int)) :
    writeSplits s a (w :: ws) = writeSplits (setSplit s a w.1 w.2) a ws := rfl

theorem writeSplits_frame (s : State) (a : Addr) (ws : List (Denom × Int)) :
    (writeSplits s a ws).accts = s.accts ∧ (writeSplits s a ws).supply = s.supply ∧
    (writeSplits s a ws).nextNum = s.nextNum := by
  induction ws generalizing s with
  | nil => simp
  | cons w ws ih => simp [ih]

theorem WF_writeSplits {tier : Denom → Bool} {s : State} (h : WF tier s) (a : Addr) (ws : List (Denom × Int))
    (hws : ∀ w ∈ ws, 0 ≤ w.2 ∧ validDenom w.1 = true ∧ tier w.1 = false)
    (ha : ws ≠ [] → (getAcct s a).isSome = true) : WF tier (writeSplits s a ws) := by
  induction ws generalizing s with
  | nil => simpa using h
  | cons w ws ih =>
    have hw := hws w (by simp)
    have ha' := ha (by simp)
    simp only [writeSplits_cons]
    exact ih (WF_setSplit h a w.1 w.2 hw.1 hw.2.1 hw.2.2 ha') (fun x hx => hws x (List.mem_cons_of_mem _ hx)) (fun _ => ha')

/-- writes computed from the pre-state `s0` as old + sign·amount, one per distinct denom. -/
theorem splitTotal_writeSplits_delta (s0 : State) (a : Addr) (sign : Int) (sp : Coins) (s1 : State)
    (hn : (sp.map (·.denom)).Nodup)
    (hsame : ∀ c ∈ sp, getSplit s1 a c.denom = getSplit s0 a c.denom) (d : Denom) :
    splitTotal (writeSplits s1 a (sp.map (fun c => (c.denom, getSplit s0 a c.denom + sign * c.amount)))) d
      = splitTotal s1 d + sign * sumOf sp d := by
  induction sp generalizing s1 with
  | nil => simp
  | cons c sp ih =>
    simp only [List.map_cons, List.nodup_cons] at hn
    simp only [List.map_cons, writeSplits_cons]
    rw [ih _ hn.2]
    · rw [splitTotal_setSplit, hsame c (by simp)]
      simp only [sumOf_cons]
      split
      · rw [Int.mul_add]; omega
      · simp
    · intro x hx
      have hne : (a, x.denom) ≠ (a, c.denom) := by
        intro he
        have : x.denom = c.denom := by simpa using he
        exact hn.1 (by simpa using ⟨x, hx, this⟩)
      rw [getSplit_setSplit_ne _ _ _ _ _ _ hne]
      exact hsame x (List.mem_cons_of_mem _ hx)

/-! ### setSupply / writeSupplies -/

@[simp] theorem setSupply_accts (s : State) (d : Denom) (v : Int) : (setSupply s d v).accts = s.accts := rfl
@[simp] theorem setSupply_split (s : State) (d : Denom) (v : Int) : (setSupply s d v).split = s.split := rfl
@[simp] theorem setSupply_nextNum (s : State) (d : Denom) (v : Int) : (setSupply s d v).nextNum = s.nextNum := rfl
@[simp] theorem total_setSupply (s : State) (d : Denom) (v : Int) (d' : Denom) :
    total (setSupply s d v) d' = total s d' := rfl
@[simp] theorem getAcct_setSupply (s : State) (d : Denom) (v : Int) (k : Addr) :
    getAcct (setSupply s d v) k = getAcct s k := rfl

theorem getSupply_setSupply (s : State) (d : Denom) (v : Int) (d' : Denom)
    (hn : (s.supply.map Prod.fst).Nodup) :
    getSupply (setSupply s d v) d' = if d' = d then v else getSupply s d' := by
  unfold getSupply setSupply
  simp only
  by_cases hd : d' = d
  · subst hd
    rw [find_upd_same _ _ _ hn]
    by_cases hv : v = 0 <;> simp [hv]
  · rw [find_upd_ne _ _ _ _ hd]; simp [hd]

theorem WF_setSupply {tier : Denom → Bool} {s : State} (h : WF tier s) (d : Denom) (v : Int)
    (hv : 0 ≤ v) (hd : validDenom d = true) : WF tier (setSupply s d v) := by
  refine ⟨h.acct_key, h.acct_nodup, h.acct_num, h.acct_num_inj, h.acct_coins, h.split_pos, h.split_key, h.split_nodup, ?_, ?_⟩
  · refine all_upd (fun (e : Denom × Int) => 0 < e.2 ∧ validDenom e.1 = true) _ _ _ h.supply_pos ?_
    intro w hw
    split at hw
    · cases hw
    · cases hw; exact ⟨by show 0 < v; omega, hd⟩
  · exact nodup_upd _ _ _ h.supply_nodup

@[simp] theorem writeSupplies_nil (s : State) : writeSupplies s [] = s := rfl
@[simp] theorem writeSupplies_cons (s : State) (w : Denom × Int) (ws : List (Denom × Int)) :
    writeSupplies s (w :: ws) = writeSupplies (setSupply s w.1 w.2) ws := rfl

theorem writeSupplies_frame (s : State) (ws : List (Denom × Int)) :
    (writeSupplies s ws).accts = s.accts ∧ (writeSupplies s ws).split = s.split ∧
    (writeSupplies s ws).nextNum = s.nextNum := by
  induction ws generalizing s with
  | nil => simp
  | cons w ws ih => simp [ih]

theorem total_writeSupplies (s : State) (ws : List (Denom × Int)) (d : Denom) :
    total (writeSupplies s ws) d = total s d := by
  induction ws generalizing s with
  | nil => simp
  | cons w ws ih => simp [ih]

theorem WF_writeSupplies {tier : Denom → Bool} {s : State} (h : WF tier s) (ws : List (Denom × Int))
    (hws : ∀ w ∈ ws, 0 ≤ w.2 ∧ validDenom w.1 = true) : WF tier (writeSupplies s ws) := by
  induction ws generalizing s with
  | nil => simpa using h
  | cons w ws ih =>
    have hw := hws w (by simp)
    simp only [writeSupplies_cons]
    exact ih (WF_setSupply h w.1 w.2 hw.1 hw.2) (fun x hx => hws x (List.mem_cons_of_mem _ hx))

theorem getSupply_writeSupplies_delta {tier : Denom → Bool} (s0 : State) (sign : Int) (amt : Coins) (s1 : State)
    (h1 : WF tier s1)
    (hn : (amt.map (·.denom)).Nodup)
    (hok : ∀ c ∈ amt, 0 ≤ getSupply s0 c.denom + sign * c.amount ∧ validDenom c.denom = true)
    (hsame : ∀ c ∈ amt, getSupply s1 c.denom = getSupply s0 c.denom) (d : Denom) :
    getSupply (writeSupplies s1 (amt.map (fun c => (c.denom, getSupply s0 c.denom + sign * c.amount)))) d
      = getSupply s1 d + sign * sumOf amt d := by
  induction amt generalizing s1 with
  | nil => simp
  | cons c amt ih =>
    simp only [List.map_cons, List.nodup_cons] at hn
    simp only [List.map_cons, writeSupplies_cons]
    have hc := hok c (by simp)
    rw [ih _ (WF_setSupply h1 _ _ hc.1 hc.2) hn.2 (fun x hx => hok x (List.mem_cons_of_mem _ hx))]
    · rw [getSupply_setSupply _ _ _ _ h1.supply_nodup]
      simp only [sumOf_cons]
      by_cases hd : d = c.denom
      · subst hd
        rw [hsame c (by simp)]
        simp [Int.mul_add]; omega
      · have : ¬ c.denom = d := fun h => hd h.symm
        simp [hd, this]
    · intro x hx
      have hne : x.denom ≠ c.denom := by
        intro he
        exact hn.1 (by simpa using ⟨x, hx, he⟩)
      rw [getSupply_setSupply _ _ _ _ h1.supply_nodup]
      simp [hne]
      exact hsame x (List.mem_cons_of_mem _ hx)

end GnoVerif.C14
