import GnoVerif.Model.C11Alloc
/-!
Helper lemmas for C11: the allocator's accounting invariant.
-/
namespace GnoVerif.C11

theorem wrap64_of_inRange {x : Int} (h1 : minInt64 ≤ x) (h2 : x ≤ maxInt64) : wrap64 x = x := by
  unfold wrap64
  simp only [minInt64, maxInt64] at h1 h2
  omega

theorem addp_ok {a b c : Int} (h : addp a b = .ok c) : c = a + b ∧ minInt64 ≤ a + b ∧ a + b ≤ maxInt64 := by
  unfold addp at h
  split at h
  · cases h
  · cases h; omega

/-- a successful `Allocate` leaves the tracked bytes within the cap and never changes the cap -/
theorem allocate_ok_le_max {a a' : Alloc} {size : Int} (h : allocate a size = .ok a') :
    a'.bytes ≤ a'.maxBytes ∧ a'.maxBytes = a.maxBytes ∧ a'.hasGC = a.hasGC ∧ a'.survivors = a.survivors := by
  unfold allocate at h
  cases hadd : addp a.bytes size with
  | error e => rw [hadd] at h; cases h
  | ok total =>
    rw [hadd] at h; simp only at h
    by_cases hgt : total > a.maxBytes
    · simp only [hgt, if_true] at h
      cases hgc : a.hasGC
      · simp [hgc] at h
      · simp only [hgc, Bool.not_true, Bool.false_eq_true, if_false] at h
        by_cases hs : a.survivors > a.maxBytes
        · simp [hs] at h
        · simp only [hs, if_false] at h
          by_cases hb : wrap64 (a.survivors + size) > a.maxBytes
          · simp [hb] at h
          · simp only [hb, if_false, Except.ok.injEq] at h
            subst h; exact ⟨by simp only; omega, rfl, rfl, rfl⟩
    · simp only [hgt, if_false, Except.ok.injEq] at h
      subst h; exact ⟨by simp only; omega, rfl, rfl, rfl⟩

/-- the exact effect of a successful `Allocate` when collections only release
(they never find more than was allocated) -/
theorem allocate_ok_exact {a a' : Alloc} {size : Int} (h : allocate a size = .ok a')
    (hs : 0 ≤ size) (h0 : 0 ≤ a.survivors) (hle : a.survivors ≤ a.bytes) :
    a'.bytes = a.bytes + size - freedBy a size ∧ 0 ≤ a'.bytes := by
  unfold allocate at h
  cases hadd : addp a.bytes size with
  | error e => rw [hadd] at h; cases h
  | ok total =>
    rw [hadd] at h; simp only at h
    obtain ⟨rfl, hlo, hhi⟩ := addp_ok hadd
    unfold freedBy
    by_cases hgt : a.bytes + size > a.maxBytes
    · simp only [hgt, if_true] at h ⊢
      cases hgc : a.hasGC
      · simp [hgc] at h
      · simp only [hgc, Bool.not_true, Bool.false_eq_true, if_false] at h
        by_cases hsv : a.survivors > a.maxBytes
        · simp [hsv] at h
        · simp only [hsv, if_false] at h
          have hw : wrap64 (a.survivors + size) = a.survivors + size :=
            wrap64_of_inRange (by simp only [minInt64] at *; omega) (by omega)
          rw [hw] at h
          by_cases hb : a.survivors + size > a.maxBytes
          · simp [hb] at h
          · simp only [hb, if_false, Except.ok.injEq] at h
            subst h; exact ⟨by simp only; omega, by simp only; omega⟩
    · simp only [hgt, if_false, Except.ok.injEq] at h ⊢
      subst h; exact ⟨by simp only; omega, by simp only; omega⟩

/-- without a GC callback, exceeding the cap is the hard panic -/
theorem allocate_noGC_past_cap {a : Alloc} {size : Int} (hgc : a.hasGC = false)
    (hov : a.bytes + size ≤ maxInt64) (hlo : minInt64 ≤ a.bytes + size) (hgt : a.bytes + size > a.maxBytes) :
    allocate a size = .error .limitNoGC := by
  unfold allocate addp
  have : ¬ (a.bytes + size > maxInt64 ∨ a.bytes + size < minInt64) := by omega
  simp [this, hgt, hgc]

/-- with a GC callback, an allocation that does not fit even after the collection panics -/
theorem allocate_GC_past_cap {a : Alloc} {size : Int} (hgc : a.hasGC = true)
    (hov : a.bytes + size ≤ maxInt64) (hlo : minInt64 ≤ a.bytes + size) (hgt : a.bytes + size > a.maxBytes)
    (h0 : 0 ≤ a.survivors) (hle : a.survivors ≤ a.bytes) (hs : 0 ≤ size)
    (hstill : a.survivors + size > a.maxBytes) :
    allocate a size = .error .limit := by
  unfold allocate addp
  have h1 : ¬ (a.bytes + size > maxInt64 ∨ a.bytes + size < minInt64) := by omega
  have hw : wrap64 (a.survivors + size) = a.survivors + size :=
    wrap64_of_inRange (by simp only [minInt64] at *; omega) (by omega)
  simp only [h1, if_false, hgt, if_true, hgc, Bool.not_true, Bool.false_eq_true, hw]
  split
  · rfl
  · simp only

/-- and one that fits is accepted -/
theorem allocate_fits {a : Alloc} {size : Int}
    (hov : a.bytes + size ≤ maxInt64) (hlo : minInt64 ≤ a.bytes + size) (hfit : a.bytes + size ≤ a.maxBytes) :
    allocate a size = .ok { a with bytes := a.bytes + size } := by
  unfold allocate addp
  have h1 : ¬ (a.bytes + size > maxInt64 ∨ a.bytes + size < minInt64) := by omega
  have h2 : ¬ (a.bytes + size > a.maxBytes) := by omega
  simp [h1, h2]

/-! ### histories -/

/-- the guard under which the ledger balances: sizes are non-negative and a
collection never finds more than is currently tracked -/
def opGuard (a : Alloc) : Op → Prop
  | .alloc size => 0 ≤ size ∧ 0 ≤ a.survivors ∧ a.survivors ≤ a.bytes
  | .setSurvivors _ => True
  | .reset => True
  | .recount _ => True

def Guarded : Alloc × Ledger → List Op → Prop
  | _, [] => True
  | st, op :: rest => opGuard st.1 op ∧ ∀ st', step st op = some st' → Guarded st' rest

theorem step_balance {st st' : Alloc × Ledger} {op : Op} (h : step st op = some st') (hg : opGuard st.1 op) :
    st'.1.bytes - st'.2.charged + st'.2.freed = st.1.bytes - st.2.charged + st.2.freed := by
  cases op with
  | alloc size =>
    simp only [step] at h
    split at h
    · rename_i a' ha
      cases h
      obtain ⟨hs, h0, hle⟩ := hg
      have := (allocate_ok_exact ha hs h0 hle).1
      simp only; omega
    · cases h
  | setSurvivors k => simp only [step] at h; cases h; simp
  | reset => simp only [step] at h; cases h; simp; omega
  | recount n => simp only [step] at h; cases h; simp; omega

/-- tracked bytes = everything charged − everything released, over any history -/
theorem run_balance : ∀ (ops : List Op) (st st' : Alloc × Ledger), run st ops = some st' → Guarded st ops →
    st'.1.bytes - st'.2.charged + st'.2.freed = st.1.bytes - st.2.charged + st.2.freed := by
  intro ops
  induction ops with
  | nil => intro st st' h _; simp only [run] at h; cases h; rfl
  | cons op rest ih =>
    intro st st' h hg
    simp only [run] at h
    split at h
    · rename_i st1 hst
      have h1 := step_balance hst hg.1
      have h2 := ih st1 st' h (hg.2 st1 hst)
      omega
    · cases h

/-- histories of allocations (and changes of the object graph) only -/
def allocOnly : List Op → Prop
  | [] => True
  | .alloc _ :: rest => allocOnly rest
  | .setSurvivors _ :: rest => allocOnly rest
  | _ :: _ => False

/-- the tracked bytes never exceed the cap, whatever is allocated -/
theorem run_within_cap : ∀ (ops : List Op) (st st' : Alloc × Ledger), run st ops = some st' → allocOnly ops →
    st.1.bytes ≤ st.1.maxBytes → st'.1.bytes ≤ st'.1.maxBytes ∧ st'.1.maxBytes = st.1.maxBytes := by
  intro ops
  induction ops with
  | nil => intro st st' h _ hb; simp only [run] at h; cases h; exact ⟨hb, rfl⟩
  | cons op rest ih =>
    intro st st' h ho hb
    simp only [run] at h
    split at h
    · rename_i st1 hst
      cases op with
      | alloc size =>
        simp only [step] at hst
        split at hst
        · rename_i a' ha
          cases hst
          obtain ⟨h1, h2, _, _⟩ := allocate_ok_le_max ha
          have := ih _ st' h ho (by simpa using h1)
          exact ⟨this.1, by rw [this.2]; exact h2⟩
        · cases hst
      | setSurvivors k =>
        simp only [step] at hst
        cases hst
        exact ih (⟨{ st.1 with survivors := k }, st.2⟩) st' h ho hb
      | reset => exact absurd ho (by simp [allocOnly])
      | recount n => exact absurd ho (by simp [allocOnly])
    · cases h

end GnoVerif.C11
