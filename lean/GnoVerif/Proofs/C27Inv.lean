import GnoVerif.Proofs.C27Block
/-!
C27 helper lemmas, part 4: a block commit preserves the invariant, leaves the
database in the `Done` shape, and is exactly one physical write.
-/
namespace GnoVerif.C27

theorem TInv.init_le_next {a : App} {t : Tree} {s : SName} {f : Bool} (h : TInv a t s f) :
    t.initialVersion ≤ a.nextVersion := by
  unfold App.nextVersion
  by_cases h0 : a.lastVer = 0
  · rw [h.init0 h0]
    split <;> omega
  · have := h.initLe (Nat.pos_of_ne_zero h0)
    simp [h0]; omega

/-- what one block commit does, in collected mode under the invariant. -/
theorem commit_inv (a : App) (c : Cache) (height : Nat) (h : Inv a) :
    ∃ a' B, a.commit c height = .ok a' ∧ Inv a' ∧ Done a' ∧
      a'.db = applyBatch a.db B ∧ a'.log = a.log ++ [B] ∧ a'.cfg = a.cfg ∧
      a'.lastVer = a.nextVersion ∧ a'.msInitial = a.msInitial := by
  obtain ⟨dM, dX, _, _, hdM, hdX, heq⟩ := App.commit_collected a c height h
  simp only at heq
  obtain ⟨hMn, hMf, hMv, hMi, hMh, hMst⟩ := Tree.flush_keeps a.main c.m h.main.staged
  have hMw : (a.main.flush c.m).workingVersion = a.nextVersion := h.main.workingVersion c.m
  have hMname : (a.main.flush c.m).name = .main := by rw [hMn, h.main.name]
  generalize hcb : c.b.put hdrKey (some (hdrVal height)) = cb at heq
  cases hax : a.aux with
  | none =>
    have hcx : a.cfg.aux = none := by
      have := h.aux; unfold AuxInv at this; rw [hax] at this
      cases hcx : a.cfg.aux with
      | none => rfl
      | some f => simp [hcx] at this
    simp only [hax, Option.map_none, List.nil_append] at heq
    have hT := tree_after a.db (a.main.flush c.m) dM (flushBase cb)
      (metaOps a.nextVersion ([(a.main.flush c.m).saved.info] ++ [] ++ [(SName.base, 0, [])]))
      a.lastVer hMst (by rw [hMname, hMw]; exact hdM) (noTouch_flushBase _ _) (noTouch_meta _ _ _)
      (by rw [hMname]; exact h.main.rootsLe) (by rw [hMw]; exact a.lt_nextVersion)
      (by rw [hMname, hMi]; exact h.main.rootsGe) (by rw [hMi, hMw]; exact h.main.init_le_next)
    rw [hMname, hMw, hMi] at hT
    obtain ⟨h1, h2, h3, h4⟩ := hT
    refine ⟨_, _, heq, ⟨h.collected, rfl, ?_, ?_⟩, ⟨?_, ?_, ?_, ?_, ?_, ?_, rfl⟩, rfl, rfl, rfl, rfl, rfl⟩
    · refine ⟨hMname, by simpa [afterBlock, Tree.saved_fast, hMf] using h.main.fast, ?_, ?_, ?_, ?_, ?_, ?_⟩
      · intro op hop; cases hop
      · simp [afterBlock, Tree.saved_version, hMw]
      · intro h0
        have := a.lt_nextVersion
        simp only [afterBlock] at h0; omega
      · intro _
        simp only [afterBlock, Tree.saved_initialVersion, hMi]
        exact h.main.init_le_next
      · intro v hv; exact h1 v (by simpa [afterBlock] using hv)
      · intro v hv
        simp only [afterBlock, Tree.saved_initialVersion, hMi]
        exact h2 v (by simpa [afterBlock] using hv)
    · unfold AuxInv
      simp [afterBlock, hcx]
    -- Done
    · exact Nat.lt_of_le_of_lt (Nat.zero_le _) a.lt_nextVersion
    · simp only [afterBlock]
      rw [get_applyBatch, lastOp_append, lastOp_meta_latest]
    · simp only [afterBlock]
      rw [get_applyBatch, lastOp_append, lastOp_meta_cinfo]
    · simp [afterBlock, App.infos]
    · refine ⟨?_, ?_, rfl, rfl⟩
      · simpa [afterBlock, Tree.saved] using h3
      · intro hf
        have := h4 (by simpa [afterBlock, Tree.saved_fast] using hf)
        simpa [afterBlock] using this
    · intro x hx; simp [afterBlock] at hx
  | some x =>
    obtain ⟨f, hcx, hX⟩ : ∃ f, a.cfg.aux = some f ∧ TInv a x .aux f := by
      have := h.aux; unfold AuxInv at this; rw [hax] at this
      cases hcx : a.cfg.aux with
      | none => simp [hcx] at this
      | some f => exact ⟨f, rfl, by simpa [hcx] using this⟩
    obtain ⟨hXn, hXf, hXv, hXi, hXh, hXst⟩ := Tree.flush_keeps x c.a hX.staged
    have hXw : (x.flush c.a).workingVersion = a.nextVersion := hX.workingVersion c.a
    have hXname : (x.flush c.a).name = .aux := by rw [hXn, hX.name]
    simp only [hax, Option.map_some] at heq
    -- main: c0 = base flush, rest = aux segment ++ meta
    have hT := tree_after a.db (a.main.flush c.m) dM (flushBase cb)
      (((x.flush c.a).saveOps ++ dX) ++
        metaOps a.nextVersion ([(a.main.flush c.m).saved.info] ++ [(x.flush c.a).saved.info] ++ [(SName.base, 0, [])]))
      a.lastVer hMst (by rw [hMname, hMw]; exact hdM) (noTouch_flushBase _ _)
      (by
        rw [hMname]
        apply NoTouch.append _ (noTouch_meta _ _ _)
        apply noTouch_seg _ hXst
        · rw [hXname]; exact hdX
        · rw [hXname]; decide)
      (by rw [hMname]; exact h.main.rootsLe) (by rw [hMw]; exact a.lt_nextVersion)
      (by rw [hMname, hMi]; exact h.main.rootsGe) (by rw [hMi, hMw]; exact h.main.init_le_next)
    rw [hMname, hMw, hMi] at hT
    obtain ⟨h1, h2, h3, h4⟩ := hT
    -- aux: c0 = base flush ++ main segment, rest = meta
    have hU := tree_after a.db (x.flush c.a) dX
      (flushBase cb ++ ((a.main.flush c.m).saveOps ++ dM))
      (metaOps a.nextVersion ([(a.main.flush c.m).saved.info] ++ [(x.flush c.a).saved.info] ++ [(SName.base, 0, [])]))
      a.lastVer hXst (by rw [hXname, hXw]; exact hdX)
      (by
        rw [hXname]
        apply NoTouch.append (noTouch_flushBase _ _)
        apply noTouch_seg _ hMst
        · rw [hMname]; exact hdM
        · rw [hMname]; decide)
      (noTouch_meta _ _ _)
      (by rw [hXname]; exact hX.rootsLe) (by rw [hXw]; exact a.lt_nextVersion)
      (by rw [hXname, hXi]; exact hX.rootsGe) (by rw [hXi, hXw]; exact hX.init_le_next)
    rw [hXname, hXw, hXi] at hU
    obtain ⟨u1, u2, u3, u4⟩ := hU
    refine ⟨_, _, heq, ⟨h.collected, rfl, ?_, ?_⟩, ⟨?_, ?_, ?_, ?_, ?_, ?_, rfl⟩, rfl, rfl, rfl, rfl, rfl⟩
    · refine ⟨hMname, by simpa [afterBlock, Tree.saved_fast, hMf] using h.main.fast, ?_, ?_, ?_, ?_, ?_, ?_⟩
      · intro op hop; cases hop
      · simp [afterBlock, Tree.saved_version, hMw]
      · intro h0
        have := a.lt_nextVersion
        simp only [afterBlock] at h0; omega
      · intro _
        simp only [afterBlock, Tree.saved_initialVersion, hMi]
        exact h.main.init_le_next
      · intro v hv; exact h1 v (by simpa [afterBlock] using hv)
      · intro v hv
        simp only [afterBlock, Tree.saved_initialVersion, hMi]
        exact h2 v (by simpa [afterBlock] using hv)
    · unfold AuxInv
      simp only [afterBlock, hcx]
      refine ⟨hXname, by simpa [Tree.saved_fast, hXf] using hX.fast, ?_, ?_, ?_, ?_, ?_, ?_⟩
      · intro op hop; cases hop
      · simp [Tree.saved_version, hXw]
      · intro h0
        have := a.lt_nextVersion
        simp only at h0; omega
      · intro _
        simp only [Tree.saved_initialVersion, hXi]
        exact hX.init_le_next
      · intro v hv
        apply u1 v
        simpa [List.append_assoc] using hv
      · intro v hv
        simp only [Tree.saved_initialVersion, hXi]
        apply u2 v
        simpa [List.append_assoc] using hv
    -- Done
    · exact Nat.lt_of_le_of_lt (Nat.zero_le _) a.lt_nextVersion
    · simp only [afterBlock]
      rw [get_applyBatch, lastOp_append, lastOp_append, lastOp_meta_latest]
    · simp only [afterBlock]
      rw [get_applyBatch, lastOp_append, lastOp_append, lastOp_meta_cinfo]
    · simp [afterBlock, App.infos]
    · refine ⟨?_, ?_, rfl, rfl⟩
      · simpa [afterBlock, Tree.saved] using h3
      · intro hf
        have := h4 (by simpa [afterBlock, Tree.saved_fast] using hf)
        simpa [afterBlock] using this
    · intro x' hx'
      simp only [afterBlock, Option.some.injEq] at hx'
      subst hx'
      refine ⟨?_, ?_, rfl, rfl⟩
      · simpa [afterBlock, Tree.saved, List.append_assoc] using u3
      · intro hf
        have := u4 (by simpa [Tree.saved_fast] using hf)
        simpa [afterBlock, List.append_assoc] using this

end GnoVerif.C27
