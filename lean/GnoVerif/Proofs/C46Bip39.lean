import GnoVerif.Proofs.C46Num
import GnoVerif.Proofs.C46Str
/-! Proofs.C46Bip39 — round trip, exact acceptance condition and canonicity of accepted
mnemonics, parametric in SHA-256 and in a word list satisfying `WordListOK`. -/
namespace GnoVerif.C46

/-- what the theorems need of the word list (proved for the generated list in `Proofs/C46Words`) -/
structure WordListOK (wl : List Bytes) : Prop where
  len : wl.length = 2048
  nodup : wl.Nodup
  clean : ∀ w ∈ wl, w ≠ [] ∧ ∀ b ∈ w, isSpace b = false

/-- the arithmetic of one of the five sentence shapes: `L` entropy bytes, `n` words, `cs` checksum bits -/
structure Shape (L n cs : Nat) : Prop where
  bits : validEntropyBits (L * 8) = true
  words : (L * 8 + L * 8 / 32) / 11 = n
  count : (n < 12 || n > 24 || n % 3 != 0) = false
  sized : validChecksummedBits (n * 11) = true
  csw : n * 11 % 32 = cs
  cse : L / 4 = cs
  ent : (n * 11 - cs) / 8 = L
  pow : 256 ^ L * 2 ^ cs = 2048 ^ n
  small : 2 ^ cs ≤ 256
  npos : n ≠ 0

theorem shape16 : Shape 16 12 4 := by constructor <;> decide
theorem shape20 : Shape 20 15 5 := by constructor <;> decide
theorem shape24 : Shape 24 18 6 := by constructor <;> decide
theorem shape28 : Shape 28 21 7 := by constructor <;> decide
theorem shape32 : Shape 32 24 8 := by constructor <;> decide

theorem Shape.len_cases {L n cs : Nat} (hs : Shape L n cs) :
    L = 16 ∨ L = 20 ∨ L = 24 ∨ L = 28 ∨ L = 32 := by
  have := hs.bits
  simp only [validEntropyBits, Bool.and_eq_true, beq_iff_eq, decide_eq_true_eq] at this
  omega

theorem shape_of_len (L : Nat) (h : L = 16 ∨ L = 20 ∨ L = 24 ∨ L = 28 ∨ L = 32) : ∃ n cs, Shape L n cs := by
  rcases h with rfl | rfl | rfl | rfl | rfl
  · exact ⟨_, _, shape16⟩
  · exact ⟨_, _, shape20⟩
  · exact ⟨_, _, shape24⟩
  · exact ⟨_, _, shape28⟩
  · exact ⟨_, _, shape32⟩

theorem shape_of_words (n : Nat) (h : validChecksummedBits (n * 11) = true) : ∃ L cs, Shape L n cs := by
  simp only [validChecksummedBits, Bool.or_eq_true, beq_iff_eq] at h
  have : n = 12 ∨ n = 15 ∨ n = 18 ∨ n = 21 ∨ n = 24 := by omega
  rcases this with rfl | rfl | rfl | rfl | rfl
  · exact ⟨_, _, shape16⟩
  · exact ⟨_, _, shape20⟩
  · exact ⟨_, _, shape24⟩
  · exact ⟨_, _, shape28⟩
  · exact ⟨_, _, shape32⟩

/-- the sentence for an index list -/
def sentence (wl : List Bytes) (idxs : List Nat) : List Bytes := idxs.map (fun i => wl.getD i [])

theorem sentence_mem (wl : List Bytes) (idxs : List Nat) (h : ∀ i ∈ idxs, i < wl.length) :
    ∀ w ∈ sentence wl idxs, w ∈ wl := by
  intro w hw
  simp only [sentence, List.mem_map] at hw
  obtain ⟨i, hi, rfl⟩ := hw
  have := h i hi
  simp [List.getD, List.getElem?_eq_getElem this]

theorem wordsToNat_sentence (wl : List Bytes) (hn : wl.Nodup) (idxs : List Nat)
    (h : ∀ i ∈ idxs, i < wl.length) (b : Nat) :
    wordsToNat wl (sentence wl idxs) b = some (idxs.foldl (fun a d => a * 2048 + d) b) := by
  induction idxs generalizing b with
  | nil => rfl
  | cons i r ih =>
    simp only [sentence, List.map_cons, wordsToNat]
    rw [lookup_nodup wl hn i (h i (by simp))]
    exact ih (fun j hj => h j (by simp [hj])) _

/-- a sentence the word loop accepts is the sentence of an index list (no distinctness needed) -/
theorem wordsToNat_sound (wl : List Bytes) (ms : List Bytes) (b0 b : Nat) (h : wordsToNat wl ms b0 = some b) :
    ∃ idxs : List Nat, (∀ i ∈ idxs, i < wl.length) ∧ ms = sentence wl idxs ∧
      b = idxs.foldl (fun a d => a * 2048 + d) b0 := by
  induction ms generalizing b0 with
  | nil =>
    refine ⟨[], by simp, rfl, ?_⟩
    simpa [wordsToNat] using h.symm
  | cons w r ih =>
    rw [wordsToNat] at h
    cases hl : lookup wl w with
    | none => rw [hl] at h; cases h
    | some i =>
      rw [hl] at h
      obtain ⟨idxs, h1, h2, h3⟩ := ih _ h
      have hs := lookup_sound wl w i hl
      refine ⟨i :: idxs, ?_, ?_, ?_⟩
      · intro j hj
        rcases List.mem_cons.mp hj with rfl | hj
        · exact hs.1
        · exact h1 j hj
      · rw [h2]
        show w :: sentence wl idxs = wl.getD i [] :: sentence wl idxs
        rw [hs.2]
      · simpa using h3

theorem isValid_sentence (wl : List Bytes) (hwl : WordListOK wl) (idxs : List Nat)
    (h : ∀ i ∈ idxs, i < wl.length)
    (hc : (idxs.length < 12 || idxs.length > 24 || idxs.length % 3 != 0) = false) :
    isMnemonicValid wl (joinSp (sentence wl idxs)) = true := by
  have hmem := sentence_mem wl idxs h
  have hf : fields (joinSp (sentence wl idxs)) = sentence wl idxs :=
    fields_joinSp _ (fun w hw => hwl.clean w (hmem w hw))
  unfold isMnemonicValid
  simp only [hf]
  have hlen : (sentence wl idxs).length = idxs.length := by simp [sentence]
  rw [hlen, hc]
  simp only [Bool.false_eq_true, if_false, List.all_eq_true]
  intro w hw
  simp only [sentence, List.mem_map] at hw
  obtain ⟨i, hi, rfl⟩ := hw
  rw [lookup_nodup wl hwl.nodup i (h i hi)]
  rfl

theorem splitSpace_sentence (wl : List Bytes) (hwl : WordListOK wl) (idxs : List Nat)
    (h : ∀ i ∈ idxs, i < wl.length) (hne : idxs ≠ []) :
    splitSpace (joinSp (sentence wl idxs)) = sentence wl idxs := by
  apply splitSpace_joinSp
  · intro e
    apply hne
    simpa [sentence] using e
  · intro w hw b hb
    have := (hwl.clean w (sentence_mem wl idxs h w hw)).2 b hb
    simp only [isSpace, Bool.or_eq_false_iff] at this
    exact this.2

/-- EXACT behaviour of `MnemonicToByteArray` on any sentence of listed words of an accepted length:
    accepted iff the low `cs` bits equal the checksum bits of the entropy part. -/
theorem decode_sentence (sha : Bytes → Bytes) (wl : List Bytes) (hwl : WordListOK wl)
    (idxs : List Nat) (h : ∀ i ∈ idxs, i < 2048) (L cs : Nat) (hs : Shape L idxs.length cs) :
    let b := fromDigits2048 idxs
    let ent := toBE L (b / 2 ^ cs)
    mnemonicToByteArray sha wl (joinSp (sentence wl idxs)) =
      if b % 2 ^ cs = csBits ((sha ent).headD 0) cs then .ok (toBE (L + 1) b) else .error .checksum := by
  intro b ent
  have h' : ∀ i ∈ idxs, i < wl.length := fun i hi => hwl.len ▸ h i hi
  have hne : idxs ≠ [] := by
    intro e; apply hs.npos; simp [e]
  have hlen : (sentence wl idxs).length = idxs.length := by simp [sentence]
  have hblt : b < 2048 ^ idxs.length := fromDigits2048_lt idxs h
  have hq : b / 2 ^ cs < 256 ^ L := by
    rw [← hs.pow, Nat.mul_comm] at hblt
    exact Nat.div_lt_of_lt_mul hblt
  have hentlen : ent.length = L := toBE_length _ _
  have hfe : fromBE ent = b / 2 ^ cs := by
    show fromBE (toBE L _) = _
    rw [fromBE_toBE, Nat.mod_eq_of_lt hq]
  have hval : addChecksum sha ent = b / 2 ^ cs * 2 ^ cs + csBits ((sha ent).headD 0) cs := by
    rw [addChecksum_eq, hentlen, hs.cse, hfe]
  have hcl : csBits ((sha ent).headD 0) cs < 2 ^ cs := csBits_lt _ _
  have hpos : 0 < 2 ^ cs := Nat.two_pow_pos cs
  have hsmall := hs.small
  have hb256 : b < 256 ^ (L + 1) := by
    rw [Nat.pow_succ]
    calc b < 2048 ^ idxs.length := hblt
      _ = 256 ^ L * 2 ^ cs := hs.pow.symm
      _ ≤ 256 ^ L * 256 := Nat.mul_le_mul_left _ hsmall
  have hv256 : addChecksum sha ent < 256 ^ (L + 1) := by
    rw [hval, Nat.pow_succ]
    have h1 : b / 2 ^ cs * 2 ^ cs + csBits ((sha ent).headD 0) cs < (b / 2 ^ cs + 1) * 2 ^ cs := by
      rw [Nat.add_mul]; omega
    have h2 : (b / 2 ^ cs + 1) * 2 ^ cs ≤ 256 ^ L * 2 ^ cs := Nat.mul_le_mul_right _ hq
    have h3 : 256 ^ L * 2 ^ cs ≤ 256 ^ L * 256 := Nat.mul_le_mul_left _ hsmall
    omega
  unfold mnemonicToByteArray
  rw [isValid_sentence wl hwl idxs h' hs.count]
  simp only [Bool.not_true, Bool.false_eq_true, if_false]
  rw [splitSpace_sentence wl hwl idxs h' hne, hlen, hs.sized]
  simp only [Bool.not_true, Bool.false_eq_true, if_false]
  rw [wordsToNat_sentence wl hwl.nodup idxs h' 0]
  simp only [hs.csw, hs.ent]
  show (if (toBE (L + 1) b == toBE (L + 1) (addChecksum sha ent)) = true then _ else _) = _
  by_cases hc : b % 2 ^ cs = csBits ((sha ent).headD 0) cs
  · have hbv : b = addChecksum sha ent := by
      rw [hval, ← hc]
      exact (Nat.div_add_mod' b (2 ^ cs)).symm
    rw [if_pos hc, ← hbv]
    simp only [BEq.rfl, if_true]
    try rfl
  · have hbv : b ≠ addChecksum sha ent := by
      intro e
      apply hc
      rw [e, hval, Nat.mul_comm, Nat.mul_add_mod, Nat.mod_eq_of_lt hcl]
    have : (toBE (L + 1) b == toBE (L + 1) (addChecksum sha ent)) = false := by
      rw [beq_eq_false_iff_ne]
      intro e
      exact hbv (toBE_inj hb256 hv256 e)
    rw [if_neg hc, this]
    simp only [Bool.false_eq_true, if_false]

/-- `NewMnemonic` on the five accepted lengths: the sentence of the base-2048 digits of
    `entropy ‖ checksum bits` -/
theorem newMnemonic_shape (sha : Bytes → Bytes) (wl : List Bytes) (hlen : wl.length = 2048)
    (e : Bytes) (n cs : Nat) (hs : Shape e.length n cs) :
    newMnemonic sha wl e = .ok (joinSp (sentence wl (digits2048 n (addChecksum sha e)))) := by
  unfold newMnemonic
  simp only [hs.bits, hs.words, Bool.not_true, Bool.false_eq_true, if_false]
  have : (digits2048 n (addChecksum sha e)).all (· < wl.length) = true := by
    rw [List.all_eq_true]
    intro d hd
    have := digits2048_lt _ _ d hd
    simpa [hlen] using this
  rw [if_pos this]
  rfl

theorem addChecksum_lt (sha : Bytes → Bytes) (e : Bytes) (n cs : Nat) (hs : Shape e.length n cs) :
    addChecksum sha e < 2048 ^ n ∧ addChecksum sha e / 2 ^ cs = fromBE e ∧
    addChecksum sha e % 2 ^ cs = csBits ((sha e).headD 0) cs := by
  have hval := addChecksum_eq sha e
  rw [hs.cse] at hval
  have hcl : csBits ((sha e).headD 0) cs < 2 ^ cs := csBits_lt _ _
  have hpos : 0 < 2 ^ cs := Nat.two_pow_pos cs
  have hfe := fromBE_lt e
  refine ⟨?_, ?_, ?_⟩
  · rw [hval, ← hs.pow]
    have h1 : fromBE e * 2 ^ cs + csBits ((sha e).headD 0) cs < (fromBE e + 1) * 2 ^ cs := by
      rw [Nat.add_mul]; omega
    have h2 : (fromBE e + 1) * 2 ^ cs ≤ 256 ^ e.length * 2 ^ cs := Nat.mul_le_mul_right _ hfe
    omega
  · rw [hval, Nat.mul_comm, Nat.mul_add_div hpos, Nat.div_eq_of_lt hcl]; simp
  · rw [hval, Nat.mul_comm, Nat.mul_add_mod, Nat.mod_eq_of_lt hcl]

/-- round trip on one shape -/
theorem roundtrip_shape (sha : Bytes → Bytes) (wl : List Bytes) (hwl : WordListOK wl)
    (e : Bytes) (n cs : Nat) (hs : Shape e.length n cs) :
    ∃ m, newMnemonic sha wl e = .ok m ∧
      mnemonicToByteArray sha wl m = .ok (toBE (e.length + 1) (addChecksum sha e)) ∧
      stripChecksum (toBE (e.length + 1) (addChecksum sha e)) = e := by
  obtain ⟨hlt, hdiv, hmod⟩ := addChecksum_lt sha e n cs hs
  let v := addChecksum sha e
  let idxs := digits2048 n v
  have hil : idxs.length = n := digits2048_length _ _
  have hid : ∀ i ∈ idxs, i < 2048 := digits2048_lt _ _
  have hfd : fromDigits2048 idxs = v := by
    show fromDigits2048 (digits2048 n v) = v
    rw [fromDigits2048_digits, Nat.mod_eq_of_lt hlt]
  refine ⟨_, newMnemonic_shape sha wl hwl.len e n cs hs, ?_, ?_⟩
  · have hs' : Shape e.length idxs.length cs := hil ▸ hs
    have := decode_sentence sha wl hwl idxs hid e.length cs hs'
    simp only [hfd] at this
    rw [this]
    have hent : toBE e.length (v / 2 ^ cs) = e := by
      show toBE e.length (addChecksum sha e / 2 ^ cs) = e
      rw [hdiv, toBE_fromBE]
    rw [hent, if_pos hmod]
  · unfold stripChecksum
    simp only [toBE_length, Nat.add_sub_cancel]
    rw [fromBE_toBE]
    have hsmall := hs.small
    have h256 : addChecksum sha e < 256 ^ (e.length + 1) := by
      rw [Nat.pow_succ]
      calc addChecksum sha e < 2048 ^ n := hlt
        _ = 256 ^ e.length * 2 ^ cs := hs.pow.symm
        _ ≤ 256 ^ e.length * 256 := Nat.mul_le_mul_left _ hsmall
    rw [Nat.mod_eq_of_lt h256, hs.cse, hdiv, toBE_fromBE]

/-- whatever `MnemonicToByteArray` accepts is the `NewMnemonic` image of the entropy it encodes -/
theorem accepted_canonical (sha : Bytes → Bytes) (wl : List Bytes) (hlen : wl.length = 2048)
    (m ba : Bytes) (h : mnemonicToByteArray sha wl m = .ok ba) :
    newMnemonic sha wl (stripChecksum ba) = .ok m ∧
    ((stripChecksum ba).length = 16 ∨ (stripChecksum ba).length = 20 ∨ (stripChecksum ba).length = 24 ∨
     (stripChecksum ba).length = 28 ∨ (stripChecksum ba).length = 32) := by
  unfold mnemonicToByteArray at h
  dsimp only at h
  by_cases hv : isMnemonicValid wl m = true
  case neg =>
    have hv' : isMnemonicValid wl m = false := by simpa using hv
    rw [hv'] at h
    simp at h
  rw [hv] at h
  simp only [Bool.not_true, Bool.false_eq_true, if_false] at h
  by_cases hsz : validChecksummedBits ((splitSpace m).length * 11) = true
  case neg =>
    have hsz' : validChecksummedBits ((splitSpace m).length * 11) = false := by simpa using hsz
    rw [hsz'] at h
    simp at h
  rw [hsz] at h
  simp only [Bool.not_true, Bool.false_eq_true, if_false] at h
  obtain ⟨L, cs, hs⟩ := shape_of_words _ hsz
  cases hb : wordsToNat wl (splitSpace m) 0 with
  | none => rw [hb] at h; simp at h
  | some b =>
    rw [hb] at h
    simp only [hs.csw, hs.ent] at h
    by_cases heq : (toBE (L + 1) b == toBE (L + 1) (addChecksum sha (toBE L (b / 2 ^ cs)))) = true
    case neg => rw [if_neg heq] at h; cases h
    rw [if_pos heq] at h
    injection h with h
    obtain ⟨idxs, hi, hms, hbv⟩ := wordsToNat_sound wl _ 0 b hb
    have hil : idxs.length = (splitSpace m).length := by rw [hms]; simp [sentence]
    have hid : ∀ i ∈ idxs, i < 2048 := fun i h' => hlen ▸ hi i h'
    have hbd : b = fromDigits2048 idxs := hbv
    have hblt : b < 2048 ^ (splitSpace m).length := by
      rw [hbd, ← hil]; exact fromDigits2048_lt idxs hid
    have hq : b / 2 ^ cs < 256 ^ L := by
      rw [← hs.pow, Nat.mul_comm] at hblt
      exact Nat.div_lt_of_lt_mul hblt
    let ent := toBE L (b / 2 ^ cs)
    have hentlen : ent.length = L := toBE_length _ _
    have hs' : Shape ent.length (splitSpace m).length cs := hentlen.symm ▸ hs
    obtain ⟨hvlt, _, _⟩ := addChecksum_lt sha ent _ cs hs'
    have hsmall := hs.small
    have hpow : 2048 ^ (splitSpace m).length ≤ 256 ^ (L + 1) := by
      rw [Nat.pow_succ, ← hs.pow]
      exact Nat.mul_le_mul_left _ hsmall
    have hbeq : b = addChecksum sha ent := by
      have : toBE (L + 1) b = toBE (L + 1) (addChecksum sha ent) := by simpa using heq
      exact toBE_inj (Nat.lt_of_lt_of_le hblt hpow) (Nat.lt_of_lt_of_le hvlt hpow) this
    have hstrip : stripChecksum ba = ent := by
      rw [← h]
      unfold stripChecksum
      simp only [toBE_length, Nat.add_sub_cancel]
      rw [fromBE_toBE, Nat.mod_eq_of_lt (Nat.lt_of_lt_of_le hblt hpow), hs.cse]
    rw [hstrip]
    constructor
    · rw [newMnemonic_shape sha wl hlen ent _ cs hs', ← hbeq, hbd, ← hil,
        digits2048_fromDigits idxs hid, ← hms, joinSp_splitSpace]
    · rw [hentlen]
      exact hs.len_cases

end GnoVerif.C46

namespace GnoVerif.C46

theorem lookup_not_mem (wl : List Bytes) (w : Bytes) (h : w ∉ wl) : lookup wl w = none :=
  lookupAux_not_mem w wl 0 none h

theorem invalid_of_count (wl : List Bytes) (m : Bytes)
    (h : ¬ ((fields m).length = 12 ∨ (fields m).length = 15 ∨ (fields m).length = 18 ∨
            (fields m).length = 21 ∨ (fields m).length = 24)) : isMnemonicValid wl m = false := by
  unfold isMnemonicValid
  have : ((fields m).length < 12 || (fields m).length > 24 || (fields m).length % 3 != 0) = true := by
    simp only [Bool.or_eq_true, decide_eq_true_eq, bne_iff_ne, ne_eq]
    omega
  simp only [this, if_true]

theorem invalid_of_unknown (wl : List Bytes) (m w : Bytes) (hw : w ∈ fields m) (hn : w ∉ wl) :
    isMnemonicValid wl m = false := by
  unfold isMnemonicValid
  dsimp only
  split
  · rfl
  · rw [List.all_eq_false]
    exact ⟨w, hw, by simp [lookup_not_mem wl w hn]⟩

theorem toByteArray_invalid (sha : Bytes → Bytes) (wl : List Bytes) (m : Bytes)
    (h : isMnemonicValid wl m = false) : mnemonicToByteArray sha wl m = .error .invalid := by
  unfold mnemonicToByteArray
  simp [h]

theorem newMnemonic_bad_length (sha : Bytes → Bytes) (wl : List Bytes) (e : Bytes)
    (h : ¬ (e.length = 16 ∨ e.length = 20 ∨ e.length = 24 ∨ e.length = 28 ∨ e.length = 32)) :
    newMnemonic sha wl e = .error .entropy := by
  unfold newMnemonic
  have : validEntropyBits (e.length * 8) = false := by
    simp only [validEntropyBits, Bool.and_eq_false_iff, beq_eq_false_iff_ne, ne_eq, decide_eq_false_iff_not]
    omega
  simp [this]

end GnoVerif.C46
