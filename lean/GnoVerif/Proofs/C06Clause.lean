import GnoVerif.Proofs.C06Tx
/-!
C06 — from the crawl invariant `RCI` to the reference-count clause of the
statement (`refCountOK`, which counts the slots of the objects present in the
store) at the end of a transaction.
-/
namespace GnoVerif.C06
open State

theorem sum_filter_range (n : Nat) (P : Nat → Bool) (f : Nat → Nat) :
    ((((List.range n).filter P).map f).sum : Int) = sumTo n fun p => if P p then (f p : Int) else 0 := by
  induction n with
  | zero => simp [sumTo]
  | succ n ih =>
    rw [sumTo_succ, List.range_succ, List.filter_append, List.map_append, List.sum_append]
    simp only [List.filter_cons, List.filter_nil]
    by_cases hp : P n = true
    · simp only [hp, if_true, List.map_cons, List.map_nil, List.sum_cons, List.sum_nil]
      push_cast
      rw [ih]; omega
    · have hp' : P n = false := by simpa using hp
      simp only [hp', Bool.false_eq_true, if_false, List.map_nil, List.sum_nil]
      push_cast
      rw [ih]

theorem get_endTx (s : State) (x : Nat) (hx : x < s.heap.length) :
    (endTx s).get x =
      { s.get x with dirty := false, newReal := false, newEscaped := false, newDeleted := false,
                     dead := (s.get x).dead || (s.get x).time == 0 || (s.get x).deleted } := by
  unfold endTx State.get
  simp only [List.getD_eq_getElem?_getD, List.getElem?_map, List.getElem?_eq_getElem hx, Option.map_some,
    Option.getD_some]

@[simp] theorem length_endTx (s : State) : (endTx s).heap.length = s.heap.length := by
  simp [endTx]

/-- objects that are gone from the store are not counted parents -/
def DeadUncounted (s : State) : Prop := ∀ x, x < s.heap.length → (s.get x).dead = true → counted (s.get x) = false

/-- at the end of the transaction the objects present in the store are exactly the counted ones -/
theorem live_endTx (s : State) (hd : DeadUncounted s) (x : Nat) (hx : x < s.heap.length) :
    live (endTx s) x = counted (s.get x) := by
  unfold live
  rw [length_endTx, get_endTx s x hx]
  simp only [hx, decide_true, Bool.true_and]
  by_cases hdead : (s.get x).dead = true
  · rw [hd x hx hdead]; simp [hdead]
  · have : (s.get x).dead = false := by simpa using hdead
    simp only [this, counted, Bool.false_or]
    cases (s.get x).deleted <;> cases h0 : ((s.get x).time == 0) <;> simp [bne, h0]

/-- `RCI` at the end of a transaction is the reference-count clause of the statement -/
theorem refCountOK_endTx (s : State) (h : RCI s fun _ => 0) (hd : DeadUncounted s) (a : Nat) (ha : a < s.heap.length) :
    refCountOK (endTx s) a = true := by
  unfold refCountOK
  have hkids : ∀ p, p < s.heap.length → ((endTx s).get p).kids = (s.get p).kids := by
    intro p hp; rw [get_endTx s p hp]
  have hrefs : (refsTo (endTx s) a : Int) = refs s a := by
    unfold refsTo liveAddrs refs
    rw [length_endTx, sum_filter_range]
    apply sumTo_congr
    intro p hp
    rw [live_endTx s hd p hp, hkids p hp]
    rfl
  have hrc : ((endTx s).get a).rc = (s.get a).rc ∧ pinned ((endTx s).get a) = pinned (s.get a) := by
    rw [get_endTx s a ha]; exact ⟨rfl, rfl⟩
  rw [hrefs, hrc.1, hrc.2]
  have h1 : (s.get a).rc + 0 = refs s a + pinned (s.get a) := h a ha
  simp only [beq_iff_eq]
  omega

end GnoVerif.C06
