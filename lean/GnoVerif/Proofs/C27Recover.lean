import GnoVerif.Proofs.C27Inv
/-!
C27 helper lemmas, part 5: reopening the database a committed state left
(`recover`) gives that state back, up to the volatile fields that are not
persisted (`initialVersion` of the stores and of the multistore, the deliver
state, the ghost log).
-/
namespace GnoVerif.C27

/-- the volatile `initialVersion` is not restored by a load. -/
def Tree.rec0 (t : Tree) : Tree := { t with initialVersion := 0 }

/-- what reopening a committed state yields. -/
def App.recovered (a : App) : App :=
  { a with main := a.main.rec0, aux := a.aux.map Tree.rec0, msInitial := 0, deliver := none, log := [] }

theorem Tree.load_done (fr : App) (t : Tree) (s : SName) (ver : Nat) (sn : Snap)
    (hname : t.name = s) (hpos : 0 < ver)
    (hle : ∀ v, (fr.db.get (.root s v)).isSome = true → v ≤ ver)
    (hroot : fr.db.get (.root s ver) = some (.root sn))
    (hstamp : t.fast = true → fr.db.get (.stamp s) = some (.stampV ver)) :
    Tree.load fr t ver =
      .ok (fr, { t with hist := sn.hist, kv := sn.kv, pend := [], version := ver, staged := [] }) := by
  have hlatest : latestRoot fr.db s = ver := by
    apply latestRoot_eq
    · intro v hv; exact hle v ((mem_rootVersions _ _ _).1 hv)
    · exact (mem_rootVersions _ _ _).2 (by simp [hroot])
  have hne : ver ≠ 0 := by omega
  unfold Tree.load
  simp only [hname, hlatest, hne, ↓reduceIte, hroot]
  by_cases hf : t.fast = true
  · simp [hf, hstamp hf]
  · simp [hf]

theorem infoOf_main (m : Tree) (rest : List StoreInfo) (h : m.name = .main) :
    infoOf (m.info :: rest) .main = (m.version, m.hist) := by
  simp [infoOf, Tree.info, h]

theorem recover_done (a : App) (h : Inv a) (hd : Done a) :
    recover a.cfg a.db = .ok a.recovered := by
  obtain ⟨n, hn⟩ : ∃ n, a.lastVer = n + 1 := ⟨a.lastVer - 1, by have := hd.pos; omega⟩
  have hlat := hd.latest
  have hci := hd.cinfo
  rw [hn] at hlat hci
  unfold recover
  simp only [hlat, hci]
  -- main
  have hmain : Tree.load (App.fresh a.cfg a.db) (App.fresh a.cfg a.db).main (n + 1) =
      .ok (App.fresh a.cfg a.db, a.main.rec0) := by
    have := Tree.load_done (App.fresh a.cfg a.db) (Tree.empty .main a.cfg.fastMain) .main (n + 1)
      ⟨a.main.hist, a.main.kv⟩ rfl (by omega)
      (by intro v hv; rw [← hn]; exact h.main.rootsLe v hv)
      (by rw [← hn]; exact hd.main.root)
      (by intro hf; rw [← hn]; exact hd.main.stamp (by rw [h.main.fast]; exact hf))
    rw [show (App.fresh a.cfg a.db).main = Tree.empty .main a.cfg.fastMain from rfl, this]
    congr 2
    have e1 := h.main.name; have e2 := h.main.fast; have e3 := hd.main.pend
    have e4 := hd.main.nostaged; have e5 := h.main.ver
    rw [hn] at e5
    cases hm : a.main with
    | mk name fast hist kv pend version initialVersion staged =>
      rw [hm] at e1 e2 e3 e4 e5
      simp only at e1 e2 e3 e4 e5
      simp [Tree.rec0, Tree.empty, e1, e2, e3, e4, e5]
  rw [hmain]
  have hid : a.main.rec0.checkId a.lastInfo = true := by
    rw [hd.info]
    simp [Tree.checkId, App.infos, infoOf, Tree.info, Tree.rec0, h.main.name]
  simp only [hid, Bool.not_true, Bool.false_eq_true, ↓reduceIte]
  cases hax : a.aux with
  | none =>
    have hcx : a.cfg.aux = none := by
      have := h.aux; unfold AuxInv at this; rw [hax] at this
      cases hcx : a.cfg.aux with
      | none => rfl
      | some f => simp [hcx] at this
    have : (App.fresh a.cfg a.db).aux = none := by simp [App.fresh, treeNew, hcx]
    simp only [this]
    cases ha : a with
    | mk cfg db coll main aux lastVer lastInfo msInitial deliver log =>
      have hcoll := h.coll
      rw [ha] at hcoll hax hn
      simp only at hcoll hax hn
      simp [App.recovered, App.fresh, hcoll, hax, hn]
  | some x =>
    obtain ⟨f, hcx, hX⟩ : ∃ f, a.cfg.aux = some f ∧ TInv a x .aux f := by
      have := h.aux; unfold AuxInv at this; rw [hax] at this
      cases hcx : a.cfg.aux with
      | none => simp [hcx] at this
      | some f => exact ⟨f, rfl, by simpa [hcx] using this⟩
    have hxd := hd.aux x hax
    have hfa : (App.fresh a.cfg a.db).aux = some (Tree.empty .aux f) := by simp [App.fresh, treeNew, hcx]
    simp only [hfa]
    have haux : Tree.load { App.fresh a.cfg a.db with main := a.main.rec0, aux := some (Tree.empty .aux f) }
          (Tree.empty .aux f) (n + 1) =
        .ok ({ App.fresh a.cfg a.db with main := a.main.rec0, aux := some (Tree.empty .aux f) }, x.rec0) := by
      have := Tree.load_done { App.fresh a.cfg a.db with main := a.main.rec0, aux := some (Tree.empty .aux f) }
        (Tree.empty .aux f) .aux (n + 1)
        ⟨x.hist, x.kv⟩ rfl (by omega)
        (by intro v hv; rw [← hn]; exact hX.rootsLe v hv)
        (by rw [← hn]; exact hxd.root)
        (by intro hf; rw [← hn]; exact hxd.stamp (by rw [hX.fast]; exact hf))
      rw [this]
      congr 2
      have e1 := hX.name; have e2 := hX.fast; have e3 := hxd.pend
      have e4 := hxd.nostaged; have e5 := hX.ver
      rw [hn] at e5
      cases hm : x with
      | mk name fast hist kv pend version initialVersion staged =>
        rw [hm] at e1 e2 e3 e4 e5
        simp only at e1 e2 e3 e4 e5
        simp [Tree.rec0, Tree.empty, e1, e2, e3, e4, e5]
    dsimp only at haux
    rw [haux]
    have hidx : x.rec0.checkId a.lastInfo = true := by
      rw [hd.info]
      simp only [Tree.checkId, App.infos, hax, List.cons_append, List.nil_append, decide_eq_true_eq]
      have : a.main.name = .main := h.main.name
      have hx : x.name = .aux := hX.name
      simp [infoOf, Tree.info, Tree.rec0, this, hx]
    simp only [hidx, Bool.not_true, Bool.false_eq_true, ↓reduceIte]
    cases ha : a with
    | mk cfg db coll main aux lastVer lastInfo msInitial deliver log =>
      have hcoll := h.coll
      rw [ha] at hcoll hax hn
      simp only at hcoll hax hn
      simp [App.recovered, App.fresh, hcoll, hax, hn]

end GnoVerif.C27
