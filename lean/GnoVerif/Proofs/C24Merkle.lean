/-
Proofs.C24Merkle — the mini-merkle heap of mini_merkle.go: recomputing the path
of one slot (`SetSlot`) gives exactly the array a full `Build` over the updated
slots gives.  The real nodes keep their arrays across operations and patch them
with `SetSlot`; this is the statement that such a patched array never differs
from a rebuilt one, for every hash function.
-/
import GnoVerif.Model.C24Hash

namespace GnoVerif.C24
open GnoVerif

variable (H : Bytes → Hash)

theorem set_append_right' {α : Type} (A C : List α) (i : Nat) (x : α) :
    (A ++ C).set (A.length + i) x = A ++ C.set i x := by
  induction A with
  | nil => simp
  | cons a A ih =>
    simp only [List.cons_append, List.length_cons]
    rw [show A.length + 1 + i = (A.length + i) + 1 by omega, List.set_cons_succ, ih]

theorem getD_set (t : List Hash) (i j : Nat) (v : Hash) :
    (t.set i v).getD j [] = if i = j ∧ i < t.length then v else t.getD j [] := by
  simp only [List.getD_eq_getElem?_getD, List.getElem?_set]
  by_cases hij : i = j
  · subst hij
    by_cases hl : i < t.length
    · simp [hl]
    · simp [hl, List.getElem?_eq_none (Nat.not_lt.1 hl)]
  · simp [hij]

/-- the equation of an inner heap node. -/
def Eqn (t : List Hash) (i : Nat) : Prop :=
  t.getD i [] = hashInner H (t.getD (2 * i) []) (t.getD (2 * i + 1) [])

/-- every inner heap node `1 ≤ i < B` satisfies its equation. -/
def Built (B : Nat) (t : List Hash) : Prop := ∀ i, 1 ≤ i → i < B → Eqn H t i

theorem mmFix_length (t : List Hash) (i : Nat) : (mmFix H t i).length = t.length := by
  simp [mmFix]

theorem mmFix_getD_self (t : List Hash) (i : Nat) (hi : i < t.length) :
    (mmFix H t i).getD i [] = hashInner H (t.getD (2 * i) []) (t.getD (2 * i + 1) []) := by
  simp [mmFix, getD_set, hi]

theorem mmFix_getD_ne (t : List Hash) (i j : Nat) (hij : i ≠ j) :
    (mmFix H t i).getD j [] = t.getD j [] := by
  simp [mmFix, getD_set, hij]

/-- `Build` establishes all equations and touches neither the slots nor index 0. -/
theorem buildFrom_spec (B : Nat) : ∀ (n : Nat) (t : List Hash), t.length = 2 * B → n < B →
    (∀ i, n < i → i < B → Eqn H t i) →
    (mmBuildFrom H n t).length = 2 * B ∧ Built H B (mmBuildFrom H n t) ∧
    ∀ j, (n < j ∨ j = 0) → (mmBuildFrom H n t).getD j [] = t.getD j []
  | 0, t, hl, _, hq => ⟨hl, fun i h1 h2 => hq i (by omega) h2, fun _ _ => rfl⟩
  | n + 1, t, hl, hn, hq => by
    have hq' : ∀ i, n < i → i < B → Eqn H (mmFix H t (n + 1)) i := by
      intro i hi hiB
      by_cases hin : i = n + 1
      · subst hin
        simp only [Eqn]
        rw [mmFix_getD_self H t _ (by omega), mmFix_getD_ne H t _ _ (by omega),
          mmFix_getD_ne H t _ _ (by omega)]
      · have := hq i (by omega) hiB
        simp only [Eqn] at this ⊢
        rw [mmFix_getD_ne H t _ _ (by omega), mmFix_getD_ne H t _ _ (by omega),
          mmFix_getD_ne H t _ _ (by omega)]
        exact this
    obtain ⟨r1, r2, r3⟩ := buildFrom_spec B n (mmFix H t (n + 1)) (by rw [mmFix_length, hl])
      (by omega) hq'
    refine ⟨r1, r2, ?_⟩
    intro j hj
    show (mmBuildFrom H n (mmFix H t (n + 1))).getD j [] = _
    rw [r3 j (by omega), mmFix_getD_ne H t _ _ (by omega)]

theorem build_spec (B : Nat) (hB : 1 ≤ B) (t : List Hash) (hl : t.length = 2 * B) :
    (mmBuild H B t).length = 2 * B ∧ Built H B (mmBuild H B t) ∧
    ∀ j, (B ≤ j ∨ j = 0) → (mmBuild H B t).getD j [] = t.getD j [] := by
  obtain ⟨r1, r2, r3⟩ := buildFrom_spec H B (B - 1) t hl (by omega) (fun i h1 h2 => by omega)
  exact ⟨r1, r2, fun j hj => r3 j (by omega)⟩

/-- a heap array is determined by its slots (and the unused index 0). -/
theorem built_unique (B : Nat) {r1 r2 : List Hash} (h1 : r1.length = 2 * B) (h2 : r2.length = 2 * B)
    (b1 : Built H B r1) (b2 : Built H B r2)
    (hs : ∀ j, (B ≤ j ∨ j = 0) → r1.getD j [] = r2.getD j []) : r1 = r2 := by
  have hall : ∀ (d j : Nat), 2 * B - j ≤ d → r1.getD j [] = r2.getD j [] := by
    intro d
    induction d with
    | zero =>
      intro j hj
      exact hs j (by omega)
    | succ d ih =>
      intro j hj
      by_cases hjB : B ≤ j ∨ j = 0
      · exact hs j hjB
      · have e1 := b1 j (by omega) (by omega)
        have e2 := b2 j (by omega) (by omega)
        simp only [Eqn] at e1 e2
        rw [e1, e2, ih (2 * j) (by omega), ih (2 * j + 1) (by omega)]
  apply List.ext_getElem (by rw [h1, h2])
  intro i hi1 hi2
  have := hall (2 * B) i (by omega)
  simpa [List.getD_eq_getElem?_getD, hi1, hi2] using this

/-- `i` is a proper ancestor of heap position `pos`. -/
def Anc (pos i : Nat) : Prop := ∃ k, 0 < k ∧ i = pos / 2 ^ k

theorem anc_iff (pos i : Nat) : Anc pos i ↔ i = pos / 2 ∨ Anc (pos / 2) i := by
  constructor
  · rintro ⟨k, hk, rfl⟩
    obtain ⟨k', rfl⟩ : ∃ k', k = k' + 1 := ⟨k - 1, by omega⟩
    by_cases h0 : k' = 0
    · subst h0; left; simp
    · right
      refine ⟨k', by omega, ?_⟩
      rw [Nat.div_div_eq_div_mul, Nat.pow_succ, Nat.mul_comm]
  · rintro (rfl | ⟨k, hk, rfl⟩)
    · exact ⟨1, by omega, by simp⟩
    · refine ⟨k + 1, by omega, ?_⟩
      rw [Nat.div_div_eq_div_mul, Nat.pow_succ, Nat.mul_comm]

theorem anc_one {i : Nat} (h : Anc 1 i) : i = 0 := by
  obtain ⟨k, hk, rfl⟩ := h
  apply Nat.div_eq_of_lt
  exact Nat.one_lt_two_pow (by omega)

/-- the `SetSlot` loop repairs every equation on the path and nothing else. -/
theorem walkUp_spec (B : Nat) : ∀ (fuel pos : Nat) (t : List Hash), t.length = 2 * B → pos < 2 * B →
    pos ≤ fuel → 1 ≤ pos → (∀ i, 1 ≤ i → i < B → ¬ Anc pos i → Eqn H t i) →
    (mmWalkUp H fuel pos t).length = 2 * B ∧ Built H B (mmWalkUp H fuel pos t) ∧
    ∀ j, (B ≤ j ∨ j = 0) → (mmWalkUp H fuel pos t).getD j [] = t.getD j []
  | 0, pos, _, _, _, hf, hp, _ => by omega
  | fuel + 1, pos, t, hl, hpB, hf, hp, hq => by
    simp only [mmWalkUp]
    by_cases h1 : pos > 1
    · simp only [h1, if_true]
      have hp1 : 1 ≤ pos / 2 := by omega
      have hpB' : pos / 2 < B := by omega
      have hq' : ∀ i, 1 ≤ i → i < B → ¬ Anc (pos / 2) i → Eqn H (mmFix H t (pos / 2)) i := by
        intro i hi1 hiB hna
        by_cases hip : i = pos / 2
        · subst hip
          simp only [Eqn]
          rw [mmFix_getD_self H t _ (by omega), mmFix_getD_ne H t _ _ (by omega),
            mmFix_getD_ne H t _ _ (by omega)]
        · have hna' : ¬ Anc pos i := by
            rw [anc_iff]; intro h; rcases h with h | h
            · exact hip h
            · exact hna h
          have := hq i hi1 hiB hna'
          simp only [Eqn] at this ⊢
          have hc1 : pos / 2 ≠ 2 * i := by
            intro hc; apply hna; exact ⟨1, by omega, by rw [hc]; simp⟩
          have hc2 : pos / 2 ≠ 2 * i + 1 := by
            intro hc; apply hna; exact ⟨1, by omega, by rw [hc]; simp; omega⟩
          rw [mmFix_getD_ne H t _ _ (Ne.symm hip), mmFix_getD_ne H t _ _ hc1,
            mmFix_getD_ne H t _ _ hc2]
          exact this
      obtain ⟨r1, r2, r3⟩ := walkUp_spec B fuel (pos / 2) (mmFix H t (pos / 2))
        (by rw [mmFix_length, hl]) (by omega) (by omega) hp1 hq'
      refine ⟨r1, r2, ?_⟩
      intro j hj
      rw [r3 j hj, mmFix_getD_ne H t _ _ (by omega)]
    · simp only [h1, if_false]
      have : pos = 1 := by omega
      subst this
      refine ⟨hl, ?_, by intros; first | rfl | trivial⟩
      intro i hi1 hiB
      exact hq i hi1 hiB (fun ha => by have := anc_one ha; omega)

/-- `SetSlot` on a built array = `Build` over the updated slots. -/
theorem setSlot_build (B : Nat) (hB : 1 ≤ B) (t : List Hash) (hl : t.length = 2 * B)
    (idx : Nat) (hidx : idx < B) (h : Hash) :
    mmSetSlot H B (mmBuild H B t) idx h = mmBuild H B (t.set (B + idx) h) := by
  obtain ⟨l0, b0, s0⟩ := build_spec H B hB t hl
  obtain ⟨l2, b2, s2⟩ := build_spec H B hB (t.set (B + idx) h) (by simp [hl])
  have hq : ∀ i, 1 ≤ i → i < B → ¬ Anc (B + idx) i →
      Eqn H ((mmBuild H B t).set (B + idx) h) i := by
    intro i hi1 hiB hna
    have := b0 i hi1 hiB
    simp only [Eqn] at this ⊢
    have hc1 : B + idx ≠ 2 * i := by
      intro hc; apply hna; exact ⟨1, by omega, by rw [hc]; simp⟩
    have hc2 : B + idx ≠ 2 * i + 1 := by
      intro hc; apply hna; exact ⟨1, by omega, by rw [hc]; simp; omega⟩
    have hne : B + idx ≠ i := by omega
    rw [getD_set, getD_set, getD_set]
    simp only [hne, hc1, hc2, false_and, if_false]
    exact this
  obtain ⟨l1, b1, s1⟩ := walkUp_spec H B (B + idx) (B + idx) ((mmBuild H B t).set (B + idx) h)
    (by simp [l0]) (by omega) (Nat.le_refl _) (by omega) hq
  apply built_unique H B l1 l2 b1 b2
  intro j hj
  show (mmWalkUp H (B + idx) (B + idx) ((mmBuild H B t).set (B + idx) h)).getD j [] = _
  rw [s1 j hj, s2 j hj, getD_set, getD_set, s0 j hj, l0, hl]

end GnoVerif.C24
