import GnoVerif.Model.C42Spec
import GnoVerif.Proofs.C42Basic
/-!
C42 helper lemmas, part 2: `chunksOf`, frames, `Write` produces `sealAll`.
-/
namespace GnoVerif.C42

/-! ### chunksOf -/

theorem chunksOf_nil : chunksOf [] = [] := by
  rw [chunksOf]; simp

theorem chunksOf_of_ne (d : Bytes) (h : d ≠ []) :
    chunksOf d = d.take dataMaxSize :: chunksOf (d.drop dataMaxSize) := by
  rw [chunksOf]; simp [h]

theorem chunksOf_flatten (d : Bytes) : (chunksOf d).flatten = d := by
  fun_induction chunksOf d with
  | case1 => simp
  | case2 d h ih => simp [ih]

theorem chunksOf_wf (d : Bytes) : ∀ ch ∈ chunksOf d, ch ≠ [] ∧ ch.length ≤ dataMaxSize := by
  fun_induction chunksOf d with
  | case1 => simp
  | case2 d h ih =>
    intro ch hch
    rcases List.mem_cons.1 hch with rfl | hm
    · constructor
      · intro e
        have : (List.take dataMaxSize d).length = 0 := by rw [e]; rfl
        rw [List.length_take] at this
        have hd : d.length ≠ 0 := fun e0 => h (List.eq_nil_of_length_eq_zero e0)
        have : 0 < dataMaxSize := by decide
        omega
      · rw [List.length_take]; omega
    · exact ih ch hm

/-- number of frames of a write: ⌈len / 1024⌉ -/
theorem chunksOf_length (d : Bytes) : (chunksOf d).length = (d.length + (dataMaxSize - 1)) / dataMaxSize := by
  fun_induction chunksOf d with
  | case1 => simp [dataMaxSize_eq]
  | case2 d h ih =>
    simp only [List.length_cons, ih, List.length_drop]
    have hd : d.length ≠ 0 := fun e0 => h (List.eq_nil_of_length_eq_zero e0)
    rw [dataMaxSize_eq]
    omega

/-! ### frames -/

theorem framesOfWrite_wf (data : Bytes) : ∀ f ∈ framesOfWrite data, f.WF :=
  fun f hf => chunksOf_wf data f hf

theorem payload_framesOfWrite (data : Bytes) : payload (framesOfWrite data) = data :=
  chunksOf_flatten data

theorem payload_append (a b : List Fr) : payload (a ++ b) = payload a ++ payload b := by
  simp [payload]

theorem payload_nil : payload [] = [] := rfl

theorem payload_cons (f : Fr) (fs : List Fr) : payload (f :: fs) = f ++ payload fs := by
  simp [payload]

theorem framesOfWrites_nil : framesOfWrites [] = [] := rfl

theorem framesOfWrites_cons (w : Bytes) (ws : List Bytes) :
    framesOfWrites (w :: ws) = framesOfWrite w ++ framesOfWrites ws := by
  simp [framesOfWrites]

theorem framesOfWrites_wf (ws : List Bytes) : ∀ f ∈ framesOfWrites ws, f.WF := by
  induction ws with
  | nil => intro f hf; simp [framesOfWrites] at hf
  | cons w ws ih =>
    intro f hf
    rw [framesOfWrites_cons] at hf
    rcases List.mem_append.1 hf with h | h
    · exact framesOfWrite_wf _ f h
    · exact ih f h

theorem payload_framesOfWrites (ws : List Bytes) :
    payload (framesOfWrites ws) = ws.flatten := by
  induction ws with
  | nil => rfl
  | cons w ws ih =>
    rw [framesOfWrites_cons, payload_append, payload_framesOfWrite, ih]
    simp

theorem sealAll_append (A : AEAD) (k : Bytes) (c : Nat) (a b : List Fr) :
    sealAll A k c (a ++ b) = sealAll A k c a ++ sealAll A k (c + a.length) b := by
  induction a generalizing c with
  | nil => simp [sealAll]
  | cons f fs ih =>
    simp only [List.cons_append, sealAll, ih, List.length_cons, List.append_assoc]
    rw [show c + 1 + fs.length = c + (fs.length + 1) by omega]

/-! ### Write -/

theorem writeFrames_spec (A : AEAD) (chunks : List Bytes) (sc : SC) (wire : Bytes)
    (n c : Nat) (hn : sc.sendNonce = nonceOf c) (hroom : c + chunks.length ≤ maxUint64) :
    writeFrames A chunks sc wire n =
      ⟨{ sc with sendNonce := nonceOf (c + chunks.length) },
       wire ++ sealAll A sc.sendKey c chunks,
       n + chunks.flatten.length, false⟩ := by
  induction chunks generalizing sc wire n c with
  | nil =>
    simp only [writeFrames, List.length_nil, Nat.add_zero, sealAll, List.append_nil,
      List.flatten_nil]
    rw [← hn]
  | cons ch rest ih =>
    simp only [List.length_cons] at hroom
    have hlt : c < maxUint64 := by omega
    simp only [writeFrames, hn, incrNonce_nonceOf c hlt]
    rw [ih { sc with sendNonce := nonceOf (c + 1) } _ _ (c + 1) rfl (by omega)]
    simp only [List.length_cons, sealAll, sealedAt, List.flatten_cons, List.length_append,
      List.append_assoc, WriteOut.mk.injEq, and_true]
    refine ⟨?_, ?_⟩
    · rw [show c + 1 + rest.length = c + (rest.length + 1) by omega]
    · exact ⟨trivial, Nat.add_assoc _ _ _⟩

theorem write_spec (A : AEAD) (sc : SC) (data : Bytes) (c : Nat)
    (hn : sc.sendNonce = nonceOf c) (hroom : c + (chunksOf data).length ≤ maxUint64) :
    write A sc data =
      ⟨{ sc with sendNonce := nonceOf (c + (chunksOf data).length) },
       sealAll A sc.sendKey c (framesOfWrite data), data.length, false⟩ := by
  unfold write
  rw [writeFrames_spec A (chunksOf data) sc [] 0 c hn hroom]
  simp [framesOfWrite, chunksOf_flatten]

theorem framesOfWrite_length (data : Bytes) : (framesOfWrite data).length = (chunksOf data).length := rfl

theorem writeMany_spec (A : AEAD) (ws : List Bytes) (sc : SC) (c : Nat)
    (hn : sc.sendNonce = nonceOf c) (hroom : c + (framesOfWrites ws).length ≤ maxUint64) :
    writeMany A sc ws =
      ({ sc with sendNonce := nonceOf (c + (framesOfWrites ws).length) },
       sealAll A sc.sendKey c (framesOfWrites ws), false) := by
  induction ws generalizing sc c with
  | nil =>
    simp only [writeMany, framesOfWrites_nil, List.length_nil, Nat.add_zero, sealAll]
    rw [← hn]
  | cons data ws ih =>
    rw [framesOfWrites_cons, List.length_append, framesOfWrite_length] at hroom
    have hroom' : c + ((chunksOf data).length + (framesOfWrites ws).length) ≤ maxUint64 := hroom
    simp only [writeMany]
    rw [write_spec A sc data c hn (by omega)]
    simp only [Bool.false_eq_true, if_false]
    rw [ih { sc with sendNonce := nonceOf (c + (chunksOf data).length) } (c + (chunksOf data).length) rfl
      (by omega)]
    simp only [framesOfWrites_cons, List.length_append, framesOfWrite_length, sealAll_append,
      Prod.mk.injEq, and_true]
    rw [Nat.add_assoc]

end GnoVerif.C42
