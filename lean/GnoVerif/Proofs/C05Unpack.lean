import GnoVerif.Proofs.C05Bits
/-! C05: what `funpack64` / `funpack32` (generated) return, class by class. -/
namespace GnoVerif.C05.L
open GnoVerif.Gen.C05

/-- normalisation loop of `funpack64`: shifts left until bit 52 is set -/
theorem funpack64_loop1_spec (fuel : Nat) (e m : BitVec 64)
    (h0 : m.toNat ≠ 0) (h1 : m.toNat < 2^53) (hf : 2^52 ≤ m.toNat * 2^fuel) :
    ∃ k, k ≤ fuel ∧ funpack64_loop1 fuel e m = (e - BitVec.ofNat 64 k, m <<< k) ∧
      (m <<< k).toNat = m.toNat * 2^k ∧ 2^52 ≤ m.toNat * 2^k ∧ m.toNat * 2^k < 2^53 ∧
      (k ≠ 0 → m.toNat < 2^52) := by
  induction fuel generalizing e m with
  | zero =>
    refine ⟨0, Nat.le_refl _, ?_, ?_, ?_, ?_, ?_⟩ <;> simp_all [funpack64_loop1]
  | succ n ih =>
    unfold funpack64_loop1
    by_cases hlt : m.toNat < 2^52
    · have hc : BitVec.ult m 4503599627370496#64 = true := by
        simp [BitVec.ult, hlt]
      simp only [hc, if_true]
      have hm1 : (m <<< 1).toNat = m.toNat * 2 := by
        rw [BitVec.toNat_shiftLeft, Nat.shiftLeft_eq]; simp; omega
      have e2 : ∀ j, m.toNat * 2 * 2^j = m.toNat * 2^(j+1) := by
        intro j; rw [Nat.pow_succ, Nat.mul_assoc, Nat.mul_comm 2]
      obtain ⟨k, hk, heq, htn, hlo, hhi, _⟩ := ih (e - 1#64) (m <<< 1) (by omega) (by omega)
        (by rw [hm1, e2]; exact hf)
      have hsh : m <<< (k + 1) = m <<< 1 <<< k := by
        rw [Nat.add_comm, BitVec.shiftLeft_add]
      rw [hm1, e2] at htn hlo hhi
      refine ⟨k + 1, by omega, ?_, ?_, hlo, hhi, fun _ => hlt⟩
      · rw [heq, hsh]
        congr 1
        rw [BitVec.sub_sub]; congr 1
        apply BitVec.eq_of_toNat_eq; simp [BitVec.toNat_add]; omega
      · rw [hsh, htn]
    · have hc : BitVec.ult m 4503599627370496#64 = false := by
        simp [BitVec.ult]; omega
      simp only [hc]
      refine ⟨0, by omega, ?_, ?_, ?_, ?_, ?_⟩ <;> simp <;> omega

theorem exp64_eq (f : BitVec 64) : (f >>> 52) &&& 2047#64 = BitVec.ofNat 64 (expF64 f) := by
  apply BitVec.eq_of_toNat_eq
  rw [toNat_exp64, BitVec.toNat_ofNat, expF64]
  omega

theorem mant64_eq (f : BitVec 64) : f &&& 4503599627370495#64 = BitVec.ofNat 64 (mantF64 f) := by
  apply BitVec.eq_of_toNat_eq
  rw [toNat_and_mant64, BitVec.toNat_ofNat, mantF64]
  omega

theorem expF64_lt (f : BitVec 64) : expF64 f < 2048 := by unfold expF64; omega
theorem mantF64_lt (f : BitVec 64) : mantF64 f < 2^52 := by unfold mantF64; omega

theorem ofNat64_eq_iff (a b : Nat) (ha : a < 2^64) (hb : b < 2^64) : (BitVec.ofNat 64 a == BitVec.ofNat 64 b) = decide (a = b) := by
  by_cases h : a = b
  · simp [h]
  · have : BitVec.ofNat 64 a ≠ BitVec.ofNat 64 b := by
      intro hh
      have := congrArg BitVec.toNat hh
      simp [BitVec.toNat_ofNat] at this
      omega
    simp [h, this]

/-- NaN / Inf: exponent field all ones -/
theorem funpack64_special (f : BitVec 64) (h : expF64 f = 2047) :
    funpack64 f = (f &&& 9223372036854775808#64, f &&& 4503599627370495#64, 2047#64,
                   decide (mantF64 f = 0), decide (mantF64 f ≠ 0)) := by
  have hm := mantF64_lt f
  unfold funpack64
  simp only [exp64_eq, h]
  rw [mant64_eq]
  by_cases h0 : mantF64 f = 0
  · simp [h0]
  · have : (BitVec.ofNat 64 (mantF64 f) != 0#64) = true := by
      have := ofNat64_eq_iff (mantF64 f) 0 (by omega) (by omega)
      simp [bne, this, h0]
    simp [this, h0]

theorem ofNat64_ne_lit (a b : Nat) (ha : a < 2^64) (hb : b < 2^64) (h : a ≠ b) :
    (BitVec.ofNat 64 a == BitVec.ofNat 64 b) = false := by
  rw [ofNat64_eq_iff a b ha hb]; simp [h]

/-- normal numbers: implicit bit added, exponent unbiased -/
theorem funpack64_normal (f : BitVec 64) (h0 : expF64 f ≠ 0) (h1 : expF64 f ≠ 2047) :
    funpack64 f = (f &&& 9223372036854775808#64, (f &&& 4503599627370495#64) ||| 4503599627370496#64,
                   BitVec.ofNat 64 (expF64 f) + BitVec.ofInt 64 (-1023), false, false) := by
  have he := expF64_lt f
  unfold funpack64
  simp only [exp64_eq]
  have c1 : (BitVec.ofNat 64 (expF64 f) == 2047#64) = false := ofNat64_ne_lit _ 2047 (by omega) (by omega) h1
  have c2 : (BitVec.ofNat 64 (expF64 f) == 0#64) = false := ofNat64_ne_lit _ 0 (by omega) (by omega) h0
  simp [c1, c2]

/-- ±0 -/
theorem funpack64_zero (f : BitVec 64) (h0 : expF64 f = 0) (hm : mantF64 f = 0) :
    funpack64 f = (f &&& 9223372036854775808#64, 0#64, 0#64, false, false) := by
  unfold funpack64
  simp only [exp64_eq, h0]
  rw [mant64_eq, hm]
  simp

/-- subnormals: normalised by `k` left shifts, exponent `-1022 - k` -/
theorem funpack64_subnormal (f : BitVec 64) (h0 : expF64 f = 0) (hm : mantF64 f ≠ 0) :
    ∃ k, 1 ≤ k ∧ k ≤ 52 ∧
      funpack64 f = (f &&& 9223372036854775808#64, (f &&& 4503599627370495#64) <<< k,
                     BitVec.ofInt 64 (-1022) - BitVec.ofNat 64 k, false, false) ∧
      ((f &&& 4503599627370495#64) <<< k).toNat = mantF64 f * 2^k ∧
      2^52 ≤ mantF64 f * 2^k ∧ mantF64 f * 2^k < 2^53 := by
  have hlt := mantF64_lt f
  have hmt : (f &&& 4503599627370495#64).toNat = mantF64 f := toNat_and_mant64 f
  obtain ⟨k, hk, heq, htn, hlo, hhi, hk0⟩ :=
    funpack64_loop1_spec 128 (0#64 + BitVec.ofInt 64 (-1022)) (f &&& 4503599627370495#64)
      (by omega) (by omega) (by
        rw [hmt]
        have : 1 * 2^128 ≤ mantF64 f * 2^128 := Nat.mul_le_mul_right _ (by omega)
        have : (2:Nat)^52 ≤ 2^128 := Nat.pow_le_pow_right (by decide) (by decide)
        omega)
  rw [hmt] at htn hlo hhi
  have hk1 : 1 ≤ k := by
    rcases Nat.eq_zero_or_pos k with h | h
    · subst h; simp at hlo; omega
    · exact h
  have hk52 : k ≤ 52 := by
    rcases Nat.lt_or_ge 52 k with h | h
    · have : 2^53 ≤ 2^k := Nat.pow_le_pow_right (by decide) h
      have : 1 * 2^k ≤ mantF64 f * 2^k := Nat.mul_le_mul_right _ (by omega)
      omega
    · exact h
  refine ⟨k, hk1, hk52, ?_, htn, hlo, hhi⟩
  unfold funpack64
  simp only [exp64_eq, h0]
  have c : ((f &&& 4503599627370495#64) != 0#64) = true := by
    rw [mant64_eq]
    have := ofNat64_ne_lit (mantF64 f) 0 (by omega) (by omega) hm
    simp [bne, this]
  have e1 : (0#64 + BitVec.ofInt 64 (-1022)) = 18446744073709550594#64 := by decide
  have e2 : BitVec.ofInt 64 (-1022) = 18446744073709550594#64 := by decide
  rw [e1] at heq
  simp only [loopFuel]
  simp [c, heq, e2]

/-- Summary used by the special-case tables: sign, class flags, and when the mantissa is zero. -/
theorem funpack64_ex (f : BitVec 64) :
    ∃ m e, funpack64 f = (f &&& 9223372036854775808#64, m, e, decide (isInf64 f), decide (isNaN64 f)) ∧
      (m = 0#64 ↔ (mantF64 f = 0 ∧ (expF64 f = 0 ∨ expF64 f = 2047))) ∧
      (expF64 f ≠ 2047 → m ≠ 0#64 → 2^52 ≤ m.toNat ∧ m.toNat < 2^53) := by
  have hml := mantF64_lt f
  have hmt : (f &&& 4503599627370495#64).toNat = mantF64 f := toNat_and_mant64 f
  by_cases h1 : expF64 f = 2047
  · refine ⟨f &&& 4503599627370495#64, 2047#64, ?_, ?_, ?_⟩
    · rw [funpack64_special f h1]
      simp [isInf64, isNaN64, h1]
    · rw [mant64_eq]
      constructor
      · intro h
        have := congrArg BitVec.toNat h
        simp [BitVec.toNat_ofNat] at this
        exact ⟨by omega, Or.inr h1⟩
      · intro ⟨h, _⟩; simp [h]
    · intro h; exact absurd h1 h
  · by_cases h0 : expF64 f = 0
    · by_cases hm : mantF64 f = 0
      · refine ⟨0#64, 0#64, ?_, ?_, ?_⟩
        · rw [funpack64_zero f h0 hm]
          simp [isInf64, isNaN64, h1]
        · simp [hm, h0]
        · intro _ h; exact absurd rfl h
      · obtain ⟨k, hk1, hk52, heq, htn, hlo, hhi⟩ := funpack64_subnormal f h0 hm
        refine ⟨(f &&& 4503599627370495#64) <<< k, BitVec.ofInt 64 (-1022) - BitVec.ofNat 64 k, ?_, ?_, ?_⟩
        · rw [heq]; simp [isInf64, isNaN64, h1]
        · constructor
          · intro h
            have := congrArg BitVec.toNat h
            rw [htn] at this; simp at this; omega
          · intro ⟨h, _⟩; exact absurd h hm
        · intro _ _; rw [htn]; exact ⟨hlo, hhi⟩
    · refine ⟨(f &&& 4503599627370495#64) ||| 4503599627370496#64,
        BitVec.ofNat 64 (expF64 f) + BitVec.ofInt 64 (-1023), ?_, ?_, ?_⟩
      · rw [funpack64_normal f h0 h1]
        simp [isInf64, isNaN64, h1]
      · have : ((f &&& 4503599627370495#64) ||| 4503599627370496#64).toNat = mantF64 f + 2^52 := by
          rw [toNat_or_implicit64 _ (by omega), hmt]
        constructor
        · intro h
          have h' := congrArg BitVec.toNat h
          rw [this] at h'; simp at h'
        · intro ⟨_, h⟩; omega
      · intro _ _
        rw [toNat_or_implicit64 _ (by omega), hmt]; omega
end GnoVerif.C05.L
