import GnoVerif.Proofs.C43Sys
/-! C43 helper lemmas: the joint invariant is preserved by every action of the sending side
    followed by the receiver processing what was written. -/
namespace GnoVerif.C43

structure Inv (P : Nat) (rd : List RDesc) (t : SRun) (r : Recv) : Prop where
  hP : t.snd.maxPayload = P
  rerr : r.err = none
  rph : r.phase = .len []
  rmax : r.maxFrame = maxPacketMsgSize P
  sids : (t.snd.chans.map (·.id)).Nodup
  rids : (r.chans.map (·.id)).Nodup
  caps : ∀ d ∈ rd, ∃ rc ∈ r.chans, rc.id = d.id ∧ rc.cap = (mkRChan d).cap
  chan : ∀ c ∈ t.snd.chans, ∃ rc ∈ r.chans, CRel (onCh t.accepted c.id) (onCh r.delivered c.id) c rc
  other : ∀ ch, (∀ c ∈ t.snd.chans, c.id ≠ ch) → onCh t.accepted ch = [] ∧ onCh r.delivered ch = []

theorem map_ids_s (cs : List SChan) (g : SChan → SChan) (hg : ∀ c, (g c).id = c.id) :
    (cs.map g).map (·.id) = cs.map (·.id) := by
  rw [List.map_map]; exact List.map_congr_left (fun c _ => hg c)

theorem map_ids_r (cs : List RChan) (g : RChan → RChan) (hg : ∀ c, (g c).id = c.id) :
    (cs.map g).map (·.id) = cs.map (·.id) := by
  rw [List.map_map]; exact List.map_congr_left (fun c _ => hg c)

def enqChans (cs : List SChan) (id : UInt8) (m : Bytes) : List SChan :=
  cs.map fun c => if c.id = id then { c with queue := c.queue ++ [m] } else c

def SRun.enq (t : SRun) (id : UInt8) (m : Bytes) : SRun :=
  { snd := { maxPayload := t.snd.maxPayload, chans := enqChans t.snd.chans id m },
    out := t.out, accepted := t.accepted ++ [(id, m)] }

/-- an accepted Send/TrySend: the message joins the queue of its channel. -/
theorem Inv.enqueue {P : Nat} {rd : List RDesc} {t : SRun} {r : Recv} (h : Inv P rd t r)
    (id : UInt8) (m : Bytes) (hok : MsgOK rd id m) (c0 : SChan) (hc0 : c0 ∈ t.snd.chans) (hid0 : c0.id = id) :
    Inv P rd (t.enq id m) r := by
  have hg : ∀ c : SChan, (if c.id = id then { c with queue := c.queue ++ [m] } else c).id = c.id := by
    intro c; split <;> rfl
  refine ⟨h.hP, h.rerr, h.rph, h.rmax, ?_, h.rids, h.caps, ?_, ?_⟩
  · show ((enqChans t.snd.chans id m).map (·.id)).Nodup
    unfold enqChans
    rw [map_ids_s _ _ hg]; exact h.sids
  · intro c' hc'
    obtain ⟨c, hc, rfl⟩ := List.mem_map.mp hc'
    obtain ⟨rc, hrc, hrel⟩ := h.chan c hc
    refine ⟨rc, hrc, ?_⟩
    show CRel (onCh (t.accepted ++ [(id, m)]) _) _ _ rc
    rw [hg c, onCh_snoc]
    by_cases hci : c.id = id
    · rw [if_pos hci.symm, if_pos hci]
      obtain ⟨hne, d, hd, hdid, hdcap⟩ := hok
      obtain ⟨rc1, hrc1, hrc1id, hrc1cap⟩ := h.caps d hd
      have : rc1 = rc := mem_unique_of_nodup_map (fun c : RChan => c.id) r.chans h.rids rc1 hrc1 rc hrc
        (by show rc1.id = rc.id; rw [hrc1id, hdid, hrel.ids, hci])
      subst this
      exact hrel.enqueue m hne (by rw [hrc1cap]; exact hdcap)
    · have hne : ¬ id = c.id := fun e => hci e.symm
      rw [if_neg hne, if_neg hci]; exact hrel
  · intro ch hch
    have hold : ∀ c ∈ t.snd.chans, c.id ≠ ch := by
      intro c hc
      have := hch _ (List.mem_map.mpr ⟨c, hc, rfl⟩)
      rwa [hg c] at this
    have hne : ¬ id = ch := by
      intro e; exact hold c0 hc0 (hid0.trans e)
    show onCh (t.accepted ++ [(id, m)]) ch = [] ∧ _
    rw [onCh_snoc, if_neg hne]
    exact h.other ch hold

theorem Inv.act_send {P : Nat} {rd : List RDesc} {t : SRun} {r : Recv} (h : Inv P rd t r)
    (id : UInt8) (m : Bytes) (hok : MsgOK rd id m) : Inv P rd (t.act (.send id m)) r := by
  unfold SRun.act Sender.send
  cases hf : t.snd.chans.find? (fun c => decide (c.id = id)) with
  | none => simpa [hf] using h
  | some c0 =>
    have hid0 : c0.id = id := by simpa using List.find?_some hf
    have hc0 : c0 ∈ t.snd.chans := List.mem_of_find?_eq_some hf
    simpa [hf, SRun.enq, enqChans] using h.enqueue id m hok c0 hc0 hid0

theorem Inv.act_trySend {P : Nat} {rd : List RDesc} {t : SRun} {r : Recv} (h : Inv P rd t r)
    (id : UInt8) (m : Bytes) (hok : MsgOK rd id m) : Inv P rd (t.act (.trySend id m)) r := by
  unfold SRun.act Sender.trySend
  cases hf : t.snd.chans.find? (fun c => decide (c.id = id)) with
  | none => simpa [hf] using h
  | some c0 =>
    have hid0 : c0.id = id := by simpa using List.find?_some hf
    have hc0 : c0 ∈ t.snd.chans := List.mem_of_find?_eq_some hf
    by_cases hq : c0.queue.length < c0.qcap
    · simpa [hf, hq, SRun.enq, enqChans] using h.enqueue id m hok c0 hc0 hid0
    · simpa [hf, hq] using h


/-- a ping or pong written by sendRoutine: the receiver only logs it. -/
theorem Inv.ctl {P : Nat} {rd : List RDesc} {t : SRun} {r : Recv} (h : Inv P rd t r)
    (hP0 : 0 < P) (hP1 : P ≤ 2 ^ 20) (p : Packet) (hp : p = .ping ∨ p = .pong) :
    Inv P rd { t with out := t.out ++ [p] } (r.feed (encFrame p)) := by
  have hlen : (encFrame p).length ≤ r.maxFrame := by
    rw [h.rmax]
    rcases hp with rfl | rfl
    · exact (encFrame_ctl_le_max P hP0 hP1).1
    · exact (encFrame_ctl_le_max P hP0 hP1).2
  have hnm : ∀ ch eof bs, p = .msg ch eof bs → bs.length < 2 ^ 62 := by
    intro ch eof bs e; rcases hp with rfl | rfl <;> cases e
  rw [Recv.feed_frame r p h.rerr h.rph hlen hnm]
  have e : r.onPacket p = { r with log := r.log ++ [p] } := by
    rcases hp with rfl | rfl <;> rfl
  rw [e]
  exact ⟨h.hP, h.rerr, h.rph, h.rmax, h.sids, h.rids, h.caps, h.chan, h.other⟩

/-- what `stepAt` does when it is defined. -/
theorem stepAt_some (s : Sender) (i : Nat) (s' : Sender) (p : Packet) (h : s.stepAt i = some (s', p)) :
    ∃ c0 ∈ s.chans, c0.pend.2 = true ∧
      p = (c0.pend.1.next s.maxPayload).2 ∧
      s' = { s with chans := (s.chans.map (fun c => c.pend.1)).map (fun x =>
              if x.id = c0.pend.1.id then
                { (c0.pend.1.next s.maxPayload).1 with
                  recentlySent := (c0.pend.1.next s.maxPayload).1.recentlySent +
                    (encFrame (c0.pend.1.next s.maxPayload).2).length }
              else x) } := by
  unfold Sender.stepAt pendAll at h
  simp only [List.getElem?_map] at h
  cases hi : s.chans[i]? with
  | none => simp [hi] at h
  | some c0 =>
    have hmem : c0 ∈ s.chans := List.mem_of_getElem? hi
    simp only [hi, Option.map_some] at h
    rcases hpd : c0.pend with ⟨c, b⟩
    rw [hpd] at h
    cases b with
    | false => simp at h
    | true =>
      simp only [List.map_map] at h
      injection h with h
      injection h with h1 h2
      refine ⟨c0, hmem, by rw [hpd], ?_, ?_⟩
      · rw [hpd]; exact h2.symm
      · rw [hpd]; rw [← h1]; simp [List.map_map]


theorem pend_id (c : SChan) : c.pend.1.id = c.id := by
  unfold SChan.pend
  split
  · split <;> rfl
  · rfl

theorem onCh_append_map (l : List (UInt8 × Bytes)) (id : UInt8) (dl : List Bytes) (ch : UInt8) :
    onCh (l ++ dl.map (fun m => (id, m))) ch = if ch = id then onCh l ch ++ dl else onCh l ch := by
  unfold onCh
  by_cases h : ch = id
  · subst h
    simp [List.filter_append, List.filter_map, List.map_map, Function.comp_def]
  · have h' : ¬ id = ch := fun e => h e.symm
    simp [List.filter_append, List.filter_map, Function.comp_def, h, h']

/-- generic preservation for one data packet of channel `c0` (`k` is its id, however written). -/
theorem Inv.step_aux {P : Nat} {rd : List RDesc} {t : SRun} {r : Recv} (h : Inv P rd t r)
    (c0 : SChan) (hc0 : c0 ∈ t.snd.chans) (rc : RChan) (hrc : rc ∈ r.chans)
    (c'' : SChan) (hid'' : c''.id = c0.id) (k : UInt8) (hk : k = c0.id) (v : Bytes) (dl : List Bytes)
    (hrel' : CRel (onCh t.accepted c0.id) (onCh r.delivered c0.id ++ dl) c'' { rc with recving := v })
    (hrcid : rc.id = c0.id) (out' : List Packet) (log' : List Packet) :
    Inv P rd
      { snd := { maxPayload := t.snd.maxPayload,
                 chans := (t.snd.chans.map (fun c => c.pend.1)).map (fun x => if x.id = k then c'' else x) },
        out := out', accepted := t.accepted }
      { r with chans := r.chans.map (fun x => if x.id = k then { x with recving := v } else x),
               delivered := r.delivered ++ dl.map (fun m => (k, m)), log := log' } := by
  subst hk
  have hgs : ∀ c : SChan, (if c.pend.1.id = c0.id then c'' else c.pend.1).id = c.id := by
    intro c
    by_cases e : c.pend.1.id = c0.id
    · rw [if_pos e, hid'', ← e, pend_id]
    · rw [if_neg e, pend_id]
  have hgr : ∀ x : RChan, (if x.id = c0.id then { x with recving := v } else x).id = x.id := by
    intro x; split <;> rfl
  have hgrc : ∀ x : RChan, (if x.id = c0.id then { x with recving := v } else x).cap = x.cap := by
    intro x; split <;> rfl
  have hchans : (t.snd.chans.map (fun c => c.pend.1)).map (fun x => if x.id = c0.id then c'' else x)
      = t.snd.chans.map (fun c => if c.pend.1.id = c0.id then c'' else c.pend.1) := by
    rw [List.map_map]; rfl
  refine ⟨h.hP, h.rerr, h.rph, h.rmax, ?_, ?_, ?_, ?_, ?_⟩
  · show (((t.snd.chans.map (fun c => c.pend.1)).map (fun x => if x.id = c0.id then c'' else x)).map (·.id)).Nodup
    rw [hchans, map_ids_s _ _ hgs]; exact h.sids
  · show ((r.chans.map (fun x => if x.id = c0.id then { x with recving := v } else x)).map (·.id)).Nodup
    rw [map_ids_r _ _ hgr]; exact h.rids
  · intro d hd
    obtain ⟨x, hx, hxid, hxcap⟩ := h.caps d hd
    exact ⟨_, List.mem_map.mpr ⟨x, hx, rfl⟩, by rw [hgr, hxid], by rw [hgrc, hxcap]⟩
  · intro c' hc'
    rw [hchans] at hc'
    obtain ⟨c, hc, rfl⟩ := List.mem_map.mp hc'
    obtain ⟨rcx, hrcx, hrelx⟩ := h.chan c hc
    have hrelx' := hrelx.pend
    by_cases e : c.pend.1.id = c0.id
    · have hcc : c = c0 := mem_unique_of_nodup_map (fun c : SChan => c.id) t.snd.chans h.sids c hc c0 hc0
        (by show c.id = c0.id; rw [← pend_id c]; exact e)
      subst hcc
      refine ⟨{ rc with recving := v }, List.mem_map.mpr ⟨rc, hrc, by rw [if_pos hrcid]⟩, ?_⟩
      show CRel (onCh t.accepted _) (onCh (r.delivered ++ dl.map (fun m => (c.id, m))) _) _ _
      rw [if_pos e, hid'', onCh_append_map, if_pos rfl]
      exact hrel'
    · have hne : ¬ rcx.id = c0.id := by rw [hrelx'.ids]; exact e
      refine ⟨rcx, List.mem_map.mpr ⟨rcx, hrcx, by rw [if_neg hne]⟩, ?_⟩
      show CRel (onCh t.accepted _) (onCh (r.delivered ++ dl.map (fun m => (c0.id, m))) _) _ _
      rw [if_neg e, onCh_append_map, if_neg e, pend_id]
      exact hrelx'
  · intro ch hch
    have hold : ∀ c ∈ t.snd.chans, c.id ≠ ch := by
      intro c hc
      have := hch _ (by rw [hchans]; exact List.mem_map.mpr ⟨c, hc, rfl⟩)
      rwa [hgs c] at this
    have hne : ¬ ch = c0.id := fun e => hold c0 hc0 e.symm
    obtain ⟨h1, h2⟩ := h.other ch hold
    refine ⟨h1, ?_⟩
    show onCh (r.delivered ++ dl.map (fun m => (c0.id, m))) ch = []
    rw [onCh_append_map, if_neg hne]; exact h2

/-- one `sendPacketMsg` (any choice of channel) followed by the receiver reading that frame. -/
theorem Inv.step {P : Nat} {rd : List RDesc} {t : SRun} {r : Recv} (h : Inv P rd t r)
    (hP0 : 0 < P) (hP1 : P ≤ 2 ^ 20) (i : Nat) (s' : Sender) (p : Packet)
    (hs : t.snd.stepAt i = some (s', p)) :
    Inv P rd { snd := s', out := t.out ++ [p], accepted := t.accepted } (r.feed (encFrame p)) := by
  obtain ⟨c0, hc0, hpend, hp, hs'⟩ := stepAt_some _ _ _ _ hs
  obtain ⟨rc, hrc, hrel0⟩ := h.chan c0 hc0
  have hrel1 := hrel0.pend
  have hsend := hrel0.pend_sending hpend
  have hidp := pend_id c0
  have hrcid : rc.id = c0.id := by rw [hrel1.ids, hidp]
  have hfits := hrel1.fits hsend
  rw [List.length_append] at hfits
  by_cases hle : c0.pend.1.sending.length ≤ P
  · have hnext : c0.pend.1.next t.snd.maxPayload =
        ({ c0.pend.1 with sending := [] }, .msg c0.pend.1.id 1 c0.pend.1.sending) := by
      rw [h.hP]
      unfold SChan.next
      simp only [hle, if_true, Nat.min_eq_right hle, List.take_length]
    rw [hnext] at hp hs'
    subst hp hs'
    have hlen : (encFrame (.msg c0.pend.1.id 1 c0.pend.1.sending)).length ≤ r.maxFrame := by
      rw [h.rmax]; exact encFrame_msg_le_max P hP0 hP1 _ _ _ hle
    have hnm : ∀ ch eof bs, Packet.msg c0.pend.1.id 1 c0.pend.1.sending = .msg ch eof bs → bs.length < 2 ^ 62 := by
      intro ch eof bs e; injection e with _ _ e3; subst e3; omega
    rw [Recv.feed_frame r _ h.rerr h.rph hlen hnm]
    rw [Recv.onPacket_msg r rc c0.pend.1.id 1 _ h.rids hrc hrel1.ids (by omega), if_pos rfl]
    exact h.step_aux c0 hc0 rc hrc
      { c0.pend.1 with sending := [], recentlySent := c0.pend.1.recentlySent +
          (encFrame (.msg c0.pend.1.id 1 c0.pend.1.sending)).length } hidp
      c0.pend.1.id hidp [] [rc.recving ++ c0.pend.1.sending] (hrel1.next_eof hsend _) hrcid _ _
  · have hnext : c0.pend.1.next t.snd.maxPayload =
        ({ c0.pend.1 with sending := c0.pend.1.sending.drop P },
          .msg c0.pend.1.id 0 (c0.pend.1.sending.take P)) := by
      rw [h.hP]
      unfold SChan.next
      have hmin : min P c0.pend.1.sending.length = P := Nat.min_eq_left (by omega)
      simp only [hle, if_false, hmin]
    rw [hnext] at hp hs'
    subst hp hs'
    have htl : (c0.pend.1.sending.take P).length = P := by
      rw [List.length_take]; omega
    have hlen : (encFrame (.msg c0.pend.1.id 0 (c0.pend.1.sending.take P))).length ≤ r.maxFrame := by
      rw [h.rmax]; exact encFrame_msg_le_max P hP0 hP1 _ _ _ (by omega)
    have hnm : ∀ ch eof bs, Packet.msg c0.pend.1.id 0 (c0.pend.1.sending.take P) = .msg ch eof bs →
        bs.length < 2 ^ 62 := by
      intro ch eof bs e; injection e with _ _ e3; subst e3; omega
    rw [Recv.feed_frame r _ h.rerr h.rph hlen hnm]
    have h01 : ¬ (0 : UInt8) = 1 := by decide
    rw [Recv.onPacket_msg r rc c0.pend.1.id 0 _ h.rids hrc hrel1.ids (by omega), if_neg h01]
    have := h.step_aux c0 hc0 rc hrc
      { c0.pend.1 with sending := c0.pend.1.sending.drop P, recentlySent := c0.pend.1.recentlySent +
          (encFrame (.msg c0.pend.1.id 0 (c0.pend.1.sending.take P))).length } hidp
      c0.pend.1.id hidp (rc.recving ++ c0.pend.1.sending.take P) []
      (by rw [List.append_nil]; exact hrel1.next_more P hle _) hrcid
      (t.out ++ [.msg c0.pend.1.id 0 (c0.pend.1.sending.take P)])
      (r.log ++ [.msg c0.pend.1.id 0 (c0.pend.1.sending.take P)])
    simp only [List.map_nil, List.append_nil] at this
    exact this

end GnoVerif.C43
