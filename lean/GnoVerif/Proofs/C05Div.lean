import GnoVerif.Proofs.C05Bits
/-! C05: the integer division inside `divlu` never divides by zero, so `fdiv64` never panics. -/
namespace GnoVerif.C05.L
open GnoVerif.Gen.C05

/-- the normalising loop of `divlu` ends with the top bit set (given enough fuel) -/
theorem divlu_loop1_top (fuel : Nat) : ∀ (s v : BitVec 64), v.toNat ≠ 0 → 2^63 ≤ v.toNat * 2^fuel →
    2^63 ≤ (divlu_loop1 fuel s v).2.toNat := by
  induction fuel with
  | zero => intro s v _ h; simpa [divlu_loop1] using h
  | succ n ih =>
    intro s v h0 hf
    unfold divlu_loop1
    by_cases hlt : v.toNat < 2^63
    · have c : ((v &&& 9223372036854775808#64) == 0#64) = true := by
        rw [beq_iff_eq]; apply BitVec.eq_of_toNat_eq; rw [toNat_and_sign64]; simp; omega
      simp only [c, if_true]
      have hv1 : (v <<< 1).toNat = v.toNat * 2 := by
        rw [BitVec.toNat_shiftLeft, Nat.shiftLeft_eq]; simp; omega
      apply ih
      · omega
      · rw [hv1, Nat.mul_assoc, Nat.mul_comm 2, ← Nat.pow_succ]; exact hf
    · have c : ((v &&& 9223372036854775808#64) == 0#64) = false := by
        rw [Bool.eq_false_iff]; intro h
        have := congrArg BitVec.toNat (eq_of_beq h)
        rw [toNat_and_sign64] at this; simp at this
        have := v.isLt; omega
      simp only [c]
      simp; omega

theorem GoInt_div_ok (a b : BitVec 64) (h : b ≠ 0#64) : GoInt.div false a b = .ok (a.udiv b) := by
  unfold GoInt.div
  have : (b == 0#64) = false := by simp [h]
  simp [this]; rfl

theorem divlu_ok (u1 u0 v : BitVec 64) : ∃ q r, divlu u1 u0 v = .ok (q, r) := by
  unfold divlu
  by_cases h : BitVec.ule v u1 = true
  · simp only [h, if_true]; exact ⟨_, _, rfl⟩
  · simp only [h]
    have hv : v.toNat ≠ 0 := by
      simp [BitVec.ule] at h; omega
    have htop := divlu_loop1_top 128 0#64 v hv (by
      have : 1 * 2^128 ≤ v.toNat * 2^128 := Nat.mul_le_mul_right _ (by omega)
      have : (2:Nat)^63 ≤ 2^128 := Nat.pow_le_pow_right (by decide) (by decide)
      omega)
    simp only [loopFuel]
    generalize divlu_loop1 128 0#64 v = p at htop
    obtain ⟨s, v'⟩ := p
    simp only [] at htop
    have hne : v' >>> 32 ≠ 0#64 := by
      intro h0
      have := congrArg BitVec.toNat h0
      rw [BitVec.toNat_ushiftRight, Nat.shiftRight_eq_div_pow] at this
      simp at this; omega
    simp only [Bool.false_eq_true, if_false, GoInt_div_ok _ _ hne]
    exact ⟨_, _, rfl⟩

theorem fdiv64_ok (f g : BitVec 64) : ∃ r, fdiv64 f g = .ok r := by
  unfold fdiv64
  generalize funpack64 f = a
  generalize funpack64 g = b
  obtain ⟨fs, fm, fe, fi, fn⟩ := a
  obtain ⟨gs, gm, ge, gi, gn⟩ := b
  simp only []
  repeat' split
  all_goals first
    | exact ⟨_, rfl⟩
    | (obtain ⟨q, r, h⟩ := divlu_ok (fm >>> (64#64 - 54#64).toNat) (fm <<< (54#64).toNat) gm
       rw [h]; exact ⟨_, rfl⟩)

theorem fdiv32_ok (x y : BitVec 32) : ∃ r, fdiv32 x y = .ok r := by
  unfold fdiv32
  obtain ⟨r, h⟩ := fdiv64_ok (f32to64 x) (f32to64 y)
  rw [h]; exact ⟨_, rfl⟩

end GnoVerif.C05.L
