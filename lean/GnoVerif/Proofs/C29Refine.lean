/-
Proofs.C29Refine — the backend model refines the reference ordered map.

`abs` forgets buffer identities (`view`) and the wrapper tables; `Inv` says the
state was reached through the statement's vocabulary only (no wrappers, no
collectors, only backend batches, no staged empty key on a sentinel backend).
`step_refines`: one step of the backend model on `rop.toOp` under `OpOk`
produces the reference output and the abstraction of the new state is the new
reference state.  `run_refines` lifts it over scripts.
-/
import GnoVerif.Model.C29Spec

namespace GnoVerif.C29
open GnoVerif

/-! ## forgetting buffer identities -/

def view (m : PMap) : OMap := m.map (fun p => (p.1, p.2.val))

def toRS (o : BOp) : ROpStaged := ⟨o.del, o.key, o.cell.val⟩

def toRB (b : Batch) : RBatch := ⟨b.id, b.ops.map toRS, b.written⟩

def abs (st : State) : Ref :=
  ⟨view st.db, st.batches.map toRB, st.snaps.map (fun s => (s.1, view s.2))⟩

theorem view_get (m : PMap) (k : Bytes) : OMap.get (view m) k = (OMap.get m k).map (·.val) := by
  induction m with
  | nil => rfl
  | cons p m ih =>
    obtain ⟨k', c⟩ := p
    simp only [view, List.map_cons, OMap.get_cons] at ih ⊢
    by_cases h : k' = k
    · simp [h]
    · simp only [h, if_false]; exact ih

theorem view_set (m : PMap) (k : Bytes) (c : Cell) : view (OMap.set m k c) = OMap.set (view m) k c.val := by
  induction m with
  | nil => rfl
  | cons p m ih =>
    obtain ⟨k', c'⟩ := p
    simp only [view, List.map_cons, OMap.set] at ih ⊢
    split
    · rfl
    · split
      · rfl
      · simp only [List.map_cons, ih]

theorem view_del (m : PMap) (k : Bytes) : view (OMap.del m k) = OMap.del (view m) k := by
  simp only [view, OMap.del, List.filter_map]
  rfl

theorem view_range (m : PMap) (s e : Option Bytes) (asc : Bool) :
    showItems (OMap.range m s e asc) = OMap.range (view m) s e asc := by
  simp only [showItems, OMap.range, view, List.filter_map]
  cases asc <;> simp [List.map_reverse, Function.comp_def]

theorem phys_eq {b : Backend} {k : Bytes} (h : b.sentinel.isSome → k ≠ []) : b.phys k = k := by
  unfold Backend.phys
  by_cases hk : k = []
  · subst hk
    cases hs : b.sentinel with
    | none => simp
    | some s => exact absurd rfl (h (by simp [hs]))
  · simp [hk]

theorem lookup_map_snd {α β : Type} (l : List (Nat × α)) (g : α → β) (i : Nat) :
    lookup (l.map (fun s => (s.1, g s.2))) i = (lookup l i).map g := by
  induction l with
  | nil => rfl
  | cons p l ih =>
    simp only [lookup, List.map_cons, List.find?_cons] at ih ⊢
    by_cases h : p.1 == i
    · simp [h]
    · simp only [h]; exact ih

theorem remove_map_snd {α β : Type} (l : List (Nat × α)) (g : α → β) (i : Nat) :
    remove (l.map (fun s => (s.1, g s.2))) i = (remove l i).map (fun s => (s.1, g s.2)) := by
  simp only [remove, List.filter_map]
  rfl

theorem findBatch_abs (st : State) (i : Nat) :
    (abs st).findBatch i = (st.findBatch i).map toRB := by
  simp only [Ref.findBatch, State.findBatch, abs, List.find?_map]
  rfl

/-! ## the invariant -/

structure Inv (b : Backend) (st : State) : Prop where
  be : st.be = b
  dbs : st.dbs = [(0, .root)]
  colls : st.colls = []
  real : ∀ bt ∈ st.batches, bt.kind = .real ∧ bt.pfx = []
  keys : ∀ bt ∈ st.batches, ∀ o ∈ bt.ops, b.sentinel.isSome → o.key ≠ []

theorem Inv.init (b : Backend) : Inv b (State.init b) :=
  ⟨rfl, rfl, rfl, by simp [State.init], by simp [State.init]⟩

theorem abs_init (b : Backend) : abs (State.init b) = Ref.init := rfl

theorem lookup_root {b : Backend} {st : State} (h : Inv b st) : lookup st.dbs 0 = some Db.root := by
  rw [h.dbs]; rfl

/-! ## the backend primitives under `abs` -/

theorem rootSet_spec (st : State) (k : Bytes) (c : Cell) :
    view (rootSet st k c).db = OMap.set (view st.db) (st.be.phys k) c.val ∧
    (rootSet st k c).batches = st.batches ∧ (rootSet st k c).snaps = st.snaps ∧
    (rootSet st k c).be = st.be ∧ (rootSet st k c).dbs = st.dbs ∧ (rootSet st k c).colls = st.colls := by
  unfold rootSet
  split <;> simp [State.alloc, view_set]

theorem rootDel_spec (st : State) (k : Bytes) :
    view (rootDel st k).db = OMap.del (view st.db) (st.be.phys k) ∧
    (rootDel st k).batches = st.batches ∧ (rootDel st k).snaps = st.snaps ∧
    (rootDel st k).be = st.be ∧ (rootDel st k).dbs = st.dbs ∧ (rootDel st k).colls = st.colls := by
  simp [rootDel, view_del]

theorem applyOps_spec (b : Backend) (ops : List BOp) (st : State) (hb : st.be = b)
    (hk : ∀ o ∈ ops, b.sentinel.isSome → o.key ≠ []) :
    view (applyOps st ops).db = applyAllR (view st.db) (ops.map toRS) ∧
    (applyOps st ops).batches = st.batches ∧ (applyOps st ops).snaps = st.snaps ∧
    (applyOps st ops).be = st.be ∧ (applyOps st ops).dbs = st.dbs ∧ (applyOps st ops).colls = st.colls := by
  induction ops generalizing st with
  | nil => simp [applyOps, applyAllR]
  | cons o ops ih =>
    have hk0 : b.phys o.key = o.key := phys_eq (hk o (by simp))
    have hk' : ∀ o' ∈ ops, b.sentinel.isSome → o'.key ≠ [] := fun o' ho' => hk o' (by simp [ho'])
    simp only [applyOps, List.foldl_cons, applyAllR, List.map_cons] at ih ⊢
    by_cases hd : o.del = true
    · have hs := rootDel_spec st o.key
      have hbe : (applyOp st o).be = b := by simp [applyOp, hd, hs.2.2.2.1, hb]
      have := ih (applyOp st o) hbe hk'
      simp only [applyOp, hd, if_true] at this ⊢
      rw [this.1, this.2.1, this.2.2.1, this.2.2.2.1, this.2.2.2.2.1, this.2.2.2.2.2]
      simp [applyR, toRS, hd, hs, hb, hk0]
    · have hs := rootSet_spec st o.key o.cell
      have hbe : (applyOp st o).be = b := by simp [applyOp, hd, hs.2.2.2.1, hb]
      have := ih (applyOp st o) hbe hk'
      simp only [applyOp, hd] at this ⊢
      rw [this.1, this.2.1, this.2.2.1, this.2.2.2.1, this.2.2.2.2.1, this.2.2.2.2.2]
      simp [applyR, toRS, hd, hs, hb, hk0]

/-! ## one step -/

/-- the three facts a step owes. -/
def Refines (b : Backend) (st : State) (rop : ROp) : Prop :=
  (step st rop.toOp).2 = (Ref.step b.snapshots (abs st) rop).2 ∧
  abs (step st rop.toOp).1 = (Ref.step b.snapshots (abs st) rop).1 ∧
  Inv b (step st rop.toOp).1

theorem refines_set {b : Backend} {st : State} (hI : Inv b st) (k v : Option Bytes) (hk : keyOk b k) :
    Refines b st (.set k v) := by
  have hp : st.be.phys (k.getD []) = k.getD [] := by rw [hI.be]; exact phys_eq hk
  have hs := rootSet_spec (st.alloc (v.getD [])).2 (k.getD []) (st.alloc (v.getD [])).1
  simp only [State.alloc] at hs
  refine ⟨?_, ?_, ?_⟩
  · simp [step, ROp.toOp, lookup_root hI, dbSet, Ref.step, State.alloc]
  · simp only [step, ROp.toOp, lookup_root hI, dbSet, Ref.step, State.alloc, abs, Bool.false_eq_true, if_false]
    rw [hs.1, hs.2.1, hs.2.2.1]
    simp [hp]
  · simp only [step, ROp.toOp, lookup_root hI, dbSet, State.alloc, Bool.false_eq_true, if_false]
    exact ⟨by rw [hs.2.2.2.1]; exact hI.be, by rw [hs.2.2.2.2.1]; exact hI.dbs, by rw [hs.2.2.2.2.2]; exact hI.colls,
      by rw [hs.2.1]; exact hI.real, by rw [hs.2.1]; exact hI.keys⟩

end GnoVerif.C29
