/-
Proofs.C29Refine — the backend model refines the reference ordered map.

`abs` forgets buffer identities (`view`) and the wrapper tables; `Inv` says the
state was reached through the statement's vocabulary only (no wrappers, no
collectors, only backend batches, no staged empty key on a sentinel backend).
`step_refines`: one step of the backend model on `rop.toOp` under `OpOk`
produces the reference output and the abstraction of the new state is the new
reference state.  `run_refines` lifts it over scripts.
-/
import GnoVerif.Model.C29Spec

namespace GnoVerif.C29
open GnoVerif

/-! ## forgetting buffer identities -/

def view (m : PMap) : OMap := m.map (fun p => (p.1, p.2.val))

def toRS (o : BOp) : ROpStaged := ⟨o.del, o.key, o.cell.val⟩

def toRB (b : Batch) : RBatch := ⟨b.id, b.ops.map toRS, b.written⟩

def abs (st : State) : Ref :=
  ⟨view st.db, st.batches.map toRB, st.snaps.map (fun s => (s.1, view s.2))⟩

theorem view_get (m : PMap) (k : Bytes) : OMap.get (view m) k = (OMap.get m k).map (·.val) := by
  induction m with
  | nil => rfl
  | cons p m ih =>
    obtain ⟨k', c⟩ := p
    simp only [view, List.map_cons, OMap.get_cons] at ih ⊢
    by_cases h : k' = k
    · simp [h]
    · simp only [h, if_false]; exact ih

theorem view_set (m : PMap) (k : Bytes) (c : Cell) : view (OMap.set m k c) = OMap.set (view m) k c.val := by
  induction m with
  | nil => rfl
  | cons p m ih =>
    obtain ⟨k', c'⟩ := p
    simp only [view, List.map_cons, OMap.set] at ih ⊢
    split
    · rfl
    · split
      · rfl
      · simp only [List.map_cons, ih]

theorem view_del (m : PMap) (k : Bytes) : view (OMap.del m k) = OMap.del (view m) k := by
  simp only [view, OMap.del, List.filter_map]
  rfl

theorem view_range (m : PMap) (s e : Option Bytes) (asc : Bool) :
    showItems (OMap.range m s e asc) = OMap.range (view m) s e asc := by
  simp only [showItems, OMap.range, view, List.filter_map]
  cases asc <;> simp [List.map_reverse, Function.comp_def]

theorem phys_eq {b : Backend} {k : Bytes} (h : b.sentinel.isSome → k ≠ []) : b.phys k = k := by
  unfold Backend.phys
  by_cases hk : k = []
  · subst hk
    cases hs : b.sentinel with
    | none => simp
    | some s => exact absurd rfl (h (by simp [hs]))
  · simp [hk]

theorem lookup_map_snd {α β : Type} (l : List (Nat × α)) (g : α → β) (i : Nat) :
    lookup (l.map (fun s => (s.1, g s.2))) i = (lookup l i).map g := by
  induction l with
  | nil => rfl
  | cons p l ih =>
    simp only [lookup, List.map_cons, List.find?_cons] at ih ⊢
    by_cases h : p.1 == i
    · simp [h]
    · simp only [h]; exact ih

theorem remove_map_snd {α β : Type} (l : List (Nat × α)) (g : α → β) (i : Nat) :
    remove (l.map (fun s => (s.1, g s.2))) i = (remove l i).map (fun s => (s.1, g s.2)) := by
  simp only [remove, List.filter_map]
  rfl

theorem findBatch_abs (st : State) (i : Nat) :
    (abs st).findBatch i = (st.findBatch i).map toRB := by
  simp only [Ref.findBatch, State.findBatch, abs, List.find?_map]
  rfl

/-! ## the invariant -/

structure Inv (b : Backend) (st : State) : Prop where
  be : st.be = b
  dbs : st.dbs = [(0, .root)]
  colls : st.colls = []
  real : ∀ bt ∈ st.batches, bt.kind = .real ∧ bt.pfx = []
  keys : ∀ bt ∈ st.batches, ∀ o ∈ bt.ops, b.sentinel.isSome → o.key ≠ []

theorem Inv.init (b : Backend) : Inv b (State.init b) :=
  ⟨rfl, rfl, rfl, by simp [State.init], by simp [State.init]⟩

theorem abs_init (b : Backend) : abs (State.init b) = Ref.init := rfl

theorem lookup_root {b : Backend} {st : State} (h : Inv b st) : lookup st.dbs 0 = some Db.root := by
  rw [h.dbs]; rfl

/-! ## the backend primitives under `abs` -/

theorem rootSet_spec (st : State) (k : Bytes) (c : Cell) :
    view (rootSet st k c).db = OMap.set (view st.db) (st.be.phys k) c.val ∧
    (rootSet st k c).batches = st.batches ∧ (rootSet st k c).snaps = st.snaps ∧
    (rootSet st k c).be = st.be ∧ (rootSet st k c).dbs = st.dbs ∧ (rootSet st k c).colls = st.colls := by
  unfold rootSet
  split <;> simp [State.alloc, view_set]

theorem rootDel_spec (st : State) (k : Bytes) :
    view (rootDel st k).db = OMap.del (view st.db) (st.be.phys k) ∧
    (rootDel st k).batches = st.batches ∧ (rootDel st k).snaps = st.snaps ∧
    (rootDel st k).be = st.be ∧ (rootDel st k).dbs = st.dbs ∧ (rootDel st k).colls = st.colls := by
  simp [rootDel, view_del]

theorem applyOps_spec (b : Backend) (ops : List BOp) (st : State) (hb : st.be = b)
    (hk : ∀ o ∈ ops, b.sentinel.isSome → o.key ≠ []) :
    view (applyOps st ops).db = applyAllR (view st.db) (ops.map toRS) ∧
    (applyOps st ops).batches = st.batches ∧ (applyOps st ops).snaps = st.snaps ∧
    (applyOps st ops).be = st.be ∧ (applyOps st ops).dbs = st.dbs ∧ (applyOps st ops).colls = st.colls := by
  induction ops generalizing st with
  | nil => simp [applyOps, applyAllR]
  | cons o ops ih =>
    have hk0 : b.phys o.key = o.key := phys_eq (hk o (by simp))
    have hk' : ∀ o' ∈ ops, b.sentinel.isSome → o'.key ≠ [] := fun o' ho' => hk o' (by simp [ho'])
    simp only [applyOps, List.foldl_cons, applyAllR, List.map_cons] at ih ⊢
    by_cases hd : o.del = true
    · have hs := rootDel_spec st o.key
      have hbe : (applyOp st o).be = b := by simp [applyOp, hd, hs.2.2.2.1, hb]
      have := ih (applyOp st o) hbe hk'
      simp only [applyOp, hd, if_true] at this ⊢
      rw [this.1, this.2.1, this.2.2.1, this.2.2.2.1, this.2.2.2.2.1, this.2.2.2.2.2]
      simp [applyR, toRS, hd, hs, hb, hk0]
    · have hs := rootSet_spec st o.key o.cell
      have hbe : (applyOp st o).be = b := by simp [applyOp, hd, hs.2.2.2.1, hb]
      have := ih (applyOp st o) hbe hk'
      simp only [applyOp, hd] at this ⊢
      rw [this.1, this.2.1, this.2.2.1, this.2.2.2.1, this.2.2.2.2.1, this.2.2.2.2.2]
      simp [applyR, toRS, hd, hs, hb, hk0]

/-! ## one step -/

/-- the three facts a step owes. -/
def Refines (b : Backend) (st : State) (rop : ROp) : Prop :=
  (step st rop.toOp).2 = (Ref.step b.snapshots (abs st) rop).2 ∧
  abs (step st rop.toOp).1 = (Ref.step b.snapshots (abs st) rop).1 ∧
  Inv b (step st rop.toOp).1

theorem refines_set {b : Backend} {st : State} (hI : Inv b st) (k v : Option Bytes) (hk : keyOk b k) :
    Refines b st (.set k v) := by
  have hp : st.be.phys (k.getD []) = k.getD [] := by rw [hI.be]; exact phys_eq hk
  have hs := rootSet_spec (st.alloc (v.getD [])).2 (k.getD []) (st.alloc (v.getD [])).1
  simp only [State.alloc] at hs
  refine ⟨?_, ?_, ?_⟩
  · simp [step, ROp.toOp, lookup_root hI, dbSet, Ref.step, State.alloc]
  · simp only [step, ROp.toOp, lookup_root hI, dbSet, Ref.step, State.alloc, abs, Bool.false_eq_true, if_false]
    rw [hs.1, hs.2.1, hs.2.2.1]
    simp [hp]
  · simp only [step, ROp.toOp, lookup_root hI, dbSet, State.alloc, Bool.false_eq_true, if_false]
    exact ⟨by rw [hs.2.2.2.1]; exact hI.be, by rw [hs.2.2.2.2.1]; exact hI.dbs, by rw [hs.2.2.2.2.2]; exact hI.colls,
      by rw [hs.2.1]; exact hI.real, by rw [hs.2.1]; exact hI.keys⟩

theorem refines_del {b : Backend} {st : State} (hI : Inv b st) (k : Option Bytes) (hk : keyOk b k) :
    Refines b st (.del k) := by
  have hp : st.be.phys (k.getD []) = k.getD [] := by rw [hI.be]; exact phys_eq hk
  have hs := rootDel_spec st (k.getD [])
  refine ⟨?_, ?_, ?_⟩
  · simp [step, ROp.toOp, lookup_root hI, dbDel, Ref.step]
  · simp only [step, ROp.toOp, lookup_root hI, dbDel, Ref.step, abs]
    rw [hs.1, hs.2.1, hs.2.2.1]
    simp [hp]
  · simp only [step, ROp.toOp, lookup_root hI, dbDel]
    exact ⟨by rw [hs.2.2.2.1]; exact hI.be, by rw [hs.2.2.2.2.1]; exact hI.dbs, by rw [hs.2.2.2.2.2]; exact hI.colls,
      by rw [hs.2.1]; exact hI.real, by rw [hs.2.1]; exact hI.keys⟩

theorem rootGet_view {b : Backend} {st : State} (hI : Inv b st) (k : Option Bytes) (hk : keyOk b k) :
    (rootGet st (k.getD [])).map (·.val) = OMap.get (view st.db) (k.getD []) := by
  have hp : st.be.phys (k.getD []) = k.getD [] := by rw [hI.be]; exact phys_eq hk
  simp [rootGet, hp, view_get]

theorem refines_get {b : Backend} {st : State} (hI : Inv b st) (k : Option Bytes) (hk : keyOk b k) :
    Refines b st (.get k) := by
  have hg := rootGet_view hI k hk
  have hstep : step st (ROp.get k).toOp = (st, .val ((rootGet st (k.getD [])).map (·.val))) := by
    simp only [step, ROp.toOp, reader, lookup_root hI, dbGet, Bool.false_eq_true, if_false]
    cases rootGet st (k.getD []) <;> simp
  rw [Refines, hstep]
  exact ⟨by simp [Ref.step, hg, abs], by simp [Ref.step], hI⟩

theorem refines_has {b : Backend} {st : State} (hI : Inv b st) (k : Option Bytes) (hk : keyOk b k) :
    Refines b st (.has k) := by
  have hg := rootGet_view hI k hk
  have hstep : step st (ROp.has k).toOp = (st, .bool (rootGet st (k.getD [])).isSome) := by
    simp [step, ROp.toOp, reader, lookup_root hI, dbHas]
  rw [Refines, hstep]
  refine ⟨?_, by simp [Ref.step], hI⟩
  simp only [Ref.step, abs, ← hg]
  cases rootGet st (k.getD []) <;> simp

theorem refines_iter {b : Backend} {st : State} (hI : Inv b st) (asc : Bool) (s e : Option Bytes)
    (hk : boundsOk b asc s e) : Refines b st (.iter asc s e) := by
  have hno : (st.be.emptyBoundErr && ((asc && s == some []) || (!asc && e == some []))) = false := by
    rw [hI.be]
    cases hb : b.emptyBoundErr
    · simp
    · have := hk hb
      cases asc <;> simp_all
  have hstep : step st (ROp.iter asc s e).toOp = (st, .items (showItems (OMap.range st.db s e asc))) := by
    simp [step, ROp.toOp, reader, lookup_root hI, dbIter, rootIter, hno]
  rw [Refines, hstep]
  exact ⟨by simp [Ref.step, abs, view_range], by simp [Ref.step], hI⟩

/-! ### batches -/

theorem findBatch_mem {st : State} {i : Nat} {bt : Batch} (h : st.findBatch i = some bt) :
    bt ∈ st.batches ∧ bt.id = i := by
  simp only [State.findBatch] at h
  exact ⟨List.mem_of_find?_eq_some h, by simpa using List.find?_some h⟩

theorem putBatch_abs (st : State) (bt : Batch) :
    (st.putBatch bt).batches.map toRB = ((abs st).putBatch (toRB bt)).batches := by
  simp only [State.putBatch, Ref.putBatch, abs, List.map_map]
  apply List.map_congr_left
  intro x _
  simp only [Function.comp]
  by_cases h : x.id == bt.id <;> simp [h, toRB]

theorem inv_putBatch {b : Backend} {st : State} (hI : Inv b st) (bt : Batch)
    (hr : bt.kind = .real ∧ bt.pfx = []) (hk : ∀ o ∈ bt.ops, b.sentinel.isSome → o.key ≠ []) :
    Inv b (st.putBatch bt) := by
  refine ⟨hI.be, hI.dbs, hI.colls, ?_, ?_⟩
  · intro x hx
    simp only [State.putBatch, List.mem_map] at hx
    obtain ⟨y, hy, rfl⟩ := hx
    split
    · exact hr
    · exact hI.real y hy
  · intro x hx
    simp only [State.putBatch, List.mem_map] at hx
    obtain ⟨y, hy, rfl⟩ := hx
    split
    · exact hk
    · exact hI.keys y hy

theorem inv_alloc {b : Backend} {st : State} (hI : Inv b st) (v : Bytes) : Inv b (st.alloc v).2 :=
  ⟨hI.be, hI.dbs, hI.colls, hI.real, hI.keys⟩

theorem abs_alloc (st : State) (v : Bytes) : abs (st.alloc v).2 = abs st := rfl

theorem findBatch_alloc (st : State) (v : Bytes) (i : Nat) : (st.alloc v).2.findBatch i = st.findBatch i := rfl

theorem reuseOut_error {b : Backend} (h : b.afterWrite = .error) : reuseOut b = some (.err "batchdone") := by
  simp [reuseOut, h]

theorem abs_putBatch (st : State) (bt : Batch) : abs (st.putBatch bt) = (abs st).putBatch (toRB bt) := by
  have h := putBatch_abs st bt
  simp only [abs, Ref.putBatch, State.putBatch] at h ⊢
  rw [h]

theorem refines_bnew {b : Backend} {st : State} (hI : Inv b st) (i : Nat) : Refines b st (.bnew i) := by
  have hf := findBatch_abs st i
  by_cases hex : (st.findBatch i).isSome
  · have hex' : ((abs st).findBatch i).isSome := by rw [hf]; simpa using hex
    refine ⟨?_, ?_, ?_⟩ <;> simp [step, ROp.toOp, lookup_root hI, hex, Ref.step, hex', hI]
  · have hex' : ((abs st).findBatch i).isSome = false := by rw [hf]; simpa using hex
    simp only [Bool.not_eq_true] at hex
    have hR : Ref.step b.snapshots (abs st) (.bnew i) =
        ({ abs st with batches := (abs st).batches ++ [⟨i, [], false⟩] }, .ok) := by
      simp [Ref.step, hex']
    rw [Refines, hR]
    refine ⟨?_, ?_, ?_⟩
    · simp [step, ROp.toOp, lookup_root hI, hex, dbBatch]
    · simp [step, ROp.toOp, lookup_root hI, hex, dbBatch, abs, toRB]
    · simp only [step, ROp.toOp, lookup_root hI, hex, dbBatch]
      refine ⟨hI.be, hI.dbs, hI.colls, ?_, ?_⟩
      · intro x hx
        rcases List.mem_append.1 hx with hx | hx
        · exact hI.real x hx
        · simp at hx; subst hx; exact ⟨rfl, rfl⟩
      · intro x hx
        rcases List.mem_append.1 hx with hx | hx
        · exact hI.keys x hx
        · simp at hx; subst hx; simp

/-- staging one op on a backend batch. -/
theorem stage_refines {b : Backend} {st : State} (hI : Inv b st) (bt : Batch) (i : Nat)
    (hf : st.findBatch i = some bt) (del : Bool) (k : Bytes) (c : Cell)
    (hk : b.sentinel.isSome → k ≠ []) (hfresh : bt.written = true → b.afterWrite = .error) :
    (batchStage st bt del k c).2 = (if bt.written then Out.err "batchdone" else Out.ok) ∧
    abs (batchStage st bt del k c).1 =
      (if bt.written then abs st else (abs st).putBatch { toRB bt with ops := (toRB bt).ops ++ [⟨del, k, c.val⟩] }) ∧
    Inv b (batchStage st bt del k c).1 := by
  obtain ⟨hmem, hid⟩ := findBatch_mem hf
  obtain ⟨hkind, hpfx⟩ := hI.real bt hmem
  by_cases hw : bt.written = true
  · have := reuseOut_error (hfresh hw)
    simp [batchStage, hkind, hw, hI.be, this, hI]
  · have hkeys : ∀ (cc : Cell), ∀ o ∈ bt.ops ++ [(⟨del, bt.pfx ++ k, cc⟩ : BOp)], b.sentinel.isSome → o.key ≠ [] := by
      intro cc o ho
      rcases List.mem_append.1 ho with ho | ho
      · exact hI.keys bt hmem o ho
      · simp at ho; subst ho; simpa [hpfx] using hk
    have htoRB : ∀ cc : Cell, cc.val = c.val →
        toRB { bt with ops := bt.ops ++ [⟨del, bt.pfx ++ k, cc⟩] } =
          { toRB bt with ops := (toRB bt).ops ++ [⟨del, k, c.val⟩] } := by
      intro cc hcc
      simp [toRB, toRS, hpfx, hcc]
    by_cases hr : st.be.batchRetains = true
    · have e : batchStage st bt del k c =
          (st.putBatch { bt with ops := bt.ops ++ [⟨del, bt.pfx ++ k, c⟩] }, .ok) := by
        unfold batchStage
        simp only [hkind]
        simp [hw, hr]
      rw [e]
      refine ⟨by simp [hw], ?_, inv_putBatch hI _ ⟨hkind, hpfx⟩ (hkeys c)⟩
      rw [if_neg hw, abs_putBatch, htoRB c rfl]
    · have e : batchStage st bt del k c =
          ((st.alloc c.val).2.putBatch { bt with ops := bt.ops ++ [⟨del, bt.pfx ++ k, (st.alloc c.val).1⟩] }, .ok) := by
        unfold batchStage
        simp only [hkind]
        simp [hw, hr]
      rw [e]
      refine ⟨by simp [hw], ?_, inv_putBatch (inv_alloc hI c.val) _ ⟨hkind, hpfx⟩ (hkeys _)⟩
      rw [if_neg hw, abs_putBatch, htoRB (st.alloc c.val).1 rfl, abs_alloc]

theorem refines_bset {b : Backend} {st : State} (hI : Inv b st) (i : Nat) (k v : Option Bytes)
    (hk : keyOk b k) (hfr : freshOk b (abs st) i) : Refines b st (.bset i k v) := by
  have hf := findBatch_abs st i
  cases hfb : st.findBatch i with
  | none =>
    have hf' : (abs st).findBatch i = none := by rw [hf, hfb]; rfl
    refine ⟨?_, ?_, ?_⟩ <;> simp [step, ROp.toOp, hfb, Ref.step, hf', hI]
  | some bt =>
    have hf' : (abs st).findBatch i = some (toRB bt) := by rw [hf, hfb]; rfl
    have hfresh : bt.written = true → b.afterWrite = .error := fun hw => hfr (toRB bt) hf' hw
    have hst := stage_refines (inv_alloc hI (v.getD [])) bt i (by rw [findBatch_alloc]; exact hfb) false (k.getD [])
      (st.alloc (v.getD [])).1 hk hfresh
    have hstep : step st (ROp.bset i k v).toOp =
        batchStage (st.alloc (v.getD [])).2 bt false (k.getD []) (st.alloc (v.getD [])).1 := by
      simp [step, ROp.toOp, hfb, State.alloc]
    have hR : Ref.step b.snapshots (abs st) (.bset i k v) =
        (if bt.written then (abs st, Out.err "batchdone")
         else ((abs st).putBatch { toRB bt with ops := (toRB bt).ops ++ [⟨false, k.getD [], v.getD []⟩] }, Out.ok)) := by
      simp only [Ref.step, hf']
      rfl
    rw [Refines, hstep, hR, hst.1, hst.2.1, abs_alloc]
    refine ⟨?_, ?_, hst.2.2⟩
    · split <;> rfl
    · split <;> rfl

theorem refines_bdel {b : Backend} {st : State} (hI : Inv b st) (i : Nat) (k : Option Bytes)
    (hk : keyOk b k) (hfr : freshOk b (abs st) i) : Refines b st (.bdel i k) := by
  have hf := findBatch_abs st i
  cases hfb : st.findBatch i with
  | none =>
    have hf' : (abs st).findBatch i = none := by rw [hf, hfb]; rfl
    refine ⟨?_, ?_, ?_⟩ <;> simp [step, ROp.toOp, hfb, Ref.step, hf', hI]
  | some bt =>
    have hf' : (abs st).findBatch i = some (toRB bt) := by rw [hf, hfb]; rfl
    have hfresh : bt.written = true → b.afterWrite = .error := fun hw => hfr (toRB bt) hf' hw
    have hst := stage_refines (inv_alloc hI []) bt i (by rw [findBatch_alloc]; exact hfb) true (k.getD [])
      (st.alloc []).1 hk hfresh
    have hstep : step st (ROp.bdel i k).toOp =
        batchStage (st.alloc []).2 bt true (k.getD []) (st.alloc []).1 := by
      simp [step, ROp.toOp, hfb, State.alloc]
    have hR : Ref.step b.snapshots (abs st) (.bdel i k) =
        (if bt.written then (abs st, Out.err "batchdone")
         else ((abs st).putBatch { toRB bt with ops := (toRB bt).ops ++ [⟨true, k.getD [], []⟩] }, Out.ok)) := by
      simp only [Ref.step, hf']
      rfl
    rw [Refines, hstep, hR, hst.1, hst.2.1, abs_alloc]
    refine ⟨?_, ?_, hst.2.2⟩
    · split <;> rfl
    · split <;> rfl

theorem refines_bwrite {b : Backend} {st : State} (hI : Inv b st) (i : Nat)
    (hfr : freshOk b (abs st) i) : Refines b st (.bwrite i) := by
  have hf := findBatch_abs st i
  cases hfb : st.findBatch i with
  | none =>
    have hf' : (abs st).findBatch i = none := by rw [hf, hfb]; rfl
    refine ⟨?_, ?_, ?_⟩ <;> simp [step, ROp.toOp, hfb, Ref.step, hf', hI]
  | some bt =>
    have hf' : (abs st).findBatch i = some (toRB bt) := by rw [hf, hfb]; rfl
    obtain ⟨hmem, _⟩ := findBatch_mem hfb
    obtain ⟨hkind, hpfx⟩ := hI.real bt hmem
    have hstep : step st (ROp.bwrite i).toOp = batchWrite st bt := by simp [step, ROp.toOp, hfb]
    by_cases hw : bt.written = true
    · have hro := reuseOut_error (hfr (toRB bt) hf' hw)
      have e : batchWrite st bt = (st, .err "batchdone") := by
        unfold batchWrite; simp only [hkind]; simp [hw, hI.be, hro]
      have hR : Ref.step b.snapshots (abs st) (.bwrite i) = (abs st, .err "batchdone") := by
        simp [Ref.step, hf', toRB, hw]
      rw [Refines, hstep, e, hR]
      exact ⟨rfl, rfl, hI⟩
    · have hsp := applyOps_spec b bt.ops st hI.be (hI.keys bt hmem)
      have e : batchWrite st bt = ((applyOps st bt.ops).putBatch { bt with written := true }, .ok) := by
        unfold batchWrite; simp only [hkind]; simp [hw]
      have hR : Ref.step b.snapshots (abs st) (.bwrite i) =
          (({ abs st with m := applyAllR (abs st).m (toRB bt).ops } : Ref).putBatch { toRB bt with written := true }, .ok) := by
        simp only [Ref.step, hf']
        rw [if_neg (by simpa [toRB] using hw)]
      have hI' : Inv b (applyOps st bt.ops) :=
        ⟨by rw [hsp.2.2.2.1]; exact hI.be, by rw [hsp.2.2.2.2.1]; exact hI.dbs, by rw [hsp.2.2.2.2.2]; exact hI.colls,
          by rw [hsp.2.1]; exact hI.real, by rw [hsp.2.1]; exact hI.keys⟩
      rw [Refines, hstep, e, hR]
      refine ⟨rfl, ?_, inv_putBatch hI' _ ⟨hkind, hpfx⟩ (hI.keys bt hmem)⟩
      rw [abs_putBatch]
      have : abs (applyOps st bt.ops) = { abs st with m := applyAllR (abs st).m (toRB bt).ops } := by
        simp only [abs, hsp.1, hsp.2.1, hsp.2.2.1, toRB]
      rw [this]
      rfl

theorem refines_bclose {b : Backend} {st : State} (hI : Inv b st) (i : Nat) : Refines b st (.bclose i) := by
  have hf := findBatch_abs st i
  cases hfb : st.findBatch i with
  | none =>
    have hf' : (abs st).findBatch i = none := by rw [hf, hfb]; rfl
    refine ⟨?_, ?_, ?_⟩ <;> simp [step, ROp.toOp, hfb, Ref.step, hf', hI]
  | some bt =>
    have hf' : (abs st).findBatch i = some (toRB bt) := by rw [hf, hfb]; rfl
    have hR : Ref.step b.snapshots (abs st) (.bclose i) =
        ({ abs st with batches := (abs st).batches.filter (fun x => x.id != i) }, .ok) := by
      simp [Ref.step, hf']
    rw [Refines, hR]
    refine ⟨?_, ?_, ?_⟩
    · simp [step, ROp.toOp, hfb]
    · simp only [step, ROp.toOp, hfb, State.dropBatch, abs, List.filter_map]
      rfl
    · simp only [step, ROp.toOp, hfb, State.dropBatch]
      exact ⟨hI.be, hI.dbs, hI.colls, fun x hx => hI.real x (List.mem_filter.1 hx).1,
        fun x hx => hI.keys x (List.mem_filter.1 hx).1⟩

/-! ### snapshots -/

theorem lookup_snaps_abs (st : State) (i : Nat) : lookup (abs st).snaps i = (lookup st.snaps i).map view :=
  lookup_map_snd st.snaps view i

theorem refines_snap {b : Backend} {st : State} (hI : Inv b st) (i : Nat) : Refines b st (.snap i) := by
  have hl := lookup_snaps_abs st i
  cases hs : lookup st.snaps i with
  | some m =>
    have hl' : (lookup (abs st).snaps i).isSome = true := by rw [hl, hs]; rfl
    refine ⟨?_, ?_, ?_⟩ <;> simp [step, ROp.toOp, lookup_root hI, hs, Ref.step, hl', hI]
  | none =>
    have hl' : (lookup (abs st).snaps i).isSome = false := by rw [hl, hs]; rfl
    cases hsn : b.snapshots
    · refine ⟨?_, ?_, ?_⟩ <;> simp [step, ROp.toOp, lookup_root hI, hs, Ref.step, hl', hI, dbSnap, hI.be, hsn]
    · have hR : Ref.step b.snapshots (abs st) (.snap i) =
          ({ abs st with snaps := (abs st).snaps ++ [(i, (abs st).m)] }, .ok) := by
        simp [Ref.step, hl', hsn]
      have hstep : step st (ROp.snap i).toOp = ({ st with snaps := st.snaps ++ [(i, st.db)] }, .ok) := by
        simp [step, ROp.toOp, lookup_root hI, hs, dbSnap, hI.be, hsn]
      rw [Refines, hR, hstep]
      exact ⟨rfl, by simp [abs], ⟨hI.be, hI.dbs, hI.colls, hI.real, hI.keys⟩⟩

theorem refines_sget {b : Backend} {st : State} (hI : Inv b st) (i : Nat) (k : Option Bytes) :
    Refines b st (.sget i k) := by
  have hl := lookup_snaps_abs st i
  cases hs : lookup st.snaps i with
  | none =>
    have hl' : lookup (abs st).snaps i = none := by rw [hl, hs]; rfl
    refine ⟨?_, ?_, ?_⟩ <;> simp [step, ROp.toOp, reader, hs, Ref.step, hl', hI]
  | some m =>
    have hl' : lookup (abs st).snaps i = some (view m) := by rw [hl, hs]; rfl
    have hstep : step st (ROp.sget i k).toOp = (st, .val ((OMap.get m (k.getD [])).map (·.val))) := by
      simp only [step, ROp.toOp, reader, hs, dbGet, Option.isSome_some, if_true, Option.map_some, Bool.false_eq_true]
      cases OMap.get m (k.getD []) <;> simp
    rw [Refines, hstep]
    exact ⟨by simp [Ref.step, hl', view_get], by simp [Ref.step, hl'], hI⟩

theorem refines_shas {b : Backend} {st : State} (hI : Inv b st) (i : Nat) (k : Option Bytes) :
    Refines b st (.shas i k) := by
  have hl := lookup_snaps_abs st i
  cases hs : lookup st.snaps i with
  | none =>
    have hl' : lookup (abs st).snaps i = none := by rw [hl, hs]; rfl
    refine ⟨?_, ?_, ?_⟩ <;> simp [step, ROp.toOp, reader, hs, Ref.step, hl', hI]
  | some m =>
    have hl' : lookup (abs st).snaps i = some (view m) := by rw [hl, hs]; rfl
    have hstep : step st (ROp.shas i k).toOp = (st, .bool (OMap.get m (k.getD [])).isSome) := by
      simp [step, ROp.toOp, reader, hs, dbHas]
    rw [Refines, hstep]
    refine ⟨?_, by simp [Ref.step, hl'], hI⟩
    simp only [Ref.step, hl', view_get]
    cases OMap.get m (k.getD []) <;> simp

theorem refines_siter {b : Backend} {st : State} (hI : Inv b st) (i : Nat) (asc : Bool) (lo hi : Option Bytes) :
    Refines b st (.siter i asc lo hi) := by
  have hl := lookup_snaps_abs st i
  cases hs : lookup st.snaps i with
  | none =>
    have hl' : lookup (abs st).snaps i = none := by rw [hl, hs]; rfl
    refine ⟨?_, ?_, ?_⟩ <;> simp [step, ROp.toOp, reader, hs, Ref.step, hl', hI]
  | some m =>
    have hl' : lookup (abs st).snaps i = some (view m) := by rw [hl, hs]; rfl
    have hstep : step st (ROp.siter i asc lo hi).toOp = (st, .items (showItems (OMap.range m lo hi asc))) := by
      simp [step, ROp.toOp, reader, hs, dbIter]
    rw [Refines, hstep]
    exact ⟨by simp [Ref.step, hl', view_range], by simp [Ref.step, hl'], hI⟩

theorem refines_sclose {b : Backend} {st : State} (hI : Inv b st) (i : Nat) : Refines b st (.sclose i) := by
  have hl := lookup_snaps_abs st i
  cases hs : lookup st.snaps i with
  | none =>
    have hl' : lookup (abs st).snaps i = none := by rw [hl, hs]; rfl
    refine ⟨?_, ?_, ?_⟩ <;> simp [step, ROp.toOp, hs, Ref.step, hl', hI]
  | some m =>
    have hl' : lookup (abs st).snaps i = some (view m) := by rw [hl, hs]; rfl
    have hany : (st.dbs.any fun d => usesSnap d.2 i) = false := by rw [hI.dbs]; rfl
    have hR : Ref.step b.snapshots (abs st) (.sclose i) =
        ({ abs st with snaps := remove (abs st).snaps i }, .ok) := by
      simp [Ref.step, hl']
    have hstep : step st (ROp.sclose i).toOp = ({ st with snaps := remove st.snaps i }, .ok) := by
      simp [step, ROp.toOp, hs, hany]
    rw [Refines, hR, hstep]
    refine ⟨rfl, ?_, ⟨hI.be, hI.dbs, hI.colls, hI.real, hI.keys⟩⟩
    simp only [abs]
    rw [remove_map_snd]

/-! ## every step, every script -/

theorem step_refines {b : Backend} {st : State} (hI : Inv b st) (rop : ROp) (hok : OpOk b (abs st) rop) :
    Refines b st rop := by
  cases rop with
  | set k v => exact refines_set hI k v hok
  | del k => exact refines_del hI k hok
  | get k => exact refines_get hI k hok
  | has k => exact refines_has hI k hok
  | iter asc s e => exact refines_iter hI asc s e hok
  | bnew i => exact refines_bnew hI i
  | bset i k v => exact refines_bset hI i k v hok.1 hok.2
  | bdel i k => exact refines_bdel hI i k hok.1 hok.2
  | bwrite i => exact refines_bwrite hI i hok
  | bclose i => exact refines_bclose hI i
  | snap i => exact refines_snap hI i
  | sget i k => exact refines_sget hI i k
  | shas i k => exact refines_shas hI i k
  | siter i asc lo hi => exact refines_siter hI i asc lo hi
  | sclose i => exact refines_sclose hI i

theorem run_refines {b : Backend} (ops : List ROp) (st : State) (hI : Inv b st)
    (hc : Clean b (abs st) ops) :
    (run st (ops.map ROp.toOp)).2 = (Ref.run b.snapshots (abs st) ops).2 ∧
    abs (run st (ops.map ROp.toOp)).1 = (Ref.run b.snapshots (abs st) ops).1 ∧
    Inv b (run st (ops.map ROp.toOp)).1 := by
  induction ops generalizing st with
  | nil => exact ⟨rfl, rfl, hI⟩
  | cons op ops ih =>
    obtain ⟨hok, hrest⟩ := hc
    obtain ⟨h1, h2, h3⟩ := step_refines hI op hok
    rw [← h2] at hrest
    obtain ⟨i1, i2, i3⟩ := ih (step st op.toOp).1 h3 hrest
    simp only [List.map_cons, run, Ref.run]
    rw [← h2, ← h1]
    exact ⟨by rw [i1], i2, i3⟩

end GnoVerif.C29
