/-
Proofs.C23Chain — the separator/child chain of an inner node: cutting it at a
child (or at a pair of adjacent children), plugging a new middle segment in,
splitting it at a separator (inner split / merge), and list bookkeeping for
the index-based updates of the model.
-/
import GnoVerif.Spec.C23Inv

namespace GnoVerif.C23

/-! ### `A ++ x :: B` with `A.length = i` -/

section mid
variable {α : Type} {A B : List α} {x : α} {i : Nat}

theorem getElem?_mid (h : A.length = i) : (A ++ x :: B)[i]? = some x := by
  subst h; simp

theorem set_mid (h : A.length = i) (y : α) : (A ++ x :: B).set i y = A ++ y :: B := by
  subst h; simp

theorem take_mid (h : A.length = i) : (A ++ x :: B).take i = A := by
  subst h; simp

theorem drop_mid (h : A.length = i) : (A ++ x :: B).drop i = x :: B := by
  subst h; simp

theorem drop_mid_succ (h : A.length = i) : (A ++ x :: B).drop (i + 1) = B := by
  subst h; simp

theorem eraseIdx_mid (h : A.length = i) : (A ++ x :: B).eraseIdx i = A ++ B := by
  subst h
  induction A with
  | nil => rfl
  | cons a A ih => simpa using ih

theorem take_mid_succ (h : A.length = i) : (A ++ x :: B).take (i + 1) = A ++ [x] := by
  subst h
  induction A with
  | nil => rfl
  | cons a A ih => simpa using ih

end mid

/-- a list is its prefix, the element at `i`, and the rest. -/
theorem split_at {α : Type} (l : List α) (i : Nat) (h : i < l.length) :
    l = l.take i ++ l[i] :: l.drop (i + 1) := by
  rw [List.getElem_cons_drop, List.take_append_drop]

/-! ### bounds along a key list -/

/-- the lower bound after walking past the keys `ks` starting from `lo`. -/
def lastOr (lo : Option Key) : List Key → Option Key
  | [] => lo
  | k :: ks => lastOr (some k) ks

/-- the upper bound in front of the keys `ks`. -/
def headOr (hi : Option Key) : List Key → Option Key
  | [] => hi
  | k :: _ => some k

@[simp] theorem lastOr_nil (lo : Option Key) : lastOr lo [] = lo := rfl
@[simp] theorem lastOr_cons (lo : Option Key) (k : Key) (ks : List Key) :
    lastOr lo (k :: ks) = lastOr (some k) ks := rfl
@[simp] theorem headOr_nil (hi : Option Key) : headOr hi [] = hi := rfl
@[simp] theorem headOr_cons (hi : Option Key) (k : Key) (ks : List Key) :
    headOr hi (k :: ks) = some k := rfl

theorem lastOr_append_singleton (lo : Option Key) (ks : List Key) (k : Key) :
    lastOr lo (ks ++ [k]) = some k := by
  induction ks generalizing lo with
  | nil => rfl
  | cons a ks ih => simp [ih]

theorem lastOr_eq (lo : Option Key) (ks : List Key) :
    (ks = [] ∧ lastOr lo ks = lo) ∨ (∃ k, ks.getLast? = some k ∧ lastOr lo ks = some k) := by
  induction ks generalizing lo with
  | nil => exact Or.inl ⟨rfl, rfl⟩
  | cons a ks ih =>
    right
    rcases ih (some a) with ⟨h1, h2⟩ | ⟨k, h1, h2⟩
    · subst h1; exact ⟨a, rfl, rfl⟩
    · refine ⟨k, ?_, by simpa using h2⟩
      cases ks with
      | nil => simp at h1
      | cons b ks => simpa [List.getLast?_cons_cons] using h1

/-- if every key passed is `≤ key` (and `lo` is), the bound reached is `≤ key`. -/
theorem lbOk_lastOr {lo : Option Key} {ks : List Key} {key : Key}
    (hlo : lbOk lo key) (h : ∀ x ∈ ks, x ≤ key) : lbOk (lastOr lo ks) key := by
  induction ks generalizing lo with
  | nil => exact hlo
  | cons a ks ih =>
    exact ih (lo := some a) (h a (by simp)) (fun x hx => h x (by simp [hx]))

theorem ubOk_headOr {hi : Option Key} {ks : List Key} {key : Key}
    (hhi : ubOk hi key) (h : ∀ x ∈ ks, key < x) : ubOk (headOr hi ks) key := by
  cases ks with
  | nil => exact hhi
  | cons a ks => exact h a (by simp)

/-! ### prefix / suffix of a chain -/

section chain
variable {α : Type} {P : α → Option Key → Option Key → Prop}

/-- children `cs` closed on the right by the separators `ks` (`|cs| = |ks|`). -/
def Pre (P : α → Option Key → Option Key → Prop) : List Key → List α → Option Key → Prop
  | [], [], _ => True
  | k :: ks, c :: cs, lo => P c lo (some k) ∧ Pre P ks cs (some k)
  | _, _, _ => False

/-- children `cs` opened on the left by the separators `ks` (`|cs| = |ks|`). -/
def Post (P : α → Option Key → Option Key → Prop) : List Key → List α → Option Key → Prop
  | [], [], _ => True
  | k :: ks, c :: cs, hi => P c (some k) (headOr hi ks) ∧ Post P ks cs hi
  | _, _, _ => False

theorem Chain.length_eq {ks : List Key} {cs : List α} {lo hi : Option Key}
    (h : Chain P ks cs lo hi) : cs.length = ks.length + 1 := by
  induction ks generalizing cs lo with
  | nil =>
    match cs, h with
    | [c], _ => rfl
  | cons k ks ih =>
    match cs, h with
    | c :: cs, h => simp [ih h.2]

theorem Pre.length_eq {ks : List Key} {cs : List α} {lo : Option Key}
    (h : Pre P ks cs lo) : cs.length = ks.length := by
  induction ks generalizing cs lo with
  | nil =>
    match cs, h with
    | [], _ => rfl
  | cons k ks ih =>
    match cs, h with
    | c :: cs, h => simp [ih h.2]

theorem Post.length_eq {ks : List Key} {cs : List α} {hi : Option Key}
    (h : Post P ks cs hi) : cs.length = ks.length := by
  induction ks generalizing cs with
  | nil =>
    match cs, h with
    | [], _ => rfl
  | cons k ks ih =>
    match cs, h with
    | c :: cs, h => simp [ih h.2]

theorem chain_some_iff_post {k : Key} {ks : List Key} {cs : List α} {hi : Option Key} :
    Chain P ks cs (some k) hi ↔ Post P (k :: ks) cs hi := by
  induction ks generalizing cs k with
  | nil =>
    match cs with
    | [] => simp [Chain, Post]
    | [c] => simp [Chain, Post]
    | _ :: _ :: _ => simp [Chain, Post]
  | cons k' ks ih =>
    match cs with
    | [] => simp [Chain, Post]
    | c :: cs => simp only [Chain, Post, headOr_cons, ih]

theorem chain_head_iff {ks : List Key} {c : α} {cs : List α} {lo hi : Option Key} :
    Chain P ks (c :: cs) lo hi ↔ P c lo (headOr hi ks) ∧ Post P ks cs hi := by
  cases ks with
  | nil =>
    cases cs with
    | nil => simp [Chain, Post]
    | cons c' cs => simp [Chain, Post]
  | cons k ks => simp only [Chain, headOr_cons, chain_some_iff_post]

theorem chain_plug_nil {KM K2 : List Key} {CM C2 : List α} {lo hi : Option Key}
    (hM : CM.length = KM.length + 1) :
    Chain P (KM ++ K2) (CM ++ C2) lo hi ↔
      Chain P KM CM lo (headOr hi K2) ∧ Post P K2 C2 hi := by
  induction KM generalizing CM lo with
  | nil =>
    match CM, hM with
    | [c], _ => simpa [Chain] using chain_head_iff
  | cons k KM ih =>
    match CM, hM with
    | c :: CM, hM =>
      have hlen : CM.length = KM.length + 1 := by simpa using hM
      simp only [List.cons_append, Chain, ih hlen, and_assoc]

/-- cutting a chain into prefix, middle segment and suffix. -/
theorem chain_plug {K1 KM K2 : List Key} {C1 CM C2 : List α} {lo hi : Option Key}
    (h1 : C1.length = K1.length) (hM : CM.length = KM.length + 1) :
    Chain P (K1 ++ KM ++ K2) (C1 ++ CM ++ C2) lo hi ↔
      Pre P K1 C1 lo ∧ Chain P KM CM (lastOr lo K1) (headOr hi K2) ∧ Post P K2 C2 hi := by
  induction K1 generalizing C1 lo with
  | nil =>
    match C1, h1 with
    | [], _ => simp only [List.nil_append, Pre, true_and, lastOr_nil, chain_plug_nil hM]
  | cons k K1 ih =>
    match C1, h1 with
    | c :: C1, h1 =>
      have hlen : C1.length = K1.length := by simpa using h1
      simp only [List.cons_append, Chain, Pre, lastOr_cons, ih hlen, and_assoc]

/-- cutting a chain at a separator (inner split, inner merge). -/
theorem chain_append {L R : List Key} {k : Key} {CL CR : List α} {lo hi : Option Key}
    (hL : CL.length = L.length + 1) :
    Chain P (L ++ k :: R) (CL ++ CR) lo hi ↔ Chain P L CL lo (some k) ∧ Chain P R CR (some k) hi := by
  induction L generalizing CL lo with
  | nil =>
    match CL, hL with
    | [c], _ => simp [Chain]
  | cons a L ih =>
    match CL, hL with
    | c :: CL, hL =>
      simp only [List.cons_append, Chain]
      have hlen : CL.length = L.length + 1 := by simpa using hL
      simp only [List.cons_append, Chain, ih hlen, and_assoc]

theorem gapOk_some_right {lo : Option Key} {k : Key} : gapOk lo (some k) ↔ lbOk lo k := by
  cases lo <;> simp

/-- a chain whose members all have non-inverted intervals spans a non-inverted interval
and has `≤`-sorted separators inside it. -/
theorem Chain.keys_sorted {ks : List Key} {cs : List α} {lo hi : Option Key}
    (hg : ∀ c lo hi, P c lo hi → gapOk lo hi) (h : Chain P ks cs lo hi) :
    ks.Pairwise (· ≤ ·) ∧ (∀ k ∈ ks, lbOk lo k ∧ gapOk (some k) hi) ∧ gapOk lo hi := by
  induction ks generalizing cs lo with
  | nil =>
    match cs, h with
    | [c], h => exact ⟨List.Pairwise.nil, by simp, hg _ _ _ h⟩
  | cons k ks ih =>
    match cs, h with
    | c :: cs, h =>
      obtain ⟨hp, hk, hgap⟩ := ih h.2
      have h1 : lbOk lo k := gapOk_some_right.1 (hg _ _ _ h.1)
      refine ⟨List.pairwise_cons.2 ⟨fun x hx => (hk x hx).1, hp⟩, ?_, ?_⟩
      · intro x hx
        rcases List.mem_cons.1 hx with rfl | hx
        · exact ⟨h1, hgap⟩
        · refine ⟨?_, (hk x hx).2⟩
          cases lo with
          | none => trivial
          | some l => exact Lex.le_trans h1 (hk x hx).1
      · cases lo with
        | none => cases hi <;> trivial
        | some l =>
          cases hi with
          | none => trivial
          | some u => exact Lex.le_trans h1 hgap

end chain
end GnoVerif.C23
