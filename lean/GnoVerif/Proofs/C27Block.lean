import GnoVerif.Proofs.C27Tree
/-!
C27 helper lemmas, part 3: a whole block commit in collected mode — the
invariant between blocks, the explicit form of the one physical batch, and
what the database holds afterwards.
-/
namespace GnoVerif.C27

/-! ## the invariant between blocks -/

/-- per tree store, between blocks (also before the first block). -/
structure TInv (a : App) (t : Tree) (s : SName) (f : Bool) : Prop where
  name : t.name = s
  fast : t.fast = f
  staged : StagedOk t
  ver : t.version = a.lastVer
  init0 : a.lastVer = 0 → t.initialVersion = a.msInitial
  initLe : 0 < a.lastVer → t.initialVersion ≤ a.lastVer
  rootsLe : ∀ v, (a.db.get (.root s v)).isSome = true → v ≤ a.lastVer
  rootsGe : ∀ v, (a.db.get (.root s v)).isSome = true → t.initialVersion ≤ v

/-- per tree store, once a version has been committed: what the database holds. -/
structure TDone (a : App) (t : Tree) (s : SName) : Prop where
  root : a.db.get (.root s a.lastVer) = some (.root ⟨t.hist, t.kv⟩)
  stamp : t.fast = true → a.db.get (.stamp s) = some (.stampV a.lastVer)
  pend : t.pend = []
  nostaged : t.staged = []

def AuxInv (a : App) : Prop :=
  match a.aux, a.cfg.aux with
  | none, none => True
  | some x, some f => TInv a x .aux f
  | _, _ => False

structure Inv (a : App) : Prop where
  collected : a.cfg.collected = true
  coll : a.coll = []
  main : TInv a a.main .main a.cfg.fastMain
  aux : AuxInv a

structure Done (a : App) : Prop where
  pos : 0 < a.lastVer
  latest : a.db.get .latest = some (.ver a.lastVer)
  cinfo : a.db.get (.cinfo a.lastVer) = some (.cinfo a.lastInfo)
  info : a.lastInfo = a.infos
  main : TDone a a.main .main
  aux : ∀ x, a.aux = some x → TDone a x .aux
  deliver : a.deliver = none

/-- the version the next `multiStore.Commit` produces. -/
def App.nextVersion (a : App) : Nat :=
  if a.lastVer = 0 ∧ a.msInitial > 0 then a.msInitial else a.lastVer + 1

theorem App.lt_nextVersion (a : App) : a.lastVer < a.nextVersion := by
  unfold App.nextVersion; split <;> omega

theorem TInv.workingVersion {a : App} {t : Tree} {s : SName} {f : Bool} (h : TInv a t s f)
    (d : KVO) : (t.flush d).workingVersion = a.nextVersion := by
  obtain ⟨_, _, hv, hi, _, _⟩ := Tree.flush_keeps t d h.staged
  unfold Tree.workingVersion App.nextVersion
  rw [hv, hi, h.ver]
  by_cases h0 : a.lastVer = 0
  · rw [h.init0 h0]
  · have : 0 < a.lastVer := Nat.pos_of_ne_zero h0
    simp [h0]

/-! ## segments of the batch that do not touch a tree's root / stamp keys -/

def NoTouch (s : SName) (ops : List WOp) : Prop :=
  ∀ op ∈ ops, (∀ v, op.key ≠ .root s v) ∧ op.key ≠ .stamp s

theorem NoTouch.lastOp_root {s : SName} {ops : List WOp} (h : NoTouch s ops) (v : Nat) :
    lastOp ops (.root s v) = none :=
  lastOp_none_of_keys fun op hop => (h op hop).1 v

theorem NoTouch.lastOp_stamp {s : SName} {ops : List WOp} (h : NoTouch s ops) :
    lastOp ops (.stamp s) = none :=
  lastOp_none_of_keys fun op hop => (h op hop).2

theorem NoTouch.append {s : SName} {l1 l2 : List WOp} (h1 : NoTouch s l1) (h2 : NoTouch s l2) :
    NoTouch s (l1 ++ l2) := by
  intro op hop
  rcases List.mem_append.1 hop with h | h
  · exact h1 op h
  · exact h2 op h

theorem NoTouch.nil (s : SName) : NoTouch s [] := by intro op hop; cases hop

theorem noTouch_flushBase (s : SName) (d : KVO) : NoTouch s (flushBase d) := by
  intro op hop
  obtain ⟨b, hb⟩ := flushBase_keys d op hop
  rw [hb]; exact ⟨fun v => by simp, by simp⟩

def metaOps (ver : Nat) (infos : List StoreInfo) : List WOp :=
  [.set (.cinfo ver) (.cinfo infos), .set .latest (.ver ver)]

theorem noTouch_meta (s : SName) (ver : Nat) (infos : List StoreInfo) : NoTouch s (metaOps ver infos) := by
  intro op hop
  simp only [metaOps, List.mem_cons, List.not_mem_nil, or_false] at hop
  rcases hop with rfl | rfl <;> exact ⟨fun v => by simp [WOp.key], by simp [WOp.key]⟩

theorem noTouch_seg {s : SName} {t : Tree} {w : Nat} {ds : List WOp} (hne : t.name ≠ s)
    (hst : StagedOk t) (hds : DelsBelow t.name w ds) : NoTouch s (t.saveOps ++ ds) := by
  intro op hop
  rcases List.mem_append.1 hop with h | h
  · simp only [Tree.saveOps, List.mem_append, List.mem_singleton] at h
    rcases h with (h | h) | h
    · obtain ⟨b, hb⟩ := hst op h
      rw [hb]; exact ⟨fun v => by simp, by simp⟩
    · subst h
      refine ⟨fun v => ?_, by simp [WOp.key]⟩
      intro e; simp only [WOp.key] at e; injection e with e1; exact hne e1
    · by_cases hf : t.fast = true
      · simp only [hf, ↓reduceIte, List.mem_singleton] at h
        subst h
        refine ⟨fun v => by simp [WOp.key], ?_⟩
        intro e; simp only [WOp.key] at e; injection e with e1; exact hne e1
      · simp [hf] at h
  · obtain ⟨v, rfl, _⟩ := hds op h
    refine ⟨fun v' => ?_, by simp [WOp.key]⟩
    intro e; simp only [WOp.key] at e; injection e with e1; exact hne e1

/-! ## what a tree's segment leaves in the batch -/

section seg
variable {t : Tree} {ds c0 rest : List WOp}

theorem seg_root_self (hst : StagedOk t) (hds : DelsBelow t.name t.workingVersion ds)
    (hrest : NoTouch t.name rest) :
    lastOp (c0 ++ (t.saveOps ++ ds) ++ rest) (.root t.name t.workingVersion)
      = some (some (.root ⟨t.nextHist, t.kv⟩)) := by
  rw [lastOp_append, hrest.lastOp_root, lastOp_append, lastOp_append]
  rcases hds.lastOp_root t.name t.workingVersion with h | ⟨_, _, h⟩
  · simp [h, Tree.lastOp_saveOps_root hst]
  · omega

theorem seg_root_other (hst : StagedOk t) (hds : DelsBelow t.name t.workingVersion ds)
    (hc0 : NoTouch t.name c0) (hrest : NoTouch t.name rest) {v : Nat} (hv : v ≠ t.workingVersion) :
    lastOp (c0 ++ (t.saveOps ++ ds) ++ rest) (.root t.name v) = none ∨
    lastOp (c0 ++ (t.saveOps ++ ds) ++ rest) (.root t.name v) = some none := by
  rw [lastOp_append, hrest.lastOp_root, lastOp_append, lastOp_append, hc0.lastOp_root]
  rcases hds.lastOp_root t.name v with h | ⟨h, _, _⟩
  · left; simp [h, Tree.lastOp_saveOps_root hst, hv]
  · right; simp [h]

theorem seg_stamp (hst : StagedOk t) (hds : DelsBelow t.name t.workingVersion ds)
    (hc0 : NoTouch t.name c0) (hrest : NoTouch t.name rest) :
    lastOp (c0 ++ (t.saveOps ++ ds) ++ rest) (.stamp t.name)
      = if t.fast = true then some (some (.stampV t.workingVersion)) else none := by
  rw [lastOp_append, hrest.lastOp_stamp, lastOp_append, lastOp_append, hc0.lastOp_stamp,
    hds.lastOp_other (fun s' v => by simp), Tree.lastOp_saveOps_stamp hst]
  by_cases hf : t.fast = true <;> simp [hf]

end seg

/-! ## the explicit form of a block commit in collected mode -/

theorem look_root_none_of {a : App} {s : SName} {w : Nat} (hcoll : NoTouch s a.coll)
    (hle : ∀ v, (a.db.get (.root s v)).isSome = true → v < w) : a.look (.root s w) = none := by
  rw [App.look_eq, hcoll.lastOp_root]
  cases hg : a.db.get (.root s w) with
  | none => rfl
  | some x =>
    have := hle w (by simp [hg])
    omega

/-- the state a committed block leaves, given the pieces of its batch. -/
def afterBlock (a : App) (B : List WOp) (M : Tree) (X : Option Tree) : App :=
  { cfg := a.cfg, db := applyBatch a.db B, coll := [], main := M, aux := X,
    lastVer := a.nextVersion,
    lastInfo := [M.info] ++ (match X with | none => [] | some x => [x.info]) ++ [(.base, 0, [])],
    msInitial := a.msInitial, deliver := none, log := a.log ++ [B] }

theorem commitStores_eq_none {a a1 : App} {m : Tree}
    (hM : Tree.commit a a.main = .ok (a1, m)) (hax : a1.aux = none) :
    a.commitStores = .ok { a1 with main := m } := by
  unfold App.commitStores
  rw [hM]
  simp [hax]

theorem commitStores_eq_some {a a1 a2 : App} {m x x' : Tree}
    (hM : Tree.commit a a.main = .ok (a1, m)) (hax : a1.aux = some x)
    (hX : Tree.commit { a1 with main := m } x = .ok (a2, x')) :
    a.commitStores = .ok { a2 with aux := some x' } := by
  have hX' : Tree.commit { a1 with main := m, aux := some x } x = .ok (a2, x') := by
    rw [← hax]; exact hX
  unfold App.commitStores
  rw [hM]
  simp [hax, hX']

theorem commitMS_eq {a a1 : App} (hS : a.commitStores = .ok a1) (hc : a1.cfg.collected = true) :
    a.commitMS = .ok
      { a1 with
        db := applyBatch a1.db (a1.coll ++ metaOps a.nextVersion a1.infos)
        log := a1.log ++ [a1.coll ++ metaOps a.nextVersion a1.infos]
        coll := []
        lastVer := a.nextVersion
        lastInfo := a1.infos } := by
  unfold App.commitMS
  rw [hS]
  simp only [App.emit, hc, ↓reduceIte, App.phys, metaOps, App.nextVersion]

/-- the state `MultiWrite` leaves (collected mode, empty collector before). -/
def App.mw (a : App) (c : Cache) (height : Nat) : App :=
  { a with main := a.main.flush c.m, aux := a.aux.map (fun x => Tree.flush x c.a),
           deliver := none, coll := flushBase (c.b.put hdrKey (some (hdrVal height))) }

/-- the root deletes of the main store's commit. -/
def App.dM (a : App) (c : Cache) (height : Nat) : List WOp :=
  Tree.commitDels (a.mw c height) (a.mw c height).main

/-- the state after the main store's commit. -/
def App.a3 (a : App) (c : Cache) (height : Nat) : App :=
  { a.mw c height with
    coll := (a.mw c height).coll ++ ((a.mw c height).main.saveOps ++ a.dM c height)
    main := (a.mw c height).main.saved }

/-- the root deletes of the aux store's commit. -/
def App.dX (a : App) (c : Cache) (height : Nat) : List WOp :=
  match (a.mw c height).aux with
  | some x => Tree.commitDels (a.a3 c height) x
  | none => []

theorem App.commit_collected (a : App) (c : Cache) (height : Nat) (h : Inv a) :
    ∃ dM dX,
      dM = a.dM c height ∧ dX = a.dX c height ∧
      DelsBelow .main a.nextVersion dM ∧ DelsBelow .aux a.nextVersion dX ∧
      let cb := c.b.put hdrKey (some (hdrVal height))
      let M := a.main.flush c.m
      let X := a.aux.map (fun x => Tree.flush x c.a)
      let B := flushBase cb ++ (M.saveOps ++ dM) ++
        ((match X with | some x => x.saveOps ++ dX | none => []) ++
          metaOps a.nextVersion
            ([M.saved.info] ++ (match X with | none => [] | some x => [x.saved.info]) ++ [(.base, 0, [])]))
      a.commit c height = .ok (afterBlock a B M.saved (X.map Tree.saved)) := by
  have hc := h.collected
  have hcoll := h.coll
  obtain ⟨hMn, hMf, hMv, hMi, hMh, hMst⟩ :=
    Tree.flush_keeps a.main c.m h.main.staged
  have hMw : (a.main.flush c.m).workingVersion = a.nextVersion := h.main.workingVersion c.m
  -- the state MultiWrite leaves
  have ha2 : a.commit c height =
      App.commitMS { a with main := a.main.flush c.m, aux := a.aux.map (fun x => Tree.flush x c.a),
                            deliver := none, coll := flushBase (c.b.put hdrKey (some (hdrVal height))) } := by
    simp only [App.commit, App.emit, hc, ↓reduceIte, hcoll, List.nil_append]
  rw [ha2]
  generalize ha2d : ({ a with main := a.main.flush c.m, aux := a.aux.map (fun x => Tree.flush x c.a),
                              deliver := none,
                              coll := flushBase (c.b.put hdrKey (some (hdrVal height))) } : App) = a2
  have e_cfg : a2.cfg = a.cfg := by rw [← ha2d]
  have e_db : a2.db = a.db := by rw [← ha2d]
  have e_coll : a2.coll = flushBase (c.b.put hdrKey (some (hdrVal height))) := by rw [← ha2d]
  have e_main : a2.main = a.main.flush c.m := by rw [← ha2d]
  have e_aux : a2.aux = a.aux.map (fun x => Tree.flush x c.a) := by rw [← ha2d]
  have e_nv : a2.nextVersion = a.nextVersion := by rw [← ha2d]; rfl
  have e_log : a2.log = a.log := by rw [← ha2d]
  have e_msi : a2.msInitial = a.msInitial := by rw [← ha2d]
  have e_del : a2.deliver = none := by rw [← ha2d]
  have hc2 : a2.cfg.collected = true := by rw [e_cfg]; exact hc
  -- main's store commit
  have hnoneM : a2.look (.root a2.main.name a2.main.workingVersion) = none := by
    rw [e_main, hMn, h.main.name, hMw]
    apply look_root_none_of
    · rw [e_coll]; exact noTouch_flushBase _ _
    · intro v hv
      rw [e_db] at hv
      exact Nat.lt_of_le_of_lt (h.main.rootsLe v hv) a.lt_nextVersion
  obtain ⟨dM, hdMe, hdM, hM⟩ := Tree.commit_collected a2 a2.main hc2 hnoneM
  rw [e_main, hMn, h.main.name, hMw] at hdM
  have hdMe' : dM = a.dM c height := by
    rw [hdMe, ← ha2d]; rfl
  cases hax : a.aux with
  | none =>
    refine ⟨dM, [], hdMe', ?_, hdM, ?_, ?_⟩
    · simp [App.dX, App.mw, hax]
    · intro op hop; cases hop
    simp only [Option.map_none]
    have hS := commitStores_eq_none hM (by simp [e_aux, hax])
    dsimp only at hS
    rw [commitMS_eq hS (by exact hc2)]
    simp only [afterBlock, App.infos, e_aux, hax, Option.map_none, e_nv, e_db, e_coll, e_main,
      e_log, e_msi, e_del, e_cfg, List.append_assoc, List.nil_append, Tree.saved]
  | some x =>
    have hX : TInv a x .aux (match a.cfg.aux with | some f => f | none => false) := by
      have := h.aux
      unfold AuxInv at this
      rw [hax] at this
      cases hcx : a.cfg.aux with
      | none => simp [hcx] at this
      | some f => simpa [hcx] using this
    obtain ⟨hXn, hXf, hXv, hXi, hXh, hXst⟩ := Tree.flush_keeps x c.a hX.staged
    have hXw : (x.flush c.a).workingVersion = a.nextVersion := hX.workingVersion c.a
    have e_aux' : a2.aux = some (x.flush c.a) := by rw [e_aux, hax]; rfl
    generalize ha3d : ({ a2 with coll := a2.coll ++ (a2.main.saveOps ++ dM), main := a2.main.saved } : App) = a3 at hM
    have f_cfg : a3.cfg = a2.cfg := by rw [← ha3d]
    have f_db : a3.db = a2.db := by rw [← ha3d]
    have f_coll : a3.coll = a2.coll ++ (a2.main.saveOps ++ dM) := by rw [← ha3d]
    have f_main : a3.main = a2.main.saved := by rw [← ha3d]
    have f_aux : a3.aux = a2.aux := by rw [← ha3d]
    have hc3 : a3.cfg.collected = true := by rw [f_cfg]; exact hc2
    have hnoneX : a3.look (.root (x.flush c.a).name (x.flush c.a).workingVersion) = none := by
      rw [hXn, hX.name, hXw]
      apply look_root_none_of
      · rw [f_coll, e_coll, e_main]
        apply NoTouch.append (noTouch_flushBase _ _)
        apply noTouch_seg _ hMst
        · rw [hMn, h.main.name]; exact hdM
        · rw [hMn, h.main.name]; decide
      · intro v hv
        rw [f_db, e_db] at hv
        exact Nat.lt_of_le_of_lt (hX.rootsLe v hv) a.lt_nextVersion
    obtain ⟨dX, hdXe, hdX, hXc⟩ := Tree.commit_collected a3 (x.flush c.a) hc3 hnoneX
    rw [hXn, hX.name, hXw] at hdX
    have hdXe' : dX = a.dX c height := by
      rw [hdXe, ← ha3d, hdMe, ← ha2d]
      simp only [App.dX, App.mw, hax, Option.map_some]
      rfl
    refine ⟨dM, dX, hdMe', hdXe', hdM, hdX, ?_⟩
    simp only [Option.map_some]
    have hXc' := hXc
    rw [← ha3d] at hXc'
    have hS := commitStores_eq_some hM e_aux' hXc'
    dsimp only at hS
    rw [commitMS_eq hS (by exact hc2)]
    simp only [afterBlock, App.infos, e_nv, e_db, e_coll, e_main, e_log, e_msi, e_del, e_cfg,
      List.append_assoc, Tree.saved]

/-! ## what the database holds after the batch -/

/-- one tree's view of the database after a batch that contains its segment. -/
theorem tree_after (d : PDB) (t : Tree) (ds c0 rest : List WOp) (lastVer : Nat)
    (hst : StagedOk t) (hds : DelsBelow t.name t.workingVersion ds)
    (hc0 : NoTouch t.name c0) (hrest : NoTouch t.name rest)
    (hle : ∀ v, (d.get (.root t.name v)).isSome = true → v ≤ lastVer) (hlt : lastVer < t.workingVersion)
    (hge : ∀ v, (d.get (.root t.name v)).isSome = true → t.initialVersion ≤ v)
    (hinit : t.initialVersion ≤ t.workingVersion) :
    let d' := applyBatch d (c0 ++ (t.saveOps ++ ds) ++ rest)
    (∀ v, (d'.get (.root t.name v)).isSome = true → v ≤ t.workingVersion) ∧
    (∀ v, (d'.get (.root t.name v)).isSome = true → t.initialVersion ≤ v) ∧
    d'.get (.root t.name t.workingVersion) = some (.root ⟨t.nextHist, t.kv⟩) ∧
    (t.fast = true → d'.get (.stamp t.name) = some (.stampV t.workingVersion)) := by
  intro d'
  have key : ∀ v, v ≠ t.workingVersion → (d'.get (.root t.name v)).isSome = true →
      (d.get (.root t.name v)).isSome = true := by
    intro v hv hs
    have e : d'.get (.root t.name v) = _ := get_applyBatch d _ (.root t.name v)
    rw [e] at hs
    rcases seg_root_other hst hds hc0 hrest hv with h | h
    · rw [h] at hs; exact hs
    · rw [h] at hs; cases hs
  refine ⟨?_, ?_, ?_, ?_⟩
  · intro v hs
    by_cases hv : v = t.workingVersion
    · omega
    · have := hle v (key v hv hs); omega
  · intro v hs
    by_cases hv : v = t.workingVersion
    · omega
    · exact hge v (key v hv hs)
  · have e : d'.get (.root t.name t.workingVersion) = _ := get_applyBatch d _ _
    rw [e, seg_root_self hst hds hrest]
  · intro hf
    have e : d'.get (.stamp t.name) = _ := get_applyBatch d _ _
    rw [e, seg_stamp hst hds hc0 hrest, if_pos hf]

theorem lastOp_meta_latest (ver : Nat) (infos : List StoreInfo) :
    lastOp (metaOps ver infos) .latest = some (some (.ver ver)) := by
  simp [metaOps, lastOp]

theorem lastOp_meta_cinfo (ver : Nat) (infos : List StoreInfo) :
    lastOp (metaOps ver infos) (.cinfo ver) = some (some (.cinfo infos)) := by
  simp [metaOps, lastOp]

end GnoVerif.C27
