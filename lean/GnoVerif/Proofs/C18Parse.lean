import GnoVerif.Proofs.C18Cmp2
/-! `ParseCoins (cs.String()) = cs` for valid sets: decimal printing/parsing, splitting, trimming. -/
namespace GnoVerif.C18
open GnoVerif

/-! ### decimal digits -/

def digit (k : Nat) : UInt8 := UInt8.ofNat (48 + k)

theorem decimalAux_acc (fuel n : Nat) (acc : List UInt8) :
    decimalAux fuel n acc = decimalAux fuel n [] ++ acc := by
  induction fuel generalizing n acc with
  | zero => simp [decimalAux]
  | succ f ih =>
    simp only [decimalAux]
    split
    · simp
    · rw [ih (n / 10) (UInt8.ofNat (48 + n % 10) :: acc), ih (n / 10) [UInt8.ofNat (48 + n % 10)]]
      simp

theorem decimalAux_fuel (f1 f2 n : Nat) (acc : List UInt8) (h1 : n < f1) (h2 : n < f2) :
    decimalAux f1 n acc = decimalAux f2 n acc := by
  induction f1 generalizing f2 n acc with
  | zero => omega
  | succ k ih =>
    cases f2 with
    | zero => omega
    | succ m =>
      simp only [decimalAux]
      split
      · rfl
      · exact ih m (n / 10) _ (by omega) (by omega)

theorem decimal_small {n : Nat} (h : n < 10) : decimal n = [digit n] := by
  have h0 : n / 10 = 0 := by omega
  have h1 : n % 10 = n := by omega
  simp [decimal, decimalAux, h0, h1, digit]

theorem decimal_rec {n : Nat} (h : 10 ≤ n) : decimal n = decimal (n / 10) ++ [digit (n % 10)] := by
  have h0 : n / 10 ≠ 0 := by omega
  simp only [decimal, decimalAux, h0, if_false]
  rw [decimalAux_acc, decimalAux_fuel n (n / 10 + 1) (n / 10) [] (by omega) (by omega)]
  rfl

theorem digit_isDigit {k : Nat} (h : k < 10) : isDigit (digit k) = true := by
  have : k = 0 ∨ k = 1 ∨ k = 2 ∨ k = 3 ∨ k = 4 ∨ k = 5 ∨ k = 6 ∨ k = 7 ∨ k = 8 ∨ k = 9 := by omega
  rcases this with h | h | h | h | h | h | h | h | h | h <;> subst h <;> decide

theorem digit_toNat {k : Nat} (h : k < 10) : (digit k).toNat - 48 = k := by
  have : k = 0 ∨ k = 1 ∨ k = 2 ∨ k = 3 ∨ k = 4 ∨ k = 5 ∨ k = 6 ∨ k = 7 ∨ k = 8 ∨ k = 9 := by omega
  rcases this with h | h | h | h | h | h | h | h | h | h <;> subst h <;> decide

theorem digitsToNat_snoc (ds : List UInt8) (d : UInt8) :
    digitsToNat (ds ++ [d]) = digitsToNat ds * 10 + (d.toNat - 48) := by
  simp [digitsToNat, List.foldl_append]

/-- the decimal string of `n`: all digits, non-empty, parses back to `n`, at most `k` long if `n < 10^k`. -/
theorem decimal_spec (n : Nat) :
    (∀ c ∈ decimal n, isDigit c = true) ∧ decimal n ≠ [] ∧ digitsToNat (decimal n) = n := by
  induction n using Nat.strongRecOn with
  | _ n ih =>
    by_cases h : n < 10
    · rw [decimal_small h]
      refine ⟨?_, by simp, ?_⟩
      · intro c hc; simp at hc; subst hc; exact digit_isDigit h
      · simp [digitsToNat, digit_toNat h]
    · obtain ⟨h1, h2, h3⟩ := ih (n / 10) (by omega)
      rw [decimal_rec (by omega)]
      refine ⟨?_, by simp, ?_⟩
      · intro c hc
        rcases List.mem_append.mp hc with hc | hc
        · exact h1 c hc
        · simp at hc; subst hc; exact digit_isDigit (by omega)
      · rw [digitsToNat_snoc, h3, digit_toNat (by omega)]; omega

theorem decimal_length (k n : Nat) (hk : 0 < k) (h : n < 10 ^ k) : (decimal n).length ≤ k := by
  induction k generalizing n with
  | zero => omega
  | succ k ih =>
    by_cases h10 : n < 10
    · rw [decimal_small h10]; simp
    · rw [decimal_rec (by omega)]
      have hk' : 0 < k := by
        cases k with
        | zero => simp at h; omega
        | succ _ => omega
      have : n / 10 < 10 ^ k := by
        rw [Nat.pow_succ] at h
        exact Nat.div_lt_of_lt_mul (by rw [Nat.mul_comm]; exact h)
      have := ih (n / 10) hk' this
      simp; omega

/-! ### `strings.TrimSpace` is the identity on strings that start and end with a non-space ASCII byte -/

theorem spacePrefix_ascii {c : UInt8} (rest : List UInt8) (h1 : c < 128) (h2 : isAsciiSpace c = false) :
    spacePrefix (c :: rest) = none := by
  unfold spacePrefix
  simp only [h2, Bool.false_eq_true, if_false]
  split <;> first | rfl | (exfalso; revert h1; decide)

theorem spaceSuffixRev_ascii {c : UInt8} (rest : List UInt8) (h1 : c < 128) (h2 : isAsciiSpace c = false) :
    spaceSuffixRev (c :: rest) = none := by
  unfold spaceSuffixRev
  simp only [h2, Bool.false_eq_true, if_false]
  split
  all_goals first | rfl | (exfalso; revert h1; decide) | skip
  rw [if_neg]
  intro hh
  simp only [Bool.or_eq_true, Bool.and_eq_true, decide_eq_true_eq, beq_iff_eq] at hh
  rcases hh with ((⟨h, _⟩ | h) | h) | h
  · simp only [UInt8.lt_iff_toNat_lt, UInt8.le_iff_toNat_le] at h1 h
    have : (128 : UInt8).toNat = 128 := rfl
    omega
  all_goals (subst h; revert h1; decide)

theorem trimLeftAux_id (fuel : Nat) (s : List UInt8) (h : spacePrefix s = none) : trimLeftAux fuel s = s := by
  cases fuel with
  | zero => rfl
  | succ f => simp [trimLeftAux, h]

theorem trimRightRevAux_id (fuel : Nat) (s : List UInt8) (h : spaceSuffixRev s = none) : trimRightRevAux fuel s = s := by
  cases fuel with
  | zero => rfl
  | succ f => simp [trimRightRevAux, h]

/-- a byte that cannot start or end a Unicode space. -/
def Solid (c : UInt8) : Prop := c < 128 ∧ isAsciiSpace c = false

theorem trimSpace_id (c l : UInt8) (mid : List UInt8) (hc : Solid c) (hl : Solid l) :
    trimSpace (c :: (mid ++ [l])) = c :: (mid ++ [l]) := by
  simp only [trimSpace]
  rw [trimLeftAux_id _ _ (spacePrefix_ascii _ hc.1 hc.2)]
  have hr : (c :: (mid ++ [l])).reverse = l :: (mid.reverse ++ [c]) := by simp
  rw [hr, trimRightRevAux_id _ _ (spaceSuffixRev_ascii _ hl.1 hl.2), ← hr, List.reverse_reverse]

theorem trimSpace_single (c : UInt8) (hc : Solid c) : trimSpace [c] = [c] := by
  simp only [trimSpace]
  rw [trimLeftAux_id _ _ (spacePrefix_ascii _ hc.1 hc.2)]
  simp only [List.reverse_cons, List.reverse_nil, List.nil_append]
  rw [trimRightRevAux_id _ _ (spaceSuffixRev_ascii _ hc.1 hc.2)]
  rfl

/-- strings that begin and end with a solid byte. -/
def Framed (s : List UInt8) : Prop :=
  (∃ c rest, s = c :: rest ∧ Solid c) ∧ (∃ init l, s = init ++ [l] ∧ Solid l)

theorem trimSpace_framed {s : List UInt8} (h : Framed s) : trimSpace s = s := by
  obtain ⟨⟨c, rest, hs, hc⟩, ⟨init, l, hs', hl⟩⟩ := h
  cases init with
  | nil =>
    simp only [List.nil_append] at hs'
    subst hs'
    exact trimSpace_single l hl
  | cons i init =>
    have : c = i ∧ rest = init ++ [l] := by
      rw [hs] at hs'
      simpa using hs'
    obtain ⟨e1, e2⟩ := this
    subst e1 e2
    rw [hs]
    exact trimSpace_id c l init hc hl

theorem Framed.append {s t : List UInt8} (hs : Framed s) (ht : Framed t) (mid : List UInt8) :
    Framed (s ++ mid ++ t) := by
  obtain ⟨⟨c, rest, e, hc⟩, _⟩ := hs
  obtain ⟨_, ⟨init, l, e', hl⟩⟩ := ht
  refine ⟨⟨c, rest ++ mid ++ t, by rw [e]; simp, hc⟩, ⟨s ++ mid ++ init, l, by rw [e']; simp, hl⟩⟩

/-! ### byte classes (exhaustive over the 256 bytes) -/

instance (c : UInt8) : Decidable (Solid c) := by unfold Solid; infer_instance

theorem u8_forall (P : UInt8 → Prop) (h : ∀ n, n < 256 → P (UInt8.ofNat n)) (c : UInt8) : P c := by
  have := h c.toNat c.toNat_lt
  rwa [UInt8.ofNat_toNat] at this

set_option maxRecDepth 100000 in
theorem digit_class : ∀ c : UInt8, isDigit c = true → Solid c ∧ c ≠ 44 :=
  u8_forall _ (by decide)

set_option maxRecDepth 100000 in
theorem head_class : ∀ c : UInt8, isDenomHead c = true →
    Solid c ∧ c ≠ 44 ∧ isDigit c = false ∧ isDenomTail c = true :=
  u8_forall _ (by decide)

set_option maxRecDepth 100000 in
theorem tail_class : ∀ c : UInt8, isDenomTail c = true → Solid c ∧ c ≠ 44 :=
  u8_forall _ (by decide)

/-! ### the string of one valid coin, and parsing it back -/

theorem maxDenomLength_eq : maxDenomLength = 274 := rfl

theorem denomOK_shape {d : Denom} (h : DenomOK d) :
    d.length ≤ 274 ∧ ∃ hd rest, d = hd :: rest ∧ 2 ≤ rest.length ∧ isDenomHead hd = true ∧
      ∀ x ∈ rest, isDenomTail x = true := by
  simp only [DenomOK, validateDenom] at h
  by_cases hlen : d.length > maxDenomLength
  · rw [if_pos hlen] at h; cases h
  · rw [if_neg hlen] at h
    rw [maxDenomLength_eq] at hlen
    refine ⟨by omega, ?_⟩
    cases d with
    | nil => simp [validDenomRe] at h
    | cons c rest =>
      simp only [validDenomRe, List.length_cons, Bool.and_eq_true, decide_eq_true_eq, List.all_eq_true] at h
      exact ⟨c, rest, rfl, by omega, h.1.2, h.2⟩

theorem validDenomRe_of_ok {d : Denom} (h : DenomOK d) : validDenomRe d = true := by
  simp only [DenomOK, validateDenom] at h
  by_cases hlen : d.length > maxDenomLength
  · rw [if_pos hlen] at h; cases h
  · rw [if_neg hlen] at h; exact h

theorem pos_amount {a : BitVec 64} (hp : 0 < a.toInt) :
    a.toInt = (a.toNat : Int) ∧ a.toNat ≤ 9223372036854775807 ∧ 0 < a.toNat := by
  have h1 := @BitVec.toInt_lt 64 a
  have h2 := a.isLt
  rw [BitVec.toInt_eq_toNat_cond] at hp h1 ⊢
  split at hp <;> split <;> omega

theorem coinStr_valid {c : Coin} (hp : 0 < c.amount.toInt) :
    c.str = decimal c.amount.toNat ++ c.denom := by
  obtain ⟨h1, _, _⟩ := pos_amount hp
  have hz : c.isZero = false := by
    cases hh : c.isZero with
    | false => rfl
    | true => rw [isZero_toInt hh] at hp; omega
  have hn : c.amount.toInt.natAbs = c.amount.toNat := by omega
  simp only [Coin.str, hz, Bool.false_eq_true, if_false, decimalInt, hn]
  rw [if_neg (by omega)]

def NoComma (s : List UInt8) : Prop := ∀ x ∈ s, x ≠ 44

theorem coinStr_shape {c : Coin} (hd : DenomOK c.denom) (hp : 0 < c.amount.toInt) :
    Framed c.str ∧ NoComma c.str := by
  rw [coinStr_valid hp]
  obtain ⟨hdig, hne, _⟩ := decimal_spec c.amount.toNat
  obtain ⟨_, h, rest, e, hlen, hh, ht⟩ := denomOK_shape hd
  rw [e]
  constructor
  · constructor
    · cases hds : decimal c.amount.toNat with
      | nil => exact absurd hds hne
      | cons d ds =>
        exact ⟨d, ds ++ h :: rest, rfl, (digit_class d (hdig d (by rw [hds]; exact List.mem_cons_self))).1⟩
    · have hr : rest ≠ [] := by intro e0; rw [e0] at hlen; simp at hlen
      refine ⟨decimal c.amount.toNat ++ h :: rest.dropLast, rest.getLast hr, ?_, ?_⟩
      · conv => lhs; rw [← List.dropLast_concat_getLast hr]
        simp
      · exact (tail_class _ (ht _ (List.getLast_mem hr))).1
  · intro x hx
    rcases List.mem_append.mp hx with hx | hx
    · exact (digit_class x (hdig x hx)).2
    · rcases List.mem_cons.mp hx with e1 | hx
      · subst e1; exact (head_class x hh).2.1
      · exact (tail_class x (ht x hx)).2

theorem parseCoin_coinStr {c : Coin} (hd : DenomOK c.denom) (hp : 0 < c.amount.toInt) :
    parseCoin c.str = .ok c := by
  obtain ⟨hfr, _⟩ := coinStr_shape hd hp
  obtain ⟨_, hmax, _⟩ := pos_amount hp
  obtain ⟨hdig, hne, hval⟩ := decimal_spec c.amount.toNat
  obtain ⟨hlen, h, rest, e, _, hh, _⟩ := denomOK_shape hd
  obtain ⟨hsolid, _, hnd, _⟩ := head_class h hh
  have hdl : (decimal c.amount.toNat).length ≤ 20 :=
    decimal_length 20 _ (by omega) (by have := c.amount.isLt; omega)
  have htake : (decimal c.amount.toNat ++ c.denom).takeWhile isDigit = decimal c.amount.toNat := by
    rw [List.takeWhile_append_of_pos hdig, e, List.takeWhile_cons_of_neg (by simp [hnd])]; simp
  have hdrop : (decimal c.amount.toNat ++ c.denom).dropWhile isDigit = c.denom := by
    rw [List.dropWhile_append_of_pos hdig, e, List.dropWhile_cons_of_neg (by simp [hnd])]
  have hsp : c.denom.dropWhile isAsciiSpace = c.denom := by
    rw [e, List.dropWhile_cons_of_neg (by simp [hsolid.2])]
  have hempty : (decimal c.amount.toNat).isEmpty = false := by
    cases hds : decimal c.amount.toNat with
    | nil => exact absurd hds hne
    | cons _ _ => rfl
  have hvd : validateDenom c.denom = true := hd
  unfold parseCoin
  simp only [trimSpace_framed hfr]
  rw [coinStr_valid hp]
  simp only [htake, hdrop, hsp, hempty, validDenomRe_of_ok hd, hvd, hval, List.length_append, maxDenomLength_eq,
    Bool.not_true, Bool.false_eq_true, if_false]
  rw [if_neg (by omega), if_neg (by omega)]
  congr 1
  cases c
  simp only [Coin.mk.injEq, true_and]
  exact BitVec.ofNat_toNat _ _

/-! ### splitting on commas -/

theorem splitComma_ne_nil (s : List UInt8) : splitComma s ≠ [] := by
  induction s with
  | nil => simp [splitComma]
  | cons c s ih =>
    simp only [splitComma]
    split
    · simp
    · split <;> simp

theorem splitComma_noComma {s : List UInt8} (h : NoComma s) : splitComma s = [s] := by
  induction s with
  | nil => rfl
  | cons c s ih =>
    have hc : (c == 44) = false := by simpa using h c List.mem_cons_self
    simp only [splitComma, ih (fun x hx => h x (List.mem_cons_of_mem _ hx)), hc, Bool.false_eq_true, if_false]

theorem splitComma_append {s : List UInt8} (rest : List UInt8) (h : NoComma s) :
    splitComma (s ++ 44 :: rest) = s :: splitComma rest := by
  induction s with
  | nil =>
    simp only [List.nil_append, splitComma]
    cases hh : splitComma rest with
    | nil => exact absurd hh (splitComma_ne_nil rest)
    | cons p ps => simp
  | cons c s ih =>
    have hc : (c == 44) = false := by simpa using h c List.mem_cons_self
    simp only [List.cons_append, splitComma, ih (fun x hx => h x (List.mem_cons_of_mem _ hx)), hc,
      Bool.false_eq_true, if_false]

/-! ### the whole set -/

theorem joinComma_cons₂ (s t : List UInt8) (rest : List (List UInt8)) :
    joinComma (s :: t :: rest) = s ++ 44 :: joinComma (t :: rest) := rfl

theorem roundtrip_list (c : Coin) (cs : Coins) (hv : ∀ x ∈ c :: cs, DenomOK x.denom ∧ 0 < x.amount.toInt) :
    Framed (str (c :: cs)) ∧ parseCoinList (splitComma (str (c :: cs))) = .ok (c :: cs) := by
  induction cs generalizing c with
  | nil =>
    obtain ⟨hd, hp⟩ := hv c List.mem_cons_self
    obtain ⟨hfr, hnc⟩ := coinStr_shape hd hp
    simp only [str, List.map_cons, List.map_nil, joinComma]
    refine ⟨hfr, ?_⟩
    rw [splitComma_noComma hnc]
    simp [parseCoinList, parseCoin_coinStr hd hp]
  | cons c2 cs ih =>
    obtain ⟨hd, hp⟩ := hv c List.mem_cons_self
    obtain ⟨hfr, hnc⟩ := coinStr_shape hd hp
    obtain ⟨ihf, ihp⟩ := ih c2 (fun x hx => hv x (List.mem_cons_of_mem _ hx))
    simp only [str, List.map_cons] at ihf ihp ⊢
    rw [joinComma_cons₂]
    constructor
    · have := Framed.append hfr ihf [44]
      simpa using this
    · rw [splitComma_append _ hnc]
      simp only [parseCoinList, parseCoin_coinStr hd hp, ihp]

theorem framed_ne_nil {s : List UInt8} (h : Framed s) : s.isEmpty = false := by
  obtain ⟨⟨c, rest, e, _⟩, _⟩ := h
  rw [e]; rfl

/-- parsing the string form of a valid coin set returns the same set. -/
theorem parseCoins_str {cs : Coins} (h : Valid cs) : parseCoins (str cs) = .ok cs := by
  cases cs with
  | nil => rfl
  | cons c cs =>
    obtain ⟨hfr, hpl⟩ := roundtrip_list c cs h.2
    unfold parseCoins
    simp only [trimSpace_framed hfr, framed_ne_nil hfr, Bool.false_eq_true, if_false, hpl,
      sortCoins_of_sorted h.1, (validate_iff _).mpr h, if_true]

end GnoVerif.C18
