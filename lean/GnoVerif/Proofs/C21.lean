import GnoVerif.Model.C21
/-!
Helper lemmas for C21: every function of the token-advance layer, run with ANY callback on
ANY callback state, returns the same parser state (and the same values) as the callback-free
run, and its callback state is the fold of the callback over the stream indices it scanned.
-/
namespace GnoVerif.C21

/-- the callback-free run used as the reference (`p.callback == nil`) -/
abbrev noCb : Callback Unit := none

/-- the callback applied to the tokens scanned from index `a` up to (excluding) `b`, in order -/
def foldRange {κ : Type} (c : Cfg) (cb : Callback κ) (nest a b : Nat) (k : κ) : κ :=
  (List.range' a (b - a)).foldl (fun k j => fire cb (tokAt c.s j).kind nest k) k

theorem foldRange_self {κ : Type} (c : Cfg) (cb : Callback κ) (nest a : Nat) (k : κ) :
    foldRange c cb nest a a k = k := by
  simp [foldRange]

theorem foldRange_step {κ : Type} (c : Cfg) (cb : Callback κ) (nest a b : Nat) (k : κ) (h : a < b) :
    foldRange c cb nest a b k = foldRange c cb nest (a + 1) b (fire cb (tokAt c.s a).kind nest k) := by
  unfold foldRange
  have : b - a = (b - (a + 1)) + 1 := by omega
  rw [this, List.range'_succ, List.foldl_cons]

theorem foldRange_trans {κ : Type} (c : Cfg) (cb : Callback κ) (nest a b d : Nat) (k : κ)
    (h1 : a ≤ b) (h2 : b ≤ d) :
    foldRange c cb nest b d (foldRange c cb nest a b k) = foldRange c cb nest a d k := by
  unfold foldRange
  rw [← List.foldl_append]
  congr 1
  have h := List.range'_append (s := a) (m := b - a) (n := d - b) (step := 1)
  have e1 : a + 1 * (b - a) = b := by omega
  have e2 : (b - a) + (d - b) = d - a := by omega
  rw [e1, e2] at h
  exact h

@[simp] theorem fire_none {κ : Type} (t n : Nat) (k : κ) : fire (none : Callback κ) t n k = k := rfl
@[simp] theorem fire_some {κ : Type} (f : Nat → Nat → κ → κ) (t n : Nat) (k : κ) : fire (some f) t n k = f t n k := rfl

theorem foldRange_one {κ : Type} (c : Cfg) (cb : Callback κ) (nest a : Nat) (k : κ) :
    foldRange c cb nest a (a + 1) k = fire cb (tokAt c.s a).kind nest k := by
  rw [foldRange_step c cb nest a (a + 1) k (Nat.lt_succ_self a), foldRange_self]

theorem next0_unfold {κ : Type} (c : Cfg) (cb : Callback κ) (nest : Nat) (st : PState) (k : κ) :
    next0 c cb nest st k =
      (let t := tokAt c.s st.idx
       let st1 : PState := { st with idx := st.idx + 1, pos := some st.idx, tok := t.kind }
       let k1 := fire cb t.kind nest k
       if t.kind = tCOMMENT then
         if c.parseComments then (st1, k1) else next0 c cb nest st1 k1
       else ({ st1 with top := false }, k1)) := by
  rw [next0]
  simp only [dite_eq_ite]

theorem next0_char {κ : Type} (c : Cfg) (cb : Callback κ) (nest : Nat) (st : PState) (k : κ) :
    next0 c cb nest st k =
      ((next0 c noCb nest st ()).1, foldRange c cb nest st.idx (next0 c noCb nest st ()).1.idx k) := by
  fun_induction next0 c cb nest st k
  · rename_i st k t st1 k1 h hpc
    rw [next0_unfold c noCb]
    simp only [t] at h
    simp only [h, hpc, if_true, foldRange_one, st1, k1, t]
  · rename_i st k t st1 k1 h hpc ih
    rw [next0_unfold c noCb]
    simp only [t] at h
    have hst : st1 = { st with idx := st.idx + 1, pos := some st.idx, tok := tCOMMENT } := by
      simp only [st1, t, h]
    simp only [h, hpc, if_true, Bool.false_eq_true, if_false, fire_none, ← hst]
    rw [ih]
    have hlt := next0_idx_lt c noCb nest st1 ()
    have hlt' : st.idx < (next0 c noCb nest st1 ()).1.idx := by
      have : st1.idx = st.idx + 1 := rfl
      omega
    rw [foldRange_step c cb nest st.idx _ k hlt']
  · rename_i st k t st1 k1 h
    rw [next0_unfold c noCb]
    simp only [t] at h
    simp only [h, if_false, foldRange_one, st1, k1, t]

theorem consumeComment_idx_lt {κ : Type} (c : Cfg) (cb : Callback κ) (nest : Nat) (st : PState) (k : κ) :
    st.idx < (consumeComment c cb nest st k).2.1.idx := by
  simp only [consumeComment]
  exact next0_idx_lt c cb nest st k

theorem consumeComment_char {κ : Type} (c : Cfg) (cb : Callback κ) (nest : Nat) (st : PState) (k : κ) :
    consumeComment c cb nest st k =
      ((consumeComment c noCb nest st ()).1, (consumeComment c noCb nest st ()).2.1,
        foldRange c cb nest st.idx (consumeComment c noCb nest st ()).2.1.idx k) := by
  simp only [consumeComment]
  rw [next0_char c cb nest st k]

theorem groupLoop_idx_le {κ : Type} (c : Cfg) (cb : Callback κ) (nest n endline : Nat) (list : List Nat)
    (st : PState) (k : κ) : st.idx ≤ (groupLoop c cb nest n endline list st k).2.1.idx := by
  fun_induction groupLoop c cb nest n endline list st k with
  | case1 endline list st k h r ih =>
    have h1 := consumeComment_idx_lt c cb nest st k
    exact Nat.le_trans (Nat.le_of_lt h1) ih
  | case2 endline list st k h => exact Nat.le_refl _

theorem groupLoop_unfold {κ : Type} (c : Cfg) (cb : Callback κ) (nest n endline : Nat) (list : List Nat)
    (st : PState) (k : κ) :
    groupLoop c cb nest n endline list st k =
      (if st.tok = tCOMMENT ∧ posLine c st.pos ≤ endline + n then
        groupLoop c cb nest n (consumeComment c cb nest st k).1.2 (list ++ [(consumeComment c cb nest st k).1.1])
          (consumeComment c cb nest st k).2.1 (consumeComment c cb nest st k).2.2
      else ((list, endline), st, k)) := by
  rw [groupLoop]
  simp only [dite_eq_ite]

theorem groupLoop_char {κ : Type} (c : Cfg) (cb : Callback κ) (nest n endline : Nat) (list : List Nat)
    (st : PState) (k : κ) :
    groupLoop c cb nest n endline list st k =
      ((groupLoop c noCb nest n endline list st ()).1, (groupLoop c noCb nest n endline list st ()).2.1,
        foldRange c cb nest st.idx (groupLoop c noCb nest n endline list st ()).2.1.idx k) := by
  fun_induction groupLoop c cb nest n endline list st k with
  | case1 endline list st k h r ih =>
    rw [groupLoop_unfold c noCb, if_pos h]
    have hr : r = ((consumeComment c noCb nest st ()).1, (consumeComment c noCb nest st ()).2.1,
        foldRange c cb nest st.idx (consumeComment c noCb nest st ()).2.1.idx k) :=
      consumeComment_char c cb nest st k
    rw [ih]
    have e1 : r.1 = (consumeComment c noCb nest st ()).1 := by rw [hr]
    have e2 : r.2.1 = (consumeComment c noCb nest st ()).2.1 := by rw [hr]
    have e3 : r.2.2 = foldRange c cb nest st.idx (consumeComment c noCb nest st ()).2.1.idx k := by rw [hr]
    rw [e1, e2, e3]
    have hu : (consumeComment c noCb nest st ()).2.2 = () := rfl
    rw [hu]
    have l1 := consumeComment_idx_lt c noCb nest st ()
    have l2 := groupLoop_idx_le c noCb nest n (consumeComment c noCb nest st ()).1.2
      (list ++ [(consumeComment c noCb nest st ()).1.1]) (consumeComment c noCb nest st ()).2.1 ()
    rw [foldRange_trans c cb nest _ _ _ k (Nat.le_of_lt l1) l2]
  | case2 endline list st k h =>
    rw [groupLoop_unfold c noCb, if_neg h, foldRange_self]

theorem consumeCommentGroup_idx_le {κ : Type} (c : Cfg) (cb : Callback κ) (nest n : Nat) (st : PState) (k : κ) :
    st.idx ≤ (consumeCommentGroup c cb nest n st k).2.1.idx := by
  simp only [consumeCommentGroup]
  exact groupLoop_idx_le c cb nest n _ _ st k

theorem consumeCommentGroup_char {κ : Type} (c : Cfg) (cb : Callback κ) (nest n : Nat) (st : PState) (k : κ) :
    consumeCommentGroup c cb nest n st k =
      ((consumeCommentGroup c noCb nest n st ()).1, (consumeCommentGroup c noCb nest n st ()).2.1,
        foldRange c cb nest st.idx (consumeCommentGroup c noCb nest n st ()).2.1.idx k) := by
  simp only [consumeCommentGroup]
  rw [groupLoop_char c cb nest n _ _ st k]

theorem succLoop_unfold {κ : Type} (c : Cfg) (cb : Callback κ) (nest : Nat) (comment : Option (List Nat))
    (endline : Int) (st : PState) (k : κ) :
    succLoop c cb nest comment endline st k =
      (if st.tok = tCOMMENT then
        succLoop c cb nest (some (consumeCommentGroup c cb nest 1 st k).1.1)
          ((consumeCommentGroup c cb nest 1 st k).1.2 : Nat)
          (consumeCommentGroup c cb nest 1 st k).2.1 (consumeCommentGroup c cb nest 1 st k).2.2
      else ((comment, endline), st, k)) := by
  rw [succLoop]
  simp only [dite_eq_ite]

theorem succLoop_idx_le {κ : Type} (c : Cfg) (cb : Callback κ) (nest : Nat) (comment : Option (List Nat))
    (endline : Int) (st : PState) (k : κ) : st.idx ≤ (succLoop c cb nest comment endline st k).2.1.idx := by
  fun_induction succLoop c cb nest comment endline st k with
  | case1 comment endline st k h r ih =>
    exact Nat.le_trans (consumeCommentGroup_idx_le c cb nest 1 st k) ih
  | case2 comment endline st k h => exact Nat.le_refl _

theorem succLoop_char {κ : Type} (c : Cfg) (cb : Callback κ) (nest : Nat) (comment : Option (List Nat))
    (endline : Int) (st : PState) (k : κ) :
    succLoop c cb nest comment endline st k =
      ((succLoop c noCb nest comment endline st ()).1, (succLoop c noCb nest comment endline st ()).2.1,
        foldRange c cb nest st.idx (succLoop c noCb nest comment endline st ()).2.1.idx k) := by
  fun_induction succLoop c cb nest comment endline st k with
  | case1 comment endline st k h r ih =>
    rw [succLoop_unfold c noCb, if_pos h]
    have hr : r = ((consumeCommentGroup c noCb nest 1 st ()).1, (consumeCommentGroup c noCb nest 1 st ()).2.1,
        foldRange c cb nest st.idx (consumeCommentGroup c noCb nest 1 st ()).2.1.idx k) :=
      consumeCommentGroup_char c cb nest 1 st k
    rw [ih]
    have e1 : r.1 = (consumeCommentGroup c noCb nest 1 st ()).1 := by rw [hr]
    have e2 : r.2.1 = (consumeCommentGroup c noCb nest 1 st ()).2.1 := by rw [hr]
    have e3 : r.2.2 = foldRange c cb nest st.idx (consumeCommentGroup c noCb nest 1 st ()).2.1.idx k := by rw [hr]
    rw [e1, e2, e3]
    have hu : (consumeCommentGroup c noCb nest 1 st ()).2.2 = () := rfl
    rw [hu]
    have l1 := consumeCommentGroup_idx_le c noCb nest 1 st ()
    have l2 := succLoop_idx_le c noCb nest (some (consumeCommentGroup c noCb nest 1 st ()).1.1)
      ((consumeCommentGroup c noCb nest 1 st ()).1.2 : Nat) (consumeCommentGroup c noCb nest 1 st ()).2.1 ()
    rw [foldRange_trans c cb nest _ _ _ k l1 l2]
  | case2 comment endline st k h =>
    rw [succLoop_unfold c noCb, if_neg h, foldRange_self]

theorem lineBranch_idx_le {κ : Type} (c : Cfg) (cb : Callback κ) (nest : Nat) (prev : Option Nat)
    (st : PState) (k : κ) : st.idx ≤ (lineBranch c cb nest prev st k).2.1.idx := by
  unfold lineBranch
  have h := consumeCommentGroup_idx_le c cb nest 0 st k
  split
  · unfold lineK
    split <;> exact h
  · exact Nat.le_refl _

theorem lineBranch_char {κ : Type} (c : Cfg) (cb : Callback κ) (nest : Nat) (prev : Option Nat)
    (st : PState) (k : κ) :
    lineBranch c cb nest prev st k =
      ((lineBranch c noCb nest prev st ()).1, (lineBranch c noCb nest prev st ()).2.1,
        foldRange c cb nest st.idx (lineBranch c noCb nest prev st ()).2.1.idx k) := by
  unfold lineBranch
  rw [consumeCommentGroup_char c cb nest 0 st k]
  split
  · unfold lineK
    split
    · rfl
    · rfl
  · rw [foldRange_self]

theorem commentBranch_idx_le {κ : Type} (c : Cfg) (cb : Callback κ) (nest : Nat) (prev : Option Nat)
    (st : PState) (k : κ) : st.idx ≤ (commentBranch c cb nest prev st k).1.idx := by
  unfold commentBranch succK leadK
  have h1 := lineBranch_idx_le c cb nest prev st k
  have h2 := succLoop_idx_le c cb nest (lineBranch c cb nest prev st k).1 (-1)
    (lineBranch c cb nest prev st k).2.1 (lineBranch c cb nest prev st k).2.2
  split <;> exact Nat.le_trans h1 h2

theorem commentBranch_char {κ : Type} (c : Cfg) (cb : Callback κ) (nest : Nat) (prev : Option Nat)
    (st : PState) (k : κ) :
    commentBranch c cb nest prev st k =
      ((commentBranch c noCb nest prev st ()).1,
        foldRange c cb nest st.idx (commentBranch c noCb nest prev st ()).1.idx k) := by
  unfold commentBranch succK
  rw [lineBranch_char c cb nest prev st k]
  rw [succLoop_char c cb nest _ (-1) _ _]
  have hu : (lineBranch c noCb nest prev st ()).2.2 = () := rfl
  rw [hu]
  have l1 := lineBranch_idx_le c noCb nest prev st ()
  have l2 := succLoop_idx_le c noCb nest (lineBranch c noCb nest prev st ()).1 (-1)
    (lineBranch c noCb nest prev st ()).2.1 ()
  rw [foldRange_trans c cb nest _ _ _ k l1 l2]
  unfold leadK
  split <;> rfl

theorem next_idx_lt {κ : Type} (c : Cfg) (cb : Callback κ) (nest : Nat) (st : PState) (k : κ) :
    st.idx < (next c cb nest st k).1.idx := by
  unfold next nextK
  have h0 := next0_idx_lt c cb nest { st with leadComment := none, lineComment := none } k
  split
  · exact Nat.lt_of_lt_of_le h0 (commentBranch_idx_le c cb nest _ _ _)
  · exact h0

theorem next_char {κ : Type} (c : Cfg) (cb : Callback κ) (nest : Nat) (st : PState) (k : κ) :
    next c cb nest st k =
      ((next c noCb nest st ()).1, foldRange c cb nest st.idx (next c noCb nest st ()).1.idx k) := by
  unfold next nextK
  rw [next0_char c cb nest { st with leadComment := none, lineComment := none } k]
  split
  · rw [commentBranch_char c cb nest]
    have hu : (next0 c noCb nest { st with leadComment := none, lineComment := none } ()).2 = () := rfl
    rw [hu]
    have l1 := next0_idx_lt c noCb nest { st with leadComment := none, lineComment := none } ()
    have l2 := commentBranch_idx_le c noCb nest st.pos
      (next0 c noCb nest { st with leadComment := none, lineComment := none } ()).1 ()
    rw [foldRange_trans c cb nest _ _ _ k (Nat.le_of_lt l1) l2]
  · rfl

/-! ## whole runs -/

/-- (stream index, nesting level) of every `Scan` made while running `prog`, in order
(defined on the callback-free run) -/
def scans {ρ : Type} (c : Cfg) : Prog ρ → PState → List (Nat × Nat)
  | .ret _, _ => []
  | .peek f, st => scans c (f st) st
  | .setTok t p, st => scans c p { st with tok := t }
  | .next nest p, st =>
    (List.range' st.idx ((next c noCb nest st ()).1.idx - st.idx)).map (fun j => (j, nest))
      ++ scans c p (next c noCb nest st ()).1

/-- the callback applied to a list of scans -/
def applyScans {κ : Type} (c : Cfg) (cb : Callback κ) (l : List (Nat × Nat)) (k : κ) : κ :=
  l.foldl (fun k e => fire cb (tokAt c.s e.1).kind e.2 k) k

theorem foldRange_eq_applyScans {κ : Type} (c : Cfg) (cb : Callback κ) (nest a b : Nat) (k : κ) :
    foldRange c cb nest a b k = applyScans c cb ((List.range' a (b - a)).map (fun j => (j, nest))) k := by
  unfold foldRange applyScans
  rw [List.foldl_map]

theorem run_idx_le {ρ : Type} (c : Cfg) (prog : Prog ρ) (st : PState) :
    st.idx ≤ (run c noCb prog st ()).final.idx := by
  induction prog generalizing st with
  | ret r => exact Nat.le_refl _
  | peek f ih => exact ih st st
  | setTok t p ih => exact ih { st with tok := t }
  | next nest p ih =>
    simp only [run]
    exact Nat.le_trans (Nat.le_of_lt (next_idx_lt c noCb nest st ())) (ih _)

theorem run_char {ρ κ : Type} (c : Cfg) (cb : Callback κ) (prog : Prog ρ) (st : PState) (k : κ) :
    run c cb prog st k =
      ⟨(run c noCb prog st ()).result, (run c noCb prog st ()).trace, (run c noCb prog st ()).final,
        applyScans c cb (scans c prog st) k⟩ := by
  induction prog generalizing st k with
  | ret r => rfl
  | peek f ih => exact ih st st k
  | setTok t p ih => exact ih { st with tok := t } k
  | next nest p ih =>
    simp only [run, scans]
    rw [next_char c cb nest st k]
    simp only []
    rw [ih]
    simp only [applyScans, List.foldl_append]
    rw [foldRange_eq_applyScans]
    rfl

theorem scans_fst {ρ : Type} (c : Cfg) (prog : Prog ρ) (st : PState) :
    (scans c prog st).map Prod.fst = List.range' st.idx ((run c noCb prog st ()).final.idx - st.idx) := by
  induction prog generalizing st with
  | ret r => simp [scans, run]
  | peek f ih => exact ih st st
  | setTok t p ih => exact ih { st with tok := t }
  | next nest p ih =>
    simp only [run, scans, List.map_append, List.map_map]
    rw [ih]
    have l1 := next_idx_lt c noCb nest st ()
    have l2 := run_idx_le c p (next c noCb nest st ()).1
    have hm : (Prod.fst ∘ fun j => (j, nest)) = (id : Nat → Nat) := rfl
    rw [hm, List.map_id]
    have h := List.range'_append (s := st.idx) (m := (next c noCb nest st ()).1.idx - st.idx)
      (n := (run c noCb p (next c noCb nest st ()).1 ()).final.idx - (next c noCb nest st ()).1.idx) (step := 1)
    have e1 : st.idx + 1 * ((next c noCb nest st ()).1.idx - st.idx) = (next c noCb nest st ()).1.idx := by omega
    have e2 : ((next c noCb nest st ()).1.idx - st.idx)
        + ((run c noCb p (next c noCb nest st ()).1 ()).final.idx - (next c noCb nest st ()).1.idx)
        = (run c noCb p (next c noCb nest st ()).1 ()).final.idx - st.idx := by omega
    rw [e1, e2] at h
    exact h

theorem foldRange_none {κ : Type} (c : Cfg) (nest a b : Nat) (k : κ) :
    foldRange c (none : Callback κ) nest a b k = k := by
  unfold foldRange
  induction List.range' a (b - a) generalizing k with
  | nil => rfl
  | cons j l ih => simp only [List.foldl_cons, fire_none]; exact ih k

theorem next_none {κ : Type} (c : Cfg) (nest : Nat) (st : PState) (k : κ) :
    next c (none : Callback κ) nest st k = ((next c noCb nest st ()).1, k) := by
  rw [next_char, foldRange_none]

theorem applyScans_log (c : Cfg) (l k : List (Nat × Nat)) :
    applyScans c (some logCb) l k = k ++ l.map (fun e => ((tokAt c.s e.1).kind, e.2)) := by
  induction l generalizing k with
  | nil => simp [applyScans]
  | cons e l ih =>
    have h : applyScans c (some logCb) (e :: l) k
        = applyScans c (some logCb) l (k ++ [((tokAt c.s e.1).kind, e.2)]) := rfl
    rw [h, ih]
    simp

/-- the state in which the grammar starts: after `p.init`'s `p.next()` -/
def afterInit (c : Cfg) : PState := (next c noCb 0 PState.init ()).1

theorem parse2_log {ρ : Type} (c : Cfg) (prog : Prog ρ) :
    (parse2 c logCb prog []).cbState
        = (scans c prog (afterInit c)).map (fun e => ((tokAt c.s e.1).kind, e.2)) ∧
    (parse2 c logCb prog []).final = (run c noCb prog (afterInit c) ()).final := by
  unfold parse2
  rw [next_none]
  simp only []
  rw [run_char]
  simp only [applyScans_log, List.nil_append]
  exact ⟨rfl, rfl⟩

/-! ## concrete witnesses (go/scanner's streams of two tiny sources, as the harness prints them) -/

/-- `package p\n` : `package`, IDENT, `;` (inserted), EOF -/
def wPackage : Array Tok := #[⟨78, 1, 1, false, 0⟩, ⟨4, 1, 1, false, 0⟩, ⟨57, 1, 1, false, 0⟩, ⟨1, 1, 1, false, 0⟩]

/-- `//line :21\n// c\npackage p\n` : the directive comment, a comment on physical line 2 that the
directive renumbers to 21, then `package p ;` EOF -/
def wDirective : Array Tok :=
  #[⟨2, 1, 1, false, 0⟩, ⟨2, 21, 2, false, 0⟩, ⟨78, 22, 3, false, 0⟩, ⟨4, 22, 3, false, 0⟩,
    ⟨57, 22, 3, false, 0⟩, ⟨1, 22, 3, false, 0⟩]

set_option linter.unusedSimpArgs false

set_option maxRecDepth 4000 in
theorem wPackage_log :
    (parse2 (forkCfg wPackage true) logCb (drain 5) []).cbState.map Prod.fst = [4, 57, 1] ∧
    (parse2 (forkCfg wPackage true) logCb (drain 5) []).final.idx = 4 := by
  simp [parse2, run, drain, next, nextK, next0_unfold, commentBranch, succK, leadK, lineBranch, lineK,
    consumeCommentGroup, groupLoop_unfold, succLoop_unfold, consumeComment, tokAt, wPackage, forkCfg,
    PState.init, tEOF, tCOMMENT, tSEMICOLON, logCb, posLine]

set_option maxRecDepth 4000 in
theorem wDirective_fork :
    (parse1 (forkCfg wDirective true) (drain 7)).final.comments = [[0], [1]] := by
  simp [parse1, run, drain, next, nextK, next0_unfold, commentBranch, succK, leadK, lineBranch, lineK,
    consumeCommentGroup, groupLoop_unfold, succLoop_unfold, consumeComment, tokAt, wDirective, forkCfg,
    PState.init, tEOF, tCOMMENT, tSEMICOLON, posLine]

set_option maxRecDepth 4000 in
theorem wDirective_std :
    (parse1 (stdCfg wDirective true) (drain 7)).final.comments = [[0, 1]] := by
  simp [parse1, run, drain, next, nextK, next0_unfold, commentBranch, succK, leadK, lineBranch, lineK,
    consumeCommentGroup, groupLoop_unfold, succLoop_unfold, consumeComment, tokAt, wDirective, stdCfg,
    PState.init, tEOF, tCOMMENT, tSEMICOLON, posLine]

theorem wPackage_lines (i : Nat) : (tokAt wPackage i).line = (tokAt wPackage i).raw := by
  rcases i with _ | _ | _ | _ | i
  · simp [tokAt, wPackage]
  · simp [tokAt, wPackage]
  · simp [tokAt, wPackage]
  · simp [tokAt, wPackage]
  · have h : ¬ (i + 1 + 1 + 1 + 1 < wPackage.size) := by simp [wPackage]
    simp only [tokAt, dif_neg h]
    simp [wPackage]

end GnoVerif.C21
