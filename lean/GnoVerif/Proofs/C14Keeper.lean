import GnoVerif.Proofs.C14State
/-! Helper lemmas for C14: what a SUCCESSFUL keeper call does to `WF` and the totals. -/
namespace GnoVerif.C14
set_option linter.unusedSimpArgs false
set_option linter.unusedVariables false

theorem creditSplit_ok (s : State) (a : Addr) (sp : Coins) (ws : List (Denom × Int))
    (h : creditSplit s a sp = .ok ws) :
    ws = sp.map (fun c => (c.denom, getSplit s a c.denom + 1 * c.amount)) := by
  induction sp generalizing ws with
  | nil => simp [creditSplit] at h; subst h; rfl
  | cons c sp ih =>
    unfold creditSplit at h
    split at h
    · split at h
      · simp at h
      · rename_i ws' hws
        simp at h; subst h
        simp [ih ws' hws]
    · simp at h

theorem debitSplit_ok (s : State) (a : Addr) (sp : Coins) (ws : List (Denom × Int))
    (h : debitSplit s a sp = .ok ws) :
    ws = sp.map (fun c => (c.denom, getSplit s a c.denom + (-1) * c.amount)) ∧
    ∀ c ∈ sp, c.amount ≤ getSplit s a c.denom := by
  induction sp generalizing ws with
  | nil => simp [debitSplit] at h; subst h; simp
  | cons c sp ih =>
    unfold debitSplit at h
    split at h
    · simp at h
    · rename_i hge
      split at h
      · simp at h
      · rename_i ws' hws
        simp at h; subst h
        have := ih ws' hws
        refine ⟨?_, ?_⟩
        · simp [this.1]; omega
        · intro x hx
          rcases List.mem_cons.1 hx with hx | hx
          · subst hx; omega
          · exact this.2 x hx

theorem nextSupply_ok (s : State) (sign : Int) (amt : Coins) (ws : List (Denom × Int))
    (h : nextSupply s sign amt = .ok ws) :
    ws = amt.map (fun c => (c.denom, getSupply s c.denom + sign * c.amount)) ∧
    ∀ c ∈ amt, 0 ≤ getSupply s c.denom + sign * c.amount ∧ getSupply s c.denom + sign * c.amount ≤ maxInt64 := by
  induction amt generalizing ws with
  | nil => simp [nextSupply] at h; subst h; simp
  | cons c amt ih =>
    unfold nextSupply at h
    split at h
    · rename_i hin
      split at h
      · simp at h
      · rename_i ws' hws
        simp at h; subst h
        have := ih ws' hws
        refine ⟨by simp [this.1], ?_⟩
        intro x hx
        rcases List.mem_cons.1 hx with hx | hx
        · subst hx
          simp [inI64] at hin
          exact ⟨hin.2, hin.1.2⟩
        · exact this.2 x hx
    · simp at h


theorem getSplit_nonneg {tier : Denom → Bool} {s : State} (h : WF tier s) (a : Addr) (d : Denom) :
    0 ≤ getSplit s a d := by
  unfold getSplit
  cases hf : find s.split (a, d) with
  | none => simp
  | some v =>
    have := h.split_pos _ (find_some_mem _ _ _ hf)
    simp; omega

theorem getSupply_nonneg {tier : Denom → Bool} {s : State} (h : WF tier s) (d : Denom) :
    0 ≤ getSupply s d := by
  unfold getSupply
  cases hf : find s.supply d with
  | none => simp
  | some v =>
    have := (h.supply_pos _ (find_some_mem _ _ _ hf)).1
    simp; omega

theorem splitTotal_congr (s1 s2 : State) (h : s1.split = s2.split) (d : Denom) :
    splitTotal s1 d = splitTotal s2 d := by unfold splitTotal; rw [h]

theorem acctTotal_congr (s1 s2 : State) (h : s1.accts = s2.accts) (d : Denom) :
    acctTotal s1 d = acctTotal s2 d := by unfold acctTotal; rw [h]

theorem getSplit_congr (s1 s2 : State) (h : s1.split = s2.split) (a : Addr) (d : Denom) :
    getSplit s1 a d = getSplit s2 a d := by unfold getSplit; rw [h]

theorem getSupply_congr (s1 s2 : State) (h : s1.supply = s2.supply) (d : Denom) :
    getSupply s1 d = getSupply s2 d := by unfold getSupply; rw [h]

theorem getAcct_congr (s1 s2 : State) (h : s1.accts = s2.accts) (a : Addr) :
    getAcct s1 a = getAcct s2 a := by unfold getAcct; rw [h]

theorem acctTierCoins_ok (tier : Denom → Bool) (x : Account) (cs : Coins)
    (h : acctTierCoins tier x = .ok cs) : cs = x.coins := by
  unfold acctTierCoins at h
  split at h <;> simp at h
  exact h.symm

/-- a successful `AddCoins` keeps the records well-formed, leaves the supply records
alone, and raises Σ balances of every denom by exactly what was credited. -/
theorem addCoins_ok {tier : Denom → Bool} {s s' : State} {a : Addr} {amt : Coins} (h : WF tier s)
    (hr : addCoins tier s a amt = (s', none)) :
    WF tier s' ∧ s'.supply = s.supply ∧ (∀ d, total s' d = total s d + sumOf amt d) ∧
    coinsValid amt = true ∧ (∀ k, (getAcct s k).isSome = true → (getAcct s' k).isSome = true) := by
  unfold addCoins at hr
  by_cases hv : coinsValid amt = true
  case neg => simp [hv] at hr
  simp only [hv, Bool.not_true, Bool.false_eq_true, ↓reduceIte] at hr
  cases hcs : creditSplit s a (amt.filter (fun c => !tier c.denom)) with
  | error f => rw [hcs] at hr; simp at hr
  | ok credited =>
    rw [hcs] at hr
    simp only at hr
    obtain ⟨hwf1, hget1, haddr1, hsplit1, hsupply1, htot1, hsome1, _⟩ := ensureAccount_spec h a
    generalize ensureAccount s a = r at hr hwf1 hget1 haddr1 hsplit1 hsupply1 htot1 hsome1
    have hcred := creditSplit_ok _ _ _ _ hcs
    have hspv := coinsValid_filter (fun c => !tier c.denom) amt hv
    have hspn := coinsValid_nodup _ hspv
    have hspm := coinsValid_mem _ hspv
    have hws : ∀ w ∈ credited, 0 ≤ w.2 ∧ validDenom w.1 = true ∧ tier w.1 = false := by
      intro w hw
      rw [hcred] at hw
      simp only [List.mem_map] at hw
      obtain ⟨c, hc, rfl⟩ := hw
      have h1 := hspm c hc
      have h2 := getSplit_nonneg h a c.denom
      have h3 : tier c.denom = false := by
        have := (List.mem_filter.1 hc).2
        simpa using this
      exact ⟨by simp; omega, h1.1, h3⟩
    have hsplitsum : sumOf amt = fun d => sumOf (amt.filter (fun c => tier c.denom)) d + sumOf (amt.filter (fun c => !tier c.denom)) d := by
      funext d; exact sumOf_filter_split (fun c => tier c.denom) amt d
    by_cases hac : (amt.filter (fun c => tier c.denom)).isEmpty = true
    · simp only [hac, ↓reduceIte] at hr
      have hs' : s' = writeSplits r.2 a credited := by
        have := congrArg Prod.fst hr; simpa using this.symm
      have hfr := writeSplits_frame r.2 a credited
      refine ⟨?_, ?_, ?_, hv, ?_⟩
      · rw [hs']; exact WF_writeSplits hwf1 a credited hws (fun _ => by rw [hget1]; rfl)
      · rw [hs', hfr.2.1, hsupply1]
      · intro d
        have hac' : amt.filter (fun c => tier c.denom) = [] := by simpa using hac
        unfold total
        rw [hs', acctTotal_congr _ _ hfr.1, htot1, hcred,
          splitTotal_writeSplits_delta s a 1 _ r.2 hspn
            (fun c _ => getSplit_congr _ _ hsplit1 a c.denom) d,
          splitTotal_congr _ _ hsplit1, hsplitsum, hac']
        simp; omega
      · intro k hk
        rw [hs', getAcct_congr _ _ hfr.1]; exact hsome1 k hk
    · simp only [hac, Bool.false_eq_true, ↓reduceIte] at hr
      cases hold : acctTierCoins tier r.1 with
      | error f => rw [hold] at hr; simp at hr
      | ok old =>
        rw [hold] at hr
        simp only at hr
        have holdeq := acctTierCoins_ok _ _ _ hold
        cases hadd : coinsAdd old (amt.filter (fun c => tier c.denom)) with
        | error f => rw [hadd] at hr; simp at hr
        | ok new =>
          rw [hadd] at hr
          simp only at hr
          have hs' : s' = writeSplits (setAccount r.2 { r.1 with coins := new }) a credited := by
            have := congrArg Prod.fst hr; simpa using this.symm
          have hao := coinsAdd_ok _ _ _ hadd
          have hr1mem : (a, r.1) ∈ r.2.accts := find_some_mem _ _ _ hget1
          have hnewtier : ∀ c ∈ new, tier c.denom = true := by
            intro c hc
            rcases (mem_addUnsafe _ _ _ hao.1 c hc).1 with ⟨x, hx, hd⟩ | ⟨y, hy, hd⟩
            · rw [← hd]; rw [holdeq] at hx
              exact (hwf1.acct_coins _ hr1mem).2 x hx
            · rw [← hd]
              have := (List.mem_filter.1 hy).2
              simpa using this
          have hwf2 : WF tier (setAccount r.2 { r.1 with coins := new }) := by
            refine WF_setAccount_existing hwf1 _ r.1 ?_ rfl hao.2 hnewtier
            show getAcct r.2 r.1.addr = some r.1
            rw [haddr1]; exact hget1
          have hfr := writeSplits_frame (setAccount r.2 { r.1 with coins := new }) a credited
          refine ⟨?_, ?_, ?_, hv, ?_⟩
          · rw [hs']
            refine WF_writeSplits hwf2 a credited hws (fun _ => ?_)
            rw [getAcct_setAccount]
            simp [haddr1]
          · rw [hs', hfr.2.1]; simp [hsupply1]
          · intro d
            unfold total
            rw [hs', acctTotal_congr _ _ hfr.1, acctTotal_setAccount, hcred,
              splitTotal_writeSplits_delta s a 1 _ _ hspn
                (fun c _ => by rw [getSplit_setAccount]; exact getSplit_congr _ _ hsplit1 a c.denom) d,
              splitTotal_setAccount, splitTotal_congr _ _ hsplit1, htot1, hsplitsum]
            have hsum := sumOf_addUnsafe _ _ _ hao.1 d
            have : getAcct r.2 ({ r.1 with coins := new } : Account).addr = some r.1 := by
              show getAcct r.2 r.1.addr = some r.1
              rw [haddr1]; exact hget1
            rw [this]
            simp only
            rw [hsum, holdeq]
            omega
          · intro k hk
            rw [hs', getAcct_congr _ _ hfr.1, getAcct_setAccount]
            split
            · rfl
            · exact hsome1 k hk


theorem getSplit_pos_account {tier : Denom → Bool} {s : State} (h : WF tier s) (a : Addr) (d : Denom)
    (hp : 0 < getSplit s a d) : (getAcct s a).isSome = true := by
  unfold getSplit at hp
  cases hf : find s.split (a, d) with
  | none => simp [hf] at hp
  | some v => exact (h.split_key _ (find_some_mem _ _ _ hf)).2.2

def accCoins : Option Account → Coins
  | some x => x.coins
  | none => []

theorem subAcctWrites_spec {tier : Denom → Bool} {s : State} (h : WF tier s) (acc : Option Account) (a : Addr)
    (up : Bool) (aw : Option Coins) (delta : Denom → Int)
    (hacc : ∀ x, acc = some x → ∃ o, getAcct s a = some o ∧ x.addr = o.addr ∧ x.num = o.num ∧ x.coins = o.coins)
    (hnone : acc = none → getAcct s a = none)
    (haw : ∀ new, aw = some new → coinsValid new = true ∧ (∀ c ∈ new, tier c.denom = true) ∧
       ∀ d, sumOf new d = sumOf (accCoins acc) d - delta d)
    (hawn : aw = none → ∀ d, delta d = 0) :
    WF tier (subAcctWrites s acc a up aw) ∧ (subAcctWrites s acc a up aw).split = s.split ∧
    (subAcctWrites s acc a up aw).supply = s.supply ∧
    (∀ d, acctTotal (subAcctWrites s acc a up aw) d = acctTotal s d - delta d) ∧
    (∀ k, (getAcct s k).isSome = true → (getAcct (subAcctWrites s acc a up aw) k).isSome = true) := by
  cases acc with
  | none =>
    have hg := hnone rfl
    have hs1 : (if up then (match (none : Option Account) with | some x => setAccount s x | none => s) else s) = s := by
      cases up <;> rfl
    cases aw with
    | none =>
      have hd := hawn rfl
      have e : subAcctWrites s none a up none = s := by simp only [subAcctWrites, hs1]
      rw [e]
      refine ⟨h, rfl, rfl, ?_, fun k hk => hk⟩
      intro d; rw [hd d]; omega
    | some new =>
      obtain ⟨hv, ht, hsum⟩ := haw new rfl
      have e : subAcctWrites s none a up (some new) =
          setAccount (ensureAccount s a).2 { (ensureAccount s a).1 with coins := new } := by
        simp only [subAcctWrites, hs1]
      rw [e]
      obtain ⟨hwf1, hget1, haddr1, hsplit1, hsupply1, htot1, hsome1, hcoins1⟩ := ensureAccount_spec h a
      generalize ensureAccount s a = r at hwf1 hget1 haddr1 hsplit1 hsupply1 htot1 hsome1 hcoins1
      have hget1' : getAcct r.2 ({ r.1 with coins := new } : Account).addr = some r.1 := by
        show getAcct r.2 r.1.addr = some r.1
        rw [haddr1]; exact hget1
      refine ⟨WF_setAccount_existing hwf1 _ r.1 hget1' rfl hv ht, ?_, ?_, ?_, ?_⟩
      · simp [hsplit1]
      · simp [hsupply1]
      · intro d
        rw [acctTotal_setAccount, hget1', htot1]
        simp only
        rw [hsum d, hcoins1 hg]
        simp [accCoins]
        omega
      · intro k hk
        rw [getAcct_setAccount]
        split
        · rfl
        · exact hsome1 k hk
  | some x =>
    obtain ⟨o, hgo, hxa, hxn, hxc⟩ := hacc x rfl
    have hom : (a, o) ∈ s.accts := find_some_mem _ _ _ hgo
    have hoa : o.addr = a := h.acct_key _ hom
    have hoc := h.acct_coins _ hom
    -- the state after the optional "upgrade" write
    have hs1 : ∃ s1 y, (if up then (match some x with | some x => setAccount s x | none => s) else s) = s1 ∧
        WF tier s1 ∧ getAcct s1 a = some y ∧ y.coins = x.coins ∧ y.num = x.num ∧ s1.split = s.split ∧
        s1.supply = s.supply ∧ (∀ d, acctTotal s1 d = acctTotal s d) ∧
        (∀ k, (getAcct s k).isSome = true → (getAcct s1 k).isSome = true) := by
      cases up with
      | false => exact ⟨s, o, rfl, h, hgo, hxc.symm, hxn.symm, rfl, rfl, fun _ => rfl, fun _ hk => hk⟩
      | true =>
        have hgx : getAcct s x.addr = some o := by rw [hxa, hoa]; exact hgo
        refine ⟨setAccount s x, x, rfl, ?_, ?_, rfl, rfl, rfl, rfl, ?_, ?_⟩
        · exact WF_setAccount_existing h x o hgx hxn (by rw [hxc]; exact hoc.1) (by rw [hxc]; exact hoc.2)
        · rw [getAcct_setAccount]; simp [hxa, hoa]
        · intro d
          rw [acctTotal_setAccount, hgx]
          simp only
          rw [hxc]; omega
        · intro k hk
          rw [getAcct_setAccount]
          split
          · rfl
          · exact hk
    obtain ⟨s1, y, hs1eq, hwf1, hgy, hyc, hyn, hsplit1, hsupply1, htot1, hsome1⟩ := hs1
    cases aw with
    | none =>
      have hd := hawn rfl
      have e : subAcctWrites s (some x) a up none = s1 := by simp only [subAcctWrites, hs1eq]
      rw [e]
      refine ⟨hwf1, hsplit1, hsupply1, ?_, hsome1⟩
      intro d; rw [htot1 d, hd d]; omega
    | some new =>
      obtain ⟨hv, ht, hsum⟩ := haw new rfl
      have e : subAcctWrites s (some x) a up (some new) = setAccount s1 { x with coins := new } := by
        simp only [subAcctWrites, hs1eq]
      rw [e]
      have hgy' : getAcct s1 ({ x with coins := new } : Account).addr = some y := by
        show getAcct s1 x.addr = some y
        rw [hxa, hoa]; exact hgy
      refine ⟨WF_setAccount_existing hwf1 _ y hgy' hyn.symm hv ht, ?_, ?_, ?_, ?_⟩
      · simp [hsplit1]
      · simp [hsupply1]
      · intro d
        rw [acctTotal_setAccount, hgy', htot1]
        simp only
        rw [hsum d, hyc]
        simp only [accCoins]
        omega
      · intro k hk
        rw [getAcct_setAccount]
        split
        · rfl
        · exact hsome1 k hk

theorem debitAcct_ok (tier : Denom → Bool) (acc : Option Account) (ac : Coins) (aw : Option Coins)
    (h : debitAcct tier acc ac = .ok aw) :
    (aw = none ∧ ac = []) ∨
    (∃ new, aw = some new ∧ coinsValid new = true ∧
      subUnsafe (accCoins acc) ac = .ok new) := by
  unfold debitAcct at h
  by_cases he : ac.isEmpty = true
  · simp only [he, ↓reduceIte] at h
    left
    refine ⟨by simpa using h.symm, by simpa using he⟩
  · simp only [he, Bool.false_eq_true, ↓reduceIte] at h
    right
    cases acc with
    | none =>
      simp only at h
      cases hsu : subUnsafe [] ac with
      | error f => rw [hsu] at h; simp at h
      | ok new =>
        rw [hsu] at h
        simp only at h
        split at h
        · rename_i hv; simp at h; exact ⟨new, h.symm, hv, by simpa [accCoins] using hsu⟩
        · simp at h
    | some x =>
      simp only at h
      cases hold : acctTierCoins tier x with
      | error f => rw [hold] at h; simp at h
      | ok old =>
        rw [hold] at h
        simp only at h
        have := acctTierCoins_ok _ _ _ hold
        subst this
        cases hsu : subUnsafe x.coins ac with
        | error f => rw [hsu] at h; simp at h
        | ok new =>
          rw [hsu] at h
          simp only at h
          split at h
          · rename_i hv; simp at h; exact ⟨new, h.symm, hv, by simpa [accCoins] using hsu⟩
          · simp at h

/-- a successful `subtract` keeps the records well-formed, leaves the supply records
alone, and lowers Σ balances of every denom by exactly what was debited. -/
theorem subtractCore_ok {tier : Denom → Bool} {s s' : State} {acc : Option Account} {a : Addr} {amt : Coins}
    {up : Bool} (h : WF tier s)
    (hacc : ∀ x, acc = some x → ∃ o, getAcct s a = some o ∧ x.addr = o.addr ∧ x.num = o.num ∧ x.coins = o.coins)
    (hnone : acc = none → getAcct s a = none)
    (hr : subtractCore tier s acc a amt up = (s', none)) :
    WF tier s' ∧ s'.supply = s.supply ∧ (∀ d, total s' d = total s d - sumOf amt d) ∧
    coinsValid amt = true ∧ (∀ k, (getAcct s k).isSome = true → (getAcct s' k).isSome = true) := by
  unfold subtractCore at hr
  by_cases hv : coinsValid amt = true
  case neg => simp [hv] at hr
  simp only [hv, Bool.not_true, Bool.false_eq_true, ↓reduceIte] at hr
  by_cases hm : addrMismatch acc a = true
  · rw [if_pos hm] at hr; simp at hr
  rw [if_neg hm] at hr
  cases hds : debitSplit s a (amt.filter (fun c => !tier c.denom)) with
  | error f => rw [hds] at hr; simp at hr
  | ok debited =>
    rw [hds] at hr
    simp only at hr
    cases hda : debitAcct tier acc (amt.filter (fun c => tier c.denom)) with
    | error f => rw [hda] at hr; simp at hr
    | ok aw =>
      rw [hda] at hr
      simp only at hr
      have hs' : s' = writeSplits (subAcctWrites s acc a up aw) a debited := by
        have := congrArg Prod.fst hr; simpa using this.symm
      have hdeb := debitSplit_ok _ _ _ _ hds
      have hspv := coinsValid_filter (fun c => !tier c.denom) amt hv
      have hspn := coinsValid_nodup _ hspv
      have hspm := coinsValid_mem _ hspv
      have hsplitsum : sumOf amt = fun d => sumOf (amt.filter (fun c => tier c.denom)) d + sumOf (amt.filter (fun c => !tier c.denom)) d := by
        funext d; exact sumOf_filter_split (fun c => tier c.denom) amt d
      -- the account-object part
      have hspec := subAcctWrites_spec h acc a up aw (fun d => sumOf (amt.filter (fun c => tier c.denom)) d) hacc hnone
        (by
          intro new hnew
          rcases debitAcct_ok _ _ _ _ hda with ⟨hn, _⟩ | ⟨new', hn, hvn, hsu⟩
          · rw [hn] at hnew; cases hnew
          · rw [hn] at hnew
            obtain rfl := Option.some.inj hnew
            refine ⟨hvn, ?_, ?_⟩
            · intro c hc
              rcases (mem_addUnsafe _ _ _ hsu c hc).1 with ⟨x, hx, hd⟩ | ⟨y, hy, hd⟩
              · rw [← hd]
                cases hacc0 : acc with
                | none => rw [hacc0] at hx; simp [accCoins] at hx
                | some x0 =>
                  obtain ⟨o, hgo, _, _, hxc⟩ := hacc x0 hacc0
                  have := (h.acct_coins _ (find_some_mem _ _ _ hgo)).2
                  rw [hacc0] at hx
                  simp only [accCoins] at hx
                  rw [hxc] at hx
                  exact this x hx
              · rw [← hd]
                simp only [negative, List.mem_map] at hy
                obtain ⟨z, hz, rfl⟩ := hy
                have := (List.mem_filter.1 hz).2
                simpa using this
            · intro d
              have := sumOf_addUnsafe _ _ _ hsu d
              rw [this, sumOf_negative]; omega)
        (by
          intro hnone' d
          rcases debitAcct_ok _ _ _ _ hda with ⟨_, hnil⟩ | ⟨new', hn, _, _⟩
          · simp [hnil]
          · rw [hn] at hnone'; cases hnone')
      obtain ⟨hwf2, hsplit2, hsupply2, htot2, hsome2⟩ := hspec
      have hws : ∀ w ∈ debited, 0 ≤ w.2 ∧ validDenom w.1 = true ∧ tier w.1 = false := by
        intro w hw
        rw [hdeb.1] at hw
        simp only [List.mem_map] at hw
        obtain ⟨c, hc, rfl⟩ := hw
        have h1 := hspm c hc
        have h2 := hdeb.2 c hc
        have h3 : tier c.denom = false := by
          have := (List.mem_filter.1 hc).2
          simpa using this
        exact ⟨by simp; omega, h1.1, h3⟩
      have hfr := writeSplits_frame (subAcctWrites s acc a up aw) a debited
      refine ⟨?_, ?_, ?_, hv, ?_⟩
      · rw [hs']
        refine WF_writeSplits hwf2 a debited hws ?_
        intro hne
        apply hsome2
        rw [hdeb.1] at hne
        cases hsp : amt.filter (fun c => !tier c.denom) with
        | nil => rw [hsp] at hne; simp at hne
        | cons c rest =>
          have hc : c ∈ amt.filter (fun c => !tier c.denom) := by rw [hsp]; simp
          have h1 := hspm c hc
          have h2 := hdeb.2 c hc
          exact getSplit_pos_account h a c.denom (by omega)
      · rw [hs', hfr.2.1, hsupply2]
      · intro d
        unfold total
        rw [hs', acctTotal_congr _ _ hfr.1, htot2, hdeb.1,
          splitTotal_writeSplits_delta s a (-1) _ _ hspn
            (fun c _ => getSplit_congr _ _ hsplit2 a c.denom) d,
          splitTotal_congr _ _ hsplit2, hsplitsum]
        simp only
        omega
      · intro k hk
        rw [hs', getAcct_congr _ _ hfr.1]; exact hsome2 k hk


theorem upgradeVesting_spec (s : State) (a : Addr) :
    (∀ x, (upgradeVesting s (getAcct s a)).1 = some x →
      ∃ o, getAcct s a = some o ∧ x.addr = o.addr ∧ x.num = o.num ∧ x.coins = o.coins) ∧
    ((upgradeVesting s (getAcct s a)).1 = none → getAcct s a = none) := by
  cases hg : getAcct s a with
  | none => simp [upgradeVesting]
  | some o =>
    unfold upgradeVesting
    cases hk : o.kind with
    | gno w => simp [hk]
    | base => simp [hk]
    | vesting l =>
      simp only [hk]
      split <;> simp

/-- a successful `SubtractCoins` / `subtractCoinsUnrestricted`. -/
theorem subtractCoins_ok {tier : Denom → Bool} {s s' : State} {a : Addr} {amt : Coins} {vest : Bool}
    (h : WF tier s) (hr : subtractCoins tier s a amt vest = (s', none)) :
    WF tier s' ∧ s'.supply = s.supply ∧ (∀ d, total s' d = total s d - sumOf amt d) ∧
    coinsValid amt = true ∧ (∀ k, (getAcct s k).isSome = true → (getAcct s' k).isSome = true) := by
  unfold subtractCoins at hr
  by_cases hv : coinsValid amt = true
  case neg => simp [hv] at hr
  simp only [hv, Bool.not_true, Bool.false_eq_true, ↓reduceIte] at hr
  have hup := upgradeVesting_spec s a
  split at hr
  · simp at hr
  · exact subtractCore_ok h hup.1 hup.2 hr

end GnoVerif.C14
