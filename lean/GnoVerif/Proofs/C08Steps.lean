import GnoVerif.Spec.C08
import GnoVerif.Proofs.C08Exec
/-! C08 — every instruction of a script, and hence every script, changes the running state
only by the atomic changes of `Spec/C08.lean` (`exec_steps`). -/
namespace GnoVerif.C08

theorem Steps.trans {env : Env} {sends : Bool} {a b c : St} (h1 : Steps env sends a b) (h2 : Steps env sends b c) : Steps env sends a c := by
  induction h2 with
  | refl => exact h1
  | tail _ hat ih => exact Steps.tail ih hat

theorem Steps.single {env : Env} {sends : Bool} {a b : St} (h : Atom env sends a b) : Steps env sends a b := Steps.tail (Steps.refl a) h

/-! ### coins -/

theorem validFrom_pos : ∀ (cs : Coins) (low : Str), validFrom low cs = true → ∀ c ∈ cs, 0 < c.amount
  | [], _, _, c, hc => by cases hc
  | x :: rest, low, h, c, hc => by
    simp only [validFrom, Bool.and_eq_true, decide_eq_true_eq] at h
    rcases List.mem_cons.mp hc with rfl | hm
    · exact h.1.2
    · exact validFrom_pos rest x.denom h.2 c hm

theorem coinsValid_pos (cs : Coins) (h : coinsValid cs = true) : ∀ c ∈ cs, 0 < c.amount := by
  cases cs with
  | nil => intro c hc; cases hc
  | cons x rest =>
    simp only [coinsValid, Bool.and_eq_true, decide_eq_true_eq] at h
    intro c hc
    rcases List.mem_cons.mp hc with rfl | hm
    · exact h.1.2
    · exact validFrom_pos rest x.denom h.2 c hm

/-! ### ledger moves -/

theorem debitAll_steps (env : Env) (sends : Bool) (a : Addr) (c : Cause) (hs : sends = true ∨ ∀ bid, c ≠ .bankerSend bid) :
    ∀ (cs : Coins) (st : St), (∀ coin ∈ cs, MoveOk st.bankers a coin.denom (-coin.amount) c) →
      Steps env sends st { st with bank := debitAll st.bank a cs c }
  | [], st, _ => by simpa [debitAll] using Steps.refl st
  | coin :: rest, st, h => by
    have h1 : Atom env sends st { st with bank := st.bank.move a coin.denom (-coin.amount) c } :=
      Atom.move st a coin.denom (-coin.amount) c (h coin (List.mem_cons_self ..)) hs
    have h2 := debitAll_steps env sends a c hs rest { st with bank := st.bank.move a coin.denom (-coin.amount) c }
      (fun x hx => h x (List.mem_cons_of_mem _ hx))
    have := Steps.trans (Steps.single h1) h2
    simpa [debitAll, List.foldl] using this

theorem creditAll_steps (env : Env) (sends : Bool) (a : Addr) (c : Cause) (hs : sends = true ∨ ∀ bid, c ≠ .bankerSend bid) :
    ∀ (cs : Coins) (st : St), (∀ coin ∈ cs, MoveOk st.bankers a coin.denom coin.amount c) →
      Steps env sends st { st with bank := creditAll st.bank a cs c }
  | [], st, _ => by simpa [creditAll] using Steps.refl st
  | coin :: rest, st, h => by
    have h1 : Atom env sends st { st with bank := st.bank.move a coin.denom coin.amount c } :=
      Atom.move st a coin.denom coin.amount c (h coin (List.mem_cons_self ..)) hs
    have h2 := creditAll_steps env sends a c hs rest { st with bank := st.bank.move a coin.denom coin.amount c }
      (fun x hx => h x (List.mem_cons_of_mem _ hx))
    have := Steps.trans (Steps.single h1) h2
    simpa [creditAll, List.foldl] using this

/-- a banker send: debits at the banker's own address, credits anywhere -/
theorem sendCoins_steps (env : Env) (st : St) (bid : Nat) (bi : BankerInfo) (s d : Addr) (amt : Coins) (bank' : Bank)
    (hb : st.bankers[bid]? = some bi) (hbt : bi.bt ≠ 0) (haddr : bi.addr = some s)
    (h : sendCoins env.restricted st.bank s d amt (.bankerSend bid) = .ok bank') :
    Steps env true st { st with bank := bank' } := by
  unfold sendCoins at h
  split at h
  · cases h; exact Steps.refl st
  · split at h
    · cases h
    unfold sendUnrestricted at h
    obtain ⟨b1, h1, h2⟩ := bind_ok h
    unfold subtractCoins at h1
    split at h1
    · cases h1
    · split at h1
      · cases h1
      · rename_i hv _
        cases h1
        unfold addCoins at h2
        split at h2
        · cases h2
        · cases h2
          have hpos : ∀ c ∈ amt, 0 < c.amount := coinsValid_pos amt (by simpa using hv)
          have s1 := debitAll_steps env true s (.bankerSend bid) (Or.inl rfl) amt st
            (fun coin _ => ⟨bi, hb, hbt, fun _ => haddr⟩)
          have s2 := creditAll_steps env true d (.bankerSend bid) (Or.inl rfl) amt { st with bank := debitAll st.bank s amt (.bankerSend bid) }
            (fun coin hc => ⟨bi, hb, hbt, fun hneg => absurd hneg (by have := hpos coin hc; omega)⟩)
          exact Steps.trans s1 s2


/-! ### banker operations -/

theorem bankerSend_steps (env : Env) (st st' : St) (b : Option Nat) (src dst : Str) (amt : Coins)
    (h : bankerSend env st b src dst amt = .ok st') : Steps env true st st' := by
  unfold bankerSend at h
  split at h
  · cases h
  · rename_i bid
    split at h
    · cases h
    · rename_i bi hbi
      split at h
      · cases h
      · split at h
        · cases h
        · rename_i hbt hfrom
          obtain ⟨spent', h1, h2⟩ := bind_ok h
          split at h2
          · rename_i s d hs hd
            obtain ⟨bank', h3, h4⟩ := bind_ok h2
            cases h4
            have haddr : bi.addr = some s := by
              simp only [Bool.or_eq_true, Option.isNone_iff_eq_none, bne_iff_ne, ne_eq, not_or, Decidable.not_not] at hfrom
              rw [hfrom.2, hs]
            have hbt' : bi.bt ≠ 0 := by simpa using hbt
            have hsp : spent' = st.spent ∨ isAllGTE env.osend spent' = true := by
              unfold originCheck at h1
              split at h1
              · split at h1
                · cases h1
                · split at h1
                  · rename_i hg; cases h1; exact Or.inr hg
                  · cases h1
              · cases h1; exact Or.inl rfl
            have s1 : Steps env true st { st with spent := spent' } := Steps.single (Atom.spent st spent' hsp rfl)
            have s2 := sendCoins_steps env { st with spent := spent' } bid bi s d amt bank' hbi hbt' haddr h3
            exact Steps.trans s1 s2
          · cases h2

theorem bankerIssue_steps (env : Env) (sends : Bool) (st st' : St) (b : Option Nat) (burn : Bool) (addr denom : Str) (amt : Int)
    (h : bankerIssue env st b burn addr denom amt = .ok st') : Steps env sends st st' := by
  unfold bankerIssue at h
  split at h
  · cases h
  · rename_i bid
    split at h
    · cases h
    · rename_i bi hbi
      split at h
      · cases h
      · rename_i hbt
        have hbt3 : bi.bt = 3 := by simpa using hbt
        split at h
        · cases h
        · cases h
        · rename_i hden
          have hiss : issuable bi.path denom = true := by simp [issuable, hden, Except.isOk, Except.toBool]
          split at h
          · cases h
          · rename_i a ha
            split at h
            · cases h
            · rename_i bank' h1
              cases h
              cases burn with
              | true =>
                simp only [if_true] at h1
                unfold burnCoin at h1
                split at h1
                · cases h1
                · split at h1
                  · cases h1
                  · split at h1
                    · cases h1
                    · cases h1
                      have a1 : Atom env sends st { st with bank := st.bank.move a denom (-amt) (.burn bid) } :=
                        Atom.move st a denom (-amt) (.burn bid) ⟨bi, hbi, hbt3, hiss⟩ (Or.inr (fun _ hh => by cases hh))
                      have a2 := Atom.supply (env := env) (sends := sends) { st with bank := st.bank.move a denom (-amt) (.burn bid) } denom
                        (st.bank.led.supply denom - amt) ⟨bid, bi, hbi, hbt3, hiss⟩
                      exact Steps.tail (Steps.single a1) a2
              | false =>
                simp only [Bool.false_eq_true, if_false] at h1
                unfold mintCoin at h1
                split at h1
                · cases h1
                · rename_i hv
                  split at h1
                  · cases h1
                  · cases h1
                    have hpos : 0 < amt := by
                      have := coinsValid_pos [⟨denom, amt⟩] (by simpa using hv) ⟨denom, amt⟩ (List.mem_cons_self ..)
                      simpa using this
                    have a1 : Atom env sends st { st with bank := st.bank.move a denom amt (.mint bid) } :=
                      Atom.move st a denom amt (.mint bid) ⟨hpos, bi, hbi, hbt3, hiss⟩ (Or.inr (fun _ hh => by cases hh))
                    have a2 := Atom.supply (env := env) (sends := sends) { st with bank := st.bank.move a denom amt (.mint bid) } denom
                      (st.bank.led.supply denom + amt) ⟨bid, bi, hbi, hbt3, hiss⟩
                    exact Steps.tail (Steps.single a1) a2


/-! ### realm values and NewBanker -/

theorem isCurrent_currentAt (st : St) (stack : List Nat) (t : Nat) (ti : TokInfo)
    (ht : st.toks[t]? = some ti) (h : isCurrent st stack t = true) : CurrentAt ti t (stack.head?.getD 0) := by
  unfold isCurrent at h
  split at h
  · rename_i top ti' hs htok
    have : ti' = ti := by
      unfold St.tok at htok; rw [ht] at htok; exact (Option.some.inj htok).symm
    subst this
    rw [hs]
    simp only [Option.getD_some]
    split at h
    · rename_i parent name hk
      have : parent = top := by simpa using h
      subst this
      exact Or.inr ⟨name, hk⟩
    · rename_i hk
      exact Or.inl ⟨hk, by simpa using h⟩
    · cases h
  · cases h

theorem subTok_steps (env : Env) (sends : Bool) (st st' : St) (cx : Ctx) (recv : Option Nat) (name : Str) (t : Nat)
    (h : subTok env st cx recv name = .ok (t, st')) : Steps env sends st st' := by
  unfold subTok at h
  split at h
  · cases h
  · rename_i r
    split at h
    · cases h
    · rename_i ri hri
      simp only at h
      split at h
      · cases h
      · split at h
        · cases h
        · split at h
          · cases h
          · rename_i hhost
            split at h
            · cases h
            · split at h
              · cases h
              · rename_i top htop
                split at h
                · cases h
                · rename_i hid
                  split at h
                  · cases h
                  · rename_i heph
                    split at h
                    · cases h
                    · rename_i hown
                      simp only [St.addTok, Except.ok.injEq, Prod.mk.injEq] at h
                      obtain ⟨_, rfl⟩ := h
                      simp only [Bool.or_eq_true, bne_iff_ne, ne_eq, not_or, Decidable.not_not] at hid
                      apply Steps.single
                      apply Atom.tok
                      right
                      refine ⟨r, name, ri, rfl, ?_, hid.2, rfl, rfl, ?_, ?_, ?_, ?_, rfl⟩
                      · simpa [St.tok] using hri
                      · simpa using hown
                      · simp [hid.1]
                      · simpa using heph
                      · simpa using hhost

theorem prevTok_ok (st : St) (recv : Option Nat) (p : Nat) (h : prevTok st recv = .ok p) :
    ∃ r ri, recv = some r ∧ st.toks[r]? = some ri ∧ ri.prev = some p := by
  unfold prevTok at h
  split at h
  · cases h
  · rename_i r
    split at h
    · cases h
    · rename_i ri hri
      split at h
      · cases h
      · rename_i p' hp
        cases h
        exact ⟨r, ri, rfl, by simpa [St.tok] using hri, hp⟩

theorem evalRV_steps (env : Env) (sends : Bool) (st st' : St) (cx : Ctx) (rv : RV) (t : Option Nat)
    (h : evalRV env st cx rv = .ok (t, st')) : Steps env sends st st' := by
  cases rv with
  | c => simp only [evalRV, Except.ok.injEq, Prod.mk.injEq] at h; rw [← h.2]; exact Steps.refl _
  | a => simp only [evalRV, Except.ok.injEq, Prod.mk.injEq] at h; rw [← h.2]; exact Steps.refl _
  | p =>
    simp only [evalRV] at h
    cases hp : prevTok st cx.me with
    | error e => simp [hp, Except.map] at h
    | ok v => simp [hp, Except.map] at h; rw [← h.2]; exact Steps.refl _
  | q =>
    simp only [evalRV] at h
    cases hp : prevTok st cx.arg with
    | error e => simp [hp, Except.map] at h
    | ok v => simp [hp, Except.map] at h; rw [← h.2]; exact Steps.refl _
  | s name =>
    simp only [evalRV] at h
    cases hp : subTok env st cx cx.me name with
    | error e => simp [hp, Except.map] at h
    | ok v =>
      obtain ⟨t', st1⟩ := v
      simp [hp, Except.map] at h
      rw [← h.2]; exact subTok_steps env sends st st1 cx cx.me name t' hp
  | t name =>
    simp only [evalRV] at h
    cases hp : subTok env st cx cx.arg name with
    | error e => simp [hp, Except.map] at h
    | ok v =>
      obtain ⟨t', st1⟩ := v
      simp [hp, Except.map] at h
      rw [← h.2]; exact subTok_steps env sends st st1 cx cx.arg name t' hp

theorem newBanker_steps (env : Env) (sends : Bool) (st st' : St) (cx : Ctx) (bt : Nat) (rlm : Option Nat) (bid : Nat)
    (h : newBanker st cx bt rlm = .ok (bid, st')) : Steps env sends st st' := by
  unfold newBanker at h
  simp only at h
  split at h
  · cases h
  · rename_i hb0
    split at h
    · cases h
    · rename_i hb4
      split at h
      · cases h
      · rename_i t
        split at h
        · cases h
        · rename_i ti hti
          have hti' : st.toks[t]? = some ti := by simpa [St.tok] using hti
          split at h
          · cases h
          · rename_i hcur
            split at h
            · cases h
            · rename_i hsub
              have hcur' : CurrentAt ti t (cx.stack.head?.getD 0) :=
                isCurrent_currentAt st cx.stack t ti hti' (by simpa using hcur)
              have hhash : bt % 256 ≠ 2 → hasHash ti.path = false := by
                intro hne
                simp only [Bool.and_eq_true, bne_iff_ne, ne_eq, not_and, Bool.not_eq_true] at hsub
                exact hsub hne
              have mkStep : ∀ (hu : bt % 256 = 1 → ∃ p pi, ti.prev = some p ∧ st.toks[p]? = some pi ∧ pi.path = []),
                  Steps env sends st (st.addBanker ⟨bt % 256, some ti.addr, ti.path, .minted t (cx.stack.head?.getD 0)⟩).2 := by
                intro hu
                apply Steps.single
                simp only [St.addBanker]
                apply Atom.banker
                right
                exact ⟨t, _, ti, rfl, hti', rfl, rfl, by show 1 ≤ bt % 256; omega, by show bt % 256 ≤ 3; omega, hcur', hhash, hu⟩
              split at h
              · rename_i hb1
                split at h
                · cases h
                · rename_i uc huc
                  split at h
                  · rename_i hucT
                    simp only [Except.ok.injEq] at h
                    have hs := congrArg Prod.snd h
                    simp only at hs
                    subst hs
                    apply mkStep
                    intro _
                    unfold prevIsUserCall at huc
                    split at huc
                    · cases huc
                    · rename_i p hp
                      split at huc
                      · cases huc
                      · rename_i pi hpi
                        simp only [Except.ok.injEq] at huc
                        refine ⟨p, pi, hp, by simpa [St.tok] using hpi, ?_⟩
                        rw [hucT] at huc
                        simpa using huc
                  · cases h
              · rename_i hb1
                simp only [Except.ok.injEq] at h
                have hs := congrArg Prod.snd h
                simp only at hs
                subst hs
                exact mkStep (fun h1 => absurd h1 hb1)


/-! ### params, primitive instructions, call plans -/

theorem setParam_steps (env : Env) (sends : Bool) (st st' : St) (realm key : Str) (n : Nat)
    (h : setParam st realm key n = .ok st') : Steps env sends st st' := by
  unfold setParam at h
  split at h
  · cases h
  · cases h
    exact Steps.single (Atom.params st _ _)

theorem prim_steps (env : Env) (sends : Bool) (cx : Ctx) (b : Option Nat) (i : Ins) (st : St) (b' : Option Nat) (st' : St)
    (hs : sends = true ∨ ∀ src dst amt, i ≠ .sd src dst amt)
    (h : prim env cx b i st = .ok (b', st')) : Steps env sends st st' := by
  cases i with
  | nb bt rv =>
    simp only [prim] at h
    obtain ⟨⟨t, st1⟩, h1, h2⟩ := bind_ok h
    obtain ⟨⟨bid, st2⟩, h3, h4⟩ := bind_ok h2
    simp only [pure, Except.pure, Except.ok.injEq, Prod.mk.injEq] at h4
    rw [← h4.2]
    exact Steps.trans (evalRV_steps env sends st st1 cx rv t h1) (newBanker_steps env sends st1 st2 cx bt t bid h3)
  | ro =>
    simp only [prim, readonlyBanker, St.addBanker, Except.ok.injEq, Prod.mk.injEq] at h
    rw [← h.2]
    exact Steps.single (Atom.banker st _ (Or.inl ⟨rfl, rfl, rfl⟩))
  | ld i =>
    simp only [prim] at h
    obtain ⟨x, _, h2⟩ := bind_ok h
    simp only [pure, Except.pure, Except.ok.injEq, Prod.mk.injEq] at h2
    rw [← h2.2]; exact Steps.refl _
  | lg i =>
    simp only [prim] at h
    obtain ⟨x, _, h2⟩ := bind_ok h
    simp only [pure, Except.pure, Except.ok.injEq, Prod.mk.injEq] at h2
    rw [← h2.2]; exact Steps.refl _
  | ub =>
    simp only [prim, Except.ok.injEq, Prod.mk.injEq] at h
    rw [← h.2]; exact Steps.refl _
  | sd src dst amt =>
    simp only [prim] at h
    obtain ⟨st1, h1, h2⟩ := bind_ok h
    simp only [pure, Except.pure, Except.ok.injEq, Prod.mk.injEq] at h2
    rw [← h2.2]
    rcases hs with rfl | hs
    · exact bankerSend_steps env st st1 b src dst amt h1
    · exact absurd rfl (hs src dst amt)
  | is addr denom amt =>
    simp only [prim] at h
    obtain ⟨st1, h1, h2⟩ := bind_ok h
    simp only [pure, Except.pure, Except.ok.injEq, Prod.mk.injEq] at h2
    rw [← h2.2]; exact bankerIssue_steps env sends st st1 b false addr denom amt h1
  | rm addr denom amt =>
    simp only [prim] at h
    obtain ⟨st1, h1, h2⟩ := bind_ok h
    simp only [pure, Except.pure, Except.ok.injEq, Prod.mk.injEq] at h2
    rw [← h2.2]; exact bankerIssue_steps env sends st st1 b true addr denom amt h1
  | ps key n =>
    simp only [prim] at h
    split at h
    · cases h
    · split at h
      · cases h
      · rename_i ti _
        obtain ⟨st1, h1, h2⟩ := bind_ok h
        simp only [pure, Except.pure, Except.ok.injEq, Prod.mk.injEq] at h2
        rw [← h2.2]; exact setParam_steps env sends st st1 ti.path key n h1
  | cb => simp [prim] at h
  | x _ _ _ => simp [prim] at h
  | bad => simp [prim] at h

theorem crossCtx_steps (env : Env) (sends : Bool) (st : St) (cx : Ctx) (path : Str) (p : Nat) (arg bk : Option Nat) (cb : Option Clo) :
    Steps env sends st (crossCtx st cx path p arg bk cb).2 := by
  simp only [crossCtx, enterCross, St.addTok]
  exact Steps.single (Atom.tok st _ (Or.inl ⟨rfl, rfl⟩))

theorem planCall_steps (env : Env) (sends : Bool) (st : St) (cx : Ctx) (b : Option Nat) (mode : Mode) (tgt : Tgt) (cx' : Ctx) (st' : St)
    (h : planCall env st cx b mode tgt = .ok (cx', st')) : Steps env sends st st' := by
  unfold planCall at h
  split at h
  · cases h
  · rename_i path _
    have fin : ∀ (st0 : St) (p : Nat) (arg bk : Option Nat) (cb : Option Clo),
        (pure (crossCtx st0 cx path p arg bk cb) : Except Fail (Ctx × St)) = .ok (cx', st') → Steps env sends st0 st' := by
      intro st0 p arg bk cb hh
      simp only [pure, Except.pure, Except.ok.injEq] at hh
      have := crossCtx_steps env sends st0 cx path p arg bk cb
      rw [hh] at this; exact this
    cases mode with
    | bad => simp at h
    | c => simp only at h; obtain ⟨p, _, h2⟩ := bind_ok h; exact fin _ _ _ _ _ h2
    | ca => simp only at h; obtain ⟨p, _, h2⟩ := bind_ok h; exact fin _ _ _ _ _ h2
    | cg => simp only at h; obtain ⟨p, _, h2⟩ := bind_ok h; exact fin _ _ _ _ _ h2
    | cp =>
      simp only at h
      obtain ⟨pv, _, h2⟩ := bind_ok h
      obtain ⟨p, _, h3⟩ := bind_ok h2
      exact fin _ _ _ _ _ h3
    | cs name =>
      simp only at h
      obtain ⟨⟨s, st1⟩, h1, h2⟩ := bind_ok h
      obtain ⟨p, _, h3⟩ := bind_ok h2
      exact Steps.trans (subTok_steps env sends st st1 cx cx.me name s h1) (fin _ _ _ _ _ h3)
    | n => simp only [Except.ok.injEq, Prod.mk.injEq] at h; rw [← h.2]; exact Steps.refl _
    | ng => simp only [Except.ok.injEq, Prod.mk.injEq] at h; rw [← h.2]; exact Steps.refl _
    | k body => simp only at h; obtain ⟨p, _, h2⟩ := bind_ok h; exact fin _ _ _ _ _ h2

/-- every successful run of a script is a finite sequence of atomic changes -/
theorem exec_steps (env : Env) (f : Nat) (cx : Ctx) (b : Option Nat) (prog : List Ins) (st st' : St)
    (h : exec env f cx b prog st = .ok st') : Steps env true st st' :=
  exec_preserves env (fun s => Steps env true st s)
    (fun cx b i s b' s' hp hs => Steps.trans hs (prim_steps env true cx b i s b' s' (Or.inl rfl) hp))
    (fun s cx b mode tgt cx' s' hp hs => Steps.trans hs (planCall_steps env true s cx b mode tgt cx' s' hp))
    f cx b prog st st' h (Steps.refl st)

end GnoVerif.C08
